#!/usr/bin/env python3
"""Audit of the Lean side of one property: forbidden constructs (outside comments) and the axioms
every property theorem depends on.  Prints one JSON object; exit 0 = clean."""
import json
import os
import re
import subprocess
import sys

HERE = os.path.dirname(os.path.abspath(__file__))
LEAN = os.path.join(HERE, "..", "lean")
ALLOWED = {"propext", "Classical.choice", "Quot.sound"}
FORBIDDEN = [r"\bsorry\b", r"\badmit\b", r"^\s*axiom\s", r"\bnative_decide\b", r"\bbv_decide\b", r"implemented_by", r"\bunsafe\s",
             r"maxHeartbeats\s+0\b", r"\bextern\b"]


def strip_comments(src):
    out = []
    i, n, depth = 0, len(src), 0
    while i < n:
        if src.startswith("/-", i):
            depth += 1
            i += 2
        elif depth and src.startswith("-/", i):
            depth -= 1
            i += 2
        elif depth:
            if src[i] == "\n":
                out.append("\n")
            i += 1
        elif src.startswith("--", i):
            while i < n and src[i] != "\n":
                i += 1
        elif src[i] == '"':
            j = i + 1
            while j < n and src[j] != '"':
                j += 2 if src[j] == "\\" else 1
            out.append('""')
            i = j + 1
        else:
            out.append(src[i])
            i += 1
    return "".join(out)


def lean_files():
    for root, _, files in os.walk(os.path.join(LEAN, "Grexv")):
        for f in files:
            if f.endswith(".lean"):
                yield os.path.join(root, f)
    yield os.path.join(LEAN, "Main.lean")


def main():
    prop = sys.argv[1]
    result = {"property": prop, "forbidden": [], "theorems": [], "examples": 0, "bad_axioms": [], "errors": []}
    for path in lean_files():
        src = strip_comments(open(path, encoding="utf-8").read())
        rel = os.path.relpath(path, LEAN)
        for pat in FORBIDDEN:
            for m in re.finditer(pat, src, re.M):
                line = src.count("\n", 0, m.start()) + 1
                result["forbidden"].append(f"{rel}:{line}: {m.group(0).strip()}")
        if re.search(r"\bpartial\s+def\b", src) and not (rel.endswith("Driver.lean") or rel == "Main.lean"):
            result["forbidden"].append(f"{rel}: partial def outside the driver")
    pfile = os.path.join(LEAN, "Grexv", "Props", f"{prop}.lean")
    if not os.path.exists(pfile):
        result["errors"].append(f"{pfile} missing")
        print(json.dumps(result))
        return 1
    src = strip_comments(open(pfile, encoding="utf-8").read())
    names = re.findall(r"^\s*(?:private\s+)?theorem\s+([A-Za-z_][A-Za-z0-9_'.]*)", src, re.M)
    result["examples"] = len(re.findall(r"^\s*example\b", src, re.M))
    ns = re.search(r"^namespace\s+(\S+)", src, re.M)
    prefix = ns.group(1) + "." if ns else ""
    tmp = os.path.join(LEAN, f".audit_{prop}.lean")
    with open(tmp, "w") as f:
        f.write(f"import Grexv.Props.{prop}\n")
        for n in names:
            f.write(f"#print axioms {prefix}{n}\n")
    try:
        r = subprocess.run(["lake", "env", "lean", tmp], cwd=LEAN, capture_output=True, text=True, timeout=600)
    finally:
        os.remove(tmp)
    out = r.stdout + r.stderr
    if r.returncode != 0:
        result["errors"].append(out[-2000:])
    blocks = re.split(r"(?=^'[^']+' (?:depends on axioms|does not depend on any axioms))", out, flags=re.M)
    seen = {}
    for b in blocks:
        m = re.match(r"'([^']+)' (depends on axioms: \[([^\]]*)\]|does not depend on any axioms)", b, re.S)
        if not m:
            continue
        axioms = set(a.strip() for a in (m.group(3) or "").replace("\n", " ").split(",") if a.strip())
        seen[m.group(1)] = sorted(axioms)
        bad = axioms - ALLOWED
        if bad:
            result["bad_axioms"].append({"theorem": m.group(1), "axioms": sorted(bad)})
    for n in names:
        full = prefix + n
        result["theorems"].append({"name": full, "axioms": seen.get(full)})
        if full not in seen:
            result["errors"].append(f"no axiom report for {full}")
    result["obligations"] = len(names) + result["examples"]
    ok = not (result["forbidden"] or result["bad_axioms"] or result["errors"])
    result["discharged"] = result["obligations"] if ok else 0
    print(json.dumps(result, indent=1))
    return 0 if ok else 1


if __name__ == "__main__":
    sys.exit(main())
