#!/usr/bin/env python3
"""Translator: /repo sources (and the regex-syntax version pinned in /repo/Cargo.lock)
-> generated Lean data under lean/Grexv/Gen/.  Standard library only.

It reads a small explicit subset of Rust and fails loudly (exit 3, message naming the
construct) outside it.  Files are only rewritten when their content changes.
"""
import glob
import os
import re
import sys

REPO = os.environ.get("GREX_REPO", "/repo")
HERE = os.path.dirname(os.path.abspath(__file__))
GEN = os.path.join(HERE, "..", "lean", "Grexv", "Gen")


class TranslateError(Exception):
    pass


def read(path):
    with open(path, encoding="utf-8") as f:
        return f.read()


def write_if_changed(name, text):
    os.makedirs(GEN, exist_ok=True)
    path = os.path.join(GEN, name)
    old = read(path) if os.path.exists(path) else None
    if old != text:
        with open(path, "w", encoding="utf-8") as f:
            f.write(text)
        return True
    return False


# ------------------------------------------------------------------ Rust literals
SIMPLE_ESC = {"n": "\n", "r": "\r", "t": "\t", "\\": "\\", "'": "'", '"': '"', "0": "\0"}


def parse_char_at(s, i, where):
    """s[i] is the opening quote of a char literal; returns (code point, index after)."""
    assert s[i] == "'"
    i += 1
    if s[i] == "\\":
        i += 1
        if s[i] == "u":
            m = re.match(r"u\{([0-9a-fA-F_]+)\}", s[i:])
            if not m:
                raise TranslateError(f"{where}: bad \\u escape")
            cp = int(m.group(1).replace("_", ""), 16)
            i += m.end()
        elif s[i] == "x":
            cp = int(s[i + 1:i + 3], 16)
            i += 3
        elif s[i] in SIMPLE_ESC:
            cp = ord(SIMPLE_ESC[s[i]])
            i += 1
        else:
            raise TranslateError(f"{where}: unknown escape \\{s[i]}")
    else:
        cp = ord(s[i])
        i += 1
    if s[i] != "'":
        raise TranslateError(f"{where}: unterminated char literal")
    return cp, i + 1


def parse_str_at(s, i, where):
    """s[i] is the opening double quote of a string literal; returns (list of code points, index after)."""
    assert s[i] == '"'
    i += 1
    out = []
    while s[i] != '"':
        if s[i] == "\\":
            i += 1
            if s[i] == "u":
                m = re.match(r"u\{([0-9a-fA-F_]+)\}", s[i:])
                if not m:
                    raise TranslateError(f"{where}: bad \\u escape")
                out.append(int(m.group(1).replace("_", ""), 16))
                i += m.end()
            elif s[i] == "\n":  # line continuation
                i += 1
                while s[i] in " \t\n":
                    i += 1
            elif s[i] in SIMPLE_ESC:
                out.append(ord(SIMPLE_ESC[s[i]]))
                i += 1
            else:
                raise TranslateError(f"{where}: unknown escape \\{s[i]}")
        else:
            out.append(ord(s[i]))
            i += 1
    return out, i + 1


def strip_comments(src):
    out = []
    i = 0
    n = len(src)
    while i < n:
        c = src[i]
        if c == "/" and src.startswith("//", i):
            while i < n and src[i] != "\n":
                i += 1
        elif c == "/" and src.startswith("/*", i):
            j = src.find("*/", i + 2)
            i = n if j < 0 else j + 2
        elif c == "r" and re.match(r'r(#*)"', src[i:]) and (i == 0 or not (src[i - 1].isalnum() or src[i - 1] == "_")):
            hashes = re.match(r'r(#*)"', src[i:]).group(1)
            j = src.index('"' + hashes, i + 2 + len(hashes)) + 1 + len(hashes)
            out.append(src[i:j])
            i = j
        elif c == '"':
            _, j = parse_str_at(src, i, "string")
            out.append(src[i:j])
            i = j
        elif c == "'" and re.match(r"'(\\.[^']*|[^\\'])'", src[i:]):
            m = re.match(r"'(\\.[^']*|[^\\'])'", src[i:])
            out.append(m.group(0))
            i += m.end()
        else:
            out.append(c)
            i += 1
    return "".join(out)


def range_table(path, name):
    src = strip_comments(read(path))
    m = re.search(r"pub const " + name + r":\s*&(?:'static\s*)?\[\(char,\s*char\)\]\s*=\s*&\[", src)
    if not m:
        raise TranslateError(f"{path}: constant {name} of type &[(char, char)] not found")
    i = m.end()
    rows = []
    while True:
        while src[i] in " \t\n,":
            i += 1
        if src[i] == "]":
            break
        if src[i] != "(":
            raise TranslateError(f"{path}:{name}: expected '(' at offset {i}")
        i += 1
        while src[i] in " \t\n":
            i += 1
        a, i = parse_char_at(src, i, f"{path}:{name}")
        while src[i] in " \t\n,":
            i += 1
        b, i = parse_char_at(src, i, f"{path}:{name}")
        while src[i] in " \t\n":
            i += 1
        if src[i] != ")":
            raise TranslateError(f"{path}:{name}: expected ')'")
        i += 1
        rows.append((a, b))
    return rows


def fold_table(path):
    src = strip_comments(read(path))
    m = re.search(r"pub const CASE_FOLDING_SIMPLE:[^=]*=\s*&\[", src)
    if not m:
        raise TranslateError(f"{path}: CASE_FOLDING_SIMPLE not found")
    i = m.end()
    rows = []
    while True:
        while src[i] in " \t\n,":
            i += 1
        if src[i] == "]":
            break
        if src[i] != "(":
            raise TranslateError(f"{path}: expected '('")
        i += 1
        a, i = parse_char_at(src, i, path)
        while src[i] in " \t\n,&":
            i += 1
        if src[i] != "[":
            raise TranslateError(f"{path}: expected '['")
        i += 1
        tgt = []
        while True:
            while src[i] in " \t\n,":
                i += 1
            if src[i] == "]":
                i += 1
                break
            c, i = parse_char_at(src, i, path)
            tgt.append(c)
        while src[i] in " \t\n":
            i += 1
        if src[i] != ")":
            raise TranslateError(f"{path}: expected ')'")
        i += 1
        rows.append((a, tgt))
    return rows


# ------------------------------------------------------------------ Lean emission
CHUNK = 150


def lean_pairs(name, rows, doc):
    out = [f"/-- {doc} -/"]
    chunks = [rows[i:i + CHUNK] for i in range(0, len(rows), CHUNK)] or [[]]
    for k, ch in enumerate(chunks):
        body = ", ".join(f"({a}, {b})" for a, b in ch)
        out.append(f"def {name}_{k} : List (Nat × Nat) := [{body}]")
    out.append(f"def {name} : List (Nat × Nat) := " + " ++ ".join(f"{name}_{k}" for k in range(len(chunks))))
    return "\n".join(out) + "\n"


def lean_fold(name, rows, doc):
    out = [f"/-- {doc} -/"]
    chunks = [rows[i:i + CHUNK] for i in range(0, len(rows), CHUNK)] or [[]]
    for k, ch in enumerate(chunks):
        body = ", ".join(f"({a}, [{', '.join(map(str, t))}])" for a, t in ch)
        out.append(f"def {name}_{k} : List (Nat × List Nat) := [{body}]")
    out.append(f"def {name} : List (Nat × List Nat) := " + " ++ ".join(f"{name}_{k}" for k in range(len(chunks))))
    out.append(f"/-- the same table in pieces (two-level look-up in kernel-evaluated checks) -/\ndef {name}Chunks : List (List (Nat × List Nat)) := [" + ", ".join(f"{name}_{k}" for k in range(len(chunks))) + "]")
    return "\n".join(out) + "\n"


def regex_syntax_dir():
    lock = read(os.path.join(REPO, "Cargo.lock"))
    m = re.search(r'name = "regex-syntax"\nversion = "([^"]+)"', lock)
    if not m:
        raise TranslateError("Cargo.lock: regex-syntax not found")
    ver = m.group(1)
    cands = glob.glob(os.path.expanduser(f"~/.cargo/registry/src/*/regex-syntax-{ver}"))
    if not cands:
        raise TranslateError(f"regex-syntax {ver} sources not in the offline registry")
    return ver, cands[0]


def gen_tables():
    ut = os.path.join(REPO, "src", "unicode_tables")
    text = "-- GENERATED by tools/translate.py from /repo/src/unicode_tables/*.rs — do not edit\nnamespace Grexv.Gen\n\n"
    text += lean_pairs("grexDigit", range_table(os.path.join(ut, "decimal.rs"), "DECIMAL_NUMBER"), "`DECIMAL_NUMBER` of grex")
    text += lean_pairs("grexSpace", range_table(os.path.join(ut, "space.rs"), "WHITE_SPACE"), "`WHITE_SPACE` of grex")
    text += lean_pairs("grexWord", range_table(os.path.join(ut, "word.rs"), "WORD"), "`WORD` of grex")
    text += "\nend Grexv.Gen\n"
    write_if_changed("Tables.lean", text)

    ver, d = regex_syntax_dir()
    rt = os.path.join(d, "src", "unicode_tables")
    text = f"-- GENERATED by tools/translate.py from regex-syntax {ver} (version pinned in /repo/Cargo.lock) — do not edit\nnamespace Grexv.Gen\n\n"
    text += f'def regexSyntaxVersion : String := "{ver}"\n'
    text += lean_pairs("rxDigit", range_table(os.path.join(rt, "perl_decimal.rs"), "DECIMAL_NUMBER"), "`\\\\d` of the regex crate")
    text += lean_pairs("rxSpace", range_table(os.path.join(rt, "perl_space.rs"), "WHITE_SPACE"), "`\\\\s` of the regex crate")
    text += lean_pairs("rxWord", range_table(os.path.join(rt, "perl_word.rs"), "PERL_WORD"), "`\\\\w` of the regex crate")
    text += lean_fold("rxFold", fold_table(os.path.join(rt, "case_folding_simple.rs")), "simple case folding orbits of the regex crate")
    text += "\nend Grexv.Gen\n"
    write_if_changed("RegexTables.lean", text)


def gen_std():
    """Tables extracted exhaustively (all scalar values) by `gv extract` from the std / unic crates the
    harness is linked with."""
    path = os.environ.get("GV_STD_TABLES", os.path.join(HERE, "..", "build", "std_tables.txt"))
    if not os.path.exists(path):
        raise TranslateError(f"{path} missing: run `gv extract` first")
    mark, ws, lower = [], [], []
    for line in read(path).splitlines():
        f = line.split()
        if f[0] == "M":
            mark.append((int(f[1]), int(f[2])))
        elif f[0] == "W":
            ws.append((int(f[1]), int(f[2])))
        elif f[0] == "L":
            lower.append((int(f[1]), [int(x) for x in f[2:]]))
    text = "-- GENERATED by tools/translate.py from the exhaustive extraction `gv extract` — do not edit\nnamespace Grexv.Gen\n\n"
    text += lean_pairs("markOrOther", mark, "`GeneralCategory::of(c).is_mark() || .is_other()` (unic-ucd-category), all scalar values")
    text += lean_pairs("stdWhitespace", ws, "`char::is_whitespace`, all scalar values")
    text += lean_fold("stdLower", lower, "`char::to_lowercase` where it is not the identity, all scalar values")
    text += "\nend Grexv.Gen\n"
    write_if_changed("StdTables.lean", text)


def main():
    try:
        gen_tables()
        gen_std()
        import translate_src
        translate_src.generate(sys.modules[__name__])
    except TranslateError as e:
        print(f"translate: {e}", file=sys.stderr)
        sys.exit(3)


if __name__ == "__main__":
    sys.path.insert(0, HERE)
    main()
