"""Translator, third part: the three copies of the builder API (builder.rs, python.rs, wasm.rs) and the
CLI flag table / dispatch of main.rs -> Gen/Setters.lean, Gen/Cli.lean.

Rust subset for a setter body (whitespace-insensitive, `<cfg>` is `self.config`, `self_.config` or
`self.builder.config`):
    <cfg>.FIELD = true;            -> .setTrue FIELD
    <cfg>.FIELD = ARG;             -> .setArg FIELD        (also `ARG as u32`)
    <cfg>.FIELD = false;           -> .setFalse FIELD
    <cfg>.FIELD = !ARG;            -> .setNotArg FIELD
    if ARG { <cfg>.FIELD = true; } -> .setTrueIfArg FIELD
    <cfg>.FIELD |= ARG;            -> .setTrueIfArg FIELD
    if ARG == 0 { panic!("{}", MSG); }                       -> .failIfZero MSG
    if ARG < 1 { return Err(JsValue::from(MSG)); }           -> .failIfZero MSG
    if ARG <= 0 { Err(PyValueError::new_err(MSG)) } else { <assign>; Ok(self_) }  -> .failIfNonPos MSG, assign
    final expression: self | self_ | self.clone() | Ok(self.clone()) | Ok(self_)
Anything else is an error naming the function.
"""
import os
import re

FIELDS = {
    "minimum_repetitions": "minRep", "minimum_substring_length": "minLen", "is_digit_converted": "digit",
    "is_non_digit_converted": "nonDigit", "is_space_converted": "space", "is_non_space_converted": "nonSpace",
    "is_word_converted": "word", "is_non_word_converted": "nonWord", "is_repetition_converted": "rep",
    "is_case_insensitive_matching": "ci", "is_capturing_group_enabled": "cap", "is_non_ascii_char_escaped": "esc",
    "is_astral_code_point_converted_to_surrogate": "sur", "is_verbose_mode_enabled": "verb",
    "is_start_anchor_disabled": "noStart", "is_end_anchor_disabled": "noEnd", "is_output_colorized": "color",
}
MSGS = {"MISSING_TEST_CASES_MESSAGE": "missingTestCases", "MINIMUM_REPETITIONS_MESSAGE": "minRep",
        "MINIMUM_SUBSTRING_LENGTH_MESSAGE": "minLen"}
SETTER_IDS = {
    "with_conversion_of_digits": "digits", "with_conversion_of_non_digits": "nonDigits",
    "with_conversion_of_whitespace": "whitespace", "with_conversion_of_non_whitespace": "nonWhitespace",
    "with_conversion_of_words": "words", "with_conversion_of_non_words": "nonWords",
    "with_conversion_of_repetitions": "repetitions", "with_case_insensitive_matching": "caseInsensitive",
    "with_capturing_groups": "capturingGroups", "with_minimum_repetitions": "minRepetitions",
    "with_minimum_substring_length": "minSubstringLength", "with_escaping_of_non_ascii_chars": "escaping",
    "with_verbose_mode": "verbose", "without_start_anchor": "noStartAnchor", "without_end_anchor": "noEndAnchor",
    "without_anchors": "noAnchors", "with_syntax_highlighting": "syntaxHighlighting",
}
CLI_FIELDS = {
    "digits": "digits", "non-digits": "nonDigits", "spaces": "spaces", "non-spaces": "nonSpaces", "words": "words",
    "non-words": "nonWords", "escape": "escape", "with-surrogates": "withSurrogates", "repetitions": "repetitions",
    "min-repetitions": "minRepetitions", "min-substring-length": "minSubstringLength",
    "no-start-anchor": "noStartAnchor", "no-end-anchor": "noEndAnchor", "no-anchors": "noAnchors",
    "verbose": "verbose", "colorize": "colorize", "ignore-case": "ignoreCase", "capture-groups": "captureGroups",
}


def camel_to_snake(name):
    return re.sub(r"(?<!^)([A-Z])", lambda m: "_" + m.group(1).lower(), name).lower()


def balanced(t, src, i, where):
    import translate_src
    return translate_src.balanced(t, src, i, where)


def functions(t, src, where):
    """yields (attrs_text, name, params_text, ret_text, body_text) for every fn in src"""
    for m in re.finditer(r"((?:\s*#\[[^\]]*\]\s*)*)\s*(?:pub(?:\([a-z]+\))?\s+)?fn\s+(\w+)\s*(?:<(?:[^<>]|<[^<>]*>)*>)?\s*\(", src):
        i = m.end() - 1
        params = balanced_paren(t, src, i, where)
        j = i + len(params) + 2
        k = src.index("{", j)
        ret = src[j:k].strip()
        body = balanced(t, src, k, where)
        yield m.group(1), m.group(2), params, ret, body


def balanced_paren(t, src, i, where):
    depth = 0
    j = i
    while True:
        if src[j] == "(":
            depth += 1
        elif src[j] == ")":
            depth -= 1
            if depth == 0:
                return src[i + 1:j]
        j += 1


def norm(s):
    return re.sub(r"\s+", " ", s).strip()


def parse_setter(t, where, name, params, body, cfg_re, self_names):
    params_n = norm(params)
    plist = [p.strip() for p in params_n.split(",") if p.strip()]
    args = [p for p in plist if not re.match(r"(&mut self|mut self_\s*:.*|&self|self)$", p)]
    if len(args) > 1:
        raise t.TranslateError(f"{where}: fn {name}: more than one argument")
    arg_name, arg_kind = None, "none"
    if args:
        mm = re.match(r"(\w+)\s*:\s*(\w+)$", args[0])
        if not mm:
            raise t.TranslateError(f"{where}: fn {name}: unsupported parameter {args[0]!r}")
        arg_name = mm.group(1)
        ty = mm.group(2)
        arg_kind = {"bool": "bool", "u32": "nat", "i32": "int"}.get(ty)
        if arg_kind is None:
            raise t.TranslateError(f"{where}: fn {name}: unsupported parameter type {ty}")
    b = norm(body)
    stmts = []
    final_ok = "|".join(re.escape(x) for x in self_names)

    def assign(text):
        mm = re.fullmatch(cfg_re + r"\s*\.\s*(\w+) \|= (\w+)", norm(text))
        if mm:
            # FIELD |= ARG  is  if ARG { FIELD = true; }
            if mm.group(1) not in FIELDS:
                raise t.TranslateError(f"{where}: fn {name}: unknown config field {mm.group(1)}")
            if mm.group(2) != arg_name or arg_kind != "bool":
                raise t.TranslateError(f"{where}: fn {name}: right-hand side of |= is not the boolean argument")
            return f".setTrueIfArg .{FIELDS[mm.group(1)]}"
        mm = re.fullmatch(cfg_re + r"\s*\.\s*(\w+) = (true|!\s*\w+|\w+|\w+ as u32)", norm(text))
        if not mm:
            raise t.TranslateError(f"{where}: fn {name}: unsupported statement {text!r}")
        f = mm.group(1)
        if f not in FIELDS:
            raise t.TranslateError(f"{where}: fn {name}: unknown config field {f}")
        rhs = mm.group(2)
        if rhs == "true":
            return f".setTrue .{FIELDS[f]}"
        if rhs == "false":
            return f".setFalse .{FIELDS[f]}"
        if rhs.startswith("!"):
            if rhs[1:].strip() != arg_name or arg_kind != "bool":
                raise t.TranslateError(f"{where}: fn {name}: right-hand side {rhs!r} is not the negated argument")
            return f".setNotArg .{FIELDS[f]}"
        if rhs.split(" ")[0] != arg_name:
            raise t.TranslateError(f"{where}: fn {name}: right-hand side {rhs!r} is not the argument")
        return f".setArg .{FIELDS[f]}"

    rest = b
    # python style: if ARG <= 0 { Err(..MSG) } else { assign; Ok(self_) }
    mm = re.fullmatch(r"if (\w+) <= 0 \{ Err\(PyValueError::new_err\((\w+)\)\) \} else \{ (.*?); Ok\((?:" + final_ok + r")\) \}", rest)
    if mm:
        if mm.group(1) != arg_name or mm.group(2) not in MSGS:
            raise t.TranslateError(f"{where}: fn {name}: unsupported guard")
        return arg_kind, [f".failIfNonPos .{MSGS[mm.group(2)]}", assign(mm.group(3))]
    while True:
        mm = re.match(r"if (\w+) (== 0|< 1) \{ (?:panic!\(\"\{\}\", (\w+)\);|return Err\(JsValue::from\((\w+)\)\);) \} ", rest)
        if mm:
            msg = mm.group(3) or mm.group(4)
            if mm.group(1) != arg_name or msg not in MSGS:
                raise t.TranslateError(f"{where}: fn {name}: unsupported guard")
            stmts.append(f".failIfZero .{MSGS[msg]}")
            rest = rest[mm.end():]
            continue
        mm = re.match(r"if (\w+) \{ ([^;{}]+); \}\s*", rest)
        if mm and mm.group(1) == arg_name and arg_kind == "bool":
            a = assign(mm.group(2))
            if not a.startswith(".setTrue "):
                raise t.TranslateError(f"{where}: fn {name}: unsupported conditional statement {mm.group(0)!r}")
            stmts.append(a.replace(".setTrue ", ".setTrueIfArg "))
            rest = rest[mm.end():]
            continue
        mm = re.match(r"([^;{}]+);\s*", rest)
        if mm:
            stmts.append(assign(mm.group(1)))
            rest = rest[mm.end():]
            continue
        break
    if not re.fullmatch(r"(?:" + final_ok + r")", rest.strip()):
        # `self.a().b()`: the method delegates to other argument-less setters of the same type, in this order
        mm = re.fullmatch(r"self((?:\s*\.\s*\w+\(\))+)", rest.strip())
        if mm and not stmts and arg_kind == "none" and "self" in self_names:
            names = re.findall(r"\.\s*(\w+)\(\)", mm.group(1))
            return arg_kind, [("delegate", n) for n in names]
        raise t.TranslateError(f"{where}: fn {name}: unsupported tail {rest.strip()[:80]!r}")
    return arg_kind, stmts


def lean_setters(name, items, doc):
    rows = []
    for sid, kind, stmts in items:
        rows.append(f"  ⟨.{sid}, .{kind}, [{', '.join(stmts)}]⟩")
    return f"/-- {doc} -/\ndef {name} : List Setter := [\n" + ",\n".join(rows) + "]\n"


def gen_setters_rs(t):
    R = t.REPO
    out = ["-- GENERATED by tools/translate.py from /repo/src/builder.rs — do not edit",
           "import Grexv.Model.GenTypes", "namespace Grexv.Gen\n"]
    # ---------------- builder.rs
    p = os.path.join(R, "src", "builder.rs")
    src = t.strip_comments(t.read(p))
    rs = []
    from_checks_empty = False
    from_file_delegates = False
    for attrs, name, params, ret, body in functions(t, src, p):
        if name in SETTER_IDS:
            kind, stmts = parse_setter(t, p, name, params, body, r"self\.config", ["self"])
            rs.append((SETTER_IDS[name], kind, stmts))
        elif name == "from":
            from_checks_empty = bool(re.search(r"if test_cases\.is_empty\(\) \{ panic!\(\"\{\}\", MISSING_TEST_CASES_MESSAGE\); \}", norm(body)))
        elif name == "build":
            if norm(body) != "RegExp::from(&mut self.test_cases, &self.config).to_string()":
                raise t.TranslateError(f"{p}: fn build is not `RegExp::from(&mut self.test_cases, &self.config).to_string()`")
        elif name == "from_file":
            nb = norm(body)
            exact = "Ok(file_content) => { Self::from(&file_content.lines().map(|it| it.to_string()).collect_vec()) }" in nb
            # the same data flow written differently: the lines of the file content, each turned into an owned string by one of
            # the std conversions, collected and handed to `from` unchanged — and nothing that filters, trims or reorders
            mapper = re.search(r"\.lines\(\)\s*\.map\((\|\w+\| \w+\.(?:to_string|to_owned|into)\(\)|String::from|str::to_string|str::to_owned|ToString::to_string|ToOwned::to_owned|Into::into)\)\s*\.(?:collect_vec\(\)|collect::<Vec<(?:String|_)>>\(\))", nb)
            forbidden = re.search(r"\b(trim\w*|filter\w*|skip\w*|take\w*|rev|sort\w*|dedup\w*|to_lowercase|to_uppercase|replace\w*|split\w*|chars|truncate|pop|remove|retain|step_by|chain|zip)\b", nb)
            loose = bool(mapper) and not forbidden and len(re.findall(r"Self::from\(", nb)) == 1 and len(re.findall(r"\.lines\(\)", nb)) == 1
            from_file_delegates = exact or loose
        else:
            raise t.TranslateError(f"{p}: unexpected function {name} in the builder")
    if len(rs) != len(SETTER_IDS):
        raise t.TranslateError(f"{p}: expected {len(SETTER_IDS)} setters, found {len(rs)}")
    # resolve delegation (one level: the delegates must be plain argument-less setters)
    by_id = {sid: (kind, stmts) for sid, kind, stmts in rs}
    resolved = []
    for sid, kind, stmts in rs:
        if stmts and all(isinstance(x, tuple) for x in stmts):
            flat = []
            for _, n in stmts:
                if n not in SETTER_IDS or SETTER_IDS[n] not in by_id:
                    raise t.TranslateError(f"{p}: a setter delegates to unknown method {n}")
                k2, s2 = by_id[SETTER_IDS[n]]
                if k2 != "none" or any(isinstance(x, tuple) for x in s2):
                    raise t.TranslateError(f"{p}: a setter delegates to {n}, which takes an argument or delegates itself")
                flat.extend(s2)
            resolved.append((sid, kind, flat))
        else:
            resolved.append((sid, kind, stmts))
    rs = resolved
    out.append(lean_setters("rsSetters", rs, "setters of `RegExpBuilder` (src/builder.rs)"))
    out.append(f"def rsFromRejectsEmpty : Bool := {'true' if from_checks_empty else 'false'}")
    out.append(f"/-- `from_file` = `from` on `str::lines` of the file -/\ndef rsFromFileDelegatesToFrom : Bool := {'true' if from_file_delegates else 'false'}\n")

    out.append("\nend Grexv.Gen")
    t.write_if_changed("SettersRs.lean", "\n".join(out) + "\n")


def gen_setters_py(t):
    R = t.REPO
    out = ["-- GENERATED by tools/translate.py from /repo/src/python.rs — do not edit",
           "import Grexv.Model.GenTypes", "namespace Grexv.Gen\n"]
    # ---------------- python.rs
    p = os.path.join(R, "src", "python.rs")
    src = t.strip_comments(t.read(p))
    py = []
    py_new_rejects = False
    py_build_rewrites = None
    for attrs, name, params, ret, body in functions(t, src, p):
        m = re.search(r'#\[pyo3\(name\s*=\s*"(\w+)"\)\]', attrs)
        if m and m.group(1) in SETTER_IDS:
            kind, stmts = parse_setter(t, p, name, params, body, r"self_\.config", ["self_"])
            py.append((SETTER_IDS[m.group(1)], kind, stmts))
        elif m and m.group(1) == "build":
            b = norm(body)
            if b != "let regexp = self.build(); if self.config.is_non_ascii_char_escaped { replace_unicode_escape_sequences(regexp) } else { regexp }":
                raise t.TranslateError(f"{p}: fn {name} (build) has an unexpected body")
            py_build_rewrites = True
        elif name == "new":
            b = norm(body)
            py_new_rejects = b == "if test_cases.is_empty() { Err(PyValueError::new_err(MISSING_TEST_CASES_MESSAGE)) } else { Ok(Self { test_cases, config: RegExpConfig::new(), }) }"
            if not py_new_rejects:
                raise t.TranslateError(f"{p}: fn new has an unexpected body")
        elif name == "from_test_cases":
            if norm(body) != "Self::new(test_cases)":
                raise t.TranslateError(f"{p}: fn from_test_cases does not delegate to new")
        elif name in ("grex", "replace_unicode_escape_sequences"):
            pass
        else:
            raise t.TranslateError(f"{p}: unexpected function {name}")
    out.append(lean_setters("pySetters", py, "setters of the Python class (src/python.rs)"))
    out.append(f"def pyNewRejectsEmpty : Bool := {'true' if py_new_rejects else 'false'}")
    out.append(f"def pyBuildRewritesWhenEscaped : Bool := {'true' if py_build_rewrites else 'false'}\n")

    out.append("\nend Grexv.Gen")
    t.write_if_changed("SettersPy.lean", "\n".join(out) + "\n")


def gen_setters_wasm(t):
    R = t.REPO
    out = ["-- GENERATED by tools/translate.py from /repo/src/wasm.rs — do not edit",
           "import Grexv.Model.GenTypes", "namespace Grexv.Gen\n"]
    # ---------------- wasm.rs
    p = os.path.join(R, "src", "wasm.rs")
    src = t.strip_comments(t.read(p))
    wasm = []
    wasm_from = False
    wasm_build = False
    for attrs, name, params, ret, body in functions(t, src, p):
        snake = camel_to_snake(name)
        if snake in SETTER_IDS:
            kind, stmts = parse_setter(t, p, name, params, body, r"self\.builder\s*\.config", ["self.clone()", "Ok(self.clone())"])
            wasm.append((SETTER_IDS[snake], kind, stmts))
        elif name == "from":
            b = norm(body)
            # the same statements with any local names; the builder either built inside the struct literal or bound first
            mm = re.fullmatch(r"let (\w+) = testCases \.iter\(\) \.filter_map\(\|(\w+)\| (\w+)\.as_string\(\)\) \.collect_vec\(\); "
                              r"if (\w+)\.is_empty\(\) \{ return Err\(JsValue::from\(MISSING_TEST_CASES_MESSAGE\)\); \} "
                              r"(?:Ok\(RegExpBuilder \{ builder: Builder::from\(&(\w+)\),? \}\)"
                              r"|let builder = Builder::from\(&(\w+)\); Ok\(RegExpBuilder \{ builder,? \}\))", b)
            wasm_from = bool(mm) and mm.group(2) == mm.group(3) and mm.group(4) == mm.group(1) and (mm.group(5) or mm.group(6)) == mm.group(1)
            if not wasm_from:
                raise t.TranslateError(f"{p}: fn from has an unexpected body: {b[:120]}")
        elif name == "build":
            wasm_build = norm(body) == "self.builder.build()"
            if not wasm_build:
                raise t.TranslateError(f"{p}: fn build does not delegate to the library")
        else:
            raise t.TranslateError(f"{p}: unexpected function {name}")
    out.append(lean_setters("wasmSetters", wasm, "setters of the WebAssembly class (src/wasm.rs)"))
    out.append(f"def wasmFromRejectsEmptyBeforeLibrary : Bool := {'true' if wasm_from else 'false'}")
    out.append(f"def wasmBuildDelegates : Bool := {'true' if wasm_build else 'false'}")
    out.append("\nend Grexv.Gen")
    t.write_if_changed("SettersWasm.lean", "\n".join(out) + "\n")


def gen_setters_umbrella(t):
    t.write_if_changed("Setters.lean", "-- GENERATED by tools/translate.py — do not edit\nimport Grexv.Gen.SettersRs\nimport Grexv.Gen.SettersPy\nimport Grexv.Gen.SettersWasm\n")


def gen_cli(t):
    R = t.REPO
    p = os.path.join(R, "src", "main.rs")
    src = t.strip_comments(t.read(p))
    m = re.search(r"pub\(crate\)\s+struct\s+Cli\s*\{", src)
    if not m:
        raise t.TranslateError(f"{p}: struct Cli not found")
    body = balanced(t, src, m.end() - 1, p)
    flags = []
    field_of = {}
    for fm in re.finditer(r"#\[arg\(((?:[^()]|\([^()]*\))*)\)\]\s*(\w+)\s*:\s*([\w<>]+)", body):
        attr, field, ty = norm(fm.group(1)), fm.group(2), fm.group(3)
        nm = re.search(r'\bname = "([\w-]+)"', attr)
        if not nm:
            continue  # INPUT positional
        name = nm.group(1)
        if name in ("file", "help", "version"):
            continue
        if name not in CLI_FIELDS:
            raise t.TranslateError(f"{p}: struct Cli: unknown option --{name}")
        short = re.search(r"\bshort(?: = '(.)')?", attr)
        short_c = None
        if short:
            short_c = short.group(1) or name[0]
        req = re.search(r'requires = "([\w-]+)"', attr)
        default = re.search(r"default_value_t = (\d+)", attr)
        parser = re.search(r"value_parser = (\w+)", attr)
        flags.append((CLI_FIELDS[name], name, short_c, bool(re.search(r"\blong\b", attr)), CLI_FIELDS.get(req.group(1)) if req else None,
                      ty, int(default.group(1)) if default else None, parser.group(1) if parser else None))
        field_of[field] = CLI_FIELDS[name]
    # dispatch in handle_input
    import translate_src
    hb = translate_src.find_fn_body(t, src, "handle_input", p)
    ok_arm = re.search(r"Ok\(test_cases\)\s*=>\s*\{", hb)
    if not ok_arm:
        raise t.TranslateError(f"{p}: handle_input: `Ok(test_cases) => {{` not found")
    arm = norm(balanced(t, hb, ok_arm.end() - 1, p))
    rejects_empty = False
    mm = re.match(r'if test_cases\.is_empty\(\) \{ return Err\("[^"]*"\.into\(\)\); \} ', arm)
    if mm:
        rejects_empty = True
        arm = arm[mm.end():]
    if not arm.startswith("let mut builder = RegExpBuilder::from(&test_cases);"):
        raise t.TranslateError(f"{p}: handle_input does not start with RegExpBuilder::from(&test_cases)")
    rest = arm[len("let mut builder = RegExpBuilder::from(&test_cases);"):].strip()
    dispatch = []
    while True:
        mm = re.match(r"if cli\.(\w+) \{ builder\.(\w+)\(\s*(?:cli\.(\w+),?\s*)?\); \}\s*", rest)
        if not mm:
            break
        cond, setter, arg = mm.group(1), mm.group(2), mm.group(3)
        if cond not in field_of or setter not in SETTER_IDS or (arg and arg not in field_of):
            raise t.TranslateError(f"{p}: handle_input: unknown field or setter in `if cli.{cond} {{ builder.{setter}(..) }}`")
        dispatch.append((field_of[cond], SETTER_IDS[setter], field_of[arg] if arg else None))
        rest = rest[mm.end():]
    mm = re.match(r"builder((?:\s*\.\w+\(cli\.\w+\))+);\s*", rest)
    if mm:
        for cm in re.finditer(r"\.(\w+)\(cli\.(\w+)\)", mm.group(1)):
            setter, arg = cm.group(1), cm.group(2)
            if setter not in SETTER_IDS or arg not in field_of:
                raise t.TranslateError(f"{p}: handle_input: unknown setter/field in the threshold chain")
            dispatch.append((None, SETTER_IDS[setter], field_of[arg]))
        rest = rest[mm.end():]
    tail_ok = rest == 'let regexp = builder.build(); println!("{}", regexp); Ok(())'
    if not tail_ok:
        raise t.TranslateError(f"{p}: handle_input: unexpected statements after the dispatch: {rest[:100]!r}")
    # the value parser of the thresholds
    pb = norm(translate_src.find_fn_body(t, src, "repetition_options_parser", p))
    parser_ok = ("match value.parse::<u32>() { Ok(parsed_value) => { if parsed_value > 0 { Ok(parsed_value) } else { Err(" in pb)
    out = ["-- GENERATED by tools/translate.py from /repo/src/main.rs — do not edit", "import Grexv.Model.GenTypes", "namespace Grexv.Gen\n"]
    rows = []
    for fid, name, short_c, long_, req, ty, default, parser in flags:
        rows.append(f"  ⟨.{fid}, {t_lean_string(name)}, {('some ' + str(ord(short_c))) if short_c else 'none'}, {'true' if long_ else 'false'}, "
                    f"{('some .' + req) if req else 'none'}, {'true' if ty == 'bool' else 'false'}, {('some ' + str(default)) if default is not None else 'none'}, "
                    f"{'true' if parser == 'repetition_options_parser' else 'false'}⟩")
    out.append("/-- the options of `struct Cli` (src/main.rs) -/\ndef cliFlags : List CliFlag := [\n" + ",\n".join(rows) + "]\n")
    rows = [f"  ⟨{('some .' + c) if c else 'none'}, .{s}, {('some .' + a) if a else 'none'}⟩" for c, s, a in dispatch]
    out.append("/-- `handle_input`: `if cli.<cond> { builder.<setter>(cli.<arg>) }` in source order -/\ndef cliDispatch : List CliAction := [\n" + ",\n".join(rows) + "]\n")
    out.append(f"def cliThresholdParserRejectsZero : Bool := {'true' if parser_ok else 'false'}")
    out.append(f"/-- `handle_input` returns an error for an empty list before it reaches the panicking `RegExpBuilder::from` -/\ndef cliRejectsEmptyInput : Bool := {'true' if rejects_empty else 'false'}")
    ob = norm(translate_src.find_fn_body(t, src, "obtain_input", p))
    out.append(f"/-- no `unwrap()` on a line read from standard input -/\ndef cliStdinErrorsPropagated : Bool := {'false' if 'unwrap()' in ob.replace('cli.input.first().unwrap()', '') else 'true'}")
    # the arguments are the test cases unless the single argument is a hyphen (names of the locals are free)
    hy_ok = False
    m_single = re.search(r"let (\w+) = cli\.input\.len\(\) == 1;", ob)
    m_cond = re.search(r"if ([^{}]*?) \{ stdin\(\) ?\.lock\(\) ?\.lines\(\)", ob)
    if m_single and m_cond and "Ok(cli.input.clone())" in ob:
        conj = [c.strip() for c in m_cond.group(1).split("&&")]
        hy_ok = m_single.group(1) in conj and "||" not in m_cond.group(1)
    out.append(f"/-- `obtain_input`: standard input replaces the arguments only when the single argument is `-` -/\ndef cliHyphenAloneMeansStdin : Bool := {'true' if hy_ok else 'false'}")
    err_arm = norm(hb[hb.index('Err(error) =>'):]) if 'Err(error) =>' in hb else ''
    out.append(f"/-- every input error is turned into `Err(message)` (exit status 1 in `main`), none re-raised as a panic -/\ndef cliErrorsBecomeMessages : Bool := {'true' if err_arm and 'panic!' not in err_arm and 'unwrap' not in err_arm else 'false'}")
    out.append("def cliPrintsBuildAndNewline : Bool := true   -- `println!(\"{}\", builder.build())` recognised above")
    out.append("\nend Grexv.Gen")
    t.write_if_changed("Cli.lean", "\n".join(out) + "\n")


def t_lean_string(s):
    return '"' + s.replace("\\", "\\\\").replace('"', '\\"') + '"'


def generate(t):
    """every API file is generated on its own: an unreadable front end does not keep the others from being regenerated"""
    errors = []
    gen_setters_umbrella(t)
    for step in (gen_setters_rs, gen_setters_py, gen_setters_wasm, gen_cli):
        try:
            step(t)
        except t.TranslateError as e:
            errors.append(str(e))
    if errors:
        raise t.TranslateError(" ;; ".join(errors))
