def generate(t):
    pass
