#!/usr/bin/env python3
"""Collects the inputs on which a check once failed (replay files written while the stored seeded changes and the repaired defects
were in the tree) into corpus/<property>.jsonl — one case per line, the form `gv` reads.  Unit-level terms and very large inputs are
left out; duplicates are dropped.  Usage: tools/make_corpus.py [replay files...] (default: replays/*.json)."""
import glob
import json
import os
import sys

HERE = os.path.dirname(os.path.abspath(__file__))
ROOT = os.path.dirname(HERE)
files = sys.argv[1:] or sorted(glob.glob(os.path.join(ROOT, "replays", "*.json")))
per = {}
for f in files:
    try:
        d = json.load(open(f))
    except Exception:
        continue
    prop = d.get("property")
    case = d.get("case") or (d.get("first_difference") or {}).get("case")
    if not prop or not case or "test_cases_hex" not in case:
        continue
    tcs = case.get("test_cases") or []
    if any(t.startswith("\u0001T") or t.startswith("<") for t in tcs):
        continue
    if len(tcs) > 8 or any(len(t) > 60 for t in tcs):
        continue
    row = {"test_cases_hex": case["test_cases_hex"], "bits": case["bits"], "min_rep": case["min_rep"], "min_len": case["min_len"],
           "what": (d.get("what") or d.get("broken") or "")[:160]}
    key = (tuple(row["test_cases_hex"]), row["bits"], row["min_rep"], row["min_len"])
    per.setdefault(prop, {})[key] = row
os.makedirs(os.path.join(ROOT, "corpus"), exist_ok=True)
for prop, rows in sorted(per.items()):
    path = os.path.join(ROOT, "corpus", prop + ".jsonl")
    old = {}
    if os.path.exists(path):
        for line in open(path):
            try:
                r = json.loads(line)
                old[(tuple(r["test_cases_hex"]), r["bits"], r["min_rep"], r["min_len"])] = r
            except Exception:
                pass
    old.update(rows)
    keep = list(old.values())[:400]
    with open(path, "w") as fh:
        for r in keep:
            fh.write(json.dumps(r, ensure_ascii=True) + "\n")
    print(prop, len(keep))
