#!/bin/bash
# usage: tools/try_patch.sh <patch.diff> <property>...   — applies a seeded change to /repo, runs the
# named checks, and always restores /repo's working tree afterwards.
set -u
patch="$1"; shift
cd /verif
# evidence of runs against a changed tree never lands in /verif/evidence
export VERIF_EVIDENCE_DIR=/verif/build/evidence_scratch
git -C /repo apply "$patch" || { echo "patch does not apply"; exit 3; }
# restore the tree and regenerate the Lean data from it, so that a later bare `lake build` sees the unchanged source
trap 'git -C /repo checkout -- . ; git -C /repo status --short | head -3; python3 /verif/tools/translate.py >/dev/null 2>&1' EXIT
for p in "$@"; do
  out=$(./check "$p" 2>&1); rc=$?
  echo "== $p exit=$rc"
  echo "$out" | grep -E "^(VIOLATION|# C)" | cut -c1-400 | head -6
done
