#!/usr/bin/env python3
"""Generate v-parametric copies (RV v instead of R) of the theorems of the -r print->parse chain."""
import re, sys
import os
ROOT=os.path.join(os.path.dirname(os.path.abspath(__file__)), '..', 'lean', 'Grexv', 'Lemmas', '')
FILES=['PrintCountG','LitR','PrintParseR','PrintParseTopR','SafeR']
START=re.compile(r'^(theorem|def|structure|inductive|abbrev|mutual|instance)\b')
def chunks(text):
    """split into (kind, text) top-level chunks; docstrings stay with the following declaration"""
    lines=text.split('\n')
    out=[]; cur=[]; i=0
    def flush():
        nonlocal cur
        if cur: out.append('\n'.join(cur)); cur=[]
    in_mutual=False; in_comment=False
    pending_doc=[]
    while i<len(lines):
        l=lines[i]
        if in_mutual:
            cur.append(l)
            if l.strip()=='end':
                in_mutual=False; flush()
            i+=1; continue
        if l.startswith('/--') or l.startswith('/-!') or l.startswith('/-'):
            flush()
            # read whole comment
            doc=[l]
            while '-/' not in lines[i]:
                i+=1; doc.append(lines[i])
            if l.startswith('/--'):
                pending_doc=doc
            else:
                out.append('\n'.join(doc))
            i+=1; continue
        if START.match(l) or l.startswith('open ') and False:
            flush()
            cur=pending_doc+[l]; pending_doc=[]
            if l.startswith('mutual'): in_mutual=True
            i+=1; continue
        if re.match(r'^(import|namespace|end |open |set_option|variable)',l):
            flush(); out.append(l); i+=1; continue
        cur.append(l); i+=1
    flush()
    return out
def decl_names(ch):
    return re.findall(r'^(?:theorem|structure|def|inductive|abbrev)\s+([A-Za-z_][\w.\']*)', ch, re.M)
def is_thm_or_struct(ch):
    body=re.sub(r'/--.*?-/','',ch,flags=re.S)
    kinds=re.findall(r'^(theorem|def|structure|inductive|abbrev)\b', body, re.M)
    return kinds and all(k in ('theorem','structure') for k in kinds)
allchunks={}
for f in FILES:
    allchunks[f]=chunks(open(ROOT+f+'.lean').read())
selected=set()
RPAT=re.compile(r'(?<![\w.])R [\(\[]|(?<![\w.])R_(append|nil|flatMap|quantText|lp|id)\b|RV_false')
changed=True
def mentions(ch,names):
    for n in names:
        if re.search(r'(?<![\w.])'+re.escape(n)+r'(?![\w\'])', ch): return True
    return False
while changed:
    changed=False
    for f in FILES:
        for ch in allchunks[f]:
            ns=decl_names(ch)
            if not ns or not is_thm_or_struct(ch): continue
            if all(n in selected for n in ns): continue
            if RPAT.search(ch) or mentions(ch, selected):
                for n in ns: selected.add(n)
                changed=True
EXCLUDE={'counted_grapheme_exact','parse_printedR','parse_printedAR','printed_exactAR','flags_printedAR','R_quantText','fullMatch_items_anchC'}
selected-=EXCLUDE
names_sorted=sorted(selected,key=len,reverse=True)
def transform(ch):
    t=ch
    # uses and declarations
    for n in names_sorted:
        pat=re.compile(r'(?<![\w.])'+re.escape(n)+r'(?![\w\'])')
        t=pat.sub(n+'V v', t)
    t=re.sub(r'^(theorem|structure) ([\w.\']+)V v', r'\1 \2V (v : Bool)', t, flags=re.M)
    t=re.sub(r'(?<![\w.])R \(', 'RV v (', t)
    t=re.sub(r'(?<![\w.])R \[', 'RV v [', t)
    for a in ['append','nil','flatMap','quantText','lp']:
        t=re.sub(r'(?<![\w.])R_'+a+r'\b', 'RV_'+a+' v', t)
    t=re.sub(r'\b(lex_grapheme|R_escape_head|R_escape_len|R_escape_head40|lex_class|fmtClass_text) false\b', r'\1 v', t)
    # drop the RV_false rewrites
    t=re.sub(r'^\s*rw \[RV_false\] at \w+\n', '', t, flags=re.M)
    t=re.sub(r'^(\s*)rwa \[RV_false\] at (\w+)\n', r'\1exact \2\n', t, flags=re.M)
    t=re.sub(r'rw \[← RV_false \([^\]]*\), ', 'rw [', t)
    t=re.sub(r'(RV v \[[0-9, ]+\] = \[[0-9, ]+\] := by) decide', r'\1 cases v <;> decide', t)
    t=re.sub(r'(show RV v \[[0-9, ]+\] = \[[0-9, ]+\] from by) decide', r'\1 cases v <;> decide', t)
    t=re.sub(r'(\(RV v \[[0-9, ]+\]\)\.length = \d+ := by) decide', r'\1 cases v <;> decide', t)
    return t
PRELUDE=r'''theorem RV_quantText (v : Bool) (mn mx : Nat) : RV v (quantText mn mx) = quantText mn mx := by
  have hd : ∀ c, 48 ≤ c ∧ c ≤ 57 → c ≠ 11 ∧ c ≠ 12 ∧ c ≠ 35 ∧ c ≠ 32 ∧ Gen.verboseSpaces.contains c = false := by
    intro c hc
    refine ⟨by omega, by omega, by omega, by omega, ?_⟩
    have : ∀ d, d < 10 → Gen.verboseSpaces.contains (48 + d) = false := by decide
    have := this (c - 48) (by omega)
    rwa [show 48 + (c - 48) = c by omega] at this
  cases v with
  | false => exact R_quantText mn mx
  | true =>
    apply RV_id
    intro c hc
    unfold quantText at hc
    split at hc
    · simp only [List.append_assoc, List.cons_append, List.nil_append, List.mem_cons, List.mem_append, List.mem_nil_iff, or_false] at hc
      rcases hc with rfl | hc | rfl | hc | rfl
      · decide
      · exact hd c (toDec_digits mn c hc)
      · decide
      · exact hd c (toDec_digits mx c hc)
      · decide
    · simp only [List.append_assoc, List.cons_append, List.nil_append, List.mem_cons, List.mem_append, List.mem_nil_iff, or_false] at hc
      rcases hc with rfl | hc | rfl
      · decide
      · exact hd c (toDec_digits mn c hc)
      · decide

'''
if __name__=='__main__':
    print(sorted(selected), file=sys.stderr)
    for f in FILES:
        out=[]
        for ch in allchunks[f]:
            ns=decl_names(ch)
            if ns and is_thm_or_struct(ch) and any(n in selected for n in ns):
                out.append(transform(ch))
        prev={'PrintCountG':None,'LitR':'PrintCountGV','PrintParseR':'LitRV','PrintParseTopR':'PrintParseRV','SafeR':'PrintParseTopRV'}[f]
        hdr='import Grexv.Lemmas.SafeR\nimport Grexv.Lemmas.XStruct\n'+(f'import Grexv.Lemmas.{prev}\n' if prev else '')
        hdr+=f'\n/-\nGenerated from `{f}.lean` by `tools/vify.py`: the theorems of the `-r` print → parse chain that mention the character rewriting\n`R` of `Display for RegExp`, once more for `RV v` — with `v = true` the rewritings of verbose mode (`\\\\#`, `\\\\ `, `\\\\u{{…}}` of the other\nwhite space).  The statements and proofs are those of the original file with `R` replaced; definitions are shared.\n-/\nset_option linter.unusedSimpArgs false\nset_option linter.unusedVariables false\nnamespace Grexv\nopen Spec\n\n'
        if f=='PrintCountG': hdr+=PRELUDE
        open(ROOT+f+'V.lean','w').write(hdr+'\n\n'.join(out)+'\n\nend Grexv\n')
