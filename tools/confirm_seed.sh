#!/bin/bash
# usage: tools/confirm_seed.sh <dir with patch.diff and demo.rs>
# Confirms in a scratch worktree: suite green with the change, demo fails with it, demo passes without it.
set -u
src="$1"; id=$(basename "$src")
wt=/tmp/confirm_$id
export CARGO_TARGET_DIR=/tmp/confirm_target CARGO_NET_OFFLINE=true
unset RUST_BACKTRACE
git -C /repo worktree remove --force $wt 2>/dev/null
git -C /repo worktree add -q $wt HEAD || exit 3
cd $wt
git apply "$src/patch.diff" || { echo "PATCH DOES NOT APPLY"; exit 3; }
suite=$(cargo test --offline --no-fail-fast 2>&1 | grep -E "^test result" | tr '\n' ' ')
rm -f tests/*.proptest-regressions
echo "suite with change: $suite"
cp "$src/demo.rs" tests/seeded_demo.rs
with=$(cargo test --offline --test seeded_demo 2>&1 | grep -E "^test result" | tr '\n' ' ')
echo "demo with change: $with"
git checkout -- src
without=$(cargo test --offline --test seeded_demo 2>&1 | grep -E "^test result" | tr '\n' ' ')
echo "demo without change: $without"
cd /
git -C /repo worktree remove --force $wt
