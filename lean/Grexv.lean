import Grexv.Model.RegExp
