import Grexv.Driver

partial def loop (h : IO.FS.Stream) (out : IO.FS.Stream) : IO Unit := do
  let line ← h.getLine
  if line.isEmpty then return ()
  out.putStrLn (Grexv.Driver.handleLine line)
  loop h out

def main : IO Unit := do
  let stdout ← IO.getStdout
  loop (← IO.getStdin) stdout
  stdout.flush
