import Grexv.Gen.GraphemeSites
import Grexv.Lemmas.XStructR
import Grexv.Lemmas.Trie
import Grexv.Lemmas.TrieExact
import Grexv.Lemmas.ExprLang
import Grexv.Lemmas.Contracts
import Grexv.Lemmas.Quotient
import Grexv.Lemmas.TrieAlphabet
import Grexv.Lemmas.Pipeline
import Grexv.Lemmas.HopcroftMinimal2
import Grexv.Props.C13
import Grexv.Lemmas.Stages
import Grexv.Lemmas.EndToEnd
import Grexv.Lemmas.RepPipeline
import Grexv.Lemmas.RepElim
import Grexv.Lemmas.EndToEndR

/-!
# C16 — every pipeline stage preserves the language; minimisation is minimal (stage theorems)

Proved for all inputs: S5 soundness and exactness of the trie; S6 with no side condition for every trie
(the refinement loop ends within its fuel, its result is a stable partition, the rebuilt automaton has
the trie's language except for the empty word — known finding D1); the S7 algebra; the S7 elimination
loop (unconditional on the minimised trie, under executable contracts otherwise); determinism and
minimality of the minimised trie.
-/
set_option linter.unusedSimpArgs false
set_option linter.unusedVariables false
namespace Grexv.Props.C16
open Grexv

/-- **S5 (soundness)** without repetition conversion, for every configuration, segmentation and list
of test cases, the trie built by `Dfa::from` has an accepting path for every converted test case -/
theorem trie_accepts_every_cluster (cfg : Config) (env : Env) (ws : List Str) (hrep : cfg.rep = false) :
    ∀ cl ∈ graphemeClusters cfg env ws, (Dfa.trie (graphemeClusters cfg env ws)).Accepts cl := by
  apply Dfa.trie_accepts
  intro cl hcl g hg
  obtain ⟨h1, h2, h3⟩ := Props.C13.clusters_plain_without_rep cfg env ws hrep cl hcl g hg
  exact ⟨h3, h1, h2⟩

/-- **S5 (exactness)** without repetition conversion, for every configuration, segmentation and list of
test cases, the trie accepts *exactly* the converted test cases: a label sequence is accepted iff it
is one of the clusters — the first clause of the property as a theorem, at full strength -/
theorem trie_language_exact (cfg : Config) (env : Env) (ws : List Str) (hrep : cfg.rep = false) (w : List Grapheme) :
    (Dfa.trie (graphemeClusters cfg env ws)).Accepts w ↔ w ∈ graphemeClusters cfg env ws := by
  apply Dfa.trie_exact
  intro cl hcl g hg
  obtain ⟨h1, h2, h3⟩ := Props.C13.clusters_plain_without_rep cfg env ws hrep cl hcl g hg
  exact ⟨h3, h1, h2⟩

/-- inserting never removes an accepted label sequence (monotonicity of S5) -/
theorem insert_monotone (d : Dfa) (cl : Cluster) (hcl : ∀ g ∈ cl, g.Simple) (hd : d.AllSimple) (w : List Grapheme)
    (h : d.Accepts w) : (Dfa.insert d cl).Accepts w :=
  (Dfa.insert_spec d cl hcl hd).2.1 w h

/-- the empty test case is accepted by the trie: its start state is final (this is what
`recreate_graph` later loses — known finding D1) -/
theorem trie_accepts_empty (cls : List Cluster) (hcls : ∀ cl ∈ cls, ∀ g ∈ cl, g.Simple) (h : [] ∈ cls) :
    (Dfa.trie cls).init ∈ (Dfa.trie cls).finals := by
  obtain ⟨t, hp, ht⟩ := Dfa.trie_accepts cls hcls [] h
  cases hp
  exact ht

/-! ## S7: the algebra of `Expression` preserves the symbol-level language, for all operands -/

/-- `new_alternation` (flattening of nested alternations, stable sort by length) denotes the union -/
theorem new_alternation_language (es : List Expr) (w : Word) :
    (Expr.newAlternation es).lang w ↔ ∃ e ∈ es, e.lang w := by
  rw [Expr.newAlternation_lang, Expr.langAny_iff]

/-- `concatenate` (with its literal-merging cases and the empty-literal shortcuts) denotes concatenation -/
theorem concatenate_language (a b : Option Expr) (w : Word) :
    olang (Expr.concatenate a b) w ↔ ∃ u v, w = u ++ v ∧ olang a u ∧ olang b v :=
  Expr.concatenate_lang a b w

/-- `union` — common prefix/suffix factoring, the `?` cases, merging of single code points into a
character class, flattened alternation — denotes the union of the two languages, for every
configuration (the escaping option changes what counts as a single code point) -/
theorem union_language (cfg : Config) (a b : Option Expr)
    (ha : ∀ e, a = some e → e.PlainTop) (hb : ∀ e, b = some e → e.PlainTop) (w : Word) :
    olang (Expr.union cfg a b) w ↔ olang a w ∨ olang b w :=
  Expr.union_lang cfg a b ha hb w

/-- **S6 (minimisation, quotient step)** whenever the executable stability check holds on the partition the
refinement loop produced (the driver evaluates it on every input of the S stream), the minimised
automaton accepts a label sequence iff the trie does and the sequence is non-empty or the start class
was recorded as final.  The last clause is known finding D1 stated exactly: `recreate_graph` records
a class as final only when it is the target of an edge -/
theorem minimize_language (d : Dfa) (pick : Dfa.Block → Nat) (m : Dfa) (hm : Dfa.minimize d pick = some m)
    (hc : Dfa.minimizeContractB d pick = true) (w : List Grapheme) :
    m.Accepts w ↔ (d.Accepts w ∧ (w ≠ [] ∨ m.init ∈ m.finals)) :=
  Dfa.minimize_accepts d pick m hm hc w

/-- **S6 (termination)** the model of the `while !w.is_empty()` loop never exhausts the fuel it is given
(`2 * nodes + 4`), for *every* automaton: the sum over blocks of `|b| - 1` plus the length of the work list
decreases in every round -/
theorem minimize_terminates (d : Dfa) : ∃ p, Dfa.minimizePartition d = some p := Dfa.minimizePartition_some d

/-- **S6 (the loop computes a stable partition)** for every tree-shaped automaton whose alphabet covers its
labels: when the work list is empty, two states of one class have, under every label, successors in one
class or no successor at all; the classes are non-empty, pairwise disjoint, cover the states and do not mix
final with non-final states.  This is the Hopcroft invariant, proved for the loop as written (including the
`w.contains(y)` update of the work list and the range-containment label match of `get_parent_states`) -/
theorem refinement_is_stable (d : Dfa) (h : Dfa.TreeInv d) (hal : Dfa.AlphabetCovers d)
    (hs : ∀ l ∈ d.alphabet, l.Simple) : ∃ p, Dfa.minimizePartition d = some p ∧ Dfa.Stable d p :=
  Dfa.minimizePartition_stable h hal hs

/-- **S6, no side condition** for every list of plain clusters, `minimize` applied to their trie returns an
automaton, and that automaton accepts a label sequence iff it is one of the clusters and it is non-empty or
the start class was recorded as final (known finding D1) -/
theorem minimize_language_trie (cls : List Cluster) (hcls : ∀ cl ∈ cls, ∀ g ∈ cl, g.Simple) :
    ∃ m, Dfa.minimize (Dfa.trie cls) Dfa.pickMin = some m ∧
      ∀ w, m.Accepts w ↔ (w ∈ cls ∧ (w ≠ [] ∨ m.init ∈ m.finals)) :=
  Dfa.minimize_trie cls hcls

/-- **S5+S6 composed, no side condition** without repetition conversion, for every configuration, segmentation
and list of test cases -/
theorem minimized_language_total (cfg : Config) (env : Env) (ws : List Str) (hrep : cfg.rep = false) :
    ∃ m, Dfa.minimize (Dfa.trie (graphemeClusters cfg env ws)) Dfa.pickMin = some m ∧
      ∀ w, m.Accepts w ↔ (w ∈ graphemeClusters cfg env ws ∧ (w ≠ [] ∨ m.init ∈ m.finals)) := by
  apply minimize_language_trie
  intro cl hcl g hg
  obtain ⟨h1, h2, h3⟩ := Props.C13.clusters_plain_without_rep cfg env ws hrep cl hcl g hg
  exact ⟨h3, h1, h2⟩

/-- **S5+S6 composed** without repetition conversion: the minimised automaton accepts exactly the non-empty
converted test cases (and the empty one iff the start class was recorded as final), for every input
on which the stability check holds -/
theorem minimized_language_exact (cfg : Config) (env : Env) (ws : List Str) (hrep : cfg.rep = false) (m : Dfa)
    (hm : Dfa.minimize (Dfa.trie (graphemeClusters cfg env ws)) Dfa.pickMin = some m)
    (hc : Dfa.minimizeContractB (Dfa.trie (graphemeClusters cfg env ws)) Dfa.pickMin = true) (w : List Grapheme) :
    m.Accepts w ↔ (w ∈ graphemeClusters cfg env ws ∧ (w ≠ [] ∨ m.init ∈ m.finals)) := by
  rw [minimize_language _ _ m hm hc w, trie_language_exact cfg env ws hrep w]

/-- non-vacuity: the stability check holds on a concrete trie, and D1 is visible: `["", "a"]` -/
example : Dfa.minimizeContractB (Dfa.trie [[], [Grapheme.ofStr [97]]]) Dfa.pickMin = true := by decide
example : ((Dfa.minimize (Dfa.trie [[], [Grapheme.ofStr [97]]]) Dfa.pickMin).map fun m => (m.init, m.finals)) = some (0, [1]) := by decide

/-- **S7 (state elimination)** for every automaton with plain labels on which the three executable
contracts hold (closed depth-first order, no self loop met by the loop, at least one state — the
driver evaluates them on every input of the S stream), the expression left in `b[0]` by the
elimination loop of `Expression::from` denotes exactly the words accepted from the initial state -/
theorem elimination_language (cfg : Config) (d : Dfa) (h : elimContractsB cfg d = true) (w : Word) :
    olang (((List.range d.nodes).reverse.foldl (elimStep cfg) (elimInit cfg d d.dfs)).b.get 0) w ↔ d.LangFrom d.init w :=
  elimination_lang_checked cfg d h w

theorem accepts_iff_langFrom (d : Dfa) (w : Word) : d.Accepts w ↔ d.LangFrom d.init w := by
  simp [Dfa.Accepts, Dfa.LangFrom, Dfa.isFinal, List.contains_iff_mem]

/-- **S5+S6+S7 composed (symbol level)** without repetition conversion, for every input on which the two
executable contracts hold, the expression computed from the minimised automaton denotes exactly the
converted test cases — except that the empty one is dropped unless the start class was recorded as
final (known finding D1).  A language difference in the final pattern is therefore attributable to
exactly one place before printing: that clause -/
theorem pipeline_symbol_level (cfg : Config) (env : Env) (ws : List Str) (hrep : cfg.rep = false) (m : Dfa)
    (hm : Dfa.minimize (Dfa.trie (graphemeClusters cfg env ws)) Dfa.pickMin = some m)
    (hc1 : Dfa.minimizeContractB (Dfa.trie (graphemeClusters cfg env ws)) Dfa.pickMin = true)
    (hc2 : elimContractsB cfg m = true) (w : Word) :
    olang (((List.range m.nodes).reverse.foldl (elimStep cfg) (elimInit cfg m m.dfs)).b.get 0) w ↔
      (w ∈ graphemeClusters cfg env ws ∧ (w ≠ [] ∨ m.init ∈ m.finals)) := by
  rw [elimination_language cfg m hc2 w, ← accepts_iff_langFrom, minimized_language_exact cfg env ws hrep m hm hc1 w]

/-- **S5+S6+S7 composed, only the S7 contract left** the minimised automaton exists, and if the executable
elimination contract holds on it, the expression computed from it denotes exactly the converted test
cases, minus the empty one unless the start class was recorded as final -/
theorem pipeline_symbol_level_total (cfg : Config) (env : Env) (ws : List Str) (hrep : cfg.rep = false) :
    ∃ m, Dfa.minimize (Dfa.trie (graphemeClusters cfg env ws)) Dfa.pickMin = some m ∧
      (elimContractsB cfg m = true → ∀ w : Word,
        olang (((List.range m.nodes).reverse.foldl (elimStep cfg) (elimInit cfg m m.dfs)).b.get 0) w ↔
          (w ∈ graphemeClusters cfg env ws ∧ (w ≠ [] ∨ m.init ∈ m.finals))) := by
  obtain ⟨m, hm, hacc⟩ := minimized_language_total cfg env ws hrep
  refine ⟨m, hm, fun hc2 w => ?_⟩
  rw [elimination_language cfg m hc2 w, ← accepts_iff_langFrom, hacc w]

/-- **S6 exact (D1 as a theorem)** for every list of plain clusters the minimised trie accepts exactly the
non-empty clusters — the empty test case is always lost by `recreate_graph`, nothing else is — and it has no cycle -/
theorem minimize_trie_exact (cls : List Cluster) (hcls : ∀ cl ∈ cls, ∀ g ∈ cl, g.Simple) :
    ∃ m, Dfa.minimize (Dfa.trie cls) Dfa.pickMin = some m ∧ (∀ w, m.Accepts w ↔ (w ∈ cls ∧ w ≠ [])) ∧
      (∀ c w, Dfa.Path m c w c → w = []) :=
  Dfa.minimize_trie_exact cls hcls

/-- **S6 (the classes are the right-language classes)** for a co-accessible tree-shaped automaton the
partition `minimize` computes puts two states in one class iff they accept the same label sequences:
the refinement loop never separates equivalent states and never stops before all inequivalent ones are apart -/
theorem refinement_is_coarsest (d : Dfa) (h : Dfa.TreeInv d) (hal : Dfa.AlphabetCovers d) (hs : ∀ l ∈ d.alphabet, l.Simple)
    (hco : Dfa.Coacc d) :
    ∃ p, Dfa.minimizePartition d = some p ∧ Dfa.Stable d p ∧
      ∀ q q', q < d.nodes → q' < d.nodes → (Dfa.SameBlock p q q' ↔ ∀ w, d.LangFrom q w ↔ d.LangFrom q' w) :=
  Dfa.minimizePartition_coarsest h hal hs hco

/-- **S6 (deterministic, minimal)** the second clause of the property, at full strength when repetition
conversion is off: for every non-empty list of plain clusters the automaton `minimize` returns for their trie
is deterministic and no two of its states share a right language -/
theorem minimized_is_deterministic_and_minimal (cls : List Cluster) (hcls : ∀ cl ∈ cls, ∀ g ∈ cl, g.Simple) (hne : cls ≠ []) :
    ∃ m, Dfa.minimize (Dfa.trie cls) Dfa.pickMin = some m ∧
      (∀ e1 ∈ m.edges, ∀ e2 ∈ m.edges, e1.src = e2.src → e1.label = e2.label → e1 = e2) ∧
      (∀ c c', c < m.nodes → c' < m.nodes → c ≠ c' → ∃ w, ¬ (m.LangFrom c w ↔ m.LangFrom c' w)) :=
  Dfa.minimize_trie_minimal cls hcls hne

/-- **S7 prerequisites proved, not checked** `states_in_depth_first_order` starts with the initial state, is
closed under successors and is no longer than the number of states, for every automaton whose edges stay in range -/
theorem dfs_order_ok (d : Dfa) (hinit : d.init < d.nodes) (hlt : ∀ e ∈ d.edges, e.dst < d.nodes) : DfsOK d d.dfs :=
  dfsOK_of_bounded d hinit hlt

/-- on an acyclic automaton the Kleene-star branch of the elimination loop is never taken -/
theorem elimination_language_acyclic (cfg : Config) (d : Dfa) (hd : d.PlainLabels) (hN : 1 ≤ d.nodes) (hdfs : DfsOK d d.dfs)
    (hacyc : ∀ c w, Dfa.Path d c w c → w = []) (w : Word) :
    olang (((List.range d.nodes).reverse.foldl (elimStep cfg) (elimInit cfg d d.dfs)).b.get 0) w ↔ d.LangFrom d.init w :=
  elimination_lang_acyclic cfg d hd hN hdfs hacyc w

/-- **S2–S7 composed, no per-input contract** for every configuration without repetition conversion, every
segmentation with non-empty pieces (the contract of the external `unicode-segmentation` parameter, which the
driver checks) and every list of test cases: minimisation succeeds, and the expression computed from the
minimised automaton denotes exactly the non-empty converted test cases.  What is left between this
statement and the property is printing (S8/S9) and the reading of the printed text by the regex crate -/
theorem pipeline_total (cfg : Config) (env : Env) (ws : List Str) (hrep : cfg.rep = false)
    (hseg : ∀ w ∈ ws, ∀ p ∈ env.segOf w, p ≠ []) :
    ∃ m, Dfa.minimize (Dfa.trie (graphemeClusters cfg env ws)) Dfa.pickMin = some m ∧
      (∀ w, m.Accepts w ↔ (w ∈ graphemeClusters cfg env ws ∧ w ≠ [])) ∧
      ∀ w : Word, olang (((List.range m.nodes).reverse.foldl (elimStep cfg) (elimInit cfg m m.dfs)).b.get 0) w ↔
        (w ∈ graphemeClusters cfg env ws ∧ w ≠ []) :=
  Grexv.pipeline_total cfg env ws hrep hseg

/-- the model of `RegExp::from` never reports exhausted fuel: the refinement loop terminates for every input -/
theorem from_never_out_of_fuel (cfg : Config) (env : Env) (ws : List Str) :
    regExpFrom cfg env ws ≠ .error (.index "minimize: fuel") := by
  obtain ⟨p, hp⟩ := Dfa.minimizePartition_some (Dfa.trie (graphemeClusters cfg env (sortCases (if cfg.ci then lowerCases env ws else ws))))
  intro h
  simp only [regExpFrom, Dfa.minimize, hp, Option.map_some] at h
  repeat' split at h
  all_goals try (cases h)
  all_goals (rename_i hq; repeat' split at hq)
  all_goals cases hq

/-- every successful run of the model of `RegExp::from` has the stage structure the theorems above talk about -/
theorem from_stages_shape (cfg : Config) (env : Env) (ws : List Str) (st : Stages) (h : regExpFrom cfg env ws = .ok st) :
    st.sorted = sortCases (if cfg.ci then lowerCases env ws else ws) ∧
    st.clusters = graphemeClusters cfg env st.sorted ∧ st.trie = Dfa.trie st.clusters ∧
    Dfa.minimize st.trie Dfa.pickMin = some st.minimized ∧ st.firstAst = Expr.ofDfa cfg st.minimized :=
  Grexv.from_stages_shape cfg env ws st h

/-- **the first candidate of `RegExp::from`, for all inputs without `-r`** whenever the model of `RegExp::from`
succeeds, the automaton it minimised accepts exactly the non-empty converted test cases and the expression
`Expression::from` computed from it (the first candidate, which is also the final one unless the self-check
with both anchors off replaces it) is the `b[0]` of a system that denotes exactly that set -/
theorem from_first_candidate (cfg : Config) (env : Env) (ws : List Str) (hrep : cfg.rep = false) (st : Stages)
    (h : regExpFrom cfg env ws = .ok st) (hseg : ∀ w ∈ st.sorted, ∀ p ∈ env.segOf w, p ≠ []) :
    (∀ w, st.minimized.Accepts w ↔ (w ∈ st.clusters ∧ w ≠ [])) ∧
    ∀ w : Word, olang (((List.range st.minimized.nodes).reverse.foldl (elimStep cfg)
        (elimInit cfg st.minimized st.minimized.dfs)).b.get 0) w ↔ (w ∈ st.clusters ∧ w ≠ []) := by
  obtain ⟨h1, h2, h3, h4, h5⟩ := from_stages_shape cfg env ws st h
  obtain ⟨m, hm, hacc, hlang⟩ := pipeline_total cfg env st.sorted hrep hseg
  rw [← h2, ← h3, h4] at hm
  simp only [Option.some.injEq] at hm
  subst hm
  rw [h2]
  exact ⟨hacc, hlang⟩

/-- **S8/S9 (printing)** for every well-formed expression (the shapes the elimination produces — `ofDfa_wf`) and
plain presentation settings, the printed text is accepted by the regex parser and the compiled pattern
matches a string of scalar values in full iff the string spells a word of the expression's symbol-level
language (grapheme by grapheme, a shorthand-class token standing for any member of the class): printing and re-reading by the regex crate's syntax preserves the language -/
theorem printing_preserves_language (cap esc : Bool) (e : Expr) (hwf : e.WF) (s : Str) (hs : ∀ c ∈ s, Scalar c) :
    ∃ P, Spec.parse (fmtRegExp (cfgPlain cap esc) e) = some (⟨false, false⟩, P) ∧
      (Spec.fullMatch false P s = true ↔ ∃ w, e.lang w ∧ atomsDen false (atomsOf w) s) :=
  printed_accepts cap esc e hwf s hs

/-- the same with the `(?i)` flag in front: the compiled pattern matches exactly the strings that spell a word of the
expression up to simple case folding of each code point (the regex crate's table, generated) -/
theorem printing_preserves_language_ci (cap esc : Bool) (e : Expr) (hwf : e.WF) (s : Str) (hs : ∀ c ∈ s, Scalar c) :
    ∃ P, Spec.parse (ciPrefix true ++ fmtRegExp (cfgPlain cap esc) e) = some (⟨true, false⟩, P) ∧
      (Spec.fullMatch true P s = true ↔ ∃ w, e.lang w ∧ atomsDen true (atomsOf w) s) :=
  printed_accepts_ci true cap esc e hwf s hs

/-- **S8/S9 in verbose mode** the verbose text of every well-formed expression (any anchors, with or without capturing
groups, `-e`, `-i`) is accepted under its `(?x)` / `(?ix)` flag and the compiled pattern matches exactly the strings spelling
the expression's language — it is the pattern the non-verbose text is parsed to -/
theorem printing_preserves_language_verbose (i cap esc ns ne : Bool) (e : Expr) (hwf : e.WF) (s : Str) (hs : ∀ c ∈ s, Scalar c) :
    ∃ P, Spec.parse (fmtRegExp (cfgVerb cap esc i ns ne) e) = some (⟨i, true⟩, P) ∧
      (Spec.fullMatch i P s = true ↔ ∃ w, e.lang w ∧ atomsDen i (atomsOf w) s) :=
  printed_accepts_verbose i cap esc ns ne e hwf s hs

/-- **S8/S9 with any anchors** (not verbose) -/
theorem printing_preserves_language_anchors (i cap esc ns ne : Bool) (e : Expr) (hwf : e.WF) (s : Str) (hs : ∀ c ∈ s, Scalar c) :
    ∃ P, Spec.parse (ciPrefix i ++ fmtRegExp (cfgAnch cap esc ns ne) e) = some (⟨i, false⟩, P) ∧
      (Spec.fullMatch i P s = true ↔ ∃ w, e.lang w ∧ atomsDen i (atomsOf w) s) :=
  printed_acceptsA i cap esc ns ne e hwf s hs

/-- **S8/S9 with counted labels** (`-r`; any anchors, with or without capturing groups, `-e`, `-i`; not verbose): the text printed for an
expression whose literals are printable, consistent counted graphemes (`Expr.WFS`: what S4, the widening merge and the elimination
produce — `rep_final_wfs_na`) is accepted by the model of `Regex::new`, and the compiled pattern matches exactly the strings spelled by a
label sequence of the expression's language, a label `{m,n}` contributing what its atoms denote `k` times, `m ≤ k ≤ n` -/
theorem printing_preserves_language_repetitions (i cap esc ns ne : Bool) (e : Expr) (hwf : e.WFS) (s : Str) (hs : ∀ c ∈ s, Scalar c) :
    ∃ P, Spec.parse (ciPrefix i ++ fmtRegExp (cfgAnch cap esc ns ne) e) = some (⟨i, false⟩, P) ∧
      (Spec.fullMatch i P s = true ↔ ∃ ls, e.lang ls ∧ SpellsA i ls s) :=
  printed_exactAR i cap esc ns ne e hwf s hs

/-- **S8/S9 with counted labels in verbose mode** the verbose text of every such expression (any anchors, with or without capturing groups,
`-e`, `-i`) is accepted under its `(?x)` / `(?ix)` flag and the compiled pattern matches exactly the strings spelled by a label sequence of
the expression's language -/
theorem printing_preserves_language_repetitions_verbose (i cap esc ns ne : Bool) (e : Expr) (hwf : e.WFS) (s : Str)
    (hs : ∀ c ∈ s, Scalar c) :
    ∃ P, Spec.parse (fmtRegExp (cfgVerb cap esc i ns ne) e) = some (⟨i, true⟩, P) ∧
      (Spec.fullMatch i P s = true ↔ ∃ ls, e.lang ls ∧ SpellsA i ls s) :=
  printed_exact_verboseR i cap esc ns ne e hwf s hs

/-- the expression `Expression::from` returns for an acyclic automaton with plain labels is well-formed -/
theorem elimination_result_wellformed (cap esc : Bool) (d : Dfa) (hd : LabelsBs d) (hdfs : DfsOK d d.dfs)
    (hacyc : ∀ c w, Dfa.Path d c w c → w = []) : (Expr.ofDfa (cfgPlain cap esc) d).WF :=
  ofDfa_wf cap esc d hd hdfs hacyc

/-- and `Expression::from` returns that expression, or the empty literal when `b[0]` is `None` -/
theorem ofDfa_is_b0 (cfg : Config) (d : Dfa) :
    Expr.ofDfa cfg d =
      (match ((List.range d.nodes).reverse.foldl (elimStep cfg) (elimInit cfg d d.dfs)).b.get 0 with
       | some e => e
       | none => Expr.lit []) := ofDfa_eq cfg d

/-- non-vacuity of the contracts: they hold on a concrete minimised automaton -/
example : elimContractsB {} (Dfa.trie [[Grapheme.ofStr [97]], [Grapheme.ofStr [97], Grapheme.ofStr [98]]]) = true := by decide

/-- non-vacuity: `ab | ac` is factored to `a[bc]`, and both words are still in the language -/
example :
    let a := Grapheme.ofStr [97]; let b := Grapheme.ofStr [98]; let c := Grapheme.ofStr [99]
    Expr.union {} (some (.lit [a, b])) (some (.lit [a, c])) = some (.cat (.lit [a]) (.cls [98, 99])) := by decide

/-! non-vacuity: a concrete trie -/
example : (Dfa.trie [[Grapheme.ofStr [97]], [Grapheme.ofStr [97], Grapheme.ofStr [98]]]).finals = [1, 2] := by decide

/-! ## the stages with repetition conversion (`-r`) -/

/-- **S4 is a notation change** the converted cluster, every grapheme repeated by its count, is the sequence of grapheme values it was
made from; nested repetitions are converted forms of the unit they sit in; every grapheme carries one count -/
theorem repetition_conversion_exact (cfg : Config) (ss : List Str) :
    expandAll (convertRepetitions cfg (ss.map Grapheme.ofStr)) = ss ∧ ConsistentL (convertRepetitions cfg (ss.map Grapheme.ofStr)) ∧
    ∀ g ∈ convertRepetitions cfg (ss.map Grapheme.ofStr), g.min = g.max :=
  ⟨(convertRepetitions_exact cfg ss).1, (convertRepetitions_exact cfg ss).2,
   convertRepetitions_counts cfg _ (by intro g hg; obtain ⟨s, _, rfl⟩ := List.mem_map.mp hg; rfl)⟩

/-- **S5 with `-r`** the trie of clusters whose graphemes carry one count each is a tree (whatever the widening merge of
`find_next_state` does to its labels), stands for every inserted cluster, and its alphabet has a symbol for every grapheme -/
theorem trie_with_repetitions (cls : List Cluster) (hcls : ∀ cl ∈ cls, ∀ g ∈ cl, g.min = g.max) :
    Dfa.TreeR (Dfa.trie cls) ∧ (∀ cl ∈ cls, (Dfa.trie cls).CAccepts cl) ∧
      (∀ cl ∈ cls, ∀ g ∈ cl, ∃ l ∈ (Dfa.trie cls).alphabet, Dfa.SameKey l g) ∧ Dfa.RangeAlpha (Dfa.trie cls) := Dfa.trie_r cls hcls

/-- **S6 with `-r` (the loop computes a stable partition)** for *every* tree-shaped automaton, whatever its labels and however many
edges one state has for one symbol: when the work list is empty, two states of one class have, for every symbol of the alphabet and
every class, either both or neither an edge that carries the symbol into that class.  Proved for the loop as repaired in 7496dbd
(range containment in `get_parent_states`, both halves of a split block to the work list); with the smaller-half update the statement is
false for such automata (`["xcpp","xcpq","yccq","ycpp","xccpq","yccpq","xcccppp","ycccppp"]`) -/
theorem refinement_is_stable_with_repetitions (d : Dfa) (h : Dfa.TreeR d) :
    ∃ p, Dfa.minimizePartition d = some p ∧ Dfa.StableR d p := Dfa.minimizePartition_stableR h

/-- **S5 + S6 with `-r`** the minimised automaton stands for every non-empty cluster handed to the trie -/
theorem minimize_keeps_clusters_with_repetitions (cls : List Cluster) (hcls : ∀ cl ∈ cls, ∀ g ∈ cl, g.min = g.max) :
    ∃ m, Dfa.minimize (Dfa.trie cls) Dfa.pickMin = some m ∧ ∀ cl ∈ cls, cl ≠ [] → m.CAccepts cl :=
  Dfa.minimize_trie_r cls hcls

/-- **S6 with `-r` is exact on count sequences** the minimised automaton stands for a non-empty sequence of counted graphemes iff the
trie does: the minimisation neither loses a test case (the defect repaired in 7496dbd) nor adds a count sequence of its own (what the
pattern accepts beyond the test cases with `-r` — known finding D2 — is already in the trie: the widening merge) -/
theorem minimize_exact_with_repetitions (cls : List Cluster) (hcls : ∀ cl ∈ cls, ∀ g ∈ cl, g.min = g.max) :
    ∃ m, Dfa.minimize (Dfa.trie cls) Dfa.pickMin = some m ∧
      ∀ cl : Cluster, (∀ g ∈ cl, g.min = g.max) → cl ≠ [] → (m.CAccepts cl ↔ (Dfa.trie cls).CAccepts cl) :=
  Dfa.minimize_trie_r_exact cls hcls

/-- **S7 with `-r`** the first candidate of `RegExp::from` under repetition conversion, for all inputs: the minimised automaton is
acyclic (so the Kleene-star branch of the elimination is dead here too), the expression `Expression::from` computes from it denotes
exactly the label sequences of its accepting paths, and every stored test case with a non-empty converted cluster is carried by one
of them -/
theorem first_candidate_with_repetitions (cfg : Config) (env : Env) (ws : List Str) (st : Stages) (h : regExpFrom cfg env ws = .ok st)
    (hrep : cfg.rep = true) (hseg : ∀ w ∈ st.sorted, ∀ p ∈ env.segOf w, p ≠ []) :
    (∀ c w, Dfa.Path st.minimized c w c → w = []) ∧
    (∀ w : Word, olang (((List.range st.minimized.nodes).reverse.foldl (elimStep cfg)
        (elimInit cfg st.minimized st.minimized.dfs)).b.get 0) w ↔ st.minimized.LangFrom st.minimized.init w) ∧
    ∀ pc ∈ preClusters cfg env st.sorted, convertRepetitions cfg pc ≠ [] →
      ∃ w, olang (((List.range st.minimized.nodes).reverse.foldl (elimStep cfg)
        (elimInit cfg st.minimized st.minimized.dfs)).b.get 0) w ∧ Dfa.CarriesL w (convertRepetitions cfg pc) :=
  rep_first_candidate cfg env ws st h hrep hseg

/-- the automaton on which the unrepaired refinement merged two states that differ: states 1 (after `x`) and 3 (after `y`) are in
different classes now -/
example :
    (Dfa.minimizePartition (Dfa.trie [[.mk [[120]] [] 1 1, .mk [[99]] [] 1 1], [.mk [[121]] [] 1 1, .mk [[99]] [] 1 1],
      [.mk [[121]] [] 1 1, .mk [[99]] [] 2 2], [.mk [[120]] [] 1 1, .mk [[99]] [] 3 3], [.mk [[121]] [] 1 1, .mk [[99]] [] 3 3]])).map
      (fun p => (Dfa.classOf p 1 == Dfa.classOf p 3)) = some false := by decide +kernel

/-- **the printing options of a grapheme are those of the configuration** (read off the source on every run): the code stores the
three printing options — capturing groups, colour, verbose — in every `Grapheme` it creates; the model prints each grapheme with the
options of the configuration.  The translator's syntactic check succeeded at each of the sites it found (at least the constructors, the
three sites of cluster.rs and the one of dfa.rs): the three options of one configuration are handed over in the constructor's order, and
the constructors store them under their own names -/
theorem grapheme_options_follow_config :
    Gen.graphemeOptionSites.all (fun r => r.2) = true ∧ 5 ≤ Gen.graphemeOptionSites.length := by decide

end Grexv.Props.C16
