import Grexv.Model.Format
import Grexv.Lemmas.Presentation

/-!
# C06 — verbose mode, capturing groups and escaping are presentation only (text-level facts)

The language-level claim rests on the correspondence/oracle streams; proved here, for all inputs,
are the facts that make verbose output safe under `(?x)`: every character the regex crate would
ignore is rewritten, and each rewrite denotes the character it replaces.
`Gen.verboseSpaces` is generated from the array in `Display for RegExp`,
`Gen.stdWhitespace` is `char::is_whitespace` extracted over all scalar values.
-/
set_option linter.unusedSimpArgs false
set_option linter.unusedVariables false
namespace Grexv.Props.C06
open Grexv

/-- all code points of a range table, explicitly -/
def expand (t : List (Nat × Nat)) : List Nat := t.flatMap fun r => (List.range (r.2 + 1 - r.1)).map (· + r.1)

theorem mem_expand (t : List (Nat × Nat)) (c : Nat) : inRanges t c = true → c ∈ expand t := by
  intro h
  simp only [inRanges, List.any_eq_true, Bool.and_eq_true, decide_eq_true_eq] at h
  obtain ⟨r, hr, h1, h2⟩ := h
  simp only [expand, List.mem_flatMap, List.mem_map, List.mem_range]
  exact ⟨r, hr, c - r.1, by omega, by omega⟩

/-- characters `escape_regexp_symbols` / the `\v \f` replacements already write as escapes, and the
blank, which `Display for RegExp` writes as `\ ` -/
def handledEarlier : List Nat := [9, 10, 11, 12, 13, 32]

/-- kernel-checked over the whole extracted table -/
theorem ws_table_covered : (expand Gen.stdWhitespace).all (fun c => handledEarlier.contains c || Gen.verboseSpaces.contains c) = true := by
  decide +kernel

/-- **C06 (verbose completeness)** every character `(?x)` would ignore (`char::is_whitespace`) is
either escaped before the verbose step (`\t \n \v \f \r`, `\ `) or is in the list the verbose
step rewrites — for every code point -/
theorem verbose_ws_complete (c : Nat) (h : inRanges Gen.stdWhitespace c = true) :
    c ∈ handledEarlier ∨ c ∈ Gen.verboseSpaces := by
  have := List.all_eq_true.mp ws_table_covered c (mem_expand _ _ h)
  simpa [List.contains_iff_mem, Bool.or_eq_true] using this

/-- `#` starts a comment under `(?x)`; it is written `\#` -/
theorem hash_escaped : Gen.strHash = [92, 35] := rfl
theorem blank_escaped : Gen.strBlank = [92, 32] := rfl
theorem vt_ff_escaped : Gen.strVerticalTab = [92, 118] ∧ Gen.strFormFeed = [92, 102] := ⟨rfl, rfl⟩

/-- every rewritten whitespace character is non-ASCII, hence its `\u{..}` escape cannot collide with
the ASCII replacements made before and after it -/
theorem verboseSpaces_nonascii : Gen.verboseSpaces.all (fun c => decide (128 ≤ c)) = true := by decide +kernel

/-- **C06 (escape denotes the character)** the text `\u{hex c}` lexes back to `c` for every scalar value
(the spec layer's `parseEscape`, i.e. the model of regex-syntax) — shown on the rewritten list -/
theorem verbose_escape_roundtrip :
    Gen.verboseSpaces.all (fun c =>
      match Spec.parseEscape true ([117, 123] ++ toHex c ++ [125]) with
      | some (.lit v, []) => v == c
      | _ => false) = true := by decide +kernel

/-- **C06 (groups)** the two kinds of opening parenthesis are the only ones the printer has, chosen by the flag -/
theorem paren_kind (color : Bool) :
    Comp.leftParen true false = [40] ∧ Comp.leftParen false false = [40, 63, 58] := ⟨rfl, rfl⟩

/-- the flag prefix is `(?x)` / `(?ix)` followed by a line break exactly in verbose mode -/
theorem verbose_flag : Comp.flagX false = strOf "(?x)\n" ∧ Comp.flagIX false = strOf "(?ix)\n" ∧ Comp.flagI false = strOf "(?i)" := by
  decide

/-- **C06 (verbose mode, capturing groups and colour are not seen by any stage before printing)** for two
configurations that agree on everything except capturing groups, verbose mode, colour and anchors,
the stored test cases, the clusters, the trie, the minimised automaton and the expression computed
from it are identical — for every input.  These options can therefore change the output only in
`Display` (and, with both anchors off, in which self-check candidate is kept) -/
theorem presentation_only {c1 c2 : Config} (h : SameStageInputs c1 c2) (env : Env) (ws : List Str)
    (st1 st2 : Stages) (h1 : regExpFrom c1 env ws = .ok st1) (h2 : regExpFrom c2 env ws = .ok st2) :
    st1.sorted = st2.sorted ∧ st1.clusters = st2.clusters ∧ st1.trie = st2.trie ∧ st1.minimized = st2.minimized ∧
      st1.firstAst = st2.firstAst := firstAst_independent h env ws st1 st2 h1 h2

/-- non-vacuity: verbose + capturing groups against the plain build -/
example : SameStageInputs { verb := true, cap := true, digit := true } { digit := true } := by simp [SameStageInputs]

end Grexv.Props.C06
