import Grexv.Gen.GraphemeSites
import Grexv.Lemmas.RunShape
import Grexv.Lemmas.EndToEndRV
import Grexv.Model.Format
import Grexv.Lemmas.Presentation
import Grexv.Lemmas.EndToEnd
import Grexv.Lemmas.RepPresent

/-!
# C06 — verbose mode, capturing groups and escaping are presentation only (text-level facts)

The language-level claim rests on the correspondence/oracle streams; proved here, for all inputs,
are the facts that make verbose output safe under `(?x)`: every character the regex crate would
ignore is rewritten, and each rewrite denotes the character it replaces.
`Gen.verboseSpaces` is generated from the array in `Display for RegExp`,
`Gen.stdWhitespace` is `char::is_whitespace` extracted over all scalar values.
-/
set_option linter.unusedSimpArgs false
set_option linter.unusedVariables false
namespace Grexv.Props.C06
open Grexv

/-- all code points of a range table, explicitly -/
def expand (t : List (Nat × Nat)) : List Nat := t.flatMap fun r => (List.range (r.2 + 1 - r.1)).map (· + r.1)

theorem mem_expand (t : List (Nat × Nat)) (c : Nat) : inRanges t c = true → c ∈ expand t := by
  intro h
  simp only [inRanges, List.any_eq_true, Bool.and_eq_true, decide_eq_true_eq] at h
  obtain ⟨r, hr, h1, h2⟩ := h
  simp only [expand, List.mem_flatMap, List.mem_map, List.mem_range]
  exact ⟨r, hr, c - r.1, by omega, by omega⟩

/-- characters `escape_regexp_symbols` / the `\v \f` replacements already write as escapes, and the
blank, which `Display for RegExp` writes as `\ ` -/
def handledEarlier : List Nat := [9, 10, 11, 12, 13, 32]

/-- kernel-checked over the whole extracted table -/
theorem ws_table_covered : (expand Gen.stdWhitespace).all (fun c => handledEarlier.contains c || Gen.verboseSpaces.contains c) = true := by
  decide +kernel

/-- **C06 (verbose completeness)** every character `(?x)` would ignore (`char::is_whitespace`) is
either escaped before the verbose step (`\t \n \v \f \r`, `\ `) or is in the list the verbose
step rewrites — for every code point -/
theorem verbose_ws_complete (c : Nat) (h : inRanges Gen.stdWhitespace c = true) :
    c ∈ handledEarlier ∨ c ∈ Gen.verboseSpaces := by
  have := List.all_eq_true.mp ws_table_covered c (mem_expand _ _ h)
  simpa [List.contains_iff_mem, Bool.or_eq_true] using this

/-- `#` starts a comment under `(?x)`; it is written `\#` -/
theorem hash_escaped : Gen.strHash = [92, 35] := rfl
theorem blank_escaped : Gen.strBlank = [92, 32] := rfl
theorem vt_ff_escaped : Gen.strVerticalTab = [92, 118] ∧ Gen.strFormFeed = [92, 102] := ⟨rfl, rfl⟩

/-- every rewritten whitespace character is non-ASCII, hence its `\u{..}` escape cannot collide with
the ASCII replacements made before and after it -/
theorem verboseSpaces_nonascii : Gen.verboseSpaces.all (fun c => decide (128 ≤ c)) = true := by decide +kernel

/-- **C06 (escape denotes the character)** the text `\u{hex c}` lexes back to `c` for every scalar value
(the spec layer's `parseEscape`, i.e. the model of regex-syntax) — shown on the rewritten list -/
theorem verbose_escape_roundtrip :
    Gen.verboseSpaces.all (fun c =>
      match Spec.parseEscape true ([117, 123] ++ toHex c ++ [125]) with
      | some (.lit v, []) => v == c
      | _ => false) = true := by decide +kernel

/-- **C06 (groups)** the two kinds of opening parenthesis are the only ones the printer has, chosen by the flag -/
theorem paren_kind (color : Bool) :
    Comp.leftParen true false = [40] ∧ Comp.leftParen false false = [40, 63, 58] := ⟨rfl, rfl⟩

/-- the flag prefix is `(?x)` / `(?ix)` followed by a line break exactly in verbose mode -/
theorem verbose_flag : Comp.flagX false = strOf "(?x)\n" ∧ Comp.flagIX false = strOf "(?ix)\n" ∧ Comp.flagI false = strOf "(?i)" := by
  decide

/-- **C06 (verbose mode, capturing groups and colour are not seen by any stage before printing)** for two
configurations that agree on everything except capturing groups, verbose mode, colour and anchors,
the stored test cases, the clusters, the trie, the minimised automaton and the expression computed
from it are identical — for every input.  These options can therefore change the output only in
`Display` (and, with both anchors off, in which self-check candidate is kept) -/
theorem presentation_only {c1 c2 : Config} (h : SameStageInputs c1 c2) (env : Env) (ws : List Str)
    (st1 st2 : Stages) (h1 : regExpFrom c1 env ws = .ok st1) (h2 : regExpFrom c2 env ws = .ok st2) :
    st1.sorted = st2.sorted ∧ st1.clusters = st2.clusters ∧ st1.trie = st2.trie ∧ st1.minimized = st2.minimized ∧
      st1.firstAst = st2.firstAst := firstAst_independent h env ws st1 st2 h1 h2

/-- non-vacuity: verbose + capturing groups against the plain build -/
example : SameStageInputs { verb := true, cap := true, digit := true } { digit := true } := by simp [SameStageInputs]

/-- **C06 (capturing groups are presentation only — language level, default settings, all inputs)** the pattern
built with capturing groups and the one built without accept exactly the same strings (of scalar values): both are
accepted by the model of `Regex::new`, and a string is matched in full by one iff it is by the other -/
theorem capture_groups_same_language (env : Env) (ws : List Str) (st0 st1 : Stages)
    (h0 : regExpFrom (cfgPlain false false) env ws = .ok st0) (h1 : regExpFrom (cfgPlain true false) env ws = .ok st1)
    (hseg : ∀ w ∈ ws, SegOK env w) (hne : ∃ t ∈ ws, t ≠ []) (s : Str) (hs : ∀ c ∈ s, Scalar c) :
    ∃ P0 P1, Spec.parse (fmtRegExp (cfgPlain false false) st0.finalAst) = some (⟨false, false⟩, P0) ∧
      Spec.parse (fmtRegExp (cfgPlain true false) st1.finalAst) = some (⟨false, false⟩, P1) ∧
      (Spec.fullMatch false P0 s = Spec.fullMatch false P1 s) := by
  obtain ⟨P0, p0, m0⟩ := default_exact false env ws st0 h0 hseg hne s hs
  obtain ⟨P1, p1, m1⟩ := default_exact true env ws st1 h1 hseg hne s hs
  refine ⟨P0, P1, p0, p1, ?_⟩
  cases h : Spec.fullMatch false P0 s <;> cases h' : Spec.fullMatch false P1 s
  · rfl
  · exact absurd (m0.mpr (m1.mp h')) (by simp [h])
  · exact absurd (m1.mpr (m0.mp h)) (by simp [h'])
  · rfl

/-- **C06 (non-ASCII escaping is presentation only — language level, all inputs without `-r`)** for every subset of
the class options, with or without capturing groups and the case-insensitive option: the pattern built with `-e` (no
surrogate pairs) and the one built without accept exactly the same strings of scalar values.  Restrictions (`PlainPrintCI`): no
`-r`, no verbose mode, no colour, no surrogate-pair conversion, at most one anchor disabled (with both disabled the self-check may keep
a different expression per build: `verbose_bounds_any_anchor`, `C07.output_valid_any_anchor` bound each build separately) -/
theorem escaping_same_language (cfg : Config) (hp : PlainPrintCI cfg) (env : Env) (ws : List Str)
    (stE st0 : Stages) (hE : regExpFrom (withEsc cfg true) env ws = .ok stE)
    (h0 : regExpFrom (withEsc cfg false) env ws = .ok st0)
    (hseg : ∀ w ∈ storedCases cfg env ws, SegOK env w) (hne : ∃ t ∈ storedCases cfg env ws, t ≠ [])
    (s : Str) (hs : ∀ c ∈ s, Scalar c) :
    ∃ PE P0, Spec.parse (fmtRegExp (withEsc cfg true) stE.finalAst) = some (⟨cfg.ci, false⟩, PE) ∧
      Spec.parse (fmtRegExp (withEsc cfg false) st0.finalAst) = some (⟨cfg.ci, false⟩, P0) ∧
      Spec.fullMatch cfg.ci PE s = Spec.fullMatch cfg.ci P0 s :=
  esc_same_language cfg hp env ws stE st0 hE h0 hseg hne s hs

/-- **C06 (verbose mode is presentation only — language level, all inputs without `-r`, at least one anchor)** for every
subset of the class options, with or without capturing groups, `-e`, `-i` (`PlainPrintCI`: no `-r` — see
`verbose_same_language_with_repetitions` —, no colour, no surrogate-pair conversion, at most one anchor disabled): the verbose text (flag line, one lexeme group
per line, indentation; `#`, blank and every other white-space character escaped) is accepted by the model of `Regex::new`
with the `x` flag set, the text without verbose mode is accepted without it, and the two compiled patterns match exactly
the same strings of scalar values in full.  Chain: `parseLoop_x` (under `(?x)` the parser reads the text without its
inter-lexeme white space), `indent_edit`/`XL.edit` (`indent_regexp` only edits such white space), `vx_expr` (the verbose
layout is the plain layout plus line feeds between lexemes), `loop_printedA` (print → parse with the verbose escapes) -/
theorem verbose_same_language (cfg : Config) (hp : PlainPrintCI cfg) (env : Env) (ws : List Str) (stV st0 : Stages)
    (hV : regExpFrom (withVerb cfg true) env ws = .ok stV) (h0 : regExpFrom (withVerb cfg false) env ws = .ok st0)
    (hseg : ∀ w ∈ storedCases cfg env ws, SegOK env w) (hne : ∃ t ∈ storedCases cfg env ws, t ≠ [])
    (s : Str) (hs : ∀ c ∈ s, Scalar c) :
    ∃ PV P0, Spec.parse (fmtRegExp (withVerb cfg true) stV.finalAst) = some (⟨cfg.ci, true⟩, PV) ∧
      Spec.parse (fmtRegExp (withVerb cfg false) st0.finalAst) = some (⟨cfg.ci, false⟩, P0) ∧
      Spec.fullMatch cfg.ci PV s = Spec.fullMatch cfg.ci P0 s :=
  Grexv.verbose_same_language cfg hp env ws stV st0 hV h0 hseg hne s hs

/-- **C06 with repetition conversion (capturing groups and `-e` are presentation only — language level, all inputs)** two builds with
`-r` whose settings agree in the thresholds, the class options and `-i` — they may differ in capturing groups, in `-e` and in which
single anchor is disabled; plain printing; stored test cases of at most 1000 graphemes, one of them non-empty — return texts the model
of `Regex::new` accepts, and the two compiled patterns match exactly the same strings of scalar values in full: each matches what the
labels of the same minimised automaton spell (`C05.repetitions_language_exact`).  Verbose mode with `-r`: `verbose_same_language_with_repetitions`. -/
theorem presentation_same_language_with_repetitions (c1 c2 : Config) (hp1 : RepPrint c1) (hp2 : RepPrint c2)
    (hsame : SameClusterInputs c1 c2) (env : Env) (ws : List Str) (st1 st2 : Stages)
    (h1 : regExpFrom c1 env ws = .ok st1) (h2 : regExpFrom c2 env ws = .ok st2)
    (hseg : ∀ w ∈ storedCases c1 env ws, SegOK env w)
    (hlen : ∀ w ∈ storedCases c1 env ws, (clusterOfPieces (env.segOf w)).length ≤ 1000)
    (hne : ∃ t ∈ storedCases c1 env ws, t ≠ []) (s : Str) (hs : ∀ c ∈ s, Scalar c) :
    ∃ P1 P2, Spec.parse (fmtRegExp c1 st1.finalAst) = some (⟨c1.ci, false⟩, P1) ∧
      Spec.parse (fmtRegExp c2 st2.finalAst) = some (⟨c1.ci, false⟩, P2) ∧
      Spec.fullMatch c1.ci P1 s = Spec.fullMatch c1.ci P2 s :=
  rep_presentation_same_language c1 c2 hp1 hp2 hsame env ws st1 st2 h1 h2 hseg
    (fun w hw => by have := hlen w hw; rwa [clusterOfPieces_eq, List.length_map] at this) hne s hs

/-- **C06 with repetition conversion (verbose mode is presentation only — language level, all inputs, an anchor in place)** for `-r`
with positive thresholds, every subset of the class options, with or without `-i`, capturing groups and `-e`: the verbose text is
accepted by the model of `Regex::new` with the `x` flag set, the text without verbose mode is accepted without it, and the two compiled
patterns match exactly the same strings of scalar values in full -/
theorem verbose_same_language_with_repetitions (cfg : Config) (hp : RepPrint cfg) (env : Env) (ws : List Str) (stV st0 : Stages)
    (hV : regExpFrom (withVerbR cfg true) env ws = .ok stV) (h0 : regExpFrom (withVerbR cfg false) env ws = .ok st0)
    (hseg : ∀ w ∈ storedCases cfg env ws, SegOK env w)
    (hlen : ∀ w ∈ storedCases cfg env ws, (clusterOfPieces (env.segOf w)).length ≤ 1000)
    (hne : ∃ t ∈ storedCases cfg env ws, t ≠ []) (s : Str) (hs : ∀ c ∈ s, Scalar c) :
    ∃ PV P0, Spec.parse (fmtRegExp (withVerbR cfg true) stV.finalAst) = some (⟨cfg.ci, true⟩, PV) ∧
      Spec.parse (fmtRegExp (withVerbR cfg false) st0.finalAst) = some (⟨cfg.ci, false⟩, P0) ∧
      Spec.fullMatch cfg.ci PV s = Spec.fullMatch cfg.ci P0 s :=
  rep_verbose_same_language cfg hp env ws stV st0 hV h0 hseg
    (fun w hw => by have := hlen w hw; rwa [clusterOfPieces_eq, List.length_map] at this) hne s hs

/-- the verbose text of an expression with counted graphemes is parsed, under its `(?x)` flag, to the very pattern the non-verbose text
is parsed to -/
theorem verbose_parses_to_same_pattern_with_repetitions (cap esc i ns ne : Bool) (e : Expr) (hwf : e.WFR) :
    Spec.parse (fmtRegExp (cfgVerb cap esc i ns ne) e) = some (⟨i, true⟩, Spec.catList (preA ns ++ (topItemsR cap esc e ++ postA ne))) ∧
    Spec.parse (fmtRegExp (cfgAnch cap esc ns ne) e) = some (⟨false, false⟩, Spec.catList (preA ns ++ (topItemsR cap esc e ++ postA ne))) :=
  ⟨parse_verboseR cap esc i ns ne e hwf, parse_printedAR cap esc ns ne e hwf⟩

example : RepPrint { rep := true, word := true } ∧ RepPrint { rep := true, word := true, cap := true, esc := true, noEnd := true } ∧
    SameClusterInputs { rep := true, word := true } { rep := true, word := true, cap := true, esc := true, noEnd := true } :=
  ⟨⟨rfl, by decide, rfl, rfl, rfl, rfl⟩, ⟨rfl, by decide, rfl, rfl, rfl, rfl⟩, by simp [SameClusterInputs]⟩

/-- **C06 (verbose mode with both anchors disabled as well)** whichever expression the self-check keeps, the verbose text is
accepted under `(?x)`, matches in full nothing but (generalised) test cases and matches every non-empty one -/
theorem verbose_bounds_any_anchor (cfg : Config) (hp : VerbosePrintNA cfg) (env : Env) (ws : List Str) (st : Stages)
    (h : regExpFrom cfg env ws = .ok st) (hseg : ∀ w ∈ storedCases cfg env ws, SegOK env w)
    (hne : ∃ t ∈ storedCases cfg env ws, t ≠ []) (s : Str) (hs : ∀ c ∈ s, Scalar c) :
    ∃ P, Spec.parse (fmtRegExp cfg st.finalAst) = some (⟨cfg.ci, true⟩, P) ∧
      (Spec.fullMatch cfg.ci P s = true → ∃ t ∈ storedCases cfg env ws, atomsDen cfg.ci (t.map (convAtom cfg)) s) ∧
      (∀ t ∈ storedCases cfg env ws, t ≠ [] → atomsDen cfg.ci (t.map (convAtom cfg)) s →
        Spec.fullMatch cfg.ci P s = true) :=
  classes_bounds_verbose cfg hp env ws st h hseg hne s hs

/-- **C06 (the verbose output carries its flag and stays valid under it)** for every well-formed expression the verbose
text parses with the flags `x` and, if requested, `i`, to the very pattern the non-verbose text parses to -/
theorem verbose_parses_to_same_pattern (cap esc i ns ne : Bool) (e : Expr) (hwf : e.WF) :
    Spec.parse (fmtRegExp (cfgVerb cap esc i ns ne) e) =
      some (⟨i, true⟩, Spec.catList (preA ns ++ (topItems cap esc e ++ postA ne))) ∧
    Spec.parse (fmtRegExp (cfgAnch cap esc ns ne) e) =
      some (⟨false, false⟩, Spec.catList (preA ns ++ (topItems cap esc e ++ postA ne))) :=
  ⟨parse_verbose cap esc i ns ne e hwf, parse_printedA cap esc ns ne e hwf⟩

/-- under `(?x)` the parser reads a text exactly as it reads the text without its inter-lexeme white space -/
theorem x_mode_ignores_layout (f : Nat) (t u : Str) (h : XL t u) (st : List Spec.Frame) (al co : List Spec.Pat) :
    Spec.parseLoop true f t st al co = Spec.parseLoop false f u st al co := parseLoop_x f t u h st al co

/-- `indent_regexp` only deletes line feeds and puts blanks behind line feeds (text without carriage returns) -/
theorem indentation_is_layout (cfg : Config) (t : Str) (hcr : 13 ∉ t) :
    ∃ k0 V0, indentRegexp cfg t = blanks k0 ++ V0 ∧ Ed t V0 := indent_edit cfg t hcr

mutual
/-- every group of a pattern carries the given flag -/
def Pat.GroupsAll (cap : Bool) : Spec.Pat → Prop
  | .grp c p => c = cap ∧ Pat.GroupsAll cap p
  | .cat a b | .alt a b => Pat.GroupsAll cap a ∧ Pat.GroupsAll cap b
  | .rep p _ _ _ => Pat.GroupsAll cap p
  | _ => True
end

theorem groupsAll_catList (cap : Bool) (ps : List Spec.Pat) (h : ∀ p ∈ ps, Pat.GroupsAll cap p) :
    Pat.GroupsAll cap (Spec.catList ps) := by
  induction ps with
  | nil => trivial
  | cons p ps ih =>
    cases ps with
    | nil => exact h p List.mem_cons_self
    | cons q qs => exact ⟨h p List.mem_cons_self, ih (fun x hx => h x (List.mem_cons_of_mem _ hx))⟩

theorem groupsAll_altList (cap : Bool) (ps : List Spec.Pat) (h : ∀ p ∈ ps, Pat.GroupsAll cap p) :
    Pat.GroupsAll cap (Spec.altList ps) := by
  induction ps with
  | nil => trivial
  | cons p ps ih =>
    cases ps with
    | nil => exact h p List.mem_cons_self
    | cons q qs => exact ⟨h p List.mem_cons_self, ih (fun x hx => h x (List.mem_cons_of_mem _ hx))⟩

theorem groupsAll_subOf (cap esc : Bool) (outer : Nat) (e : Expr) (its : List Spec.Pat) (bd : Spec.Pat)
    (h1 : ∀ p ∈ its, Pat.GroupsAll cap p) (h2 : Pat.GroupsAll cap bd) : ∀ p ∈ subOf cap esc outer e its bd, Pat.GroupsAll cap p := by
  unfold subOf
  split
  · intro p hp; simp only [List.mem_singleton] at hp; subst hp; exact ⟨rfl, h2⟩
  · exact h1

theorem groupsAll_optOf (cap : Bool) (l : List Spec.Pat) (h : ∀ p ∈ l, Pat.GroupsAll cap p) : ∀ p ∈ optOf l, Pat.GroupsAll cap p := by
  unfold optOf
  split
  · rename_i p
    intro q hq
    simp only [List.mem_singleton] at hq
    subst hq
    exact h p (by simp)
  · exact h

mutual
theorem both_groups (cap esc : Bool) : ∀ (e : Expr), (∀ p ∈ (e.both cap esc).1, Pat.GroupsAll cap p) ∧ Pat.GroupsAll cap (e.both cap esc).2
  | .lit c => by
    have h : ∀ p ∈ (atomsOf c).map atomPat, Pat.GroupsAll cap p := by
      intro p hp; obtain ⟨x, _, rfl⟩ := List.mem_map.mp hp; cases x <;> trivial
    simp only [Expr.both]
    exact ⟨h, groupsAll_catList cap _ h⟩
  | .cls cs => by
    have h : ∀ p ∈ [Spec.Pat.set (classItems cs) false], Pat.GroupsAll cap p := by
      intro p hp; simp only [List.mem_singleton] at hp; subst hp; trivial
    simp only [Expr.both]
    exact ⟨h, groupsAll_catList cap _ h⟩
  | .cat a b => by
    have ia := both_groups cap esc a
    have ib := both_groups cap esc b
    have h : ∀ p ∈ subOf cap esc 2 a (a.both cap esc).1 (a.both cap esc).2 ++ subOf cap esc 2 b (b.both cap esc).1 (b.both cap esc).2, Pat.GroupsAll cap p := by
      intro p hp
      simp only [List.mem_append] at hp
      rcases hp with hp | hp
      · exact groupsAll_subOf cap esc 2 a _ _ ia.1 ia.2 p hp
      · exact groupsAll_subOf cap esc 2 b _ _ ib.1 ib.2 p hp
    simp only [Expr.both]
    exact ⟨h, groupsAll_catList cap _ h⟩
  | .rep e q => by
    have ie := both_groups cap esc e
    have h := groupsAll_optOf cap _ (groupsAll_subOf cap esc 3 e _ _ ie.1 ie.2)
    simp only [Expr.both]
    exact ⟨h, groupsAll_catList cap _ h⟩
  | .alt os => by
    simp only [Expr.both]
    exact ⟨by simp, groupsAll_altList cap _ (bothL_groups cap esc os)⟩
theorem bothL_groups (cap esc : Bool) : ∀ (os : List Expr), ∀ p ∈ Expr.bothL cap esc os, Pat.GroupsAll cap p
  | [] => by simp [Expr.bothL]
  | o :: os => by
    intro p hp
    simp only [Expr.bothL, List.mem_cons] at hp
    rcases hp with rfl | hp
    · exact groupsAll_catList cap _ (both_groups cap esc o).1
    · exact bothL_groups cap esc os p hp
end

/-- **C06 (all or none)** in the pattern the regex parser builds from the text printed for a well-formed expression,
every group is capturing when capturing groups are requested and none is otherwise -/
theorem groups_all_or_none (cap esc : Bool) (e : Expr) (hwf : e.WF) :
    ∃ P, Spec.parse (fmtRegExp (cfgPlain cap esc) e) = some (⟨false, false⟩, P) ∧ Pat.GroupsAll cap P := by
  refine ⟨_, parse_printed cap esc e hwf, ?_⟩
  apply groupsAll_catList
  intro p hp
  simp only [List.mem_cons, List.mem_append, List.mem_nil_iff, or_false] at hp
  rcases hp with rfl | hp | rfl
  · trivial
  · unfold topItems at hp
    split at hp
    · simp only [List.mem_singleton] at hp; subst hp; exact ⟨rfl, (both_groups cap esc e).2⟩
    · exact (both_groups cap esc e).1 p hp
  · trivial

/-! ## all or none, with counted graphemes -/

theorem groupsAll_atoms (cap : Bool) (as : List Atom) : ∀ p ∈ as.map atomPat, Pat.GroupsAll cap p := by
  intro p hp
  obtain ⟨a, _, rfl⟩ := List.mem_map.mp hp
  cases a <;> trivial

mutual
/-- the items the parser reads from a counted grapheme: every group carries the flag -/
theorem gItems_groups (cap : Bool) : (g : Grapheme) → ∀ p ∈ gItems cap g, Pat.GroupsAll cap p
  | .mk chars reps mn mx => by
    intro p hp
    simp only [gItems] at hp
    split at hp
    · exact groupsAll_atoms cap _ p hp
    · simp only [List.mem_singleton] at hp
      subst hp
      show Pat.GroupsAll cap _
      simp only [Pat.GroupsAll]
      split
      · split
        · split
          · rename_i a _; cases a <;> trivial
          · trivial
        · exact ⟨rfl, groupsAll_catList cap _ (groupsAll_atoms cap _)⟩
      · exact ⟨rfl, groupsAll_catList cap _ (gItemsL_groups cap reps)⟩
theorem gItemsL_groups (cap : Bool) : (gs : List Grapheme) → ∀ p ∈ gItemsL cap gs, Pat.GroupsAll cap p
  | [] => by simp [gItemsL]
  | g :: gs => by
    intro p hp
    simp only [gItemsL, List.mem_append] at hp
    rcases hp with hp | hp
    · exact gItems_groups cap g p hp
    · exact gItemsL_groups cap gs p hp
end

mutual
theorem bothR_groups (cap esc : Bool) : ∀ (e : Expr),
    (∀ p ∈ (e.bothR cap esc).1, Pat.GroupsAll cap p) ∧ Pat.GroupsAll cap (e.bothR cap esc).2
  | .lit c => by
    have h := gItemsL_groups cap c
    simp only [Expr.bothR]
    exact ⟨h, groupsAll_catList cap _ h⟩
  | .cls cs => by
    have h : ∀ p ∈ [Spec.Pat.set (classItems cs) false], Pat.GroupsAll cap p := by
      intro p hp; simp only [List.mem_singleton] at hp; subst hp; trivial
    simp only [Expr.bothR]
    exact ⟨h, groupsAll_catList cap _ h⟩
  | .cat a b => by
    have ia := bothR_groups cap esc a
    have ib := bothR_groups cap esc b
    have h : ∀ p ∈ subOf cap esc 2 a (a.bothR cap esc).1 (a.bothR cap esc).2 ++ subOf cap esc 2 b (b.bothR cap esc).1 (b.bothR cap esc).2,
        Pat.GroupsAll cap p := by
      intro p hp
      simp only [List.mem_append] at hp
      rcases hp with hp | hp
      · exact groupsAll_subOf cap esc 2 a _ _ ia.1 ia.2 p hp
      · exact groupsAll_subOf cap esc 2 b _ _ ib.1 ib.2 p hp
    simp only [Expr.bothR]
    exact ⟨h, groupsAll_catList cap _ h⟩
  | .rep e q => by
    have ie := bothR_groups cap esc e
    have h := groupsAll_optOf cap _ (groupsAll_subOf cap esc 3 e _ _ ie.1 ie.2)
    simp only [Expr.bothR]
    exact ⟨h, groupsAll_catList cap _ h⟩
  | .alt os => by
    simp only [Expr.bothR]
    exact ⟨by simp, groupsAll_altList cap _ (bothLR_groups cap esc os)⟩
theorem bothLR_groups (cap esc : Bool) : ∀ (os : List Expr), ∀ p ∈ Expr.bothLR cap esc os, Pat.GroupsAll cap p
  | [] => by simp [Expr.bothLR]
  | o :: os => by
    intro p hp
    simp only [Expr.bothLR, List.mem_cons] at hp
    rcases hp with rfl | hp
    · exact groupsAll_catList cap _ (bothR_groups cap esc o).1
    · exact bothLR_groups cap esc os p hp
end

/-- **C06 (all or none) with `-r`** in the pattern the regex parser builds from the text printed for an expression with counted graphemes —
plainly or in verbose mode, any anchors — every group is capturing when capturing groups are requested and none is otherwise: the groups
around counted units included -/
theorem groups_all_or_none_with_repetitions (cap esc i ns ne : Bool) (e : Expr) (hwf : e.WFR) :
    ∃ P, Spec.parse (fmtRegExp (cfgAnch cap esc ns ne) e) = some (⟨false, false⟩, P) ∧
      Spec.parse (fmtRegExp (cfgVerb cap esc i ns ne) e) = some (⟨i, true⟩, P) ∧ Pat.GroupsAll cap P := by
  refine ⟨_, parse_printedAR cap esc ns ne e hwf, parse_verboseR cap esc i ns ne e hwf, ?_⟩
  apply groupsAll_catList
  intro p hp
  simp only [List.mem_append] at hp
  rcases hp with hp | hp | hp
  · unfold preA at hp; split at hp
    · simp at hp
    · simp only [List.mem_singleton] at hp; subst hp; trivial
  · unfold topItemsR at hp
    split at hp
    · simp only [List.mem_singleton] at hp; subst hp; exact ⟨rfl, (bothR_groups cap esc e).2⟩
    · exact (bothR_groups cap esc e).1 p hp
  · unfold postA at hp; split at hp
    · simp at hp
    · simp only [List.mem_singleton] at hp; subst hp; trivial

theorem groupsAll_shape (cap esc ns ne : Bool) (e : Expr) :
    Pat.GroupsAll cap (Spec.catList (preA ns ++ (topItems cap esc e ++ postA ne))) := by
  apply groupsAll_catList
  intro p hp
  simp only [List.mem_append] at hp
  rcases hp with hp | hp | hp
  · unfold preA at hp; split at hp
    · simp at hp
    · simp only [List.mem_singleton] at hp; subst hp; trivial
  · unfold topItems at hp
    split at hp
    · simp only [List.mem_singleton] at hp; subst hp; exact ⟨rfl, (both_groups cap esc e).2⟩
    · exact (both_groups cap esc e).1 p hp
  · unfold postA at hp; split at hp
    · simp at hp
    · simp only [List.mem_singleton] at hp; subst hp; trivial

theorem groupsAll_shapeR (cap esc ns ne : Bool) (e : Expr) :
    Pat.GroupsAll cap (Spec.catList (preA ns ++ (topItemsR cap esc e ++ postA ne))) := by
  apply groupsAll_catList
  intro p hp
  simp only [List.mem_append] at hp
  rcases hp with hp | hp | hp
  · unfold preA at hp; split at hp
    · simp at hp
    · simp only [List.mem_singleton] at hp; subst hp; trivial
  · unfold topItemsR at hp
    split at hp
    · simp only [List.mem_singleton] at hp; subst hp; exact ⟨rfl, (bothR_groups cap esc e).2⟩
    · exact (bothR_groups cap esc e).1 p hp
  · unfold postA at hp; split at hp
    · simp at hp
    · simp only [List.mem_singleton] at hp; subst hp; trivial

/-- **C06 (all or none), on a run, all inputs**: in each of the four printing modes (plain or verbose, without or with `-r`; every subset of
the class options, `-i`, `-e`, any anchors) the pattern the regex crate builds from what `build()` returns has only capturing groups
when capturing groups are requested and none otherwise -/
theorem run_groups_all_or_none (cfg : Config) (env : Env) (ws : List Str) (st : Stages)
    (h : regExpFrom cfg env ws = .ok st) (hseg : ∀ w ∈ storedCases cfg env ws, SegOK env w)
    (hlen : ∀ w ∈ storedCases cfg env ws, (clusterOfPieces (env.segOf w)).length ≤ 1000) (hws : ws ≠ [])
    (hmode : PlainPrintNA cfg ∨ VerbosePrintNA cfg ∨ RepPrintNA cfg ∨ RepVerbose cfg) :
    ∃ P, Spec.parse (fmtRegExp cfg st.finalAst) = some (⟨cfg.ci, cfg.verb⟩, P) ∧ Pat.GroupsAll cfg.cap P := by
  have hlen' : ∀ w ∈ storedCases cfg env ws, (subPieces (env.segOf w)).length ≤ 1000 := fun w hw => by
    have := hlen w hw; rwa [clusterOfPieces_eq, List.length_map] at this
  rcases hmode with hp | hp | hp | hp
  · exact ⟨_, by rw [(run_shape_plain cfg hp env ws st h hseg hws).2, hp.verb], groupsAll_shape _ _ _ _ _⟩
  · exact ⟨_, by rw [(run_shape_verbose cfg hp env ws st h hseg hws).2, hp.verb], groupsAll_shape _ _ _ _ _⟩
  · exact ⟨_, by rw [(run_shape_rep cfg hp env ws st h hseg hlen' hws).2, hp.verb], groupsAll_shapeR _ _ _ _ _⟩
  · exact ⟨_, by rw [(run_shape_rep_verbose cfg hp env ws st h hseg hlen' hws).2, hp.verb], groupsAll_shapeR _ _ _ _ _⟩

/-- **the printing options of a grapheme are those of the configuration** (read off the source on every run): the code stores the
three printing options — capturing groups, colour, verbose — in every `Grapheme` it creates; the model prints each grapheme with the
options of the configuration.  The translator's syntactic check succeeded at each of the sites it found (at least the constructors, the
three sites of cluster.rs and the one of dfa.rs): the three options of one configuration are handed over in the constructor's order, and
the constructors store them under their own names -/
theorem grapheme_options_follow_config :
    Gen.graphemeOptionSites.all (fun r => r.2) = true ∧ 5 ≤ Gen.graphemeOptionSites.length := by decide

end Grexv.Props.C06
