import Grexv.Lemmas.SortCases
import Grexv.Lemmas.EndToEndRV
import Grexv.Props.C09

import Grexv.Lemmas.Lex
import Grexv.Lemmas.EndToEnd
import Grexv.Props.C03
import Grexv.Lemmas.RepPipeline
import Grexv.Lemmas.RepElim
import Grexv.Lemmas.EndToEndR

/-!
# C01 — soundness: the generated regex matches every test case (stage lemmas)

The end-to-end statement (`parse (build ws)` accepts every `w ∈ ws`) is false of the code as it
stands (known finding D1: the empty string given together with other test cases is dropped by
`recreate_graph`; D14: letters the pinned regex-syntax does not fold).  Proved here, for all
inputs, are the stage facts the statement decomposes into; the remaining stages are covered by
the correspondence and oracle streams.
-/
set_option linter.unusedSimpArgs false
set_option linter.unusedVariables false
namespace Grexv.Props.C01
open Grexv

/-- the contract the harness checks on every supplied segmentation -/
def SegOK (env : Env) : Prop := ∀ w, (env.segOf w).flatten = w ∧ ∀ p ∈ env.segOf w, p ≠ []

/-- **S1** every test case is still in the stored list (sorting and de-duplication lose nothing) -/
theorem s1_keeps_every_test_case (ws : List Str) (w : Str) (h : w ∈ ws) : w ∈ sortCases ws :=
  (sortCases_mem' ws w).mpr h

/-- **S1 (case-insensitive)** a test case is replaced by its lower-cased form only when the number of
code points is preserved -/
theorem s1_lowercase_keeps_length (env : Env) (ws : List Str) :
    (lowerCases env ws).map List.length = ws.map List.length := by
  simp only [lowerCases, List.map_map]
  apply List.map_congr_left
  intro w _
  simp only [Function.comp, lowerOne]
  split <;> simp_all

theorem value_ofStr (s : Str) : (Grapheme.ofStr s).value = s := by simp [Grapheme.ofStr, Grapheme.value, Grapheme.chars]

/-- **S2** the graphemes of a cluster concatenate back to the test case, whatever the segmentation
(splitting a cluster into single code points does not change the text) -/
theorem s2_cluster_flatten (pieces : List Str) :
    ((clusterOfPieces pieces).map Grapheme.value).flatten = pieces.flatten := by
  induction pieces with
  | nil => rfl
  | cons it rest ih =>
    simp only [clusterOfPieces, List.flatMap_cons, List.map_append, List.flatten_append, List.flatten_cons] at ih ⊢
    rw [ih]
    congr 1
    have single : ∀ cs : Str, ((cs.map fun c => Grapheme.ofStr [c]).map Grapheme.value).flatten = cs := by
      intro cs
      induction cs with
      | nil => rfl
      | cons c cs ihc => simp [value_ofStr] at ihc ⊢; exact ihc
    split
    · exact single it
    · simp [value_ofStr]

theorem s2_cluster_text (env : Env) (hseg : SegOK env) (w : Str) :
    ((clusterOfPieces (env.segOf w)).map Grapheme.value).flatten = w := by
  rw [s2_cluster_flatten]; exact (hseg w).1

/-- **S3** class conversion rewrites code point by code point, and each rewritten code point belongs to
the class it was rewritten to (C09) -/
theorem s3_pointwise (cfg : Config) (g : Grapheme) :
    (convertClasses cfg [g]).map Grapheme.chars = [g.chars.map fun it => it.flatMap (convChar cfg)] := by
  cases g; simp [convertClasses, Grapheme.chars]

theorem s3_member (cfg : Config) (c : Nat) (k : Spec.ClassKind) (neg : Bool)
    (h : Props.C09.tokenClass (convChar cfg c) = some (k, neg)) : (Spec.perlMember k c != neg) = true :=
  Props.C09.conv_mem cfg c k neg h

/-- **S1–S2 composed** the clusters handed to the trie are, in some order, those of all test cases -/
theorem clusters_cover (cfg : Config) (env : Env) (ws : List Str) (w : Str) (h : w ∈ ws)
    (hci : cfg.ci = false) (hcf : cfg.charClassFeature = false) (hrep : cfg.rep = false) :
    clusterOfPieces (env.segOf w) ∈ graphemeClusters cfg env (sortCases ws) := by
  simp only [graphemeClusters, hcf, hrep, Bool.false_eq_true, ite_false, List.mem_map]
  exact ⟨w, s1_keeps_every_test_case ws w h, rfl⟩

/-- **literal level (literals)** for every code point, what the literal printer writes is read back by the
parser as that code point (generated `CHARS_TO_ESCAPE`) -/
theorem literal_lexes (c : Nat) : Lex.parsesAsChar (escapeSymbols [c]) c = true := Lex.literal_lexes c

/-- **literal level (class members)** every ASCII member of a character class, in first or in later position, is
written (generated `chars_to_escape` of `format_character_class`) so that the parser reads exactly
that member: `^` cannot negate, `]` cannot close, `-` cannot form a range, `\` cannot escape -/
theorem class_member_lexes (c : Nat) (h : c < 128) :
    Lex.parsesAsClass (escapeClassChar c) [.range c c] = true ∧
    Lex.parsesAsClass (97 :: escapeClassChar c) [.range 97 97, .range c c] = true :=
  ⟨List.all_eq_true.mp Lex.class_member_ascii_first c (List.mem_range.mpr h),
   List.all_eq_true.mp Lex.class_member_ascii_later c (List.mem_range.mpr h)⟩

/-- **C01 for the model, default settings, all inputs** every non-empty test case is matched in full by the
pattern the regex parser builds from the returned text (with or without capturing groups); the empty test
case is the one exception (known finding D1, see `C02.default_exact`) -/
theorem default_sound (cap : Bool) (env : Env) (ws : List Str) (st : Stages)
    (h : regExpFrom (cfgPlain cap false) env ws = .ok st) (hseg : ∀ w ∈ ws, Grexv.SegOK env w)
    (t : Str) (ht : t ∈ ws) (hne : t ≠ []) :
    ∃ P, Spec.parse (fmtRegExp (cfgPlain cap false) st.finalAst) = some (⟨false, false⟩, P) ∧ Spec.fullMatch false P t = true := by
  have hsc : ∀ c ∈ t, Scalar c := by
    obtain ⟨h1, h2⟩ := hseg t ht
    intro c hc
    rw [← h2] at hc
    obtain ⟨p, hp, hcp⟩ := List.mem_flatten.mp hc
    exact (h1 p hp).2 c hcp
  obtain ⟨P, hP, hm⟩ := Grexv.default_exact cap env ws st h hseg ⟨t, ht, hne⟩ t hsc
  exact ⟨P, hP, hm.mpr ⟨ht, hne⟩⟩

/-- **C01 for the model, class options and `-e`, all inputs** for every subset of the six class options, with or
without capturing groups and `\u{…}` escaping (no surrogate pairs): every non-empty test case is matched in full by the
pattern the regex parser builds from the returned text -/
theorem sound_with_classes_and_escaping (cfg : Config) (hp : PlainPrintCI cfg) (hci : cfg.ci = false) (env : Env)
    (ws : List Str) (st : Stages) (h : regExpFrom cfg env ws = .ok st) (hseg : ∀ w ∈ ws, Grexv.SegOK env w)
    (t : Str) (ht : t ∈ ws) (hne : t ≠ []) :
    ∃ P, Spec.parse (fmtRegExp cfg st.finalAst) = some (⟨false, false⟩, P) ∧ Spec.fullMatch false P t = true := by
  have hsc : ∀ c ∈ t, Scalar c := by
    obtain ⟨h1, h2⟩ := hseg t ht
    intro c hc
    rw [← h2] at hc
    obtain ⟨p, hp, hcp⟩ := List.mem_flatten.mp hc
    exact (h1 p hp).2 c hcp
  have hst : storedCases cfg env ws = ws := by simp [storedCases, hci]
  have := Props.C03.classes_exact_all cfg hp env ws st h (by rw [hst]; exact hseg) (by rw [hst]; exact ⟨t, ht, hne⟩) t hsc
  rw [hst, hci] at this
  obtain ⟨P, hP, hm⟩ := this
  exact ⟨P, hP, hm.mpr ⟨t, ht, hne, Props.C03.generalises_self cfg t⟩⟩

/-- **C01 for the model, every anchor setting, all inputs** for every subset of the class options, with or without
capturing groups and `-e`, with either, both or no anchor (with none, whichever expression the self-check keeps): every
non-empty test case is matched in full by the pattern the regex parser builds from the returned text -/
theorem sound_any_anchor (cfg : Config) (hp : PlainPrintNA cfg) (hci : cfg.ci = false) (env : Env)
    (ws : List Str) (st : Stages) (h : regExpFrom cfg env ws = .ok st) (hseg : ∀ w ∈ ws, Grexv.SegOK env w)
    (t : Str) (ht : t ∈ ws) (hne : t ≠ []) :
    ∃ P, Spec.parse (fmtRegExp cfg st.finalAst) = some (⟨false, false⟩, P) ∧ Spec.fullMatch false P t = true := by
  have hsc : ∀ c ∈ t, Scalar c := by
    obtain ⟨h1, h2⟩ := hseg t ht
    intro c hc
    rw [← h2] at hc
    obtain ⟨p, hp, hcp⟩ := List.mem_flatten.mp hc
    exact (h1 p hp).2 c hcp
  have hst : storedCases cfg env ws = ws := by simp [storedCases, hci]
  have := classes_bounds_any_anchor cfg hp env ws st h (by rw [hst]; exact hseg) (by rw [hst]; exact ⟨t, ht, hne⟩) t hsc
  rw [hst, hci] at this
  obtain ⟨P, hP, _, hm⟩ := this
  refine ⟨P, hP, hm t ht hne ?_⟩
  have : ∀ u : Str, u.map (convAtom cfg) = u.map (Props.C03.docAtom cfg) :=
    fun u => List.map_congr_left (fun c _ => Props.C03.convAtom_documented cfg c)
  rw [this]
  exact Props.C03.generalises_self cfg t

/-- **C01 in verbose mode, all inputs** (at least one anchor): every non-empty test case is matched in full by the
pattern the regex parser builds, under the `(?x)` flag, from the verbose text -/
theorem sound_verbose (cfg : Config) (hp : VerbosePrint cfg) (hci : cfg.ci = false) (env : Env)
    (ws : List Str) (st : Stages) (h : regExpFrom cfg env ws = .ok st) (hseg : ∀ w ∈ ws, Grexv.SegOK env w)
    (t : Str) (ht : t ∈ ws) (hne : t ≠ []) :
    ∃ P, Spec.parse (fmtRegExp cfg st.finalAst) = some (⟨false, true⟩, P) ∧ Spec.fullMatch false P t = true := by
  have hsc : ∀ c ∈ t, Scalar c := by
    obtain ⟨h1, h2⟩ := hseg t ht
    intro c hc
    rw [← h2] at hc
    obtain ⟨p, hp, hcp⟩ := List.mem_flatten.mp hc
    exact (h1 p hp).2 c hcp
  have hst : storedCases cfg env ws = ws := by simp [storedCases, hci]
  have := classes_exact_verbose cfg hp env ws st h (by rw [hst]; exact hseg) (by rw [hst]; exact ⟨t, ht, hne⟩) t hsc
  rw [hst, hci] at this
  obtain ⟨P, hP, hm⟩ := this
  refine ⟨P, hP, hm.mpr ⟨t, ht, hne, ?_⟩⟩
  have : ∀ u : Str, u.map (convAtom cfg) = u.map (Props.C03.docAtom cfg) :=
    fun u => List.map_congr_left (fun c _ => Props.C03.convAtom_documented cfg c)
  rw [this]
  exact Props.C03.generalises_self cfg t

/-! ## with repetition conversion (`-r`): up to the minimised automaton -/

/-- **C01 with `-r`, S1–S6, all inputs** (no class option, any thresholds): for every stored test case `w`, the cluster S4 makes
of it is handed to the trie, its graphemes — each repeated by its count — spell `w`, and (unless `w` is empty) the minimised
automaton has an accepting path that carries it: edge by edge the label has the grapheme's characters and a range of counts
`{m,n}` that contains the grapheme's count.  (This is the statement that was *false* before the repair 7496dbd:
`["xc","yc","ycc","xccc","yccc"]` lost `ycc` in the minimisation.)  Elimination and printing of counted labels are not
covered by a theorem; the differential streams cover them. -/
theorem repetitions_sound_automaton (cfg : Config) (env : Env) (ws : List Str) (st : Stages)
    (h : regExpFrom cfg env ws = .ok st) (hrep : cfg.rep = true) (hnc : cfg.charClassFeature = false)
    (hseg : ∀ w ∈ st.sorted, (env.segOf w).flatten = w ∧ ∀ p ∈ env.segOf w, p ≠ [])
    (w : Str) (hw : w ∈ st.sorted) :
    convertRepetitions cfg (clusterOfPieces (env.segOf w)) ∈ st.clusters ∧
    (expandAll (convertRepetitions cfg (clusterOfPieces (env.segOf w)))).flatten = w ∧
    (w ≠ [] → st.minimized.CAccepts (convertRepetitions cfg (clusterOfPieces (env.segOf w)))) := by
  have hpc : clusterOfPieces (env.segOf w) ∈ preClusters cfg env st.sorted := by
    simp only [preClusters, hnc, Bool.false_eq_true, ite_false]
    exact List.mem_map_of_mem hw
  obtain ⟨h1, h2, _, h4⟩ := rep_pipeline_sound cfg env ws st h hrep (fun w hw => (hseg w hw).2) _ hpc
  have hflat : (expandAll (convertRepetitions cfg (clusterOfPieces (env.segOf w)))).flatten = w := by
    rw [h2, s2_cluster_flatten]; exact (hseg w hw).1
  refine ⟨h1, hflat, ?_⟩
  intro hne
  apply h4
  intro hnil
  rw [hnil] at hflat
  exact hne (by simpa [expandAll] using hflat.symm)

/-- **C01 with `-r`, S1–S7, all inputs** (no class option, any thresholds): for every non-empty stored test case `w`, the expression
`Expression::from` computes from the minimised automaton (the first candidate of `RegExp::from`, and the final one whenever an anchor is
in place) has, in its symbol-level language, a sequence of labels that carries the converted cluster of `w` (label by label the
characters of the grapheme and a range of counts `{m,n}` containing the grapheme's count) and therefore *spells* `w`: `w` is the
concatenation of the labels' characters, each label `{m,n}` repeated some `k` times with `m ≤ k ≤ n` (`Dfa.Spells`).  What remains between this and the property is the printing of counted labels (`x{m,n}`,
`(?:…){n}`) and its reading by the regex crate, which is compared per input. -/
theorem repetitions_sound_expression (cfg : Config) (env : Env) (ws : List Str) (st : Stages)
    (h : regExpFrom cfg env ws = .ok st) (hrep : cfg.rep = true) (hnc : cfg.charClassFeature = false)
    (hseg : ∀ w ∈ st.sorted, (env.segOf w).flatten = w ∧ ∀ p ∈ env.segOf w, p ≠ [])
    (w : Str) (hw : w ∈ st.sorted) (hne : w ≠ []) :
    ∃ ls : Word, st.firstAst.lang ls ∧ Dfa.CarriesL ls (convertRepetitions cfg (clusterOfPieces (env.segOf w))) ∧ Dfa.Spells ls w := by
  obtain ⟨_, hflat, _⟩ := repetitions_sound_automaton cfg env ws st h hrep hnc hseg w hw
  suffices hh : ∃ ls : Word, st.firstAst.lang ls ∧ Dfa.CarriesL ls (convertRepetitions cfg (clusterOfPieces (env.segOf w))) by
    obtain ⟨ls, h1, h2⟩ := hh
    refine ⟨ls, h1, h2, ?_⟩
    have hcounts : ∀ g ∈ convertRepetitions cfg (clusterOfPieces (env.segOf w)), g.min = g.max := by
      apply convertRepetitions_counts
      intro g hg
      simp only [clusterOfPieces, List.mem_flatMap] at hg
      obtain ⟨it, _, hg⟩ := hg
      split at hg
      · simp at hg; obtain ⟨c, _, rfl⟩ := hg; rfl
      · simp at hg; subst hg; rfl
    have := Dfa.carriesL_spells h2 hcounts
    rwa [hflat] at this
  have hpc : clusterOfPieces (env.segOf w) ∈ preClusters cfg env st.sorted := by
    simp only [preClusters, hnc, Bool.false_eq_true, ite_false]
    exact List.mem_map_of_mem hw
  have hcne : convertRepetitions cfg (clusterOfPieces (env.segOf w)) ≠ [] := by
    intro hnil
    rw [hnil] at hflat
    exact hne (by simpa [expandAll] using hflat.symm)
  obtain ⟨_, _, h3⟩ := rep_first_candidate cfg env ws st h hrep (fun w hw => (hseg w hw).2)
  obtain ⟨ls, hls, hcar⟩ := h3 _ hpc hcne
  refine ⟨ls, ?_, hcar⟩
  obtain ⟨_, _, _, _, h5⟩ := from_stages_shape cfg env ws st h
  rw [h5, ofDfa_eq]
  cases hb : ((List.range st.minimized.nodes).reverse.foldl (elimStep cfg) (elimInit cfg st.minimized st.minimized.dfs)).b.get 0 with
  | none => rw [hb] at hls; exact absurd hls (by simp [olang])
  | some e => rw [hb] at hls; simpa [olang] using hls

/-- with an anchor in place the first candidate is the expression that is printed -/
theorem repetitions_sound_final_expression (cfg : Config) (env : Env) (ws : List Str) (st : Stages)
    (h : regExpFrom cfg env ws = .ok st) (hrep : cfg.rep = true) (hnc : cfg.charClassFeature = false)
    (ha : (cfg.noStart && cfg.noEnd) = false)
    (hseg : ∀ w ∈ st.sorted, (env.segOf w).flatten = w ∧ ∀ p ∈ env.segOf w, p ≠ [])
    (w : Str) (hw : w ∈ st.sorted) (hne : w ≠ []) :
    ∃ ls : Word, st.finalAst.lang ls ∧ Dfa.Spells ls w := by
  obtain ⟨ls, h1, _, h3⟩ := repetitions_sound_expression cfg env ws st h hrep hnc hseg w hw hne
  rw [from_final_anchored cfg env ws st h ha]
  exact ⟨ls, h1, h3⟩

/-- **C01 with `-r`, every anchor setting, up to the expression that is printed** whichever expression `RegExp::from` keeps (with both
anchors disabled the self-check may fall back to the expression of the unminimised trie or to the plain alternation), every non-empty
stored test case is spelled by a label sequence of its symbol-level language -/
theorem repetitions_sound_any_anchor (cfg : Config) (env : Env) (ws : List Str) (st : Stages)
    (h : regExpFrom cfg env ws = .ok st) (hrep : cfg.rep = true) (hnc : cfg.charClassFeature = false)
    (hseg : ∀ w ∈ st.sorted, (env.segOf w).flatten = w ∧ ∀ p ∈ env.segOf w, p ≠ [])
    (w : Str) (hw : w ∈ st.sorted) (hne : w ≠ []) :
    ∃ ls : Word, st.finalAst.lang ls ∧ Dfa.Spells ls w := by
  obtain ⟨_, hflat, _⟩ := repetitions_sound_automaton cfg env ws st h hrep hnc hseg w hw
  have hpc : clusterOfPieces (env.segOf w) ∈ preClusters cfg env st.sorted := by
    simp only [preClusters, hnc, Bool.false_eq_true, ite_false]
    exact List.mem_map_of_mem hw
  have hcne : convertRepetitions cfg (clusterOfPieces (env.segOf w)) ≠ [] := by
    intro hnil
    rw [hnil] at hflat
    exact hne (by simpa [expandAll] using hflat.symm)
  obtain ⟨ls, h1, h2⟩ := rep_final_expr cfg env ws st h hrep (fun w hw => (hseg w hw).2) _ hpc hcne
  refine ⟨ls, h1, ?_⟩
  have hcounts : ∀ g ∈ convertRepetitions cfg (clusterOfPieces (env.segOf w)), g.min = g.max := by
    apply convertRepetitions_counts
    intro g hg
    simp only [clusterOfPieces, List.mem_flatMap] at hg
    obtain ⟨it, _, hg⟩ := hg
    split at hg
    · simp at hg; obtain ⟨c, _, rfl⟩ := hg; rfl
    · simp at hg; subst hg; rfl
  have := Dfa.carriesL_spells h2 hcounts
  rwa [hflat] at this

/-- **C01 with repetition conversion, end to end on the model, all inputs** (`-r` with positive thresholds; every subset of the class
options, with or without capturing groups and `-e`; case-sensitive, plain printing, any anchors — with both disabled whichever of its
three candidates `RegExp::from` keeps): for every list of
test cases each of at most 1000 graphemes (the largest count the Spec model of `regex-syntax` reads; the real crate accepts larger
counts up to its compiled-size limit, which is not modelled), every segmentation meeting its contract and
every non-empty test case `t`: the text `Display for RegExp` writes is accepted by the model of `Regex::new`, and the compiled pattern
matches `t` in full.
Chain: S1–S4 (`rep_pipeline_sound`: the converted cluster expands to the test case after class conversion), S5 (the trie stands for it
whatever the widening merge does), S6 (stable partition for transition relations; this is where defect D17 was), S7 (`rep_final_expr`:
the expression denotes the automaton's label sequences; well-formed: `rep_final_wfs`), S8/S9 (`parse_printedAR`: the printed text with
`x{m,n}` / `(?:unit){m,n}` and nested repetitions is read back as `bothR`; `Expr.bothR_den`: those items denote exactly the strings the
labels spell, atom by atom; `matchP_exactC`: the matcher is exact on counted repetition).  The case-insensitive counterpart is
`C04.ci_sound_with_repetitions`. -/
theorem repetitions_sound (cfg : Config) (hp : RepPrintNA cfg) (hci : cfg.ci = false) (env : Env) (ws : List Str) (st : Stages)
    (h : regExpFrom cfg env ws = .ok st) (hseg : ∀ w ∈ ws, Grexv.SegOK env w)
    (hlen : ∀ w ∈ ws, (clusterOfPieces (env.segOf w)).length ≤ 1000)
    (t : Str) (ht : t ∈ ws) (hne : t ≠ []) :
    ∃ P, Spec.parse (fmtRegExp cfg st.finalAst) = some (⟨false, false⟩, P) ∧ Spec.fullMatch false P t = true := by
  have hlen : ∀ w ∈ ws, (subPieces (env.segOf w)).length ≤ 1000 := fun w hw => by
    have := hlen w hw; rwa [clusterOfPieces_eq, List.length_map] at this
  have hsc : ∀ c ∈ t, Scalar c := by
    obtain ⟨h1, h2⟩ := hseg t ht
    intro c hc
    rw [← h2] at hc
    obtain ⟨p, hp, hcp⟩ := List.mem_flatten.mp hc
    exact (h1 p hp).2 c hcp
  have hst : storedCases cfg env ws = ws := by simp [storedCases, hci]
  have := rep_end_to_end_na cfg hp env ws st h (by rw [hst]; exact hseg) (by rw [hst]; exact hlen) t (by rw [hst]; exact ht) hne t hsc
  rw [hci] at this
  apply this
  have : ∀ u : Str, u.map (convAtom cfg) = u.map (Props.C03.docAtom cfg) :=
    fun u => List.map_congr_left (fun c _ => Props.C03.convAtom_documented cfg c)
  rw [this]
  exact Props.C03.generalises_self cfg t

/-- **C01 with repetition conversion in verbose mode, all inputs** (`-r -x`; every subset of the class options, capturing groups, `-e`,
any anchors; case-sensitive): whenever `RegExp::from` returns, the verbose text — flag line, one lexeme group per line, indentation,
counted groups written `(?:` / unit / `){n}` on lines of their own — is accepted by the model of `Regex::new` with the `x` flag set, and
the compiled pattern matches every non-empty test case in full.  Chain: the print → parse theorems for counted graphemes once more for
the verbose character escapes (`Lemmas/*V.lean`, generated from the originals by `tools/vify.py`), counted repetition under the `x` flag
(`parseCounted_exact_x`, the constructor `XL.cnt`), the verbose layout of a counted grapheme is its plain layout plus line feeds between
lexemes (`relG`), `parse_verboseR`. -/
theorem repetitions_sound_verbose (cfg : Config) (hp : RepVerbose cfg) (hci : cfg.ci = false) (env : Env) (ws : List Str) (st : Stages)
    (h : regExpFrom cfg env ws = .ok st) (hseg : ∀ w ∈ ws, Grexv.SegOK env w)
    (hlen : ∀ w ∈ ws, (clusterOfPieces (env.segOf w)).length ≤ 1000)
    (t : Str) (ht : t ∈ ws) (hne : t ≠ []) :
    ∃ P, Spec.parse (fmtRegExp cfg st.finalAst) = some (⟨false, true⟩, P) ∧ Spec.fullMatch false P t = true := by
  have hlen : ∀ w ∈ ws, (subPieces (env.segOf w)).length ≤ 1000 := fun w hw => by
    have := hlen w hw; rwa [clusterOfPieces_eq, List.length_map] at this
  have hsc : ∀ c ∈ t, Scalar c := by
    obtain ⟨h1, h2⟩ := hseg t ht
    intro c hc
    rw [← h2] at hc
    obtain ⟨p, hp, hcp⟩ := List.mem_flatten.mp hc
    exact (h1 p hp).2 c hcp
  have hst : storedCases cfg env ws = ws := by simp [storedCases, hci]
  have := rep_end_to_end_verbose cfg hp env ws st h (by rw [hst]; exact hseg) (by rw [hst]; exact hlen) t (by rw [hst]; exact ht) hne t hsc
  rw [hci] at this
  apply this
  have : ∀ u : Str, u.map (convAtom cfg) = u.map (Props.C03.docAtom cfg) :=
    fun u => List.map_congr_left (fun c _ => Props.C03.convAtom_documented cfg c)
  rw [this]
  exact Props.C03.generalises_self cfg t

example : RepVerbose { rep := true, verb := true, word := true, noStart := true } := ⟨rfl, by decide, rfl, rfl, rfl⟩

/-- the bound on the length is on what S4 receives: a test case of at most 1000 code points qualifies, whatever the segmentation -/
theorem cluster_length_le (pieces : List Str) (hne : ∀ p ∈ pieces, p ≠ []) :
    (clusterOfPieces pieces).length ≤ pieces.flatten.length := by
  rw [clusterOfPieces_eq, List.length_map]
  induction pieces with
  | nil => simp [subPieces]
  | cons p r ih =>
    have ih := ih (fun q hq => hne q (List.mem_cons_of_mem _ hq))
    have hp : 1 ≤ p.length := by
      cases p with
      | nil => exact absurd rfl (hne [] List.mem_cons_self)
      | cons _ _ => simp
    simp only [subPieces, List.flatMap_cons, List.length_append, List.flatten_cons] at ih ⊢
    split
    · simp only [List.length_map]; omega
    · simp only [List.length_singleton]; omega

/-- the settings are satisfiable: `-r` alone, `-r -g -e -d -w` with thresholds 2 and 3 and no start anchor -/
example : RepPrintNA { rep := true } ∧
    RepPrintNA { rep := true, cap := true, esc := true, digit := true, word := true, minRep := 2, minLen := 3, noStart := true, noEnd := true } :=
  ⟨⟨rfl, by decide, rfl, rfl, rfl⟩, ⟨rfl, by decide, rfl, rfl, rfl⟩⟩

/-- the segmentation into single code points meets the contract on every string of scalar values -/
theorem segOK_singletons (lw : Str → Str) (w : Str) (hw : ∀ c ∈ w, Scalar c) :
    Grexv.SegOK { lowerOf := lw, segOf := fun w => w.map fun c => [c] } w := by
  have hflat : ∀ (u : Str), (u.map fun c => [c]).flatten = u := by
    intro u; induction u with
    | nil => rfl
    | cons a r ih => simp only [List.map_cons, List.flatten_cons, ih, List.singleton_append]
  refine ⟨?_, hflat w⟩
  · intro p hp
    simp only [List.mem_map] at hp
    obtain ⟨c, hc, rfl⟩ := hp
    exact ⟨by simp, fun x hx => by simp only [List.mem_singleton] at hx; subst hx; exact hw x hc⟩

/-- **the hypotheses of `repetitions_sound` and of `repetitions_sound_verbose` are jointly satisfiable** on `["aaa", "b"]` with the
segmentation into single code points: the settings, a successful run of `RegExp::from` (evaluated by the kernel), the segmentation
contract and the bound on the length -/
example :
    let env : Env := { lowerOf := id, segOf := fun w => w.map fun c => [c] }
    let ws := [strOf "aaa", strOf "b"]
    (RepPrintNA { rep := true } ∧ ∃ st, regExpFrom { rep := true } env ws = .ok st) ∧
    (RepVerbose { rep := true, verb := true } ∧ ∃ st, regExpFrom { rep := true, verb := true } env ws = .ok st) ∧
    (∀ w ∈ ws, Grexv.SegOK env w) ∧ (∀ w ∈ ws, (clusterOfPieces (env.segOf w)).length ≤ 1000) := by
  have ok : ∀ (cfg : Config), (match regExpFrom cfg { lowerOf := id, segOf := fun w => w.map fun c => [c] } [strOf "aaa", strOf "b"] with
      | .ok _ => true | .error _ => false) = true →
      ∃ st, regExpFrom cfg { lowerOf := id, segOf := fun w => w.map fun c => [c] } [strOf "aaa", strOf "b"] = .ok st := by
    intro cfg h
    cases hr : regExpFrom cfg { lowerOf := id, segOf := fun w => w.map fun c => [c] } [strOf "aaa", strOf "b"] with
    | ok st => exact ⟨st, rfl⟩
    | error e => rw [hr] at h; cases h
  refine ⟨⟨⟨rfl, by decide, rfl, rfl, rfl⟩, ok _ (by decide +kernel)⟩, ⟨⟨rfl, by decide, rfl, rfl, rfl⟩, ok _ (by decide +kernel)⟩, ?_, ?_⟩
  · intro w hw
    apply segOK_singletons
    intro c hc
    have : c < 128 := by
      simp only [List.mem_cons, List.mem_nil_iff, or_false] at hw
      rcases hw with rfl | rfl <;> (revert hc; simp [strOf]; omega)
    unfold Scalar; omega
  · intro w hw
    simp only [List.mem_cons, List.mem_nil_iff, or_false] at hw
    rcases hw with rfl | rfl <;> decide +kernel

/-- the input on which the unrepaired minimisation lost `ycc`, evaluated by the kernel on the model (the correspondence stream
compares the same input with the implementation) -/
example :
    let env : Env := { lowerOf := id, segOf := fun w => w.map fun c => [c] }
    (match regExpFrom { rep := true } env [strOf "xc", strOf "yc", strOf "ycc", strOf "xccc", strOf "yccc"] with
      | .ok st => some st.finalAst
      | .error _ => none) =
      some (.alt [.cat (.lit [.mk [[120]] [] 1 1]) (.alt [.lit [.mk [[99]] [] 1 1], .lit [.mk [[99]] [] 3 3]]),
                  .lit [.mk [[121]] [] 1 1, .mk [[99]] [] 1 3]]) := by decide +kernel   -- ^(?:x(?:c|c{3})|yc{1,3})$

end Grexv.Props.C01
