import Grexv.Model.Api
import Grexv.Model.ApiCli
import Grexv.Lemmas.Lines

/-!
# C12 — the CLI is a faithful front end of the library

`Gen.cliFlags`, `Gen.cliDispatch` and the error-path facts are regenerated from src/main.rs on
every run; `Gen.rsSetters` from src/builder.rs.
-/
set_option linter.unusedSimpArgs false
set_option linter.unusedVariables false
namespace Grexv.Props.C12
open Grexv Gen

def Config.getBool (cfg : Config) : Field → Bool
  | .digit => cfg.digit | .nonDigit => cfg.nonDigit | .space => cfg.space | .nonSpace => cfg.nonSpace
  | .word => cfg.word | .nonWord => cfg.nonWord | .rep => cfg.rep | .ci => cfg.ci | .cap => cfg.cap
  | .esc => cfg.esc | .sur => cfg.sur | .verb => cfg.verb | .noStart => cfg.noStart | .noEnd => cfg.noEnd
  | .color => cfg.color | .minRep | .minLen => false

/-- one conditional step of `handle_input` -/
theorem step_cond (v : CliVals) (cf : CliField) (sid : SetterId) (arg : Option CliField) (as : List CliAction)
    (cfg c' : Config)
    (h : applySetter rsSetters sid (cliArg v rsSetters ⟨some cf, sid, arg⟩) cfg = some (.ok c')) :
    runCliDispatch rsSetters v (⟨some cf, sid, arg⟩ :: as) cfg
      = runCliDispatch rsSetters v as (if v.getBool cf then c' else cfg) := by
  simp only [runCliDispatch, h]; cases v.getBool cf <;> rfl

/-- one unconditional step (the threshold chain) -/
theorem step_always (v : CliVals) (sid : SetterId) (arg : Option CliField) (as : List CliAction)
    (cfg : Config) (r : Except Msg Config)
    (h : applySetter rsSetters sid (cliArg v rsSetters ⟨none, sid, arg⟩) cfg = some r) :
    runCliDispatch rsSetters v (⟨none, sid, arg⟩ :: as) cfg
      = (match r with | .ok c' => runCliDispatch rsSetters v as c' | .error m => .error m) := by
  simp only [runCliDispatch, h]; cases r <;> rfl

theorem ite_setBool (b : Bool) (cfg : Config) (f : Field) :
    (if b = true then cfg.setBool f true else cfg) = cfg.setBool f (b || Config.getBool cfg f) := by
  cases b <;> cases f <;> simp [Config.setBool, Config.getBool]

theorem ite_setBool2 (b x : Bool) (cfg : Config) (f g : Field) (hfg : f ≠ g) :
    (if b = true then (cfg.setBool f true).setBool g x else cfg)
      = (cfg.setBool f (b || Config.getBool cfg f)).setBool g (if b then x else Config.getBool cfg g) := by
  cases b <;> cases f <;> cases g <;> first | (exact absurd rfl hfg) | simp [Config.setBool, Config.getBool]

/-- **C12 (dispatch)** for every combination of the 16 switches and every pair of positive
thresholds, the chain of `if cli.x { builder.y(); }` statements of `handle_input` (as generated
from main.rs), run with the library's setters (as generated from builder.rs), leaves exactly the
documented configuration -/
theorem cli_dispatch (v : CliVals) (h1 : 0 < v.minRepetitions) (h2 : 0 < v.minSubstringLength) :
    runCliDispatch rsSetters v cliDispatch {} = .ok (specCfgOfCli v) := by
  have e1 : v.minRepetitions ≠ 0 := by omega
  have e2 : v.minSubstringLength ≠ 0 := by omega
  unfold cliDispatch
  repeat (first
    | rw [step_cond (h := rfl), ite_setBool]
    | rw [step_cond (h := rfl), ite_setBool2 (hfg := by decide)])
  rw [step_always (r := .ok _) (h := by
    simp [applySetter, findSetter, rsSetters, cliArg, runBody, runStmt, CliVals.getNat, e1]; rfl)]
  simp only []
  rw [step_always (r := .ok _) (h := by
    simp [applySetter, findSetter, rsSetters, cliArg, runBody, runStmt, CliVals.getNat, e2]; rfl)]
  simp [runCliDispatch, Config.setBool, Config.getBool, Config.setNat, specCfgOfCli, CliVals.getBool, Bool.or_comm]

/-- **C12 (zero thresholds)** cannot reach the library: the value parser rejects `0`, and if a zero
did arrive the setter would raise the documented message instead of building -/
theorem cli_zero_rejected : cliThresholdParserRejectsZero = true := rfl
theorem zero_min_rep_setter (cfg : Config) :
    applySetter rsSetters .minRepetitions (.int 0) cfg = some (.error .minRep) := rfl
theorem zero_min_len_setter (cfg : Config) :
    applySetter rsSetters .minSubstringLength (.int 0) cfg = some (.error .minLen) := rfl

/-- **C12 (flag table)** every documented option exists exactly once, `--with-surrogates` requires
`--escape`, both thresholds default to 1 and go through the zero-rejecting parser -/
theorem cli_flag_table :
    (cliFlags.map CliFlag.field).Nodup ∧ cliFlags.length = 18 ∧
    (cliFlags.find? (·.field = .withSurrogates)).map CliFlag.requires = some (some .escape) ∧
    (cliFlags.filter (fun f => !f.isBool)).map (fun f => (f.field, f.default, f.rejectsZero)) =
      [(.minRepetitions, some 1, true), (.minSubstringLength, some 1, true)] ∧
    (cliFlags.map CliFlag.long).all id = true := by decide

/-- documented short options -/
theorem cli_short_options :
    (cliFlags.filterMap fun f => f.short.map fun c => (f.field, c)) =
      [(.digits, 100), (.nonDigits, 68), (.spaces, 115), (.nonSpaces, 83), (.words, 119), (.nonWords, 87),
       (.escape, 101), (.repetitions, 114), (.verbose, 120), (.colorize, 99), (.ignoreCase, 105),
       (.captureGroups, 103)] := by decide

/-- **C12 (errors never panic)** read off the source: empty input is answered with an error before
`RegExpBuilder::from` (which would panic) is reached; read errors of standard input are propagated,
not unwrapped; every error kind is mapped to a message; `from_file` is `from` on the file's lines -/
theorem cli_error_paths :
    cliRejectsEmptyInput = true ∧ cliStdinErrorsPropagated = true ∧ cliErrorsBecomeMessages = true ∧
    rsFromFileDelegatesToFrom = true ∧ rsFromRejectsEmpty = true := ⟨rfl, rfl, rfl, rfl, rfl⟩

/-! ## `str::lines` round trip: all four channels deliver the same list -/

/-- a test case that can be transported on a line of its own -/
def LineSafe (le : Str) (l : Str) : Prop := 10 ∉ l ∧ (le = [10] → l.getLast? ≠ some 13)

/-- **C12 (LF)** `lines` of the LF encoding, with or without the final newline, returns the list -/
theorem lines_roundtrip_lf (ws : List Str) (final : Bool)
    (h : ∀ w ∈ ws, 10 ∉ w ∧ w.getLast? ≠ some 13) (hlast : ws.getLast? ≠ some [] ∨ final = true) :
    splitLines (encodeLines [10] final ws) = ws := by
  unfold splitLines
  induction ws with
  | nil => simp [encodeLines, splitLines.go]
  | cons w rest ih =>
    have hw := h w (List.mem_cons_self)
    have hrest : ∀ w ∈ rest, 10 ∉ w ∧ w.getLast? ≠ some 13 := fun x hx => h x (List.mem_cons_of_mem _ hx)
    cases rest with
    | nil =>
      cases final with
      | true =>
        simp only [encodeLines, ite_true]
        have := splitLines_go_line [] w [] hw.1
        simp at this
        rw [this]; simp [hw.2, splitLines.go]
      | false =>
        simp only [encodeLines, Bool.false_eq_true, ite_false]
        rw [splitLines_go_noLF [] w hw.1]
        have : w ≠ [] := by
          intro e; subst e; simp at hlast
        simp [this]
    | cons w2 rest2 =>
      have hl : (w2 :: rest2).getLast? ≠ some [] ∨ final = true := by
        cases hlast with
        | inl h1 => left; simpa [List.getLast?_cons_cons] using h1
        | inr h2 => right; exact h2
      have ih' := ih hrest hl
      simp only [encodeLines, List.append_assoc, List.singleton_append]
      have := splitLines_go_line [] w (encodeLines [10] final (w2 :: rest2)) hw.1
      simp at this
      rw [this, ih']; simp [hw.2]

/-- **C12 (CRLF)** `lines` of the CRLF encoding, with or without the final line break, returns the list — also for test
cases that themselves end in a carriage return (only the one belonging to the line break is dropped) -/
theorem lines_roundtrip_crlf (ws : List Str) (final : Bool)
    (h : ∀ w ∈ ws, 10 ∉ w) (hlast : ws.getLast? ≠ some [] ∨ final = true) :
    splitLines (encodeLines [13, 10] final ws) = ws := by
  have hline : ∀ (w rest : Str), 10 ∉ w → splitLines.go (w ++ [13, 10] ++ rest) [] = w :: splitLines.go rest [] := by
    intro w rest hw
    have h13 : 10 ∉ w ++ [13] := by simp [hw]
    have := splitLines_go_line [] (w ++ [13]) rest h13
    simp only [List.reverse_nil, List.nil_append, List.getLast?_append, List.getLast?_singleton, Option.some_or,
      ite_true, List.dropLast_concat] at this
    rw [← this]
    simp
  unfold splitLines
  induction ws with
  | nil => simp [encodeLines, splitLines.go]
  | cons w rest ih =>
    have hw := h w (List.mem_cons_self)
    have hrest : ∀ w ∈ rest, 10 ∉ w := fun x hx => h x (List.mem_cons_of_mem _ hx)
    cases rest with
    | nil =>
      cases final with
      | true =>
        simp only [encodeLines, ite_true]
        have := hline w [] hw
        simp only [List.append_nil] at this
        rw [this]; simp [splitLines.go]
      | false =>
        simp only [encodeLines, Bool.false_eq_true, ite_false]
        rw [splitLines_go_noLF [] w hw]
        have : w ≠ [] := by
          intro e; subst e; simp at hlast
        simp [this]
    | cons w2 rest2 =>
      have hl : (w2 :: rest2).getLast? ≠ some [] ∨ final = true := by
        cases hlast with
        | inl h1 => left; simpa [List.getLast?_cons_cons] using h1
        | inr h2 => right; exact h2
      have ih' := ih hrest hl
      simp only [encodeLines]
      rw [hline w _ hw, ih']

/-! ## the whole run: channel → lines → dispatch → `build()` → one line of output -/

/-- how the test cases arrive: as arguments, or as text that goes through `str::lines` (a file, standard input, a file named on
standard input: `obtain_input` applies `lines` to all three) -/
inductive CliInput where
  | args (ws : List Str) (stdin : Str)
  | content (t : Str)

/-- the arguments are the test cases, whatever standard input holds — unless the single argument is a hyphen, which stands for the lines
of standard input (`cliHyphenAloneMeansStdin`, read off `obtain_input` on every run) -/
def cliCases : CliInput → List Str
  | .args ws stdin => if cliHyphenAloneMeansStdin && decide (ws = [[45]]) then splitLines stdin else ws
  | .content t => splitLines t

/-- what `main` does with a usable command line — the composition of `obtain_input`, `handle_input` and `println!` as read off
main.rs (the guards `cliRejectsEmptyInput`, `cliErrorsBecomeMessages` are extracted from the source on every run: `cli_error_paths`;
the binary itself is compared with the library in-process by the harness): `none` = one-line error and exit status 1,
`some text` = `text` on standard output and exit status 0 -/
def cliRun (env : Env) (v : CliVals) (inp : CliInput) : Except Panic (Option Str) :=
  if cliCases inp = [] then .ok none
  else
    match runCliDispatch rsSetters v cliDispatch {} with
    | .error _ => .ok none
    | .ok cfg =>
      match regExpFrom cfg env (cliCases inp) with
      | .ok st => .ok (some (fmtRegExp cfg st.finalAst ++ [10]))
      | .error e => .error e

/-- the library called directly with the documented meaning of the flags -/
def libRun (env : Env) (v : CliVals) (ws : List Str) : Except Panic (Option Str) :=
  match regExpFrom (specCfgOfCli v) env ws with
  | .ok st => .ok (some (fmtRegExp (specCfgOfCli v) st.finalAst ++ [10]))
  | .error e => .error e

/-- **C12 (faithful front end, arguments)** for every flag combination with positive thresholds and every non-empty list of test cases
the CLI prints exactly the library's `build()` result for the corresponding settings followed by a newline.  `cliRun` is the composition
written above; the content of this theorem is `cli_dispatch` (the generated chain of 18 conditional setter calls yields the documented
configuration) and the hyphen rule (a generated fact) — the rest is unfolding -/
theorem cli_is_library (env : Env) (v : CliVals) (h1 : 0 < v.minRepetitions) (h2 : 0 < v.minSubstringLength)
    (ws : List Str) (hws : ws ≠ []) (hhy : ws ≠ [[45]]) (stdin : Str) : cliRun env v (.args ws stdin) = libRun env v ws := by
  simp only [cliRun, cliCases, hws, hhy, decide_false, Bool.and_false, Bool.false_eq_true, ite_false, cli_dispatch v h1 h2, libRun]

theorem cli_hyphen_rule : cliHyphenAloneMeansStdin = true := rfl

/-- a hyphen as the single argument stands for standard input (by the generated fact `cliHyphenAloneMeansStdin`, on which `cliCases`
branches); a hyphen among several arguments is a test case (`cli_is_library`) -/
theorem cli_hyphen_is_stdin (env : Env) (v : CliVals) (stdin : Str) :
    cliRun env v (.args [[45]] stdin) = cliRun env v (.content stdin) := by
  simp only [cliRun, cliCases, cli_hyphen_rule, decide_true, Bool.and_self, ite_true]
  try rfl


/-- **C12 (faithful front end, text through `str::lines`)** … and the same when the test cases arrive as text — a file, standard input
and a file named on standard input are one constructor of the model (`obtain_input` applies `lines` to all three; reading the file name
from standard input is not modelled, it is exercised on the binary) — with LF or CRLF line endings, with or
without a final line break (test cases that can travel on a line of their own: no line feed inside, no carriage return at the end under
LF; the last one non-empty unless the final line break is written) -/
theorem cli_channels_agree (env : Env) (v : CliVals) (h1 : 0 < v.minRepetitions) (h2 : 0 < v.minSubstringLength)
    (ws : List Str) (hws : ws ≠ []) (crlf final : Bool)
    (h : ∀ w ∈ ws, 10 ∉ w ∧ (crlf = false → w.getLast? ≠ some 13)) (hlast : ws.getLast? ≠ some [] ∨ final = true) :
    cliRun env v (.content (encodeLines (if crlf then [13, 10] else [10]) final ws)) = libRun env v ws := by
  have hl : splitLines (encodeLines (if crlf then [13, 10] else [10]) final ws) = ws := by
    cases crlf with
    | true => exact lines_roundtrip_crlf ws final (fun w hw => (h w hw).1) hlast
    | false => exact lines_roundtrip_lf ws final (fun w hw => ⟨(h w hw).1, (h w hw).2 rfl⟩) hlast
  simp only [cliRun, cliCases, hl, hws, ite_false, cli_dispatch v h1 h2, libRun]

/-- **C12 (no test cases)** empty content (an empty file, empty standard input) and an empty argument list end with the one-line error.
(A file of blank lines is not empty input: `"\n"` is the test case `""`.  Missing file and invalid UTF-8 are the generated facts of
`cli_error_paths`; that `cliRun` never ends in `.error` follows from `C07.build_total` outside verbose mode with both anchors off.) -/
theorem cli_empty_input (env : Env) (v : CliVals) (stdin : Str) :
    cliRun env v (.content []) = .ok none ∧ cliRun env v (.args [] stdin) = .ok none ∧ cliRun env v (.args [[45]] []) = .ok none := by
  refine ⟨?_, ?_, ?_⟩ <;> simp [cliRun, cliCases, cli_hyphen_rule, splitLines, splitLines.go]

/-! non-vacuity -/
example : (match cliRun { lowerOf := id, segOf := fun w => w.map fun c => [c] } { digits := true } (.content (strOf "a1\r\nb\r\n")) with
    | .ok (some _) => true | _ => false) = true := by decide +kernel
example : splitLines (encodeLines [13, 10] true [strOf "a", strOf "b c", []]) = [strOf "a", strOf "b c", []] := by decide
example : splitLines (encodeLines [10] false [strOf "a", [], strOf "b"]) = [strOf "a", [], strOf "b"] := by decide
example : runCliDispatch rsSetters { escape := true, withSurrogates := true, noAnchors := true } cliDispatch {} =
    .ok { esc := true, sur := true, noStart := true, noEnd := true } := by rfl

end Grexv.Props.C12
