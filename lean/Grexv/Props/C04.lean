import Grexv.Lemmas.SortCases
import Grexv.Props.C08
import Grexv.Props.C01
import Grexv.Props.C03
import Grexv.Lemmas.FoldClass
import Grexv.Lemmas.FoldOrbit

/-!
# C04 — the case-insensitive option

Text and S1 level: the flag is emitted exactly when requested; lower-casing replaces a test case only when
its number of code points is preserved; test cases that become equal collapse to one entry.

End to end (`ci_exact`, `ci_default_exact`, `ci_sound`): with the option on (every subset of the class options,
with or without capturing groups, everything else at its default) the returned text is accepted by the model of
`Regex::new` with the `i` flag set, and the compiled pattern matches a string in full iff the string equals one of
the stored (lower-cased) non-empty test cases position by position up to the regex crate's simple case folding
(generated table `Gen.rxFold`) — class tokens standing for the members of their class; and every non-empty original
test case is accepted.  `str::to_lowercase` enters as the parameter `env.lowerOf`; nothing is assumed about it:
the code keeps the original test case whenever the lower-cased form would not match it under `(?i)`.
-/
set_option linter.unusedSimpArgs false
set_option linter.unusedVariables false
namespace Grexv.Props.C04
open Grexv Grexv.Props.C08

/-- **C04 (flag)** outside verbose mode the output starts with `(?i)` when the option is on -/
theorem ci_flag_prefix (cfg : Config) (ast : Expr) (hci : cfg.ci = true) (hv : cfg.verb = false) (hc : cfg.color = false) :
    ∃ rest, fmtRegExp cfg ast = strOf "(?i)" ++ rest := by
  rw [output_decomposition cfg ast hv]
  simp only [flagText, hci, hv, hc, Bool.and_false, Bool.false_eq_true, ite_false, ite_true]
  have : vtff (Comp.flagI false) = strOf "(?i)" := by decide
  rw [this]
  simp only [List.append_assoc]
  exact ⟨_, rfl⟩

/-- **C04 (no flag)** without the option the flag text is empty (non-verbose) -/
theorem no_ci_no_flag (cfg : Config) (hci : cfg.ci = false) (hv : cfg.verb = false) : flagText cfg = [] := by
  simp [flagText, hci, hv]

/-- the stored list has no duplicates (true of any list: used below) -/
theorem stored_nodup (env : Env) (ws : List Str) : (sortCases (lowerCases env ws)).Nodup :=
  Props.C10.sortCases_nodup _

/-- **C04 (collapse)** every test case is stored in its converted form exactly once, so test cases whose converted (lower-cased)
forms coincide — however many of them there are — are stored as one entry.  (Test cases that differ only by case but whose converted
forms differ — `σ`/`ς`, or a test case that is kept as given — stay separate entries; they are separate alternatives of one language:
`ci_default_exact_originals`.) -/
theorem collapse (env : Env) (ws : List Str) (w : Str) (hw : w ∈ ws) :
    (sortCases (lowerCases env ws)).count (lowerOne env w) = 1 := by
  have h1 : (sortCases (lowerCases env ws)).count (lowerOne env w) ≤ 1 :=
    List.nodup_iff_count.mp (stored_nodup env ws) _
  have h2 : 0 < (sortCases (lowerCases env ws)).count (lowerOne env w) := by
    rw [List.count_pos_iff, Props.C10.sortCases_mem]
    exact List.mem_map.mpr ⟨w, hw, rfl⟩
  omega

/-- two test cases with the same converted form share that one entry -/
theorem collapse_pair (env : Env) (ws : List Str) (w1 w2 : Str) (h1 : w1 ∈ ws) (h2 : w2 ∈ ws)
    (heq : lowerOne env w1 = lowerOne env w2) :
    (sortCases (lowerCases env ws)).count (lowerOne env w2) = 1 ∧ lowerOne env w1 ∈ sortCases (lowerCases env ws) := by
  refine ⟨collapse env ws w2 h2, ?_⟩
  rw [Props.C10.sortCases_mem]
  exact List.mem_map.mpr ⟨w1, h1, rfl⟩

/-- lower-casing keeps a test case whose lower-cased form has another number of code points -/
theorem keeps_when_length_changes (env : Env) (w : Str) (h : (env.lowerOf w).length ≠ w.length) :
    lowerCases env [w] = [w] := by
  simp [lowerCases, lowerOne, h]

/-! ## end to end -/

/-- `s` equals `t` position by position up to simple case folding (the regex crate's `(?i)` on a literal) -/
def FoldEq (t s : Str) : Prop := atomsDen true (t.map Atom.chr) s

theorem foldEq_refl (t : Str) : FoldEq t t := by
  unfold FoldEq
  induction t with
  | nil => rfl
  | cons c r ih => exact ⟨c, r, rfl, by simp [atomDen, Spec.chrMatches], ih⟩

theorem foldEq_length (t s : Str) (h : FoldEq t s) : s.length = t.length := by
  unfold FoldEq at h
  induction t generalizing s with
  | nil => simp [atomsDen] at h; simp [h]
  | cons c r ih =>
    obtain ⟨x, r', rfl, _, hr⟩ := h
    simp [ih r' hr]

theorem foldEq_of_zip : ∀ (l w : Str), l.length = w.length →
    ((List.zip l w).all fun p => Spec.chrMatches true p.1 p.2) = true → FoldEq l w
  | [], [], _, _ => rfl
  | [], _ :: _, h, _ => by simp at h
  | _ :: _, [], h, _ => by simp at h
  | c :: l, x :: w, h, hz => by
    simp only [List.zip_cons_cons, List.all_cons, Bool.and_eq_true] at hz
    exact ⟨x, w, rfl, hz.1, foldEq_of_zip l w (by simpa using h) hz.2⟩

/-- **C04 (what is stored still matches)** the stored form of a test case matches the original under `(?i)`,
whatever `str::to_lowercase` returns -/
theorem stored_matches_original (env : Env) (w : Str) : FoldEq (lowerOne env w) w := by
  unfold lowerOne
  simp only []
  split
  · rename_i hc
    simp only [Bool.and_eq_true, decide_eq_true_eq] at hc
    obtain ⟨hlen, hm⟩ := hc
    unfold ciLiteralMatch at hm
    simp only [Bool.or_eq_true, beq_iff_eq, Bool.and_eq_true] at hm
    rcases hm with he | ⟨_, hz⟩
    · rw [he]; exact foldEq_refl w
    · exact foldEq_of_zip _ _ hlen hz
  · exact foldEq_refl w

theorem stored_ne_nil (env : Env) (w : Str) (h : w ≠ []) : lowerOne env w ≠ [] := by
  intro hc
  have := foldEq_length _ _ (stored_matches_original env w)
  rw [hc] at this
  exact h (List.eq_nil_of_length_eq_zero this)

/-- **C04 for the model, all inputs, every subset of the class options** with the case-insensitive option on: the
returned text is accepted with the `i` flag set and matches a string of scalar values in full iff the string is
obtained from a stored non-empty test case by replacing every code point by a member of its simple-case-folding
orbit (unconverted code points) or of its shorthand class (converted ones) -/
theorem ci_exact (cfg : Config) (hp : PlainPrintCI cfg) (hci : cfg.ci = true) (env : Env) (ws : List Str) (st : Stages)
    (h : regExpFrom cfg env ws = .ok st) (hseg : ∀ w ∈ lowerCases env ws, SegOK env w)
    (hne : ∃ t ∈ ws, t ≠ []) (s : Str) (hs : ∀ c ∈ s, Scalar c) :
    ∃ P, Spec.parse (fmtRegExp cfg st.finalAst) = some (⟨true, false⟩, P) ∧
      (Spec.fullMatch true P s = true ↔
        ∃ t ∈ lowerCases env ws, t ≠ [] ∧ atomsDen true (t.map (Props.C03.docAtom cfg)) s) := by
  have hst : storedCases cfg env ws = lowerCases env ws := by simp [storedCases, hci]
  obtain ⟨t0, ht0, ht0ne⟩ := hne
  have hne' : ∃ t ∈ lowerCases env ws, t ≠ [] :=
    ⟨lowerOne env t0, List.mem_map.mpr ⟨t0, ht0, rfl⟩, stored_ne_nil env t0 ht0ne⟩
  have := classes_exact_ci cfg hp env ws st h (by rw [hst]; exact hseg) (by rw [hst]; exact hne') s hs
  rw [hst, hci] at this
  obtain ⟨P, hP, hm⟩ := this
  refine ⟨P, hP, ?_⟩
  rw [hm]
  have : ∀ t : Str, t.map (convAtom cfg) = t.map (Props.C03.docAtom cfg) :=
    fun t => List.map_congr_left (fun c _ => Props.C03.convAtom_documented cfg c)
  simp only [this]

/-- the settings of `ci_default_exact`: only the case-insensitive option (and possibly capturing groups) -/
def cfgCI (cap : Bool) : Config := { cap := cap, ci := true }

theorem plainPrintCI_cfgCI (cap : Bool) : PlainPrintCI (cfgCI cap) := ⟨rfl, rfl, rfl, rfl, rfl⟩

/-- **C04 for the model, all inputs** with only the case-insensitive option: the compiled pattern matches exactly
the strings that equal a stored non-empty test case up to simple case folding, position by position -/
theorem ci_default_exact (cap : Bool) (env : Env) (ws : List Str) (st : Stages)
    (h : regExpFrom (cfgCI cap) env ws = .ok st) (hseg : ∀ w ∈ lowerCases env ws, SegOK env w)
    (hne : ∃ t ∈ ws, t ≠ []) (s : Str) (hs : ∀ c ∈ s, Scalar c) :
    ∃ P, Spec.parse (fmtRegExp (cfgCI cap) st.finalAst) = some (⟨true, false⟩, P) ∧
      (Spec.fullMatch true P s = true ↔ ∃ t ∈ lowerCases env ws, t ≠ [] ∧ FoldEq t s) := by
  obtain ⟨P, hP, hm⟩ := ci_exact (cfgCI cap) (plainPrintCI_cfgCI cap) rfl env ws st h hseg hne s hs
  refine ⟨P, hP, ?_⟩
  rw [hm]
  have : ∀ t : Str, t.map (Props.C03.docAtom (cfgCI cap)) = t.map Atom.chr :=
    fun t => List.map_congr_left (fun c _ => by simp [Props.C03.docAtom, cfgCI])
  simp only [this, FoldEq]

/-- **C04 (every test case still matches)** with only the case-insensitive option every non-empty original test case
is matched by the returned pattern — in whatever letter case it was given -/
theorem ci_sound (cap : Bool) (env : Env) (ws : List Str) (st : Stages)
    (h : regExpFrom (cfgCI cap) env ws = .ok st) (hseg : ∀ w ∈ lowerCases env ws, SegOK env w)
    (w : Str) (hw : w ∈ ws) (hne : w ≠ []) (hsc : ∀ c ∈ w, Scalar c) :
    ∃ P, Spec.parse (fmtRegExp (cfgCI cap) st.finalAst) = some (⟨true, false⟩, P) ∧ Spec.fullMatch true P w = true := by
  obtain ⟨P, hP, hm⟩ := ci_default_exact cap env ws st h hseg ⟨w, hw, hne⟩ w hsc
  exact ⟨P, hP, hm.mpr ⟨lowerOne env w, List.mem_map.mpr ⟨w, hw, rfl⟩, stored_ne_nil env w hne,
    stored_matches_original env w⟩⟩

/-! ## over the original test cases: simple case folding is an equivalence -/

/-- "equal up to simple case folding" is symmetric (`chrMatches_symm`: the rows of the regex crate's fold table describe orbits,
checked by the kernel over the whole table) -/
theorem foldEq_symm : ∀ (t s : Str), FoldEq t s → FoldEq s t
  | [], s, h => by
    have : s = [] := h
    subst this; exact foldEq_refl []
  | c :: r, s, h => by
    obtain ⟨x, r', rfl, hx, hr⟩ := h
    exact ⟨c, r, rfl, chrMatches_symm c x hx, foldEq_symm r r' hr⟩

/-- … and transitive -/
theorem foldEq_trans : ∀ (a b c : Str), FoldEq a b → FoldEq b c → FoldEq a c
  | [], b, c, h1, h2 => by
    have : b = [] := h1
    subst this; exact h2
  | x :: r, b, c, h1, h2 => by
    obtain ⟨y, rb, rfl, hxy, hr1⟩ := h1
    obtain ⟨z, rc, rfl, hyz, hr2⟩ := h2
    exact ⟨z, rc, rfl, chrMatches_trans x y z hxy hyz, foldEq_trans r rb rc hr1 hr2⟩

/-- a string equals the stored form of a test case up to case folding iff it equals the original test case up to case folding -/
theorem foldEq_stored_iff (env : Env) (w s : Str) : FoldEq (lowerOne env w) s ↔ FoldEq w s := by
  have h0 := stored_matches_original env w
  constructor
  · intro h; exact foldEq_trans _ _ _ (foldEq_symm _ _ h0) h
  · intro h; exact foldEq_trans _ _ _ h0 h

theorem lowerOne_nil (env : Env) : lowerOne env [] = [] := by
  unfold lowerOne
  simp only []
  split
  · rename_i hc
    simp only [Bool.and_eq_true, decide_eq_true_eq] at hc
    exact List.eq_nil_of_length_eq_zero (by simpa using hc.1)
  · rfl

/-- **C04 for the model, all inputs, over the original test cases** with only the case-insensitive option: the returned text carries the
`i` flag, is accepted by the model of `Regex::new`, and the compiled pattern matches a string of scalar values in full **iff the string
equals some non-empty original test case — in whatever letter case it was given — position by position up to the regex crate's simple
case folding**.  Nothing is assumed about `str::to_lowercase`: the code keeps a test case as given unless the lower-cased form still
matches it under `(?i)`, and simple case folding is an equivalence (`foldEq_symm`, `foldEq_trans`) -/
theorem ci_default_exact_originals (cap : Bool) (env : Env) (ws : List Str) (st : Stages)
    (h : regExpFrom (cfgCI cap) env ws = .ok st) (hseg : ∀ w ∈ lowerCases env ws, SegOK env w)
    (hne : ∃ t ∈ ws, t ≠ []) (s : Str) (hs : ∀ c ∈ s, Scalar c) :
    ∃ P, Spec.parse (fmtRegExp (cfgCI cap) st.finalAst) = some (⟨true, false⟩, P) ∧
      (Spec.fullMatch true P s = true ↔ ∃ w ∈ ws, w ≠ [] ∧ FoldEq w s) := by
  obtain ⟨P, hP, hm⟩ := ci_default_exact cap env ws st h hseg hne s hs
  refine ⟨P, hP, ?_⟩
  rw [hm]
  constructor
  · rintro ⟨t, ht, htne, hts⟩
    obtain ⟨w, hw, rfl⟩ := List.mem_map.mp ht
    refine ⟨w, hw, ?_, (foldEq_stored_iff env w s).mp hts⟩
    intro e; subst e; exact htne (lowerOne_nil env)
  · rintro ⟨w, hw, hwne, hws⟩
    exact ⟨lowerOne env w, List.mem_map.mpr ⟨w, hw, rfl⟩, stored_ne_nil env w hwne, (foldEq_stored_iff env w s).mpr hws⟩

/-- what a code point is converted to does not depend on which member of its fold orbit it is: the class tests agree on the orbit
(`perlMember_fold`) and unconverted members of one orbit match the same code points -/
theorem docAtom_orbit (cfg : Config) (l o : Nat) (h : Spec.chrMatches true l o = true) (x : Nat) :
    atomDen true (Props.C03.docAtom cfg l) x ↔ atomDen true (Props.C03.docAtom cfg o) x := by
  have hk : ∀ k, Spec.perlMember k l = Spec.perlMember k o := by
    intro k
    rw [chrMatches_orbit_iff] at h
    rcases h with h | h
    · rw [h]
    · exact perlMember_fold k o l h
  have hchr : Spec.chrMatches true l x = true ↔ Spec.chrMatches true o x = true := by
    constructor
    · intro hx; exact chrMatches_trans o l x (chrMatches_symm l o h) hx
    · intro hx; exact chrMatches_trans l o x h hx
  unfold Props.C03.docAtom
  simp only [hk]
  repeat' split
  all_goals first
    | exact Iff.rfl
    | exact hchr

theorem atomsDen_docAtom_orbit (cfg : Config) : ∀ (t w s : Str), FoldEq t w →
    (atomsDen true (t.map (Props.C03.docAtom cfg)) s ↔ atomsDen true (w.map (Props.C03.docAtom cfg)) s)
  | [], w, s, h => by
    have : w = [] := h
    subst this; exact Iff.rfl
  | c :: r, w, s, h => by
    obtain ⟨o, rw', rfl, hco, hr⟩ := h
    simp only [List.map_cons, atomsDen]
    constructor
    · rintro ⟨x, rs, rfl, hx, hrs⟩
      exact ⟨x, rs, rfl, (docAtom_orbit cfg c o hco x).mp hx, (atomsDen_docAtom_orbit cfg r rw' rs hr).mp hrs⟩
    · rintro ⟨x, rs, rfl, hx, hrs⟩
      exact ⟨x, rs, rfl, (docAtom_orbit cfg c o hco x).mpr hx, (atomsDen_docAtom_orbit cfg r rw' rs hr).mpr hrs⟩

/-- **C04 with class options, over the original test cases**: with `-i` and every subset of the class options (capturing groups, `-e`,
one anchor disabled free) the compiled pattern matches a string of scalar values in full iff the string is obtained from a non-empty
*original* test case by replacing every code point by a member of its simple-case-folding orbit (unconverted code points) or of its
shorthand class (converted ones) -/
theorem ci_exact_originals (cfg : Config) (hp : PlainPrintCI cfg) (hci : cfg.ci = true) (env : Env) (ws : List Str) (st : Stages)
    (h : regExpFrom cfg env ws = .ok st) (hseg : ∀ w ∈ lowerCases env ws, SegOK env w)
    (hne : ∃ t ∈ ws, t ≠ []) (s : Str) (hs : ∀ c ∈ s, Scalar c) :
    ∃ P, Spec.parse (fmtRegExp cfg st.finalAst) = some (⟨true, false⟩, P) ∧
      (Spec.fullMatch true P s = true ↔ ∃ w ∈ ws, w ≠ [] ∧ atomsDen true (w.map (Props.C03.docAtom cfg)) s) := by
  obtain ⟨P, hP, hm⟩ := ci_exact cfg hp hci env ws st h hseg hne s hs
  refine ⟨P, hP, ?_⟩
  rw [hm]
  constructor
  · rintro ⟨t, ht, htne, hts⟩
    obtain ⟨w, hw, rfl⟩ := List.mem_map.mp ht
    refine ⟨w, hw, ?_, (atomsDen_docAtom_orbit cfg _ w s (stored_matches_original env w)).mp hts⟩
    intro e; subst e; exact htne (lowerOne_nil env)
  · rintro ⟨w, hw, hwne, hws⟩
    exact ⟨lowerOne env w, List.mem_map.mpr ⟨w, hw, rfl⟩, stored_ne_nil env w hwne,
      (atomsDen_docAtom_orbit cfg _ w s (stored_matches_original env w)).mpr hws⟩

/-- non-vacuity of the equivalence: the Kelvin sign, `k` and `K` are one orbit -/
example : Spec.chrMatches true 8490 107 = true ∧ Spec.chrMatches true 107 75 = true ∧ Spec.chrMatches true 8490 75 = true := by decide +kernel

/-- what a code point is converted to also stands for every member of its fold orbit: simple case folding preserves
`\d`, `\s`, `\w` (`perlMember_fold`, a kernel-checked fact about the regex crate's tables) -/
theorem docAtom_fold (cfg : Config) (c x : Nat) (h : Spec.chrMatches true c x = true) :
    atomDen true (Props.C03.docAtom cfg c) x := by
  have hinv : ∀ k, Spec.perlMember k c = Spec.perlMember k x := by
    intro k
    simp only [Spec.chrMatches, Bool.true_and, Bool.or_eq_true, decide_eq_true_eq, List.contains_iff_mem] at h
    rcases h with rfl | h
    · rfl
    · exact perlMember_fold k x c h
  unfold Props.C03.docAtom
  repeat' split
  all_goals simp_all [atomDen]

theorem docAtoms_fold (cfg : Config) : ∀ (t w : Str), FoldEq t w → atomsDen true (t.map (Props.C03.docAtom cfg)) w
  | [], w, h => by simpa [FoldEq, atomsDen] using h
  | c :: t, w, h => by
    obtain ⟨x, r, rfl, hx, hr⟩ := h
    exact ⟨x, r, rfl, docAtom_fold cfg c x hx, docAtoms_fold cfg t r hr⟩

/-- **C04 (every test case still matches), every subset of the class options** with the case-insensitive option and any class
options (with or without capturing groups and `-e`, any single anchor): every non-empty original test case is matched by the
returned pattern under `(?i)` — in whatever letter case it was given, and whatever `str::to_lowercase` returned -/
theorem ci_sound_with_classes (cfg : Config) (hp : PlainPrintCI cfg) (hci : cfg.ci = true) (env : Env) (ws : List Str) (st : Stages)
    (h : regExpFrom cfg env ws = .ok st) (hseg : ∀ w ∈ lowerCases env ws, SegOK env w)
    (w : Str) (hw : w ∈ ws) (hne : w ≠ []) (hsc : ∀ c ∈ w, Scalar c) :
    ∃ P, Spec.parse (fmtRegExp cfg st.finalAst) = some (⟨true, false⟩, P) ∧ Spec.fullMatch true P w = true := by
  obtain ⟨P, hP, hm⟩ := ci_exact cfg hp hci env ws st h hseg ⟨w, hw, hne⟩ w hsc
  exact ⟨P, hP, hm.mpr ⟨lowerOne env w, List.mem_map.mpr ⟨w, hw, rfl⟩, stored_ne_nil env w hne,
    docAtoms_fold cfg _ _ (stored_matches_original env w)⟩⟩

/-- **C04 with `-r` (every test case still matches), all inputs** (`-i -r` with positive thresholds, every subset of the class
options, plain printing, any anchors; stored test cases of at most 1000 graphemes): every non-empty original test case is
matched by the returned pattern under `(?i)` — in whatever letter case it was given, and whatever `str::to_lowercase` returned -/
theorem ci_sound_with_repetitions (cfg : Config) (hp : RepPrintNA cfg) (hci : cfg.ci = true) (env : Env) (ws : List Str) (st : Stages)
    (h : regExpFrom cfg env ws = .ok st) (hseg : ∀ w ∈ lowerCases env ws, SegOK env w)
    (hlen : ∀ w ∈ lowerCases env ws, (clusterOfPieces (env.segOf w)).length ≤ 1000)
    (w : Str) (hw : w ∈ ws) (hne : w ≠ []) (hsc : ∀ c ∈ w, Scalar c) :
    ∃ P, Spec.parse (fmtRegExp cfg st.finalAst) = some (⟨true, false⟩, P) ∧ Spec.fullMatch true P w = true := by
  have hlen : ∀ w ∈ lowerCases env ws, (subPieces (env.segOf w)).length ≤ 1000 := fun w hw => by
    have := hlen w hw; rwa [clusterOfPieces_eq, List.length_map] at this
  have hst : storedCases cfg env ws = lowerCases env ws := by simp [storedCases, hci]
  have := rep_end_to_end_na cfg hp env ws st h (by rw [hst]; exact hseg) (by rw [hst]; exact hlen) (lowerOne env w)
    (by rw [hst]; exact List.mem_map.mpr ⟨w, hw, rfl⟩) (stored_ne_nil env w hne) w hsc
  rw [hci] at this
  apply this
  have : ∀ t : Str, t.map (convAtom cfg) = t.map (Props.C03.docAtom cfg) :=
    fun t => List.map_congr_left (fun c _ => Props.C03.convAtom_documented cfg c)
  rw [this]
  exact docAtoms_fold cfg _ _ (stored_matches_original env w)

/-- the same in verbose mode (`-i -r -x`): whenever `RegExp::from` returns, every non-empty original test case is matched under `(?ix)` -/
theorem ci_sound_with_repetitions_verbose (cfg : Config) (hp : RepVerbose cfg) (hci : cfg.ci = true) (env : Env) (ws : List Str)
    (st : Stages) (h : regExpFrom cfg env ws = .ok st) (hseg : ∀ w ∈ lowerCases env ws, SegOK env w)
    (hlen : ∀ w ∈ lowerCases env ws, (clusterOfPieces (env.segOf w)).length ≤ 1000)
    (w : Str) (hw : w ∈ ws) (hne : w ≠ []) (hsc : ∀ c ∈ w, Scalar c) :
    ∃ P, Spec.parse (fmtRegExp cfg st.finalAst) = some (⟨true, true⟩, P) ∧ Spec.fullMatch true P w = true := by
  have hlen : ∀ w ∈ lowerCases env ws, (subPieces (env.segOf w)).length ≤ 1000 := fun w hw => by
    have := hlen w hw; rwa [clusterOfPieces_eq, List.length_map] at this
  have hst : storedCases cfg env ws = lowerCases env ws := by simp [storedCases, hci]
  have := rep_end_to_end_verbose cfg hp env ws st h (by rw [hst]; exact hseg) (by rw [hst]; exact hlen) (lowerOne env w)
    (by rw [hst]; exact List.mem_map.mpr ⟨w, hw, rfl⟩) (stored_ne_nil env w hne) w hsc
  rw [hci] at this
  apply this
  have : ∀ t : Str, t.map (convAtom cfg) = t.map (Props.C03.docAtom cfg) :=
    fun t => List.map_congr_left (fun c _ => Props.C03.convAtom_documented cfg c)
  rw [this]
  exact docAtoms_fold cfg _ _ (stored_matches_original env w)

example : RepPrintNA { rep := true, ci := true, word := true, noStart := true, noEnd := true } := ⟨rfl, by decide, rfl, rfl, rfl⟩

/-- the case-insensitive pattern accepts nothing of another length than a stored test case -/
theorem ci_length (cap : Bool) (env : Env) (ws : List Str) (st : Stages)
    (h : regExpFrom (cfgCI cap) env ws = .ok st) (hseg : ∀ w ∈ lowerCases env ws, SegOK env w)
    (hne : ∃ t ∈ ws, t ≠ []) (s : Str) (hs : ∀ c ∈ s, Scalar c) (P : Spec.Pat)
    (hP : Spec.parse (fmtRegExp (cfgCI cap) st.finalAst) = some (⟨true, false⟩, P))
    (hm : Spec.fullMatch true P s = true) : ∃ t ∈ lowerCases env ws, s.length = t.length := by
  obtain ⟨P', hP', hm'⟩ := ci_default_exact cap env ws st h hseg hne s hs
  rw [hP] at hP'
  simp only [Option.some.injEq, Prod.mk.injEq, true_and] at hP'
  subst hP'
  obtain ⟨t, ht, _, hf⟩ := hm'.mp hm
  exact ⟨t, ht, foldEq_length t s hf⟩

/-! non-vacuity: `K` (U+004B) is matched by a stored `k` under folding, and so is the Kelvin sign U+212A -/
example : FoldEq [107] [75] ∧ FoldEq [107] [8490] := by
  have h1 : Spec.chrMatches true 107 75 = true := by decide +kernel
  have h2 : Spec.chrMatches true 107 8490 = true := by decide +kernel
  exact ⟨⟨75, [], rfl, h1, rfl⟩, ⟨8490, [], rfl, h2, rfl⟩⟩

end Grexv.Props.C04
