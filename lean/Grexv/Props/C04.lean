import Grexv.Props.C08
import Grexv.Props.C01

/-!
# C04 — the case-insensitive option (text and S1 level)

Proved: the flag is emitted exactly when requested; lower-casing replaces a test case only when
its number of code points is preserved; test cases that become equal collapse to one entry.
The language-level statement (simple case folding of the regex crate) is decided by the symbolic
oracle; it is false of the code for the letters std lower-cases but the pinned regex-syntax does
not fold (known finding D14).
-/
set_option linter.unusedSimpArgs false
set_option linter.unusedVariables false
namespace Grexv.Props.C04
open Grexv Grexv.Props.C08

/-- **C04 (flag)** outside verbose mode the output starts with `(?i)` when the option is on -/
theorem ci_flag_prefix (cfg : Config) (ast : Expr) (hci : cfg.ci = true) (hv : cfg.verb = false) (hc : cfg.color = false) :
    ∃ rest, fmtRegExp cfg ast = strOf "(?i)" ++ rest := by
  rw [output_decomposition cfg ast hv]
  simp only [flagText, hci, hv, hc, Bool.and_false, Bool.false_eq_true, ite_false, ite_true]
  have : vtff (Comp.flagI false) = strOf "(?i)" := by decide
  rw [this]
  simp only [List.append_assoc]
  exact ⟨_, rfl⟩

/-- **C04 (no flag)** without the option the flag text is empty (non-verbose) -/
theorem no_ci_no_flag (cfg : Config) (hci : cfg.ci = false) (hv : cfg.verb = false) : flagText cfg = [] := by
  simp [flagText, hci, hv]

/-- **C04 (collapse)** test cases whose lower-cased forms coincide are stored once -/
theorem collapse (env : Env) (ws : List Str) : (sortCases (lowerCases env ws)).Nodup :=
  Props.C10.sortCases_nodup _

/-- lower-casing keeps a test case whose lower-cased form has another number of code points -/
theorem keeps_when_length_changes (env : Env) (w : Str) (h : (env.lowerOf w).length ≠ w.length) :
    lowerCases env [w] = [w] := by
  simp [lowerCases, lowerOne, h]

end Grexv.Props.C04
