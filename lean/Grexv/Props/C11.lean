import Grexv.Lemmas.AsciiR
import Grexv.Lemmas.RepPresent
import Grexv.Model.Format
import Grexv.Lemmas.AsciiPipeline
import Grexv.Lemmas.Stages
import Grexv.Lemmas.EndToEnd
import Grexv.Lemmas.SurRel
import Grexv.Lemmas.SurEmit
import Grexv.Props.C08

/-!
# C11 — non-ASCII escaping is complete, well-formed and reversible (character level and whole pattern)

`Gen.surrogateLo/Hi/HiInclusive` are generated from the range expression in `Grapheme::escape`.
-/
set_option linter.unusedSimpArgs false
set_option linter.unusedVariables false
namespace Grexv.Props.C11
open Grexv

/-- **C11 (ASCII)** whatever the code point and whatever the surrogate option, the escaped form
consists of ASCII characters only -/
theorem escapeChar_ascii (c : Nat) (sur : Bool) : ∀ x ∈ Expr.escapeChar c sur, x < 128 := Grexv.escapeChar_ascii c sur

/-- **C11 (form)** a non-ASCII code point that is not converted to a pair is written `\u{hex}` -/
theorem escapeChar_plain (c : Nat) (h : 128 ≤ c) :
    Expr.escapeChar c false = [92, 117, 123] ++ toHex c ++ [125] := by
  have : ¬ c < 128 := by omega
  simp [Expr.escapeChar, this]

/-- ASCII is left alone -/
theorem escapeChar_ascii_id (c : Nat) (sur : Bool) (h : c < 128) : Expr.escapeChar c sur = [c] := by
  simp [Expr.escapeChar, h]

/-- the range the code tests is the whole astral range, **inclusive** of U+10FFFF -/
theorem surrogate_range : Gen.surrogateLo = 0x10000 ∧ Gen.surrogateHi = 0x10FFFF ∧ Gen.surrogateHiInclusive = true :=
  ⟨rfl, rfl, rfl⟩

/-- **C11 (surrogate pairs)** every code point from U+10000 to U+10FFFF inclusive is written as a
high surrogate escape followed by a low surrogate escape, and the pair decodes back to it -/
theorem escapeChar_pair (c : Nat) (h1 : 0x10000 ≤ c) (h2 : c ≤ 0x10FFFF) :
    ∃ hi lo, Expr.escapeChar c true = [92, 117, 123] ++ toHex hi ++ [125] ++ [92, 117, 123] ++ toHex lo ++ [125]
      ∧ 0xD800 ≤ hi ∧ hi < 0xDC00 ∧ 0xDC00 ≤ lo ∧ lo < 0xE000
      ∧ 0x10000 + (hi - 0xD800) * 1024 + (lo - 0xDC00) = c := by
  refine ⟨0xD800 + (c - 0x10000) / 1024, 0xDC00 + (c - 0x10000) % 1024, ?_, ?_, ?_, ?_, ?_, ?_⟩
  · have hc : ¬ c < 128 := by omega
    have hlo : Gen.surrogateLo ≤ c := by have := surrogate_range.1; omega
    have hhi : Gen.surrogateHiOk c = true := by
      simp [Gen.surrogateHiOk, surrogate_range.2.2, surrogate_range.2.1]; omega
    unfold Expr.escapeChar
    rw [if_neg hc]
    simp only [hlo, hhi, decide_true, Bool.and_self, ite_true]
  all_goals omega

/-- BMP characters are unchanged by the surrogate option -/
theorem escapeChar_bmp (c : Nat) (h : c < 0x10000) : Expr.escapeChar c true = Expr.escapeChar c false := by
  unfold Expr.escapeChar
  have hlo : ¬ (Gen.surrogateLo ≤ c) := by have := surrogate_range.1; omega
  split
  · rfl
  · simp [hlo]

/-- **C11 (graphemes)** escaping a grapheme with `-e` leaves only ASCII in its `chars` -/
theorem escapeGrapheme_ascii (cfg : Config) (hesc : cfg.esc = true) (chars : List Str) (mn mx : Nat) :
    ∀ s ∈ (escapeGrapheme cfg (.mk chars [] mn mx)).chars, ∀ x ∈ s, x < 128 := by
  intro s hs x hx
  simp [escapeGrapheme, escapeGraphemes, Grapheme.chars, hesc] at hs
  obtain ⟨a, _, rfl⟩ := hs
  simp at hx
  obtain ⟨c, _, hc⟩ := hx
  exact escapeChar_ascii c cfg.sur x hc

/-! ## whole pattern -/

/-- **C11 (printer, every setting)** with `-e`, for every expression whose class members are ASCII and every
combination of the other settings (colours, verbose mode, capturing groups, anchors, counted repetitions),
the text `Display for RegExp` writes consists of ASCII characters only -/
theorem printed_text_ascii (cfg : Config) (hesc : cfg.esc = true) (e : Expr) (h : e.ClsAscii) :
    ∀ x ∈ fmtRegExp cfg e, x < 128 := fmtRegExp_ascii cfg hesc e h

/-- why class members are ASCII under `-e`: `union` merges two expressions into a class only if each counts as one
character after escaping, and an escaped non-ASCII character is at least two characters long -/
theorem merged_members_ascii (cfg : Config) (hesc : cfg.esc = true) (e : Expr) (h : e.ClsAscii)
    (hs : e.isSingleCodepoint cfg = true) : ∀ x ∈ Expr.extractCharSet e, x < 128 :=
  Expr.extractCharSet_ascii cfg hesc e h hs

theorem trie_acyclic (cls : List Cluster) (hcls : ∀ cl ∈ cls, ∀ g ∈ cl, g.Simple) :
    ∀ c w, Dfa.Path (Dfa.trie cls) c w c → w = [] := by
  intro c w pth
  have ht := (Dfa.trie_tree_alpha cls hcls).1
  apply Classical.byContradiction
  intro hw
  have := Dfa.Path.lt_of_ne_nil (fun e he => (ht.lt e he).1) pth hw
  omega

/-- **C11 for the model, whole pattern, all inputs without `-r`** with `-e`, for every other setting, every list of
test cases and every segmentation with non-empty pieces: whichever expression `RegExp::from` ends up keeping
(the first candidate, the expression of the unminimised trie, or the plain alternation of the test cases), the
returned text consists of ASCII characters only -/
theorem output_ascii (cfg : Config) (hesc : cfg.esc = true) (hrep : cfg.rep = false) (env : Env) (ws : List Str) (st : Stages)
    (h : regExpFrom cfg env ws = .ok st) (hseg : ∀ w ∈ st.sorted, ∀ p ∈ env.segOf w, p ≠ []) :
    ∀ x ∈ fmtRegExp cfg st.finalAst, x < 128 := by
  -- the three possible results
  have hthree := from_final_three cfg env ws st h
  obtain ⟨h1, h2, h3, h4, h5⟩ := from_stages_shape cfg env ws st h
  have hof := clusters_ofStr cfg env st.sorted hrep hseg
  rw [← h2] at hof
  have hcls : ∀ cl ∈ st.clusters, ∀ g ∈ cl, g.Simple := by
    intro cl hcl g hg
    obtain ⟨s, _, rfl⟩ := hof cl hcl g hg
    exact ofStr_simple s
  apply fmtRegExp_ascii cfg hesc
  rcases hthree with hf | hf | hf
  · rw [hf]
    obtain ⟨m, hm, _, hlab, hdfs, _, hacyc⟩ := min_struct st.clusters hcls (fun g => ∃ s, s ≠ [] ∧ g = Grapheme.ofStr s) hof
    rw [← h3, h4] at hm
    simp only [Option.some.injEq] at hm
    subst hm
    exact ofDfa_clsAscii cfg hesc _ (fun e he => by
      obtain ⟨s, hs, hl⟩ := hlab e he
      show e.label.Plainish
      rw [hl]; exact Expr.plainish_ofStr s hs) hdfs hacyc
  · rw [hf, h3]
    have ht := (Dfa.trie_tree_alpha st.clusters hcls).1
    have hlab : (Dfa.trie st.clusters).PlainLabels := fun e he => by
      obtain ⟨s, hs, hl⟩ := trie_labels (fun g => ∃ s, s ≠ [] ∧ g = Grapheme.ofStr s) st.clusters hcls hof e he
      show e.label.Plainish
      rw [hl]; exact Expr.plainish_ofStr s hs
    have hdfs := dfsOK_of_bounded (Dfa.trie st.clusters) (by rw [ht.init0]; exact ht.pos) (fun e he => (ht.lt e he).2)
    exact ofDfa_clsAscii cfg hesc _ hlab hdfs (trie_acyclic st.clusters hcls)
  · rw [hf]
    apply Expr.clsAscii_newAlternation
    intro e he
    obtain ⟨c, _, rfl⟩ := List.mem_map.mp he
    trivial

/-- **C11 for the model, whole pattern, all inputs with `-r`** with `-e` and repetition conversion, for every other setting (all
thresholds, class options, `-i`, verbose mode, colours, capturing groups, any anchors), every list of test cases and every segmentation
with non-empty pieces: whichever expression `RegExp::from` keeps, the returned text — counted quantifiers and groups included —
consists of ASCII characters only -/
theorem output_ascii_with_repetitions (cfg : Config) (hesc : cfg.esc = true) (hrep : cfg.rep = true) (env : Env) (ws : List Str)
    (st : Stages) (h : regExpFrom cfg env ws = .ok st) (hseg : ∀ w ∈ st.sorted, ∀ p ∈ env.segOf w, p ≠ []) :
    ∀ x ∈ fmtRegExp cfg st.finalAst, x < 128 :=
  output_ascii_rep cfg hesc hrep env ws st h hseg

/-- **C11 (reversible) with `-r`**: the text returned with `-e` and the text returned without are both accepted by the model of
`Regex::new` and the two compiled patterns match exactly the same strings — `C06.presentation_same_language_with_repetitions`
(settings that differ in `-e` only agree in everything S1–S6 read) -/
theorem escapes_decode_to_same_language_with_repetitions (cfg : Config) (hp : RepPrint cfg) (env : Env) (ws : List Str)
    (stE st0 : Stages) (hE : regExpFrom (withEsc cfg true) env ws = .ok stE)
    (h0 : regExpFrom (withEsc cfg false) env ws = .ok st0)
    (hseg : ∀ w ∈ storedCases cfg env ws, SegOK env w)
    (hlen : ∀ w ∈ storedCases cfg env ws, (clusterOfPieces (env.segOf w)).length ≤ 1000)
    (hne : ∃ t ∈ storedCases cfg env ws, t ≠ []) (s : Str) (hs : ∀ c ∈ s, Scalar c) :
    ∃ PE P0, Spec.parse (fmtRegExp (withEsc cfg true) stE.finalAst) = some (⟨cfg.ci, false⟩, PE) ∧
      Spec.parse (fmtRegExp (withEsc cfg false) st0.finalAst) = some (⟨cfg.ci, false⟩, P0) ∧
      Spec.fullMatch cfg.ci PE s = Spec.fullMatch cfg.ci P0 s :=
  rep_presentation_same_language (withEsc cfg true) (withEsc cfg false)
    ⟨hp.rep, hp.minRep, hp.sur, hp.verb, hp.color, hp.anch⟩ ⟨hp.rep, hp.minRep, hp.sur, hp.verb, hp.color, hp.anch⟩
    ⟨rfl, rfl, rfl, rfl, rfl, rfl, rfl, rfl, rfl, rfl⟩ env ws stE st0 hE h0 hseg
    (fun w hw => by have := hlen w hw; rwa [clusterOfPieces_eq, List.length_map] at this) hne s hs

/-- **C11 (reversible) for the model, all inputs without `-r`** for every subset of the class options, with or without
capturing groups and the case-insensitive option: the text returned with `-e` (no surrogate pairs) and the text returned
without are both accepted by the model of `Regex::new` — which decodes each `\u{…}` to its code point (`step_hex`) —
and the two compiled patterns match exactly the same strings of scalar values in full -/
theorem escapes_decode_to_same_language (cfg : Config) (hp : PlainPrintCI cfg) (env : Env) (ws : List Str)
    (stE st0 : Stages) (hE : regExpFrom (withEsc cfg true) env ws = .ok stE)
    (h0 : regExpFrom (withEsc cfg false) env ws = .ok st0)
    (hseg : ∀ w ∈ storedCases cfg env ws, SegOK env w) (hne : ∃ t ∈ storedCases cfg env ws, t ≠ [])
    (s : Str) (hs : ∀ c ∈ s, Scalar c) :
    ∃ PE P0, Spec.parse (fmtRegExp (withEsc cfg true) stE.finalAst) = some (⟨cfg.ci, false⟩, PE) ∧
      Spec.parse (fmtRegExp (withEsc cfg false) st0.finalAst) = some (⟨cfg.ci, false⟩, P0) ∧
      Spec.fullMatch cfg.ci PE s = Spec.fullMatch cfg.ci P0 s :=
  esc_same_language cfg hp env ws stE st0 hE h0 hseg hne s hs

/-- the hexadecimal text of an escape is read back as the code point it was written for -/
theorem escape_round_trip (n : Nat) (hn : Spec.isScalar n = true) (h : 128 ≤ n) (rest : List Nat) :
    Spec.parseEscape false ((Expr.escapeChar n false).tail ++ rest) = some (Spec.Prim.lit n, rest) := by
  rw [escapeChar_plain n h]
  have : ([92, 117, 123] ++ toHex n ++ [125]).tail ++ rest = 117 :: 123 :: (toHex n ++ 125 :: rest) := by
    simp
  rw [this]
  exact parseEscape_hex n hn rest

/-- **C11 (surrogate pairs, whole pattern)** for every well-formed expression, not verbose and without colours: the text
printed with surrogate pairs is the text printed with `-e` alone in which the escapes of astral code points are written
as their pair of surrogate escapes — nothing else differs (BMP characters, operators, groups and classes are
unchanged); each pair decodes back to its code point (`escapeChar_pair`), so decoding gives exactly the `-e` text -/
theorem surrogate_text_is_escaped_text_with_pairs (cfg : Config) (hc : cfg.color = false) (hv : cfg.verb = false)
    (e : Expr) (h : e.WF) : SurRel (fmtRegExp (withSur cfg true) e) (fmtRegExp (withSur cfg false) e) :=
  surRel_regexp cfg hc hv e h

/-- **C11 (surrogate pairs, whole run, all inputs without `-r`, an anchor in place)** the output with surrogate pairs and
the output with `-e` alone come from the same expression and differ only in the astral escapes -/
theorem surrogate_output_related (cfg : Config) (hc : cfg.color = false) (hv : cfg.verb = false) (hrep : cfg.rep = false)
    (hanch : ¬ (cfg.noStart = true ∧ cfg.noEnd = true)) (env : Env) (ws : List Str) (stS stN : Stages)
    (hS : regExpFrom (withSur cfg true) env ws = .ok stS) (hN : regExpFrom (withSur cfg false) env ws = .ok stN)
    (hseg : ∀ w ∈ storedCases cfg env ws, SegOK env w) (hws : ws ≠ []) :
    SurRel (fmtRegExp (withSur cfg true) stS.finalAst) (fmtRegExp (withSur cfg false) stN.finalAst) := by
  have hsame : SameStageInputs (withSur cfg true) (withSur cfg false) := ⟨rfl, rfl, rfl, rfl, rfl, rfl, rfl, rfl, rfl, rfl, rfl⟩
  have h1 := (firstAst_independent hsame env ws stS stN hS hN).2.2.2.2
  have f1 := (Props.C08.no_selfcheck_when_anchored (withSur cfg true) env ws stS hanch hS).1
  have f2 := (Props.C08.no_selfcheck_when_anchored (withSur cfg false) env ws stN hanch hN).1
  have hwf : stN.finalAst.WF := final_expr_wf (withSur cfg false) hrep env ws stN hN hseg hws
  rw [f1, h1, ← f2]
  exact surRel_regexp cfg hc hv _ hwf

/-! ## decoding the surrogate pairs, as a function of the text -/

/-- **C11 (re-pairing surrogates gives the `-e` text), whole pattern** for every well-formed expression, not verbose and without colours:
read token by token — a character other than the backslash, a backslash with the character it escapes, one `\u{h…}` that is not a high
surrogate, or a high surrogate escape followed by a low one — the text printed with surrogate pairs decodes to the text printed with
`-e` alone: every pair becomes the escape of the code point it encodes (`pairValue`), every other token is unchanged.  Unlike
`surrogate_text_is_escaped_text_with_pairs` this relation is a function of its first argument (`surrogate_decoding_unique`) -/
theorem surrogate_text_decodes (cfg : Config) (hc : cfg.color = false) (hv : cfg.verb = false) (e : Expr) (h : e.WF) :
    SurEmit (fmtRegExp (withSur cfg true) e) (fmtRegExp (withSur cfg false) e) := surEmit_regexp cfg hc hv e h

theorem surrogate_decoding_unique {s p q : Str} (h1 : SurEmit s p) (h2 : SurEmit s q) : p = q := h1.unique h2

/-- a pair of surrogate escapes decodes to the code point the printer started from -/
theorem pair_decodes (c : Nat) (h1 : 0x10000 ≤ c) (h2 : c ≤ 0x10FFFF) :
    pairValue (0xD800 + (c - 0x10000) / 1024) (0xDC00 + (c - 0x10000) % 1024) = c := by
  unfold pairValue; omega

/-- **C11 (re-pairing surrogates, whole run, all inputs without `-r`, an anchor in place)** what `build()` returns with surrogate pairs
decodes to what it returns with `-e` alone -/
theorem surrogate_output_decodes (cfg : Config) (hc : cfg.color = false) (hv : cfg.verb = false) (hrep : cfg.rep = false)
    (hanch : ¬ (cfg.noStart = true ∧ cfg.noEnd = true)) (env : Env) (ws : List Str) (stS stN : Stages)
    (hS : regExpFrom (withSur cfg true) env ws = .ok stS) (hN : regExpFrom (withSur cfg false) env ws = .ok stN)
    (hseg : ∀ w ∈ storedCases cfg env ws, SegOK env w) (hws : ws ≠ []) :
    SurEmit (fmtRegExp (withSur cfg true) stS.finalAst) (fmtRegExp (withSur cfg false) stN.finalAst) := by
  have hsame : SameStageInputs (withSur cfg true) (withSur cfg false) := ⟨rfl, rfl, rfl, rfl, rfl, rfl, rfl, rfl, rfl, rfl, rfl⟩
  have h1 := (firstAst_independent hsame env ws stS stN hS hN).2.2.2.2
  have f1 := (Props.C08.no_selfcheck_when_anchored (withSur cfg true) env ws stS hanch hS).1
  have f2 := (Props.C08.no_selfcheck_when_anchored (withSur cfg false) env ws stN hanch hN).1
  have hwf : stN.finalAst.WF := final_expr_wf (withSur cfg false) hrep env ws stN hN hseg hws
  rw [f1, h1, ← f2]
  exact surEmit_regexp cfg hc hv _ hwf

/-- **C11 (decoding the surrogate pairs gives a pattern with the language of the unescaped build), all inputs without `-r`, an anchor in
place** what `build()` returns with `-e` and surrogate pairs decodes, token by token and uniquely, to a text `t` that the model of
`Regex::new` accepts and that matches exactly the strings the pattern built without `-e` matches (`t` is what `build()` returns with
`-e` alone) -/
theorem surrogates_decode_to_same_language (cfg : Config) (hp : PlainPrintCI cfg) (env : Env) (ws : List Str)
    (stS stE st0 : Stages) (hS : regExpFrom (withSur (withEsc cfg true) true) env ws = .ok stS)
    (hE : regExpFrom (withEsc cfg true) env ws = .ok stE) (h0 : regExpFrom (withEsc cfg false) env ws = .ok st0)
    (hseg : ∀ w ∈ storedCases cfg env ws, SegOK env w) (hne : ∃ t ∈ storedCases cfg env ws, t ≠ [])
    (s : Str) (hs : ∀ c ∈ s, Scalar c) :
    ∃ t PE P0, SurEmit (fmtRegExp (withSur (withEsc cfg true) true) stS.finalAst) t ∧
      Spec.parse t = some (⟨cfg.ci, false⟩, PE) ∧
      Spec.parse (fmtRegExp (withEsc cfg false) st0.finalAst) = some (⟨cfg.ci, false⟩, P0) ∧
      Spec.fullMatch cfg.ci PE s = Spec.fullMatch cfg.ci P0 s := by
  obtain ⟨PE, P0, hPE, hP0, hm⟩ := escapes_decode_to_same_language cfg hp env ws stE st0 hE h0 hseg hne s hs
  have heq : withSur (withEsc cfg true) false = withEsc cfg true := by
    have := hp.sur
    cases cfg
    simp only [withSur, withEsc] at this ⊢
    simp_all
  have hws : ws ≠ [] := by
    obtain ⟨t, ht, _⟩ := hne
    intro e; subst e
    simp [storedCases, lowerCases] at ht
  have hanch : ¬ ((withEsc cfg true).noStart = true ∧ (withEsc cfg true).noEnd = true) := by
    have := hp.anch
    intro ⟨h1, h2⟩
    have e1 : cfg.noStart = true := h1
    have e2 : cfg.noEnd = true := h2
    rw [e1, e2] at this
    cases this
  have hdec := surrogate_output_decodes (withEsc cfg true) hp.color hp.verb hp.rep hanch env ws stS stE hS (by rw [heq]; exact hE)
    hseg hws
  rw [heq] at hdec
  exact ⟨_, PE, P0, hdec, hPE, hP0, hm⟩

/-! non-vacuity -/
example : Expr.escapeChar 0x1F4A9 true = strOf "\\u{d83d}\\u{dca9}" := by decide
example : Expr.escapeChar 0x10FFFF true = strOf "\\u{dbff}\\u{dfff}" := by decide
example : Expr.escapeChar 0xE9 true = strOf "\\u{e9}" := by decide
example : pairValue 0xD83D 0xDCA9 = 0x1F4A9 := by decide

end Grexv.Props.C11
