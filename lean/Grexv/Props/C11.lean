import Grexv.Model.Format

/-!
# C11 — non-ASCII escaping is complete, well-formed and reversible (character level)

`Gen.surrogateLo/Hi/HiInclusive` are generated from the range expression in `Grapheme::escape`.
-/
set_option linter.unusedSimpArgs false
set_option linter.unusedVariables false
namespace Grexv.Props.C11
open Grexv

theorem hexDigit_ascii (d : Nat) (h : d < 16) : hexDigit d < 128 := by
  unfold hexDigit; split <;> omega

theorem toHexAux_ascii (fuel n : Nat) (acc : Str) (hacc : ∀ x ∈ acc, x < 128) :
    ∀ x ∈ toHexAux fuel n acc, x < 128 := by
  induction fuel generalizing n acc with
  | zero => simpa [toHexAux] using hacc
  | succ f ih =>
    unfold toHexAux
    split
    · intro x hx
      simp at hx
      rcases hx with rfl | hx
      · exact hexDigit_ascii _ (by omega)
      · exact hacc x hx
    · apply ih
      intro x hx
      simp at hx
      rcases hx with rfl | hx
      · exact hexDigit_ascii _ (Nat.mod_lt _ (by omega))
      · exact hacc x hx

theorem toHex_ascii (n : Nat) : ∀ x ∈ toHex n, x < 128 := toHexAux_ascii _ _ _ (by simp)

/-- **C11 (ASCII)** whatever the code point and whatever the surrogate option, the escaped form
consists of ASCII characters only -/
theorem escapeChar_ascii (c : Nat) (sur : Bool) : ∀ x ∈ Expr.escapeChar c sur, x < 128 := by
  unfold Expr.escapeChar
  split
  · intro x hx; simp at hx; omega
  · split
    · intro x hx
      simp only [List.mem_append, List.mem_cons, List.mem_nil_iff, or_false] at hx
      rcases hx with ((((hx | hx) | hx) | hx) | hx) | hx
      · rcases hx with rfl | rfl | rfl <;> omega
      · exact toHex_ascii _ x hx
      · omega
      · rcases hx with rfl | rfl | rfl <;> omega
      · exact toHex_ascii _ x hx
      · omega
    · intro x hx
      simp only [List.mem_append, List.mem_cons, List.mem_nil_iff, or_false] at hx
      rcases hx with (hx | hx) | hx
      · rcases hx with rfl | rfl | rfl <;> omega
      · exact toHex_ascii _ x hx
      · omega

/-- **C11 (form)** a non-ASCII code point that is not converted to a pair is written `\u{hex}` -/
theorem escapeChar_plain (c : Nat) (h : 128 ≤ c) :
    Expr.escapeChar c false = [92, 117, 123] ++ toHex c ++ [125] := by
  have : ¬ c < 128 := by omega
  simp [Expr.escapeChar, this]

/-- ASCII is left alone -/
theorem escapeChar_ascii_id (c : Nat) (sur : Bool) (h : c < 128) : Expr.escapeChar c sur = [c] := by
  simp [Expr.escapeChar, h]

/-- the range the code tests is the whole astral range, **inclusive** of U+10FFFF -/
theorem surrogate_range : Gen.surrogateLo = 0x10000 ∧ Gen.surrogateHi = 0x10FFFF ∧ Gen.surrogateHiInclusive = true :=
  ⟨rfl, rfl, rfl⟩

/-- **C11 (surrogate pairs)** every code point from U+10000 to U+10FFFF inclusive is written as a
high surrogate escape followed by a low surrogate escape, and the pair decodes back to it -/
theorem escapeChar_pair (c : Nat) (h1 : 0x10000 ≤ c) (h2 : c ≤ 0x10FFFF) :
    ∃ hi lo, Expr.escapeChar c true = [92, 117, 123] ++ toHex hi ++ [125] ++ [92, 117, 123] ++ toHex lo ++ [125]
      ∧ 0xD800 ≤ hi ∧ hi < 0xDC00 ∧ 0xDC00 ≤ lo ∧ lo < 0xE000
      ∧ 0x10000 + (hi - 0xD800) * 1024 + (lo - 0xDC00) = c := by
  refine ⟨0xD800 + (c - 0x10000) / 1024, 0xDC00 + (c - 0x10000) % 1024, ?_, ?_, ?_, ?_, ?_, ?_⟩
  · have hc : ¬ c < 128 := by omega
    have hlo : Gen.surrogateLo ≤ c := by have := surrogate_range.1; omega
    have hhi : Gen.surrogateHiOk c = true := by
      simp [Gen.surrogateHiOk, surrogate_range.2.2, surrogate_range.2.1]; omega
    unfold Expr.escapeChar
    rw [if_neg hc]
    simp only [hlo, hhi, decide_true, Bool.and_self, ite_true]
  all_goals omega

/-- BMP characters are unchanged by the surrogate option -/
theorem escapeChar_bmp (c : Nat) (h : c < 0x10000) : Expr.escapeChar c true = Expr.escapeChar c false := by
  unfold Expr.escapeChar
  have hlo : ¬ (Gen.surrogateLo ≤ c) := by have := surrogate_range.1; omega
  split
  · rfl
  · simp [hlo]

/-- **C11 (graphemes)** escaping a grapheme with `-e` leaves only ASCII in its `chars` -/
theorem escapeGrapheme_ascii (cfg : Config) (hesc : cfg.esc = true) (chars : List Str) (mn mx : Nat) :
    ∀ s ∈ (escapeGrapheme cfg (.mk chars [] mn mx)).chars, ∀ x ∈ s, x < 128 := by
  intro s hs x hx
  simp [escapeGrapheme, escapeGraphemes, Grapheme.chars, hesc] at hs
  obtain ⟨a, _, rfl⟩ := hs
  simp at hx
  obtain ⟨c, _, hc⟩ := hx
  exact escapeChar_ascii c cfg.sur x hc

/-! non-vacuity -/
example : Expr.escapeChar 0x1F4A9 true = strOf "\\u{d83d}\\u{dca9}" := by decide
example : Expr.escapeChar 0x10FFFF true = strOf "\\u{dbff}\\u{dfff}" := by decide
example : Expr.escapeChar 0xE9 true = strOf "\\u{e9}" := by decide

end Grexv.Props.C11
