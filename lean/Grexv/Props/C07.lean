import Grexv.Lemmas.VerbTotal
import Grexv.Lemmas.EndToEndRV
import Grexv.Model.Api
import Grexv.Lemmas.Lex
import Grexv.Lemmas.EndToEnd
import Grexv.Lemmas.EndToEndR

/-!
# C07 — build() is total and returns a syntactically valid regex; panics only where documented
-/
set_option linter.unusedSimpArgs false
set_option linter.unusedVariables false
namespace Grexv.Props.C07
open Grexv Gen

/-- **C07 (documented panic 1)** constructing a builder from an empty list -/
theorem from_empty : Builder.from [] = .error .noTestCases := rfl
theorem from_nonempty (ws : List Str) (h : ws ≠ []) : ∃ b, Builder.from ws = .ok b ∧ b.testCases = ws := by
  cases ws with
  | nil => exact absurd rfl h
  | cons w rest => exact ⟨_, rfl, rfl⟩
/-- the source agrees: `from` tests `is_empty()` and panics with `MISSING_TEST_CASES_MESSAGE` -/
theorem from_source : rsFromRejectsEmpty = true := rfl

/-- **C07 (documented panics 2, 3)** a zero threshold raises exactly the documented message and a
positive one never does (setter bodies generated from builder.rs) -/
theorem zero_min_rep (cfg : Config) : applySetter rsSetters .minRepetitions (.int 0) cfg = some (.error .minRep) := rfl
theorem zero_min_len (cfg : Config) : applySetter rsSetters .minSubstringLength (.int 0) cfg = some (.error .minLen) := rfl
theorem positive_min_rep (cfg : Config) (n : Nat) (h : 0 < n) :
    applySetter rsSetters .minRepetitions (.int n) cfg = some (.ok { cfg with minRep := n }) := by
  have hn : n ≠ 0 := by omega
  simp [applySetter, findSetter, rsSetters, runBody, runStmt, hn, Config.setNat]
theorem positive_min_len (cfg : Config) (n : Nat) (h : 0 < n) :
    applySetter rsSetters .minSubstringLength (.int n) cfg = some (.ok { cfg with minLen := n }) := by
  have hn : n ≠ 0 := by omega
  simp [applySetter, findSetter, rsSetters, runBody, runStmt, hn, Config.setNat]

/-- no other setter can fail, whatever its argument -/
theorem other_setters_total (id : SetterId) (arg : Arg) (cfg : Config)
    (h : id ≠ .minRepetitions ∧ id ≠ .minSubstringLength) :
    ∃ c, applySetter rsSetters id arg cfg = some (.ok c) := by
  obtain ⟨h1, h2⟩ := h
  cases id <;> first
    | (exact absurd rfl h1)
    | (exact absurd rfl h2)
    | (cases arg <;> exact ⟨_, rfl⟩)

/-- the three messages are the documented texts (constants generated from builder.rs) -/
theorem messages :
    msgMissingTestCases = strOf "No test cases have been provided for regular expression generation" ∧
    msgMinRep = strOf "Quantity of minimum repetitions must be greater than zero" ∧
    msgMinLen = strOf "Minimum substring length must be greater than zero" := by decide

/-- **C07 (totality, partial)** with at least one anchor in place the only way `RegExp::from` can fail
in the model is the fuel of the refinement loop (shown unreachable: `fuel_site_dead`); no regex is compiled.  Scope: the model has two
explicit failure sites (this one and the verbose `unwrap`); where the Rust code indexes or unwraps elsewhere (`first()`/`last()` of a
run of a character class, `unwrap` on an `Option` that is `Some` by construction, the fuel of the repetition search) the model is total
by a default (`headD`, `getD`) — those sites are not covered by this theorem but by the correspondence, where a panic of the code is
a reported failure (DESIGN §9) -/
theorem anchored_build_sites (cfg : Config) (env : Env) (ws : List Str) (h : ¬ (cfg.noStart = true ∧ cfg.noEnd = true))
    (e : Panic) (he : regExpFrom cfg env ws = .error e) : e = .index "minimize: fuel" := by
  unfold regExpFrom at he
  simp only [] at he
  split at he
  · simp at he; exact he.symm
  · have : (cfg.noStart && cfg.noEnd) = false := by
      cases h1 : cfg.noStart <;> cases h2 : cfg.noEnd <;> simp_all
    simp [this] at he

/-- **C07 (totality, partial)** with both anchors disabled the one additional failure site is the
`unwrap()` the code still has: re-compiling the verbose candidate with its line breaks removed -/
theorem unanchored_build_sites (cfg : Config) (env : Env) (ws : List Str) (e : Panic)
    (he : regExpFrom cfg env ws = .error e) :
    e = .index "minimize: fuel" ∨ ∃ s, e = .regexInvalid s := by
  unfold regExpFrom at he
  simp only [] at he
  split at he
  · simp at he; left; exact he.symm
  · right
    split at he
    · split at he
      · simp at he
      · rename_i re0 hre0
        split at he
        · rename_i e' hre
          have he' : e' = e := by simpa using he
          subst he'
          by_cases hv : cfg.verb = true
          · simp only [hv, ite_true] at hre
            split at hre
            · simp at hre
            · exact ⟨_, (by simpa using hre.symm)⟩
          · simp [hv] at hre
        · exfalso
          repeat' (split at he)
          all_goals simp at he
    · simp at he

/-- the refinement loop always terminates within its fuel (Lemmas/HopcroftFuel.lean), so that site is dead -/
theorem fuel_site_dead (cfg : Config) (env : Env) (ws : List Str) :
    regExpFrom cfg env ws ≠ .error (.index "minimize: fuel") := by
  intro he
  obtain ⟨p, hp⟩ := Dfa.minimizePartition_some (Dfa.trie (graphemeClusters cfg env (sortCases (if cfg.ci then lowerCases env ws else ws))))
  unfold regExpFrom at he
  simp only [Dfa.minimize, hp, Option.map_some] at he
  repeat' split at he
  all_goals try (cases he)
  all_goals (rename_i hq; repeat' split at hq)
  all_goals cases hq

/-- **C07 (totality)** with at least one anchor in place the model of `RegExp::from` returns, for every
configuration, segmentation and list of test cases -/
theorem anchored_build_total (cfg : Config) (env : Env) (ws : List Str) (h : ¬ (cfg.noStart = true ∧ cfg.noEnd = true)) :
    ∃ st, regExpFrom cfg env ws = .ok st := by
  cases hr : regExpFrom cfg env ws with
  | ok st => exact ⟨st, rfl⟩
  | error e =>
    have := anchored_build_sites cfg env ws h e hr
    subst this
    exact absurd hr (fuel_site_dead cfg env ws)

/-- **C07 (totality, any anchors, not verbose)** outside verbose mode the model of `RegExp::from` returns for every configuration —
both anchors disabled included: the self-check compiles its candidates with `Regex::new(..).ok()` and never unwraps.  (What is shown
dead are the model's explicit failure sites, see `anchored_build_sites` for the scope.) -/
theorem nonverbose_build_total (cfg : Config) (env : Env) (ws : List Str) (hv : cfg.verb = false) :
    ∃ st, regExpFrom cfg env ws = .ok st := by
  cases hr : regExpFrom cfg env ws with
  | ok st => exact ⟨st, rfl⟩
  | error e =>
    exfalso
    rcases unanchored_build_sites cfg env ws e hr with h | ⟨s, h⟩
    · subst h; exact fuel_site_dead cfg env ws hr
    · subst h
      -- the only `regexInvalid` is produced under `cfg.verb`
      unfold regExpFrom at hr
      simp only [hv, Bool.false_eq_true, ite_false] at hr
      repeat' split at hr
      all_goals cases hr

/-- with both anchors disabled a failure can only happen in verbose mode -/
theorem unanchored_failure_is_verbose (cfg : Config) (env : Env) (ws : List Str) (e : Panic)
    (he : regExpFrom cfg env ws = .error e) : cfg.verb = true ∧ cfg.noStart = true ∧ cfg.noEnd = true := by
  refine ⟨?_, ?_⟩
  · cases hv : cfg.verb with
    | true => rfl
    | false =>
      obtain ⟨st, hst⟩ := nonverbose_build_total cfg env ws hv
      rw [hst] at he; cases he
  · apply Classical.byContradiction
    intro h
    obtain ⟨st, hst⟩ := anchored_build_total cfg env ws h
    rw [hst] at he; cases he

/-- **C07 (totality)** `RegExp::from` returns for every configuration, segmentation and list of test cases unless verbose mode is on *and*
both anchors are disabled -/
theorem build_total (cfg : Config) (env : Env) (ws : List Str) (h : ¬ (cfg.verb = true ∧ cfg.noStart = true ∧ cfg.noEnd = true)) :
    ∃ st, regExpFrom cfg env ws = .ok st := by
  cases hv : cfg.verb with
  | false => exact nonverbose_build_total cfg env ws hv
  | true => exact anchored_build_total cfg env ws (fun hh => h ⟨hv, hh.1, hh.2⟩)

/-- **C07 (totality in the remaining case, partial)** verbose mode with both anchors disabled — the one place where the code still has an
`unwrap()` on a compilation: it cannot fail when surrogate pairs are off and the text of the first candidate contains no raw vertical
tab or form feed (`hvt`; `Display for Expression` leaves U+000B and U+000C unescaped, only `Display for RegExp` escapes them, and the
print → parse theorems are about the escaped text).  The text compiled there is the verbose text of the expression with its line breaks
removed (`drop_fmtExpr`: that is the text printed without verbose mode, for every expression) and the model of `Regex::new` accepts it
(`parse_exprR`: the bare text of a well-formed expression — no anchors, no group around a top-level alternation).  What is missing for
the full statement: the two excluded characters and `-e` with surrogate pairs; those inputs are compared per input.  Note that `hvt`
speaks about the text of the first candidate, an internal object (it holds whenever no test case contains U+000B or U+000C, which is
not proved here); the bound of 1000 graphemes per test case is asked for with `-r` only -/
theorem verbose_unanchored_build_total_partial (cfg : Config) (hsur : cfg.sur = false)
    (hmr : cfg.rep = true → 1 ≤ cfg.minRep) (env : Env) (ws : List Str)
    (hseg : ∀ w ∈ storedCases cfg env ws, SegOK env w)
    (hlen : cfg.rep = true → ∀ w ∈ storedCases cfg env ws, (clusterOfPieces (env.segOf w)).length ≤ 1000)
    (hvt : ∀ m, Dfa.minimize (Dfa.trie (graphemeClusters cfg env (sortCases (storedCases cfg env ws)))) Dfa.pickMin = some m →
      ∀ c ∈ fmtExpr (cfgPlain cfg.cap cfg.esc) (Expr.ofDfa cfg m), c ≠ 11 ∧ c ≠ 12) :
    ∃ st, regExpFrom cfg env ws = .ok st :=
  verbose_unanchored_total cfg hsur hmr env ws hseg
    (fun hr w hw => by have := hlen hr w hw; rwa [clusterOfPieces_eq, List.length_map] at this) hvt

/-- **C07 (totality, both anchors off)** whatever makes the model of `RegExp::from` fail is the `unwrap()` on the candidate re-compiled
with its line breaks removed — and that happens in verbose mode only (`unanchored_failure_is_verbose`) -/
theorem unanchored_build_only_site (cfg : Config) (env : Env) (ws : List Str) (e : Panic)
    (he : regExpFrom cfg env ws = .error e) : ∃ s, e = .regexInvalid s := by
  rcases unanchored_build_sites cfg env ws e he with h | h
  · subst h; exact absurd he (fuel_site_dead cfg env ws)
  · exact h

/-- **C07 (validity, default settings, all inputs)** the returned text is accepted by the model of `Regex::new` -/
theorem default_output_valid (cap : Bool) (env : Env) (ws : List Str) (st : Stages)
    (h : regExpFrom (cfgPlain cap false) env ws = .ok st) (hseg : ∀ w ∈ ws, SegOK env w) :
    ∃ P, Spec.parse (fmtRegExp (cfgPlain cap false) st.finalAst) = some (⟨false, false⟩, P) :=
  default_valid cap env ws st h hseg

/-- **C07 (validity, all inputs, every subset of the class options × capturing groups × `-e` × `-i` × any anchors)**
whatever expression `RegExp::from` keeps — with both anchors disabled one of three — the returned text is accepted by the
model of `Regex::new`: a pattern that cannot be compiled is never returned under these settings -/
theorem output_valid_any_anchor (cfg : Config) (hp : PlainPrintNA cfg) (env : Env) (ws : List Str) (st : Stages)
    (h : regExpFrom cfg env ws = .ok st) (hseg : ∀ w ∈ storedCases cfg env ws, SegOK env w) (hws : ws ≠ []) :
    ∃ P, Spec.parse (fmtRegExp cfg st.finalAst) = some (⟨cfg.ci, false⟩, P) :=
  classes_valid_any_anchor cfg hp env ws st h hseg hws

/-- **C07 (validity in verbose mode, all inputs, any anchors)** whenever `RegExp::from` returns, the verbose text is
accepted by the model of `Regex::new` under the flag it carries (with both anchors disabled the only failure of
`RegExp::from` is the panic site `unanchored_build_only_site`) -/
theorem output_valid_verbose (cfg : Config) (hp : VerbosePrintNA cfg) (env : Env) (ws : List Str) (st : Stages)
    (h : regExpFrom cfg env ws = .ok st) (hseg : ∀ w ∈ storedCases cfg env ws, SegOK env w) (hws : ws ≠ []) :
    ∃ P, Spec.parse (fmtRegExp cfg st.finalAst) = some (⟨cfg.ci, true⟩, P) :=
  classes_valid_verbose cfg hp env ws st h hseg hws

/-- **C07 (validity with repetition conversion, all inputs, any anchors)** `-r` with positive thresholds, every subset of the class
options × capturing groups × `-e` × `-i` × any anchors, plain printing; stored test cases of at most 1000 graphemes (the Spec model of `regex-syntax` reads counts up to 1000; the real crate accepts `a{1001}` and more, up to its
compiled-size limit, which is not modelled: such inputs are outside this theorem and compared per input): whichever of its three candidates
`RegExp::from` keeps, the returned text — with `x{m,n}`, `(?:unit){m,n}` and nested repetitions — is accepted by the model of
`Regex::new` -/
theorem output_valid_with_repetitions (cfg : Config) (hp : RepPrintNA cfg) (env : Env) (ws : List Str) (st : Stages)
    (h : regExpFrom cfg env ws = .ok st) (hseg : ∀ w ∈ storedCases cfg env ws, SegOK env w)
    (hlen : ∀ w ∈ storedCases cfg env ws, (clusterOfPieces (env.segOf w)).length ≤ 1000) (hws : ws ≠ []) :
    ∃ P, Spec.parse (fmtRegExp cfg st.finalAst) = some (⟨cfg.ci, false⟩, P) :=
  rep_valid_na cfg hp env ws st h hseg
    (fun w hw => by have := hlen w hw; rwa [clusterOfPieces_eq, List.length_map] at this) hws

/-- **C07 (validity with repetition conversion in verbose mode, all inputs, any anchors)** whenever `RegExp::from` returns, the verbose
text is accepted by the model of `Regex::new` under the `(?x)` / `(?ix)` flag it carries -/
theorem output_valid_with_repetitions_verbose (cfg : Config) (hp : RepVerbose cfg) (env : Env) (ws : List Str) (st : Stages)
    (h : regExpFrom cfg env ws = .ok st) (hseg : ∀ w ∈ storedCases cfg env ws, SegOK env w)
    (hlen : ∀ w ∈ storedCases cfg env ws, (clusterOfPieces (env.segOf w)).length ≤ 1000) (hws : ws ≠ []) :
    ∃ P, Spec.parse (fmtRegExp cfg st.finalAst) = some (⟨cfg.ci, true⟩, P) :=
  rep_valid_verbose cfg hp env ws st h hseg
    (fun w hw => by have := hlen w hw; rwa [clusterOfPieces_eq, List.length_map] at this) hws

example : RepPrintNA { rep := true, noStart := true, noEnd := true, ci := true, space := true } := ⟨rfl, by decide, rfl, rfl, rfl⟩

/-! ## syntactic validity at the literal level (generated escape lists) -/

/-- **C07/C01 (literals)** for every code point, what the literal printer writes (the generated
`CHARS_TO_ESCAPE`, `\n \r \t`, the lone backslash) is read back by the parser as that code point -/
theorem literal_lexes (c : Nat) : Lex.parsesAsChar (escapeSymbols [c]) c = true := Lex.literal_lexes c

/-- the operator texts of the printer are the regex crate's operators (generated from component.rs) -/
theorem component_texts :
    Gen.strPipe = strOf "|" ∧ Gen.strLeftBracket = strOf "[" ∧ Gen.strRightBracket = strOf "]" ∧
    Gen.strHyphen = strOf "-" ∧ Gen.strCapturedLeftParen = strOf "(" ∧ Gen.strUncapturedLeftParen = strOf "(?:" ∧
    Gen.strRightParen = strOf ")" ∧ Gen.strStar = strOf "*" ∧ Gen.strQuestion = strOf "?" ∧
    Gen.strCaret = strOf "^" ∧ Gen.strDollar = strOf "$" := by decide

/-! ## defaults of the printer model that stand for an index or `unwrap` of the code -/

/-- `format_character_class` takes `first()`/`last()` of a run only in the branch for runs of more than two code points, and
`Display for Grapheme` looks at `chars[0]` only behind `chars.len() == 1`: where the model writes `headD`/`getLastD` the default is
never the value (the remaining defaults of the model — `sideValue`, `classOf`, `pickMin`, the fuel of the repetition search — are not
covered by a theorem: DESIGN §9) -/
theorem printer_defaults_unreachable :
    (∀ r : List Nat, ¬ r.length ≤ 2 → r.head? = some (r.headD 0) ∧ r.getLast? = some (r.getLastD 0)) ∧
    (∀ chars : List Str, (chars.length == 1) = true → chars.head? = some (chars.headD [])) := by
  constructor
  · intro r hr
    cases r with
    | nil => simp at hr
    | cons a t =>
      refine ⟨rfl, ?_⟩
      rw [List.getLastD_eq_getLast?]
      cases h : (a :: t).getLast? with
      | none => simp at h
      | some x => rfl
  · intro chars h
    cases chars with
    | nil => simp at h
    | cons a t => rfl

end Grexv.Props.C07
