import Grexv.Lemmas.SortCases
import Grexv.Props.C01
import Grexv.Props.C16

import Grexv.Lemmas.Lex
import Grexv.Lemmas.EndToEnd

/-!
# C02 — exactness by default (stage theorems)

The full statement "language of the output = set of test cases" is false of the code as it stands
(known finding D1).  `default_exact` is the property as a theorem about the model, end to end, with that
finding stated exactly: with default settings (optionally capturing groups) the returned text is accepted
by the regex parser, and the compiled pattern matches a string in full iff the string is one of the test
cases and is not empty.  Stages: S1 exact, S2 (segmentation is a parameter with a stated contract), S5
exact, S6 (Hopcroft invariant, termination), S7 (elimination with `union`/`concatenate`), S8/S9 (print →
parse over the model of regex-syntax), matching (model of leftmost-first search on the emitted fragment).
-/
set_option linter.unusedSimpArgs false
set_option linter.unusedVariables false
namespace Grexv.Props.C02
open Grexv

/-- **S1 is exact** the stored list has exactly the given test cases as members -/
theorem s1_exact (ws : List Str) (w : Str) : w ∈ sortCases ws ↔ w ∈ ws := Props.C10.sortCases_mem ws w

/-- with default settings no class or repetition conversion runs: the clusters are those of S2 -/
theorem default_clusters (env : Env) (ws : List Str) :
    graphemeClusters {} env ws = ws.map fun w => clusterOfPieces (env.segOf w) := rfl

/-- **S1+S2+S5** with default settings every given test case has an accepting path in the trie -/
theorem default_trie_accepts (env : Env) (ws : List Str) (w : Str) (h : w ∈ ws) :
    (Dfa.trie (graphemeClusters {} env (sortCases ws))).Accepts (clusterOfPieces (env.segOf w)) := by
  apply Props.C16.trie_accepts_every_cluster {} env (sortCases ws) rfl
  exact Props.C01.clusters_cover {} env ws w h rfl rfl rfl

/-- **S1+S2+S5 exact** with default settings the trie accepts a label sequence iff it is the cluster of one of
the given test cases: nothing else gets in (S5 exactness composed with S1 exactness) -/
theorem default_trie_exact (env : Env) (ws : List Str) (w : List Grapheme) :
    (Dfa.trie (graphemeClusters {} env (sortCases ws))).Accepts w ↔
      ∃ t ∈ ws, w = clusterOfPieces (env.segOf t) := by
  rw [Props.C16.trie_language_exact {} env (sortCases ws) rfl w, default_clusters]
  simp only [List.mem_map]
  constructor
  · rintro ⟨t, ht, rfl⟩; exact ⟨t, (s1_exact ws t).mp ht, rfl⟩
  · rintro ⟨t, ht, rfl⟩; exact ⟨t, (s1_exact ws t).mpr ht, rfl⟩

/-- **literal level (literals)** for every code point, what the literal printer writes is read back by the
parser as that code point (generated `CHARS_TO_ESCAPE`) -/
theorem literal_lexes (c : Nat) : Lex.parsesAsChar (escapeSymbols [c]) c = true := Lex.literal_lexes c

/-- **literal level (class members)** every ASCII member of a character class, in first or in later position, is
written (generated `chars_to_escape` of `format_character_class`) so that the parser reads exactly
that member: `^` cannot negate, `]` cannot close, `-` cannot form a range, `\` cannot escape -/
theorem class_member_lexes (c : Nat) (h : c < 128) :
    Lex.parsesAsClass (escapeClassChar c) [.range c c] = true ∧
    Lex.parsesAsClass (97 :: escapeClassChar c) [.range 97 97, .range c c] = true :=
  ⟨List.all_eq_true.mp Lex.class_member_ascii_first c (List.mem_range.mpr h),
   List.all_eq_true.mp Lex.class_member_ascii_later c (List.mem_range.mpr h)⟩

/-! ## the property, end to end -/

/-- **C02 for the model, all inputs** with default settings (and with or without capturing groups), for every
non-empty list of test cases of which at least one is not the empty string, every segmentation meeting its
contract, and every string `s` of scalar values: `RegExp::from` succeeds, the text `Display for RegExp`
writes is accepted by `Regex::new`, and the compiled pattern matches `s` in full **iff `s` is one of the
test cases and `s ≠ ""`** — nothing else is accepted, and exactly the empty test case is lost (known finding D1) -/
theorem default_exact (cap : Bool) (env : Env) (ws : List Str) (st : Stages)
    (h : regExpFrom (cfgPlain cap false) env ws = .ok st) (hseg : ∀ w ∈ ws, SegOK env w) (hne : ∃ t ∈ ws, t ≠ [])
    (s : Str) (hs : ∀ c ∈ s, Scalar c) :
    ∃ P, Spec.parse (fmtRegExp (cfgPlain cap false) st.finalAst) = some (⟨false, false⟩, P) ∧
      (Spec.fullMatch false P s = true ↔ (s ∈ ws ∧ s ≠ [])) :=
  Grexv.default_exact cap env ws st h hseg hne s hs

/-- no class option is set -/
def NoClassOption (cfg : Config) : Prop :=
  cfg.digit = false ∧ cfg.nonDigit = false ∧ cfg.space = false ∧ cfg.nonSpace = false ∧ cfg.word = false ∧ cfg.nonWord = false

/-- **C02 with the presentation-neutral settings, all inputs** capturing groups, `\u{…}` escaping (no surrogate pairs)
and one disabled anchor, in any combination, leave the statement as it is: the compiled pattern matches `s` in full iff `s`
is one of the test cases and `s ≠ ""` -/
theorem neutral_settings_exact (cfg : Config) (hp : PlainPrintCI cfg) (hci : cfg.ci = false) (hnc : NoClassOption cfg)
    (env : Env) (ws : List Str) (st : Stages)
    (h : regExpFrom cfg env ws = .ok st) (hseg : ∀ w ∈ ws, SegOK env w) (hne : ∃ t ∈ ws, t ≠ [])
    (s : Str) (hs : ∀ c ∈ s, Scalar c) :
    ∃ P, Spec.parse (fmtRegExp cfg st.finalAst) = some (⟨false, false⟩, P) ∧
      (Spec.fullMatch false P s = true ↔ (s ∈ ws ∧ s ≠ [])) := by
  have hst : storedCases cfg env ws = ws := by simp [storedCases, hci]
  have := classes_exact_ci cfg hp env ws st h (by rw [hst]; exact hseg) (by rw [hst]; exact hne) s hs
  rw [hst, hci] at this
  obtain ⟨P, hP, hm⟩ := this
  refine ⟨P, hP, ?_⟩
  rw [hm]
  have hmap : ∀ t : Str, t.map (convAtom cfg) = t.map Atom.chr := by
    intro t
    apply List.map_congr_left
    intro c _
    have : convChar cfg c = [c] := convChar_noflags cfg hnc c
    simp [convAtom, this]
  constructor
  · rintro ⟨t, ht, htne, hd⟩
    rw [hmap, atomsDen_chars] at hd
    subst hd
    exact ⟨ht, htne⟩
  · rintro ⟨hsw, hsne⟩
    exact ⟨s, hsw, hsne, by rw [hmap, atomsDen_chars]⟩

/-- with both anchors disabled as well (whichever expression the self-check keeps): nothing but test cases is matched in
full, and every non-empty test case is -/
theorem neutral_settings_bounds (cfg : Config) (hp : PlainPrintNA cfg) (hci : cfg.ci = false) (hnc : NoClassOption cfg)
    (env : Env) (ws : List Str) (st : Stages)
    (h : regExpFrom cfg env ws = .ok st) (hseg : ∀ w ∈ ws, SegOK env w) (hne : ∃ t ∈ ws, t ≠ [])
    (s : Str) (hs : ∀ c ∈ s, Scalar c) :
    ∃ P, Spec.parse (fmtRegExp cfg st.finalAst) = some (⟨false, false⟩, P) ∧
      (Spec.fullMatch false P s = true → s ∈ ws) ∧ (s ∈ ws → s ≠ [] → Spec.fullMatch false P s = true) := by
  have hst : storedCases cfg env ws = ws := by simp [storedCases, hci]
  have := classes_bounds_any_anchor cfg hp env ws st h (by rw [hst]; exact hseg) (by rw [hst]; exact hne) s hs
  rw [hst, hci] at this
  obtain ⟨P, hP, hsub, hsup⟩ := this
  have hmap : ∀ t : Str, t.map (convAtom cfg) = t.map Atom.chr := by
    intro t
    apply List.map_congr_left
    intro c _
    have : convChar cfg c = [c] := convChar_noflags cfg hnc c
    simp [convAtom, this]
  refine ⟨P, hP, ?_, ?_⟩
  · intro hm
    obtain ⟨t, ht, hd⟩ := hsub hm
    rw [hmap, atomsDen_chars] at hd
    subst hd; exact ht
  · intro hsw hsne
    exact hsup s hsw hsne (by rw [hmap, atomsDen_chars])

/-- the model of `RegExp::from` cannot fail on such input: together with `default_exact` this covers every run -/
theorem default_succeeds (cap : Bool) (env : Env) (ws : List Str) :
    ∃ st, regExpFrom (cfgPlain cap false) env ws = .ok st := by
  obtain ⟨p, hp⟩ := Dfa.minimizePartition_some (Dfa.trie (graphemeClusters (cfgPlain cap false) env (sortCases ws)))
  have hci : (cfgPlain cap false).ci = false := rfl
  have hanch : ((cfgPlain cap false).noStart && (cfgPlain cap false).noEnd) = false := rfl
  simp only [regExpFrom, hci, hanch, Bool.false_eq_true, ite_false, Dfa.minimize, hp, Option.map_some]
  exact ⟨_, rfl⟩

/-- non-vacuity: a concrete run meets the hypotheses (one-code-point pieces): `ab | ac | ""` gives `a[bc]` -/
example :
    let env : Env := { lowerOf := id, segOf := fun w => w.map fun c => [c] }
    (match regExpFrom (cfgPlain false false) env [strOf "ab", strOf "ac", []] with
      | .ok st => some st.finalAst
      | .error _ => none) = some (.cat (.lit [Grapheme.ofStr [97]]) (.cls [98, 99])) := by decide +kernel

end Grexv.Props.C02
