import Grexv.Props.C01
import Grexv.Props.C16

/-!
# C02 — exactness by default (stage theorems)

The full statement "language of the output = set of test cases" is false of the code as it stands
(known finding D1).  Proved for all inputs: the set of test cases survives S1 exactly (nothing
added, nothing lost), each survives S2 as text, and the trie accepts each of them (S5 soundness).
Exactness of S5–S9 is carried by the symbolic oracle and the exact-output correspondence.
-/
set_option linter.unusedSimpArgs false
set_option linter.unusedVariables false
namespace Grexv.Props.C02
open Grexv

/-- **S1 is exact** the stored list has exactly the given test cases as members -/
theorem s1_exact (ws : List Str) (w : Str) : w ∈ sortCases ws ↔ w ∈ ws := Props.C10.sortCases_mem ws w

/-- with default settings no class or repetition conversion runs: the clusters are those of S2 -/
theorem default_clusters (env : Env) (ws : List Str) :
    graphemeClusters {} env ws = ws.map fun w => clusterOfPieces (env.segOf w) := rfl

/-- **S1+S2+S5** with default settings every given test case has an accepting path in the trie -/
theorem default_trie_accepts (env : Env) (ws : List Str) (w : Str) (h : w ∈ ws) :
    (Dfa.trie (graphemeClusters {} env (sortCases ws))).Accepts (clusterOfPieces (env.segOf w)) := by
  apply Props.C16.trie_accepts_every_cluster {} env (sortCases ws) rfl
  exact Props.C01.clusters_cover {} env ws w h rfl rfl rfl

end Grexv.Props.C02
