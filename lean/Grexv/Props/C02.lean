import Grexv.Props.C01
import Grexv.Props.C16

import Grexv.Lemmas.Lex

/-!
# C02 — exactness by default (stage theorems)

The full statement "language of the output = set of test cases" is false of the code as it stands
(known finding D1).  Proved for all inputs: the set of test cases survives S1 exactly (nothing
added, nothing lost), each survives S2 as text, and the trie accepts each of them (S5 soundness).
Exactness of S5–S9 is carried by the symbolic oracle and the exact-output correspondence.
-/
set_option linter.unusedSimpArgs false
set_option linter.unusedVariables false
namespace Grexv.Props.C02
open Grexv

/-- **S1 is exact** the stored list has exactly the given test cases as members -/
theorem s1_exact (ws : List Str) (w : Str) : w ∈ sortCases ws ↔ w ∈ ws := Props.C10.sortCases_mem ws w

/-- with default settings no class or repetition conversion runs: the clusters are those of S2 -/
theorem default_clusters (env : Env) (ws : List Str) :
    graphemeClusters {} env ws = ws.map fun w => clusterOfPieces (env.segOf w) := rfl

/-- **S1+S2+S5** with default settings every given test case has an accepting path in the trie -/
theorem default_trie_accepts (env : Env) (ws : List Str) (w : Str) (h : w ∈ ws) :
    (Dfa.trie (graphemeClusters {} env (sortCases ws))).Accepts (clusterOfPieces (env.segOf w)) := by
  apply Props.C16.trie_accepts_every_cluster {} env (sortCases ws) rfl
  exact Props.C01.clusters_cover {} env ws w h rfl rfl rfl

/-- **S1+S2+S5 exact** with default settings the trie accepts a label sequence iff it is the cluster of one of
the given test cases: nothing else gets in (S5 exactness composed with S1 exactness) -/
theorem default_trie_exact (env : Env) (ws : List Str) (w : List Grapheme) :
    (Dfa.trie (graphemeClusters {} env (sortCases ws))).Accepts w ↔
      ∃ t ∈ ws, w = clusterOfPieces (env.segOf t) := by
  rw [Props.C16.trie_language_exact {} env (sortCases ws) rfl w, default_clusters]
  simp only [List.mem_map]
  constructor
  · rintro ⟨t, ht, rfl⟩; exact ⟨t, (s1_exact ws t).mp ht, rfl⟩
  · rintro ⟨t, ht, rfl⟩; exact ⟨t, (s1_exact ws t).mpr ht, rfl⟩

/-- **literal level (literals)** for every code point, what the literal printer writes is read back by the
parser as that code point (generated `CHARS_TO_ESCAPE`) -/
theorem literal_lexes (c : Nat) : Lex.parsesAsChar (escapeSymbols [c]) c = true := Lex.literal_lexes c

/-- **literal level (class members)** every ASCII member of a character class, in first or in later position, is
written (generated `chars_to_escape` of `format_character_class`) so that the parser reads exactly
that member: `^` cannot negate, `]` cannot close, `-` cannot form a range, `\` cannot escape -/
theorem class_member_lexes (c : Nat) (h : c < 128) :
    Lex.parsesAsClass (escapeClassChar c) [.range c c] = true ∧
    Lex.parsesAsClass (97 :: escapeClassChar c) [.range 97 97, .range c c] = true :=
  ⟨List.all_eq_true.mp Lex.class_member_ascii_first c (List.mem_range.mpr h),
   List.all_eq_true.mp Lex.class_member_ascii_later c (List.mem_range.mpr h)⟩

end Grexv.Props.C02
