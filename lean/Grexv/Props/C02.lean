import Grexv.Props.C01
import Grexv.Props.C16

import Grexv.Lemmas.Lex
import Grexv.Lemmas.DefaultExact

/-!
# C02 — exactness by default (stage theorems)

The full statement "language of the output = set of test cases" is false of the code as it stands
(known finding D1).  `default_exact` is the property as a theorem about the model, end to end, with that
finding stated exactly: with default settings (optionally capturing groups) the returned text is accepted
by the regex parser, and the compiled pattern matches a string in full iff the string is one of the test
cases and is not empty.  Stages: S1 exact, S2 (segmentation is a parameter with a stated contract), S5
exact, S6 (Hopcroft invariant, termination), S7 (elimination with `union`/`concatenate`), S8/S9 (print →
parse over the model of regex-syntax), matching (model of leftmost-first search on the emitted fragment).
-/
set_option linter.unusedSimpArgs false
set_option linter.unusedVariables false
namespace Grexv.Props.C02
open Grexv

/-- **S1 is exact** the stored list has exactly the given test cases as members -/
theorem s1_exact (ws : List Str) (w : Str) : w ∈ sortCases ws ↔ w ∈ ws := Props.C10.sortCases_mem ws w

/-- with default settings no class or repetition conversion runs: the clusters are those of S2 -/
theorem default_clusters (env : Env) (ws : List Str) :
    graphemeClusters {} env ws = ws.map fun w => clusterOfPieces (env.segOf w) := rfl

/-- **S1+S2+S5** with default settings every given test case has an accepting path in the trie -/
theorem default_trie_accepts (env : Env) (ws : List Str) (w : Str) (h : w ∈ ws) :
    (Dfa.trie (graphemeClusters {} env (sortCases ws))).Accepts (clusterOfPieces (env.segOf w)) := by
  apply Props.C16.trie_accepts_every_cluster {} env (sortCases ws) rfl
  exact Props.C01.clusters_cover {} env ws w h rfl rfl rfl

/-- **S1+S2+S5 exact** with default settings the trie accepts a label sequence iff it is the cluster of one of
the given test cases: nothing else gets in (S5 exactness composed with S1 exactness) -/
theorem default_trie_exact (env : Env) (ws : List Str) (w : List Grapheme) :
    (Dfa.trie (graphemeClusters {} env (sortCases ws))).Accepts w ↔
      ∃ t ∈ ws, w = clusterOfPieces (env.segOf t) := by
  rw [Props.C16.trie_language_exact {} env (sortCases ws) rfl w, default_clusters]
  simp only [List.mem_map]
  constructor
  · rintro ⟨t, ht, rfl⟩; exact ⟨t, (s1_exact ws t).mp ht, rfl⟩
  · rintro ⟨t, ht, rfl⟩; exact ⟨t, (s1_exact ws t).mpr ht, rfl⟩

/-- **literal level (literals)** for every code point, what the literal printer writes is read back by the
parser as that code point (generated `CHARS_TO_ESCAPE`) -/
theorem literal_lexes (c : Nat) : Lex.parsesAsChar (escapeSymbols [c]) c = true := Lex.literal_lexes c

/-- **literal level (class members)** every ASCII member of a character class, in first or in later position, is
written (generated `chars_to_escape` of `format_character_class`) so that the parser reads exactly
that member: `^` cannot negate, `]` cannot close, `-` cannot form a range, `\` cannot escape -/
theorem class_member_lexes (c : Nat) (h : c < 128) :
    Lex.parsesAsClass (escapeClassChar c) [.range c c] = true ∧
    Lex.parsesAsClass (97 :: escapeClassChar c) [.range 97 97, .range c c] = true :=
  ⟨List.all_eq_true.mp Lex.class_member_ascii_first c (List.mem_range.mpr h),
   List.all_eq_true.mp Lex.class_member_ascii_later c (List.mem_range.mpr h)⟩

/-! ## the property, end to end -/

theorem plainBs_flat_ne (w : Word) (h : PlainBs w) (hne : w ≠ []) : flat w ≠ [] := by
  cases w with
  | nil => exact absurd rfl hne
  | cons g gs =>
    obtain ⟨s, hs, _, _, rfl⟩ := h _ List.mem_cons_self
    simp only [flat, List.flatMap_cons, value_ofStr]
    intro hc
    exact hs (List.append_eq_nil_iff.mp hc).1

/-- **C02 for the model, all inputs** with default settings (and with or without capturing groups), for every
non-empty list of test cases of which at least one is not the empty string, every segmentation meeting its
contract, and every string `s` of scalar values: `RegExp::from` succeeds, the text `Display for RegExp`
writes is accepted by `Regex::new`, and the compiled pattern matches `s` in full **iff `s` is one of the
test cases and `s ≠ ""`** — nothing else is accepted, and exactly the empty test case is lost (known finding D1) -/
theorem default_exact (cap : Bool) (env : Env) (ws : List Str) (st : Stages)
    (h : regExpFrom (cfgPlain cap) env ws = .ok st) (hseg : ∀ w ∈ ws, SegOK env w) (hne : ∃ t ∈ ws, t ≠ [])
    (s : Str) (hs : ∀ c ∈ s, Scalar c) :
    ∃ P, Spec.parse (fmtRegExp (cfgPlain cap) st.finalAst) = some (⟨false, false⟩, P) ∧
      (Spec.fullMatch false P s = true ↔ (s ∈ ws ∧ s ≠ [])) := by
  -- the stages of this run
  have hci : (cfgPlain cap).ci = false := rfl
  have hanch : ((cfgPlain cap).noStart && (cfgPlain cap).noEnd) = false := rfl
  simp only [regExpFrom, hci, hanch, Bool.false_eq_true, ite_false] at h
  have hseg' : ∀ w ∈ sortCases ws, SegOK env w := fun w hw => hseg w ((s1_exact ws w).mp hw)
  obtain ⟨hcl, hpl⟩ := clusters_plainBs cap env (sortCases ws) hseg'
  generalize hcls : graphemeClusters (cfgPlain cap) env (sortCases ws) = cls at h hcl
  have hclP : ∀ cl ∈ cls, PlainBs cl := by
    intro cl hc
    rw [hcl] at hc
    obtain ⟨w, hw, rfl⟩ := List.mem_map.mp hc
    exact (hpl w hw).1
  have hsimple : ∀ cl ∈ cls, ∀ g ∈ cl, g.Simple := by
    intro cl hc g hg
    obtain ⟨x, _, _, _, rfl⟩ := hclP cl hc g hg
    exact ofStr_simple x
  obtain ⟨m, hm, hacc, hlab, hdfs, hN, hacyc⟩ := Grexv.min_struct cls hsimple (fun g => PlainBs [g])
    (fun cl hc g hg => by
      intro g' hg'
      simp only [List.mem_singleton] at hg'
      subst hg'
      exact hclP cl hc g' hg)
  rw [hm] at h
  simp only [] at h
  injection h with h
  subst h
  simp only []
  -- the expression computed from the minimised automaton
  have hwf := ofDfa_wf cap m hlab hdfs hacyc
  have hlang := elimination_lang_acyclic (cfgPlain cap) m (labelsBs_plain m hlab) hN hdfs hacyc
  obtain ⟨t0, ht0, ht0ne⟩ := hne
  have hwitness : clusterOfPieces (env.segOf t0) ∈ cls ∧ clusterOfPieces (env.segOf t0) ≠ [] := by
    have hmem : t0 ∈ sortCases ws := (s1_exact ws t0).mpr ht0
    refine ⟨by rw [hcl]; exact List.mem_map.mpr ⟨t0, hmem, rfl⟩, ?_⟩
    intro hc
    have := (hpl t0 hmem).2
    rw [hc] at this
    exact ht0ne this.symm
  have hlangE : ∀ w : Word, (Expr.ofDfa (cfgPlain cap) m).lang w ↔ (w ∈ cls ∧ w ≠ []) := by
    intro w
    rw [ofDfa_eq]
    have hl := hlang w
    rw [← Props.C16.accepts_iff_langFrom, hacc w] at hl
    split
    · rename_i e he
      rw [he] at hl
      exact hl
    · rename_i he
      exfalso
      have := (hlang (clusterOfPieces (env.segOf t0)))
      rw [← Props.C16.accepts_iff_langFrom, hacc, he] at this
      exact this.mpr hwitness
  obtain ⟨P, hparse, hmatch⟩ := printed_accepts cap _ hwf s hs
  refine ⟨P, hparse, ?_⟩
  rw [hmatch]
  simp only [Expr.strLang, hlangE]
  constructor
  · rintro ⟨w, ⟨hw, hwne⟩, rfl⟩
    rw [hcl] at hw
    obtain ⟨t, ht, rfl⟩ := List.mem_map.mp hw
    have hp := hpl t ht
    refine ⟨by rw [hp.2]; exact (s1_exact ws t).mp ht, plainBs_flat_ne _ hp.1 hwne⟩
  · rintro ⟨hsw, hsne⟩
    have hmem : s ∈ sortCases ws := (s1_exact ws s).mpr hsw
    have hp := hpl s hmem
    refine ⟨clusterOfPieces (env.segOf s), ⟨by rw [hcl]; exact List.mem_map.mpr ⟨s, hmem, rfl⟩, ?_⟩, hp.2.symm⟩
    intro hc
    rw [hc] at hp
    exact hsne hp.2.symm

/-- non-vacuity: a concrete run meets the hypotheses (one-code-point pieces): `ab | ac | ""` gives `a[bc]` -/
example :
    let env : Env := { lowerOf := id, segOf := fun w => w.map fun c => [c] }
    (match regExpFrom (cfgPlain false) env [strOf "ab", strOf "ac", []] with
      | .ok st => some st.finalAst
      | .error _ => none) = some (.cat (.lit [Grapheme.ofStr [97]]) (.cls [98, 99])) := by decide +kernel

end Grexv.Props.C02
