import Grexv.Model.Api
import Grexv.Gen.SettersWasm

/-!
# C17 — the WebAssembly binding delegates faithfully to the library

`Gen.wasmSetters` / `Gen.rsSetters` are regenerated from src/wasm.rs / src/builder.rs on every run;
the module cannot be executed in this sandbox (no wasm32 target, no JS host), so the tie is the
translator alone.  What is proved: every wasm setter has the same effect on the configuration, and
raises the same message, as the library setter of the same name — for every argument and every
configuration; empty input and zero thresholds are rejected with the library's messages before
the panicking library path is reached; `build` delegates.
-/
set_option linter.unusedSimpArgs false
set_option linter.unusedVariables false
namespace Grexv.Props.C17
open Grexv Gen

/-- arguments a JavaScript caller can pass after wasm-bindgen's `u32`/`bool` coercion -/
def ArgOk : Arg → Prop
  | .int i => 0 ≤ i
  | _ => True

/-- **C17 (setters)** same effect, same error, for every setter the wasm class has -/
theorem wasm_setter_eq (id : SetterId) (arg : Arg) (cfg : Config) (h : ArgOk arg)
    (hid : id ≠ .syntaxHighlighting) :
    applySetter wasmSetters id arg cfg = applySetter rsSetters id arg cfg := by
  cases id <;> first | (exact absurd rfl hid) | rfl

/-- every library setter except the CLI-only syntax highlighting exists in the wasm class -/
theorem wasm_setters_complete (id : SetterId) (hid : id ≠ .syntaxHighlighting) :
    (findSetter wasmSetters id).isSome = true := by
  cases id <;> first | (exact absurd rfl hid) | rfl

/-- **C17 (histories)** any sequence of setter calls leaves the same configuration -/
def runSetters (api : List Setter) : List (SetterId × Arg) → Config → Except Msg Config
  | [], cfg => .ok cfg
  | (id, a) :: rest, cfg =>
    match applySetter api id a cfg with
    | some (.ok cfg') => runSetters api rest cfg'
    | some (.error m) => .error m
    | none => runSetters api rest cfg

theorem wasm_history_eq (ops : List (SetterId × Arg)) (cfg : Config)
    (h : ∀ op ∈ ops, ArgOk op.2 ∧ op.1 ≠ .syntaxHighlighting) :
    runSetters wasmSetters ops cfg = runSetters rsSetters ops cfg := by
  induction ops generalizing cfg with
  | nil => rfl
  | cons op rest ih =>
    obtain ⟨id, a⟩ := op
    have h1 := h (id, a) (List.mem_cons_self)
    simp only [runSetters, wasm_setter_eq id a cfg h1.1 h1.2]
    have ih' := fun cfg' => ih cfg' (fun op hop => h op (List.mem_cons_of_mem _ hop))
    cases applySetter rsSetters id a cfg with
    | none => exact ih' cfg
    | some r => cases r with
      | ok c => exact ih' c
      | error m => rfl

/-- **C17 (errors)** zero thresholds give the library's two messages and leave no panic path -/
theorem wasm_zero_min_rep (cfg : Config) :
    applySetter wasmSetters .minRepetitions (.int 0) cfg = some (.error .minRep) := rfl
theorem wasm_zero_min_len (cfg : Config) :
    applySetter wasmSetters .minSubstringLength (.int 0) cfg = some (.error .minLen) := rfl
theorem wasm_positive_threshold (cfg : Config) (n : Nat) (h : 0 < n) :
    applySetter wasmSetters .minRepetitions (.int n) cfg = some (.ok { cfg with minRep := n }) := by
  have hn : n ≠ 0 := by omega
  simp [applySetter, findSetter, wasmSetters, runBody, runStmt, hn, Config.setNat]

/-- the empty array is rejected with the library's message before `Builder::from` (which would
panic = trap) is called, and `build` is `self.builder.build()` — both read off the source -/
theorem wasm_from_and_build : wasmFromRejectsEmptyBeforeLibrary = true ∧ wasmBuildDelegates = true := ⟨rfl, rfl⟩

/-- **C17, assembled**: for every non-empty array of strings and every sequence of setter calls of the wasm class (numbers as a JavaScript
caller can pass them after the `u32` coercion) that does not throw, the library accepts the same calls with the same resulting settings;
`build` hands the work to the library's `build()` without touching the result (generated fact), so the returned pattern is the library's
for those settings — and a sequence that throws does so at the same call with the library's message (`wasm_history_eq` is an equation of
the two runs, errors included) -/
theorem wasm_class_faithful (ops : List (SetterId × Arg)) (cfg : Config)
    (hops : ∀ op ∈ ops, ArgOk op.2 ∧ op.1 ≠ .syntaxHighlighting) (hset : runSetters wasmSetters ops {} = .ok cfg) :
    runSetters rsSetters ops {} = .ok cfg ∧ wasmBuildDelegates = true :=
  ⟨by rw [← wasm_history_eq ops {} hops]; exact hset, rfl⟩

/-! non-vacuity -/
example : applySetter wasmSetters .escaping (.bool true) {} = some (.ok { esc := true, sur := true }) := rfl
example : ArgOk (.int 3) ∧ SetterId.noAnchors ≠ .syntaxHighlighting := ⟨by simp [ArgOk], by decide⟩

end Grexv.Props.C17
