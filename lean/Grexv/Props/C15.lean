import Grexv.Gen.GraphemeSites
import Grexv.Lemmas.ColorStrip2
import Grexv.Lemmas.ColorVerbose

/-!
# C15 — syntax highlighting only adds colour codes

`Gen.col*` are the SGR parameters generated from src/component.rs.  `stripColor` is the model of
the stripping regex `ESC \[ (?: \d+;\d+ | 0 ) m` that the code itself uses (in `convert_expr_to_regex` and in
`indent_regexp`); the harness strips with its own independent stripper.

Whole pattern (`strip_colored`): for every expression and every combination of the other settings except
verbose mode, stripping the highlighted text gives exactly the text without highlighting.  Verbose mode
(indentation computed from the stripped lines) is compared per input.
-/
set_option linter.unusedSimpArgs false
set_option linter.unusedVariables false
namespace Grexv.Props.C15
open Grexv ColorBasic

/-- every colour the printer can emit is a two-parameter SGR sequence: exactly what the stripping
regex (and any SGR stripper) removes -/
theorem codes_shape : genCodes.all sgrShape = true := ColorBasic.codes_shape

/-- without highlighting a component is its plain text -/
theorem paint_plain (code text : Str) : paint false code text = text := rfl

/-- with highlighting it is the text between one opening code and the reset code -/
theorem paint_colored (code text : Str) :
    paint true code text = [27, 91] ++ code ++ [109] ++ text ++ [27, 91, 48, 109] := rfl

/-- **C15 (reset code)** the stripper removes `ESC[0m` -/
theorem strip_reset (fuel : Nat) (s : Str) : stripColor (fuel + 1) (27 :: 91 :: 48 :: 109 :: s) = stripColor fuel s :=
  ColorBasic.strip_reset fuel s

/-- **C15 (opening codes)** the stripper removes the opening sequence of every generated colour -/
theorem strip_open (fuel : Nat) (s : Str) (code : Str) (h : code ∈ genCodes) :
    stripColor (fuel + 1) ([27, 91] ++ code ++ 109 :: s) = stripColor fuel s := ColorBasic.strip_open fuel s code h

/-- text that is not an escape character is kept -/
theorem strip_other (fuel c : Nat) (s : Str) (h : c ≠ 27) : stripColor (fuel + 1) (c :: s) = c :: stripColor fuel s :=
  ColorBasic.strip_other fuel c s h

/-- `[` is among the characters the literal printer escapes (generated `CHARS_TO_ESCAPE`) and among
those the class printer escapes, so text can never complete `ESC [` on its own -/
theorem bracket_always_escaped : Gen.charsToEscape.contains 91 = true ∧ Gen.classEscapeChars.contains 91 = true := by decide

/-- the relation between highlighted and plain text that the printer maintains: the highlighted text is the plain
text with some stretches painted — put between an opening SGR sequence and the reset; a painted stretch is not empty and
contains no line break — and no `ESC` of the plain text is directly followed by `[` -/
theorem stripping_removes_inserted_codes {C T : Str} (h : Col C T) (fuel : Nat) (hf : C.length ≤ fuel) :
    stripColor fuel C = T := h.strip fuel hf

/-- every `[` a literal prints is escaped — also after `-e` escaping of the non-ASCII characters — so a literal
`ESC` in a test case can never start a sequence -/
theorem literal_brackets_escaped (cfg : Config) (s : Str) :
    Safe91 (if cfg.esc then (escapeSymbols s).flatMap (fun c => Expr.escapeChar c cfg.sur) else escapeSymbols s) :=
  escaped_chars_safe cfg s

/-- **C15 (whole pattern, every setting but verbose)** removing the SGR sequences from the highlighted output
yields exactly the output produced without highlighting: for every expression (including counted repetitions and
shorthand classes), with or without capturing groups, escaping, surrogates, case-insensitivity, either anchor -/
theorem strip_colored (cfg : Config) (hv : cfg.verb = false) (e : Expr) (fuel : Nat)
    (hf : (fmtRegExp (withColor cfg true) e).length ≤ fuel) :
    stripColor fuel (fmtRegExp (withColor cfg true) e) = fmtRegExp (withColor cfg false) e :=
  Grexv.strip_colored cfg hv e fuel hf

/-- **C15 (highlighting is invisible to `RegExp::from`)** all stages and the expression kept are the same with and
without highlighting, for every other setting including verbose mode: the self-check strips the codes first -/
theorem run_independent_of_highlighting (cfg : Config) (env : Env) (ws : List Str) :
    regExpFrom (withColor cfg true) env ws = regExpFrom (withColor cfg false) env ws := regExpFrom_color cfg env ws

/-- **C15 for the model, all inputs, every setting but verbose** the highlighted output of a run, with its SGR
sequences removed, is exactly the output of the same run without highlighting -/
theorem output_strips_to_plain (cfg : Config) (hv : cfg.verb = false) (env : Env) (ws : List Str) (stT stF : Stages)
    (hT : regExpFrom (withColor cfg true) env ws = .ok stT) (hF : regExpFrom (withColor cfg false) env ws = .ok stF) :
    stripColor ((fmtRegExp (withColor cfg true) stT.finalAst).length) (fmtRegExp (withColor cfg true) stT.finalAst) =
      fmtRegExp (withColor cfg false) stF.finalAst := by
  rw [regExpFrom_color, hF] at hT
  injection hT with hT
  subst hT
  exact Grexv.strip_colored cfg hv _ _ (Nat.le_refl _)

/-- **C15 in verbose mode (whole pattern)** for every expression and every combination of the other settings, provided that in the
verbose text without highlighting no `ESC` character is directly followed by `[` (`NoEB`; see below for what is missing): removing the SGR
sequences from the highlighted verbose text yields exactly the verbose text without highlighting — the same lines, the same indentation
(`indent_regexp` computes the nesting level from each line with the codes removed, and skips empty lines: a painted stretch is never
empty and never spans a line break, so no line consists of codes only) -/
theorem strip_colored_verbose_partial (cfg : Config) (hv : cfg.verb = true) (e : Expr)
    (h27 : NoEB (fmtRegExp (withColor cfg false) e)) (fuel : Nat)
    (hf : (fmtRegExp (withColor cfg true) e).length ≤ fuel) :
    stripColor fuel (fmtRegExp (withColor cfg true) e) = fmtRegExp (withColor cfg false) e :=
  Grexv.strip_colored_verbose cfg hv e h27 fuel hf

/-- the full statement would drop the hypothesis.  The printer does not escape U+001B, every `[` of a literal is escaped, so the hypothesis
only excludes an `ESC` of a test case that ends up directly in front of a character class (`ESC [ 0 m ]` …): there `indent_regexp` without
highlighting strips what looks like a code from its own line before computing the nesting level while the highlighted run does not, and
showing that this never changes a level needs the order of class members and the fact that a raw `(`, `)`, `^`, `$` only ever starts a
line.  Those inputs are compared per input. -/
theorem output_strips_to_plain_verbose_partial (cfg : Config) (hv : cfg.verb = true) (env : Env) (ws : List Str) (stT stF : Stages)
    (hT : regExpFrom (withColor cfg true) env ws = .ok stT) (hF : regExpFrom (withColor cfg false) env ws = .ok stF)
    (h27 : NoEB (fmtRegExp (withColor cfg false) stF.finalAst)) :
    stripColor ((fmtRegExp (withColor cfg true) stT.finalAst).length) (fmtRegExp (withColor cfg true) stT.finalAst) =
      fmtRegExp (withColor cfg false) stF.finalAst := by
  rw [regExpFrom_color, hF] at hT
  injection hT with hT
  subst hT
  exact Grexv.strip_colored_verbose cfg hv _ h27 _ (Nat.le_refl _)

/-- a text without `ESC` satisfies the hypothesis, and so does one whose `ESC` is followed by anything but `[` -/
theorem noEB_of_no27 : ∀ (t : Str), 27 ∉ t → NoEB t
  | [], _ => trivial
  | [_], _ => trivial
  | a :: b :: r, h => ⟨fun e => h (by simp [e.1]), noEB_of_no27 (b :: r) (fun e => h (List.mem_cons_of_mem _ e))⟩

example : NoEB [27, 97, 91, 48, 109] ∧ ¬ NoEB [27, 91, 48, 109] := by
  refine ⟨⟨by decide, by decide, by decide, by decide, trivial⟩, fun h => h.1 ⟨rfl, rfl⟩⟩

/-- the hypotheses are satisfiable: the verbose text of `[ab]` -/
example : ({ verb := true } : Config).verb = true ∧ NoEB (fmtRegExp (withColor { verb := true } false) (.cls [97, 98])) := by
  refine ⟨rfl, noEB_of_no27 _ ?_⟩
  simp only [fmtRegExp, bodyText, fmtExpr]
  decide +kernel

/-- the painted stretches of the printer are fixed strings, digits of a count, or shorthand-class names: none is empty, none contains
a line break -/
theorem painted_texts_ok : ∀ v ∈ Gen.charClasses, okText v = true := Comp.charClasses_ok

/-! non-vacuity: a coloured caret strips to the caret -/
example : stripColor 40 (Comp.caret true false) = [94] := by decide +kernel
example : stripColor 40 (Comp.paren false true false false [97]) = strOf "(?:a)" := by decide +kernel

/-- **one stripping pattern** (read off the source on every run): the code strips colour codes in two places — from the coloured candidate
before the self-check compiles it, and from each line before `indent_regexp` looks at it — with a regex written out twice; the model has
one function, `stripColor`, for both.  Every string literal of regexp.rs that mentions `ESC` is the pattern `stripColor` implements, and
at least one was found -/
theorem one_stripping_pattern : Gen.colorStripSites.all (fun r => r.2) = true ∧ 1 ≤ Gen.colorStripSites.length := by decide

end Grexv.Props.C15
