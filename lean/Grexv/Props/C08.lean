import Grexv.Lemmas.RunShape
import Grexv.Lemmas.SearchV
import Grexv.Model.RegExp
import Grexv.Lemmas.Lines
import Grexv.Lemmas.Presentation
import Grexv.Lemmas.EndToEnd
import Grexv.Lemmas.Search
import Grexv.Props.C03
import Grexv.Lemmas.EndToEndR

/-!
# C08 — anchor options

Text level: `^` / `$` are emitted exactly by the two anchor components.  Language level (`one_anchor_same_language`):
disabling the start anchor or the end anchor does not change which strings are matched in full — for the model, all
inputs, every subset of the class options, with or without capturing groups, `-e` and `-i`.  With both anchors disabled
`RegExp::from` runs its self-check (S10); what the search then returns is decided per input (known finding D8).
-/
set_option linter.unusedSimpArgs false
set_option linter.unusedVariables false
namespace Grexv.Props.C08
open Grexv

/-- the two replacements applied to every output (`\v`, `\f`) -/
def vtff (s : Str) : Str := replaceChar 12 Gen.strFormFeed (replaceChar 11 Gen.strVerticalTab s)

theorem vtff_append (a b : Str) : vtff (a ++ b) = vtff a ++ vtff b := by
  simp [vtff, replaceChar_append]

def flagText (cfg : Config) : Str :=
  if cfg.ci && cfg.verb then Comp.flagIX cfg.color else if cfg.ci then Comp.flagI cfg.color
  else if cfg.verb then Comp.flagX cfg.color else []

/-- **C08 (decomposition)** outside verbose mode the output is: flag prefix, the caret component iff
the start anchor is enabled, the body, the dollar component iff the end anchor is enabled — the
anchors come from nowhere else and the body is printed by a function that is not told about them -/
theorem output_decomposition (cfg : Config) (ast : Expr) (hv : cfg.verb = false) :
    fmtRegExp cfg ast =
      vtff (flagText cfg) ++ (if cfg.noStart then [] else vtff (Comp.caret cfg.color false))
        ++ vtff (bodyText cfg ast) ++ (if cfg.noEnd then [] else vtff (Comp.dollar cfg.color false)) := by
  unfold fmtRegExp
  simp only [hv, Bool.and_false, Bool.false_eq_true, ite_false]
  simp only [flagText, hv, Bool.and_false, Bool.false_eq_true, ite_false]
  cases cfg.noStart <;> cases cfg.noEnd <;> simp [vtff_append, vtff, replaceChar, List.flatMap_append]

/-- plain (uncoloured, non-verbose) anchors are the single characters `^` and `$` -/
theorem anchor_chars : vtff (Comp.caret false false) = [94] ∧ vtff (Comp.dollar false false) = [36] := by decide

/-- **C08 (start anchor present)** -/
theorem starts_with_caret (cfg : Config) (ast : Expr) (hv : cfg.verb = false) (hc : cfg.color = false)
    (hi : cfg.ci = false) (hs : cfg.noStart = false) :
    ∃ rest, fmtRegExp cfg ast = 94 :: rest := by
  rw [output_decomposition cfg ast hv]
  simp only [flagText, hv, hi, hs, hc, Bool.and_false, Bool.false_eq_true, ite_false, anchor_chars.1]
  exact ⟨_, rfl⟩

/-- **C08 (end anchor present)** -/
theorem ends_with_dollar (cfg : Config) (ast : Expr) (hv : cfg.verb = false) (hc : cfg.color = false)
    (he : cfg.noEnd = false) :
    ∃ init, fmtRegExp cfg ast = init ++ [36] := by
  rw [output_decomposition cfg ast hv]
  simp only [he, hc, Bool.false_eq_true, ite_false]
  rw [anchor_chars.2]
  exact ⟨_, rfl⟩

/-- the self-check (both anchors off) never runs when an anchor is kept -/
theorem no_selfcheck_when_anchored (cfg : Config) (env : Env) (ws : List Str) (st : Stages)
    (h : ¬ (cfg.noStart = true ∧ cfg.noEnd = true)) (hst : regExpFrom cfg env ws = .ok st) :
    st.finalAst = st.firstAst ∧ st.trace = [] := by
  unfold regExpFrom at hst
  simp only [] at hst
  have hb : (cfg.noStart && cfg.noEnd) = false := by
    cases h1 : cfg.noStart <;> cases h2 : cfg.noEnd <;> simp_all
  split at hst
  · simp at hst
  · simp [hb] at hst
    subst hst
    exact ⟨rfl, rfl⟩

/-- **C08 (the body does not depend on the anchors)** for two configurations that differ only in the anchor
switches, every stage up to the expression obtained from the minimised automaton is identical, and
the printer — which is never told about the anchors — prints the same body text for it.  Whenever the
self-check does not replace that expression (in particular whenever an anchor is kept on both sides),
the two outputs therefore differ by the anchor components alone -/
theorem body_independent_of_anchors {c1 c2 : Config} (h : SameButAnchors c1 c2) (env : Env) (ws : List Str)
    (st1 st2 : Stages) (h1 : regExpFrom c1 env ws = .ok st1) (h2 : regExpFrom c2 env ws = .ok st2) :
    st1.firstAst = st2.firstAst ∧ bodyText c1 st1.firstAst = bodyText c2 st2.firstAst := by
  obtain ⟨_, _, _, _, hast⟩ := firstAst_anchor_independent h env ws st1 st2 h1 h2
  exact ⟨hast, by rw [hast]; exact bodyText_congr h.print _⟩

/-- with an anchor kept on both sides the *final* expressions coincide too -/
theorem final_body_same_when_anchored {c1 c2 : Config} (h : SameButAnchors c1 c2) (env : Env) (ws : List Str)
    (st1 st2 : Stages) (h1 : regExpFrom c1 env ws = .ok st1) (h2 : regExpFrom c2 env ws = .ok st2)
    (a1 : ¬ (c1.noStart = true ∧ c1.noEnd = true)) (a2 : ¬ (c2.noStart = true ∧ c2.noEnd = true)) :
    bodyText c1 st1.finalAst = bodyText c2 st2.finalAst := by
  rw [(no_selfcheck_when_anchored c1 env ws st1 a1 h1).1, (no_selfcheck_when_anchored c2 env ws st2 a2 h2).1]
  exact (body_independent_of_anchors h env ws st1 st2 h1 h2).2

/-- non-vacuity: two such configurations -/
example : SameButAnchors { noStart := true, verb := true } { noEnd := true, verb := true } := by
  simp [SameButAnchors]

/-- **C08 (language level) for the model, all inputs** the pattern printed with one anchor disabled is accepted by the
model of `Regex::new` (the body can never be mistaken for a flag group: `Expr.safe`) and matches in full exactly the
strings the fully anchored pattern matches.  Restrictions (`PlainPrintCI`): every subset of the class options, capturing groups, `-e`
and `-i` are free; no `-r` (there: `C05.repetitions_language_exact`, whose right-hand side does not mention the anchors), no verbose mode
(`C06.verbose_same_language` carries it over), no colour, no surrogate-pair conversion -/
theorem one_anchor_same_language (cfg : Config) (hp : PlainPrintCI cfg) (ns ne : Bool) (hns : (ns && ne) = false)
    (env : Env) (ws : List Str) (stA st0 : Stages)
    (hA : regExpFrom (withAnchors cfg ns ne) env ws = .ok stA) (h0 : regExpFrom (withAnchors cfg false false) env ws = .ok st0)
    (hseg : ∀ w ∈ storedCases cfg env ws, SegOK env w) (hne : ∃ t ∈ storedCases cfg env ws, t ≠ [])
    (s : Str) (hs : ∀ c ∈ s, Scalar c) :
    ∃ PA P0, Spec.parse (fmtRegExp (withAnchors cfg ns ne) stA.finalAst) = some (⟨cfg.ci, false⟩, PA) ∧
      Spec.parse (fmtRegExp (withAnchors cfg false false) st0.finalAst) = some (⟨cfg.ci, false⟩, P0) ∧
      Spec.fullMatch cfg.ci PA s = Spec.fullMatch cfg.ci P0 s :=
  anchors_same_language cfg hp ns ne hns env ws stA st0 hA h0 hseg hne s hs

/-- **C08 (language level, every anchor setting, all inputs)** also with both anchors disabled — where `RegExp::from`
compiles its first candidate, checks it against the test cases and may fall back to the expression of the unminimised trie
or to the plain alternation — the returned text is accepted by the model of `Regex::new`, matches in full nothing but
(generalised) test cases, and matches every non-empty one -/
theorem any_anchor_bounds (cfg : Config) (hp : PlainPrintNA cfg) (env : Env) (ws : List Str) (st : Stages)
    (h : regExpFrom cfg env ws = .ok st) (hseg : ∀ w ∈ storedCases cfg env ws, SegOK env w)
    (hne : ∃ t ∈ storedCases cfg env ws, t ≠ []) (s : Str) (hs : ∀ c ∈ s, Scalar c) :
    ∃ P, Spec.parse (fmtRegExp cfg st.finalAst) = some (⟨cfg.ci, false⟩, P) ∧
      (Spec.fullMatch cfg.ci P s = true → ∃ t ∈ storedCases cfg env ws, atomsDen cfg.ci (t.map (convAtom cfg)) s) ∧
      (∀ t ∈ storedCases cfg env ws, t ≠ [] → atomsDen cfg.ci (t.map (convAtom cfg)) s →
        Spec.fullMatch cfg.ci P s = true) :=
  classes_bounds_any_anchor cfg hp env ws st h hseg hne s hs

/-- the text between the anchors is read by the regex parser as the same items whatever anchors surround it -/
theorem printed_items_independent_of_anchors (cap esc ns ne : Bool) (e : Expr) (hwf : e.WF) :
    Spec.parse (fmtRegExp (cfgAnch cap esc ns ne) e) =
      some (⟨false, false⟩, Spec.catList (preA ns ++ (topItems cap esc e ++ postA ne))) :=
  parse_printedA cap esc ns ne e hwf

/-- **C08, the search half, where it is a theorem** (start anchor disabled, end anchor in place; every subset of the class options,
with or without capturing groups and `-e`, case-sensitive): for every non-empty test case `t`, `Regex::find` — leftmost start, first
alternative in priority order — on `t` returns the whole of `t`: with `$` in place every match that starts at offset 0 ends at the end.
(With the end anchor disabled the statement is false: known finding D8.) -/
theorem search_spans_with_end_anchor (cfg : Config) (hp : PlainPrintCI cfg) (hci : cfg.ci = false)
    (hns : cfg.noStart = true) (hne' : cfg.noEnd = false) (env : Env) (ws : List Str) (st : Stages)
    (h : regExpFrom cfg env ws = .ok st) (hseg : ∀ w ∈ ws, SegOK env w) (t : Str) (ht : t ∈ ws) (hne : t ≠ []) :
    ∃ P, Spec.parse (fmtRegExp cfg st.finalAst) = some (⟨false, false⟩, P) ∧ Spec.find false P t = some (0, t.length) := by
  have hsc : ∀ c ∈ t, Scalar c := by
    obtain ⟨h1, h2⟩ := hseg t ht
    intro c hc
    rw [← h2] at hc
    obtain ⟨p, hp', hcp⟩ := List.mem_flatten.mp hc
    exact (h1 p hp').2 c hcp
  have hst : storedCases cfg env ws = ws := by simp [storedCases, hci]
  obtain ⟨hwf, hlang⟩ := final_expr_exact cfg hp.rep hp.anch env ws st h (by rw [hst]; exact hseg) (by rw [hst]; exact ⟨t, ht, hne⟩)
  have hself : st.finalAst.strLang false t := by
    apply (hlang false t).mpr
    rw [hst]
    refine ⟨t, ht, hne, ?_⟩
    have : ∀ u : Str, u.map (convAtom cfg) = u.map (Props.C03.docAtom cfg) :=
      fun u => List.map_congr_left (fun c _ => Props.C03.convAtom_documented cfg c)
    rw [this]
    exact Props.C03.generalises_self cfg t
  have := printed_find_eol false cfg.cap cfg.esc st.finalAst hwf t hsc hself
  rw [fmtRegExp_plainCI_eq cfg hp, hci, hns, hne']
  exact this

/-- **C08, the search half, with `-r`** (`RepPrint`: `-r`, any class options, plain printing; start anchor disabled, end anchor in place;
case-sensitive here): the returned text is accepted and `Regex::find` returns every non-empty test case whole.  (That the full-match
language does not depend on which single anchor is disabled is `C05.repetitions_language_exact`, whose right-hand side does not mention
the anchors.) -/
theorem search_spans_with_end_anchor_repetitions (cfg : Config) (hp : RepPrint cfg) (hci : cfg.ci = false)
    (hns : cfg.noStart = true) (hne' : cfg.noEnd = false)
    (env : Env) (ws : List Str) (st : Stages)
    (h : regExpFrom cfg env ws = .ok st) (hseg : ∀ w ∈ ws, SegOK env w)
    (hlen : ∀ w ∈ ws, (clusterOfPieces (env.segOf w)).length ≤ 1000)
    (t : Str) (ht : t ∈ ws) (hne : t ≠ []) :
    ∃ P, Spec.parse (fmtRegExp cfg st.finalAst) = some (⟨false, false⟩, P) ∧ Spec.find false P t = some (0, t.length) := by
  have hlen : ∀ w ∈ ws, (subPieces (env.segOf w)).length ≤ 1000 := fun w hw => by
    have := hlen w hw; rwa [clusterOfPieces_eq, List.length_map] at this
  have hsc : ∀ c ∈ t, Scalar c := by
    obtain ⟨h1, h2⟩ := hseg t ht
    intro c hc
    rw [← h2] at hc
    obtain ⟨p, hp, hcp⟩ := List.mem_flatten.mp hc
    exact (h1 p hp).2 c hcp
  have hst : storedCases cfg env ws = ws := by simp [storedCases, hci]
  have := rep_find_eol cfg hp hns hne' env ws st h (by rw [hst]; exact hseg) (by rw [hst]; exact hlen) t (by rw [hst]; exact ht) hne t hsc
  rw [hci] at this
  apply this
  have : ∀ u : Str, u.map (convAtom cfg) = u.map (Props.C03.docAtom cfg) :=
    fun u => List.map_congr_left (fun c _ => Props.C03.convAtom_documented cfg c)
  rw [this]
  exact Props.C03.generalises_self cfg t

/-- the same under `-i`: `Regex::find` returns every string that a non-empty stored (lower-cased) test case denotes atom by atom —
in particular the original test case (`C04.stored_matches_original`) — whole -/
theorem search_spans_with_end_anchor_repetitions_ci (cfg : Config) (hp : RepPrint cfg)
    (hns : cfg.noStart = true) (hne' : cfg.noEnd = false)
    (env : Env) (ws : List Str) (st : Stages)
    (h : regExpFrom cfg env ws = .ok st) (hseg : ∀ w ∈ storedCases cfg env ws, SegOK env w)
    (hlen : ∀ w ∈ storedCases cfg env ws, (clusterOfPieces (env.segOf w)).length ≤ 1000)
    (t : Str) (ht : t ∈ storedCases cfg env ws) (hne : t ≠ []) (s : Str) (hsc : ∀ c ∈ s, Scalar c)
    (hs : atomsDen cfg.ci (t.map (Props.C03.docAtom cfg)) s) :
    ∃ P, Spec.parse (fmtRegExp cfg st.finalAst) = some (⟨cfg.ci, false⟩, P) ∧ Spec.find cfg.ci P s = some (0, s.length) := by
  have : ∀ u : Str, u.map (convAtom cfg) = u.map (Props.C03.docAtom cfg) :=
    fun u => List.map_congr_left (fun c _ => Props.C03.convAtom_documented cfg c)
  exact rep_find_eol cfg hp hns hne' env ws st h hseg
    (fun w hw => by have := hlen w hw; rwa [clusterOfPieces_eq, List.length_map] at this) t ht hne s hsc (by rw [this]; exact hs)

/-- **C08, the search half, in verbose mode** (start anchor disabled, end anchor in place; no `-r`; every subset of the class options,
capturing groups, `-e`; case-sensitive): `Regex::find` with the verbose pattern on every non-empty test case returns the whole test case —
the verbose text is parsed under `(?x)` to the very pattern of the non-verbose text -/
theorem search_spans_with_end_anchor_verbose (cfg : Config) (hp : VerbosePrint cfg) (hci : cfg.ci = false)
    (hns : cfg.noStart = true) (hne' : cfg.noEnd = false) (env : Env) (ws : List Str) (st : Stages)
    (h : regExpFrom cfg env ws = .ok st) (hseg : ∀ w ∈ ws, SegOK env w) (t : Str) (ht : t ∈ ws) (hne : t ≠ []) :
    ∃ P, Spec.parse (fmtRegExp cfg st.finalAst) = some (⟨false, true⟩, P) ∧ Spec.find false P t = some (0, t.length) := by
  have hsc : ∀ c ∈ t, Scalar c := by
    obtain ⟨h1, h2⟩ := hseg t ht
    intro c hc
    rw [← h2] at hc
    obtain ⟨p, hp', hcp⟩ := List.mem_flatten.mp hc
    exact (h1 p hp').2 c hcp
  have hst : storedCases cfg env ws = ws := by simp [storedCases, hci]
  obtain ⟨hwf, hlang⟩ := final_expr_exact cfg hp.rep hp.anch env ws st h (by rw [hst]; exact hseg) (by rw [hst]; exact ⟨t, ht, hne⟩)
  have hself : st.finalAst.strLang false t := by
    apply (hlang false t).mpr
    rw [hst]
    refine ⟨t, ht, hne, ?_⟩
    have : ∀ u : Str, u.map (convAtom cfg) = u.map (Props.C03.docAtom cfg) :=
      fun u => List.map_congr_left (fun c _ => Props.C03.convAtom_documented cfg c)
    rw [this]
    exact Props.C03.generalises_self cfg t
  have := printed_find_eol_verbose false cfg.cap cfg.esc st.finalAst hwf t hsc hself
  rw [fmtRegExp_verbose_eq cfg hp, hci, hns, hne']
  exact this

/-- the same with `-r` (and any class options, with or without `-i`): `Regex::find` with the verbose pattern returns whole every string
that the atoms of a non-empty stored test case denote -/
theorem search_spans_with_end_anchor_repetitions_verbose (cfg : Config) (hp : RepVerbose cfg)
    (hns : cfg.noStart = true) (hne' : cfg.noEnd = false)
    (env : Env) (ws : List Str) (st : Stages)
    (h : regExpFrom cfg env ws = .ok st) (hseg : ∀ w ∈ storedCases cfg env ws, SegOK env w)
    (hlen : ∀ w ∈ storedCases cfg env ws, (clusterOfPieces (env.segOf w)).length ≤ 1000)
    (t : Str) (ht : t ∈ storedCases cfg env ws) (hne : t ≠ []) (s : Str) (hsc : ∀ c ∈ s, Scalar c)
    (hs : atomsDen cfg.ci (t.map (Props.C03.docAtom cfg)) s) :
    ∃ P, Spec.parse (fmtRegExp cfg st.finalAst) = some (⟨cfg.ci, true⟩, P) ∧ Spec.find cfg.ci P s = some (0, s.length) := by
  have : ∀ u : Str, u.map (convAtom cfg) = u.map (Props.C03.docAtom cfg) :=
    fun u => List.map_congr_left (fun c _ => Props.C03.convAtom_documented cfg c)
  exact rep_find_eol_verbose cfg hp hns hne' env ws st h hseg
    (fun w hw => by have := hlen w hw; rwa [clusterOfPieces_eq, List.length_map] at this) t ht hne s hsc (by rw [this]; exact hs)

/-! ## only the requested anchors, in the pattern the regex crate builds -/

/-- a pattern without anchors -/
def Pat.NoAnchor : Spec.Pat → Prop
  | .bol | .eol => False
  | .cat a b | .alt a b => Pat.NoAnchor a ∧ Pat.NoAnchor b
  | .rep p _ _ _ => Pat.NoAnchor p
  | .grp _ p => Pat.NoAnchor p
  | _ => True

theorem noAnchor_of_frag : ∀ (p : Spec.Pat), p.Frag → Pat.NoAnchor p
  | .eps, _ | .chr _, _ | .perl _ _, _ | .set _ _, _ => trivial
  | .bol, h | .eol, h => h.elim
  | .cat a b, h | .alt a b, h => ⟨noAnchor_of_frag a h.1, noAnchor_of_frag b h.2⟩
  | .rep p _ _ _, h => noAnchor_of_frag p h.2.2
  | .grp _ p, h => noAnchor_of_frag p h

theorem noAnchor_of_fragC : ∀ (p : Spec.Pat), p.FragC → Pat.NoAnchor p
  | .eps, _ | .chr _, _ | .perl _ _, _ | .set _ _, _ => trivial
  | .bol, h | .eol, h => h.elim
  | .cat a b, h | .alt a b, h => ⟨noAnchor_of_fragC a h.1, noAnchor_of_fragC b h.2⟩
  | .rep p _ _ _, h => noAnchor_of_fragC p h.1
  | .grp _ p, h => noAnchor_of_fragC p h

/-- **C08 (only the requested anchors, pattern level)** for every well-formed expression, printed plainly or in verbose mode, with any
anchor switches (capturing groups, `-e`, `-i` free): the pattern the regex crate builds is the concatenation of `^` iff the start anchor
is enabled, items that contain no anchor at all, and `$` iff the end anchor is enabled -/
theorem anchors_only_where_requested (cap esc i ns ne : Bool) (e : Expr) (hwf : e.WF) :
    ∃ its, (∀ p ∈ its, Pat.NoAnchor p) ∧
      Spec.parse (ciPrefix i ++ fmtRegExp (cfgAnch cap esc ns ne) e) = some (⟨i, false⟩, Spec.catList (preA ns ++ (its ++ postA ne))) ∧
      Spec.parse (fmtRegExp (cfgVerb cap esc i ns ne) e) = some (⟨i, true⟩, Spec.catList (preA ns ++ (its ++ postA ne))) := by
  refine ⟨topItems cap esc e, ?_, parse_ci_prefixG _ _ (flags_printedA cap esc ns ne e hwf) (parse_printedA cap esc ns ne e hwf) i,
    parse_verbose cap esc i ns ne e hwf⟩
  intro p hp
  have hb := Expr.both_frag cap esc e
  unfold topItems at hp
  split at hp
  · simp only [List.mem_singleton] at hp; subst hp; exact noAnchor_of_frag _ hb.2
  · exact noAnchor_of_frag p (hb.1 p hp)

/-- the same for expressions with counted graphemes (`-r`) -/
theorem anchors_only_where_requested_repetitions (cap esc i ns ne : Bool) (e : Expr) (hwf : e.WFR) :
    ∃ its, (∀ p ∈ its, Pat.NoAnchor p) ∧
      Spec.parse (ciPrefix i ++ fmtRegExp (cfgAnch cap esc ns ne) e) = some (⟨i, false⟩, Spec.catList (preA ns ++ (its ++ postA ne))) ∧
      Spec.parse (fmtRegExp (cfgVerb cap esc i ns ne) e) = some (⟨i, true⟩, Spec.catList (preA ns ++ (its ++ postA ne))) := by
  refine ⟨topItemsR cap esc e, ?_, parse_ci_prefixG _ _ (flags_printedAR cap esc ns ne e hwf) (parse_printedAR cap esc ns ne e hwf) i,
    parse_verboseR cap esc i ns ne e hwf⟩
  intro p hp
  have hb := Expr.bothR_fragC cap esc e hwf
  unfold topItemsR at hp
  split at hp
  · simp only [List.mem_singleton] at hp; subst hp; exact noAnchor_of_fragC _ hb.2
  · exact noAnchor_of_fragC p (hb.1 p hp)

theorem noAnchor_topItems (cap esc : Bool) (e : Expr) : ∀ p ∈ topItems cap esc e, Pat.NoAnchor p := by
  intro p hp
  have hb := Expr.both_frag cap esc e
  unfold topItems at hp
  split at hp
  · simp only [List.mem_singleton] at hp; subst hp; exact noAnchor_of_frag _ hb.2
  · exact noAnchor_of_frag p (hb.1 p hp)

theorem noAnchor_topItemsR (cap esc : Bool) (e : Expr) (hwf : e.WFR) : ∀ p ∈ topItemsR cap esc e, Pat.NoAnchor p := by
  intro p hp
  have hb := Expr.bothR_fragC cap esc e hwf
  unfold topItemsR at hp
  split at hp
  · simp only [List.mem_singleton] at hp; subst hp; exact noAnchor_of_fragC _ hb.2
  · exact noAnchor_of_fragC p (hb.1 p hp)

/-- **C08 (only the requested anchors), on a run, all inputs**: in each of the four printing modes — plain or verbose, without or with
repetition conversion; every subset of the class options, `-i`, capturing groups, `-e`, any anchors — the pattern the regex crate builds
from what `build()` returns is `^` iff the start anchor is enabled, items without any anchor, `$` iff the end anchor is enabled -/
theorem run_anchors_only_where_requested (cfg : Config) (env : Env) (ws : List Str) (st : Stages)
    (h : regExpFrom cfg env ws = .ok st) (hseg : ∀ w ∈ storedCases cfg env ws, SegOK env w)
    (hlen : ∀ w ∈ storedCases cfg env ws, (clusterOfPieces (env.segOf w)).length ≤ 1000) (hws : ws ≠ [])
    (hmode : PlainPrintNA cfg ∨ VerbosePrintNA cfg ∨ RepPrintNA cfg ∨ RepVerbose cfg) :
    ∃ its, (∀ p ∈ its, Pat.NoAnchor p) ∧
      Spec.parse (fmtRegExp cfg st.finalAst) = some (⟨cfg.ci, cfg.verb⟩, Spec.catList (preA cfg.noStart ++ (its ++ postA cfg.noEnd))) := by
  have hlen' : ∀ w ∈ storedCases cfg env ws, (subPieces (env.segOf w)).length ≤ 1000 := fun w hw => by
    have := hlen w hw; rwa [clusterOfPieces_eq, List.length_map] at this
  rcases hmode with hp | hp | hp | hp
  · obtain ⟨_, hparse⟩ := run_shape_plain cfg hp env ws st h hseg hws
    exact ⟨_, noAnchor_topItems _ _ _, by rw [hparse, hp.verb]⟩
  · obtain ⟨_, hparse⟩ := run_shape_verbose cfg hp env ws st h hseg hws
    exact ⟨_, noAnchor_topItems _ _ _, by rw [hparse, hp.verb]⟩
  · obtain ⟨hwfs, hparse⟩ := run_shape_rep cfg hp env ws st h hseg hlen' hws
    exact ⟨_, noAnchor_topItemsR _ _ _ (Expr.WFS.toWFR _ hwfs), by rw [hparse, hp.verb]⟩
  · obtain ⟨hwfs, hparse⟩ := run_shape_rep_verbose cfg hp env ws st h hseg hlen' hws
    exact ⟨_, noAnchor_topItemsR _ _ _ (Expr.WFS.toWFR _ hwfs), by rw [hparse, hp.verb]⟩

example : PlainPrintCI { noStart := true } := ⟨rfl, rfl, rfl, rfl, rfl⟩

end Grexv.Props.C08
