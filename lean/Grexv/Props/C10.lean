import Grexv.Model.Api
import Grexv.Lemmas.StrOrder
import Grexv.Lemmas.SortCases

/-!
# C10 — build() is a deterministic function of the test-case *set* and the accumulated settings
-/
set_option linter.unusedSimpArgs false
set_option linter.unusedVariables false
namespace Grexv.Props.C10
open Grexv Gen

/-! ## S1: sort/dedup yields one canonical list per set of test cases -/

/-- **C10 (order, duplicates)** two lists with the same set of test cases are stored as the same list -/
theorem sortCases_set (l1 l2 : List Str) (h : ∀ w, w ∈ l1 ↔ w ∈ l2) : sortCases l1 = sortCases l2 := by
  have n1 := dedupAdj_nodup_of_sorted _ (sortBy_sorted strLe strLe_total strLe_trans l1)
  have n2 := dedupAdj_nodup_of_sorted _ (sortBy_sorted strLe strLe_total strLe_trans l2)
  have hp : (dedupAdj (sortBy strLe l1)).Perm (dedupAdj (sortBy strLe l2)) := by
    apply (List.perm_ext_iff_of_nodup n1 n2).mpr
    intro a
    simp [mem_dedupAdj, mem_sortBy, h a]
  unfold sortCases
  apply List.Perm.eq_of_pairwise (le := fun a b => lenThenStrLe a b = true)
  · intro a b _ _ h1 h2; exact lenThenStrLe_antisymm a b h1 h2
  · exact sortBy_sorted _ lenThenStrLe_total lenThenStrLe_trans _
  · exact sortBy_sorted _ lenThenStrLe_total lenThenStrLe_trans _
  · exact ((sortBy_perm _ _).trans hp).trans (sortBy_perm _ _).symm

/-- sorting again changes nothing: a second `build()` sees the same stored list -/
theorem sortCases_idem (ws : List Str) : sortCases (sortCases ws) = sortCases ws :=
  sortCases_set _ _ (fun w => sortCases_mem ws w)

/-- **C10 (order, duplicates — whole build)** `RegExp::from`, hence `build()`, gives the same result
(stored list, every stage, final expression) for any two lists with the same set of test cases,
for every configuration -/
theorem regExpFrom_set (cfg : Config) (env : Env) (l1 l2 : List Str) (h : ∀ w, w ∈ l1 ↔ w ∈ l2) :
    regExpFrom cfg env l1 = regExpFrom cfg env l2 := by
  have hs : sortCases (if cfg.ci = true then lowerCases env l1 else l1)
      = sortCases (if cfg.ci = true then lowerCases env l2 else l2) := by
    apply sortCases_set
    intro w
    split
    · simp only [lowerCases, List.mem_map]
      constructor
      · rintro ⟨a, ha, rfl⟩; exact ⟨a, (h a).mp ha, rfl⟩
      · rintro ⟨a, ha, rfl⟩; exact ⟨a, (h a).mpr ha, rfl⟩
    · exact h w
  unfold regExpFrom
  simp only [hs]

theorem build_set (env : Env) (cfg : Config) (l1 l2 : List Str) (h : ∀ w, w ∈ l1 ↔ w ∈ l2) :
    (Builder.build env ⟨l1, cfg⟩).map Prod.snd = (Builder.build env ⟨l2, cfg⟩).map Prod.snd := by
  simp only [Builder.build, regExpFrom_set cfg env l1 l2 h]

/-! ## settings: the generated setters are idempotent and commute (except last-writer-wins on arguments) -/

/-- a setter without argument can be applied twice without effect -/
theorem setter_idem (id : SetterId) (cfg c1 : Config) (h : applySetter rsSetters id .none cfg = some (.ok c1)) :
    applySetter rsSetters id .none c1 = some (.ok c1) := by
  cases id <;> simp [applySetter, findSetter, rsSetters, runBody, runStmt, Config.setBool] at h ⊢ <;> subst h <;> rfl

/-- effect of an argument-less call -/
def effect (id : SetterId) (cfg : Config) : Config :=
  match applySetter rsSetters id .none cfg with
  | some (.ok c) => c
  | _ => cfg

/-- any two argument-less setter calls commute, whatever the configuration they start from -/
theorem setters_commute (a b : SetterId) (cfg : Config) : effect a (effect b cfg) = effect b (effect a cfg) := by
  cases a <;> cases b <;> rfl

/-- the two setters with an argument overwrite: the last call wins, earlier ones leave no trace -/
theorem threshold_last_wins (cfg c1 c2 : Config) (i j : Int)
    (h1 : applySetter rsSetters .minRepetitions (.int i) cfg = some (.ok c1))
    (h2 : applySetter rsSetters .minRepetitions (.int j) c1 = some (.ok c2)) :
    applySetter rsSetters .minRepetitions (.int j) cfg = some (.ok c2) := by
  have key : ∀ (k : Int) (c : Config), applySetter rsSetters .minRepetitions (.int k) c =
      some (if k = 0 then .error .minRep else .ok (c.setNat .minRep k.toNat)) := by
    intro k c
    by_cases hk : k = 0 <;> simp [applySetter, findSetter, rsSetters, runBody, runStmt, hk]
  rw [key] at h1 h2 ⊢
  by_cases hi : i = 0
  · simp [hi] at h1
  · by_cases hj : j = 0
    · simp [hj] at h2
    · simp [hi, hj, Config.setNat] at h1 h2 ⊢
      subst h1; exact h2

/-- the setter call with the argument of its own kind (the calls the type systems of the three front ends allow) -/
def call (id : SetterId) (b : Bool) (n : Int) (cfg : Config) : Option (Except Msg Config) :=
  match id with
  | .minRepetitions | .minSubstringLength => applySetter rsSetters id (.int n) cfg
  | .escaping => applySetter rsSetters id (.bool b) cfg
  | _ => applySetter rsSetters id .none cfg

/-- what a successful call does to the configuration -/
def callCfg (id : SetterId) (b : Bool) (n : Int) (cfg : Config) : Config :=
  match id with
  | .digits => { cfg with digit := true } | .nonDigits => { cfg with nonDigit := true }
  | .whitespace => { cfg with space := true } | .nonWhitespace => { cfg with nonSpace := true }
  | .words => { cfg with word := true } | .nonWords => { cfg with nonWord := true }
  | .repetitions => { cfg with rep := true } | .caseInsensitive => { cfg with ci := true }
  | .capturingGroups => { cfg with cap := true }
  | .minRepetitions => { cfg with minRep := n.toNat } | .minSubstringLength => { cfg with minLen := n.toNat }
  | .escaping => { cfg with esc := true, sur := b }
  | .verbose => { cfg with verb := true }
  | .noStartAnchor => { cfg with noStart := true } | .noEndAnchor => { cfg with noEnd := true }
  | .noAnchors => { cfg with noStart := true, noEnd := true }
  | .syntaxHighlighting => { cfg with color := true }

/-- every call of a generated setter: it fails exactly for a zero threshold, and otherwise has the effect `callCfg` -/
theorem call_ok (id : SetterId) (b : Bool) (n : Int) (cfg c : Config) (h : call id b n cfg = some (.ok c)) :
    c = callCfg id b n cfg ∧ ((id = .minRepetitions ∨ id = .minSubstringLength) → n ≠ 0) := by
  cases id
  case minRepetitions =>
    by_cases hn : n = 0
    · simp [call, applySetter, findSetter, rsSetters, runBody, runStmt, hn] at h
    · simp [call, applySetter, findSetter, rsSetters, runBody, runStmt, Config.setNat, hn] at h
      exact ⟨h.symm, fun _ => hn⟩
  case minSubstringLength =>
    by_cases hn : n = 0
    · simp [call, applySetter, findSetter, rsSetters, runBody, runStmt, hn] at h
    · simp [call, applySetter, findSetter, rsSetters, runBody, runStmt, Config.setNat, hn] at h
      exact ⟨h.symm, fun _ => hn⟩
  all_goals
    (simp [call, applySetter, findSetter, rsSetters, runBody, runStmt, Config.setBool, Config.setNat] at h
     exact ⟨h.symm, by simp⟩)

theorem call_of_ok (id : SetterId) (b : Bool) (n : Int) (cfg : Config)
    (hn : (id = .minRepetitions ∨ id = .minSubstringLength) → n ≠ 0) : call id b n cfg = some (.ok (callCfg id b n cfg)) := by
  cases id
  case minRepetitions =>
    have := hn (Or.inl rfl)
    simp [call, applySetter, findSetter, rsSetters, runBody, runStmt, Config.setNat, this, callCfg]
  case minSubstringLength =>
    have := hn (Or.inr rfl)
    simp [call, applySetter, findSetter, rsSetters, runBody, runStmt, Config.setNat, this, callCfg]
  all_goals simp [call, applySetter, findSetter, rsSetters, runBody, runStmt, Config.setBool, Config.setNat, callCfg]

theorem callCfg_commute (a b : SetterId) (hab : a ≠ b) (ba bb : Bool) (na nb : Int) (cfg : Config) :
    callCfg b bb nb (callCfg a ba na cfg) = callCfg a ba na (callCfg b bb nb cfg) := by
  cases a <;> cases b <;> first | rfl | exact absurd rfl hab

/-- **C10 (order of settings, with arguments)** any two calls of *different* setters — thresholds with any argument, the escaping switch with
either flag — commute whenever both orders succeed: the configuration after `a; b` is the configuration after `b; a` -/
theorem calls_commute (a b : SetterId) (hab : a ≠ b) (ba bb : Bool) (na nb : Int) (cfg c1 c12 c2 c21 : Config)
    (h1 : call a ba na cfg = some (.ok c1)) (h12 : call b bb nb c1 = some (.ok c12))
    (h2 : call b bb nb cfg = some (.ok c2)) (h21 : call a ba na c2 = some (.ok c21)) : c12 = c21 := by
  rw [(call_ok _ _ _ _ _ h12).1, (call_ok _ _ _ _ _ h1).1, (call_ok _ _ _ _ _ h21).1, (call_ok _ _ _ _ _ h2).1]
  exact callCfg_commute a b hab ba bb na nb cfg

/-- and when one order succeeds so does the other: success only depends on the call's own argument -/
theorem calls_commute_success (a b : SetterId) (ba bb : Bool) (na nb : Int) (cfg c1 c12 : Config)
    (h1 : call a ba na cfg = some (.ok c1)) (h12 : call b bb nb c1 = some (.ok c12)) :
    ∃ c2 c21, call b bb nb cfg = some (.ok c2) ∧ call a ba na c2 = some (.ok c21) :=
  ⟨_, _, call_of_ok b bb nb cfg (call_ok _ _ _ _ _ h12).2, call_of_ok a ba na _ (call_ok _ _ _ _ _ h1).2⟩

/-- **C10 (the last call wins)** for every setter — the three with an argument included — calling it twice leaves the configuration the second
call alone would have produced -/
theorem last_call_wins (a : SetterId) (b1 b2 : Bool) (n1 n2 : Int) (cfg c1 c2 : Config)
    (h1 : call a b1 n1 cfg = some (.ok c1)) (h2 : call a b2 n2 c1 = some (.ok c2)) :
    call a b2 n2 cfg = some (.ok c2) := by
  rw [(call_ok _ _ _ _ _ h2).1, (call_ok _ _ _ _ _ h1).1, call_of_ok a b2 n2 cfg (call_ok _ _ _ _ _ h2).2]
  cases a <;> rfl

/-- a sequence of setter calls, each with the argument of its own kind; `none` as soon as one of them raises -/
def runCalls : List (SetterId × Bool × Int) → Config → Option Config
  | [], cfg => some cfg
  | (id, b, n) :: rest, cfg =>
    match call id b n cfg with
    | some (.ok c) => runCalls rest c
    | _ => none

/-- the call raises: a zero threshold -/
def callBad (id : SetterId) (n : Int) : Prop := (id = .minRepetitions ∨ id = .minSubstringLength) ∧ n = 0

instance (id : SetterId) (n : Int) : Decidable (callBad id n) := by unfold callBad; exact inferInstance

theorem runCalls_cons (id : SetterId) (b : Bool) (n : Int) (rest : List (SetterId × Bool × Int)) (cfg : Config) :
    runCalls ((id, b, n) :: rest) cfg = if callBad id n then none else runCalls rest (callCfg id b n cfg) := by
  by_cases hb : callBad id n
  · rw [if_pos hb]
    simp only [runCalls]
    cases hc : call id b n cfg with
    | none => rfl
    | some r =>
      cases r with
      | error m => rfl
      | ok c => exact absurd hb.2 ((call_ok id b n cfg c hc).2 hb.1)
  · rw [if_neg hb]
    have hn : (id = .minRepetitions ∨ id = .minSubstringLength) → n ≠ 0 := fun h1 h2 => hb ⟨h1, h2⟩
    simp only [runCalls, call_of_ok id b n cfg hn]

/-- **C10 (order of settings, any number of calls)** a sequence of calls of pairwise different setters — thresholds with any argument, the
escaping switch with either flag — leaves the same configuration in every order, and raises in every order if it raises in one -/
theorem calls_perm {l1 l2 : List (SetterId × Bool × Int)} (hp : l1.Perm l2) :
    (l1.map (·.1)).Nodup → ∀ cfg, runCalls l1 cfg = runCalls l2 cfg := by
  induction hp with
  | nil => intro _ _; rfl
  | cons x _ ih =>
    intro hnd cfg
    obtain ⟨id, b, n⟩ := x
    simp only [List.map_cons, List.nodup_cons] at hnd
    rw [runCalls_cons, runCalls_cons]
    split
    · rfl
    · exact ih hnd.2 _
  | swap x y l =>
    intro hnd cfg
    obtain ⟨ix, bx, nx⟩ := x
    obtain ⟨iy, by', ny⟩ := y
    simp only [List.map_cons, List.nodup_cons, List.mem_cons, not_or] at hnd
    have hne : iy ≠ ix := hnd.1.1
    rw [runCalls_cons, runCalls_cons, runCalls_cons, runCalls_cons]
    by_cases h1 : callBad iy ny <;> by_cases h2 : callBad ix nx <;> simp only [h1, h2, if_true, if_false]
    rw [callCfg_commute iy ix hne by' bx ny nx cfg]
  | trans h12 _ ih1 ih2 =>
    intro hnd cfg
    have hnd2 := (List.Perm.nodup_iff (h12.map (·.1))).mp hnd
    rw [ih1 hnd cfg, ih2 hnd2 cfg]

/-- no setter switches the case-insensitive option off again -/
theorem call_keeps_ci (a : SetterId) (b : Bool) (n : Int) (cfg c1 : Config) (h : call a b n cfg = some (.ok c1))
    (hci : cfg.ci = true) : c1.ci = true := by
  rw [(call_ok _ _ _ _ _ h).1]
  cases a <;> first | exact hci | rfl

/-! ## repeated `build()`: the list stored by the first call is a fixed point -/

/-- contract of the external lower-casing used below: it is idempotent (true of `str::to_lowercase`;
kernel-checkable on the extracted single-character table, assumed here for whole strings) -/
def LowerIdem (env : Env) : Prop := ∀ w, env.lowerOf (env.lowerOf w) = env.lowerOf w

theorem ciLiteralMatch_refl (s : Str) : ciLiteralMatch s s = true := by simp [ciLiteralMatch]

theorem lowerOne_idem (env : Env) (h : LowerIdem env) (w : Str) : lowerOne env (lowerOne env w) = lowerOne env w := by
  unfold lowerOne
  by_cases hc : ((env.lowerOf w).length = w.length && ciLiteralMatch (env.lowerOf w) w) = true
  · simp only [hc, ite_true, h w, ciLiteralMatch_refl, Bool.and_true, decide_true]
  · simp only [hc, ite_false]
    simp [hc]

theorem lowerCases_idem (env : Env) (h : LowerIdem env) (ws : List Str) :
    lowerCases env (lowerCases env ws) = lowerCases env ws := by
  simp [lowerCases, List.map_map, Function.comp, lowerOne_idem env h]

theorem lowerCases_sort_commute_mem (env : Env) (L : List Str) (w : Str) :
    w ∈ lowerCases env (sortCases L) ↔ w ∈ lowerCases env L := by
  simp only [lowerCases, List.mem_map]
  constructor
  · rintro ⟨a, ha, rfl⟩
    exact ⟨a, (sortCases_mem _ a).mp ha, rfl⟩
  · rintro ⟨a, ha, rfl⟩
    exact ⟨a, (sortCases_mem _ a).mpr ha, rfl⟩

/-- **C10 (repeated build)** the list a first `build()` stores is left unchanged by every further
`build()`: S1 of the second call reproduces it, so all later stages see the same input -/
theorem stored_list_fixed (cfg : Config) (env : Env) (h : LowerIdem env) (ws : List Str) :
    let stored := sortCases (if cfg.ci = true then lowerCases env ws else ws)
    sortCases (if cfg.ci = true then lowerCases env stored else stored) = stored := by
  simp only []
  split
  · apply sortCases_set
    intro w
    rw [lowerCases_sort_commute_mem, lowerCases_idem env h]
  · exact sortCases_idem ws

/-- **C10 (repeated build, whole pipeline)** a second `build()` on the same builder returns the same
stages and the same expression as the first one, for every configuration -/
theorem second_build_same (cfg : Config) (env : Env) (h : LowerIdem env) (ws : List Str) (st : Stages)
    (h1 : regExpFrom cfg env ws = .ok st) : regExpFrom cfg env st.sorted = .ok st := by
  have hs : st.sorted = sortCases (if cfg.ci = true then lowerCases env ws else ws) := by
    unfold regExpFrom at h1
    simp only [] at h1
    split at h1
    · simp at h1
    · repeat' (split at h1)
      all_goals (first | (simp at h1; done) | (simp only [Except.ok.injEq] at h1; rw [← h1]; simp [*]))
  have key := stored_list_fixed cfg env h ws
  simp only [] at key
  rw [← h1, hs]
  unfold regExpFrom
  simp only [key]

/-- `build()` does not touch the settings -/
theorem build_keeps_config (env : Env) (b b' : Builder) (s : Str) (h : b.build env = .ok (b', s)) :
    b'.config = b.config := by
  unfold Builder.build at h
  split at h
  · simp at h
  · simp at h; rw [← h.1]

/-! ## `build()` in between: a later build with more settings sees what a fresh builder would see -/

theorem stages_sorted (cfg : Config) (env : Env) (ws : List Str) (st : Stages) (h1 : regExpFrom cfg env ws = .ok st) :
    st.sorted = sortCases (if cfg.ci = true then lowerCases env ws else ws) := by
  unfold regExpFrom at h1
  simp only [] at h1
  split at h1
  · simp at h1
  · repeat' (split at h1)
    all_goals (first | (simp at h1; done) | (simp only [Except.ok.injEq] at h1; rw [← h1]; simp [*]))

/-- the result of `RegExp::from` depends on the list only through the stored form `sortCases (lower-cased or not)` -/
theorem regExpFrom_stored (cfg : Config) (env : Env) (l1 l2 : List Str)
    (h : sortCases (if cfg.ci = true then lowerCases env l1 else l1) = sortCases (if cfg.ci = true then lowerCases env l2 else l2)) :
    regExpFrom cfg env l1 = regExpFrom cfg env l2 := by
  unfold regExpFrom
  simp only [h]

/-- **C10 (`build()` in between)** after a first `build()` under `cfg` — which replaces the stored test cases by their sorted, under `-i`
lower-cased, form — a `build()` under any later configuration `cfg'` (a setter never switches `-i` off: `call_keeps_ci`) computes
exactly what it would compute on the original list -/
theorem build_after_build (cfg cfg' : Config) (hmono : cfg.ci = true → cfg'.ci = true) (env : Env) (h : LowerIdem env)
    (ws : List Str) (st : Stages) (h1 : regExpFrom cfg env ws = .ok st) :
    regExpFrom cfg' env st.sorted = regExpFrom cfg' env ws := by
  apply regExpFrom_stored
  rw [stages_sorted cfg env ws st h1]
  cases hc' : cfg'.ci with
  | false =>
    have hc : cfg.ci = false := by
      cases hcc : cfg.ci with
      | false => rfl
      | true => rw [hmono hcc] at hc'; cases hc'
    simp only [hc, Bool.false_eq_true, ite_false]
    exact sortCases_idem ws
  | true =>
    simp only [ite_true]
    apply sortCases_set
    intro w
    rw [lowerCases_sort_commute_mem]
    cases hcc : cfg.ci with
    | false => simp only [Bool.false_eq_true, ite_false]
    | true => simp only [ite_true, lowerCases_idem env h]

/-- the builder a history of calls runs on, with every `build()` recomputed from the *original* test cases (no stored state) -/
def freshOutputs (env : Env) (ws0 : List Str) : List Op → Config → List Str → Except Panic (List Str)
  | [], _, outs => .ok outs.reverse
  | .build :: ops, cfg, outs =>
    match regExpFrom cfg env ws0 with
    | .ok st => freshOutputs env ws0 ops cfg (fmtRegExp cfg st.finalAst :: outs)
    | .error e => .error e
  | .set id arg :: ops, cfg, outs =>
    match applySetter rsSetters id arg cfg with
    | some (.ok cfg') => freshOutputs env ws0 ops cfg' outs
    | some (.error .minRep) => .error .zeroMinRep
    | some (.error .minLen) => .error .zeroMinLen
    | some (.error .missingTestCases) => .error .noTestCases
    | none => freshOutputs env ws0 ops cfg outs

/-- a setter call with any argument keeps `-i` on -/
theorem applySetter_keeps_ci (id : SetterId) (arg : Arg) (cfg c1 : Config)
    (h : applySetter rsSetters id arg cfg = some (.ok c1)) (hci : cfg.ci = true) : c1.ci = true := by
  cases id <;> cases arg <;>
    simp [applySetter, findSetter, rsSetters, runBody, runStmt, Config.setBool, Config.setNat] at h
  all_goals first
    | (subst h; first | exact hci | rfl)
    | (rename_i n; by_cases hn : n = 0
       · simp [hn] at h
       · simp [hn] at h; subst h; exact hci)
    | (rename_i b; cases b <;> simp at h <;> subst h <;> first | exact hci | rfl)

/-- **C10 (call sequences with interleaved `build()`)** for every history of setter calls and `build()` calls on one builder, every output is
the output a fresh builder with the settings accumulated so far would give on the original test cases: calling `build()` in between —
which sorts, de-duplicates and under `-i` lower-cases the stored list — leaves no trace in later results -/
theorem history_outputs (env : Env) (hl : LowerIdem env) (ws0 : List Str) :
    ∀ (ops : List Op) (b : Builder) (outs : List Str),
      (∀ c', (b.config.ci = true → c'.ci = true) → regExpFrom c' env b.testCases = regExpFrom c' env ws0) →
      (runHistory env ops b outs).map Prod.snd = freshOutputs env ws0 ops b.config outs := by
  intro ops
  induction ops with
  | nil => intro b outs _; rfl
  | cons op ops ih =>
    intro b outs hinv
    cases op with
    | build =>
      simp only [runHistory, freshOutputs, Builder.build]
      rw [hinv b.config (fun h => h)]
      cases hr : regExpFrom b.config env ws0 with
      | error e => rfl
      | ok st =>
        simp only []
        apply ih
        intro c' hc'
        exact build_after_build b.config c' hc' env hl ws0 st hr
    | set id arg =>
      simp only [runHistory, freshOutputs]
      cases hs : applySetter rsSetters id arg b.config with
      | none => exact ih b outs hinv
      | some r =>
        cases r with
        | error m => cases m <;> rfl
        | ok cfg' =>
          simp only []
          apply ih
          intro c' hc'
          apply hinv c'
          intro hci
          exact hc' (applySetter_keeps_ci id arg b.config cfg' hs hci)

/-- the statement for a builder made by `from`: its history is judged against the original list -/
theorem history_outputs_from (env : Env) (hl : LowerIdem env) (ws0 : List Str) (ops : List Op) :
    (runHistory env ops ⟨ws0, {}⟩ []).map Prod.snd = freshOutputs env ws0 ops {} [] :=
  history_outputs env hl ws0 ops ⟨ws0, {}⟩ [] (fun _ _ => rfl)

/-! non-vacuity -/
example : runCalls [(.digits, false, 0), (.minRepetitions, false, 3), (.escaping, true, 0)] {} =
    some { digit := true, minRep := 3, esc := true, sur := true } := by decide
example : runCalls [(.minRepetitions, false, 0), (.digits, false, 0)] {} = none := by decide
example : LowerIdem ⟨id, fun w => w.map (fun c => [c])⟩ := fun _ => rfl
example : sortCases [strOf "b", strOf "a", strOf "b", strOf "ab"] = [strOf "a", strOf "b", strOf "ab"] := by decide
example : sortCases [strOf "ab", strOf "b", strOf "a"] = sortCases [strOf "b", strOf "a", strOf "b", strOf "ab"] := by decide

end Grexv.Props.C10
