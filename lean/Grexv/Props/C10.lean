import Grexv.Model.Api
import Grexv.Lemmas.StrOrder
import Grexv.Lemmas.SortCases

/-!
# C10 — build() is a deterministic function of the test-case *set* and the accumulated settings
-/
set_option linter.unusedSimpArgs false
set_option linter.unusedVariables false
namespace Grexv.Props.C10
open Grexv Gen

/-! ## S1: sort/dedup yields one canonical list per set of test cases -/

/-- **C10 (order, duplicates)** two lists with the same set of test cases are stored as the same list -/
theorem sortCases_set (l1 l2 : List Str) (h : ∀ w, w ∈ l1 ↔ w ∈ l2) : sortCases l1 = sortCases l2 := by
  have n1 := dedupAdj_nodup_of_sorted _ (sortBy_sorted strLe strLe_total strLe_trans l1)
  have n2 := dedupAdj_nodup_of_sorted _ (sortBy_sorted strLe strLe_total strLe_trans l2)
  have hp : (dedupAdj (sortBy strLe l1)).Perm (dedupAdj (sortBy strLe l2)) := by
    apply (List.perm_ext_iff_of_nodup n1 n2).mpr
    intro a
    simp [mem_dedupAdj, mem_sortBy, h a]
  unfold sortCases
  apply List.Perm.eq_of_pairwise (le := fun a b => lenThenStrLe a b = true)
  · intro a b _ _ h1 h2; exact lenThenStrLe_antisymm a b h1 h2
  · exact sortBy_sorted _ lenThenStrLe_total lenThenStrLe_trans _
  · exact sortBy_sorted _ lenThenStrLe_total lenThenStrLe_trans _
  · exact ((sortBy_perm _ _).trans hp).trans (sortBy_perm _ _).symm

/-- sorting again changes nothing: a second `build()` sees the same stored list -/
theorem sortCases_idem (ws : List Str) : sortCases (sortCases ws) = sortCases ws :=
  sortCases_set _ _ (fun w => sortCases_mem ws w)

/-- **C10 (order, duplicates — whole build)** `RegExp::from`, hence `build()`, gives the same result
(stored list, every stage, final expression) for any two lists with the same set of test cases,
for every configuration -/
theorem regExpFrom_set (cfg : Config) (env : Env) (l1 l2 : List Str) (h : ∀ w, w ∈ l1 ↔ w ∈ l2) :
    regExpFrom cfg env l1 = regExpFrom cfg env l2 := by
  have hs : sortCases (if cfg.ci = true then lowerCases env l1 else l1)
      = sortCases (if cfg.ci = true then lowerCases env l2 else l2) := by
    apply sortCases_set
    intro w
    split
    · simp only [lowerCases, List.mem_map]
      constructor
      · rintro ⟨a, ha, rfl⟩; exact ⟨a, (h a).mp ha, rfl⟩
      · rintro ⟨a, ha, rfl⟩; exact ⟨a, (h a).mpr ha, rfl⟩
    · exact h w
  unfold regExpFrom
  simp only [hs]

theorem build_set (env : Env) (cfg : Config) (l1 l2 : List Str) (h : ∀ w, w ∈ l1 ↔ w ∈ l2) :
    (Builder.build env ⟨l1, cfg⟩).map Prod.snd = (Builder.build env ⟨l2, cfg⟩).map Prod.snd := by
  simp only [Builder.build, regExpFrom_set cfg env l1 l2 h]

/-! ## settings: the generated setters are idempotent and commute (except last-writer-wins on arguments) -/

/-- a setter without argument can be applied twice without effect -/
theorem setter_idem (id : SetterId) (cfg c1 : Config) (h : applySetter rsSetters id .none cfg = some (.ok c1)) :
    applySetter rsSetters id .none c1 = some (.ok c1) := by
  cases id <;> simp [applySetter, findSetter, rsSetters, runBody, runStmt, Config.setBool] at h ⊢ <;> subst h <;> rfl

/-- effect of an argument-less call -/
def effect (id : SetterId) (cfg : Config) : Config :=
  match applySetter rsSetters id .none cfg with
  | some (.ok c) => c
  | _ => cfg

/-- any two argument-less setter calls commute, whatever the configuration they start from -/
theorem setters_commute (a b : SetterId) (cfg : Config) : effect a (effect b cfg) = effect b (effect a cfg) := by
  cases a <;> cases b <;> rfl

/-- the two setters with an argument overwrite: the last call wins, earlier ones leave no trace -/
theorem threshold_last_wins (cfg c1 c2 : Config) (i j : Int)
    (h1 : applySetter rsSetters .minRepetitions (.int i) cfg = some (.ok c1))
    (h2 : applySetter rsSetters .minRepetitions (.int j) c1 = some (.ok c2)) :
    applySetter rsSetters .minRepetitions (.int j) cfg = some (.ok c2) := by
  have key : ∀ (k : Int) (c : Config), applySetter rsSetters .minRepetitions (.int k) c =
      some (if k = 0 then .error .minRep else .ok (c.setNat .minRep k.toNat)) := by
    intro k c
    by_cases hk : k = 0 <;> simp [applySetter, findSetter, rsSetters, runBody, runStmt, hk]
  rw [key] at h1 h2 ⊢
  by_cases hi : i = 0
  · simp [hi] at h1
  · by_cases hj : j = 0
    · simp [hj] at h2
    · simp [hi, hj, Config.setNat] at h1 h2 ⊢
      subst h1; exact h2

/-! ## repeated `build()`: the list stored by the first call is a fixed point -/

/-- contract of the external lower-casing used below: it is idempotent (true of `str::to_lowercase`;
kernel-checkable on the extracted single-character table, assumed here for whole strings) -/
def LowerIdem (env : Env) : Prop := ∀ w, env.lowerOf (env.lowerOf w) = env.lowerOf w

theorem ciLiteralMatch_refl (s : Str) : ciLiteralMatch s s = true := by simp [ciLiteralMatch]

theorem lowerOne_idem (env : Env) (h : LowerIdem env) (w : Str) : lowerOne env (lowerOne env w) = lowerOne env w := by
  unfold lowerOne
  by_cases hc : ((env.lowerOf w).length = w.length && ciLiteralMatch (env.lowerOf w) w) = true
  · simp only [hc, ite_true, h w, ciLiteralMatch_refl, Bool.and_true, decide_true]
  · simp only [hc, ite_false]
    simp [hc]

theorem lowerCases_idem (env : Env) (h : LowerIdem env) (ws : List Str) :
    lowerCases env (lowerCases env ws) = lowerCases env ws := by
  simp [lowerCases, List.map_map, Function.comp, lowerOne_idem env h]

theorem lowerCases_sort_commute_mem (env : Env) (L : List Str) (w : Str) :
    w ∈ lowerCases env (sortCases L) ↔ w ∈ lowerCases env L := by
  simp only [lowerCases, List.mem_map]
  constructor
  · rintro ⟨a, ha, rfl⟩
    exact ⟨a, (sortCases_mem _ a).mp ha, rfl⟩
  · rintro ⟨a, ha, rfl⟩
    exact ⟨a, (sortCases_mem _ a).mpr ha, rfl⟩

/-- **C10 (repeated build)** the list a first `build()` stores is left unchanged by every further
`build()`: S1 of the second call reproduces it, so all later stages see the same input -/
theorem stored_list_fixed (cfg : Config) (env : Env) (h : LowerIdem env) (ws : List Str) :
    let stored := sortCases (if cfg.ci = true then lowerCases env ws else ws)
    sortCases (if cfg.ci = true then lowerCases env stored else stored) = stored := by
  simp only []
  split
  · apply sortCases_set
    intro w
    rw [lowerCases_sort_commute_mem, lowerCases_idem env h]
  · exact sortCases_idem ws

/-- **C10 (repeated build, whole pipeline)** a second `build()` on the same builder returns the same
stages and the same expression as the first one, for every configuration -/
theorem second_build_same (cfg : Config) (env : Env) (h : LowerIdem env) (ws : List Str) (st : Stages)
    (h1 : regExpFrom cfg env ws = .ok st) : regExpFrom cfg env st.sorted = .ok st := by
  have hs : st.sorted = sortCases (if cfg.ci = true then lowerCases env ws else ws) := by
    unfold regExpFrom at h1
    simp only [] at h1
    split at h1
    · simp at h1
    · repeat' (split at h1)
      all_goals (first | (simp at h1; done) | (simp only [Except.ok.injEq] at h1; rw [← h1]; simp [*]))
  have key := stored_list_fixed cfg env h ws
  simp only [] at key
  rw [← h1, hs]
  unfold regExpFrom
  simp only [key]

/-- `build()` does not touch the settings -/
theorem build_keeps_config (env : Env) (b b' : Builder) (s : Str) (h : b.build env = .ok (b', s)) :
    b'.config = b.config := by
  unfold Builder.build at h
  split at h
  · simp at h
  · simp at h; rw [← h.1]

/-! non-vacuity -/
example : sortCases [strOf "b", strOf "a", strOf "b", strOf "ab"] = [strOf "a", strOf "b", strOf "ab"] := by decide
example : sortCases [strOf "ab", strOf "b", strOf "a"] = sortCases [strOf "b", strOf "a", strOf "b", strOf "ab"] := by decide

end Grexv.Props.C10
