import Grexv.Model.RegExp
import Grexv.Lemmas.Sort
import Grexv.Lemmas.EndToEnd

/-!
# C13 — repetition thresholds are honoured; braces appear only on request (S4 level)

Invariant carried through `convert_repetitions`: every grapheme is either a plain `(1,1)`
grapheme or a counted one whose count exceeds `minimum_repetitions` and whose unit has at least
`minimum_substring_length` elements — at every nesting depth, for every input and all thresholds.
-/
set_option linter.unusedSimpArgs false
set_option linter.unusedVariables false
namespace Grexv.Props.C13
open Grexv

mutual
/-- the threshold contract of one grapheme, including its nested repetitions -/
def ok (cfg : Config) : Grapheme → Bool
  | .mk chars reps mn mx =>
    ((mn == 1 && mx == 1) || (decide (mx > cfg.minRep) && decide (chars.length ≥ cfg.minLen) && mn == mx))
      && okL cfg reps
def okL (cfg : Config) : List Grapheme → Bool
  | [] => true
  | g :: gs => ok cfg g && okL cfg gs
end

theorem okL_iff (cfg : Config) (l : List Grapheme) : okL cfg l = true ↔ ∀ g ∈ l, ok cfg g = true := by
  induction l with
  | nil => simp [okL]
  | cons g gs ih => simp [okL, ih]

/-- every range produced by `create_ranges_of_repetitions` stands for more than `minRep` repetitions -/
theorem createRanges_count (cfg : Config) (m : SubMap) (r : RepRange) (h : r ∈ createRanges cfg m) :
    (r.1.2 - r.1.1) / r.2.length > cfg.minRep := by
  simp only [createRanges, List.mem_flatMap, List.mem_map, List.mem_filter, decide_eq_true_eq] at h
  obtain ⟨⟨p, is⟩, _, rr, ⟨_, hc⟩, rfl⟩ := h
  exact hc

theorem coalesceOverlapAux_subset (cur : RepRange) (l : List RepRange) :
    ∀ r ∈ coalesceOverlapAux cur l, r = cur ∨ r ∈ l := by
  induction l generalizing cur with
  | nil => simp [coalesceOverlapAux]
  | cons y rest ih =>
    intro r hr
    unfold coalesceOverlapAux at hr
    split at hr
    · rcases ih cur r hr with h | h
      · exact Or.inl h
      · exact Or.inr (List.mem_cons_of_mem _ h)
    · simp only [List.mem_cons] at hr
      rcases hr with h | h
      · exact Or.inl h
      · rcases ih y r h with h' | h'
        · exact Or.inr (by simp [h'])
        · exact Or.inr (List.mem_cons_of_mem _ h')

theorem coalesceOverlap_subset (l : List RepRange) : ∀ r ∈ coalesceOverlap l, r ∈ l := by
  cases l with
  | nil => simp [coalesceOverlap]
  | cons x xs =>
    intro r hr
    rcases coalesceOverlapAux_subset x xs r hr with h | h
    · simp [h]
    · exact List.mem_cons_of_mem _ h

theorem coalesceRepetitions_subset (l : List RepRange) : ∀ r ∈ coalesceRepetitions l, r ∈ l := by
  intro r hr
  have := coalesceOverlap_subset _ r hr
  exact (mem_sortBy _ _ _).mp this

/-- the splice loop only ever inserts graphemes that honour both thresholds -/
theorem spliceLoop_ok (cfg : Config) (rs : List RepRange) (acc : Cluster)
    (hr : ∀ r ∈ rs, (r.1.2 - r.1.1) / r.2.length > cfg.minRep)
    (hacc : ∀ g ∈ acc, ok cfg g = true) :
    ∀ g ∈ spliceLoop cfg rs acc, ok cfg g = true := by
  induction rs generalizing acc with
  | nil => simpa [spliceLoop] using hacc
  | cons r rest ih =>
    obtain ⟨rng, substr⟩ := r
    have hrest : ∀ r ∈ rest, (r.1.2 - r.1.1) / r.2.length > cfg.minRep := fun x hx => hr x (List.mem_cons_of_mem _ hx)
    unfold spliceLoop
    split
    · exact hacc
    · split
      · exact ih acc hrest hacc
      · rename_i hlen
        apply ih _ hrest
        intro g hg
        simp only [splice, List.mem_append, List.mem_cons, List.mem_nil_iff, or_false] at hg
        rcases hg with (hg | hg) | hg
        · exact hacc g (List.mem_of_mem_take hg)
        · subst hg
          have hc := hr (rng, substr) (List.mem_cons_self)
          simp only [] at hc
          have : substr.length ≥ cfg.minLen := by omega
          simp [ok, okL, hc, this]
        · exact hacc g (List.mem_of_mem_drop hg)

/-- plain graphemes (what `GraphemeCluster::from` and `Grapheme::from` produce) meet the contract -/
theorem ok_ofStr (cfg : Config) (s : Str) : ok cfg (Grapheme.ofStr s) = true := by simp [Grapheme.ofStr, ok, okL]

/-- `convert_repetitions` at any recursion depth -/
theorem convertRepsAux_ok (cfg : Config) (fuel : Nat) :
    ∀ (gs : Cluster), (∀ g ∈ gs, ok cfg g = true) → (∀ g ∈ gs, g.reps = []) →
      ∀ out, convertRepsAux cfg fuel gs = some out → ∀ g ∈ out, ok cfg g = true := by
  induction fuel with
  | zero => intro gs _ _ out h; simp [convertRepsAux] at h
  | succ f ih =>
    intro gs hgs hreps out h
    simp only [convertRepsAux] at h
    split at h
    · simp at h
    · simp only [Option.some.injEq] at h
      subst h
      intro g hg
      simp only [nestWith, List.mem_map] at hg
      obtain ⟨g0, hg0, rfl⟩ := hg
      have hr : ∀ r ∈ coalesceRepetitions (createRanges cfg (collectRepeated (gs.map Grapheme.value))),
          (r.1.2 - r.1.1) / r.2.length > cfg.minRep :=
        fun r hr => createRanges_count cfg _ r (coalesceRepetitions_subset _ r hr)
      have hok0 := spliceLoop_ok cfg _ gs hr hgs g0 hg0
      -- the grapheme keeps its (chars, min, max); its nested repetitions come from the recursive call
      cases g0 with
      | mk chars reps mn mx =>
        simp only [ok, Bool.and_eq_true] at hok0 ⊢
        refine ⟨hok0.1, ?_⟩
        simp only [Grapheme.chars, Grapheme.reps, Grapheme.min, Grapheme.max]
        cases hrec : convertRepsAux cfg f (chars.map Grapheme.ofStr) with
        | none => simpa [Option.getD] using hok0.2
        | some out =>
          simp only [Option.getD]
          rw [okL_iff]
          apply ih (chars.map Grapheme.ofStr) _ _ out hrec
          · intro g hg; simp at hg; obtain ⟨s, _, rfl⟩ := hg; exact ok_ofStr cfg s
          · intro g hg; simp at hg; obtain ⟨s, _, rfl⟩ := hg; rfl

/-- **C13 (thresholds)** for every cluster of plain graphemes and all thresholds, everything
`convert_repetitions` produces honours `minimum_repetitions` and `minimum_substring_length` -/
theorem convertRepetitions_ok (cfg : Config) (cl : Cluster)
    (hplain : ∀ g ∈ cl, ∃ s, g = Grapheme.mk s [] 1 1) :
    ∀ g ∈ convertRepetitions cfg cl, ok cfg g = true := by
  have h1 : ∀ g ∈ cl, ok cfg g = true := by
    intro g hg; obtain ⟨s, rfl⟩ := hplain g hg; simp [ok, okL]
  have h2 : ∀ g ∈ cl, g.reps = [] := by
    intro g hg; obtain ⟨s, rfl⟩ := hplain g hg; rfl
  unfold convertRepetitions
  cases h : convertRepsAux cfg (cl.length + 1) cl with
  | none => simpa [Option.getD] using h1
  | some out => simpa [Option.getD] using convertRepsAux_ok cfg _ cl h1 h2 out h

/-- **C13 (no braces without -r)** without repetition conversion every grapheme that reaches the
trie is a plain `(1,1)` grapheme: `Display for Grapheme` has no counted branch to take -/
theorem clusters_plain_without_rep (cfg : Config) (env : Env) (ws : List Str) (hrep : cfg.rep = false) :
    ∀ cl ∈ graphemeClusters cfg env ws, ∀ g ∈ cl, g.min = 1 ∧ g.max = 1 ∧ g.reps = [] := by
  intro cl hcl g hg
  simp only [graphemeClusters, hrep] at hcl
  have plain : ∀ w, ∀ g ∈ clusterOfPieces (env.segOf w), g.min = 1 ∧ g.max = 1 ∧ g.reps = [] := by
    intro w g hg
    simp only [clusterOfPieces, List.mem_flatMap] at hg
    obtain ⟨it, _, hg⟩ := hg
    split at hg
    · simp at hg; obtain ⟨c, _, rfl⟩ := hg; exact ⟨rfl, rfl, rfl⟩
    · simp at hg; subst hg; exact ⟨rfl, rfl, rfl⟩
  by_cases hf : cfg.charClassFeature = true
  · simp only [hf, ite_true, List.map_map] at hcl
    obtain ⟨w, _, rfl⟩ := List.mem_map.mp hcl
    simp only [Function.comp] at hg
    simp only [convertClasses, List.mem_map] at hg
    obtain ⟨g0, hg0, rfl⟩ := hg
    have := plain w g0 hg0
    exact ⟨this.1, this.2.1, this.2.2⟩
  · simp only [hf] at hcl
    obtain ⟨w, _, rfl⟩ := List.mem_map.mp hcl
    exact plain w g hg

/-! non-vacuity: `aaa` with thresholds (1,1) becomes `a{3}`, with minimum repetitions 3 it stays literal -/
example : (convertRepetitions {} (List.replicate 3 (Grapheme.ofStr [97]))).map Grapheme.max = [3] := by decide
example : (convertRepetitions { minRep := 3 } (List.replicate 3 (Grapheme.ofStr [97]))).map Grapheme.max = [1, 1, 1] := by decide

/-! ## no counted quantifier in the pattern the regex crate reads -/

mutual
/-- the only repetition operator in the pattern is `?` -/
def Pat.OnlyOpt : Spec.Pat → Prop
  | .rep p mn mx g => mn = 0 ∧ mx = some 1 ∧ Pat.OnlyOpt p
  | .cat a b | .alt a b => Pat.OnlyOpt a ∧ Pat.OnlyOpt b
  | .grp _ p => Pat.OnlyOpt p
  | _ => True
end

theorem onlyOpt_catList (ps : List Spec.Pat) (h : ∀ p ∈ ps, Pat.OnlyOpt p) : Pat.OnlyOpt (Spec.catList ps) := by
  induction ps with
  | nil => trivial
  | cons p ps ih =>
    cases ps with
    | nil => exact h p List.mem_cons_self
    | cons q qs => exact ⟨h p List.mem_cons_self, ih (fun x hx => h x (List.mem_cons_of_mem _ hx))⟩

theorem onlyOpt_altList (ps : List Spec.Pat) (h : ∀ p ∈ ps, Pat.OnlyOpt p) : Pat.OnlyOpt (Spec.altList ps) := by
  induction ps with
  | nil => trivial
  | cons p ps ih =>
    cases ps with
    | nil => exact h p List.mem_cons_self
    | cons q qs => exact ⟨h p List.mem_cons_self, ih (fun x hx => h x (List.mem_cons_of_mem _ hx))⟩

theorem onlyOpt_subOf (cap esc : Bool) (outer : Nat) (e : Expr) (its : List Spec.Pat) (bd : Spec.Pat)
    (h1 : ∀ p ∈ its, Pat.OnlyOpt p) (h2 : Pat.OnlyOpt bd) : ∀ p ∈ subOf cap esc outer e its bd, Pat.OnlyOpt p := by
  unfold subOf
  split
  · intro p hp; simp only [List.mem_singleton] at hp; subst hp; exact h2
  · exact h1

theorem onlyOpt_optOf (l : List Spec.Pat) (h : ∀ p ∈ l, Pat.OnlyOpt p) : ∀ p ∈ optOf l, Pat.OnlyOpt p := by
  unfold optOf
  split
  · rename_i p
    intro q hq
    simp only [List.mem_singleton] at hq
    subst hq
    exact ⟨rfl, rfl, h p (by simp)⟩
  · exact h

mutual
theorem both_onlyOpt (cap esc : Bool) : ∀ (e : Expr), (∀ p ∈ (e.both cap esc).1, Pat.OnlyOpt p) ∧ Pat.OnlyOpt (e.both cap esc).2
  | .lit c => by
    have h : ∀ p ∈ (atomsOf c).map atomPat, Pat.OnlyOpt p := by
      intro p hp; obtain ⟨x, _, rfl⟩ := List.mem_map.mp hp; cases x <;> trivial
    simp only [Expr.both]
    exact ⟨h, onlyOpt_catList _ h⟩
  | .cls cs => by
    have h : ∀ p ∈ [Spec.Pat.set (classItems cs) false], Pat.OnlyOpt p := by
      intro p hp; simp only [List.mem_singleton] at hp; subst hp; trivial
    simp only [Expr.both]
    exact ⟨h, onlyOpt_catList _ h⟩
  | .cat a b => by
    have ia := both_onlyOpt cap esc a
    have ib := both_onlyOpt cap esc b
    have h : ∀ p ∈ subOf cap esc 2 a (a.both cap esc).1 (a.both cap esc).2 ++ subOf cap esc 2 b (b.both cap esc).1 (b.both cap esc).2, Pat.OnlyOpt p := by
      intro p hp
      simp only [List.mem_append] at hp
      rcases hp with hp | hp
      · exact onlyOpt_subOf cap esc 2 a _ _ ia.1 ia.2 p hp
      · exact onlyOpt_subOf cap esc 2 b _ _ ib.1 ib.2 p hp
    simp only [Expr.both]
    exact ⟨h, onlyOpt_catList _ h⟩
  | .rep e q => by
    have ie := both_onlyOpt cap esc e
    have h := onlyOpt_optOf _ (onlyOpt_subOf cap esc 3 e _ _ ie.1 ie.2)
    simp only [Expr.both]
    exact ⟨h, onlyOpt_catList _ h⟩
  | .alt os => by
    simp only [Expr.both]
    exact ⟨by simp, onlyOpt_altList _ (bothL_onlyOpt cap esc os)⟩
theorem bothL_onlyOpt (cap esc : Bool) : ∀ (os : List Expr), ∀ p ∈ Expr.bothL cap esc os, Pat.OnlyOpt p
  | [] => by simp [Expr.bothL]
  | o :: os => by
    intro p hp
    simp only [Expr.bothL, List.mem_cons] at hp
    rcases hp with rfl | hp
    · exact onlyOpt_catList _ (both_onlyOpt cap esc o).1
    · exact bothL_onlyOpt cap esc os p hp
end

/-- **C13 (no `{n}` / `{m,n}` without `-r`, at the level of the pattern the regex crate builds)** for every well-formed
expression, printed with any anchors, with or without capturing groups and `-e`: the parsed pattern contains no
repetition operator other than `?` — the braces of `\u{…}` escapes and escaped literal braces are not quantifiers -/
theorem no_counted_quantifier (cap esc ns ne : Bool) (e : Expr) (hwf : e.WF) :
    ∃ P, Spec.parse (fmtRegExp (cfgAnch cap esc ns ne) e) = some (⟨false, false⟩, P) ∧ Pat.OnlyOpt P := by
  refine ⟨_, parse_printedA cap esc ns ne e hwf, ?_⟩
  apply onlyOpt_catList
  intro p hp
  simp only [List.mem_append] at hp
  rcases hp with hp | hp | hp
  · unfold preA at hp; split at hp
    · simp at hp
    · simp only [List.mem_singleton] at hp; subst hp; trivial
  · unfold topItems at hp
    split at hp
    · simp only [List.mem_singleton] at hp; subst hp; exact (both_onlyOpt cap esc e).2
    · exact (both_onlyOpt cap esc e).1 p hp
  · unfold postA at hp; split at hp
    · simp at hp
    · simp only [List.mem_singleton] at hp; subst hp; trivial

end Grexv.Props.C13
