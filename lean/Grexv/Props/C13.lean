import Grexv.Lemmas.RunShape
import Grexv.Lemmas.EndToEndRV
import Grexv.Model.RegExp
import Grexv.Lemmas.Sort
import Grexv.Lemmas.EndToEnd
import Grexv.Lemmas.ThreshS4
import Grexv.Lemmas.ThreshR

/-!
# C13 — repetition thresholds are honoured; braces appear only on request (S4 level)

Invariant carried through `convert_repetitions`: every grapheme is either a plain `(1,1)`
grapheme or a counted one whose count exceeds `minimum_repetitions` and whose unit has at least
`minimum_substring_length` elements — at every nesting depth, for every input and all thresholds.
-/
set_option linter.unusedSimpArgs false
set_option linter.unusedVariables false
namespace Grexv.Props.C13
open Grexv

/-- **C13 (thresholds)** for every cluster of plain graphemes and all thresholds, everything
`convert_repetitions` produces honours `minimum_repetitions` and `minimum_substring_length` -/
theorem convertRepetitions_ok (cfg : Config) (cl : Cluster)
    (hplain : ∀ g ∈ cl, ∃ s, g = Grapheme.mk s [] 1 1) :
    ∀ g ∈ convertRepetitions cfg cl, ok cfg g = true :=
  convertRepetitions_ok' cfg cl hplain

/-- **C13 (no braces without -r)** without repetition conversion every grapheme that reaches the
trie is a plain `(1,1)` grapheme: `Display for Grapheme` has no counted branch to take -/
theorem clusters_plain_without_rep (cfg : Config) (env : Env) (ws : List Str) (hrep : cfg.rep = false) :
    ∀ cl ∈ graphemeClusters cfg env ws, ∀ g ∈ cl, g.min = 1 ∧ g.max = 1 ∧ g.reps = [] := by
  intro cl hcl g hg
  simp only [graphemeClusters, hrep] at hcl
  have plain : ∀ w, ∀ g ∈ clusterOfPieces (env.segOf w), g.min = 1 ∧ g.max = 1 ∧ g.reps = [] := by
    intro w g hg
    simp only [clusterOfPieces, List.mem_flatMap] at hg
    obtain ⟨it, _, hg⟩ := hg
    split at hg
    · simp at hg; obtain ⟨c, _, rfl⟩ := hg; exact ⟨rfl, rfl, rfl⟩
    · simp at hg; subst hg; exact ⟨rfl, rfl, rfl⟩
  by_cases hf : cfg.charClassFeature = true
  · simp only [hf, ite_true, List.map_map] at hcl
    obtain ⟨w, _, rfl⟩ := List.mem_map.mp hcl
    simp only [Function.comp] at hg
    simp only [convertClasses, List.mem_map] at hg
    obtain ⟨g0, hg0, rfl⟩ := hg
    have := plain w g0 hg0
    exact ⟨this.1, this.2.1, this.2.2⟩
  · simp only [hf] at hcl
    obtain ⟨w, _, rfl⟩ := List.mem_map.mp hcl
    exact plain w g hg

/-! non-vacuity: `aaa` with thresholds (1,1) becomes `a{3}`, with minimum repetitions 3 it stays literal -/
example : (convertRepetitions {} (List.replicate 3 (Grapheme.ofStr [97]))).map Grapheme.max = [3] := by decide
example : (convertRepetitions { minRep := 3 } (List.replicate 3 (Grapheme.ofStr [97]))).map Grapheme.max = [1, 1, 1] := by decide

/-! ## no counted quantifier in the pattern the regex crate reads -/

mutual
/-- the only repetition operator in the pattern is `?` -/
def Pat.OnlyOpt : Spec.Pat → Prop
  | .rep p mn mx g => mn = 0 ∧ mx = some 1 ∧ Pat.OnlyOpt p
  | .cat a b | .alt a b => Pat.OnlyOpt a ∧ Pat.OnlyOpt b
  | .grp _ p => Pat.OnlyOpt p
  | _ => True
end

theorem onlyOpt_catList (ps : List Spec.Pat) (h : ∀ p ∈ ps, Pat.OnlyOpt p) : Pat.OnlyOpt (Spec.catList ps) := by
  induction ps with
  | nil => trivial
  | cons p ps ih =>
    cases ps with
    | nil => exact h p List.mem_cons_self
    | cons q qs => exact ⟨h p List.mem_cons_self, ih (fun x hx => h x (List.mem_cons_of_mem _ hx))⟩

theorem onlyOpt_altList (ps : List Spec.Pat) (h : ∀ p ∈ ps, Pat.OnlyOpt p) : Pat.OnlyOpt (Spec.altList ps) := by
  induction ps with
  | nil => trivial
  | cons p ps ih =>
    cases ps with
    | nil => exact h p List.mem_cons_self
    | cons q qs => exact ⟨h p List.mem_cons_self, ih (fun x hx => h x (List.mem_cons_of_mem _ hx))⟩

theorem onlyOpt_subOf (cap esc : Bool) (outer : Nat) (e : Expr) (its : List Spec.Pat) (bd : Spec.Pat)
    (h1 : ∀ p ∈ its, Pat.OnlyOpt p) (h2 : Pat.OnlyOpt bd) : ∀ p ∈ subOf cap esc outer e its bd, Pat.OnlyOpt p := by
  unfold subOf
  split
  · intro p hp; simp only [List.mem_singleton] at hp; subst hp; exact h2
  · exact h1

theorem onlyOpt_optOf (l : List Spec.Pat) (h : ∀ p ∈ l, Pat.OnlyOpt p) : ∀ p ∈ optOf l, Pat.OnlyOpt p := by
  unfold optOf
  split
  · rename_i p
    intro q hq
    simp only [List.mem_singleton] at hq
    subst hq
    exact ⟨rfl, rfl, h p (by simp)⟩
  · exact h

mutual
theorem both_onlyOpt (cap esc : Bool) : ∀ (e : Expr), (∀ p ∈ (e.both cap esc).1, Pat.OnlyOpt p) ∧ Pat.OnlyOpt (e.both cap esc).2
  | .lit c => by
    have h : ∀ p ∈ (atomsOf c).map atomPat, Pat.OnlyOpt p := by
      intro p hp; obtain ⟨x, _, rfl⟩ := List.mem_map.mp hp; cases x <;> trivial
    simp only [Expr.both]
    exact ⟨h, onlyOpt_catList _ h⟩
  | .cls cs => by
    have h : ∀ p ∈ [Spec.Pat.set (classItems cs) false], Pat.OnlyOpt p := by
      intro p hp; simp only [List.mem_singleton] at hp; subst hp; trivial
    simp only [Expr.both]
    exact ⟨h, onlyOpt_catList _ h⟩
  | .cat a b => by
    have ia := both_onlyOpt cap esc a
    have ib := both_onlyOpt cap esc b
    have h : ∀ p ∈ subOf cap esc 2 a (a.both cap esc).1 (a.both cap esc).2 ++ subOf cap esc 2 b (b.both cap esc).1 (b.both cap esc).2, Pat.OnlyOpt p := by
      intro p hp
      simp only [List.mem_append] at hp
      rcases hp with hp | hp
      · exact onlyOpt_subOf cap esc 2 a _ _ ia.1 ia.2 p hp
      · exact onlyOpt_subOf cap esc 2 b _ _ ib.1 ib.2 p hp
    simp only [Expr.both]
    exact ⟨h, onlyOpt_catList _ h⟩
  | .rep e q => by
    have ie := both_onlyOpt cap esc e
    have h := onlyOpt_optOf _ (onlyOpt_subOf cap esc 3 e _ _ ie.1 ie.2)
    simp only [Expr.both]
    exact ⟨h, onlyOpt_catList _ h⟩
  | .alt os => by
    simp only [Expr.both]
    exact ⟨by simp, onlyOpt_altList _ (bothL_onlyOpt cap esc os)⟩
theorem bothL_onlyOpt (cap esc : Bool) : ∀ (os : List Expr), ∀ p ∈ Expr.bothL cap esc os, Pat.OnlyOpt p
  | [] => by simp [Expr.bothL]
  | o :: os => by
    intro p hp
    simp only [Expr.bothL, List.mem_cons] at hp
    rcases hp with rfl | hp
    · exact onlyOpt_catList _ (both_onlyOpt cap esc o).1
    · exact bothL_onlyOpt cap esc os p hp
end

/-- **C13 (no `{n}` / `{m,n}` without `-r`, at the level of the pattern the regex crate builds)** for every well-formed
expression, printed with any anchors, with or without capturing groups and `-e`: the parsed pattern contains no
repetition operator other than `?` — the braces of `\u{…}` escapes and escaped literal braces are not quantifiers -/
theorem no_counted_quantifier (cap esc ns ne : Bool) (e : Expr) (hwf : e.WF) :
    ∃ P, Spec.parse (fmtRegExp (cfgAnch cap esc ns ne) e) = some (⟨false, false⟩, P) ∧ Pat.OnlyOpt P := by
  refine ⟨_, parse_printedA cap esc ns ne e hwf, ?_⟩
  apply onlyOpt_catList
  intro p hp
  simp only [List.mem_append] at hp
  rcases hp with hp | hp | hp
  · unfold preA at hp; split at hp
    · simp at hp
    · simp only [List.mem_singleton] at hp; subst hp; trivial
  · unfold topItems at hp
    split at hp
    · simp only [List.mem_singleton] at hp; subst hp; exact (both_onlyOpt cap esc e).2
    · exact (both_onlyOpt cap esc e).1 p hp
  · unfold postA at hp; split at hp
    · simp at hp
    · simp only [List.mem_singleton] at hp; subst hp; trivial

theorem onlyOpt_shape (cap esc ns ne : Bool) (e : Expr) :
    Pat.OnlyOpt (Spec.catList (preA ns ++ (topItems cap esc e ++ postA ne))) := by
  apply onlyOpt_catList
  intro p hp
  simp only [List.mem_append] at hp
  rcases hp with hp | hp | hp
  · unfold preA at hp; split at hp
    · simp at hp
    · simp only [List.mem_singleton] at hp; subst hp; trivial
  · unfold topItems at hp
    split at hp
    · simp only [List.mem_singleton] at hp; subst hp; exact (both_onlyOpt cap esc e).2
    · exact (both_onlyOpt cap esc e).1 p hp
  · unfold postA at hp; split at hp
    · simp at hp
    · simp only [List.mem_singleton] at hp; subst hp; trivial

/-- **C13 (no `{n}` / `{m,n}` without `-r`), on a run, all inputs** (no repetition conversion; every subset of the class options, `-i`,
capturing groups, `-e`, any anchors; plain printing): the text `build()` returns is accepted by the model of `Regex::new` and the compiled
pattern contains no repetition operator other than `?` -/
theorem no_counted_quantifier_run (cfg : Config) (hp : PlainPrintNA cfg) (env : Env) (ws : List Str) (st : Stages)
    (h : regExpFrom cfg env ws = .ok st) (hseg : ∀ w ∈ storedCases cfg env ws, SegOK env w) (hws : ws ≠ []) :
    ∃ P, Spec.parse (fmtRegExp cfg st.finalAst) = some (⟨cfg.ci, false⟩, P) ∧ Pat.OnlyOpt P :=
  ⟨_, (run_shape_plain cfg hp env ws st h hseg hws).2, onlyOpt_shape _ _ _ _ _⟩

/-- the same in verbose mode -/
theorem no_counted_quantifier_run_verbose (cfg : Config) (hp : VerbosePrintNA cfg) (env : Env) (ws : List Str) (st : Stages)
    (h : regExpFrom cfg env ws = .ok st) (hseg : ∀ w ∈ storedCases cfg env ws, SegOK env w) (hws : ws ≠ []) :
    ∃ P, Spec.parse (fmtRegExp cfg st.finalAst) = some (⟨cfg.ci, true⟩, P) ∧ Pat.OnlyOpt P :=
  ⟨_, (run_shape_verbose cfg hp env ws st h hseg hws).2, onlyOpt_shape _ _ _ _ _⟩

/-! ## with `-r`: the thresholds in the pattern the regex crate reads -/

/-- **C13 with `-r`, at the level of the pattern the regex crate builds, all inputs** (`-r` with positive thresholds; every subset of the
class options, with or without `-i`, capturing groups, `-e`; any anchors — with both disabled whichever of its three candidates
`RegExp::from` keeps; plain printing; stored test cases of at most 1000 graphemes): the returned text is accepted by the model of
`Regex::new`, and in the compiled pattern every repetition operator is `?` or a counted repetition `{n}` / `{m,n}` whose upper count is
**strictly greater than `minimum_repetitions`** and whose operand **matches no string shorter than `minimum_substring_length`**
(`Pat.minLen_le`: `Pat.minLen` is a lower bound on the length, in code points, of every string the operand denotes; the code and
the S4 contract `ok` count *graphemes*, so for a unit of multi-code-point graphemes the pattern-level bound is the weaker of the two —
`convertRepetitions_ok` is the statement in graphemes).  The property's last clause — raising a threshold can only turn quantified parts
back into literal text — is a comparison of two runs; its contract side is `thresholds_monotone` below, the comparison of the outputs is per input.  Chain: S4 keeps the contract at every
nesting depth (`convertRepetitions_ok`), the widening merge of the trie keeps its range form (`okW_widen`), minimisation only drops
edges, `union`/`concatenate`/the elimination only take literal clusters apart and put them together (`Lemmas/WFExprQ.lean`, for an
arbitrary predicate on graphemes), and the parser reads each counted grapheme as one repetition node over its unit (`gThresh`). -/
theorem thresholds_in_pattern (cfg : Config) (hp : RepPrintNA cfg) (env : Env) (ws : List Str) (st : Stages)
    (h : regExpFrom cfg env ws = .ok st) (hseg : ∀ w ∈ storedCases cfg env ws, SegOK env w)
    (hlen : ∀ w ∈ storedCases cfg env ws, (clusterOfPieces (env.segOf w)).length ≤ 1000) (hws : ws ≠ []) :
    ∃ P, Spec.parse (fmtRegExp cfg st.finalAst) = some (⟨cfg.ci, false⟩, P) ∧ Pat.Thresh cfg.minRep cfg.minLen P :=
  rep_thresholds cfg hp env ws st h hseg
    (fun w hw => by have := hlen w hw; rwa [clusterOfPieces_eq, List.length_map] at this) hws

/-- the same in verbose mode (`-r -x`): whenever `RegExp::from` returns, the pattern the regex crate builds from the verbose text under
`(?x)` honours the thresholds — it is the very pattern of the non-verbose text -/
theorem thresholds_in_pattern_verbose (cfg : Config) (hp : RepVerbose cfg) (env : Env) (ws : List Str) (st : Stages)
    (h : regExpFrom cfg env ws = .ok st) (hseg : ∀ w ∈ storedCases cfg env ws, SegOK env w)
    (hlen : ∀ w ∈ storedCases cfg env ws, (clusterOfPieces (env.segOf w)).length ≤ 1000) (hws : ws ≠ []) :
    ∃ P, Spec.parse (fmtRegExp cfg st.finalAst) = some (⟨cfg.ci, true⟩, P) ∧ Pat.Thresh cfg.minRep cfg.minLen P :=
  rep_thresholds_verbose cfg hp env ws st h hseg
    (fun w hw => by have := hlen w hw; rwa [clusterOfPieces_eq, List.length_map] at this) hws

/-- what the contract says about what is matched: the operand of a counted repetition matches nothing shorter than the bound -/
theorem operand_length (i : Bool) (p : Spec.Pat) (s : Str) (h : Spec.Pat.denC i p s) : Grexv.Pat.minLen p ≤ s.length := Grexv.Pat.minLen_le i p s h

/-- the contract is not vacuous: `(?:ab){3}` honours thresholds (2, 2) and violates (3, 2) and (2, 3) -/
example :
    let P := Spec.Pat.rep (.grp false (.cat (.chr 97) (.chr 98))) 3 (some 3) true
    Pat.Thresh 2 2 P ∧ ¬ Pat.Thresh 3 2 P ∧ ¬ Pat.Thresh 2 3 P := by
  refine ⟨⟨Or.inr ⟨3, rfl, by decide, by decide⟩, trivial, trivial⟩, ?_, ?_⟩
  · rintro ⟨h | ⟨n, hn, h1, _⟩, _⟩
    · exact absurd h.1 (by decide)
    · simp only [Option.some.injEq] at hn; omega
  · rintro ⟨h | ⟨n, hn, _, h2⟩, _⟩
    · exact absurd h.1 (by decide)
    · simp [Pat.minLen] at h2

/-- **C13 (raising a threshold only removes quantified parts — the contract side)** the threshold contract is monotone: a pattern whose
counted quantifiers are admissible under thresholds `(r', l')` is admissible under every lower pair `(r, l)`.  Read the other way round:
a counted quantifier the contract admits after raising a threshold was admissible before, so raising can only take quantified parts away
from what the contract allows.  (That the *algorithm's* output for the raised thresholds is the old output with some quantified parts
spelled out is a comparison of two runs and is compared per input.) -/
theorem thresholds_monotone (r l r' l' : Nat) (hr : r ≤ r') (hl : l ≤ l') : ∀ (P : Spec.Pat), Pat.Thresh r' l' P → Pat.Thresh r l P := by
  intro P
  induction P with
  | rep p mn mx g ih =>
    intro h
    simp only [Pat.Thresh] at h ⊢
    refine ⟨?_, ih h.2⟩
    rcases h.1 with h1 | ⟨n, hn, hrn, hln⟩
    · exact Or.inl h1
    · exact Or.inr ⟨n, hn, by omega, by omega⟩
  | cat a b iha ihb => intro h; simp only [Pat.Thresh] at h ⊢; exact ⟨iha h.1, ihb h.2⟩
  | alt a b iha ihb => intro h; simp only [Pat.Thresh] at h ⊢; exact ⟨iha h.1, ihb h.2⟩
  | grp c p ih => intro h; simp only [Pat.Thresh] at h ⊢; exact ih h
  | _ => intro _; simp only [Pat.Thresh]

end Grexv.Props.C13
