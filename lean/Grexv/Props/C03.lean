import Grexv.Props.C09

/-!
# C03 — shorthand-class options generalise exactly as documented (conversion level)

`convChar` is the generated if-chain; C09 proves it equal to the documented conversion stated with
the regex crate's tables.  Here: the documented precedence and the "unconverted characters stay
literal" clause, for every configuration and every code point.
-/
set_option linter.unusedSimpArgs false
set_option linter.unusedVariables false
namespace Grexv.Props.C03
open Grexv Grexv.Props.C09

/-- digit beats everything -/
theorem digit_first (cfg : Config) (c : Nat) (hf : cfg.digit = true) (hc : Spec.perlMember .digit c = true) :
    convChar cfg c = tokD := by
  rw [conv_eq_spec]; simp [specToken, hf, hc]

/-- word beats whitespace and all negated classes when digit does not apply -/
theorem word_second (cfg : Config) (c : Nat) (hd : (cfg.digit && Spec.perlMember .digit c) = false)
    (hf : cfg.word = true) (hc : Spec.perlMember .word c = true) : convChar cfg c = tokW := by
  rw [conv_eq_spec]; simp [specToken, hd, hf, hc]

theorem space_third (cfg : Config) (c : Nat) (hd : (cfg.digit && Spec.perlMember .digit c) = false)
    (hw : (cfg.word && Spec.perlMember .word c) = false)
    (hf : cfg.space = true) (hc : Spec.perlMember .space c = true) : convChar cfg c = tokS := by
  rw [conv_eq_spec]; simp [specToken, hd, hw, hf, hc]

/-- a positive class that applies always wins over every negated class -/
theorem positive_before_negated (cfg : Config) (c : Nat) :
    convChar cfg c = tokND ∨ convChar cfg c = tokNW ∨ convChar cfg c = tokNS →
    (cfg.digit && Spec.perlMember .digit c) = false ∧ (cfg.word && Spec.perlMember .word c) = false ∧
      (cfg.space && Spec.perlMember .space c) = false := by
  rw [conv_eq_spec]
  unfold specToken
  intro h
  split at h
  · simp [tokD, tokND, tokNW, tokNS] at h
  · split at h
    · simp [tokW, tokND, tokNW, tokNS] at h
    · split at h
      · simp [tokS, tokND, tokNW, tokNS] at h
      · simp_all

/-- **C03 (unconverted characters stay literal)** when no enabled option applies the code point is kept -/
theorem unconverted_literal (cfg : Config) (c : Nat)
    (h1 : (cfg.digit && Spec.perlMember .digit c) = false) (h2 : (cfg.word && Spec.perlMember .word c) = false)
    (h3 : (cfg.space && Spec.perlMember .space c) = false) (h4 : (cfg.nonDigit && !Spec.perlMember .digit c) = false)
    (h5 : (cfg.nonWord && !Spec.perlMember .word c) = false) (h6 : (cfg.nonSpace && !Spec.perlMember .space c) = false) :
    convChar cfg c = [c] := by
  rw [conv_eq_spec]; simp [specToken, h1, h2, h3, h4, h5, h6]

/-- with no class option nothing is converted -/
theorem no_option_identity (cfg : Config) (c : Nat) (h : cfg.digit = false ∧ cfg.word = false ∧ cfg.space = false ∧
    cfg.nonDigit = false ∧ cfg.nonWord = false ∧ cfg.nonSpace = false) : convChar cfg c = [c] := by
  obtain ⟨a, b, c', d, e, f⟩ := h
  rw [conv_eq_spec]; simp [specToken, a, b, c', d, e, f]

/-- the output of a conversion is either one of the six tokens or the code point itself: the
length of a test case (in items) is never changed by S3 -/
theorem conv_shape (cfg : Config) (c : Nat) :
    convChar cfg c = [c] ∨ convChar cfg c ∈ [tokD, tokW, tokS, tokND, tokNW, tokNS] := by
  rw [conv_eq_spec]; unfold specToken
  repeat' split
  all_goals simp

end Grexv.Props.C03
