import Grexv.Props.C09
import Grexv.Lemmas.EndToEnd
import Grexv.Lemmas.EndToEndR

/-!
# C03 — shorthand-class options generalise exactly as documented (conversion level and end to end)

`convChar` is the generated if-chain; C09 proves it equal to the documented conversion stated with
the regex crate's tables.  Here: the documented precedence and the "unconverted characters stay
literal" clause, for every configuration and every code point.
-/
set_option linter.unusedSimpArgs false
set_option linter.unusedVariables false
namespace Grexv.Props.C03
open Grexv Grexv.Props.C09

/-- digit beats everything -/
theorem digit_first (cfg : Config) (c : Nat) (hf : cfg.digit = true) (hc : Spec.perlMember .digit c = true) :
    convChar cfg c = tokD := by
  rw [conv_eq_spec]; simp [specToken, hf, hc]

/-- word beats whitespace and all negated classes when digit does not apply -/
theorem word_second (cfg : Config) (c : Nat) (hd : (cfg.digit && Spec.perlMember .digit c) = false)
    (hf : cfg.word = true) (hc : Spec.perlMember .word c = true) : convChar cfg c = tokW := by
  rw [conv_eq_spec]; simp [specToken, hd, hf, hc]

theorem space_third (cfg : Config) (c : Nat) (hd : (cfg.digit && Spec.perlMember .digit c) = false)
    (hw : (cfg.word && Spec.perlMember .word c) = false)
    (hf : cfg.space = true) (hc : Spec.perlMember .space c = true) : convChar cfg c = tokS := by
  rw [conv_eq_spec]; simp [specToken, hd, hw, hf, hc]

/-- a positive class that applies always wins over every negated class -/
theorem positive_before_negated (cfg : Config) (c : Nat) :
    convChar cfg c = tokND ∨ convChar cfg c = tokNW ∨ convChar cfg c = tokNS →
    (cfg.digit && Spec.perlMember .digit c) = false ∧ (cfg.word && Spec.perlMember .word c) = false ∧
      (cfg.space && Spec.perlMember .space c) = false := by
  rw [conv_eq_spec]
  unfold specToken
  intro h
  split at h
  · simp [tokD, tokND, tokNW, tokNS] at h
  · split at h
    · simp [tokW, tokND, tokNW, tokNS] at h
    · split at h
      · simp [tokS, tokND, tokNW, tokNS] at h
      · simp_all

/-- **C03 (unconverted characters stay literal)** when no enabled option applies the code point is kept -/
theorem unconverted_literal (cfg : Config) (c : Nat)
    (h1 : (cfg.digit && Spec.perlMember .digit c) = false) (h2 : (cfg.word && Spec.perlMember .word c) = false)
    (h3 : (cfg.space && Spec.perlMember .space c) = false) (h4 : (cfg.nonDigit && !Spec.perlMember .digit c) = false)
    (h5 : (cfg.nonWord && !Spec.perlMember .word c) = false) (h6 : (cfg.nonSpace && !Spec.perlMember .space c) = false) :
    convChar cfg c = [c] := by
  rw [conv_eq_spec]; simp [specToken, h1, h2, h3, h4, h5, h6]

/-- with no class option nothing is converted -/
theorem no_option_identity (cfg : Config) (c : Nat) (h : cfg.digit = false ∧ cfg.word = false ∧ cfg.space = false ∧
    cfg.nonDigit = false ∧ cfg.nonWord = false ∧ cfg.nonSpace = false) : convChar cfg c = [c] := by
  obtain ⟨a, b, c', d, e, f⟩ := h
  rw [conv_eq_spec]; simp [specToken, a, b, c', d, e, f]

/-- the output of a conversion is either one of the six tokens or the code point itself: the
length of a test case (in items) is never changed by S3 -/
theorem conv_shape (cfg : Config) (c : Nat) :
    convChar cfg c = [c] ∨ convChar cfg c ∈ [tokD, tokW, tokS, tokND, tokNW, tokNS] := by
  rw [conv_eq_spec]; unfold specToken
  repeat' split
  all_goals simp

/-! ## end to end -/

/-- what a code point is documented to become: the regex crate's class tables, the documented precedence -/
def docAtom (cfg : Config) (c : Nat) : Atom :=
  if cfg.digit && Spec.perlMember .digit c then .cls .digit false
  else if cfg.word && Spec.perlMember .word c then .cls .word false
  else if cfg.space && Spec.perlMember .space c then .cls .space false
  else if cfg.nonDigit && !Spec.perlMember .digit c then .cls .digit true
  else if cfg.nonWord && !Spec.perlMember .word c then .cls .word true
  else if cfg.nonSpace && !Spec.perlMember .space c then .cls .space true
  else .chr c

/-- the conversion the code performs (generated if-chain, grex's own tables) is the documented one -/
theorem convAtom_documented (cfg : Config) (c : Nat) : convAtom cfg c = docAtom cfg c := by
  have hc := conv_eq_spec cfg c
  unfold specToken at hc
  unfold docAtom
  by_cases h1 : (cfg.digit && Spec.perlMember .digit c) = true
  · rw [if_pos h1] at hc ⊢; exact convAtom_of_token cfg c .digit false hc
  · rw [if_neg h1] at hc ⊢
    by_cases h2 : (cfg.word && Spec.perlMember .word c) = true
    · rw [if_pos h2] at hc ⊢; exact convAtom_of_token cfg c .word false hc
    · rw [if_neg h2] at hc ⊢
      by_cases h3 : (cfg.space && Spec.perlMember .space c) = true
      · rw [if_pos h3] at hc ⊢; exact convAtom_of_token cfg c .space false hc
      · rw [if_neg h3] at hc ⊢
        by_cases h4 : (cfg.nonDigit && !Spec.perlMember .digit c) = true
        · rw [if_pos h4] at hc ⊢; exact convAtom_of_token cfg c .digit true hc
        · rw [if_neg h4] at hc ⊢
          by_cases h5 : (cfg.nonWord && !Spec.perlMember .word c) = true
          · rw [if_pos h5] at hc ⊢; exact convAtom_of_token cfg c .word true hc
          · rw [if_neg h5] at hc ⊢
            by_cases h6 : (cfg.nonSpace && !Spec.perlMember .space c) = true
            · rw [if_pos h6] at hc ⊢; exact convAtom_of_token cfg c .space true hc
            · rw [if_neg h6] at hc ⊢; exact convAtom_of_id cfg c hc

/-- a string obtained from `t` by replacing every code point independently by a member of what it is documented to
be converted to (the code point itself when no option applies) -/
def Generalises (cfg : Config) (t s : Str) : Prop := atomsDen false (t.map (docAtom cfg)) s

/-- every string generalises itself: a converted code point is a member of its class (C09) -/
theorem generalises_self (cfg : Config) (t : Str) : Generalises cfg t t := by
  unfold Generalises
  induction t with
  | nil => rfl
  | cons c r ih =>
    refine ⟨c, r, rfl, ?_, ih⟩
    unfold docAtom
    repeat' split
    all_goals simp_all [atomDen, Spec.chrMatches]

/-- `Generalises` keeps the length and leaves unconverted code points alone -/
theorem generalises_length (cfg : Config) (t s : Str) (h : Generalises cfg t s) : s.length = t.length := by
  unfold Generalises at h
  induction t generalizing s with
  | nil => simp [atomsDen] at h; simp [h]
  | cons c r ih =>
    obtain ⟨x, r', rfl, _, hr⟩ := h
    simp [ih r' hr]

/-- **C03 for the model, all inputs** for every subset of the six class options (with or without capturing groups,
everything else at its default), every list of test cases containing a non-empty one, every segmentation meeting its
contract and every string `s` of scalar values: the returned text is accepted by the model of `Regex::new`, and the
compiled pattern matches `s` in full iff `s` generalises one of the non-empty test cases in the documented way — no
more, no less (the empty test case is known finding D1) -/
theorem classes_exact (cfg : Config) (hp : PlainPrint cfg) (env : Env) (ws : List Str) (st : Stages)
    (h : regExpFrom cfg env ws = .ok st) (hseg : ∀ w ∈ ws, SegOK env w) (hne : ∃ t ∈ ws, t ≠ [])
    (s : Str) (hs : ∀ c ∈ s, Scalar c) :
    ∃ P, Spec.parse (fmtRegExp cfg st.finalAst) = some (⟨false, false⟩, P) ∧
      (Spec.fullMatch false P s = true ↔ ∃ t ∈ ws, t ≠ [] ∧ Generalises cfg t s) := by
  obtain ⟨P, hP, hm⟩ := Grexv.classes_exact cfg hp env ws st h hseg hne s hs
  refine ⟨P, hP, ?_⟩
  rw [hm]
  have : ∀ t : Str, t.map (convAtom cfg) = t.map (docAtom cfg) :=
    fun t => List.map_congr_left (fun c _ => convAtom_documented cfg c)
  simp only [Generalises, this]

/-- **C03 with `-e` and/or `-i` as well**: the same statement for every subset of the class options combined with non-ASCII
escaping (no surrogate pairs) and the case-insensitive option; the test cases are the stored ones, and under `(?i)` an
unconverted code point stands for its simple-case-folding orbit -/
theorem classes_exact_all (cfg : Config) (hp : PlainPrintCI cfg) (env : Env) (ws : List Str) (st : Stages)
    (h : regExpFrom cfg env ws = .ok st) (hseg : ∀ w ∈ storedCases cfg env ws, SegOK env w)
    (hne : ∃ t ∈ storedCases cfg env ws, t ≠ []) (s : Str) (hs : ∀ c ∈ s, Scalar c) :
    ∃ P, Spec.parse (fmtRegExp cfg st.finalAst) = some (⟨cfg.ci, false⟩, P) ∧
      (Spec.fullMatch cfg.ci P s = true ↔
        ∃ t ∈ storedCases cfg env ws, t ≠ [] ∧ atomsDen cfg.ci (t.map (docAtom cfg)) s) := by
  obtain ⟨P, hP, hm⟩ := Grexv.classes_exact_ci cfg hp env ws st h hseg hne s hs
  refine ⟨P, hP, ?_⟩
  rw [hm]
  have : ∀ t : Str, t.map (convAtom cfg) = t.map (docAtom cfg) :=
    fun t => List.map_congr_left (fun c _ => convAtom_documented cfg c)
  simp only [this]

/-- **C03 in verbose mode** (at least one anchor): the same exactness statement for the verbose text, read under `(?x)` -/
theorem classes_exact_verbose (cfg : Config) (hp : VerbosePrint cfg) (env : Env) (ws : List Str) (st : Stages)
    (h : regExpFrom cfg env ws = .ok st) (hseg : ∀ w ∈ storedCases cfg env ws, SegOK env w)
    (hne : ∃ t ∈ storedCases cfg env ws, t ≠ []) (s : Str) (hs : ∀ c ∈ s, Scalar c) :
    ∃ P, Spec.parse (fmtRegExp cfg st.finalAst) = some (⟨cfg.ci, true⟩, P) ∧
      (Spec.fullMatch cfg.ci P s = true ↔
        ∃ t ∈ storedCases cfg env ws, t ≠ [] ∧ atomsDen cfg.ci (t.map (docAtom cfg)) s) := by
  obtain ⟨P, hP, hm⟩ := Grexv.classes_exact_verbose cfg hp env ws st h hseg hne s hs
  refine ⟨P, hP, ?_⟩
  rw [hm]
  have : ∀ t : Str, t.map (convAtom cfg) = t.map (docAtom cfg) :=
    fun t => List.map_congr_left (fun c _ => convAtom_documented cfg c)
  simp only [this]

/-- in particular every non-empty test case is still accepted, whatever the class options -/
theorem classes_sound (cfg : Config) (hp : PlainPrint cfg) (env : Env) (ws : List Str) (st : Stages)
    (h : regExpFrom cfg env ws = .ok st) (hseg : ∀ w ∈ ws, SegOK env w) (t : Str) (ht : t ∈ ws) (hne : t ≠ []) :
    ∃ P, Spec.parse (fmtRegExp cfg st.finalAst) = some (⟨false, false⟩, P) ∧ Spec.fullMatch false P t = true := by
  have hsc : ∀ c ∈ t, Scalar c := by
    obtain ⟨h1, h2⟩ := hseg t ht
    intro c hc
    rw [← h2] at hc
    obtain ⟨p, hp', hcp⟩ := List.mem_flatten.mp hc
    exact (h1 p hp').2 c hcp
  obtain ⟨P, hP, hm⟩ := classes_exact cfg hp env ws st h hseg ⟨t, ht, hne⟩ t hsc
  exact ⟨P, hP, hm.mpr ⟨t, ht, hne, generalises_self cfg t⟩⟩

/-- non-vacuity: `-d` on `["a1"]` gives `a\d` -/
example : (["a1".toList.map Char.toNat] : List Str).map (fun t => t.map (docAtom { digit := true })) =
    [[Atom.chr 97, Atom.cls .digit false]] := by decide +kernel

/-- **C03 with `-r`, the half "every generalisation is still matched", all inputs** (`-r` with positive thresholds, every subset of
the class options, case-sensitive, plain printing, any anchors; test cases of at most 1000 graphemes): the returned text is
accepted by the model of `Regex::new`, and the compiled pattern matches in full every string that generalises a non-empty test case
in the documented way.  (The other half does not hold with `-r`: known finding D2; what the pattern accepts is exactly what the
automaton's labels spell, `C05.repetitions_language_exact`.) -/
theorem classes_sound_with_repetitions (cfg : Config) (hp : RepPrintNA cfg) (hci : cfg.ci = false) (env : Env) (ws : List Str)
    (st : Stages) (h : regExpFrom cfg env ws = .ok st) (hseg : ∀ w ∈ ws, SegOK env w)
    (hlen : ∀ w ∈ ws, (clusterOfPieces (env.segOf w)).length ≤ 1000)
    (t : Str) (ht : t ∈ ws) (hne : t ≠ []) (s : Str) (hsc : ∀ c ∈ s, Scalar c) (hg : Generalises cfg t s) :
    ∃ P, Spec.parse (fmtRegExp cfg st.finalAst) = some (⟨false, false⟩, P) ∧ Spec.fullMatch false P s = true := by
  have hlen : ∀ w ∈ ws, (subPieces (env.segOf w)).length ≤ 1000 := fun w hw => by
    have := hlen w hw; rwa [clusterOfPieces_eq, List.length_map] at this
  have hst : storedCases cfg env ws = ws := by simp [storedCases, hci]
  have := rep_end_to_end_na cfg hp env ws st h (by rw [hst]; exact hseg) (by rw [hst]; exact hlen) t (by rw [hst]; exact ht) hne s hsc
  rw [hci] at this
  apply this
  have : ∀ u : Str, u.map (convAtom cfg) = u.map (docAtom cfg) :=
    fun u => List.map_congr_left (fun c _ => convAtom_documented cfg c)
  rw [this]
  exact hg

/-- non-vacuity: `-r -d`, and `a7` generalises `a1` there -/
example : RepPrintNA { rep := true, digit := true } ∧ Generalises { rep := true, digit := true } [97, 49] [97, 55] := by
  have e1 : docAtom { rep := true, digit := true } 97 = Atom.chr 97 := by decide +kernel
  have e2 : docAtom { rep := true, digit := true } 49 = Atom.cls .digit false := by decide +kernel
  have m1 : Spec.chrMatches false 97 97 = true := by decide +kernel
  have m2 : (Spec.perlMember .digit 55 != false) = true := by decide +kernel
  exact ⟨⟨rfl, by decide, rfl, rfl, rfl⟩, ⟨97, [55], rfl, by rw [e1]; exact m1, 55, [], rfl, by rw [e2]; exact m2, rfl⟩⟩

end Grexv.Props.C03
