import Grexv.Lemmas.TrieCarried
import Grexv.Props.C13
import Grexv.Lemmas.RepExpand
import Grexv.Lemmas.RepFuel
import Grexv.Lemmas.Pipeline
import Grexv.Lemmas.PrintCountG
import Grexv.Lemmas.RepPipeline
import Grexv.Lemmas.EndToEndR
import Grexv.Lemmas.TrieSpells

/-!
# C05 — repetition conversion is a notation change (S4 level)

The full statement is false of the code as it stands (known finding D2: the widening merge in
`find_next_state`).  Proved for all inputs and thresholds: **S4 itself is exact** — the converted cluster of
every test case stands for the same sequence of grapheme values, at every nesting depth
(`conversion_is_exact`, `clusters_with_rep_exact`), so a language change under `-r` can only come from the
stages after it; plus: the conversion only ever adds structure to a grapheme (unit, counts, thresholds).
-/
set_option linter.unusedSimpArgs false
set_option linter.unusedVariables false
namespace Grexv.Props.C05
open Grexv

/-- the nested conversion (the final loop of `replace_graphemes_with_repetitions`) changes nothing but
the `repetitions` field -/
theorem nestWith_shape (f : Cluster → Option Cluster) (gs : Cluster) :
    (nestWith f gs).map (fun g => (g.chars, g.min, g.max)) = gs.map (fun g => (g.chars, g.min, g.max)) := by
  simp [nestWith, List.map_map, Function.comp, Grapheme.chars, Grapheme.min, Grapheme.max]

/-- a grapheme created by the splice stands for `count` copies of its unit: `min = max = count`
(range quantifiers `{m,n}` arise only later, in `find_next_state`) -/
theorem splice_counts (cfg : Config) (rs : List RepRange) (acc : Cluster)
    (hacc : ∀ g ∈ acc, g.min = g.max) : ∀ g ∈ spliceLoop cfg rs acc, g.min = g.max := by
  induction rs generalizing acc with
  | nil => simpa [spliceLoop] using hacc
  | cons r rest ih =>
    obtain ⟨rng, substr⟩ := r
    unfold spliceLoop
    split
    · exact hacc
    · split
      · exact ih acc hacc
      · apply ih
        intro g hg
        simp only [splice, List.mem_append, List.mem_cons, List.mem_nil_iff, or_false] at hg
        rcases hg with (hg | hg) | hg
        · exact hacc g (List.mem_of_mem_take hg)
        · subst hg; rfl
        · exact hacc g (List.mem_of_mem_drop hg)

/-- every counted grapheme honours the thresholds at every nesting depth (see C13) -/
theorem thresholds (cfg : Config) (cl : Cluster) (hplain : ∀ g ∈ cl, ∃ s, g = Grapheme.mk s [] 1 1) :
    ∀ g ∈ convertRepetitions cfg cl, Props.C13.ok cfg g = true := Props.C13.convertRepetitions_ok cfg cl hplain

/-- without the option the conversion is not applied at all -/
theorem off_is_identity (cfg : Config) (env : Env) (ws : List Str) (h : cfg.rep = false) :
    graphemeClusters cfg env ws = graphemeClusters { cfg with rep := false } env ws := by
  cases cfg; simp_all

/-- **C05 (S4 is exact)** for every cluster of plain graphemes and every pair of thresholds, the converted cluster
expands (every counted grapheme `(unit, n, n)` to `n` copies of its unit) to the original sequence of values, and every
nested repetition is a converted form of the unit it sits in -/
theorem conversion_is_exact (cfg : Config) (ss : List Str) :
    expandAll (convertRepetitions cfg (ss.map Grapheme.ofStr)) = ss ∧
      ConsistentL (convertRepetitions cfg (ss.map Grapheme.ofStr)) := convertRepetitions_exact cfg ss

/-- **the model's recursion bound is never reached (S4)** `convert_repetitions` recurses into the unit of every counted
grapheme it creates; the model carries fuel for that recursion and would answer "nothing found" when it runs out. For a
cluster of plain graphemes — what S2/S3 hand to S4 (`preClusters_eq`) and what every recursive call receives — any two
amounts of fuel above the cluster's length give the same result: a unit has at most half the length of the cluster it
was found in, and a cluster of one grapheme has no repeated substring. So the function the model computes is the one
the unbounded recursion of the code defines, for clusters of every length and every pair of thresholds -/
theorem conversion_fuel_irrelevant (cfg : Config) (f1 f2 : Nat) (ss : List Str) (h1 : ss.length < f1) (h2 : ss.length < f2) :
    convertRepsAux cfg f1 (ss.map Grapheme.ofStr) = convertRepsAux cfg f2 (ss.map Grapheme.ofStr) :=
  convertRepsAux_fuel cfg f1 f2 ss h1 h2

/-- … in particular `GraphemeCluster::convert_repetitions` as modelled (fuel: length + 1) equals the same recursion
with any larger bound -/
theorem conversion_fuel_sufficient (cfg : Config) (ss : List Str) (k : Nat) :
    (convertRepsAux cfg ((ss.map Grapheme.ofStr).length + 1 + k) (ss.map Grapheme.ofStr)).getD (ss.map Grapheme.ofStr) =
      convertRepetitions cfg (ss.map Grapheme.ofStr) := convertRepetitions_fuel cfg ss k

/-- a unit found by S4 has at most half the length of the cluster: the reason the recursion ends -/
theorem unit_at_most_half (cfg : Config) (vals : List Str) :
    ∀ rp ∈ createRanges cfg (collectRepeated vals), rp.2.length ≤ vals.length / 2 :=
  createRanges_unit cfg _ _ (collectRepeated_keysLe vals)

/-- the sort key of `create_ranges_of_repetitions` reads the first index of an entry; every entry of the map has one
(the default the model's `headD` would supply is never used) -/
theorem repeated_substrings_have_an_index (vals : List Str) : ∀ kv ∈ collectRepeated vals, kv.2 ≠ [] :=
  collectRepeated_idxNe vals

/-- non-vacuity: a nested period (`abab abab`) — the recursion goes two levels deep with fuel 9 and the result is the
one with fuel 100 -/
example :
    let ss : List Str := [[97], [98], [97], [98], [97], [98], [97], [98]]
    (convertRepsAux {} 9 (ss.map Grapheme.ofStr)).isSome = true ∧
      convertRepsAux {} 9 (ss.map Grapheme.ofStr) = convertRepsAux {} 100 (ss.map Grapheme.ofStr) := by decide

theorem plain_cluster_form (cl : Cluster) (h : ∀ g ∈ cl, ∃ s, s ≠ [] ∧ g = Grapheme.ofStr s) :
    cl = (cl.map Grapheme.value).map Grapheme.ofStr := by
  induction cl with
  | nil => rfl
  | cons g rest ih =>
    obtain ⟨s, _, rfl⟩ := h g List.mem_cons_self
    have : (Grapheme.ofStr s).value = s := by show [s].flatten = s; simp
    simp only [List.map_cons, this]
    rw [← ih (fun x hx => h x (List.mem_cons_of_mem _ hx))]

/-- **C05 (S4 is exact, on the clusters of a run)** with `-r`, every cluster handed to the trie is the conversion of
the cluster the same run would use without `-r`, and stands for the same sequence of grapheme values -/
theorem clusters_with_rep_exact (cfg : Config) (env : Env) (ws : List Str) (hrep : cfg.rep = true)
    (hseg : ∀ w ∈ ws, ∀ p ∈ env.segOf w, p ≠ []) :
    graphemeClusters cfg env ws = (graphemeClusters { cfg with rep := false } env ws).map (convertRepetitions cfg) ∧
    ∀ cl0 ∈ graphemeClusters { cfg with rep := false } env ws,
      expandAll (convertRepetitions cfg cl0) = cl0.map Grapheme.value ∧ ConsistentL (convertRepetitions cfg cl0) := by
  constructor
  · simp only [graphemeClusters, hrep, ite_true, Bool.false_eq_true, ite_false]
    rfl
  · intro cl0 hcl0
    have hplain := clusters_ofStr { cfg with rep := false } env ws rfl hseg cl0 hcl0
    have e := plain_cluster_form cl0 hplain
    have := convertRepetitions_exact cfg (cl0.map Grapheme.value)
    rw [← e] at this
    exact this

/-! non-vacuity / the known finding as a theorem: the widening merge accepts a count no test case has -/
example : (Dfa.trie [[Grapheme.ofStr [97]], [Grapheme.mk [[97]] [] 2 2, Grapheme.ofStr [98]]]).edges.map
    (fun e => (e.label.min, e.label.max)) = [(1, 2), (1, 1)] := by decide

/-! ## the printed pattern of a counted grapheme -/

/-- **C05 at the level of the regex, one counted grapheme, all units and counts** the text `Display for Grapheme` writes for a counted
grapheme (no nested repetitions: what the widening merge and the top level of S4 produce) — `x{n}`, `x{m,n}`, `(?:unit){n}`,
`(?:unit){m,n}` — between the anchors is accepted by the model of `Regex::new`, and the compiled pattern matches a string in full iff
the string is `k` consecutive matches of the unit, `m ≤ k ≤ n`.  In particular the quantifier binds the whole unit: the printer puts
it directly behind the text exactly when the unit is one atom other than the lone backslash (`isSingleChar_iff`: one raw character,
one two-character escape, or one `\u{…}`), and behind a group otherwise. -/
theorem counted_grapheme_printed_exact (cap esc : Bool) (ass : List (List Atom)) (hok : AssOK ass) (mn mx : Nat)
    (hc : Counted mn mx) (hb : mx ≤ 1000) (i : Bool) (s : Str) :
    ∃ P, Spec.parse ([94] ++ (R (fmtLiteral (cfgPlain cap esc) [gOf ass mn mx]) ++ [36])) = some (⟨false, false⟩, P) ∧
      (Spec.fullMatch i P s = true ↔ ∃ k, mn ≤ k ∧ k ≤ mx ∧ Spec.powL (atomsDen i ass.flatten) k s) :=
  counted_grapheme_exact cap esc ass hok mn mx hc hb i s

/-- the decision of `Display for Grapheme` between `x{n}` and `(?:x…){n}` -/
theorem quantifier_binds_one_atom_only (esc : Bool) (ass : List (List Atom)) (hok : AssOK ass) (mn mx : Nat) :
    ((Expr.graphemeCharCount (Grapheme.mk (ass.map (strText esc)) [] mn mx) false == 1 ||
      ((ass.map (strText esc)).length == 1 && isSingleEscape ((ass.map (strText esc)).headD []))) = true) ↔ SingleUnit ass :=
  isSingleChar_iff esc ass hok mn mx

/-- the hypotheses are satisfiable: `a{2,3}`, `(?:ab){2}`, `\d{4}` -/
example : AssOK [[Atom.chr 97]] ∧ Counted 2 3 ∧ AssOK [[Atom.chr 97], [Atom.chr 98]] ∧ Counted 2 2 ∧
    AssOK [[Atom.cls .digit false]] ∧ Counted 4 4 := by
  refine ⟨⟨by simp, ?_⟩, Or.inl (by decide), ⟨by simp, ?_⟩, Or.inr ⟨rfl, by decide⟩, ⟨by simp, ?_⟩, Or.inr ⟨rfl, by decide⟩⟩
  · intro as has; simp at has; subst has
    exact ⟨by simp, Or.inr (by intro a ha; simp at ha; subst ha; exact ⟨by decide, Or.inl (by decide)⟩)⟩
  · intro as has; simp at has
    rcases has with rfl | rfl
    · exact ⟨by simp, Or.inr (by intro a ha; simp at ha; subst ha; exact ⟨by decide, Or.inl (by decide)⟩)⟩
    · exact ⟨by simp, Or.inr (by intro a ha; simp at ha; subst ha; exact ⟨by decide, Or.inl (by decide)⟩)⟩
  · intro as has; simp at has; subst has
    exact ⟨by simp, Or.inr (by intro a ha; simp at ha; subst ha; trivial)⟩

/-! ## the language of a whole `-r` pattern -/

/-- **C05 for the model, whole pattern, all inputs** (`-r` with positive thresholds; every subset of the class options, with or without
`-i`, capturing groups and `-e`; plain printing with at least one anchor in place; stored test cases — the test cases, lower-cased under
`-i` — of at most 1000 graphemes, one of them non-empty): the returned text is accepted by the model of `Regex::new`, and the compiled
pattern matches a string of scalar values in full **iff the minimised automaton has an accepting path whose labels spell it**, a label
`{m,n}` contributing what its atoms denote (a character, under `-i` up to simple case folding, or a member of the class that replaced
it) `k` times for some `m ≤ k ≤ n`.  Everything after the automaton — state elimination, printing with `x{m,n}` / `(?:unit){m,n}` /
nested repetitions, reading by the regex crate, matching — is exact; together with `C16.minimize_exact_with_repetitions` (the
minimisation is exact on count sequences) what `-r` accepts beyond the test cases is exactly what the widened labels of the *trie* stand
for: known finding D2 (`["a","aab"]` → `^a{1,2}b?$`) is the widening merge of `find_next_state` and nothing else. -/
theorem repetitions_language_exact (cfg : Config) (hp : RepPrint cfg) (env : Env) (ws : List Str) (st : Stages)
    (h : regExpFrom cfg env ws = .ok st) (hseg : ∀ w ∈ storedCases cfg env ws, Grexv.SegOK env w)
    (hlen : ∀ w ∈ storedCases cfg env ws, (clusterOfPieces (env.segOf w)).length ≤ 1000) (hne : ∃ t ∈ storedCases cfg env ws, t ≠ [])
    (s : Str) (hs : ∀ c ∈ s, Scalar c) :
    ∃ P, Spec.parse (fmtRegExp cfg st.finalAst) = some (⟨cfg.ci, false⟩, P) ∧
      (Spec.fullMatch cfg.ci P s = true ↔ ∃ ls, st.minimized.LangFrom st.minimized.init ls ∧ SpellsA cfg.ci ls s) :=
  rep_exact cfg hp env ws st h hseg
    (fun w hw => by have := hlen w hw; rwa [clusterOfPieces_eq, List.length_map] at this) hne s hs

/-- **C05 for the model, whole pattern, in terms of the trie** (same settings): the compiled pattern matches a non-empty string of
scalar values in full **iff the trie — the automaton of S5, before minimisation — has an accepting path whose labels spell it**.
Minimisation, state elimination, printing, reading and matching are exact; the only place where `-r` changes the language is the widening
merge of `find_next_state`, which turns the labels `a` and `a{2}` of one edge into `a{1,2}` (known finding D2).  The empty string is
excluded: the minimisation drops an empty test case (known finding D1). -/
theorem repetitions_language_is_trie_language (cfg : Config) (hp : RepPrint cfg) (env : Env) (ws : List Str) (st : Stages)
    (h : regExpFrom cfg env ws = .ok st) (hseg : ∀ w ∈ storedCases cfg env ws, Grexv.SegOK env w)
    (hlen : ∀ w ∈ storedCases cfg env ws, (clusterOfPieces (env.segOf w)).length ≤ 1000) (hne : ∃ t ∈ storedCases cfg env ws, t ≠ [])
    (s : Str) (hs : ∀ c ∈ s, Scalar c) (hsne : s ≠ []) :
    ∃ P, Spec.parse (fmtRegExp cfg st.finalAst) = some (⟨cfg.ci, false⟩, P) ∧
      (Spec.fullMatch cfg.ci P s = true ↔ ∃ ls, st.trie.LangFrom st.trie.init ls ∧ SpellsA cfg.ci ls s) :=
  rep_exact_trie cfg hp env ws st h hseg
    (fun w hw => by have := hlen w hw; rwa [clusterOfPieces_eq, List.length_map] at this) hne s hs hsne

/-- **every accepting path of the `-r` trie carries a converted test case** (all inputs, any thresholds): the trie is a tree, every final
state is the end of the path of an inserted cluster, and a state of a tree has one access path — so a label sequence of the trie's
language is, label by label, the characters of a converted test case with a range of counts containing its count.  Whatever `-r`
accepts beyond the test cases comes from *ranges* `{m,n}`, `m < n`, on labels, and from nothing else. -/
theorem accepting_paths_carry_test_cases (cls : List Cluster) (hcls : ∀ cl ∈ cls, ∀ g ∈ cl, g.min = g.max) (w : Word)
    (h : (Dfa.trie cls).LangFrom (Dfa.trie cls).init w) : ∃ cl ∈ cls, Dfa.CarriesL w cl :=
  Dfa.trie_lang_carried cls hcls w h

/-- **C05, where it holds, all inputs** (`-r` with positive thresholds, every subset of the class options, with or without `-i`, capturing
groups and `-e`, plain printing with an anchor in place; stored test cases of at most 1000 graphemes, one of them non-empty): **if no
edge of the trie of the `-r` build carries a range of counts** — the widening merge of `find_next_state` never fired — the build with `-r`
and the build without it return texts the model of `Regex::new` accepts, and the two compiled patterns match exactly the same non-empty
strings of scalar values in full.  Known finding D2 is the complement: `["a","aab"]` has the label `a{1,2}`. -/
theorem repetitions_keep_language_without_ranges (cfg : Config) (hp : RepPrint (withRep cfg true)) (env : Env) (ws : List Str)
    (stR st0 : Stages) (hR : regExpFrom (withRep cfg true) env ws = .ok stR) (h0 : regExpFrom (withRep cfg false) env ws = .ok st0)
    (hseg : ∀ w ∈ storedCases cfg env ws, Grexv.SegOK env w)
    (hlen : ∀ w ∈ storedCases cfg env ws, (clusterOfPieces (env.segOf w)).length ≤ 1000)
    (hne : ∃ t ∈ storedCases cfg env ws, t ≠ [])
    (hnr : ∀ e ∈ stR.trie.edges, e.label.min = e.label.max)
    (s : Str) (hs : ∀ c ∈ s, Scalar c) (hsne : s ≠ []) :
    ∃ PR P0, Spec.parse (fmtRegExp (withRep cfg true) stR.finalAst) = some (⟨cfg.ci, false⟩, PR) ∧
      Spec.parse (fmtRegExp (withRep cfg false) st0.finalAst) = some (⟨cfg.ci, false⟩, P0) ∧
      Spec.fullMatch cfg.ci PR s = Spec.fullMatch cfg.ci P0 s :=
  rep_same_language_no_range cfg hp env ws stR st0 hR h0 hseg
    (fun w hw => by have := hlen w hw; rwa [clusterOfPieces_eq, List.length_map] at this) hne hnr s hs hsne

/-- **C05, the bound on what `-r` adds** (same settings): every non-empty string the `-r` pattern matches in full has the shape of a stored
test case — it is spelled by labels that carry the test case's converted cluster: the same units in the same order, each repeated a
number of times taken from a range that contains the test case's own count -/
theorem repetitions_accept_only_test_case_shapes (cfg : Config) (hp : RepPrint cfg) (env : Env) (ws : List Str) (st : Stages)
    (h : regExpFrom cfg env ws = .ok st) (hseg : ∀ w ∈ storedCases cfg env ws, Grexv.SegOK env w)
    (hlen : ∀ w ∈ storedCases cfg env ws, (clusterOfPieces (env.segOf w)).length ≤ 1000) (hne : ∃ t ∈ storedCases cfg env ws, t ≠ [])
    (s : Str) (hs : ∀ c ∈ s, Scalar c) (hsne : s ≠ []) :
    ∃ P, Spec.parse (fmtRegExp cfg st.finalAst) = some (⟨cfg.ci, false⟩, P) ∧
      (Spec.fullMatch cfg.ci P s = true →
        ∃ t ∈ storedCases cfg env ws, ∃ ls : Word,
          Dfa.CarriesL ls (convertRepetitions cfg ((subPieces (env.segOf t)).map (fun p => Grapheme.ofStr (p.flatMap (convChar cfg))))) ∧
          SpellsA cfg.ci ls s) :=
  rep_accepts_shape cfg hp env ws st h hseg
    (fun w hw => by have := hlen w hw; rwa [clusterOfPieces_eq, List.length_map] at this) hne s hs hsne

/-- the hypothesis is satisfiable and not always true: `["aaa","b"]` builds a trie without a range label, `["a","aab"]` one with `a{1,2}` -/
example :
    let env : Env := { lowerOf := id, segOf := fun w => w.map fun c => [c] }
    (match regExpFrom { rep := true } env [strOf "aaa", strOf "b"] with
      | .ok st => some (st.trie.edges.all fun e => e.label.min == e.label.max)
      | .error _ => none) = some true ∧
    (match regExpFrom { rep := true } env [strOf "a", strOf "aab"] with
      | .ok st => some (st.trie.edges.all fun e => e.label.min == e.label.max)
      | .error _ => none) = some false := by decide +kernel

/-- read literally: case-sensitive and with no backslash in a label, a label `{m,n}` contributes its characters `k` times -/
theorem spells_literally (ls : Word) (s : Str) (h : ∀ l ∈ ls, ∀ x ∈ l.chars, 92 ∉ x) : SpellsA false ls s ↔ Dfa.Spells ls s :=
  spellsA_literal ls s h

/-- `a{1,2}b?` read on the labels: the label sequence `a{1,2}, b` spells `ab` and `aab` and not `b` -/
example : SpellsA false [⟨[[97]], [], 1, 2⟩, ⟨[[98]], [], 1, 1⟩] [97, 97, 98] ∧ ¬ SpellsA false [⟨[[97]], [], 1, 2⟩, ⟨[[98]], [], 1, 1⟩] [98] := by
  have hpl : ∀ l ∈ ([⟨[[97]], [], 1, 2⟩, ⟨[[98]], [], 1, 1⟩] : Word), ∀ x ∈ l.chars, 92 ∉ x := by
    intro l hl x hx
    simp only [List.mem_cons, List.not_mem_nil, or_false] at hl
    rcases hl with rfl | rfl <;> simp only [Grapheme.chars, List.mem_singleton] at hx <;> subst hx <;> decide
  rw [spellsA_literal _ _ hpl, spellsA_literal _ _ hpl]
  constructor
  · exact ⟨2, [98], by decide, by decide, rfl, 1, [], by decide, by decide, rfl, rfl⟩
  · rintro ⟨k, v, h1, _, h3, _⟩
    simp only [Grapheme.min] at h1
    cases k with
    | zero => omega
    | succ n => simp [Grapheme.chars, List.replicate_succ] at h3

end Grexv.Props.C05
