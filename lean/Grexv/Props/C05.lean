import Grexv.Props.C13

/-!
# C05 — repetition conversion is a notation change (S4 level)

The full statement is false of the code as it stands (known finding D2: the widening merge in
`find_next_state`).  Proved for all inputs and thresholds: the conversion only ever *adds*
structure to a grapheme — unit, counts and thresholds — and its nested conversion keeps the outer
unit and counts.
-/
set_option linter.unusedSimpArgs false
set_option linter.unusedVariables false
namespace Grexv.Props.C05
open Grexv

/-- the nested conversion (the final loop of `replace_graphemes_with_repetitions`) changes nothing but
the `repetitions` field -/
theorem nestWith_shape (f : Cluster → Option Cluster) (gs : Cluster) :
    (nestWith f gs).map (fun g => (g.chars, g.min, g.max)) = gs.map (fun g => (g.chars, g.min, g.max)) := by
  simp [nestWith, List.map_map, Function.comp, Grapheme.chars, Grapheme.min, Grapheme.max]

/-- a grapheme created by the splice stands for `count` copies of its unit: `min = max = count`
(range quantifiers `{m,n}` arise only later, in `find_next_state`) -/
theorem splice_counts (cfg : Config) (rs : List RepRange) (acc : Cluster)
    (hacc : ∀ g ∈ acc, g.min = g.max) : ∀ g ∈ spliceLoop cfg rs acc, g.min = g.max := by
  induction rs generalizing acc with
  | nil => simpa [spliceLoop] using hacc
  | cons r rest ih =>
    obtain ⟨rng, substr⟩ := r
    unfold spliceLoop
    split
    · exact hacc
    · split
      · exact ih acc hacc
      · apply ih
        intro g hg
        simp only [splice, List.mem_append, List.mem_cons, List.mem_nil_iff, or_false] at hg
        rcases hg with (hg | hg) | hg
        · exact hacc g (List.mem_of_mem_take hg)
        · subst hg; rfl
        · exact hacc g (List.mem_of_mem_drop hg)

/-- every counted grapheme honours the thresholds at every nesting depth (see C13) -/
theorem thresholds (cfg : Config) (cl : Cluster) (hplain : ∀ g ∈ cl, ∃ s, g = Grapheme.mk s [] 1 1) :
    ∀ g ∈ convertRepetitions cfg cl, Props.C13.ok cfg g = true := Props.C13.convertRepetitions_ok cfg cl hplain

/-- without the option the conversion is not applied at all -/
theorem off_is_identity (cfg : Config) (env : Env) (ws : List Str) (h : cfg.rep = false) :
    graphemeClusters cfg env ws = graphemeClusters { cfg with rep := false } env ws := by
  cases cfg; simp_all

/-! non-vacuity / the known finding as a theorem: the widening merge accepts a count no test case has -/
example : (Dfa.trie [[Grapheme.ofStr [97]], [Grapheme.mk [[97]] [] 2 2, Grapheme.ofStr [98]]]).edges.map
    (fun e => (e.label.min, e.label.max)) = [(1, 2), (1, 1)] := by decide

end Grexv.Props.C05
