import Grexv.Model.RegExp
import Grexv.Lemmas.Ranges

/-!
# C09 — digit / word / space classification agrees with the regex crate on every code point

`Gen.grex*` are generated from /repo/src/unicode_tables/*.rs, `Gen.rx*` from the regex-syntax
version pinned in /repo/Cargo.lock, `Gen.convRules` from the if-chain of
`convert_to_char_classes`; all on every run.  The quantifier `∀ c` is over all natural numbers
(hence all scalar values); nothing is enumerated.
-/
set_option linter.unusedSimpArgs false
set_option linter.unusedVariables false
namespace Grexv.Props.C09
open Grexv

/-! ## the tables denote the same sets (kernel evaluation of the normalised range lists) -/

theorem digit_tables : normRanges Gen.grexDigit = normRanges Gen.rxDigit := by decide +kernel
theorem space_tables : normRanges Gen.grexSpace = normRanges Gen.rxSpace := by decide +kernel
theorem word_tables : normRanges Gen.grexWord = normRanges Gen.rxWord := by decide +kernel

theorem isDigit_eq (c : Nat) : isDigit c = Spec.perlMember .digit c :=
  inRanges_eq_of_norm_eq digit_tables c
theorem isSpace_eq (c : Nat) : isSpace c = Spec.perlMember .space c :=
  inRanges_eq_of_norm_eq space_tables c
theorem isWord_eq (c : Nat) : isWord c = Spec.perlMember .word c :=
  inRanges_eq_of_norm_eq word_tables c

/-! ## the documented conversion, stated with the regex crate's classes -/

def tokD : Str := [92, 100]
def tokW : Str := [92, 119]
def tokS : Str := [92, 115]
def tokND : Str := [92, 68]
def tokNW : Str := [92, 87]
def tokNS : Str := [92, 83]

/-- documented precedence: digit, word, whitespace, then non-digit, non-word, non-whitespace -/
def specToken (cfg : Config) (c : Nat) : Str :=
  if cfg.digit && Spec.perlMember .digit c then tokD
  else if cfg.word && Spec.perlMember .word c then tokW
  else if cfg.space && Spec.perlMember .space c then tokS
  else if cfg.nonDigit && !Spec.perlMember .digit c then tokND
  else if cfg.nonWord && !Spec.perlMember .word c then tokNW
  else if cfg.nonSpace && !Spec.perlMember .space c then tokNS
  else [c]

/-- **C09 (conversion)** for every configuration and every code point the code's if-chain
(as generated from the source) produces exactly the documented token. -/
theorem conv_eq_spec (cfg : Config) (c : Nat) : convChar cfg c = specToken cfg c := by
  simp only [convChar, Gen.convRules, convCharRules, flagOf, classTable, isDigit_eq, isSpace_eq, isWord_eq,
    specToken, tokD, tokW, tokS, tokND, tokNW, tokNS]
  cases cfg.digit <;> cases cfg.word <;> cases cfg.space <;> cases cfg.nonDigit <;> cases cfg.nonWord <;>
    cases cfg.nonSpace <;> cases Spec.perlMember .digit c <;> cases Spec.perlMember .word c <;>
    cases Spec.perlMember .space c <;> simp

/-- which Perl class a token stands for -/
def tokenClass (t : Str) : Option (Spec.ClassKind × Bool) :=
  if t = tokD then some (.digit, false) else if t = tokND then some (.digit, true)
  else if t = tokW then some (.word, false) else if t = tokNW then some (.word, true)
  else if t = tokS then some (.space, false) else if t = tokNS then some (.space, true)
  else none

/-- **C09 (soundness of a conversion)** whenever a code point is rewritten to a shorthand class,
the regex crate's class of that name (negated where applicable) contains it. -/
theorem conv_mem (cfg : Config) (c : Nat) (k : Spec.ClassKind) (neg : Bool)
    (h : tokenClass (convChar cfg c) = some (k, neg)) : (Spec.perlMember k c != neg) = true := by
  rw [conv_eq_spec] at h
  unfold specToken at h
  split at h
  · rename_i h1; simp [tokenClass, tokD, tokND, tokW, tokNW, tokS, tokNS] at h; obtain ⟨rfl, rfl⟩ := h; simp_all
  · split at h
    · rename_i h1; simp [tokenClass, tokD, tokND, tokW, tokNW, tokS, tokNS] at h; obtain ⟨rfl, rfl⟩ := h; simp_all
    · split at h
      · rename_i h1; simp [tokenClass, tokD, tokND, tokW, tokNW, tokS, tokNS] at h; obtain ⟨rfl, rfl⟩ := h; simp_all
      · split at h
        · rename_i h1; simp [tokenClass, tokD, tokND, tokW, tokNW, tokS, tokNS] at h; obtain ⟨rfl, rfl⟩ := h; simp_all
        · split at h
          · rename_i h1; simp [tokenClass, tokD, tokND, tokW, tokNW, tokS, tokNS] at h; obtain ⟨rfl, rfl⟩ := h; simp_all
          · split at h
            · rename_i h1; simp [tokenClass, tokD, tokND, tokW, tokNW, tokS, tokNS] at h; obtain ⟨rfl, rfl⟩ := h; simp_all
            · simp [tokenClass, tokD, tokND, tokW, tokNW, tokS, tokNS] at h

/-- **C09 (iff, single option)** with only `digits` enabled, `c` becomes `\d` iff the regex crate's `\d` contains it -/
theorem digit_iff (c : Nat) : convChar { digit := true } c = tokD ↔ Spec.perlMember .digit c = true := by
  rw [conv_eq_spec]; simp [specToken, tokD]
theorem word_iff (c : Nat) : convChar { word := true } c = tokW ↔ Spec.perlMember .word c = true := by
  rw [conv_eq_spec]; simp [specToken, tokW]
theorem space_iff (c : Nat) : convChar { space := true } c = tokS ↔ Spec.perlMember .space c = true := by
  rw [conv_eq_spec]; simp [specToken, tokS]
theorem nonDigit_iff (c : Nat) : convChar { nonDigit := true } c = tokND ↔ Spec.perlMember .digit c = false := by
  rw [conv_eq_spec]; simp [specToken, tokND]
theorem nonWord_iff (c : Nat) : convChar { nonWord := true } c = tokNW ↔ Spec.perlMember .word c = false := by
  rw [conv_eq_spec]; simp [specToken, tokNW]
theorem nonSpace_iff (c : Nat) : convChar { nonSpace := true } c = tokNS ↔ Spec.perlMember .space c = false := by
  rw [conv_eq_spec]; simp [specToken, tokNS]

/-- the whole cluster conversion is the pointwise map -/
theorem convertClasses_chars (cfg : Config) (g : Grapheme) :
    ((convertClasses cfg [g]).map Grapheme.chars) = [g.chars.map fun it => it.flatMap (specToken cfg)] := by
  have h : convChar cfg = specToken cfg := funext (conv_eq_spec cfg)
  cases g; simp [convertClasses, Grapheme.chars, h]

/-! ## non-vacuity: the statements have content on concrete code points -/
example : convChar { digit := true } 0x663 = tokD := by decide +kernel            -- ARABIC-INDIC DIGIT THREE
example : convChar { digit := true, word := true } 0x61 = tokW := by decide +kernel
example : convChar { nonDigit := true, space := true } 0x2028 = tokS := by decide +kernel
example : convChar { nonWord := true } 0x61 = [0x61] := by decide +kernel
example : tokenClass (convChar { nonSpace := true } 0x61) = some (.space, true) := by decide +kernel

end Grexv.Props.C09
