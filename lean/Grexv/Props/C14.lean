import Grexv.Model.Api
import Grexv.Gen.SettersPy

/-!
# C14 — the Python binding returns the library's pattern in Python escape syntax

Setters: `Gen.pySetters` (src/python.rs) against `Gen.rsSetters` (src/builder.rs), regenerated on
every run.  Rewrite: `pyRewrite` is the hand-written model of `replace_unicode_escape_sequences`
(tied to the code by the Y stream through the real extension in CPython).
-/
set_option linter.unusedSimpArgs false
set_option linter.unusedVariables false
namespace Grexv.Props.C14
open Grexv Gen

/-- **C14 (setters)** for a non-negative integer argument (all a `u32` can hold) and any other
argument, the Python method and the library method have the same effect and the same error -/
theorem py_setter_eq (id : SetterId) (arg : Arg) (cfg : Config)
    (h : ∀ i, arg = .int i → 0 ≤ i) (hid : id ≠ .syntaxHighlighting) :
    applySetter pySetters id arg cfg = applySetter rsSetters id arg cfg := by
  cases id <;> first
    | (exact absurd rfl hid)
    | rfl
    | (cases arg with
       | none => rfl
       | bool b => rfl
       | int i =>
         have hi := h i rfl
         simp only [applySetter, findSetter, pySetters, rsSetters, List.find?, runBody, runStmt, Option.map]
         by_cases h0 : i = 0
         · subst h0; simp [runBody, runStmt]
         · have : ¬ i ≤ 0 := by omega
           simp [runBody, runStmt, h0, this])

/-- **C14 (errors)** a non-positive threshold raises `ValueError` with the library's message -/
theorem py_nonpositive_min_rep (i : Int) (h : i ≤ 0) (cfg : Config) :
    applySetter pySetters .minRepetitions (.int i) cfg = some (.error .minRep) := by
  simp [applySetter, findSetter, pySetters, runBody, runStmt, h]
theorem py_nonpositive_min_len (i : Int) (h : i ≤ 0) (cfg : Config) :
    applySetter pySetters .minSubstringLength (.int i) cfg = some (.error .minLen) := by
  simp [applySetter, findSetter, pySetters, runBody, runStmt, h]

/-- the constructor rejects an empty list with the library's message; `build` rewrites iff escaping is on -/
theorem py_new_and_build : pyNewRejectsEmpty = true ∧ pyBuildRewritesWhenEscaped = true := ⟨rfl, rfl⟩

/-- every library setter except the CLI-only syntax highlighting exists in the Python class -/
theorem py_setters_complete (id : SetterId) (hid : id ≠ .syntaxHighlighting) :
    (findSetter pySetters id).isSome = true := by
  cases id <;> first | (exact absurd rfl hid) | rfl

/-! ## the rewrite of one escape -/

/-- `{:04x}` / `{:08x}` produce exactly 4 / 8 digits for values in range -/
theorem padHex_length (w n : Nat) (h : (toHex n).length ≤ w) : (padHex w n).length = w := by
  simp [padHex]; omega

/-- **C14 (rewrite, single escape)** an escape with 1–6 lower-case hex digits followed by `}` is
replaced by `\u` + 4 digits when the value is at most 0xFFFF and by `\U` + 8 digits otherwise;
the text after it is rewritten in turn -/
theorem pyRewrite_escape (fuel : Nat) (ds rest : Str)
    (hd : ∀ d ∈ ds, isLowerHex d = true) (hl : 1 ≤ ds.length ∧ ds.length ≤ 6) :
    pyRewrite (fuel + 1) ([92, 117, 123] ++ ds ++ 125 :: rest) =
      (if hexValue ds ≤ 0xFFFF then [92, 117] ++ padHex 4 (hexValue ds) else [92, 85] ++ padHex 8 (hexValue ds))
        ++ pyRewrite fuel rest := by
  have hnot : isLowerHex 125 = false := by decide
  have htw : List.takeWhile isLowerHex (ds ++ 125 :: rest) = ds := by
    rw [List.takeWhile_append_of_pos hd]; simp [List.takeWhile, hnot]
  have hdw : List.dropWhile isLowerHex (ds ++ 125 :: rest) = 125 :: rest := by
    rw [List.dropWhile_append_of_pos hd]; simp [List.dropWhile, hnot]
  simp only [List.cons_append, List.nil_append, pyRewrite, htw, hdw]
  simp [hl.1, hl.2]

/-- text that does not start an escape is copied -/
theorem pyRewrite_other (fuel c : Nat) (rest : Str) (h : c ≠ 92) :
    pyRewrite (fuel + 1) (c :: rest) = c :: pyRewrite fuel rest := by
  rw [pyRewrite]
  intro r hc _
  exact absurd hc h

/-! non-vacuity: `\u{e9}` → `é`, `\u{10ffff}` → `\U0010ffff`, an escaped literal is left alone -/
example : pyRewrite 20 (strOf "^\\u{e9}$") = strOf "^\\u00e9$" := by decide
example : pyRewrite 20 (strOf "\\u{10ffff}") = strOf "\\U0010ffff" := by decide
example : pyRewrite 20 (strOf "\\\\u\\{e9\\}") = strOf "\\\\u\\{e9\\}" := by decide
example : applySetter pySetters .minRepetitions (.int 3) {} = some (.ok { minRep := 3 }) := rfl

end Grexv.Props.C14
