import Grexv.Model.Api
import Grexv.Gen.SettersPy
import Grexv.Lemmas.PyOut
import Grexv.Lemmas.EndToEndR

/-!
# C14 — the Python binding returns the library's pattern in Python escape syntax

Setters: `Gen.pySetters` (src/python.rs) against `Gen.rsSetters` (src/builder.rs), regenerated on
every run.  Rewrite: `pyRewrite` is the hand-written model of `replace_unicode_escape_sequences`
(tied to the code by the Y stream through the real extension in CPython).

Whole pattern (`python_rewrite_is_tokenwise`, `python_build`, `python_class_faithful`): the text `build()` returns is a sequence of pattern tokens — a
character other than the backslash, a backslash with the character it escapes, `\u{h…}` — and what Python returns under `-e` is that
sequence with each `\u{h…}` token in Python's form and every other token unchanged (`PyEmit`; the reading into tokens is unique:
`PyEmit.unique`).  For every non-empty list of test cases (segmentation contract `SegOK`; with `-r`: positive thresholds and at most 1000
graphemes per stored test case) and every setting the Python class has: class options, `-i`, `-r`, capturing groups, verbose mode,
anchors, surrogate pairs.  Found while proving it: an escaped backslash in front of `u{2}` (test case `\uu` with
`-r -e`) was read as the escape `\u{2}` (fixed in python.rs; see known_findings.json).
-/
set_option linter.unusedSimpArgs false
set_option linter.unusedVariables false
namespace Grexv.Props.C14
open Grexv Gen

/-- **C14 (setters)** for a non-negative integer argument (all a `u32` can hold) and any other
argument, the Python method and the library method have the same effect and the same error -/
theorem py_setter_eq (id : SetterId) (arg : Arg) (cfg : Config)
    (h : ∀ i, arg = .int i → 0 ≤ i) (hid : id ≠ .syntaxHighlighting) :
    applySetter pySetters id arg cfg = applySetter rsSetters id arg cfg := by
  cases id <;> first
    | (exact absurd rfl hid)
    | rfl
    | (cases arg with
       | none => rfl
       | bool b => rfl
       | int i =>
         have hi := h i rfl
         simp only [applySetter, findSetter, pySetters, rsSetters, List.find?, runBody, runStmt, Option.map]
         by_cases h0 : i = 0
         · subst h0; simp [runBody, runStmt]
         · have : ¬ i ≤ 0 := by omega
           simp [runBody, runStmt, h0, this])

/-- a sequence of setter calls on one of the front ends -/
def runSetters (api : List Setter) : List (SetterId × Arg) → Config → Except Msg Config
  | [], cfg => .ok cfg
  | (id, a) :: rest, cfg =>
    match applySetter api id a cfg with
    | some (.ok cfg') => runSetters api rest cfg'
    | some (.error m) => .error m
    | none => runSetters api rest cfg

/-- **C14 (call sequences)** any sequence of setter calls of the Python class (integer arguments non-negative) leaves the configuration the
same calls leave in the library, or raises at the same call with the same message; together with `python_build` below: for every input
and every sequence of setter calls the Python class returns the library's pattern in Python escape syntax -/
theorem py_history_eq (ops : List (SetterId × Arg)) (cfg : Config)
    (h : ∀ op ∈ ops, (∀ i, op.2 = .int i → 0 ≤ i) ∧ op.1 ≠ .syntaxHighlighting) :
    runSetters pySetters ops cfg = runSetters rsSetters ops cfg := by
  induction ops generalizing cfg with
  | nil => rfl
  | cons op rest ih =>
    obtain ⟨id, a⟩ := op
    have h1 := h (id, a) (List.mem_cons_self)
    simp only [runSetters, py_setter_eq id a cfg h1.1 h1.2]
    have ih' := fun cfg' => ih cfg' (fun op hop => h op (List.mem_cons_of_mem _ hop))
    cases applySetter rsSetters id a cfg with
    | none => exact ih' cfg
    | some r => cases r with
      | ok c => exact ih' c
      | error m => rfl

/-- no method of the Python class switches syntax highlighting on (it has none for it) -/
theorem py_setter_keeps_colour (id : SetterId) (arg : Arg) (cfg c1 : Config)
    (h : applySetter pySetters id arg cfg = some (.ok c1)) : c1.color = cfg.color := by
  cases id <;> cases arg <;>
    simp [applySetter, findSetter, pySetters, runBody, runStmt, Config.setBool, Config.setNat] at h
  all_goals first
    | (subst h; rfl)
    | (rename_i n; by_cases hn : n ≤ 0
       · simp [hn] at h
       · simp [hn] at h; subst h; rfl)
    | (rename_i b; cases b <;> simp at h <;> subst h <;> rfl)

theorem py_history_no_colour (ops : List (SetterId × Arg)) (cfg c1 : Config) (hc : cfg.color = false)
    (h : runSetters pySetters ops cfg = .ok c1) : c1.color = false := by
  induction ops generalizing cfg with
  | nil => simp only [runSetters, Except.ok.injEq] at h; subst h; exact hc
  | cons op rest ih =>
    obtain ⟨id, a⟩ := op
    simp only [runSetters] at h
    cases hs : applySetter pySetters id a cfg with
    | none => rw [hs] at h; exact ih cfg hc h
    | some r =>
      rw [hs] at h
      cases r with
      | error m => cases h
      | ok c => exact ih c (by rw [py_setter_keeps_colour id a cfg c hs]; exact hc) h

/-- **C14 (errors)** a non-positive threshold raises `ValueError` with the library's message -/
theorem py_nonpositive_min_rep (i : Int) (h : i ≤ 0) (cfg : Config) :
    applySetter pySetters .minRepetitions (.int i) cfg = some (.error .minRep) := by
  simp [applySetter, findSetter, pySetters, runBody, runStmt, h]
theorem py_nonpositive_min_len (i : Int) (h : i ≤ 0) (cfg : Config) :
    applySetter pySetters .minSubstringLength (.int i) cfg = some (.error .minLen) := by
  simp [applySetter, findSetter, pySetters, runBody, runStmt, h]

/-- the constructor rejects an empty list with the library's message; `build` rewrites iff escaping is on -/
theorem py_new_and_build : pyNewRejectsEmpty = true ∧ pyBuildRewritesWhenEscaped = true := ⟨rfl, rfl⟩

/-- every library setter except the CLI-only syntax highlighting exists in the Python class -/
theorem py_setters_complete (id : SetterId) (hid : id ≠ .syntaxHighlighting) :
    (findSetter pySetters id).isSome = true := by
  cases id <;> first | (exact absurd rfl hid) | rfl

/-! ## the rewrite of one escape -/

/-- `{:04x}` / `{:08x}` produce exactly 4 / 8 digits for values in range -/
theorem padHex_length (w n : Nat) (h : (toHex n).length ≤ w) : (padHex w n).length = w := by
  simp [padHex]; omega

/-- **C14 (rewrite, single escape)** an escape with 1–6 lower-case hex digits followed by `}` is
replaced by `\u` + 4 digits when the value is at most 0xFFFF and by `\U` + 8 digits otherwise;
the text after it is rewritten in turn -/
theorem pyRewrite_escape (fuel : Nat) (ds rest : Str)
    (hd : ∀ d ∈ ds, isLowerHex d = true) (hl : 1 ≤ ds.length ∧ ds.length ≤ 6) :
    pyRewrite (fuel + 1) ([92, 117, 123] ++ ds ++ 125 :: rest) =
      (if hexValue ds ≤ 0xFFFF then [92, 117] ++ padHex 4 (hexValue ds) else [92, 85] ++ padHex 8 (hexValue ds))
        ++ pyRewrite fuel rest := by
  have hnot : isLowerHex 125 = false := by decide
  have htw : List.takeWhile isLowerHex (ds ++ 125 :: rest) = ds := by
    rw [List.takeWhile_append_of_pos hd]; simp [List.takeWhile, hnot]
  have hdw : List.dropWhile isLowerHex (ds ++ 125 :: rest) = 125 :: rest := by
    rw [List.dropWhile_append_of_pos hd]; simp [List.dropWhile, hnot]
  simp only [List.cons_append, List.nil_append, pyRewrite, htw, hdw]
  simp [hl.1, hl.2]

/-- text that does not start an escape is copied -/
theorem pyRewrite_other (fuel c : Nat) (rest : Str) (h : c ≠ 92) :
    pyRewrite (fuel + 1) (c :: rest) = c :: pyRewrite fuel rest := pyRewrite_plain fuel c rest h

/-- an escaped backslash is copied as a whole: what follows it is not read as an escape -/
theorem pyRewrite_escaped_backslash (fuel : Nat) (rest : Str) :
    pyRewrite (fuel + 1) (92 :: 92 :: rest) = 92 :: 92 :: pyRewrite fuel rest := pyRewrite_bs2 fuel rest

/-! ## the whole pattern -/

/-- **C14 (each escape the printer writes is one token of the rewrite)** for a scalar value above U+007F: `\u{h…}` ↦ `\uXXXX` /
`\UXXXXXXXX`; with surrogate pairs, two such tokens -/
theorem printed_escape_is_token (c : Nat) (h : 128 ≤ c) (hs : c ≤ 0x10FFFF) :
    PyEmit (Expr.escapeChar c false) (pyEscape c) := by
  have : Expr.escapeChar c false = [92, 117, 123] ++ toHex c ++ 125 :: [] := by
    unfold Expr.escapeChar
    rw [if_neg (by omega)]
    simp
  rw [this]
  have := PyEmit.uni c hs PyEmit.nil
  simpa using this

/-- **C14 (whole pattern, every expression)** for every expression whose literals are made of atoms (a lone backslash, or code points
other than the backslash and class tokens — what the pipeline produces: `final_ast_atoms`), printed with any settings without colours:
the rewrite returns the token-wise image of the text -/
theorem python_rewrite_is_tokenwise (cfg : Config) (hcol : cfg.color = false) (e : Expr) (h : e.AtOK) :
    PyEmit (fmtRegExp cfg e) (pyRewrite ((fmtRegExp cfg e).length + 1) (fmtRegExp cfg e)) := by
  obtain ⟨p, hp⟩ := pyTok_fmtRegExp cfg hcol e h
  rw [pyRewrite_emit hp _ (by omega)]
  exact hp

/-- what `RegExp::from` keeps has literals made of atoms: without `-r`, and with `-r` for positive thresholds and stored test cases of
at most 1000 graphemes -/
theorem final_ast_atoms (cfg : Config) (env : Env) (ws : List Str) (st : Stages) (h : regExpFrom cfg env ws = .ok st)
    (hseg : ∀ w ∈ storedCases cfg env ws, SegOK env w) (hws : ws ≠ [])
    (hrep : cfg.rep = true → 1 ≤ cfg.minRep ∧ ∀ w ∈ storedCases cfg env ws, (subPieces (env.segOf w)).length ≤ 1000) :
    st.finalAst.AtOK := by
  cases hr : cfg.rep with
  | false => exact Expr.WF.atOK _ (final_expr_wf cfg hr env ws st h hseg hws)
  | true => exact Expr.WFS.atOK _ (rep_final_wfs_na cfg hr (hrep hr).1 env ws st h hseg (hrep hr).2 hws)

/-- **C14 (what the Python `build()` returns), all inputs, all settings of the Python class**: without `-e` the library's text; with
`-e` the library's text with each `\u{h…}` token written in Python's form and nothing else changed -/
theorem python_build (env : Env) (b b' : Builder) (out : Str) (hcol : b.config.color = false)
    (hpy : pyBuild env b = .ok (b', out))
    (hseg : ∀ w ∈ storedCases b.config env b.testCases, SegOK env w) (hws : b.testCases ≠ [])
    (hrep : b.config.rep = true → 1 ≤ b.config.minRep ∧
      ∀ w ∈ storedCases b.config env b.testCases, (subPieces (env.segOf w)).length ≤ 1000) :
    ∃ s, b.build env = .ok (b', s) ∧ (if b.config.esc then PyEmit s out else out = s) := by
  unfold pyBuild at hpy
  cases hb : b.build env with
  | error e => rw [hb] at hpy; cases hpy
  | ok r =>
    obtain ⟨b1, s⟩ := r
    rw [hb] at hpy
    simp only [Except.ok.injEq, Prod.mk.injEq] at hpy
    obtain ⟨rfl, hout⟩ := hpy
    refine ⟨s, rfl, ?_⟩
    unfold Builder.build at hb
    cases hst : regExpFrom b.config env b.testCases with
    | error e => rw [hst] at hb; cases hb
    | ok st =>
      rw [hst] at hb
      simp only [Except.ok.injEq, Prod.mk.injEq] at hb
      obtain ⟨_, rfl⟩ := hb
      cases he : b.config.esc with
      | false => rw [he] at hout; simp only [Bool.false_eq_true, ite_false] at hout ⊢; exact hout.symm
      | true =>
        rw [he] at hout
        simp only [ite_true] at hout ⊢
        rw [← hout]
        exact python_rewrite_is_tokenwise b.config hcol st.finalAst (final_ast_atoms b.config env b.testCases st hst hseg hws hrep)

/-- **C14, assembled**: for every list of test cases and every sequence of setter calls of the Python class (integer arguments
non-negative) that does not raise, the library accepts the same calls with the same resulting settings, and what the Python `build()`
returns is what the library's `build()` returns for those settings — as it is without `-e`, and with each `\u{h…}` token in Python's
form and nothing else changed with `-e` -/
theorem python_class_faithful (env : Env) (ws : List Str) (ops : List (SetterId × Arg)) (cfg : Config) (b' : Builder) (out : Str)
    (hops : ∀ op ∈ ops, (∀ i, op.2 = .int i → 0 ≤ i) ∧ op.1 ≠ .syntaxHighlighting)
    (hset : runSetters pySetters ops {} = .ok cfg)
    (hpy : pyBuild env ⟨ws, cfg⟩ = .ok (b', out))
    (hseg : ∀ w ∈ storedCases cfg env ws, SegOK env w) (hws : ws ≠ [])
    (hrep : cfg.rep = true → 1 ≤ cfg.minRep ∧ ∀ w ∈ storedCases cfg env ws, (subPieces (env.segOf w)).length ≤ 1000) :
    runSetters rsSetters ops {} = .ok cfg ∧
      ∃ s, Builder.build env ⟨ws, cfg⟩ = .ok (b', s) ∧ (if cfg.esc then PyEmit s out else out = s) := by
  refine ⟨by rw [← py_history_eq ops {} hops]; exact hset, ?_⟩
  exact python_build env ⟨ws, cfg⟩ b' out (py_history_no_colour ops {} cfg rfl hset) hpy hseg hws hrep

/-- the reading into tokens is unique, so the Python text is a function of the library's text -/
theorem tokenwise_image_unique {s p q : Str} (h1 : PyEmit s p) (h2 : PyEmit s q) : p = q := h1.unique h2

/-! non-vacuity: `\u{e9}` → `é`, `\u{10ffff}` → `\U0010ffff`, an escaped literal is left alone -/
example : pyRewrite 20 (strOf "^\\u{e9}$") = strOf "^\\u00e9$" := by decide
example : pyRewrite 20 (strOf "\\u{10ffff}") = strOf "\\U0010ffff" := by decide
example : pyRewrite 20 (strOf "\\\\u\\{e9\\}") = strOf "\\\\u\\{e9\\}" := by decide
example : applySetter pySetters .minRepetitions (.int 3) {} = some (.ok { minRep := 3 }) := rfl
/-- the witness of the repaired defect: the pattern of the test case `\uu` with `-r -e` is left alone (an escaped backslash, `u{2}`) -/
example : pyRewrite 20 (strOf "^\\\\u{2}$") = strOf "^\\\\u{2}$" := by decide
example : pyRewrite 40 (strOf "^\\\\\\u{e9}\\u{1f600}$") = strOf "^\\\\\\u00e9\\U0001f600$" := by decide
/-- the hypotheses of `python_build` are satisfiable: `\uu` and `é` with `-r -e`, segmentation into single code points -/
example :
    let env : Env := { lowerOf := id, segOf := fun w => w.map fun c => [c] }
    let b : Builder := ⟨[[92, 117, 117], [233]], { rep := true, esc := true }⟩
    (match pyBuild env b with | .ok _ => true | .error _ => false) = true ∧ b.config.color = false ∧ b.testCases ≠ [] := by
  refine ⟨by decide +kernel, rfl, by simp⟩

end Grexv.Props.C14
