import Grexv.Model.Api
import Grexv.Gen.Setters
import Grexv.Model.ApiCli
import Grexv.Model.Contracts

/-
Line-protocol driver helpers (no Mathlib anywhere below this file, so `gvdriver` links).
-/
namespace Grexv.Driver
open Grexv

def hexNat (n : Nat) : String := String.ofList ((toHex n).map Char.ofNat)

def hexStr (s : Str) : String :=
  if s.isEmpty then "-" else ".".intercalate (s.map hexNat)

def parseHexNat (s : String) : Option Nat :=
  if s.isEmpty then none else
  s.toList.foldl (fun acc c => acc.bind fun a => (Spec.hexVal c.toNat).map fun v => a * 16 + v) (some 0)

def parseHexStr (s : String) : Option Str :=
  if s = "-" then some [] else (s.splitOn ".").mapM parseHexNat

def parseList (s : String) : Option (List Str) :=
  if s = "!" then some [] else (s.splitOn ";").mapM parseHexStr

def parseSegs (s : String) : Option (List Nat) :=
  if s = "-" then some [] else (s.splitOn ",").mapM String.toNat?

structure DictEntry where
  str : Str
  low : Str
  seg : List Nat
  segLow : List Nat

def parseDict (s : String) : Option (List DictEntry) :=
  if s = "!" then some [] else
  (s.splitOn ";").mapM fun e =>
    match e.splitOn ":" with
    | [a, b, c, d] => do
      let a ← parseHexStr a
      let b ← parseHexStr b
      let c ← parseSegs c
      let d ← parseSegs d
      pure ⟨a, b, c, d⟩
    | _ => none

def cut : List Nat → Str → List Str
  | [], _ => []
  | n :: ns, s => s.take n :: cut ns (s.drop n)

def mkEnv (dict : List DictEntry) : Env where
  lowerOf s := match dict.find? (fun e => e.str = s) with
    | some e => e.low
    | none => s
  segOf s :=
    match dict.find? (fun e => e.str = s) with
    | some e => cut e.seg s
    | none => match dict.find? (fun e => e.low = s) with
      | some e => cut e.segLow s
      | none => s.map fun c => [c]

/-- contract on the supplied external data: segmentations flatten to the string and have no empty
piece; a lower-cased string of the same length is position-wise one of the table's choices -/
def dictOk (dict : List DictEntry) : Bool :=
  dict.all fun e =>
    e.seg.sum == e.str.length && e.seg.all (· > 0) &&
    e.segLow.sum == e.low.length && e.segLow.all (· > 0)

def bit (bits : Nat) (i : Nat) : Bool := (bits / 2 ^ i) % 2 == 1

def cfgOfBits (bits minRep minLen : Nat) : Config :=
  { minRep := minRep, minLen := minLen,
    digit := bit bits 0, nonDigit := bit bits 1, space := bit bits 2, nonSpace := bit bits 3,
    word := bit bits 4, nonWord := bit bits 5, rep := bit bits 6, ci := bit bits 7, cap := bit bits 8,
    esc := bit bits 9, sur := bit bits 10, verb := bit bits 11, noStart := bit bits 12,
    noEnd := bit bits 13, color := bit bits 14 }

partial def dumpGrapheme (g : Grapheme) : String :=
  let base := ",".intercalate (g.chars.map hexStr) ++ "~" ++ toString g.min ++ "~" ++ toString g.max
  if g.reps.isEmpty then base else base ++ "{" ++ ";".intercalate (g.reps.map dumpGrapheme) ++ "}"

def dumpCluster (c : Cluster) : String :=
  if c.isEmpty then "-" else " ".intercalate (c.map dumpGrapheme)

def sortNat (l : List Nat) : List Nat := l.foldl (fun acc x => Dfa.insertSorted x acc) []

def dumpDfa (d : Dfa) : String :=
  "N" ++ toString d.nodes ++ " I" ++ toString d.init ++ " F" ++ ",".intercalate ((sortNat d.finals).map toString)
    ++ " E" ++ "/".intercalate (d.edges.map fun e => toString e.src ++ ">" ++ toString e.dst ++ ":" ++ dumpGrapheme e.label)
    ++ " A" ++ "/".intercalate (d.alphabet.map dumpGrapheme)

partial def dumpExpr : Expr → String
  | .alt os => "A(" ++ ",".intercalate (os.map dumpExpr) ++ ")"
  | .cls cs => "K(" ++ ".".intercalate (cs.map hexNat) ++ ")"
  | .cat a b => "C(" ++ dumpExpr a ++ "," ++ dumpExpr b ++ ")"
  | .lit c => "L(" ++ dumpCluster c ++ ")"
  | .rep e q => "Q" ++ (match q with | .star => "*" | .question => "?") ++ "(" ++ dumpExpr e ++ ")"

def panicName : Panic → String
  | .noTestCases => "no-test-cases"
  | .zeroMinRep => "zero-min-rep"
  | .zeroMinLen => "zero-min-len"
  | .regexInvalid _ => "regex-invalid"
  | .index s => "index:" ++ s

def handleBuild (stages : Bool) (bits minRep minLen : Nat) (ws : List Str) (dict : List DictEntry) : String :=
  if !dictOk dict then "E contract" else
  if ws.isEmpty then "P no-test-cases" else
  let cfg := cfgOfBits bits minRep minLen
  let env := mkEnv dict
  match regExpFrom cfg env ws with
  | .error e => "P " ++ panicName e
  | .ok st =>
    let out := fmtRegExp cfg st.finalAst
    if stages then
      "S\t" ++ ";".intercalate (st.sorted.map hexStr) ++ "\t" ++ "|".intercalate (st.clusters.map dumpCluster)
        ++ "\t" ++ dumpDfa st.trie ++ "\t" ++ dumpDfa st.minimized ++ "\t" ++ dumpExpr st.firstAst
        ++ "\t" ++ dumpExpr st.finalAst ++ "\t" ++ hexStr out
    else "O " ++ hexStr out

/-- self-check trace: sorted test cases, then (pattern, verdict of the spec matcher) pairs -/
def handleTrace (bits minRep minLen : Nat) (ws : List Str) (dict : List DictEntry) : String :=
  if !dictOk dict then "E contract" else
  if ws.isEmpty then "P no-test-cases" else
  let cfg := cfgOfBits bits minRep minLen
  match regExpFrom cfg (mkEnv dict) ws with
  | .error e => "P " ++ panicName e
  | .ok st =>
    "T " ++ ";".intercalate (st.sorted.map hexStr) ++ " " ++
      (if st.trace.isEmpty then "!" else
        ";".intercalate (st.trace.map fun (p, v) => hexStr p ++ ":" ++ (if v then "1" else "0")))

def allSetterIds : List Gen.SetterId :=
  [.digits, .nonDigits, .whitespace, .nonWhitespace, .words, .nonWords, .repetitions, .caseInsensitive,
   .capturingGroups, .minRepetitions, .minSubstringLength, .escaping, .verbose, .noStartAnchor, .noEndAnchor,
   .noAnchors, .syntaxHighlighting]

def sampleArgs : List Arg := [.none, .bool true, .bool false, .int 0, .int 1, .int 2, .int 7]

def cfgBits (c : Config) : String :=
  let bs := [c.digit, c.nonDigit, c.space, c.nonSpace, c.word, c.nonWord, c.rep, c.ci, c.cap, c.esc, c.sur, c.verb,
    c.noStart, c.noEnd, c.color]
  String.ofList (bs.map fun b => if b then '1' else '0') ++ "/" ++ toString c.minRep ++ "/" ++ toString c.minLen

def showResult : Option (Except Gen.Msg Config) → String
  | none => "absent"
  | some (.ok c) => "ok:" ++ cfgBits c
  | some (.error .missingTestCases) => "err:missing"
  | some (.error .minRep) => "err:minrep"
  | some (.error .minLen) => "err:minlen"

/-- every setter of a front end against the library's, on sample arguments and two start configurations:
the list of (setter index, argument index) where the generated semantics differ -/
def compareApi (api : List Gen.Setter) : String :=
  let starts : List Config := [{}, { digit := true, esc := true, sur := true, noEnd := true, minRep := 3 }]
  let diffs := (allSetterIds.zipIdx).flatMap fun (id, i) =>
    if id == .syntaxHighlighting then [] else
    (sampleArgs.zipIdx).flatMap fun (a, j) =>
      starts.filterMap fun c =>
        let x := showResult (applySetter api id a c)
        let y := showResult (applySetter Gen.rsSetters id a c)
        if x == y then none else some (toString i ++ ":" ++ toString j ++ ":" ++ x ++ "!=" ++ y)
  if diffs.isEmpty then "A same" else "A " ++ ";".intercalate diffs

/-- the executable hypotheses of the S7 theorem on the automata this input hands to `Expression::from` -/
def handleContracts (bits minRep minLen : Nat) (ws : List Str) (dict : List DictEntry) : String :=
  if !dictOk dict then "E contract" else
  if ws.isEmpty then "P no-test-cases" else
  let cfg := cfgOfBits bits minRep minLen
  match regExpFrom cfg (mkEnv dict) ws with
  | .error e => "P " ++ panicName e
  | .ok st =>
    "K " ++ (if elimContractsB cfg st.minimized then "1" else "0") ++ " " ++ (if elimContractsB cfg st.trie then "1" else "0")
      ++ " " ++ (if Dfa.minimizeContractB st.trie Dfa.pickMin then "1" else "0")

/-! ### unit level: terms over `union` / `concatenate`, printed with `fmtRegExp`

term := 'L' '[' [grapheme ('_' grapheme)*] ']' | 'U' term term | 'N' term term
grapheme := chars '~' min '~' max ['{' grapheme (';' grapheme)* '}'] -/

def takeWhileC (f : Char → Bool) : List Char → List Char × List Char
  | [] => ([], [])
  | c :: r => if f c then let (a, b) := takeWhileC f r; (c :: a, b) else ([], c :: r)

mutual
partial def parseGraphemeD (s : List Char) : Option (Grapheme × List Char) :=
  let (cs, r1) := takeWhileC (· != '~') s
  match (String.ofList cs |>.splitOn ",").mapM parseHexStr, r1 with
  | some chars, '~' :: r2 =>
    let (mn, r3) := takeWhileC Char.isDigit r2
    match (String.ofList mn).toNat?, r3 with
    | some mnv, '~' :: r4 =>
      let (mx, r5) := takeWhileC Char.isDigit r4
      match (String.ofList mx).toNat? with
      | some mxv =>
        match r5 with
        | '{' :: r6 =>
          match parseGraphemesD r6 ';' '}' [] with
          | some (reps, r7) => some (Grapheme.mk chars reps mnv mxv, r7)
          | none => none
        | _ => some (Grapheme.mk chars [] mnv mxv, r5)
      | none => none
    | _, _ => none
  | _, _ => none
partial def parseGraphemesD (s : List Char) (sep close : Char) (acc : List Grapheme) : Option (List Grapheme × List Char) :=
  match parseGraphemeD s with
  | some (g, c :: r) =>
    if c = sep then parseGraphemesD r sep close (g :: acc)
    else if c = close then some ((g :: acc).reverse, r)
    else none
  | _ => none
end

partial def evalTerm (cfg : Config) : List Char → Option (Option Expr × List Char)
  | 'L' :: '[' :: ']' :: r => some (some (Expr.lit []), r)
  | 'L' :: '[' :: r =>
    match parseGraphemesD r '_' ']' [] with
    | some (gs, r2) => some (some (Expr.lit gs), r2)
    | none => none
  | 'U' :: r =>
    match evalTerm cfg r with
    | some (a, r2) =>
      match evalTerm cfg r2 with
      | some (b, r3) => some (Expr.union cfg a b, r3)
      | none => none
    | none => none
  | 'N' :: r =>
    match evalTerm cfg r with
    | some (a, r2) =>
      match evalTerm cfg r2 with
      | some (b, r3) => some (Expr.concatenate a b, r3)
      | none => none
    | none => none
  | _ => none

def handleTerm (bits minRep minLen : Nat) (term : String) : String :=
  let cfg := cfgOfBits bits minRep minLen
  match evalTerm cfg term.toList with
  | some (some e, []) => "X " ++ dumpExpr e ++ "\t" ++ hexStr (fmtRegExp cfg e)
  | some (none, []) => "X none"
  | _ => "E parse"

def handleLine (line : String) : String :=
  match line.trimAscii.toString.splitOn " " with
  | [kind, bits, mr, ml, tcs, dict] =>
    if kind = "K" then
      match bits.toNat?, mr.toNat?, ml.toNat?, parseList tcs, parseDict dict with
      | some b, some r, some l, some ws, some d => handleContracts b r l ws d
      | _, _, _, _, _ => "E parse"
    else if kind = "T" then
      match bits.toNat?, mr.toNat?, ml.toNat?, parseList tcs, parseDict dict with
      | some b, some r, some l, some ws, some d => handleTrace b r l ws d
      | _, _, _, _, _ => "E parse"
    else if kind = "B" || kind = "S" then
      match bits.toNat?, mr.toNat?, ml.toNat?, parseList tcs, parseDict dict with
      | some b, some r, some l, some ws, some d => handleBuild (kind = "S") b r l ws d
      | _, _, _, _, _ => "E parse"
    else "E unknown"
  | ["X", bits, mr, ml, term] =>
    match bits.toNat?, mr.toNat?, ml.toNat? with
    | some b, some r, some l => handleTerm b r l term
    | _, _, _ => "E parse"
  | ["A", which] =>
    if which = "wasm" then compareApi Gen.wasmSetters
    else if which = "py" then compareApi Gen.pySetters
    else "E unknown"
  | ["Y", pat] =>
    match parseHexStr pat with
    | some p => "Y " ++ hexStr (pyRewrite (p.length + 1) p)
    | none => "E parse"
  | ["L", pat] =>
    match parseHexStr pat with
    | some p => match Spec.parse p with
      | some _ => "L ok"
      | none => "L err"
    | none => "E parse"
  | ["M", pat, subj] =>
    match parseHexStr pat, parseHexStr subj with
    | some p, some s => match Spec.parse p with
      | some (fl, pt) =>
        let f := match Spec.find fl.i pt s with
          | some (a, b) => toString a ++ "," ++ toString b
          | none => "none"
        "M " ++ f ++ " " ++ toString (Spec.findIterCount fl.i pt s)
      | none => "M err"
    | _, _ => "E parse"
  | _ => "E unknown"

end Grexv.Driver
