import Grexv.Model.GenTypes
import Grexv.Gen.RegexTables
import Grexv.Gen.StdTables

/-
Specification layer: the part of the `regex` crate (regex-syntax 0.8.x concrete syntax,
leftmost-first search) that grex relies on — abstract syntax `Pat`, a parser for the concrete
syntax, a backtracking matcher in priority order, `find` and `find_iter().count()`.
This is the model of an *external* component; it is differentially tested against the real crate
on every run (streams L and M of the harness).
-/
namespace Grexv.Spec
open Grexv (inRanges)

inductive ClassKind where | digit | space | word
deriving DecidableEq, Repr, Inhabited

inductive ClassItem where
  | range (lo hi : Nat)
  | perl (k : ClassKind) (neg : Bool)
deriving DecidableEq, Repr, Inhabited

inductive Pat where
  | eps
  | chr (c : Nat)
  | perl (k : ClassKind) (neg : Bool)
  | set (items : List ClassItem) (neg : Bool)
  | bol
  | eol
  | cat (a b : Pat)
  | alt (a b : Pat)
  | rep (p : Pat) (min : Nat) (max : Option Nat) (greedy : Bool)
  | grp (capturing : Bool) (p : Pat)
deriving DecidableEq, Repr, Inhabited

structure Flags where
  i : Bool := false
  x : Bool := false
deriving DecidableEq, Repr, Inhabited

def perlMember (k : ClassKind) (c : Nat) : Bool :=
  match k with
  | .digit => inRanges Gen.rxDigit c
  | .space => inRanges Gen.rxSpace c
  | .word => inRanges Gen.rxWord c

/-- the other members of the simple-case-folding orbit of `c` -/
def foldOthers (c : Nat) : List Nat :=
  match Gen.rxFold.find? (fun r => r.1 = c) with
  | some r => r.2
  | none => []

def isScalar (c : Nat) : Bool := c < 0xD800 || (0xE000 ≤ c && c < 0x110000)

def chrMatches (i : Bool) (c x : Nat) : Bool := x = c || (i && (foldOthers x).contains c)

def itemMatches1 : ClassItem → Nat → Bool
  | .range lo hi, x => lo ≤ x && x ≤ hi
  | .perl k neg, x => perlMember k x != neg

def itemMatches (i : Bool) (it : ClassItem) (x : Nat) : Bool :=
  itemMatches1 it x ||
    (i && match it with
      | .range _ _ => (foldOthers x).any (itemMatches1 it)
      | .perl _ _ => false)

def setMatches (i : Bool) (items : List ClassItem) (neg : Bool) (x : Nat) : Bool :=
  (items.any fun it => itemMatches i it x) != neg

/-! ### matcher: all ways to match a prefix, best first -/

abbrev Pos := Nat × List Nat   -- (offset, rest of the subject)

def repMatch (f : Pos → List Pos) (greedy : Bool) : Nat → Nat → Pos → List Pos
  | 0, 0, st => [st]
  | 0, e + 1, st =>
    let more := (f st).flatMap fun st' => if st'.1 = st.1 then [] else repMatch f greedy 0 e st'
    if greedy then more ++ [st] else st :: more
  | m + 1, e, st => (f st).flatMap fun st' => repMatch f greedy m e st'

def matchP (i : Bool) : Pat → Pos → List Pos
  | .eps, st => [st]
  | .chr c, (n, s) => match s with
    | x :: rest => if chrMatches i c x then [(n + 1, rest)] else []
    | [] => []
  | .perl k neg, (n, s) => match s with
    | x :: rest => if perlMember k x != neg then [(n + 1, rest)] else []
    | [] => []
  | .set items neg, (n, s) => match s with
    | x :: rest => if setMatches i items neg x then [(n + 1, rest)] else []
    | [] => []
  | .bol, (n, s) => if n = 0 then [(n, s)] else []
  | .eol, (n, s) => if s.isEmpty then [(n, s)] else []
  | .cat a b, st => (matchP i a st).flatMap (matchP i b)
  | .alt a b, st => matchP i a st ++ matchP i b st
  | .rep p mn mx greedy, st =>
    let extra := match mx with
      | some m => m - mn
      | none => st.2.length + 1
    repMatch (matchP i p) greedy mn extra st
  | .grp _ p, st => matchP i p st

/-- whole-string acceptance -/
def fullMatch (i : Bool) (p : Pat) (s : List Nat) : Bool :=
  (matchP i p (0, s)).any fun st => st.2.isEmpty

/-- `Regex::find` from offset `at` (look-behind context preserved): leftmost start, first priority -/
def findFrom (i : Bool) (p : Pat) : Nat → Nat → List Nat → Option (Nat × Nat)
  | 0, off, rest => match matchP i p (off, rest) with
    | st :: _ => some (off, st.1)
    | [] => none
  | fuel + 1, off, rest => match matchP i p (off, rest) with
    | st :: _ => some (off, st.1)
    | [] => match rest with
      | [] => none
      | _ :: rest' => findFrom i p fuel (off + 1) rest'

def find (i : Bool) (p : Pat) (s : List Nat) : Option (Nat × Nat) := findFrom i p s.length 0 s

/-- `Regex::find_iter(s).count()` with the regex crate's rule for empty matches -/
def findIterCountAux (i : Bool) (p : Pat) (s : List Nat) : Nat → Nat → Option Nat → Nat → Nat
  | 0, _, _, acc => acc
  | fuel + 1, off, lastEnd, acc =>
    if off > s.length then acc else
    match findFrom i p (s.length - off) off (s.drop off) with
    | none => acc
    | some (ms, me) =>
      if ms = me && some me = lastEnd then
        if off + 1 > s.length then acc else
        match findFrom i p (s.length - (off + 1)) (off + 1) (s.drop (off + 1)) with
        | none => acc
        | some (_, me') => findIterCountAux i p s fuel me' (some me') (acc + 1)
      else findIterCountAux i p s fuel me (some me) (acc + 1)

def findIterCount (i : Bool) (p : Pat) (s : List Nat) : Nat :=
  findIterCountAux i p s (2 * s.length + 4) 0 none 0

/-! ### parser for the concrete syntax -/

def isWs (c : Nat) : Bool := inRanges Gen.stdWhitespace c

/-- under `(?x)`: skip whitespace and `#` comments -/
def skipSpace (x : Bool) : Nat → List Nat → List Nat
  | 0, s => s
  | fuel + 1, s =>
    if !x then s else
    match s with
    | c :: rest =>
      if isWs c then skipSpace x fuel rest
      else if c = 35 then skipSpace x fuel ((rest.dropWhile (· ≠ 10)).drop 1)
      else s
    | [] => []

def hexVal (c : Nat) : Option Nat :=
  if 48 ≤ c && c ≤ 57 then some (c - 48)
  else if 97 ≤ c && c ≤ 102 then some (c - 87)
  else if 65 ≤ c && c ≤ 70 then some (c - 55)
  else none

def isMeta (c : Nat) : Bool :=
  [92, 46, 43, 42, 63, 40, 41, 124, 91, 93, 123, 125, 94, 36, 35, 38, 45, 126].contains c

def isAlnum (c : Nat) : Bool := (48 ≤ c && c ≤ 57) || (65 ≤ c && c ≤ 90) || (97 ≤ c && c ≤ 122)

def isEscapeable (c : Nat) : Bool :=
  isMeta c || (c < 128 && !isAlnum c && c ≠ 60 && c ≠ 62)

inductive Prim where
  | lit (c : Nat)
  | perl (k : ClassKind) (neg : Bool)
deriving Repr

/-- hexadecimal digits of `\u{...}` (blanks allowed inside under `(?x)`) -/
def parseBraceHex (x : Bool) : Nat → List Nat → Nat → Nat → Option (Nat × List Nat)
  | 0, _, _, _ => none
  | fuel + 1, s, acc, ndig =>
    match skipSpace x (s.length + 1) s with
    | c :: rest =>
      if c = 125 then (if ndig = 0 then none else if isScalar acc then some (acc, rest) else none)
      else match hexVal c with
        | some v => if acc * 16 + v > 0xFFFFFFFF then none else parseBraceHex x fuel rest (acc * 16 + v) (ndig + 1)
        | none => none
    | [] => none

def takeHex : Nat → List Nat → Nat → Option (Nat × List Nat)
  | 0, s, acc => some (acc, s)
  | k + 1, c :: rest, acc => match hexVal c with
    | some v => takeHex k rest (acc * 16 + v)
    | none => none
  | _ + 1, [], _ => none

/-- after the backslash -/
def parseEscape (x : Bool) (s : List Nat) : Option (Prim × List Nat) :=
  match s with
  | [] => none
  | c :: rest =>
    if c = 120 || c = 117 || c = 85 then  -- \x \u \U
      match skipSpace x (rest.length + 1) rest with
      | 123 :: r2 => (parseBraceHex x (r2.length + 2) r2 0 0).map fun (v, r3) => (Prim.lit v, r3)
      | r2 =>
        let k := if c = 120 then 2 else if c = 117 then 4 else 8
        match takeHex k r2 0 with
        | some (v, r3) => if isScalar v then some (Prim.lit v, r3) else none
        | none => none
    else if c = 100 then some (.perl .digit false, rest)
    else if c = 68 then some (.perl .digit true, rest)
    else if c = 115 then some (.perl .space false, rest)
    else if c = 83 then some (.perl .space true, rest)
    else if c = 119 then some (.perl .word false, rest)
    else if c = 87 then some (.perl .word true, rest)
    else if isEscapeable c then some (.lit c, rest)
    else if c = 97 then some (.lit 7, rest)
    else if c = 102 then some (.lit 12, rest)
    else if c = 116 then some (.lit 9, rest)
    else if c = 110 then some (.lit 10, rest)
    else if c = 114 then some (.lit 13, rest)
    else if c = 118 then some (.lit 11, rest)
    else none

def parseDecimal : Nat → List Nat → Option Nat → Option Nat × List Nat
  | 0, s, acc => (acc, s)
  | fuel + 1, c :: rest, acc =>
    if 48 ≤ c && c ≤ 57 then parseDecimal fuel rest (some (acc.getD 0 * 10 + (c - 48))) else (acc, c :: rest)
  | _ + 1, [], acc => (acc, [])

/-- `{n}`, `{m,n}`, `{m,}` after the opening brace -/
def parseCounted (x : Bool) (s : List Nat) : Option ((Nat × Option Nat) × List Nat) :=
  let sp := fun (t : List Nat) => skipSpace x (t.length + 1) t
  match parseDecimal (s.length + 1) (sp s) none with
  | (some m, r1) =>
    match sp r1 with
    | 125 :: r2 => if m > 1000 then none else some ((m, some m), r2)
    | 44 :: r2 =>
      match sp r2 with
      | 125 :: r3 => some ((m, none), r3)
      | r3 =>
        match parseDecimal (r3.length + 1) r3 none with
        | (some n, r4) =>
          match sp r4 with
          | 125 :: r5 => if n < m then none else some ((m, some n), r5)
          | _ => none
        | (none, _) => none
    | _ => none
  | (none, _) => none

/-- one class member: a literal (possibly escaped) or a Perl class -/
def parseClassAtom (x : Bool) (s : List Nat) : Option (Prim × List Nat) :=
  match s with
  | 92 :: rest => parseEscape x rest
  | c :: rest => some (.lit c, rest)
  | [] => none

/-- items of a bracketed class up to the closing bracket; `first` = a leading `]` is a literal -/
def parseClassItems (x : Bool) : Nat → List Nat → Bool → List ClassItem → Option (List ClassItem × List Nat)
  | 0, _, _, _ => none
  | fuel + 1, s0, first, acc =>
    let s := skipSpace x (s0.length + 1) s0
    match s with
    | [] => none
    | c :: rest =>
      if c = 93 && !first then some (acc.reverse, rest)
      else if c = 91 then none                       -- nested classes / POSIX classes: not in the subset
      else if (c = 38 && rest.head? = some 38) || (c = 45 && rest.head? = some 45)
           || (c = 126 && rest.head? = some 126) then none   -- set operators
      else
        match parseClassAtom x s with
        | none => none
        | some (.perl k neg, r1) => parseClassItems x fuel r1 false (.perl k neg :: acc)
        | some (.lit lo, r1) =>
          let r1s := skipSpace x (r1.length + 1) r1
          match r1s with
          | 45 :: r2 =>
            let r2s := skipSpace x (r2.length + 1) r2
            match r2s with
            | 93 :: _ => parseClassItems x fuel r1s false (.range lo lo :: acc)   -- trailing '-' is a literal
            | 45 :: _ => none
            | _ =>
              match parseClassAtom x r2s with
              | some (.lit hi, r3) => if hi < lo then none else parseClassItems x fuel r3 false (.range lo hi :: acc)
              | _ => none
          | _ => parseClassItems x fuel r1 false (.range lo lo :: acc)

def catList : List Pat → Pat
  | [] => .eps
  | [p] => p
  | p :: ps => .cat p (catList ps)

def altList : List Pat → Pat
  | [] => .eps
  | [p] => p
  | p :: ps => .alt p (altList ps)

/-- Recursive-descent parser.  `concat` holds the items of the current concatenation (reversed),
`alts` the finished alternatives (reversed); `stack` the enclosing groups. -/
structure Frame where
  capturing : Bool
  alts : List Pat
  concat : List Pat

def closeFrame (alts concat : List Pat) : Pat := altList ((catList concat.reverse :: alts).reverse)

def parseLoop (x : Bool) : Nat → List Nat → List Frame → List Pat → List Pat → Option Pat
  | 0, _, _, _, _ => none
  | fuel + 1, s0, stack, alts, concat =>
    let s := skipSpace x (s0.length + 1) s0
    match s with
    | [] => if stack.isEmpty then some (closeFrame alts concat) else none
    | c :: rest =>
      if c = 124 then parseLoop x fuel rest stack (catList concat.reverse :: alts) []
      else if c = 40 then
        match rest with
        | 63 :: 58 :: r2 => parseLoop x fuel r2 (⟨false, alts, concat⟩ :: stack) [] []
        | 63 :: _ => none
        | _ => parseLoop x fuel rest (⟨true, alts, concat⟩ :: stack) [] []
      else if c = 41 then
        match stack with
        | [] => none
        | fr :: stack' => parseLoop x fuel rest stack' fr.alts (.grp fr.capturing (closeFrame alts concat) :: fr.concat)
      else if c = 63 || c = 42 || c = 43 then
        match concat with
        | [] => none
        | p :: ps =>
          match p with
          | .bol | .eol => none
          | _ =>
            let (mn, mx) : Nat × Option Nat := if c = 63 then (0, some 1) else if c = 42 then (0, none) else (1, none)
            match skipSpace x (rest.length + 1) rest with
            | 63 :: r2 => parseLoop x fuel r2 stack alts (.rep p mn mx false :: ps)
            | _ => parseLoop x fuel rest stack alts (.rep p mn mx true :: ps)
      else if c = 123 then
        match concat with
        | [] => none
        | p :: ps =>
          match p with
          | .bol | .eol => none
          | _ =>
            match parseCounted x rest with
            | none => none
            | some ((mn, mx), r2) =>
              match skipSpace x (r2.length + 1) r2 with
              | 63 :: r3 => parseLoop x fuel r3 stack alts (.rep p mn mx false :: ps)
              | _ => parseLoop x fuel r2 stack alts (.rep p mn mx true :: ps)
      else if c = 91 then
        let (neg, r1) := match rest with
          | 94 :: r => (true, r)
          | r => (false, r)
        match parseClassItems x (r1.length + 2) r1 true [] with
        | some (items, r2) => parseLoop x fuel r2 stack alts (.set items neg :: concat)
        | none => none
      else if c = 92 then
        match parseEscape x rest with
        | some (.lit v, r2) => parseLoop x fuel r2 stack alts (.chr v :: concat)
        | some (.perl k neg, r2) => parseLoop x fuel r2 stack alts (.perl k neg :: concat)
        | none => none
      else if c = 94 then parseLoop x fuel rest stack alts (.bol :: concat)
      else if c = 36 then parseLoop x fuel rest stack alts (.eol :: concat)
      else if c = 46 then none
      else parseLoop x fuel rest stack alts (.chr c :: concat)

/-- leading `(?i)`, `(?x)`, `(?ix)` -/
def parseFlags (s : List Nat) : Flags × List Nat :=
  match s with
  | 40 :: 63 :: 105 :: 120 :: 41 :: r => (⟨true, true⟩, r)
  | 40 :: 63 :: 105 :: 41 :: r => (⟨true, false⟩, r)
  | 40 :: 63 :: 120 :: 41 :: r => (⟨false, true⟩, r)
  | r => (⟨false, false⟩, r)

/-- `Regex::new` on the syntax subset: `none` = rejected -/
def parse (s : List Nat) : Option (Flags × Pat) :=
  let (fl, rest) := parseFlags s
  (parseLoop fl.x (2 * rest.length + 4) rest [] [] []).map fun p => (fl, p)

end Grexv.Spec
