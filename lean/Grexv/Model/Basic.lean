/-
Model of pemistahl/grex — basic text and configuration types.
Text is a list of code points (`Nat`); nothing here imports Mathlib, so the driver links.
-/
namespace Grexv

abbrev Str := List Nat

/-- `RegExpConfig` (src/config.rs), same fields, same defaults. -/
structure Config where
  minRep : Nat := 1
  minLen : Nat := 1
  digit : Bool := false
  nonDigit : Bool := false
  space : Bool := false
  nonSpace : Bool := false
  word : Bool := false
  nonWord : Bool := false
  rep : Bool := false
  ci : Bool := false
  cap : Bool := false
  esc : Bool := false
  sur : Bool := false
  verb : Bool := false
  noStart : Bool := false
  noEnd : Bool := false
  color : Bool := false
deriving DecidableEq, Repr, Inhabited

/-- `RegExpConfig::is_char_class_feature_enabled` -/
def Config.charClassFeature (c : Config) : Bool :=
  c.digit || c.nonDigit || c.space || c.nonSpace || c.word || c.nonWord || c.ci || c.cap

/-- Panic sites of the library that the model keeps explicit. -/
inductive Panic where
  | noTestCases | zeroMinRep | zeroMinLen
  | regexInvalid (pattern : Str)
  | index (site : String)
deriving DecidableEq, Repr, Inhabited

/-- membership in a table of closed ranges (`CharRange::closed`, `.iter().any(contains)`) -/
def inRanges (t : List (Nat × Nat)) (c : Nat) : Bool :=
  t.any fun r => r.1 ≤ c && c ≤ r.2

/-- `str::replace(char, &str)` for a one-character pattern -/
def replaceChar (c : Nat) (r : Str) (s : Str) : Str :=
  s.flatMap fun x => if x = c then r else [x]

/-- `str::replace([chars], &str)` -/
def replaceChars (cs : List Nat) (r : Str) (s : Str) : Str :=
  s.flatMap fun x => if cs.contains x then r else [x]

def hexDigit (d : Nat) : Nat := if d < 10 then 48 + d else 87 + d

/-- lower-case hexadecimal digits of `n`, most significant first (`{:x}`) -/
def toHexAux : Nat → Nat → Str → Str
  | 0, _, acc => acc
  | fuel + 1, n, acc =>
    if n < 16 then hexDigit n :: acc else toHexAux fuel (n / 16) (hexDigit (n % 16) :: acc)

def toHex (n : Nat) : Str := toHexAux 64 n []

def decDigits : Nat → Nat → Str → Str
  | 0, _, acc => acc
  | fuel + 1, n, acc =>
    if n < 10 then (48 + n) :: acc else decDigits fuel (n / 10) ((48 + n % 10) :: acc)

/-- decimal rendering (`{}` of a `u32`) -/
def toDec (n : Nat) : Str := decDigits 64 n []

def strOf (s : String) : Str := s.toList.map Char.toNat

/-- lexicographic comparison of code-point lists = Rust's byte order on valid UTF-8 `String`s -/
def cmpStr : Str → Str → Ordering
  | [], [] => .eq
  | [], _ :: _ => .lt
  | _ :: _, [] => .gt
  | a :: as, b :: bs => (compare a b).then (cmpStr as bs)

def cmpStrList : List Str → List Str → Ordering
  | [], [] => .eq
  | [], _ :: _ => .lt
  | _ :: _, [] => .gt
  | a :: as, b :: bs => (cmpStr a b).then (cmpStrList as bs)

/-- UTF-8 length of a code point -/
def utf8Len (c : Nat) : Nat :=
  if c < 0x80 then 1 else if c < 0x800 then 2 else if c < 0x10000 then 3 else 4

def utf8LenStr (s : Str) : Nat := (s.map utf8Len).sum

/-- stable insertion sort by a `≤` test (used where the Rust code calls a stable sort) -/
def insertBy {α} (le : α → α → Bool) (x : α) : List α → List α
  | [] => [x]
  | y :: ys => if le x y then x :: y :: ys else y :: insertBy le x ys

/-- Stable: equal elements keep their input order (`foldr` inserts the later ones first and an
equal element is placed *before* existing equal ones only if `le x y`; we insert from the right
so that ties keep the original order). -/
def sortBy {α} (le : α → α → Bool) (l : List α) : List α :=
  l.foldr (insertBy le) []

def dedupAdj {α} [DecidableEq α] : List α → List α
  | [] => []
  | [x] => [x]
  | x :: y :: rest => if x = y then dedupAdj (y :: rest) else x :: dedupAdj (y :: rest)

def strLe (a b : Str) : Bool := cmpStr a b != .gt

def lenThenStrLe (a b : Str) : Bool :=
  utf8LenStr a < utf8LenStr b || (utf8LenStr a == utf8LenStr b && strLe a b)

/-- `RegExp::sort`: sort, dedup, sort by (byte length, bytes) -/
def sortCases (ws : List Str) : List Str :=
  sortBy lenThenStrLe (dedupAdj (sortBy strLe ws))

def joinWith (sep : Str) : List Str → Str
  | [] => []
  | [x] => x
  | x :: xs => x ++ sep ++ joinWith sep xs

def countIf {α} (p : α → Bool) (l : List α) : Nat := (l.filter p).length

end Grexv
