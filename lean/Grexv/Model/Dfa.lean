import Grexv.Model.Grapheme

/-
`Dfa` (src/dfa.rs): trie construction (S5), Hopcroft-style minimisation (S6).
petgraph's `StableGraph` is made explicit: nodes are `0 .. nodes-1` in creation order, `edges` is
the edge list in creation order; `neighbors`/`edges_directed` enumerate newest edge first.
-/
namespace Grexv

structure Edge where
  src : Nat
  dst : Nat
  label : Grapheme
deriving DecidableEq, Repr, Inhabited

structure Dfa where
  nodes : Nat
  edges : List Edge
  init : Nat
  finals : List Nat
  alphabet : List Grapheme
deriving Repr, Inhabited

namespace Dfa

def empty : Dfa := { nodes := 1, edges := [], init := 0, finals := [], alphabet := [] }

/-- out-edges of `s` in petgraph's iteration order (newest first) -/
def outEdges (d : Dfa) (s : Nat) : List Edge := (d.edges.filter fun e => e.src = s).reverse

/-- in-edges of `s`, newest first -/
def inEdges (d : Dfa) (s : Nat) : List Edge := (d.edges.filter fun e => e.dst = s).reverse

def isFinal (d : Dfa) (s : Nat) : Bool := d.finals.contains s

/-- `BTreeSet::insert` for the derived order -/
def alphaInsert (g : Grapheme) : List Grapheme → List Grapheme
  | [] => [g]
  | h :: t =>
    match Grapheme.cmp g h with
    | .lt => g :: h :: t
    | .eq => h :: t
    | .gt => h :: alphaInsert g t

/-- the widening merge of `find_next_state` replaces the weight of the edge `src → dst` -/
def updateEdge (es : List Edge) (src dst : Nat) (g : Grapheme) : List Edge :=
  es.map fun e => if e.src = src ∧ e.dst = dst then { e with label := g } else e

/-- `find_next_state`: scan the out-edges newest first -/
def findNext (g : Grapheme) : List Edge → Option (Nat × Option Grapheme)
  | [] => none
  | e :: rest =>
    if e.label.chars ≠ g.chars then findNext g rest
    else if e.label.max = g.max - 1 then
      some (e.dst, some (Grapheme.mk g.chars [] (Nat.min e.label.min g.min) (Nat.max e.label.max g.max)))
    else if e.label.max = g.max then some (e.dst, none)
    else findNext g rest

/-- `return_next_state` -/
def step (d : Dfa) (cur : Nat) (g : Grapheme) : Dfa × Nat :=
  match findNext g (d.outEdges cur) with
  | some (nxt, none) => (d, nxt)
  | some (nxt, some g') => ({ d with edges := updateEdge d.edges cur nxt g' }, nxt)
  | none => ({ d with nodes := d.nodes + 1, edges := d.edges ++ [⟨cur, d.nodes, g⟩] }, d.nodes)

/-- `insert` -/
def insert (d : Dfa) (cl : Cluster) : Dfa :=
  let (d', last) := cl.foldl (fun (acc : Dfa × Nat) g =>
      let d1 := { acc.1 with alphabet := alphaInsert g acc.1.alphabet }
      step d1 acc.2 g) (d, d.init)
  { d' with finals := if d'.finals.contains last then d'.finals else d'.finals ++ [last] }

def trie (cls : List Cluster) : Dfa := cls.foldl insert empty

/-! ### S6 minimisation.  Blocks are duplicate-free ascending lists (the `HashSet<State>`s). -/

abbrev Block := List Nat

def binter (x y : Block) : Block := y.filter fun s => x.contains s
def bdiff (y x : Block) : Block := y.filter fun s => !x.contains s

def insertSorted (x : Nat) : List Nat → List Nat
  | [] => [x]
  | y :: ys => if x < y then x :: y :: ys else if x = y then y :: ys else y :: insertSorted x ys

/-- `get_parent_states`: an edge carries the symbol `label` when its characters are the symbol's and its range of counts
contains the symbol's -/
def parentStates (d : Dfa) (a : Block) (label : Grapheme) : Block :=
  a.foldl (fun x s =>
    match (d.inEdges s).find? (fun e =>
        e.label.chars = label.chars && decide (e.label.min ≤ label.min) && decide (label.max ≤ e.label.max)) with
    | some e => insertSorted e.src x
    | none => x) []

/-- `get_initial_partition`: non-final states first, then final states -/
def initialPartition (d : Dfa) : List Block :=
  let all := List.range d.nodes
  [all.filter (fun s => !d.isFinal s), all.filter (fun s => d.isFinal s)]

/-- one scan of `p` against `x`: every block that `x` splits is replaced by (∩, \); the
replacements are collected in scan order -/
def splitAll (x : Block) : List Block → List Block × List (Block × Block × Block)
  | [] => ([], [])
  | y :: ys =>
    let (p', rs) := splitAll x ys
    let i := binter x y
    let dd := bdiff y x
    if i.isEmpty || dd.isEmpty then (y :: p', rs) else (i :: dd :: p', (y, i, dd) :: rs)

def removeFirst (y : Block) : List Block → List Block
  | [] => []
  | z :: zs => if z = y then zs else z :: removeFirst y zs

def updateW (w : List Block) : List (Block × Block × Block) → List Block
  | [] => w
  | (y, i, dd) :: rest =>
    if w.contains y then updateW (removeFirst y w ++ [i, dd]) rest
    else updateW (w ++ [i, dd]) rest

def refineByAlphabet (d : Dfa) (a : Block) : List Grapheme → List Block × List Block → List Block × List Block
  | [], pw => pw
  | l :: ls, (p, w) =>
    let x := parentStates d a l
    let (p', rs) := splitAll x p
    refineByAlphabet d a ls (p', updateW w rs)

/-- the `while !w.is_empty()` loop; `none` if the fuel runs out (proved impossible for the fuel used) -/
def refineLoop (d : Dfa) : Nat → List Block → List Block → Option (List Block)
  | _, p, [] => some p
  | 0, _, _ :: _ => none
  | fuel + 1, p, a :: w =>
    let (p', w') := refineByAlphabet d a d.alphabet (p, w)
    refineLoop d fuel p' w'

/-- `state_mappings`: index of the first class containing the state -/
def classOf (p : List Block) (s : Nat) : Nat := (p.findIdx? fun b => b.contains s).getD 0

/-- `recreate_graph`.  `pick` stands for `HashSet::iter().next()` on a class. -/
def recreate (d : Dfa) (pick : Block → Nat) (p : List Block) : Dfa :=
  let classOf (s : Nat) : Nat := Dfa.classOf p s
  let edges := p.flatMap fun b =>
    let src := pick b
    (d.outEdges src).map fun e => (⟨classOf src, classOf e.dst, e.label⟩ : Edge)
  let finals' := (p.flatMap fun b =>
      (d.outEdges (pick b)).filterMap fun e =>
        if d.isFinal e.dst then some (classOf e.dst) else none).foldl
      (fun fs s => insertSorted s fs) ([] : List Nat)
  { nodes := p.length, edges := edges, init := classOf d.init, finals := finals', alphabet := d.alphabet }

def minFuel (d : Dfa) : Nat := 2 * d.nodes + 4

/-- the partition `minimize` hands to `recreate_graph` (empty classes removed) -/
def minimizePartition (d : Dfa) : Option (List Block) :=
  let p := initialPartition d
  (refineLoop d (minFuel d) p p).map fun p' => p'.filter fun b => !b.isEmpty

/-- `minimize` -/
def minimize (d : Dfa) (pick : Block → Nat) : Option Dfa :=
  (minimizePartition d).map (recreate d pick)

/-- the choice the code makes after the repair of the hash-order dependence: the smallest state -/
def pickMin (b : Block) : Nat := b.foldl Nat.min (b.headD 0)

end Dfa
end Grexv
