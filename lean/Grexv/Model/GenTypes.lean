import Grexv.Model.Basic
/- Types of the data the translator generates from the Rust sources. -/
namespace Grexv.Gen

inductive ClassTable where | digit | word | space
deriving DecidableEq, Repr, Inhabited

inductive ClassFlag where | digit | nonDigit | space | nonSpace | word | nonWord
deriving DecidableEq, Repr, Inhabited

/-- one branch of the if-chain in `convert_to_char_classes`:
`if <flag> && [!]<table>(c) { <token> }` -/
structure ConvRule where
  flag : ClassFlag
  table : ClassTable
  negated : Bool
  token : Str
deriving DecidableEq, Repr, Inhabited

/-- fields of `RegExpConfig` a setter may assign -/
inductive Field where
  | minRep | minLen | digit | nonDigit | space | nonSpace | word | nonWord | rep | ci | cap
  | esc | sur | verb | noStart | noEnd | color
deriving DecidableEq, Repr, Inhabited

inductive Msg where | missingTestCases | minRep | minLen
deriving DecidableEq, Repr, Inhabited

/-- statements of the setter subset -/
inductive Stmt where
  | setTrue (f : Field)
  | setArg (f : Field)                 -- `= x` / `= x as u32`
  | failIfZero (m : Msg)               -- `if x == 0 | x < 1 { panic!(MSG) / return Err(MSG) }`  (unsigned argument)
  | failIfNonPos (m : Msg)             -- `if x <= 0 { Err(MSG) } else { .. }`                  (signed argument)
  | setFalse (f : Field)               -- `= false`
  | setNotArg (f : Field)              -- `= !x`
  | setTrueIfArg (f : Field)           -- `if x { FIELD = true; }`
deriving DecidableEq, Repr, Inhabited

inductive ArgKind where | none | bool | nat | int
deriving DecidableEq, Repr, Inhabited

/-- the 17 setters of the builder API, under one name for the three front ends -/
inductive SetterId where
  | digits | nonDigits | whitespace | nonWhitespace | words | nonWords | repetitions | caseInsensitive
  | capturingGroups | minRepetitions | minSubstringLength | escaping | verbose | noStartAnchor | noEndAnchor
  | noAnchors | syntaxHighlighting
deriving DecidableEq, Repr, Inhabited

structure Setter where
  id : SetterId
  arg : ArgKind
  body : List Stmt
deriving DecidableEq, Repr, Inhabited

/-- options of the command line (clap `name = ".."`) -/
inductive CliField where
  | digits | nonDigits | spaces | nonSpaces | words | nonWords | escape | withSurrogates | repetitions
  | minRepetitions | minSubstringLength | noStartAnchor | noEndAnchor | noAnchors | verbose | colorize
  | ignoreCase | captureGroups
deriving DecidableEq, Repr, Inhabited

structure CliFlag where
  field : CliField
  name : String
  short : Option Nat
  long : Bool
  requires : Option CliField
  isBool : Bool
  default : Option Nat
  rejectsZero : Bool
deriving DecidableEq, Repr, Inhabited

/-- `if cli.<cond> { builder.<setter>(cli.<arg>); }` (no condition for the threshold chain) -/
structure CliAction where
  cond : Option CliField
  setter : SetterId
  arg : Option CliField
deriving DecidableEq, Repr, Inhabited

end Grexv.Gen
