import Grexv.Model.Basic
/- Types of the data the translator generates from the Rust sources. -/
namespace Grexv.Gen

inductive ClassTable where | digit | word | space
deriving DecidableEq, Repr, Inhabited

inductive ClassFlag where | digit | nonDigit | space | nonSpace | word | nonWord
deriving DecidableEq, Repr, Inhabited

/-- one branch of the if-chain in `convert_to_char_classes`:
`if <flag> && [!]<table>(c) { <token> }` -/
structure ConvRule where
  flag : ClassFlag
  table : ClassTable
  negated : Bool
  token : Str
deriving DecidableEq, Repr, Inhabited

/-- fields of `RegExpConfig` a setter may assign -/
inductive Field where
  | minRep | minLen | digit | nonDigit | space | nonSpace | word | nonWord | rep | ci | cap
  | esc | sur | verb | noStart | noEnd | color
deriving DecidableEq, Repr, Inhabited

inductive Msg where | missingTestCases | minRep | minLen
deriving DecidableEq, Repr, Inhabited

/-- statements of the setter subset -/
inductive Stmt where
  | setTrue (f : Field)
  | setArg (f : Field)                 -- `= x` / `= x as u32`
  | failIfZero (m : Msg)               -- `if x == 0 | x < 1 | x <= 0 { panic!/Err(MSG) }`
deriving DecidableEq, Repr, Inhabited

inductive ArgKind where | none | bool | nat
deriving DecidableEq, Repr, Inhabited

structure Setter where
  name : String
  arg : ArgKind
  body : List Stmt
deriving DecidableEq, Repr, Inhabited

end Grexv.Gen
