import Grexv.Model.RegExp
import Grexv.Gen.SettersRs

/-
The builder API as data (generated from builder.rs / python.rs / wasm.rs) and its interpreter,
builder histories, and the Python rewrite
of `\u{...}` escapes (python.rs).
-/
namespace Grexv
open Gen

inductive Arg where
  | none
  | bool (b : Bool)
  | int (i : Int)
deriving DecidableEq, Repr, Inhabited

def Config.setBool (cfg : Config) (f : Field) (b : Bool) : Config :=
  match f with
  | .digit => { cfg with digit := b } | .nonDigit => { cfg with nonDigit := b }
  | .space => { cfg with space := b } | .nonSpace => { cfg with nonSpace := b }
  | .word => { cfg with word := b } | .nonWord => { cfg with nonWord := b }
  | .rep => { cfg with rep := b } | .ci => { cfg with ci := b } | .cap => { cfg with cap := b }
  | .esc => { cfg with esc := b } | .sur => { cfg with sur := b } | .verb => { cfg with verb := b }
  | .noStart => { cfg with noStart := b } | .noEnd => { cfg with noEnd := b } | .color => { cfg with color := b }
  | .minRep | .minLen => cfg

def Config.setNat (cfg : Config) (f : Field) (n : Nat) : Config :=
  match f with
  | .minRep => { cfg with minRep := n }
  | .minLen => { cfg with minLen := n }
  | _ => cfg

/-- one statement of a setter body; an error is the documented panic / `ValueError` / JS exception -/
def runStmt (arg : Arg) (cfg : Config) : Stmt → Except Msg Config
  | .setTrue f => .ok (cfg.setBool f true)
  | .setArg f => match arg with
    | .bool b => .ok (cfg.setBool f b)
    | .int i => .ok (cfg.setNat f i.toNat)
    | .none => .ok cfg
  | .failIfZero m => match arg with
    | .int i => if i = 0 then .error m else .ok cfg
    | _ => .ok cfg
  | .failIfNonPos m => match arg with
    | .int i => if i ≤ 0 then .error m else .ok cfg
    | _ => .ok cfg
  | .setFalse f => .ok (cfg.setBool f false)
  | .setNotArg f => match arg with
    | .bool b => .ok (cfg.setBool f !b)
    | _ => .ok cfg
  | .setTrueIfArg f => match arg with
    | .bool true => .ok (cfg.setBool f true)
    | _ => .ok cfg

def runBody (arg : Arg) : List Stmt → Config → Except Msg Config
  | [], cfg => .ok cfg
  | s :: ss, cfg => match runStmt arg cfg s with
    | .ok cfg' => runBody arg ss cfg'
    | .error m => .error m

def findSetter (api : List Setter) (id : SetterId) : Option Setter := api.find? fun s => s.id = id

/-- calling setter `id` of one of the three front ends -/
def applySetter (api : List Setter) (id : SetterId) (arg : Arg) (cfg : Config) : Option (Except Msg Config) :=
  (findSetter api id).map fun s => runBody arg s.body cfg

/-! ### builder histories (C10) -/

inductive Op where
  | set (id : SetterId) (arg : Arg)
  | build
deriving DecidableEq, Repr

/-- runs a history on the library builder; collects the outputs of the `build()` calls -/
def runHistory (env : Env) : List Op → Builder → List Str → Except Panic (Builder × List Str)
  | [], b, outs => .ok (b, outs.reverse)
  | .build :: ops, b, outs =>
    match b.build env with
    | .ok (b', s) => runHistory env ops b' (s :: outs)
    | .error e => .error e
  | .set id arg :: ops, b, outs =>
    match applySetter rsSetters id arg b.config with
    | some (.ok cfg) => runHistory env ops { b with config := cfg } outs
    | some (.error .minRep) => .error .zeroMinRep
    | some (.error .minLen) => .error .zeroMinLen
    | some (.error .missingTestCases) => .error .noTestCases
    | none => runHistory env ops b outs

/-! ### Python: `replace_unicode_escape_sequences` (C14) -/

def isLowerHex (c : Nat) : Bool := (48 ≤ c && c ≤ 57) || (97 ≤ c && c ≤ 102)

def hexValue (ds : Str) : Nat := ds.foldl (fun acc d => acc * 16 + (if d ≤ 57 then d - 48 else d - 87)) 0

def padHex (width : Nat) (n : Nat) : Str :=
  let h := toHex n
  List.replicate (width - h.length) 48 ++ h

/-- `\\\\|\\u\{([0-9a-f]{1,6})\}`, leftmost non-overlapping: an escaped backslash is copied (so that what follows it is not
read as an escape), `\u{h…}` is replaced by `\uXXXX` (≤ 0xFFFF) or `\UXXXXXXXX` -/
def pyRewrite : Nat → Str → Str
  | 0, s => s
  | fuel + 1, s =>
    match s with
    | 92 :: 92 :: rest => 92 :: 92 :: pyRewrite fuel rest
    | 92 :: 117 :: 123 :: rest =>
      let ds := rest.takeWhile isLowerHex
      let after := rest.dropWhile isLowerHex
      if 1 ≤ ds.length && ds.length ≤ 6 && after.head? = some 125 then
        let v := hexValue ds
        (if v ≤ 0xFFFF then [92, 117] ++ padHex 4 v else [92, 85] ++ padHex 8 v) ++ pyRewrite fuel (after.drop 1)
      else 92 :: pyRewrite fuel (117 :: 123 :: rest)
    | c :: rest => c :: pyRewrite fuel rest
    | [] => []

/-- `py_build` -/
def pyBuild (env : Env) (b : Builder) : Except Panic (Builder × Str) :=
  match b.build env with
  | .ok (b', s) => .ok (b', if b.config.esc then pyRewrite (s.length + 1) s else s)
  | .error e => .error e

end Grexv
