import Grexv.Model.Api
import Grexv.Gen.Cli

/-
The decision logic of the CLI (main.rs) over the generated flag table and dispatch chain, and `str::lines` in reverse.
Kept apart from `Api.lean` so that the properties about the builder and the bindings do not depend on the CLI table.
-/
namespace Grexv
open Gen

/-! ### CLI decision logic (C12) -/

structure CliVals where
  digits : Bool := false
  nonDigits : Bool := false
  spaces : Bool := false
  nonSpaces : Bool := false
  words : Bool := false
  nonWords : Bool := false
  escape : Bool := false
  withSurrogates : Bool := false
  repetitions : Bool := false
  minRepetitions : Nat := 1
  minSubstringLength : Nat := 1
  noStartAnchor : Bool := false
  noEndAnchor : Bool := false
  noAnchors : Bool := false
  verbose : Bool := false
  colorize : Bool := false
  ignoreCase : Bool := false
  captureGroups : Bool := false
deriving DecidableEq, Repr

def CliVals.getBool (v : CliVals) : CliField → Bool
  | .digits => v.digits | .nonDigits => v.nonDigits | .spaces => v.spaces | .nonSpaces => v.nonSpaces
  | .words => v.words | .nonWords => v.nonWords | .escape => v.escape | .withSurrogates => v.withSurrogates
  | .repetitions => v.repetitions | .noStartAnchor => v.noStartAnchor | .noEndAnchor => v.noEndAnchor
  | .noAnchors => v.noAnchors | .verbose => v.verbose | .colorize => v.colorize | .ignoreCase => v.ignoreCase
  | .captureGroups => v.captureGroups
  | .minRepetitions | .minSubstringLength => false

def CliVals.getNat (v : CliVals) : CliField → Nat
  | .minRepetitions => v.minRepetitions
  | .minSubstringLength => v.minSubstringLength
  | _ => 0

def cliArg (v : CliVals) (api : List Setter) (a : CliAction) : Arg :=
  match a.arg with
  | none => .none
  | some f =>
    match (findSetter api a.setter).map Setter.arg with
    | some .bool => .bool (v.getBool f)
    | some .nat | some .int => .int (v.getNat f)
    | _ => .none

/-- `handle_input`: the dispatch chain applied to a fresh builder -/
def runCliDispatch (api : List Setter) (v : CliVals) : List CliAction → Config → Except Msg Config
  | [], cfg => .ok cfg
  | a :: as, cfg =>
    let fire := match a.cond with
      | none => true
      | some f => v.getBool f
    if fire then
      match applySetter api a.setter (cliArg v api a) cfg with
      | some (.ok cfg') => runCliDispatch api v as cfg'
      | some (.error m) => .error m
      | none => runCliDispatch api v as cfg
    else runCliDispatch api v as cfg

/-- the documented meaning of the command line -/
def specCfgOfCli (v : CliVals) : Config :=
  { minRep := v.minRepetitions, minLen := v.minSubstringLength,
    digit := v.digits, nonDigit := v.nonDigits, space := v.spaces, nonSpace := v.nonSpaces,
    word := v.words, nonWord := v.nonWords, rep := v.repetitions, ci := v.ignoreCase,
    cap := v.captureGroups, esc := v.escape, sur := v.escape && v.withSurrogates, verb := v.verbose,
    noStart := v.noStartAnchor || v.noAnchors, noEnd := v.noEndAnchor || v.noAnchors, color := v.colorize }

/-- `str::lines` is `splitLines` (Format.lean).  Encoding a list of test cases as file content:
`le` = line ending (`[10]` or `[13, 10]`), `final` = whether the last line is terminated. -/
def encodeLines (le : Str) (final : Bool) : List Str → Str
  | [] => []
  | [l] => if final then l ++ le else l
  | l :: ls => l ++ le ++ encodeLines le final ls

end Grexv
