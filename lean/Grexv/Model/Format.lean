import Grexv.Model.Expr
import Grexv.Spec.Pat

/-
Printing (S8/S9): `Display for Grapheme` (grapheme.rs), `Display for Expression` (format.rs),
`Component` (component.rs), `Display for RegExp` and `indent_regexp` (regexp.rs).
String constants come from the generated `Gen.Consts`.
-/
namespace Grexv

open Gen in
/-- `Component::color_code` (never called with `is_escaped = true` by the library) -/
def colorCode (code : Str) (value : Str) : Str :=
  [27, 91] ++ code ++ [109] ++ value ++ [27, 91, 48, 109]

/-- `to_repr` of a component whose uncoloured text is `text` and whose colour is `code` -/
def paint (color : Bool) (code : Str) (text : Str) : Str :=
  if color then colorCode code text else text

namespace Comp
open Gen

def leftParen (cap color : Bool) : Str :=
  if cap then paint color colGreenBold strCapturedLeftParen else paint color colGreenBold strUncapturedLeftParen
def rightParen (color : Bool) : Str := paint color colGreenBold strRightParen

/-- `(Un)CapturedParenthesizedExpression(expr, verbose, final_line_break).to_repr(color)` -/
def paren (cap color verb finalBreak : Bool) (expr : Str) : Str :=
  if verb then
    [10] ++ leftParen cap color ++ [10] ++ expr ++ [10] ++ rightParen color ++ (if finalBreak then [10] else [])
  else leftParen cap color ++ expr ++ rightParen color

def caret (color verb : Bool) : Str := paint color colYellowBold strCaret ++ (if verb then [10] else [])
def dollar (color verb : Bool) : Str := (if verb then [10] else []) ++ paint color colYellowBold strDollar
def hyphen (color : Bool) : Str := paint color colCyanBold strHyphen
def leftBracket (color : Bool) : Str := paint color colCyanBold strLeftBracket
def rightBracket (color : Bool) : Str := paint color colCyanBold strRightBracket
def pipe (color : Bool) : Str := paint color colRedBold strPipe
def quantifier (color verb : Bool) (q : Quant) : Str :=
  paint color colPurpleBold (match q with | .star => strStar | .question => strQuestion) ++ (if verb then [10] else [])
/-- `Repetition(n, verbose)`; the `n = 0` display branches are unreachable (counts are ≥ 2) but mirrored -/
def repetition (color verb : Bool) (n : Nat) : Str :=
  paint color colWhiteOnBrightBlue (if n = 0 then strRepZero else [123] ++ toDec n ++ [125]) ++ (if verb then [10] else [])
def repetitionRange (color verb : Bool) (m n : Nat) : Str :=
  paint color colWhiteOnBrightBlue
    (if m = 0 && n = 0 then strRepRangeZero else [123] ++ toDec m ++ [44] ++ toDec n ++ [125]) ++ (if verb then [10] else [])
def charClass (color : Bool) (v : Str) : Str := paint color colBlackOnBrightYellow v
def flagI (color : Bool) : Str := paint color colBrightYellowOnBlack strFlagI
def flagIX (color : Bool) : Str := paint color colBrightYellowOnBlack strFlagIX ++ [10]
def flagX (color : Bool) : Str := paint color colBrightYellowOnBlack strFlagX ++ [10]

end Comp

/-- one element of `Grapheme::chars` through `escape_regexp_symbols` (without the non-ASCII step) -/
def escapeSymbols (s : Str) : Str :=
  let s1 := Gen.charsToEscape.foldl (fun acc c => replaceChar c [92, c] acc) s
  let s2 := replaceChar 9 [92, 116] (replaceChar 13 [92, 114] (replaceChar 10 [92, 110] s1))
  if s2 = [92] then [92, 92] else s2

mutual
/-- `escape_regexp_symbols` (recurses into the nested repetitions) -/
def escapeGrapheme (cfg : Config) : Grapheme → Grapheme
  | .mk chars reps mn mx =>
    let cs := chars.map escapeSymbols
    let cs := if cfg.esc then cs.map (fun it => it.flatMap fun c => Expr.escapeChar c cfg.sur) else cs
    Grapheme.mk cs (escapeGraphemes cfg reps) mn mx
def escapeGraphemes (cfg : Config) : List Grapheme → List Grapheme
  | [] => []
  | g :: gs => escapeGrapheme cfg g :: escapeGraphemes cfg gs
end

/-- `is_single_escape_sequence`: exactly one escape (`\\.`, `\\d`, `\\u{...}`) and nothing else -/
def isSingleEscape (s : Str) : Bool :=
  countIf (· = 92) s == 1 && s.head? == some 92 &&
    (s.length == 2 || ([92, 117, 123].isPrefixOf s && s.getLast? == some 125))

def countChar (c : Nat) (s : Str) : Nat := countIf (· = c) s

mutual
/-- `Display for Grapheme` -/
def fmtGrapheme (cfg : Config) : Grapheme → Str
  | .mk chars reps mn mx =>
    let g := Grapheme.mk chars reps mn mx
    let isSingleChar := Expr.graphemeCharCount g false == 1
      || (chars.length == 1 && isSingleEscape (chars.headD []))
    let isRange := decide (mn < mx)
    let isRepetition := decide (mn > 1)
    let value0 := if reps.isEmpty then chars.flatten else fmtGraphemes cfg reps
    let value := Comp.charClass (cfg.color && Gen.charClasses.contains value0) value0
    if !isRange && isRepetition && isSingleChar then value ++ Comp.repetition cfg.color false mn
    else if !isRange && isRepetition && !isSingleChar then
      Comp.paren cfg.cap cfg.color cfg.verb false value ++ Comp.repetition cfg.color cfg.verb mn
    else if isRange && isSingleChar then value ++ Comp.repetitionRange cfg.color false mn mx
    else if isRange && !isSingleChar then
      Comp.paren cfg.cap cfg.color cfg.verb false value ++ Comp.repetitionRange cfg.color cfg.verb mn mx
    else value
def fmtGraphemes (cfg : Config) : List Grapheme → Str
  | [] => []
  | g :: gs => fmtGrapheme cfg g ++ fmtGraphemes cfg gs
end

/-- `format_literal` -/
def fmtLiteral (cfg : Config) (c : Cluster) : Str :=
  c.flatMap fun g =>
    let g' := if !g.reps.isEmpty
      then Grapheme.mk g.chars (escapeGraphemes cfg g.reps) g.min g.max
      else escapeGrapheme cfg g
    fmtGrapheme cfg g'

def escapeClassChar (c : Nat) : Str :=
  if Gen.classEscapeChars.contains c then [92, c]
  else if c = 10 then [92, 110] else if c = 13 then [92, 114] else if c = 9 then [92, 116] else [c]

/-- position in `CharRange::all()` (all scalar values in order: the surrogate gap is skipped) -/
def codepointPosition (c : Nat) : Nat := if c ≥ 0xE000 then c - 0x800 else c

/-- split an ascending set into maximal runs of consecutive positions -/
def runs : List Nat → List (List Nat)
  | [] => [[]]
  | [c] => [[c]]
  | c :: d :: rest =>
    match runs (d :: rest) with
    | [] => [[c]]
    | r :: rs => if codepointPosition d = codepointPosition c + 1 then (c :: r) :: rs else [c] :: r :: rs

/-- `format_character_class` -/
def fmtClass (cfg : Config) (cs : List Nat) : Str :=
  let body := (runs cs).flatMap fun r =>
    if r.length ≤ 2 then r.flatMap escapeClassChar
    else escapeClassChar (r.headD 0) ++ Comp.hyphen cfg.color ++ escapeClassChar (r.getLastD 0)
  Comp.leftBracket cfg.color ++ body ++ Comp.rightBracket cfg.color

mutual
/-- `Display for Expression` -/
def fmtExpr (cfg : Config) : Expr → Str
  | .alt os => fmtAlt cfg os
  | .cls cs => fmtClass cfg cs
  | .cat a b => fmtSub cfg 2 true a ++ fmtSub cfg 2 true b
  | .lit c => fmtLiteral cfg c
  | .rep e q => fmtSub cfg 3 false e ++ Comp.quantifier cfg.color cfg.verb q
/-- a sub-expression of an expression with precedence `outer`, parenthesised when weaker -/
def fmtSub (cfg : Config) (outer : Nat) (finalBreak : Bool) : Expr → Str
  | e =>
    if e.precedence < outer && !e.isSingleCodepoint cfg
    then Comp.paren cfg.cap cfg.color cfg.verb finalBreak (fmtExpr cfg e) else fmtExpr cfg e
/-- `format_alternation`: options joined by the (verbose: line-broken) pipe -/
def fmtAlt (cfg : Config) : List Expr → Str
  | [] => []
  | [o] => fmtSub cfg 1 true o
  | o :: os => fmtSub cfg 1 true o
      ++ (if cfg.verb then [10] ++ Comp.pipe cfg.color ++ [10] else Comp.pipe cfg.color) ++ fmtAlt cfg os
end

/-- the colour-stripping regex shared by `convert_expr_to_regex` and `indent_regexp`:
ESC `[` (`\\d+;\\d+` | `0`) `m` -/
def stripColor : Nat → Str → Str
  | 0, s => s
  | fuel + 1, s =>
    match s with
    | [] => []
    | 27 :: 91 :: rest =>
      let isD := fun c => Spec.perlMember .digit c
      let d1 := rest.takeWhile isD
      let r1 := rest.dropWhile isD
      let long : Option Str :=
        if d1.isEmpty then none else
        match r1 with
        | 59 :: r2 =>
          let d2 := r2.takeWhile isD
          let r3 := r2.dropWhile isD
          if d2.isEmpty then none else
          match r3 with
          | 109 :: r4 => some r4
          | _ => none
        | _ => none
      match long with
      | some r => stripColor fuel r
      | none =>
        match rest with
        | 48 :: 109 :: r => stripColor fuel r
        | _ => 27 :: stripColor fuel (91 :: rest)
    | c :: rest => c :: stripColor fuel rest

/-- `indent_regexp`: the nesting level follows the text of each line with its colour codes removed -/
def indentLines (cfg : Config) : List Str → Nat → Nat → List Str
  | [], _, _ => []
  | line :: rest, i, level0 =>
    let level1 := if i == 1 && cfg.noStart then level0 + 1 else level0
    if line.isEmpty then indentLines cfg rest (i + 1) level1
    else
      let plain := stripColor (line.length + 1) line
      let level2 := if level1 > 0 && (plain = [36] || plain.head? = some 41) then level1 - 1 else level1
      let out := (List.replicate (2 * level2) 32) ++ line
      let level3 := if plain = [94] || (i > 0 && plain.head? = some 40) then level2 + 1 else level2
      out :: indentLines cfg rest (i + 1) level3

/-- `str::lines`: split at LF, drop one trailing CR per line, no final empty line -/
def splitLines (s : Str) : List Str :=
  let rec go : Str → Str → List Str
    | [], cur => if cur.isEmpty then [] else [cur.reverse]
    | c :: rest, cur =>
      if c = 10 then
        let line := cur.reverse
        (if line.getLast? = some 13 then line.dropLast else line) :: go rest []
      else go rest (c :: cur)
  go s []

def indentRegexp (cfg : Config) (s : Str) : Str :=
  joinWith [10] (indentLines cfg (splitLines s) 0 0)

/-- the expression inside the anchors: a top-level alternation gets a group -/
def bodyText (cfg : Config) (ast : Expr) : Str :=
  match ast with
  | .alt _ => Comp.paren cfg.cap cfg.color cfg.verb false (fmtExpr cfg ast)
  | _ => fmtExpr cfg ast

/-- `Display for RegExp` -/
def fmtRegExp (cfg : Config) (ast : Expr) : Str :=
  let flag :=
    if cfg.ci && cfg.verb then Comp.flagIX cfg.color
    else if cfg.ci then Comp.flagI cfg.color
    else if cfg.verb then Comp.flagX cfg.color
    else []
  let caret := if cfg.noStart then [] else Comp.caret cfg.color cfg.verb
  let dollar := if cfg.noEnd then [] else Comp.dollar cfg.color cfg.verb
  let body := bodyText cfg ast
  let r0 := flag ++ caret ++ body ++ dollar
  let r1 := replaceChar 12 Gen.strFormFeed (replaceChar 11 Gen.strVerticalTab r0)
  if cfg.verb then
    let r2 := replaceChar 35 Gen.strHash r1
    let r3 := r2.flatMap fun c => if Gen.verboseSpaces.contains c then [92, 117, 123] ++ toHex c ++ [125] else [c]
    let r4 := replaceChar 32 Gen.strBlank r3
    indentRegexp cfg r4
  else r1

end Grexv
