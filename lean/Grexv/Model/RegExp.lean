import Grexv.Model.Format
import Grexv.Spec.Pat

/-
`RegExp::from` (src/regexp.rs): S1 (lower-casing, sorting), S2–S4 via `grapheme_clusters`,
S5–S7, and the self-check S10 with its two fall-backs.
External functions enter as parameters:
  `lowerOf` — `str::to_lowercase`;  `segOf` — extended grapheme cluster segmentation.
-/
namespace Grexv

structure Env where
  lowerOf : Str → Str
  segOf : Str → List Str

/-- `convert_for_case_insensitive_matching` -/
def lowerCases (env : Env) (ws : List Str) : List Str :=
  ws.map fun it =>
    let l := env.lowerOf it
    if l.length = it.length then l else it

def strLe (a b : Str) : Bool := cmpStr a b != .gt

def lenThenStrLe (a b : Str) : Bool :=
  utf8LenStr a < utf8LenStr b || (utf8LenStr a == utf8LenStr b && strLe a b)

/-- `RegExp::sort`: sort, dedup, sort by (byte length, bytes) -/
def sortCases (ws : List Str) : List Str :=
  sortBy lenThenStrLe (dedupAdj (sortBy strLe ws))

/-- `RegExp::grapheme_clusters` -/
def graphemeClusters (cfg : Config) (env : Env) (ws : List Str) : List Cluster :=
  let cs := ws.map fun w => clusterOfPieces (env.segOf w)
  let cs := if cfg.charClassFeature then cs.map (convertClasses cfg) else cs
  if cfg.rep then cs.map (convertRepetitions cfg) else cs

/-- the colour-stripping regex of `convert_expr_to_regex`: ESC `[` (`\d+;\d+` | `0`) `m` -/
def stripColor : Nat → Str → Str
  | 0, s => s
  | fuel + 1, s =>
    match s with
    | [] => []
    | 27 :: 91 :: rest =>
      let isD := fun c => Spec.perlMember .digit c
      let d1 := rest.takeWhile isD
      let r1 := rest.dropWhile isD
      let long : Option Str :=
        if d1.isEmpty then none else
        match r1 with
        | 59 :: r2 =>
          let d2 := r2.takeWhile isD
          let r3 := r2.dropWhile isD
          -- `\d+` is greedy but may give back digits; only an `m` right after the digits can match
          if d2.isEmpty then none else
          match r3 with
          | 109 :: r4 => some r4
          | _ => none
        | _ => none
      match long with
      | some r => stripColor fuel r
      | none =>
        match rest with
        | 48 :: 109 :: r => stripColor fuel r
        | _ => 27 :: stripColor fuel (91 :: rest)
    | c :: rest => c :: stripColor fuel rest

/-- `convert_expr_to_regex` (+ the verbose line-break removal of the first check) -/
def regexOfExpr (cfg : Config) (dropNewlines : Bool) (e : Expr) : Except Panic (Spec.Flags × Spec.Pat) :=
  let s := fmtExpr cfg e
  let s := if cfg.color then stripColor (s.length + 1) s else s
  match Spec.parse s with
  | none => .error (.regexInvalid s)
  | some r =>
    if dropNewlines then
      let s' := s.filter (· ≠ 10)
      match Spec.parse s' with
      | none => .error (.regexInvalid s')
      | some r' => .ok r'
    else .ok r

/-- `regex_matches_all_test_cases` -/
def matchesAll (r : Spec.Flags × Spec.Pat) (ws : List Str) : Bool :=
  ws.all fun tc => Spec.findIterCount r.1.i r.2 tc == 1

structure Stages where
  sorted : List Str
  clusters : List Cluster
  trie : Dfa
  minimized : Dfa
  firstAst : Expr
  finalAst : Expr

/-- `RegExp::from`; returns the stored (mutated) test cases and the expression kept -/
def regExpFrom (cfg : Config) (env : Env) (ws : List Str) : Except Panic Stages :=
  let ws1 := if cfg.ci then lowerCases env ws else ws
  let sorted := sortCases ws1
  let clusters := graphemeClusters cfg env sorted
  let trie := Dfa.trie clusters
  match Dfa.minimize trie Dfa.pickMin with
  | none => .error (.index "minimize: fuel")
  | some dmin =>
    let ast := Expr.ofDfa cfg dmin
    let mk := fun (final : Expr) => (Except.ok
      { sorted := sorted, clusters := clusters, trie := trie, minimized := dmin, firstAst := ast, finalAst := final } : Except Panic Stages)
    if cfg.noStart && cfg.noEnd then
      match regexOfExpr cfg cfg.verb ast with
      | .error e => .error e
      | .ok re =>
        -- the rotation loop never recompiles the regex: it succeeds on its first iteration or not at all
        if decide (sorted.length > 1) && matchesAll re sorted then mk ast
        else
          let ast2 := Expr.ofDfa cfg trie
          match regexOfExpr cfg false ast2 with
          | .error e => .error e
          | .ok re2 =>
            if matchesAll re2 sorted then mk ast2
            else mk (Expr.newAlternation (clusters.map Expr.lit))
    else mk ast

/-- builder state: (`test_cases`, `config`) -/
structure Builder where
  testCases : List Str
  config : Config

/-- `RegExpBuilder::from` -/
def Builder.from (ws : List Str) : Except Panic Builder :=
  if ws.isEmpty then .error .noTestCases else .ok { testCases := ws, config := {} }

/-- `RegExpBuilder::build`: the stored list is replaced by the sorted one -/
def Builder.build (env : Env) (b : Builder) : Except Panic (Builder × Str) :=
  match regExpFrom b.config env b.testCases with
  | .error e => .error e
  | .ok st => .ok ({ b with testCases := st.sorted }, fmtRegExp b.config st.finalAst)

end Grexv
