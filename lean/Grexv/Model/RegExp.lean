import Grexv.Model.Format
import Grexv.Spec.Pat

/-
`RegExp::from` (src/regexp.rs): S1 (lower-casing, sorting), S2–S4 via `grapheme_clusters`,
S5–S7, and the self-check S10 with its two fall-backs.
External functions enter as parameters:
  `lowerOf` — `str::to_lowercase`;  `segOf` — extended grapheme cluster segmentation.
-/
namespace Grexv

structure Env where
  lowerOf : Str → Str
  segOf : Str → List Str

/-- `is_matched_case_insensitively`: the escaped lower-cased test case, compiled with `(?i)` and both
anchors, matches the original — position by position up to the regex crate's simple case folding -/
def ciLiteralMatch (lower original : Str) : Bool :=
  lower == original ||
    (lower.length == original.length && (List.zip lower original).all fun p => Spec.chrMatches true p.1 p.2)

/-- one test case through `convert_for_case_insensitive_matching` -/
def lowerOne (env : Env) (it : Str) : Str :=
  let l := env.lowerOf it
  if l.length = it.length && ciLiteralMatch l it then l else it

/-- `convert_for_case_insensitive_matching` -/
def lowerCases (env : Env) (ws : List Str) : List Str := ws.map (lowerOne env)

/-- `RegExp::grapheme_clusters` -/
def graphemeClusters (cfg : Config) (env : Env) (ws : List Str) : List Cluster :=
  let cs := ws.map fun w => clusterOfPieces (env.segOf w)
  let cs := if cfg.charClassFeature then cs.map (convertClasses cfg) else cs
  if cfg.rep then cs.map (convertRepetitions cfg) else cs

/-- the pattern text `convert_expr_to_regex` hands to `Regex::new`
(+ the verbose line-break removal of the first check) -/
def regexText (cfg : Config) (dropNewlines : Bool) (e : Expr) : Str :=
  let s := fmtExpr cfg e
  let s := if cfg.color then stripColor (s.length + 1) s else s
  if dropNewlines then s.filter (· ≠ 10) else s

/-- `convert_expr_to_regex`: `Regex::new(..).ok()` -/
def regexOfExpr (cfg : Config) (e : Expr) : Option (Spec.Flags × Spec.Pat) :=
  Spec.parse (regexText cfg false e)

/-- `regex_matches_all_test_cases` -/
def matchesAll (r : Spec.Flags × Spec.Pat) (ws : List Str) : Bool :=
  ws.all fun tc => Spec.findIterCount r.1.i r.2 tc == 1

structure Stages where
  sorted : List Str
  clusters : List Cluster
  trie : Dfa
  minimized : Dfa
  firstAst : Expr
  finalAst : Expr
  /-- self-check trace: (pattern text given to the regex crate, verdict of `matchesAll`) -/
  trace : List (Str × Bool)

/-- `RegExp::from`; returns the stored (mutated) test cases and the expression kept -/
def regExpFrom (cfg : Config) (env : Env) (ws : List Str) : Except Panic Stages :=
  let ws1 := if cfg.ci then lowerCases env ws else ws
  let sorted := sortCases ws1
  let clusters := graphemeClusters cfg env sorted
  let trie := Dfa.trie clusters
  match Dfa.minimize trie Dfa.pickMin with
  | none => .error (.index "minimize: fuel")
  | some dmin =>
    let ast := Expr.ofDfa cfg dmin
    let mk := fun (final : Expr) (tr : List (Str × Bool)) => (Except.ok
      { sorted := sorted, clusters := clusters, trie := trie, minimized := dmin, firstAst := ast,
        finalAst := final, trace := tr } : Except Panic Stages)
    if cfg.noStart && cfg.noEnd then
      match regexOfExpr cfg ast with
      | none => mk ast []                       -- a candidate the regex crate rejects cannot be checked
      | some re0 =>
        -- verbose: `Regex::new(&regex.to_string().replace('\\n', "")).unwrap()`
        let re1 : Except Panic (Spec.Flags × Spec.Pat) :=
          if cfg.verb then
            match Spec.parse (regexText cfg true ast) with
            | some r => .ok r
            | none => .error (.regexInvalid (regexText cfg true ast))
          else .ok re0
        match re1 with
        | .error e => .error e
        | .ok re =>
          -- the rotation loop never recompiles the regex: it succeeds on its first iteration or not at all
          let v1 := decide (sorted.length > 1) && matchesAll re sorted
          let t1 := (regexText cfg cfg.verb ast, matchesAll re sorted)
          if v1 then mk ast [t1]
          else
            let ast2 := Expr.ofDfa cfg trie
            match regexOfExpr cfg ast2 with
            | none => mk (Expr.newAlternation (clusters.map Expr.lit)) [t1]
            | some re2 =>
              let t2 := (regexText cfg false ast2, matchesAll re2 sorted)
              if matchesAll re2 sorted then mk ast2 [t1, t2]
              else mk (Expr.newAlternation (clusters.map Expr.lit)) [t1, t2]
    else mk ast []

/-- builder state: (`test_cases`, `config`) -/
structure Builder where
  testCases : List Str
  config : Config

/-- `RegExpBuilder::from` -/
def Builder.from (ws : List Str) : Except Panic Builder :=
  if ws.isEmpty then .error .noTestCases else .ok { testCases := ws, config := {} }

/-- `RegExpBuilder::build`: the stored list is replaced by the sorted one -/
def Builder.build (env : Env) (b : Builder) : Except Panic (Builder × Str) :=
  match regExpFrom b.config env b.testCases with
  | .error e => .error e
  | .ok st => .ok ({ b with testCases := st.sorted }, fmtRegExp b.config st.finalAst)

end Grexv
