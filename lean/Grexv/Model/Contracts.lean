import Grexv.Model.RegExp

/-
Executable contracts the driver evaluates per input.  The theorems of S7 are stated under the
propositions these booleans decide (`Lemmas/Contracts.lean` proves the implications).
-/
namespace Grexv

/-- `states` starts with the initial state, is closed under successors and fits the matrix -/
def dfsOkB (d : Dfa) (states : List Nat) : Bool :=
  states.head? == some d.init &&
  states.all (fun s => d.edges.all (fun e => e.src != s || states.contains e.dst)) &&
  decide (states.length ≤ d.nodes)

/-- the Kleene-star branch of the elimination loop is never taken -/
def noSelfB (cfg : Config) : ElimState → List Nat → Bool
  | _, [] => true
  | st, n :: ns => (st.a.get n n).isNone && noSelfB cfg (elimStep cfg st n) ns

/-- every edge label is `Grapheme::from(s)` with `s ≠ ""` -/
def plainLabelsB (d : Dfa) : Bool :=
  d.edges.all fun e => match e.label with
    | .mk [s] [] 1 1 => !s.isEmpty
    | _ => false

/-- all three for the automaton handed to `Expression::from` -/
def elimContractsB (cfg : Config) (d : Dfa) : Bool :=
  decide (1 ≤ d.nodes) && plainLabelsB d && dfsOkB d d.dfs &&
    noSelfB cfg (elimInit cfg d d.dfs) (List.range d.nodes).reverse

namespace Dfa

/-- representative of the class of `s` -/
def repOf (p : List Block) (pick : Block → Nat) (s : Nat) : Nat := pick (p.getD (classOf p s) [])

/-- executable stability conditions of a partition w.r.t. an automaton and a choice of representatives -/
def quotientOkB (d : Dfa) (pick : Block → Nat) (p : List Block) : Bool :=
  let states := List.range d.nodes
  decide (d.init < d.nodes) &&
  d.edges.all (fun e => decide (e.src < d.nodes) && decide (e.dst < d.nodes)) &&
  -- every state lies in the class `classOf` assigns to it
  states.all (fun s => (p.getD (classOf p s) []).contains s) &&
  -- the representative of a class is mapped to that class
  (p.zipIdx).all (fun bk => decide (classOf p (pick bk.1) = bk.2) && decide (pick bk.1 < d.nodes)) &&
  -- a state and the representative of its class have the same labelled transitions up to classes, and the same finality
  states.all (fun s =>
    let r := repOf p pick s
    (d.outEdges s).all (fun e => (d.outEdges r).any (fun e' => e'.label == e.label && classOf p e'.dst == classOf p e.dst)) &&
    (d.outEdges r).all (fun e' => (d.outEdges s).any (fun e => e.label == e'.label && classOf p e.dst == classOf p e'.dst)) &&
    d.isFinal s == d.isFinal r)

/-- the stability check on the partition the refinement loop of `minimize` produced -/
def minimizeContractB (d : Dfa) (pick : Block → Nat) : Bool :=
  match minimizePartition d with
  | some p => quotientOkB d pick p
  | none => false

end Dfa
end Grexv
