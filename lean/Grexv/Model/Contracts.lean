import Grexv.Model.RegExp

/-
Executable contracts the driver evaluates per input.  The theorems of S7 are stated under the
propositions these booleans decide (`Lemmas/Contracts.lean` proves the implications).
-/
namespace Grexv

/-- `states` starts with the initial state, is closed under successors and fits the matrix -/
def dfsOkB (d : Dfa) (states : List Nat) : Bool :=
  states.head? == some d.init &&
  states.all (fun s => d.edges.all (fun e => e.src != s || states.contains e.dst)) &&
  decide (states.length ≤ d.nodes)

/-- the Kleene-star branch of the elimination loop is never taken -/
def noSelfB (cfg : Config) : ElimState → List Nat → Bool
  | _, [] => true
  | st, n :: ns => (st.a.get n n).isNone && noSelfB cfg (elimStep cfg st n) ns

/-- every edge label is `Grapheme::from(s)` with `s ≠ ""` -/
def plainLabelsB (d : Dfa) : Bool :=
  d.edges.all fun e => match e.label with
    | .mk [s] [] 1 1 => !s.isEmpty
    | _ => false

/-- all three for the automaton handed to `Expression::from` -/
def elimContractsB (cfg : Config) (d : Dfa) : Bool :=
  decide (1 ≤ d.nodes) && plainLabelsB d && dfsOkB d d.dfs &&
    noSelfB cfg (elimInit cfg d d.dfs) (List.range d.nodes).reverse

end Grexv
