import Grexv.Model.Dfa

/-
`Expression` (src/expression.rs): the algebraic simplifications `union` / `concatenate` and
Brzozowski's elimination (S7).  The three presentation flags carried by every Rust variant are
constants of one build and are read from the `Config` when printing.
-/
namespace Grexv

inductive Quant where | star | question
deriving DecidableEq, Repr, Inhabited

inductive Expr where
  | alt (os : List Expr)
  | cls (cs : List Nat)
  | cat (a b : Expr)
  | lit (c : Cluster)
  | rep (e : Expr) (q : Quant)
deriving Repr, Inhabited

namespace Expr

mutual
def decEq : (a b : Expr) → Decidable (a = b)
  | alt o1, alt o2 =>
    match decEqL o1 o2 with
    | isTrue h => isTrue (by subst h; rfl)
    | isFalse h => isFalse (by intro h'; injection h'; contradiction)
  | cls c1, cls c2 =>
    if h : c1 = c2 then isTrue (by subst h; rfl) else isFalse (by intro h'; injection h'; contradiction)
  | cat a1 b1, cat a2 b2 =>
    match decEq a1 a2, decEq b1 b2 with
    | isTrue h1, isTrue h2 => isTrue (by subst h1 h2; rfl)
    | isFalse h1, _ => isFalse (by intro h'; injection h'; contradiction)
    | _, isFalse h2 => isFalse (by intro h'; injection h'; contradiction)
  | lit c1, lit c2 =>
    if h : c1 = c2 then isTrue (by subst h; rfl) else isFalse (by intro h'; injection h'; contradiction)
  | rep e1 q1, rep e2 q2 =>
    match decEq e1 e2 with
    | isTrue h1 =>
      if h2 : q1 = q2 then isTrue (by subst h1 h2; rfl) else isFalse (by intro h'; injection h'; contradiction)
    | isFalse h1 => isFalse (by intro h'; injection h'; contradiction)
  | alt _, cls _ | alt _, cat _ _ | alt _, lit _ | alt _, rep _ _
  | cls _, alt _ | cls _, cat _ _ | cls _, lit _ | cls _, rep _ _
  | cat _ _, alt _ | cat _ _, cls _ | cat _ _, lit _ | cat _ _, rep _ _
  | lit _, alt _ | lit _, cls _ | lit _, cat _ _ | lit _, rep _ _
  | rep _ _, alt _ | rep _ _, cls _ | rep _ _, cat _ _ | rep _ _, lit _ =>
    isFalse (by intro h; cases h)
def decEqL : (a b : List Expr) → Decidable (a = b)
  | [], [] => isTrue rfl
  | [], _ :: _ => isFalse (by intro h; cases h)
  | _ :: _, [] => isFalse (by intro h; cases h)
  | a :: as, b :: bs =>
    match decEq a b with
    | isTrue h1 =>
      match decEqL as bs with
      | isTrue h2 => isTrue (by subst h1 h2; rfl)
      | isFalse h2 => isFalse (by intro h; injection h; contradiction)
    | isFalse h1 => isFalse (by intro h; injection h; contradiction)
end
instance : DecidableEq Expr := decEq

/-- `Grapheme::escape` (the `ch.is_ascii()` branch and `\u{..}` / surrogate branches) -/
def escapeChar (c : Nat) (useSurrogates : Bool) : Str :=
  if c < 128 then [c]
  else if useSurrogates && Gen.surrogateLo ≤ c && Gen.surrogateHiOk c then
    let v := c - 0x10000
    let hi := 0xD800 + v / 1024
    let lo := 0xDC00 + v % 1024
    [92, 117, 123] ++ toHex hi ++ [125] ++ [92, 117, 123] ++ toHex lo ++ [125]
  else [92, 117, 123] ++ toHex c ++ [125]

/-- `Grapheme::char_count` -/
def graphemeCharCount (g : Grapheme) (esc : Bool) : Nat :=
  if esc then (g.chars.map fun it => (it.flatMap fun c => escapeChar c false).length).sum
  else (g.chars.map List.length).sum

/-- `GraphemeCluster::char_count` -/
def clusterCharCount (c : Cluster) (esc : Bool) : Nat := (c.map fun g => graphemeCharCount g esc).sum

def isEmpty : Expr → Bool
  | lit c => c.isEmpty
  | _ => false

/-- `is_single_codepoint` -/
def isSingleCodepoint (cfg : Config) : Expr → Bool
  | cls _ => true
  | lit c => clusterCharCount c cfg.esc == 1 && (c.head?.map Grapheme.max) == some 1
  | _ => false

/-- `len` (the sort key of `new_alternation`) -/
def len : Expr → Nat
  | alt os => match os with
    | [] => 0
    | o :: _ => len o
  | cls _ => 1
  | cat a b => len a + len b
  | lit c => c.length
  | rep e _ => len e

def precedence : Expr → Nat
  | alt _ | cls _ => 1
  | cat _ _ | lit _ => 2
  | rep _ _ => 3

mutual
def flatten : Expr → List Expr
  | alt os => flattenL os
  | e => [e]
def flattenL : List Expr → List Expr
  | [] => []
  | o :: os => flatten o ++ flattenL os
end

/-- `new_alternation`: flatten nested alternations, stable sort by descending `len` -/
def newAlternation (exprs : List Expr) : Expr :=
  alt (sortBy (fun a b => decide (len a ≥ len b)) (flattenL exprs))

def insertChar (c : Nat) : List Nat → List Nat
  | [] => [c]
  | y :: ys => if c < y then c :: y :: ys else if c = y then y :: ys else y :: insertChar c ys

/-- `extract_character_set` -/
def extractCharSet : Expr → List Nat
  | lit c => match c.head? with
    | some g => match g.value.head? with
      | some ch => [ch]
      | none => []
    | none => []
  | cls cs => cs
  | _ => []

/-- `new_character_class` -/
def newCharacterClass (a b : List Nat) : Expr := cls (a.foldl (fun acc c => insertChar c acc) b)

inductive Side where | pre | suf
deriving DecidableEq, Repr

/-- `value(Some(substring))` -/
def sideValue (s : Side) : Expr → Option Cluster
  | cat a b => match s with
    | .pre => match a with
      | lit c => some c
      | _ => none
    | .suf => match b with
      | lit c => some c
      | _ => none
  | lit c => some c
  | _ => none

def commonPrefix : Cluster → Cluster → Cluster
  | a :: as, b :: bs => if a = b then a :: commonPrefix as bs else []
  | _, _ => []

/-- `find_common_substring` -/
def findCommon (s : Side) (a b : Expr) : Option Cluster :=
  let ga := (sideValue s a).getD []
  let gb := (sideValue s b).getD []
  let common := match s with
    | .pre => commonPrefix ga gb
    | .suf => (commonPrefix ga.reverse gb.reverse).reverse
  if common.isEmpty then none else some common

def dropSide (s : Side) (n : Nat) (c : Cluster) : Cluster :=
  match s with
  | .pre => c.drop n
  | .suf => c.take (c.length - n)

/-- `remove_substring` -/
def removeSubstring (s : Side) (n : Nat) : Expr → Expr
  | cat a b => match s with
    | .pre => match a with
      | lit c => cat (lit (dropSide s n c)) b
      | _ => cat a b
    | .suf => match b with
      | lit c => cat a (lit (dropSide s n c))
      | _ => cat a b
  | lit c => lit (dropSide s n c)
  | e => e

/-- `remove_common_substring` -/
def removeCommon (s : Side) (a b : Expr) : Expr × Expr × Option Cluster :=
  match findCommon s a b with
  | some v => (removeSubstring s v.length a, removeSubstring s v.length b, some v)
  | none => (a, b, none)

/-- the literal-merging cases of `concatenate` for two non-empty operands -/
def concatCore (e1 e2 : Expr) : Expr :=
  match e1, e2 with
  | lit ga, lit gb => lit (ga ++ gb)
  | lit ga, cat (lit gf) second => cat (lit (ga ++ gf)) second
  | cat first (lit gs), lit gb => cat first (lit (gs ++ gb))
  | _, _ => cat e1 e2

/-- `concatenate` -/
def concatenate (a b : Option Expr) : Option Expr :=
  match a, b with
  | some e1, some e2 =>
    if e1.isEmpty then some e2
    else if e2.isEmpty then some e1
    else some (concatCore e1 e2)
  | _, _ => none

/-- the middle part of `union`, after the common prefix and suffix have been taken away -/
def unionMid (cfg : Config) (e1 e2 : Expr) : Expr :=
  if e1.isEmpty then rep e2 .question
  else if e2.isEmpty then rep e1 .question
  else match e1 with
    | rep e .question => rep (newAlternation [e, e2]) .question
    | _ => match e2 with
      | rep e .question => rep (newAlternation [e1, e]) .question
      | _ =>
        if e1.isSingleCodepoint cfg && e2.isSingleCodepoint cfg
        then newCharacterClass (extractCharSet e1) (extractCharSet e2)
        else newAlternation [e1, e2]

def wrapPre (pre : Option Cluster) (r : Expr) : Expr :=
  match pre with
  | some p => cat (lit p) r
  | none => r

def wrapSuf (suf : Option Cluster) (r : Expr) : Expr :=
  match suf with
  | some s => cat r (lit s)
  | none => r

/-- the body of `union` for two different expressions -/
def unionCore (cfg : Config) (a b : Expr) : Expr :=
  let r1 := removeCommon .pre a b
  let r2 := removeCommon .suf r1.1 r1.2.1
  wrapSuf r2.2.2 (wrapPre r1.2.2 (unionMid cfg r2.1 r2.2.1))

/-- `union` -/
def union (cfg : Config) (a b : Option Expr) : Option Expr :=
  match a, b with
  | some e1, some e2 => if e1 = e2 then some e1 else some (unionCore cfg e1 e2)
  | some e1, none => some e1
  | none, some e2 => some e2
  | none, none => none

end Expr

/-! ### `Expression::from` -/

/-- petgraph `Dfs`: stack of nodes, set of discovered nodes; successors are pushed newest first -/
def dfsOrder (d : Dfa) : Nat → List Nat → List Nat → List Nat
  | 0, _, seen => seen.reverse
  | _, [], seen => seen.reverse
  | fuel + 1, n :: stack, seen =>
    if seen.contains n then dfsOrder d fuel stack seen
    else
      let succ := ((d.outEdges n).map Edge.dst).filter fun s => !(n :: seen).contains s
      dfsOrder d fuel (succ.reverse ++ stack) (n :: seen)

/-- `states_in_depth_first_order` -/
def Dfa.dfs (d : Dfa) : List Nat := dfsOrder d (d.nodes + d.edges.length + 2) [d.init] []

abbrev Mat := Array (Array (Option Expr))

def Mat.get (a : Mat) (i j : Nat) : Option Expr := ((a[i]?).bind fun row => row[j]?).join
def Mat.set (a : Mat) (i j : Nat) (v : Option Expr) : Mat := a.modify i fun row => row.setIfInBounds j v

abbrev Vect := Array (Option Expr)
def Vect.get (b : Vect) (i : Nat) : Option Expr := (b[i]?).join

structure ElimState where
  a : Mat
  b : Vect

def indexOf? (l : List Nat) (x : Nat) : Option Nat := l.findIdx? (· = x)

/-- the edges of one state entered into row `i` of the matrix -/
def initRow (cfg : Config) (states : List Nat) (i : Nat) (es : List Edge) (a : Mat) : Mat :=
  es.foldl (fun (a : Mat) e =>
    match indexOf? states e.dst with
    | some j =>
      let literal := Expr.lit [e.label]
      a.set i j (if (a.get i j).isSome then Expr.union cfg (a.get i j) (some literal) else some literal)
    | none => a) a

/-- one state of the initialisation loop -/
def initStep (cfg : Config) (d : Dfa) (states : List Nat) (st : ElimState) (si : Nat × Nat) : ElimState :=
  let b1 := if d.isFinal si.1 then st.b.setIfInBounds si.2 (some (Expr.lit [])) else st.b
  { a := initRow cfg states si.2 (d.outEdges si.1) st.a, b := b1 }

/-- the initialisation loop of `Expression::from` -/
def elimInit (cfg : Config) (d : Dfa) (states : List Nat) : ElimState :=
  let n := d.nodes
  (states.zipIdx).foldl (initStep cfg d states)
    { a := Array.replicate n (Array.replicate n none), b := Array.replicate n none }

/-- one iteration `n` of the elimination loop -/
def elimStep (cfg : Config) (st : ElimState) (n : Nat) : ElimState :=
  let st1 : ElimState :=
    match st.a.get n n with
    | some ann =>
      let star := some (Expr.rep ann .star)
      let b1 := st.b.setIfInBounds n (Expr.concatenate star (st.b.get n))
      let a1 := (List.range n).foldl (fun (a : Mat) j => a.set n j (Expr.concatenate star (a.get n j))) st.a
      { a := a1, b := b1 }
    | none => st
  (List.range n).foldl (fun (st : ElimState) i =>
    if (st.a.get i n).isSome then
      let b1 := st.b.setIfInBounds i (Expr.union cfg (st.b.get i) (Expr.concatenate (st.a.get i n) (st.b.get n)))
      let a1 := (List.range n).foldl (fun (a : Mat) j =>
        a.set i j (Expr.union cfg (a.get i j) (Expr.concatenate (a.get i n) (a.get n j)))) st.a
      { a := a1, b := b1 }
    else st) st1

/-- `Expression::from` -/
def Expr.ofDfa (cfg : Config) (d : Dfa) : Expr :=
  let states := d.dfs
  let st0 := elimInit cfg d states
  let st := ((List.range d.nodes).reverse).foldl (elimStep cfg) st0
  match st.b.get 0 with
  | some e => e
  | none => Expr.lit []

end Grexv
