import Grexv.Model.GenTypes
import Grexv.Gen.Tables
import Grexv.Gen.Consts
import Grexv.Gen.StdTables

/-
`Grapheme` (src/grapheme.rs) and `GraphemeCluster` (src/cluster.rs): construction,
class conversion (S3) and repetition conversion (S4).
The three presentation flags stored in every Rust `Grapheme` are the same for all graphemes of
one build; the model reads them from the `Config` instead.
-/
namespace Grexv

inductive Grapheme where
  | mk (chars : List Str) (reps : List Grapheme) (min max : Nat)
deriving Repr, Inhabited

namespace Grapheme

def chars : Grapheme → List Str | mk c _ _ _ => c
def reps : Grapheme → List Grapheme | mk _ r _ _ => r
def min : Grapheme → Nat | mk _ _ a _ => a
def max : Grapheme → Nat | mk _ _ _ b => b

mutual
def decEq : (a b : Grapheme) → Decidable (a = b)
  | mk c1 r1 a1 b1, mk c2 r2 a2 b2 =>
    if hc : c1 = c2 then
      match decEqL r1 r2 with
      | isTrue hr =>
        if ha : a1 = a2 then
          if hb : b1 = b2 then isTrue (by subst hc hr ha hb; rfl)
          else isFalse (by intro h; injection h; contradiction)
        else isFalse (by intro h; injection h; contradiction)
      | isFalse hr => isFalse (by intro h; injection h; contradiction)
    else isFalse (by intro h; injection h; contradiction)
def decEqL : (a b : List Grapheme) → Decidable (a = b)
  | [], [] => isTrue rfl
  | [], _ :: _ => isFalse (by intro h; cases h)
  | _ :: _, [] => isFalse (by intro h; cases h)
  | a :: as, b :: bs =>
    match decEq a b with
    | isTrue h1 =>
      match decEqL as bs with
      | isTrue h2 => isTrue (by subst h1 h2; rfl)
      | isFalse h2 => isFalse (by intro h; injection h; contradiction)
    | isFalse h1 => isFalse (by intro h; injection h; contradiction)
end
instance : DecidableEq Grapheme := decEq

/-- `Grapheme::from(s, ..)` -/
def ofStr (s : Str) : Grapheme := mk [s] [] 1 1

/-- `Grapheme::value` -/
def value (g : Grapheme) : Str := g.chars.flatten

mutual
/-- derived `Ord` (chars, repetitions, min, max; the flag fields are equal within one build) -/
def cmp : Grapheme → Grapheme → Ordering
  | mk c1 r1 a1 b1, mk c2 r2 a2 b2 =>
    (cmpStrList c1 c2).then ((cmpL r1 r2).then ((compare a1 a2).then (compare b1 b2)))
def cmpL : List Grapheme → List Grapheme → Ordering
  | [], [] => .eq
  | [], _ :: _ => .lt
  | _ :: _, [] => .gt
  | a :: as, b :: bs => (cmp a b).then (cmpL as bs)
end

end Grapheme

abbrev Cluster := List Grapheme

/-- `GeneralCategory::of(c).is_mark() || .is_other()` (unic-ucd-category), extracted exhaustively -/
def isMarkOrOther (c : Nat) : Bool := inRanges Gen.markOrOther c

/-- `GraphemeCluster::from`, given the extended grapheme clusters of the string
(the segmentation itself is external: `unicode-segmentation`). -/
def clusterOfPieces (pieces : List Str) : Cluster :=
  pieces.flatMap fun it =>
    let containsBackslash := decide (it.length ≥ 2) && it.contains 92
    let containsMark := it.any isMarkOrOther
    if containsBackslash || containsMark then it.map fun c => Grapheme.ofStr [c]
    else [Grapheme.ofStr it]

/-! ### S3: conversion to shorthand classes -/

def isDigit (c : Nat) : Bool := inRanges Gen.grexDigit c
def isWord (c : Nat) : Bool := inRanges Gen.grexWord c
def isSpace (c : Nat) : Bool := inRanges Gen.grexSpace c

def classTable (k : Gen.ClassTable) (c : Nat) : Bool :=
  match k with
  | .digit => isDigit c
  | .word => isWord c
  | .space => isSpace c

def flagOf (cfg : Config) : Gen.ClassFlag → Bool
  | .digit => cfg.digit
  | .nonDigit => cfg.nonDigit
  | .space => cfg.space
  | .nonSpace => cfg.nonSpace
  | .word => cfg.word
  | .nonWord => cfg.nonWord

/-- first rule of the generated if-chain of `convert_to_char_classes` that fires -/
def convCharRules (cfg : Config) (c : Nat) : List Gen.ConvRule → Str
  | [] => [c]
  | r :: rs =>
    if flagOf cfg r.flag && (classTable r.table c != r.negated) then r.token
    else convCharRules cfg c rs

def convChar (cfg : Config) (c : Nat) : Str := convCharRules cfg c Gen.convRules

/-- `GraphemeCluster::convert_to_char_classes` -/
def convertClasses (cfg : Config) (cl : Cluster) : Cluster :=
  cl.map fun g => Grapheme.mk (g.chars.map fun it => it.flatMap (convChar cfg)) g.reps g.min g.max

/-! ### S4: repetition conversion -/

/-- association list standing for the `HashMap<Vec<String>, Vec<usize>>` -/
abbrev SubMap := List (List Str × List Nat)

def SubMap.push (m : SubMap) (k : List Str) (i : Nat) : SubMap :=
  match m with
  | [] => [(k, [i])]
  | (k', is) :: rest => if k' = k then (k', is ++ [i]) :: rest else (k', is) :: SubMap.push rest k i

/-- `collect_repeated_substrings` -/
def collectRepeated (vals : List Str) : SubMap :=
  let n := vals.length
  (List.range n).foldl (fun m i =>
    let suffix := vals.drop i
    (List.range (n / 2)).foldl (fun m j0 =>
      let j := j0 + 1
      if suffix.length ≥ j then SubMap.push m (suffix.take j) i else m) m) []

def windowsOk (len : Nat) : List Nat → Bool
  | [] => true
  | [_] => true
  | a :: b :: rest => decide (b - a ≥ len) && windowsOk len (b :: rest)

/-- itertools `coalesce` on index ranges that touch (`cur` is the pending element) -/
def coalesceAdjAux (cur : Nat × Nat) : List (Nat × Nat) → List (Nat × Nat)
  | [] => [cur]
  | y :: rest => if cur.2 = y.1 then coalesceAdjAux (cur.1, y.2) rest else cur :: coalesceAdjAux y rest

def coalesceAdj : List (Nat × Nat) → List (Nat × Nat)
  | [] => []
  | x :: xs => coalesceAdjAux x xs

abbrev RepRange := (Nat × Nat) × List Str

/-- `create_ranges_of_repetitions`: groups by descending prefix length, inside a group by
ascending first index (this order is total, so the hash-map iteration order cannot show). -/
def createRanges (cfg : Config) (m : SubMap) : List RepRange :=
  let ok := m.filter fun (p, is) => windowsOk p.length is
  let sorted := sortBy (fun (a b : List Str × List Nat) =>
      decide (a.1.length > b.1.length) ||
        (a.1.length == b.1.length && decide (a.2.headD 0 ≤ b.2.headD 0))) ok
  sorted.flatMap fun (p, is) =>
    let len := p.length
    let rs := coalesceAdj (is.map fun i => (i, i + len))
    (rs.filter fun r => decide ((r.2 - r.1) / len > cfg.minRep)).map fun r => (r, p)

def rangeContains (r : Nat × Nat) (x : Nat) : Bool := decide (r.1 ≤ x) && decide (x < r.2)

/-- the itertools `coalesce` of `coalesce_repetitions`: a later range overlapping the pending one is dropped -/
def coalesceOverlapAux (cur : RepRange) : List RepRange → List RepRange
  | [] => [cur]
  | y :: rest =>
    if (rangeContains cur.1 y.1.1 || rangeContains cur.1 y.1.2) && y.1.2 != cur.1.1
    then coalesceOverlapAux cur rest else cur :: coalesceOverlapAux y rest

def coalesceOverlap : List RepRange → List RepRange
  | [] => []
  | x :: xs => coalesceOverlapAux x xs

/-- `coalesce_repetitions` -/
def coalesceRepetitions (rs : List RepRange) : List RepRange :=
  coalesceOverlap (sortBy (fun (a b : RepRange) =>
    decide (a.1.2 > b.1.2) || (a.1.2 == b.1.2 && decide (a.1.1 ≤ b.1.1))) rs)

/-- `Vec::splice(range, [g])` -/
def splice {α} (l : List α) (r : Nat × Nat) (g : α) : List α :=
  l.take r.1 ++ [g] ++ l.drop r.2

/-- the splice loop of `replace_graphemes_with_repetitions` (with its `break`) -/
def spliceLoop (cfg : Config) : List RepRange → Cluster → Cluster
  | [], acc => acc
  | (r, substr) :: rest, acc =>
    if r.2 > acc.length then acc
    else if substr.length < cfg.minLen then spliceLoop cfg rest acc
    else
      let count := (r.2 - r.1) / substr.length
      spliceLoop cfg rest (splice acc r (Grapheme.mk substr [] count count))

/-- the final loop of `replace_graphemes_with_repetitions`, given the recursive call -/
def nestWith (f : Cluster → Option Cluster) (gs : Cluster) : Cluster :=
  gs.map fun g => Grapheme.mk g.chars ((f (g.chars.map Grapheme.ofStr)).getD g.reps) g.min g.max

/-- `convert_repetitions` (free function); `none` = the output vector stays empty.
Fuel: the recursion goes into units of at most half the length. -/
def convertRepsAux (cfg : Config) : Nat → Cluster → Option Cluster
  | 0, _ => none
  | fuel + 1, gs =>
    let coalesced := coalesceRepetitions (createRanges cfg (collectRepeated (gs.map Grapheme.value)))
    if coalesced.isEmpty then none
    else some (nestWith (convertRepsAux cfg fuel) (spliceLoop cfg coalesced gs))

/-- `GraphemeCluster::convert_repetitions` -/
def convertRepetitions (cfg : Config) (cl : Cluster) : Cluster :=
  (convertRepsAux cfg (cl.length + 1) cl).getD cl

end Grexv
