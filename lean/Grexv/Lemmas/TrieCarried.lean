import Grexv.Lemmas.TrieSpells

/-
Every accepting path of the `-r` trie carries one of the inserted clusters: the trie is a tree, every final state is the end of the
path of an inserted cluster, and a state of a tree has one access path.  What `-r` accepts beyond the test cases can therefore only
come from *ranges* of counts on the labels (the widening merge); with no range label in the trie, `-r` keeps the language.
-/
set_option linter.unusedSimpArgs false
set_option linter.unusedVariables false
namespace Grexv
open Spec Dfa

namespace Dfa

theorem CPath.le' {d : Dfa} (hlt : ∀ e ∈ d.edges, e.src < e.dst) {s t : Nat} {cl : Cluster} (p : CPath d s cl t) : s ≤ t := by
  induction p with
  | nil s => exact Nat.le_refl s
  | cons e he hs _ _ ih => have := hlt e he; omega

/-- in a tree, a path and a carried path between the same states run over the same edges -/
theorem unique_carried {d : Dfa} (h : TreeR d) :
    ∀ (n : Nat) (w : Word) (cl : Cluster) (s t : Nat), w.length = n → Path d s w t → CPath d s cl t → CarriesL w cl := by
  have hlt : ∀ e ∈ d.edges, e.src < e.dst := fun e he => (h.lt e he).1
  intro n
  induction n with
  | zero =>
    intro w cl s t hn p1 p2
    have : w = [] := List.length_eq_zero_iff.mp hn
    subst this
    cases p1
    cases p2 with
    | nil => exact CarriesL.nil
    | cons e he hs hc rest =>
      have := hlt e he
      have := CPath.le' hlt rest
      omega
  | succ n ih =>
    intro w cl s t hn p1 p2
    have hw : w ≠ [] := by intro e; subst e; simp at hn
    obtain ⟨w', e1, rfl, q1, he1, hd1⟩ := Path.snoc_inv p1 hw
    have hst : s < t := Path.lt_of_ne_nil hlt p1 hw
    -- the carried path is not empty either
    have hcl : cl ≠ [] := by
      intro e; subst e; cases p2; omega
    obtain ⟨cl', g, rfl⟩ : ∃ cl' g, cl = cl' ++ [g] := ⟨cl.dropLast, cl.getLast hcl, (List.dropLast_concat_getLast hcl).symm⟩
    obtain ⟨e2, he2, q2, hd2, hc2⟩ := CPath.snoc_inv p2
    have hee : e1 = e2 := h.inj e1 he1 e2 he2 (by rw [hd1, hd2])
    subst hee
    have := ih w' cl' s e1.src (by simp at hn; omega) q1 q2
    -- append the last edge
    have happ : ∀ {a : Word} {b : Cluster}, CarriesL a b → CarriesL (a ++ [e1.label]) (b ++ [g]) := by
      intro a b hab
      induction hab with
      | nil => exact CarriesL.cons hc2 CarriesL.nil
      | cons hh _ ih' => exact CarriesL.cons hh ih'
    exact happ this

/-- every final state is the end of the carried path of one of the clusters -/
def FinCov (d : Dfa) (cls : List Cluster) : Prop := ∀ f ∈ d.finals, ∃ cl ∈ cls, CPath d d.init cl f

theorem insert_fincov (d : Dfa) (cl : Cluster) (hcl : ∀ g ∈ cl, g.min = g.max) (hd : GoodR d) (cls : List Cluster)
    (hf : FinCov d cls) : FinCov (insert d cl) (cl :: cls) := by
  rw [insert_eq]
  have hinit : d.init < d.nodes := by rw [hd.tree.init0]; exact hd.tree.pos
  obtain ⟨i1, i2, i3, i4, i5, i6, i7, i8⟩ := foldl_r cl hcl d d.init hd hinit
  intro f hfm
  simp only at hfm
  have hold : ∀ f ∈ d.finals, ∃ c ∈ cl :: cls, CPath (cl.foldl insertFold (d, d.init)).1 d.init c f := by
    intro f hf'
    obtain ⟨c, hc, hp⟩ := hf f hf'
    exact ⟨c, List.mem_cons_of_mem _ hc, CPath.wid i2 hp⟩
  have hnew : ∃ c ∈ cl :: cls, CPath (cl.foldl insertFold (d, d.init)).1 d.init c (cl.foldl insertFold (d, d.init)).2 :=
    ⟨cl, List.mem_cons_self, i4⟩
  have hcase : f ∈ d.finals ∨ f = (cl.foldl insertFold (d, d.init)).2 := by
    split at hfm
    · left; rw [← i6]; exact hfm
    · simp only [List.mem_append, List.mem_cons, List.mem_nil_iff, or_false] at hfm
      rcases hfm with h | h
      · left; rw [← i6]; exact h
      · right; exact h
  show ∃ c ∈ cl :: cls, CPath _ (cl.foldl insertFold (d, d.init)).1.init c f
  rw [i5]
  rcases hcase with h | rfl
  · obtain ⟨c, hc, hp⟩ := hold f h
    exact ⟨c, hc, CPath.of_edges hp rfl⟩
  · obtain ⟨c, hc, hp⟩ := hnew
    exact ⟨c, hc, CPath.of_edges hp rfl⟩

theorem fincov_mono {d : Dfa} {a b : List Cluster} (h : FinCov d a) (hab : ∀ c ∈ a, c ∈ b) : FinCov d b := by
  intro f hf
  obtain ⟨c, hc, hp⟩ := h f hf
  exact ⟨c, hab c hc, hp⟩

theorem trie_foldl_fincov (cls : List Cluster) (hcls : ∀ cl ∈ cls, ∀ g ∈ cl, g.min = g.max) :
    ∀ (d : Dfa) (done : List Cluster), GoodR d → FinCov d done →
      FinCov (cls.foldl insert d) (cls ++ done) := by
  induction cls with
  | nil => intro d done _ h; simpa using h
  | cons cl rest ih =>
    intro d done hd hf
    obtain ⟨j1, _, _, _, _⟩ := insert_r d cl (hcls cl List.mem_cons_self) hd
    have h1 := insert_fincov d cl (hcls cl List.mem_cons_self) hd done hf
    have := ih (fun c hc => hcls c (List.mem_cons_of_mem _ hc)) (insert d cl) (cl :: done) j1 h1
    simp only [List.foldl_cons]
    exact fincov_mono this (by
      intro c hc
      simp only [List.mem_append, List.mem_cons] at hc ⊢
      rcases hc with hc | rfl | hc
      · exact Or.inl (Or.inr hc)
      · exact Or.inl (Or.inl rfl)
      · exact Or.inr hc)

/-- **S5 with `-r`, the other direction**: every accepting path of the trie carries one of the inserted clusters, label by label — whatever
the widening merge did to the labels -/
theorem trie_lang_carried (cls : List Cluster) (hcls : ∀ cl ∈ cls, ∀ g ∈ cl, g.min = g.max) (w : Word)
    (h : (trie cls).LangFrom (trie cls).init w) : ∃ cl ∈ cls, CarriesL w cl := by
  obtain ⟨ht, _, _, _⟩ := trie_r cls hcls
  have hfc : FinCov (trie cls) (cls ++ []) :=
    trie_foldl_fincov cls hcls Dfa.empty [] empty_goodR (by intro f hf; simp [Dfa.empty] at hf)
  obtain ⟨t, hp, hfin⟩ := h
  have hfin' : t ∈ (trie cls).finals := by simpa [isFinal, List.contains_iff_mem] using hfin
  obtain ⟨cl, hcl, hcp⟩ := hfc t hfin'
  exact ⟨cl, by simpa using hcl, unique_carried ht w.length w cl _ t rfl hp hcp⟩

theorem Path.labels {d : Dfa} {s t : Nat} {w : Word} (p : Path d s w t) : ∀ l ∈ w, ∃ e ∈ d.edges, e.label = l := by
  induction p with
  | nil s => intro l hl; simp at hl
  | cons e he hs rest ih =>
    intro l hl
    simp only [List.mem_cons] at hl
    rcases hl with rfl | hl
    · exact ⟨e, he, rfl⟩
    · exact ih l hl

end Dfa

/-- labels that carry a single count spell exactly what the carried cluster spells -/
theorem carriesL_spellsA_fixed (i : Bool) {ls : Word} {cl : Cluster} (h : CarriesL ls cl)
    (hl : ∀ l ∈ ls, l.min = l.max) (hc : ∀ g ∈ cl, g.min = g.max) : ∀ s, SpellsA i ls s → SpellsA i cl s := by
  induction h with
  | nil => intro s hs; exact hs
  | @cons l g w cl hcar _ ih =>
    intro s hs
    obtain ⟨k, u, v, h1, h2, h3, h4, h5⟩ := hs
    have hga : gAtoms l = gAtoms g := by simp only [gAtoms, hcar.1]
    have hlm := hl l List.mem_cons_self
    have hgm := hc g List.mem_cons_self
    have := hcar.2.1
    have := hcar.2.2
    exact ⟨k, u, v, by omega, by omega, h3, by rw [← hga]; exact h4,
      ih (fun x hx => hl x (List.mem_cons_of_mem _ hx)) (fun x hx => hc x (List.mem_cons_of_mem _ hx)) v h5⟩

/-- **`-r` keeps the language when the trie has no range label** (settings of `RepPrint`; at least one non-empty test case): if no edge
of the trie carries a range `{m,n}` with `m < n` — the widening merge never fired — the compiled pattern matches a non-empty string in
full iff the string is what the atoms of a non-empty stored test case denote: exactly the language of the build without `-r` -/
theorem rep_exact_no_range (cfg : Config) (hp : RepPrint cfg) (env : Env) (ws : List Str) (st : Stages)
    (h : regExpFrom cfg env ws = .ok st) (hseg : ∀ w ∈ storedCases cfg env ws, SegOK env w)
    (hlen : ∀ w ∈ storedCases cfg env ws, (subPieces (env.segOf w)).length ≤ 1000) (hne : ∃ t ∈ storedCases cfg env ws, t ≠ [])
    (hnr : ∀ e ∈ st.trie.edges, e.label.min = e.label.max)
    (s : Str) (hs : ∀ c ∈ s, Scalar c) (hsne : s ≠ []) :
    ∃ P, Spec.parse (fmtRegExp cfg st.finalAst) = some (⟨cfg.ci, false⟩, P) ∧
      (Spec.fullMatch cfg.ci P s = true ↔ ∃ t ∈ storedCases cfg env ws, t ≠ [] ∧ atomsDen cfg.ci (t.map (convAtom cfg)) s) := by
  obtain ⟨P, hP, hm⟩ := rep_exact_trie cfg hp env ws st h hseg hlen hne s hs hsne
  refine ⟨P, hP, ?_⟩
  obtain ⟨hsorted, hcl, htrie, _, _⟩ := from_stages_shape cfg env ws st h
  change st.sorted = sortCases (storedCases cfg env ws) at hsorted
  have hmem : ∀ w ∈ st.sorted, w ∈ storedCases cfg env ws := fun w hw => by rw [hsorted] at hw; exact (sortCases_mem' _ w).mp hw
  have hsegp : ∀ w ∈ st.sorted, ∀ p ∈ env.segOf w, p ≠ [] := fun w hw p hpp => ((hseg w (hmem w hw)).1 p hpp).1
  have hcounts := fun cl hc => (rep_clusters_lit cfg hp.rep hp.minRep env ws st h hseg hlen cl hc).2
  constructor
  · intro hfm
    obtain ⟨ls, hl, hsp⟩ := hm.mp hfm
    rw [htrie] at hl
    obtain ⟨cl, hclm, hcar⟩ := trie_lang_carried st.clusters hcounts ls hl
    have hfixed : ∀ l ∈ ls, l.min = l.max := by
      obtain ⟨t, pth, _⟩ := hl
      intro l hlm
      obtain ⟨e, he, rfl⟩ := Path.labels pth l hlm
      exact hnr e (by rw [htrie]; exact he)
    have hspc := carriesL_spellsA_fixed cfg.ci hcar hfixed (hcounts cl hclm) s hsp
    -- the cluster is the converted cluster of a stored test case
    have hclm' := hclm
    rw [hcl, graphemeClusters_rep cfg env _ hp.rep, preClusters_eq cfg] at hclm'
    simp only [List.map_map, List.mem_map, Function.comp] at hclm'
    obtain ⟨w, hw, rfl⟩ := hclm'
    have hww := hmem w hw
    have hpc : (subPieces (env.segOf w)).map (fun p => Grapheme.ofStr (p.flatMap (convChar cfg))) ∈ preClusters cfg env st.sorted := by
      rw [preClusters_eq cfg]
      exact List.mem_map_of_mem (f := fun w => (subPieces (env.segOf w)).map (fun p => Grapheme.ofStr (p.flatMap (convChar cfg)))) hw
    obtain ⟨_, hexp, _, _⟩ := rep_pipeline_sound cfg env ws st h hp.rep hsegp _ hpc
    rw [spellsA_fixed cfg.ci _ (hcounts _ hclm), hexp, preCluster_tokens cfg env w (hseg w hww)] at hspc
    refine ⟨w, hww, ?_, hspc⟩
    intro e
    subst e
    simp only [List.map_nil, atomsDen] at hspc
    exact hsne hspc
  · rintro ⟨t, ht, htne, hd⟩
    obtain ⟨P', hP', hm'⟩ := rep_end_to_end cfg hp env ws st h hseg hlen t ht htne s hs hd
    rw [hP] at hP'
    simp only [Option.some.injEq, Prod.mk.injEq, true_and] at hP'
    rw [hP']
    exact hm'

/-- **what `-r` can accept at most** (settings of `RepPrint`): every non-empty string the compiled pattern matches in full is spelled by a label
sequence that carries the converted cluster of a stored test case — the same units in the same order, each repeated a number of times
from a range of counts that contains the test case's own count -/
theorem rep_accepts_shape (cfg : Config) (hp : RepPrint cfg) (env : Env) (ws : List Str) (st : Stages)
    (h : regExpFrom cfg env ws = .ok st) (hseg : ∀ w ∈ storedCases cfg env ws, SegOK env w)
    (hlen : ∀ w ∈ storedCases cfg env ws, (subPieces (env.segOf w)).length ≤ 1000) (hne : ∃ t ∈ storedCases cfg env ws, t ≠ [])
    (s : Str) (hs : ∀ c ∈ s, Scalar c) (hsne : s ≠ []) :
    ∃ P, Spec.parse (fmtRegExp cfg st.finalAst) = some (⟨cfg.ci, false⟩, P) ∧
      (Spec.fullMatch cfg.ci P s = true →
        ∃ t ∈ storedCases cfg env ws, ∃ ls : Word,
          CarriesL ls (convertRepetitions cfg ((subPieces (env.segOf t)).map (fun p => Grapheme.ofStr (p.flatMap (convChar cfg))))) ∧
          SpellsA cfg.ci ls s) := by
  obtain ⟨P, hP, hm⟩ := rep_exact_trie cfg hp env ws st h hseg hlen hne s hs hsne
  refine ⟨P, hP, ?_⟩
  obtain ⟨hsorted, hcl, htrie, _, _⟩ := from_stages_shape cfg env ws st h
  change st.sorted = sortCases (storedCases cfg env ws) at hsorted
  have hmem : ∀ w ∈ st.sorted, w ∈ storedCases cfg env ws := fun w hw => by rw [hsorted] at hw; exact (sortCases_mem' _ w).mp hw
  have hcounts := fun cl hc => (rep_clusters_lit cfg hp.rep hp.minRep env ws st h hseg hlen cl hc).2
  intro hfm
  obtain ⟨ls, hl, hsp⟩ := hm.mp hfm
  rw [htrie] at hl
  obtain ⟨cl, hclm, hcar⟩ := trie_lang_carried st.clusters hcounts ls hl
  rw [hcl, graphemeClusters_rep cfg env _ hp.rep, preClusters_eq cfg] at hclm
  simp only [List.map_map, List.mem_map, Function.comp] at hclm
  obtain ⟨w, hw, rfl⟩ := hclm
  exact ⟨w, hmem w hw, ls, hcar, hsp⟩

/-- the switch for repetition conversion -/
def withRep (cfg : Config) (b : Bool) : Config := { cfg with rep := b }

/-- **C05, where it holds**: if the trie of the build with `-r` has no range label, the build with `-r` and the build without it return
texts the model of `Regex::new` accepts, and the two compiled patterns match exactly the same non-empty strings of scalar values in full -/
theorem rep_same_language_no_range (cfg : Config) (hp : RepPrint (withRep cfg true)) (env : Env) (ws : List Str) (stR st0 : Stages)
    (hR : regExpFrom (withRep cfg true) env ws = .ok stR) (h0 : regExpFrom (withRep cfg false) env ws = .ok st0)
    (hseg : ∀ w ∈ storedCases cfg env ws, SegOK env w)
    (hlen : ∀ w ∈ storedCases cfg env ws, (subPieces (env.segOf w)).length ≤ 1000) (hne : ∃ t ∈ storedCases cfg env ws, t ≠ [])
    (hnr : ∀ e ∈ stR.trie.edges, e.label.min = e.label.max)
    (s : Str) (hs : ∀ c ∈ s, Scalar c) (hsne : s ≠ []) :
    ∃ PR P0, Spec.parse (fmtRegExp (withRep cfg true) stR.finalAst) = some (⟨cfg.ci, false⟩, PR) ∧
      Spec.parse (fmtRegExp (withRep cfg false) st0.finalAst) = some (⟨cfg.ci, false⟩, P0) ∧
      Spec.fullMatch cfg.ci PR s = Spec.fullMatch cfg.ci P0 s := by
  have hp0 : PlainPrintCI (withRep cfg false) := ⟨rfl, hp.sur, hp.verb, hp.color, hp.anch⟩
  obtain ⟨PR, pR, mR⟩ := rep_exact_no_range (withRep cfg true) hp env ws stR hR hseg hlen hne hnr s hs hsne
  obtain ⟨P0, p0, m0⟩ := classes_exact_ci (withRep cfg false) hp0 env ws st0 h0 hseg hne s hs
  refine ⟨PR, P0, pR, p0, ?_⟩
  have hiff : Spec.fullMatch cfg.ci PR s = true ↔ Spec.fullMatch cfg.ci P0 s = true := mR.trans m0.symm
  cases h : Spec.fullMatch cfg.ci PR s <;> cases h' : Spec.fullMatch cfg.ci P0 s
  · rfl
  · exact absurd (hiff.mpr h') (by simp [h])
  · exact absurd (hiff.mp h) (by simp [h'])
  · rfl

end Grexv
