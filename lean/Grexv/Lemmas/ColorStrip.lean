import Grexv.Model.Format
import Grexv.Model.RegExp
import Grexv.Lemmas.ColorBasic
import Grexv.Lemmas.PrintLex

/-
C15, whole printer (not verbose): the coloured text and the plain text of `Display for RegExp` are related
by `Col` — the coloured one is the plain one with complete SGR sequences inserted, and no raw `ESC` is ever
followed by a raw `[` — and the stripping regex of the code (`stripColor`) maps the first to the second.
-/
set_option linter.unusedSimpArgs false
set_option linter.unusedVariables false
namespace Grexv
open ColorBasic

/-- a complete SGR sequence the printer can emit -/
def IsCode (k : Str) : Prop := k = [27, 91, 48, 109] ∨ ∃ c ∈ genCodes, k = [27, 91] ++ c ++ [109]

/-- `Col C T`: `C` is `T` with some stretches of text *painted* — put between an opening SGR sequence and the reset; a painted
stretch is not empty and contains no line break and no `ESC`; a raw `ESC` of `T` is never directly followed by `[` in `C` -/
inductive Col : Str → Str → Prop
  | nil : Col [] []
  | chr (c : Nat) {C T : Str} : Col C T → (c = 27 → C.head? ≠ some 91) → Col (c :: C) (c :: T)
  | paint (code text : Str) {C T : Str} : code ∈ genCodes → text ≠ [] → (∀ x ∈ text, x ≠ 10 ∧ x ≠ 13 ∧ x ≠ 27) → Col C T →
      Col (Grexv.paint true code text ++ C) (text ++ T)

theorem paint_eq (code text : Str) : Grexv.paint true code text = ([27, 91] ++ code ++ [109]) ++ (text ++ [27, 91, 48, 109]) := by
  simp [Grexv.paint, colorCode]

theorem stripColor_nil (fuel : Nat) : stripColor fuel [] = [] := by cases fuel <;> simp [stripColor]

theorem isCode_len (k : Str) (h : IsCode k) : 4 ≤ k.length := by
  rcases h with rfl | ⟨c, _, rfl⟩
  · decide
  · have : ([27, 91] ++ c ++ [109]).length = c.length + 3 := by simp
    rw [this]
    have : 1 ≤ c.length := by
      simp only [genCodes, List.mem_cons, List.mem_nil_iff, or_false] at *
      rename_i hc
      rcases hc with rfl | rfl | rfl | rfl | rfl | rfl | rfl | rfl <;> decide
    omega

theorem strip_code (k : Str) (h : IsCode k) (fuel : Nat) (s : Str) : stripColor (fuel + 1) (k ++ s) = stripColor fuel s := by
  rcases h with rfl | ⟨c, hc, rfl⟩
  · exact strip_reset fuel s
  · have := strip_open fuel s c hc
    simpa [List.append_assoc] using this

theorem strip_esc_other (fuel : Nat) (s : Str) (h : s.head? ≠ some 91) : stripColor (fuel + 1) (27 :: s) = 27 :: stripColor fuel s := by
  cases s with
  | nil => simp [stripColor, stripColor_nil]
  | cons a as =>
    have ha : a ≠ 91 := fun hc => h (by simp [hc])
    rw [stripColor]
    intro r _ hc
    simp only [List.cons.injEq] at hc
    exact absurd hc.1 ha

/-- text without `ESC` passes through -/
theorem strip_text : ∀ (t : Str), 27 ∉ t → ∀ (fuel : Nat) (s : Str), stripColor (fuel + t.length) (t ++ s) = t ++ stripColor fuel s
  | [], _, fuel, s => rfl
  | c :: r, h, fuel, s => by
    have hc : c ≠ 27 := fun e => h (by simp [e])
    have := strip_text r (fun e => h (List.mem_cons_of_mem _ e)) fuel s
    simp only [List.length_cons, List.cons_append]
    rw [show fuel + (r.length + 1) = (fuel + r.length) + 1 by omega, strip_other _ c _ hc, this]

/-- **the stripping regex removes exactly the inserted sequences** -/
theorem Col.strip {C T : Str} (h : Col C T) : ∀ fuel, C.length ≤ fuel → stripColor fuel C = T := by
  induction h with
  | nil => intro fuel _; exact stripColor_nil fuel
  | @chr c C T _ hc ih =>
    intro fuel hf
    cases fuel with
    | zero => simp at hf
    | succ f =>
      have hlen : C.length ≤ f := by simp at hf; omega
      by_cases h27 : c = 27
      · subst h27
        rw [strip_esc_other f C (hc rfl), ih f hlen]
      · rw [strip_other f c C h27, ih f hlen]
  | @paint code text C T hc hne htx _ ih =>
    intro fuel hf
    rw [paint_eq] at hf ⊢
    have hopen : IsCode ([27, 91] ++ code ++ [109]) := Or.inr ⟨code, hc, rfl⟩
    have hlen := isCode_len _ hopen
    simp only [List.length_append] at hf hlen
    have hfe : fuel = ((fuel - 2 - text.length) + 1 + text.length) + 1 := by
      simp only [List.length_cons, List.length_nil] at hf hlen ⊢; omega
    rw [hfe, List.append_assoc, strip_code _ hopen, List.append_assoc,
      strip_text text (fun h => (htx 27 h).2.2 rfl), strip_code [27, 91, 48, 109] (Or.inl rfl)]
    rw [ih _ (by simp only [List.length_cons, List.length_nil] at hf hlen ⊢; omega)]

/-! ### building `Col` -/

theorem Col.append {a a' b b' : Str} (ha : Col a a') (hb : Col b b') (hh : b.head? ≠ some 91) : Col (a ++ b) (a' ++ b') := by
  induction ha with
  | nil => simpa using hb
  | @chr c C T _ hc ih =>
    simp only [List.cons_append]
    refine Col.chr c ih ?_
    intro h27
    cases C with
    | nil => simpa using hh
    | cons x xs => simpa using hc h27
  | @paint code text C T hc hne htx _ ih =>
    rw [List.append_assoc, List.append_assoc]
    exact Col.paint code text hc hne htx ih

/-- in `t` every `[` directly follows a backslash (`prev` is the character before `t`) -/
def S91 (prev : Nat) : Str → Prop
  | [] => True
  | c :: r => (c = 91 → prev = 92) ∧ S91 c r

def Safe91 (t : Str) : Prop := S91 0 t

theorem S91.weaken {p q : Nat} {t : Str} (h : S91 p t) (hq : t.head? ≠ some 91) : S91 q t := by
  cases t with
  | nil => trivial
  | cons c r => exact ⟨fun hc => absurd (by simp [hc]) hq, h.2⟩

theorem safe91_head {t : Str} (h : Safe91 t) : t.head? ≠ some 91 := by
  cases t with
  | nil => simp
  | cons c r =>
    intro hc
    simp only [List.head?_cons, Option.some.injEq] at hc
    have := h.1 hc
    omega

theorem S91.append {p : Nat} {a b : Str} (ha : S91 p a) (hb : Safe91 b) : S91 p (a ++ b) := by
  induction a generalizing p with
  | nil => exact hb.weaken (safe91_head hb)
  | cons c r ih => exact ⟨ha.1, ih ha.2⟩

theorem safe91_append {a b : Str} (ha : Safe91 a) (hb : Safe91 b) : Safe91 (a ++ b) := S91.append ha hb

theorem safe91_nil : Safe91 [] := trivial

theorem safe91_flatMap {α : Type} (l : List α) (f : α → Str) (h : ∀ a ∈ l, Safe91 (f a)) : Safe91 (l.flatMap f) := by
  induction l with
  | nil => exact safe91_nil
  | cons a as ih =>
    simp only [List.flatMap_cons]
    exact safe91_append (h a List.mem_cons_self) (ih (fun x hx => h x (List.mem_cons_of_mem _ hx)))

/-- plain text in which every `[` is escaped is related to itself -/
theorem Col.of_S91 : ∀ (t : Str) (p : Nat), S91 p t → Col t t
  | [], _, _ => Col.nil
  | c :: r, p, h => by
    refine Col.chr c (Col.of_S91 r c h.2) ?_
    intro h27
    cases r with
    | nil => simp
    | cons d ds =>
      intro hd
      simp only [List.head?_cons, Option.some.injEq] at hd
      have := h.2.1 hd
      omega

theorem Col.of_safe {t : Str} (h : Safe91 t) : Col t t := Col.of_S91 t 0 h

/-- a component: with colour it is the text between an opening code and the reset, without colour it is the text -/
theorem Col.paint' (code text : Str) (hc : code ∈ genCodes) (hne : text ≠ []) (htx : ∀ x ∈ text, x ≠ 10 ∧ x ≠ 13 ∧ x ≠ 27) :
    Col (Grexv.paint true code text) text := by
  have := Col.paint code text hc hne htx Col.nil
  simpa using this

theorem paint_head (code text : Str) : (Grexv.paint true code text).head? ≠ some 91 := by
  simp [Grexv.paint, colorCode]

/-- both at once: related, and the coloured side does not start with a raw `[` even after appending more -/
structure CP (C T : Str) : Prop where
  col : Col C T
  head : ∀ rest : Str, rest.head? ≠ some 91 → (C ++ rest).head? ≠ some 91

theorem CP.nil : CP [] [] := ⟨Col.nil, fun rest h => by simpa using h⟩

theorem CP.append {a a' b b' : Str} (ha : CP a a') (hb : CP b b') : CP (a ++ b) (a' ++ b') := by
  refine ⟨Col.append ha.col hb.col ?_, ?_⟩
  · have := hb.head [] (by simp)
    simpa using this
  · intro rest hr
    rw [List.append_assoc]
    exact ha.head _ (hb.head rest hr)

theorem CP.of_safe {t : Str} (h : Safe91 t) : CP t t := by
  refine ⟨Col.of_safe h, ?_⟩
  intro rest hr
  cases t with
  | nil => simpa using hr
  | cons c r =>
    have := safe91_head h
    simpa using this

theorem CP.paint (color : Bool) (code text : Str) (hc : code ∈ genCodes) (ht : Safe91 text) (hne : text ≠ [])
    (htx : ∀ x ∈ text, x ≠ 10 ∧ x ≠ 13 ∧ x ≠ 27) :
    CP (Grexv.paint color code text) (Grexv.paint false code text) := by
  cases color with
  | false => exact CP.of_safe ht
  | true =>
    refine ⟨Col.paint' code text hc hne htx, ?_⟩
    intro rest _
    simp [Grexv.paint, colorCode]

end Grexv

namespace Grexv
open ColorBasic

/-! ### generic facts -/

theorem Col.of_no27 : ∀ (t : Str), 27 ∉ t → Col t t
  | [], _ => Col.nil
  | c :: r, h => Col.chr c (Col.of_no27 r (fun hc => h (List.mem_cons_of_mem _ hc)))
      (fun hc => absurd (by simp [hc]) h)

theorem Col.prepend_no27 : ∀ (r : Str), 27 ∉ r → ∀ {C T : Str}, Col C T → Col (r ++ C) (r ++ T)
  | [], _, _, _, h => by simpa using h
  | c :: r, h27, C, T, h =>
    Col.chr c (Col.prepend_no27 r (fun hc => h27 (List.mem_cons_of_mem _ hc)) h) (fun hc => absurd (by simp [hc]) h27)

theorem Col.eq_of_no27 {C T : Str} (h : Col C T) (h27 : 27 ∉ C) : C = T := by
  induction h with
  | nil => rfl
  | @chr c C T _ _ ih => rw [ih (fun hc => h27 (List.mem_cons_of_mem _ hc))]
  | @paint code text C T _ _ _ _ _ =>
    exact absurd (by simp [Grexv.paint, colorCode]) h27

/-- a painted component: the text is a fixed string, checked by evaluation -/
def okText (t : Str) : Bool := !t.isEmpty && t.all fun x => x != 10 && x != 13 && x != 27

theorem okText_sound (t : Str) (h : okText t = true) : t ≠ [] ∧ ∀ x ∈ t, x ≠ 10 ∧ x ≠ 13 ∧ x ≠ 27 := by
  simp only [okText, Bool.and_eq_true, Bool.not_eq_true', List.all_eq_true, bne_iff_ne, ne_eq] at h
  refine ⟨fun e => by simp [e] at h, fun x hx => ?_⟩
  have := h.2 x hx
  exact ⟨this.1.1, this.1.2, this.2⟩

theorem CP.painted (code text : Str) (hc : code ∈ genCodes) (hok : okText text = true) : CP (Grexv.paint true code text) text :=
  ⟨Col.paint' code text hc (okText_sound text hok).1 (okText_sound text hok).2, fun rest _ => by simp [Grexv.paint, colorCode]⟩

/-- plain text without `ESC` that is not empty and does not start with `[` -/
theorem CP.plain (t : Str) (h27 : 27 ∉ t) (hh : ∀ rest : Str, rest.head? ≠ some 91 → (t ++ rest).head? ≠ some 91) : CP t t :=
  ⟨Col.of_no27 t h27, hh⟩

theorem CP.ite_nl (b : Bool) : CP (if b then [10] else []) (if b then [10] else []) := by
  cases b
  · exact CP.nil
  · exact CP.plain [10] (by decide) (fun rest _ => by simp)

theorem CP.flatMap {α : Type} (l : List α) (f g : α → Str) (h : ∀ a ∈ l, CP (f a) (g a)) : CP (l.flatMap f) (l.flatMap g) := by
  induction l with
  | nil => exact CP.nil
  | cons a as ih =>
    simp only [List.flatMap_cons]
    exact CP.append (h a List.mem_cons_self) (ih (fun x hx => h x (List.mem_cons_of_mem _ hx)))

/-! ### components -/

namespace Comp
open Gen

theorem mem_codes : colGreenBold ∈ genCodes ∧ colYellowBold ∈ genCodes ∧ colCyanBold ∈ genCodes ∧ colRedBold ∈ genCodes ∧
    colPurpleBold ∈ genCodes ∧ colWhiteOnBrightBlue ∈ genCodes ∧ colBlackOnBrightYellow ∈ genCodes ∧
    colBrightYellowOnBlack ∈ genCodes := by
  simp [genCodes]

theorem cp_leftParen (cap : Bool) : CP (leftParen cap true) (leftParen cap false) := by
  unfold leftParen
  cases cap
  · exact CP.painted _ _ mem_codes.1 (by decide)
  · exact CP.painted _ _ mem_codes.1 (by decide)

theorem cp_rightParen : CP (rightParen true) (rightParen false) := CP.painted _ _ mem_codes.1 (by decide)

theorem cp_paren (cap verb fb : Bool) (eT eF : Str) (h : CP eT eF) : CP (paren cap true verb fb eT) (paren cap false verb fb eF) := by
  have nl : CP [10] [10] := CP.plain [10] (by decide) (fun rest _ => by simp)
  unfold paren
  cases verb
  · simp only [Bool.false_eq_true, ite_false]
    exact CP.append (CP.append (cp_leftParen cap) h) cp_rightParen
  · simp only [ite_true]
    exact CP.append (CP.append (CP.append (CP.append (CP.append (CP.append nl (cp_leftParen cap)) nl) h) nl) cp_rightParen) (CP.ite_nl fb)

theorem cp_quantifier (verb : Bool) (q : Quant) : CP (quantifier true verb q) (quantifier false verb q) := by
  unfold quantifier
  apply CP.append _ (CP.ite_nl verb)
  cases q
  · exact CP.painted _ _ mem_codes.2.2.2.2.1 (by decide)
  · exact CP.painted _ _ mem_codes.2.2.2.2.1 (by decide)

theorem decDigits_no27 (fuel n : Nat) (acc : Str) (hacc : 27 ∉ acc) : 27 ∉ decDigits fuel n acc := by
  induction fuel generalizing n acc with
  | zero => simpa [decDigits] using hacc
  | succ f ih =>
    unfold decDigits
    split
    · intro hc
      simp only [List.mem_cons] at hc
      rcases hc with hc | hc
      · omega
      · exact hacc hc
    · apply ih
      intro hc
      simp only [List.mem_cons] at hc
      rcases hc with hc | hc
      · have := Nat.mod_lt n (show 0 < 10 by omega); omega
      · exact hacc hc

theorem toDec_no27 (n : Nat) : 27 ∉ toDec n := decDigits_no27 _ _ _ (by simp)

theorem okText_braces (t : Str) (h : ∀ x ∈ t, x = 44 ∨ (48 ≤ x ∧ x ≤ 57)) : okText ([123] ++ t ++ [125]) = true := by
  simp only [okText, Bool.and_eq_true, Bool.not_eq_true', List.all_eq_true, bne_iff_ne, ne_eq]
  refine ⟨by simp, ?_⟩
  intro x hx
  simp only [List.mem_append, List.mem_cons, List.mem_nil_iff, or_false] at hx
  rcases hx with (hx | hx) | hx
  · omega
  · have := h x hx; omega
  · omega

theorem decDigits_digits (fuel n : Nat) (acc : Str) (hacc : ∀ x ∈ acc, 48 ≤ x ∧ x ≤ 57) : ∀ x ∈ decDigits fuel n acc, 48 ≤ x ∧ x ≤ 57 := by
  induction fuel generalizing n acc with
  | zero => simpa [decDigits] using hacc
  | succ f ih =>
    unfold decDigits
    split
    · intro x hx
      simp only [List.mem_cons] at hx
      rcases hx with hx | hx
      · omega
      · exact hacc x hx
    · apply ih
      intro x hx
      simp only [List.mem_cons] at hx
      rcases hx with hx | hx
      · have := Nat.mod_lt n (show 0 < 10 by omega); omega
      · exact hacc x hx

theorem toDec_digits (n : Nat) : ∀ x ∈ toDec n, 48 ≤ x ∧ x ≤ 57 := decDigits_digits _ _ _ (by simp)

theorem cp_repetition (verb : Bool) (n : Nat) : CP (repetition true verb n) (repetition false verb n) := by
  unfold repetition
  apply CP.append _ (CP.ite_nl verb)
  apply CP.painted _ _ mem_codes.2.2.2.2.2.1
  split
  · decide
  · exact okText_braces _ (fun x hx => Or.inr (toDec_digits n x hx))

theorem cp_repetitionRange (verb : Bool) (m n : Nat) : CP (repetitionRange true verb m n) (repetitionRange false verb m n) := by
  unfold repetitionRange
  apply CP.append _ (CP.ite_nl verb)
  apply CP.painted _ _ mem_codes.2.2.2.2.2.1
  split
  · decide
  · have : ([123] ++ toDec m ++ [44] ++ toDec n ++ [125] : Str) = [123] ++ (toDec m ++ [44] ++ toDec n) ++ [125] := by simp
    rw [this]
    apply okText_braces
    intro x hx
    simp only [List.mem_append, List.mem_cons, List.mem_nil_iff, or_false] at hx
    rcases hx with (hx | hx) | hx
    · exact Or.inr (toDec_digits m x hx)
    · exact Or.inl hx
    · exact Or.inr (toDec_digits n x hx)

theorem charClasses_no27 : ∀ v ∈ Gen.charClasses, 27 ∉ v := by decide
theorem charClasses_ok : ∀ v ∈ Gen.charClasses, okText v = true := by decide

/-- the value of a grapheme, painted when it is a shorthand class -/
theorem cp_charClass (vT vF : Str) (h : CP vT vF) :
    CP (charClass (true && Gen.charClasses.contains vT) vT) (charClass (false && Gen.charClasses.contains vF) vF) := by
  unfold charClass
  by_cases hc : Gen.charClasses.contains vT = true
  · have hmem : vT ∈ Gen.charClasses := by simpa [List.contains_iff_mem] using hc
    have h27 := charClasses_no27 vT hmem
    have := h.col.eq_of_no27 h27
    subst this
    simp only [hc, Bool.and_self, Bool.false_and]
    exact CP.painted _ _ mem_codes.2.2.2.2.2.2.1 (charClasses_ok vT hmem)
  · have hc' : Gen.charClasses.contains vT = false := by simpa using hc
    simp only [hc', Bool.and_false, Bool.false_and, paint, Bool.false_eq_true, ite_false]
    exact h

end Comp

end Grexv

namespace Grexv
open ColorBasic

/-! ### graphemes and literals -/

def s91b (prev : Nat) : Str → Bool
  | [] => true
  | c :: r => (c != 91 || prev == 92) && s91b c r

theorem s91b_sound : ∀ (t : Str) (p : Nat), s91b p t = true → S91 p t
  | [], _, _ => trivial
  | c :: r, p, h => by
    simp only [s91b, Bool.and_eq_true, Bool.or_eq_true, bne_iff_ne, ne_eq, beq_iff_eq] at h
    refine ⟨?_, s91b_sound r c h.2⟩
    intro hc
    rcases h.1 with h1 | h1
    · exact absurd hc h1
    · exact h1

def withColor (cfg : Config) (b : Bool) : Config := { cfg with color := b }

mutual
theorem escapeGrapheme_color (cfg : Config) (b : Bool) : ∀ (g : Grapheme), escapeGrapheme (withColor cfg b) g = escapeGrapheme cfg g
  | .mk chars reps mn mx => by
    simp only [escapeGrapheme, withColor]
    rw [show escapeGraphemes { cfg with color := b } reps = escapeGraphemes cfg reps from escapeGraphemes_color cfg b reps]
    rfl
theorem escapeGraphemes_color (cfg : Config) (b : Bool) : ∀ (gs : List Grapheme), escapeGraphemes (withColor cfg b) gs = escapeGraphemes cfg gs
  | [] => by simp [escapeGraphemes]
  | g :: gs => by
    simp only [escapeGraphemes]
    rw [escapeGrapheme_color cfg b g, escapeGraphemes_color cfg b gs]
end

mutual
/-- every `[` the grapheme will print is escaped -/
def GSafe : Grapheme → Prop
  | .mk chars reps _ _ => (reps = [] → ∀ s ∈ chars, Safe91 s) ∧ GSafeL reps
def GSafeL : List Grapheme → Prop
  | [] => True
  | g :: gs => GSafe g ∧ GSafeL gs
end

end Grexv
