import Grexv.Lemmas.PrintParseR
import Grexv.Lemmas.PrintParseTop

/-
Top level of print → parse with counted graphemes: `^ body $` as `Display for RegExp` writes it with plain settings is accepted by the
model of `Regex::new` and read as the items `bothR` computes.
-/
set_option linter.unusedSimpArgs false
set_option linter.unusedVariables false
namespace Grexv
open Spec

def topItemsR (cap esc : Bool) (e : Expr) : List Pat :=
  if e.isAlt then [Pat.grp cap (e.bothR cap esc).2] else (e.bothR cap esc).1

def topToksR (cap esc : Bool) (e : Expr) : Nat := if e.isAlt then (e.toksR cap esc).2 + 2 else (e.toksR cap esc).1

theorem top_parseR (cap esc : Bool) (e : Expr) (hwf : e.WFR) (f : Nat) (rest : List Nat) (co : List Pat)
    (hrest : rest.head? ≠ some 63) :
    parseLoop false (f + topToksR cap esc e) (R (bodyText (cfgPlain cap esc) e) ++ rest) [] [] co =
      parseLoop false f rest [] [] ((topItemsR cap esc e).reverse ++ co) := by
  have pe := Expr.ppR cap esc e hwf
  rw [bodyText_eq, topToksR, topItemsR]
  cases ha : e.isAlt with
  | true =>
    simp only [ite_true, R_append, R_lp, List.append_assoc]
    have hR41 : R [41] = [41] := by decide
    rw [hR41]
    have hfuel : f + ((e.toksR cap esc).2 + 2) = (f + ((e.toksR cap esc).2 + 1)) + 1 := by omega
    rw [hfuel]
    cases cap with
    | true =>
      simp only [lp, ite_true, List.singleton_append, List.cons_append, List.nil_append]
      rw [step_lparen_cap _ _ (pe.head _ (by simp)), pe.body]
      simp
    | false =>
      simp only [lp, Bool.false_eq_true, ite_false, List.cons_append, List.nil_append, List.singleton_append]
      rw [step_lparen_noncap, pe.body]
      simp
  | false =>
    simp only [Bool.false_eq_true, ite_false]
    exact pe.items ha f rest [] [] co (fun _ => hrest)

theorem top_lenR (cap esc : Bool) (e : Expr) (hwf : e.WFR) : topToksR cap esc e ≤ (R (bodyText (cfgPlain cap esc) e)).length := by
  have pe := Expr.ppR cap esc e hwf
  rw [bodyText_eq, topToksR]
  cases ha : e.isAlt with
  | true =>
    simp only [ite_true, R_append, R_lp, List.length_append]
    have := pe.len2
    have h41 : (R [41]).length = 1 := by decide
    have hlp : 1 ≤ (lp cap).length := by cases cap <;> simp [lp]
    omega
  | false =>
    simp only [Bool.false_eq_true, ite_false]
    exact pe.len1 ha

/-- **`Regex::new` accepts the printed text** (`-r`, plain printing, both anchors) and reads it as `^ items $` -/
theorem parse_printedR (cap esc : Bool) (e : Expr) (hwf : e.WFR) :
    Spec.parse (fmtRegExp (cfgPlain cap esc) e) =
      some (⟨false, false⟩, catList (Pat.bol :: (topItemsR cap esc e ++ [Pat.eol]))) := by
  rw [fmtRegExp_plain]
  have hfl : parseFlags (94 :: (R (bodyText (cfgPlain cap esc) e) ++ [36])) =
      (⟨false, false⟩, 94 :: (R (bodyText (cfgPlain cap esc) e) ++ [36])) := by simp [parseFlags]
  simp only [Spec.parse, hfl]
  have hlen := top_lenR cap esc e hwf
  generalize hT : topToksR cap esc e = T at hlen
  have hbody := fun f rest co h => top_parseR cap esc e hwf f rest co h
  rw [hT] at hbody
  generalize hB : R (bodyText (cfgPlain cap esc) e) = B at hlen hbody
  have hfuel : 2 * (94 :: (B ++ [36])).length + 4 = (((2 * (94 :: (B ++ [36])).length + 4 - T - 3) + 1 + 1) + T) + 1 := by
    simp only [List.length_cons, List.length_append, List.length_nil]; omega
  rw [hfuel, step_caret, hbody _ _ _ (by simp), step_dollar, step_end]
  simp [closeFrame, altList]

end Grexv
