import Grexv.Lemmas.PyEmit
import Grexv.Lemmas.PrintLit
import Grexv.Lemmas.SoundR
import Grexv.Lemmas.SingleEsc
import Grexv.Lemmas.SurRel
import Grexv.Lemmas.XIndent
import Grexv.Lemmas.AsciiOut

/-
The text `Display for RegExp` writes is a sequence of the tokens of `PyEmit` — for every setting without colours and not verbose, every
class option, `-i`, `-e` with and without surrogate pairs, `-r` with counted graphemes nested to any depth — so the Python rewrite
produces its token-wise image (`pyRewrite_emit`): each `\u{h…}` the printer wrote is turned into Python's form and nothing else is
touched.  In particular an escaped backslash in front of `u{2}` (a test case `\uu` with `-r`) is not read as an escape.
-/
set_option linter.unusedSimpArgs false
set_option linter.unusedVariables false
namespace Grexv

def PyTok (s : Str) : Prop := ∃ p, PyEmit s p

theorem PyTok.nil : PyTok [] := ⟨[], .nil⟩

theorem PyTok.append {a b : Str} (h1 : PyTok a) (h2 : PyTok b) : PyTok (a ++ b) := by
  obtain ⟨p, hp⟩ := h1
  obtain ⟨q, hq⟩ := h2
  exact ⟨p ++ q, hp.append hq⟩

theorem PyTok.noBs : ∀ (t : Str), 92 ∉ t → 13 ∉ t → PyTok t
  | [], _, _ => PyTok.nil
  | c :: r, h, h13 => by
    obtain ⟨p, hp⟩ := PyTok.noBs r (fun e => h (List.mem_cons_of_mem _ e)) (fun e => h13 (List.mem_cons_of_mem _ e))
    exact ⟨c :: p, PyEmit.plain c ⟨by intro e; subst e; simp at h, by intro e; subst e; simp at h13⟩ hp⟩

theorem PyTok.one (c : Nat) (h : c ≠ 92) (h13 : c ≠ 13) : PyTok [c] :=
  PyTok.noBs [c] (by simp; exact fun e => h e.symm) (by simp; exact fun e => h13 e.symm)

theorem PyTok.flatten (l : List Str) (h : ∀ s ∈ l, PyTok s) : PyTok l.flatten := by
  induction l with
  | nil => exact PyTok.nil
  | cons a as ih =>
    simp only [List.flatten_cons]
    exact PyTok.append (h a List.mem_cons_self) (ih (fun s hs => h s (List.mem_cons_of_mem _ hs)))

theorem PyTok.pair (x : Nat) (h : x ≠ 117) (h10 : x ≠ 10) (h13 : x ≠ 13) : PyTok [92, x] := ⟨[92, x], PyEmit.esc x ⟨h, h10, h13⟩ PyEmit.nil⟩

theorem PyTok.hex (v : Nat) (h : v ≤ 0x10FFFF) : PyTok ([92, 117, 123] ++ toHex v ++ [125]) :=
  ⟨pyEscape v ++ [], PyEmit.uni v h PyEmit.nil⟩

/-! ### one code point -/

theorem escapeChar_lt (c : Nat) (sur : Bool) (h : c < 128) : Expr.escapeChar c sur = [c] := by
  unfold Expr.escapeChar
  rw [if_pos h]

theorem escAll_ascii (sur : Bool) (t : Str) (h : ∀ c ∈ t, c < 128) : t.flatMap (fun c => Expr.escapeChar c sur) = t := by
  induction t with
  | nil => rfl
  | cons c r ih =>
    have hc : c < 128 := h c List.mem_cons_self
    rw [List.flatMap_cons, escapeChar_lt c sur hc, ih (fun x hx => h x (List.mem_cons_of_mem _ hx))]
    rfl

theorem pyTok_escapeChar (c : Nat) (sur : Bool) (hc : c ≠ 92) (h13 : c ≠ 13) (hs : c ≤ 0x10FFFF) : PyTok (Expr.escapeChar c sur) := by
  by_cases h : c < 128
  · rw [escapeChar_lt c sur h]
    exact PyTok.one c hc h13
  · unfold Expr.escapeChar
    rw [if_neg h]
    split
    · have h1 : 0xD800 + (c - 0x10000) / 1024 ≤ 0x10FFFF := by omega
      have h2 : 0xDC00 + (c - 0x10000) % 1024 ≤ 0x10FFFF := by omega
      have e : ∀ (a b : Str), [92, 117, 123] ++ a ++ [125] ++ [92, 117, 123] ++ b ++ [125] =
          ([92, 117, 123] ++ a ++ [125]) ++ ([92, 117, 123] ++ b ++ [125]) := by
        intro a b; simp only [List.append_assoc]
      rw [e]
      exact PyTok.append (PyTok.hex _ h1) (PyTok.hex _ h2)
    · exact PyTok.hex c hs

theorem core1_ascii_tok : (List.range 128).all (fun x => x == 92 ||
    (core1 x == [x] && x != 13) || (match core1 x with | [a, y] => a == 92 && y != 117 && y != 10 && y != 13 | _ => false)) = true := by
  decide +kernel

theorem pyTok_core1 (x : Nat) (hx : x ≠ 92) (hs : x ≤ 0x10FFFF) (esc sur : Bool) :
    PyTok (if esc then (core1 x).flatMap (fun c => Expr.escapeChar c sur) else core1 x) := by
  by_cases h : x < 128
  · have hclosed : ∀ c ∈ core1 x, c < 128 := by
      have := List.all_eq_true.mp core1_ascii_closed x (List.mem_range.mpr h)
      intro c hc
      simpa using List.all_eq_true.mp this c hc
    have hsame : (if esc then (core1 x).flatMap (fun c => Expr.escapeChar c sur) else core1 x) = core1 x := by
      cases esc
      · simp only [Bool.false_eq_true, ite_false]
      · simp only [ite_true]; exact escAll_ascii sur _ hclosed
    rw [hsame]
    have := List.all_eq_true.mp core1_ascii_tok x (List.mem_range.mpr h)
    simp only [Bool.or_eq_true, beq_iff_eq, Bool.and_eq_true, bne_iff_ne, ne_eq] at this
    rcases this with (h1 | h1) | h1
    · exact absurd h1 hx
    · rw [h1.1]; exact PyTok.one x hx h1.2
    · match hcx : core1 x with
      | [] => rw [hcx] at h1; cases h1
      | [_] => rw [hcx] at h1; cases h1
      | [a, y] =>
        rw [hcx] at h1
        simp only [Bool.and_eq_true, beq_iff_eq, bne_iff_ne, ne_eq, decide_eq_true_eq] at h1
        obtain ⟨⟨⟨rfl, hy⟩, hy10⟩, hy13⟩ := h1
        exact PyTok.pair y hy hy10 hy13
      | _ :: _ :: _ :: _ => rw [hcx] at h1; cases h1
  · rw [core1_nonascii x (by omega)]
    cases esc
    · exact PyTok.one x hx (by omega)
    · simp only [ite_true, List.flatMap_cons, List.flatMap_nil, List.append_nil]
      exact pyTok_escapeChar x sur hx (by omega) hs

theorem scalar_le (c : Nat) (h : Scalar c) : c ≤ 0x10FFFF := by
  have := h
  simp only [Scalar, Spec.isScalar, Bool.or_eq_true, decide_eq_true_eq, Bool.and_eq_true] at this
  omega

/-- the escaped text of one string of a grapheme -/
theorem pyTok_chars (esc sur : Bool) (as : List Atom) (h : AtomsOK as) :
    PyTok (if esc then (escapeSymbols (untok as)).flatMap (fun c => Expr.escapeChar c sur) else escapeSymbols (untok as)) := by
  rcases h with rfl | h
  · have : escapeSymbols (untok [Atom.chr 92]) = [92, 92] := by decide +kernel
    rw [this]
    cases esc
    · exact PyTok.pair 92 (by decide) (by decide) (by decide)
    · simp only [ite_true]
      rw [escAll_ascii sur _ (by decide)]
      exact PyTok.pair 92 (by decide) (by decide) (by decide)
  · rw [escapeSymbols_eq]
    simp only [flatMap_core1_ne as h, ite_false]
    have key : ∀ (as : List Atom), (∀ a ∈ as, AtomOK a) →
        PyTok (if esc then ((untok as).flatMap core1).flatMap (fun c => Expr.escapeChar c sur) else (untok as).flatMap core1) := by
      intro as
      induction as with
      | nil => intro _; cases esc <;> exact PyTok.nil
      | cons a r ih =>
        intro hall
        have ihr := ih (fun b hb => hall b (List.mem_cons_of_mem _ hb))
        cases a with
        | chr c =>
          obtain ⟨hc, hsc⟩ := hall _ List.mem_cons_self
          have h1 := pyTok_core1 c hc (scalar_le c hsc) esc sur
          cases esc
          · simp only [untok, List.flatMap_cons, Bool.false_eq_true, ite_false] at h1 ihr ⊢
            exact PyTok.append h1 ihr
          · simp only [untok, List.flatMap_cons, List.flatMap_append, ite_true] at h1 ihr ⊢
            exact PyTok.append h1 ihr
        | cls k n =>
          have hl : letterOf k n ≠ 117 ∧ letterOf k n < 128 ∧ letterOf k n ≠ 10 ∧ letterOf k n ≠ 13 := by cases k <;> cases n <;> decide
          have h1 : PyTok [92, letterOf k n] := PyTok.pair _ hl.1 hl.2.2.1 hl.2.2.2
          cases esc
          · simp only [untok, List.flatMap_cons, core1_92, core1_letter, Bool.false_eq_true, ite_false] at ihr ⊢
            simpa using PyTok.append h1 ihr
          · simp only [untok, List.flatMap_cons, List.flatMap_append, core1_92, core1_letter, ite_true, List.flatMap_nil,
              List.append_nil, escapeChar_lt 92 sur (by decide), escapeChar_lt _ sur hl.2.1] at ihr ⊢
            simpa using PyTok.append h1 ihr
    exact key as h

/-! ### graphemes -/

mutual
/-- the strings of the grapheme (at every depth) are made of atoms: a lone backslash, or code points other than the backslash and class tokens -/
def GAt : Grapheme → Prop
  | .mk chars reps _ _ => (∀ s ∈ chars, ∃ as, AtomsOK as ∧ s = untok as) ∧ GAtL reps
def GAtL : List Grapheme → Prop
  | [] => True
  | g :: gs => GAt g ∧ GAtL gs
end

mutual
/-- what an escaped grapheme prints is made of tokens -/
def GPy : Grapheme → Prop
  | .mk chars reps _ _ => (reps = [] → ∀ s ∈ chars, PyTok s) ∧ GPyL reps
def GPyL : List Grapheme → Prop
  | [] => True
  | g :: gs => GPy g ∧ GPyL gs
end

mutual
theorem gok_gat : ∀ (g : Grapheme), GOK g → GAt g
  | .mk chars reps mn mx, h => by
    simp only [GOK] at h
    obtain ⟨⟨ass, hass, rfl⟩, _, hr⟩ := h
    simp only [GAt]
    refine ⟨?_, ?_⟩
    · intro s hs
      obtain ⟨as, has, rfl⟩ := List.mem_map.mp hs
      exact ⟨as, (hass.2 as has).2, rfl⟩
    · rcases hr with ⟨_, _, rfl, _⟩ | ⟨_, _, hr⟩
      · simp [GAtL]
      · rcases hr with rfl | ⟨_, _, hr⟩
        · simp [GAtL]
        · exact gokl_gatl reps hr
theorem gokl_gatl : ∀ (gs : List Grapheme), GOKL gs → GAtL gs
  | [], _ => by simp [GAtL]
  | g :: gs, h => by
    simp only [GOKL] at h
    simp only [GAtL]
    exact ⟨gok_gat g h.1, gokl_gatl gs h.2⟩
end

mutual
theorem escapeGrapheme_gpy (cfg : Config) : ∀ (g : Grapheme), GAt g → GPy (escapeGrapheme cfg g)
  | .mk chars reps mn mx, h => by
    simp only [GAt] at h
    simp only [escapeGrapheme, GPy]
    refine ⟨?_, escapeGraphemes_gpy cfg reps h.2⟩
    intro _ s hs
    by_cases he : cfg.esc = true
    · rw [if_pos he] at hs
      simp only [List.mem_map] at hs
      obtain ⟨s1, ⟨s0, hs0, rfl⟩, rfl⟩ := hs
      obtain ⟨as, has, rfl⟩ := h.1 s0 hs0
      have := pyTok_chars true cfg.sur as has
      simpa using this
    · rw [if_neg he] at hs
      simp only [List.mem_map] at hs
      obtain ⟨s0, hs0, rfl⟩ := hs
      obtain ⟨as, has, rfl⟩ := h.1 s0 hs0
      have := pyTok_chars false cfg.sur as has
      simpa using this
theorem escapeGraphemes_gpy (cfg : Config) : ∀ (gs : List Grapheme), GAtL gs → GPyL (escapeGraphemes cfg gs)
  | [], _ => by simp [escapeGraphemes, GPyL]
  | g :: gs, h => by
    simp only [GAtL] at h
    simp only [escapeGraphemes, GPyL]
    exact ⟨escapeGrapheme_gpy cfg g h.1, escapeGraphemes_gpy cfg gs h.2⟩
end

/-- a decidable sufficient condition: characters other than the backslash and two-character escapes other than `\u` -/
def tokB : Str → Bool
  | [] => true
  | 92 :: x :: r => x != 117 && x != 10 && x != 13 && tokB r
  | c :: r => c != 92 && c != 13 && tokB r

theorem tokB_ne (c : Nat) (r : Str) (hc : c ≠ 92) : tokB (c :: r) = (c != 13 && tokB r) := by
  rw [tokB]
  · have : (c != 92) = true := by simp [hc]
    rw [this, Bool.true_and]
  · intros; simp_all

theorem tokB_sound : ∀ (s : Str), tokB s = true → PyTok s
  | [], _ => PyTok.nil
  | [c], h => by
    have hc : c ≠ 92 := by
      intro e; subst e; revert h; decide
    rw [tokB_ne c _ hc] at h
    simp only [Bool.and_eq_true, bne_iff_ne, ne_eq] at h
    exact PyTok.one c hc h.1
  | c :: x :: r, h => by
    by_cases hc : c = 92
    · subst hc
      simp only [tokB, Bool.and_eq_true, bne_iff_ne, ne_eq] at h
      have := PyTok.append (PyTok.pair x h.1.1.1 h.1.1.2 h.1.2) (tokB_sound r h.2)
      simpa using this
    · rw [tokB_ne c _ hc] at h
      simp only [Bool.and_eq_true, bne_iff_ne, ne_eq] at h
      have := PyTok.append (PyTok.one c hc h.1) (tokB_sound (x :: r) h.2)
      simpa using this

theorem toDec_noBs (n : Nat) : 92 ∉ toDec n := by
  intro h
  have := toDec_digits n 92 h
  omega

theorem toDec_nocr (n : Nat) : 13 ∉ toDec n := by
  intro h
  have := toDec_digits n 13 h
  omega

/-- text without backslash and carriage return, decided -/
def plainB (t : Str) : Bool := t.all fun c => c != 92 && c != 13

theorem plainB_sound (t : Str) (h : plainB t = true) : PyTok t := by
  apply PyTok.noBs
  · intro hm
    have := List.all_eq_true.mp h 92 hm
    simp at this
  · intro hm
    have := List.all_eq_true.mp h 13 hm
    simp at this

theorem paren_pyTok (cap v fb : Bool) (x : Str) (h : PyTok x) : PyTok (Comp.paren cap false v fb x) := by
  have hl : PyTok (Comp.leftParen cap false) := plainB_sound _ (by cases cap <;> decide)
  have hr : PyTok (Comp.rightParen false) := plainB_sound _ (by decide)
  have h10 : PyTok [10] := plainB_sound _ (by decide)
  unfold Comp.paren
  cases v
  · simp only [Bool.false_eq_true, ite_false]
    exact PyTok.append (PyTok.append hl h) hr
  · simp only [ite_true]
    refine PyTok.append (PyTok.append (PyTok.append (PyTok.append (PyTok.append (PyTok.append h10 hl) h10) h) h10) hr) ?_
    cases fb
    · exact PyTok.nil
    · exact h10

theorem repetition_pyTok (v : Bool) (n : Nat) : PyTok (Comp.repetition false v n) := by
  unfold Comp.repetition paint
  simp only [Bool.false_eq_true, ite_false]
  refine PyTok.append ?_ (by cases v <;> first | exact PyTok.nil | exact plainB_sound _ (by decide))
  split
  · exact tokB_sound _ (by decide)
  · apply PyTok.noBs
    · intro h
      simp only [List.mem_append, List.mem_cons, List.mem_nil_iff, or_false] at h
      rcases h with (h | h) | h
      · omega
      · exact toDec_noBs n h
      · omega
    · intro h
      simp only [List.mem_append, List.mem_cons, List.mem_nil_iff, or_false] at h
      rcases h with (h | h) | h
      · omega
      · exact toDec_nocr n h
      · omega

theorem repetitionRange_pyTok (v : Bool) (m n : Nat) : PyTok (Comp.repetitionRange false v m n) := by
  unfold Comp.repetitionRange paint
  simp only [Bool.false_eq_true, ite_false]
  refine PyTok.append ?_ (by cases v <;> first | exact PyTok.nil | exact plainB_sound _ (by decide))
  split
  · exact tokB_sound _ (by decide)
  · apply PyTok.noBs
    · intro h
      simp only [List.mem_append, List.mem_cons, List.mem_nil_iff, or_false] at h
      rcases h with (((h | h) | h) | h) | h
      · omega
      · exact toDec_noBs m h
      · omega
      · exact toDec_noBs n h
      · omega
    · intro h
      simp only [List.mem_append, List.mem_cons, List.mem_nil_iff, or_false] at h
      rcases h with (((h | h) | h) | h) | h
      · omega
      · exact toDec_nocr m h
      · omega
      · exact toDec_nocr n h
      · omega

/-- one grapheme, given the statement for its nested repetitions -/
theorem pyTok_fmtGrapheme_step (cfg : Config) (hcol : cfg.color = false) (chars : List Str) (reps : List Grapheme) (mn mx : Nat)
    (hc : reps = [] → ∀ s ∈ chars, PyTok s) (hr : reps ≠ [] → PyTok (fmtGraphemes cfg reps)) :
    PyTok (fmtGrapheme cfg (.mk chars reps mn mx)) := by
  rw [fmtGrapheme]
  have hv0 : PyTok (if reps.isEmpty then chars.flatten else fmtGraphemes cfg reps) := by
    by_cases he : reps.isEmpty = true
    · simp only [he, ite_true]
      exact PyTok.flatten chars (hc (List.isEmpty_iff.mp he))
    · simp only [he, Bool.false_eq_true, ite_false]
      exact hr (fun h => he (by simp [h]))
  generalize (if reps.isEmpty = true then chars.flatten else fmtGraphemes cfg reps) = vT at hv0 ⊢
  simp only [hcol, Bool.false_and, Comp.charClass, paint, Bool.false_eq_true, ite_false]
  repeat' split
  all_goals first
    | exact PyTok.append hv0 (repetition_pyTok false mn)
    | exact PyTok.append (paren_pyTok cfg.cap cfg.verb false vT hv0) (repetition_pyTok cfg.verb mn)
    | exact PyTok.append hv0 (repetitionRange_pyTok false mn mx)
    | exact PyTok.append (paren_pyTok cfg.cap cfg.verb false vT hv0) (repetitionRange_pyTok cfg.verb mn mx)
    | exact hv0

mutual
theorem pyTok_fmtGrapheme (cfg : Config) (hcol : cfg.color = false) : ∀ (g : Grapheme), GPy g → PyTok (fmtGrapheme cfg g)
  | .mk chars reps mn mx, h => by
    apply pyTok_fmtGrapheme_step cfg hcol chars reps mn mx h.1
    intro _
    exact pyTok_fmtGraphemes cfg hcol reps h.2
theorem pyTok_fmtGraphemes (cfg : Config) (hcol : cfg.color = false) : ∀ (gs : List Grapheme), GPyL gs → PyTok (fmtGraphemes cfg gs)
  | [], _ => by simp only [fmtGraphemes]; exact PyTok.nil
  | g :: gs, h => by
    simp only [fmtGraphemes]
    exact PyTok.append (pyTok_fmtGrapheme cfg hcol g h.1) (pyTok_fmtGraphemes cfg hcol gs h.2)
end

theorem pyTok_fmtLiteral (cfg : Config) (hcol : cfg.color = false) (c : Cluster) (hc : ∀ g ∈ c, GAt g) : PyTok (fmtLiteral cfg c) := by
  unfold fmtLiteral
  induction c with
  | nil => exact PyTok.nil
  | cons g gs ih =>
    simp only [List.flatMap_cons]
    refine PyTok.append ?_ (ih (fun x hx => hc x (List.mem_cons_of_mem _ hx)))
    have hg := hc g List.mem_cons_self
    apply pyTok_fmtGrapheme cfg hcol
    obtain ⟨chars, reps, mn, mx⟩ := g
    simp only [GAt] at hg
    split
    · rename_i hne
      simp only [Grapheme.reps, Grapheme.chars, Grapheme.min, Grapheme.max] at hne ⊢
      simp only [GPy]
      refine ⟨?_, escapeGraphemes_gpy cfg reps hg.2⟩
      intro hcn
      cases reps with
      | nil => simp at hne
      | cons a as => simp [escapeGraphemes] at hcn
    · exact escapeGrapheme_gpy cfg _ (by simp only [GAt]; exact hg)

/-! ### classes and expressions -/

theorem escapeClassChar_pyTok (c : Nat) : PyTok (escapeClassChar c) := by
  unfold escapeClassChar
  split
  · rename_i hc
    have : c ≠ 117 ∧ c ≠ 10 ∧ c ≠ 13 := by
      refine ⟨?_, ?_, ?_⟩ <;> (intro e; subst e; revert hc; decide)
    exact PyTok.pair c this.1 this.2.1 this.2.2
  · rename_i hc
    split
    · exact tokB_sound _ (by decide)
    · split
      · exact tokB_sound _ (by decide)
      · split
        · exact tokB_sound _ (by decide)
        · rename_i _ h13 _
          apply PyTok.one c _ h13
          intro e
          rw [e] at hc
          exact hc (by decide)

theorem PyTok.flatMap {α : Type} (l : List α) (f : α → Str) (h : ∀ x ∈ l, PyTok (f x)) : PyTok (l.flatMap f) := by
  induction l with
  | nil => exact PyTok.nil
  | cons a as ih =>
    simp only [List.flatMap_cons]
    exact PyTok.append (h a List.mem_cons_self) (ih (fun x hx => h x (List.mem_cons_of_mem _ hx)))

theorem pyTok_fmtClass (cfg : Config) (hcol : cfg.color = false) (cs : List Nat) : PyTok (fmtClass cfg cs) := by
  unfold fmtClass
  simp only [hcol, Comp.leftBracket, Comp.rightBracket, Comp.hyphen, paint, Bool.false_eq_true, ite_false]
  refine PyTok.append (PyTok.append (plainB_sound _ (by decide)) ?_) (plainB_sound _ (by decide))
  apply PyTok.flatMap
  intro r _
  split
  · exact PyTok.flatMap r _ (fun c _ => escapeClassChar_pyTok c)
  · exact PyTok.append (PyTok.append (escapeClassChar_pyTok _) (plainB_sound _ (by decide))) (escapeClassChar_pyTok _)

mutual
/-- every literal of the expression is made of atoms -/
def Expr.AtOK : Expr → Prop
  | .alt os => Expr.AtOKL os
  | .cls _ => True
  | .cat a b => Expr.AtOK a ∧ Expr.AtOK b
  | .lit c => ∀ g ∈ c, GAt g
  | .rep e _ => Expr.AtOK e
def Expr.AtOKL : List Expr → Prop
  | [] => True
  | o :: os => Expr.AtOK o ∧ Expr.AtOKL os
end

mutual
theorem Expr.WFS.atOK : ∀ (e : Expr), e.WFS → e.AtOK
  | .alt os, h => by simp only [Expr.WFS] at h; simp only [Expr.AtOK]; exact Expr.WFLS.atOKL os h.2
  | .cls _, _ => by simp only [Expr.AtOK]
  | .cat a b, h => by simp only [Expr.WFS] at h; simp only [Expr.AtOK]; exact ⟨Expr.WFS.atOK a h.1, Expr.WFS.atOK b h.2⟩
  | .lit c, h => by
    simp only [Expr.WFS] at h; simp only [Expr.AtOK]
    intro g hg
    exact gok_gat g (h g hg).1
  | .rep e q, h => by simp only [Expr.WFS] at h; simp only [Expr.AtOK]; exact Expr.WFS.atOK e h.2.2
theorem Expr.WFLS.atOKL : ∀ (os : List Expr), Expr.WFLS os → Expr.AtOKL os
  | [], _ => by simp only [Expr.AtOKL]
  | o :: os, h => by
    simp only [Expr.WFLS] at h; simp only [Expr.AtOKL]
    exact ⟨Expr.WFS.atOK o h.2.1, Expr.WFLS.atOKL os h.2.2⟩
end

mutual
theorem Expr.WF.atOK : ∀ (e : Expr), e.WF → e.AtOK
  | .alt os, h => by simp only [Expr.WF] at h; simp only [Expr.AtOK]; exact Expr.WFL.atOKL os h.2
  | .cls _, _ => by simp only [Expr.AtOK]
  | .cat a b, h => by simp only [Expr.WF] at h; simp only [Expr.AtOK]; exact ⟨Expr.WF.atOK a h.1, Expr.WF.atOK b h.2⟩
  | .lit c, h => by
    simp only [Expr.WF] at h; simp only [Expr.AtOK]
    intro g hg
    obtain ⟨as, _, has, rfl⟩ := h g hg
    simp only [Grapheme.ofStr, GAt, GAtL, List.mem_singleton, and_true]
    intro s hs
    exact ⟨as, has, hs⟩
  | .rep e q, h => by simp only [Expr.WF] at h; simp only [Expr.AtOK]; exact Expr.WF.atOK e h.2.2
theorem Expr.WFL.atOKL : ∀ (os : List Expr), Expr.WFL os → Expr.AtOKL os
  | [], _ => by simp only [Expr.AtOKL]
  | o :: os, h => by
    simp only [Expr.WFL] at h; simp only [Expr.AtOKL]
    exact ⟨Expr.WF.atOK o h.2.1, Expr.WFL.atOKL os h.2.2⟩
end

mutual
theorem pyTok_fmtExpr (cfg : Config) (hcol : cfg.color = false) : ∀ (e : Expr), e.AtOK → PyTok (fmtExpr cfg e)
  | .lit c, h => by simp only [fmtExpr]; exact pyTok_fmtLiteral cfg hcol c h
  | .cls cs, _ => by simp only [fmtExpr]; exact pyTok_fmtClass cfg hcol cs
  | .cat a b, h => by
    simp only [fmtExpr]
    exact PyTok.append (pyTok_fmtSub cfg hcol 2 true a h.1) (pyTok_fmtSub cfg hcol 2 true b h.2)
  | .rep e q, h => by
    simp only [fmtExpr]
    refine PyTok.append (pyTok_fmtSub cfg hcol 3 false e h) (plainB_sound _ ?_)
    simp only [Comp.quantifier, hcol, paint, Bool.false_eq_true, ite_false]
    cases q <;> cases cfg.verb <;> decide
  | .alt os, h => by
    simp only [fmtExpr]
    exact pyTok_fmtAlt cfg hcol os h
theorem pyTok_fmtSub (cfg : Config) (hcol : cfg.color = false) (outer : Nat) (fb : Bool) : ∀ (e : Expr), e.AtOK →
    PyTok (fmtSub cfg outer fb e)
  | e, h => by
    rw [fmtSub]
    split
    · rw [hcol]; exact paren_pyTok cfg.cap cfg.verb fb _ (pyTok_fmtExpr cfg hcol e h)
    · exact pyTok_fmtExpr cfg hcol e h
theorem pyTok_fmtAlt (cfg : Config) (hcol : cfg.color = false) : ∀ (os : List Expr), Expr.AtOKL os → PyTok (fmtAlt cfg os)
  | [], _ => by simp only [fmtAlt]; exact PyTok.nil
  | [o], h => by simp only [fmtAlt]; exact pyTok_fmtSub cfg hcol 1 true o h.1
  | o :: o2 :: os, h => by
    simp only [fmtAlt]
    refine PyTok.append (PyTok.append (pyTok_fmtSub cfg hcol 1 true o h.1) (plainB_sound _ ?_)) (pyTok_fmtAlt cfg hcol (o2 :: os) h.2)
    simp only [Comp.pipe, hcol, paint, Bool.false_eq_true, ite_false]
    cases cfg.verb <;> decide
end

/-! ### the whole text: `Display for RegExp` -/

theorem hexTok_chars (v : Nat) : ∀ c ∈ ([92, 117, 123] ++ toHex v : Str), 48 ≤ c ∧ c < 128 := by
  intro c hc
  simp only [List.cons_append, List.nil_append, List.mem_cons] at hc
  rcases hc with rfl | rfl | rfl | hc
  · omega
  · omega
  · omega
  · refine ⟨?_, toHex_ascii v c hc⟩
    rw [toHex_eq] at hc
    obtain ⟨d, hd, rfl⟩ := List.mem_map.mp hc
    exact hexDigit_range d (hexDigs_lt 64 v d hd)

theorem replaceChar_cons (c : Nat) (r : Str) (d : Nat) (t : Str) :
    replaceChar c r (d :: t) = (if d = c then r else [d]) ++ replaceChar c r t := by
  simp [replaceChar]

/-- replacing a control character, `#` or the blank by its escape keeps the text made of tokens -/
theorem PyEmit.replace {a b : Str} (h : PyEmit a b) (c x : Nat) (hc : c < 48) (hx : x ≠ 117 ∧ x ≠ 10 ∧ x ≠ 13 ∧ x ≠ 92) :
    PyTok (replaceChar c [92, x] a) := by
  induction h with
  | nil => exact PyTok.nil
  | plain d hd _ ih =>
    rw [replaceChar_cons]
    refine PyTok.append ?_ ih
    split
    · exact PyTok.pair x hx.1 hx.2.1 hx.2.2.1
    · exact PyTok.one d hd.1 hd.2
  | esc y hy _ ih =>
    rw [replaceChar_cons, replaceChar_cons, if_neg (by omega)]
    split
    · have := PyTok.append (PyTok.append (PyTok.pair 92 (by decide) (by decide) (by decide)) (PyTok.one x hx.2.2.2 hx.2.2.1)) ih
      simpa using this
    · have := PyTok.append (PyTok.pair y hy.1 hy.2.1 hy.2.2) ih
      simpa using this
  | uni v hv _ ih =>
    rename_i a' b' hab
    have e1 : ([92, 117, 123] ++ toHex v ++ 125 :: a' : Str) = ([92, 117, 123] ++ toHex v ++ [125]) ++ a' := by simp
    have hnot : c ∉ ([92, 117, 123] ++ toHex v ++ [125] : Str) := by
      intro hm
      rcases List.mem_append.mp hm with hm | hm
      · have := (hexTok_chars v c hm).1; omega
      · simp only [List.mem_singleton] at hm; omega
    rw [e1, replaceChar_append c _ ([92, 117, 123] ++ toHex v ++ [125]) a', replaceChar_noop c _ _ hnot]
    exact PyTok.append (PyTok.hex v hv) ih

theorem verboseSpaces_facts : Gen.verboseSpaces.all (fun c => decide (128 ≤ c) && decide (c ≤ 0x10FFFF)) = true := by decide

theorem PyEmit.vsp {a b : Str} (h : PyEmit a b) :
    PyTok (a.flatMap fun c => if Gen.verboseSpaces.contains c then [92, 117, 123] ++ toHex c ++ [125] else [c]) := by
  have hlow : ∀ c, c < 128 → Gen.verboseSpaces.contains c = false := by
    intro c hc
    cases hcon : Gen.verboseSpaces.contains c with
    | false => rfl
    | true =>
      have hm : c ∈ Gen.verboseSpaces := by simpa using hcon
      have := List.all_eq_true.mp verboseSpaces_facts c hm
      simp only [Bool.and_eq_true, decide_eq_true_eq] at this
      omega
  induction h with
  | nil => exact PyTok.nil
  | plain d hd _ ih =>
    simp only [List.flatMap_cons]
    refine PyTok.append ?_ ih
    split
    · rename_i hcon
      have hm : d ∈ Gen.verboseSpaces := by simpa using hcon
      have := List.all_eq_true.mp verboseSpaces_facts d hm
      simp only [Bool.and_eq_true, decide_eq_true_eq] at this
      exact PyTok.hex d this.2
    · exact PyTok.one d hd.1 hd.2
  | esc y hy _ ih =>
    simp only [List.flatMap_cons, hlow 92 (by decide), Bool.false_eq_true, ite_false]
    split
    · rename_i hcon
      have hm : y ∈ Gen.verboseSpaces := by simpa using hcon
      have hf := List.all_eq_true.mp verboseSpaces_facts y hm
      simp only [Bool.and_eq_true, decide_eq_true_eq] at hf
      have h1 : PyTok ([92, 92] : Str) := PyTok.pair 92 (by decide) (by decide) (by decide)
      have h2 : PyTok ([117, 123] ++ toHex y ++ [125] : Str) := by
        apply PyTok.noBs
        · intro hm2
          simp only [List.cons_append, List.nil_append, List.mem_cons, List.mem_append, List.mem_nil_iff, or_false] at hm2
          rcases hm2 with hm2 | hm2 | hm2 | hm2
          · omega
          · omega
          · exact toHex_no_bs y 92 hm2 rfl
          · omega
        · intro hm2
          simp only [List.cons_append, List.nil_append, List.mem_cons, List.mem_append, List.mem_nil_iff, or_false] at hm2
          rcases hm2 with hm2 | hm2 | hm2 | hm2
          · omega
          · omega
          · have := (hexTok_chars y 13 (by simp [hm2])).1; omega
          · omega
      have := PyTok.append (PyTok.append h1 h2) ih
      simpa [List.append_assoc] using this
    · have := PyTok.append (PyTok.pair y hy.1 hy.2.1 hy.2.2) ih
      simpa using this
  | uni v hv _ ih =>
    rename_i a' b' hab
    have e1 : ([92, 117, 123] ++ toHex v ++ 125 :: a' : Str) = ([92, 117, 123] ++ toHex v ++ [125]) ++ a' := by simp
    have hid : ∀ (t : Str), (∀ c ∈ t, c < 128) →
        (t.flatMap fun c => if Gen.verboseSpaces.contains c then [92, 117, 123] ++ toHex c ++ [125] else [c]) = t := by
      intro t
      induction t with
      | nil => intro _; rfl
      | cons c r ihr =>
        intro hall
        simp only [List.flatMap_cons, hlow c (hall c List.mem_cons_self), Bool.false_eq_true, ite_false]
        rw [ihr (fun x hx => hall x (List.mem_cons_of_mem _ hx))]
        rfl
    have hpre : ∀ c ∈ ([92, 117, 123] ++ toHex v ++ [125] : Str), c < 128 := by
      intro c hm
      rcases List.mem_append.mp hm with hm | hm
      · exact (hexTok_chars v c hm).2
      · simp only [List.mem_singleton] at hm; omega
    have e2 := List.flatMap_append (xs := ([92, 117, 123] ++ toHex v ++ [125] : Str)) (ys := a')
      (f := fun c => if Gen.verboseSpaces.contains c then [92, 117, 123] ++ toHex c ++ [125] else [c])
    rw [e1, e2, hid _ hpre]
    exact PyTok.append (PyTok.hex v hv) ih

theorem PyTok.blanks (k : Nat) : PyTok (blanks k) := by
  apply PyTok.noBs
  · intro h; have := List.eq_of_mem_replicate h; omega
  · intro h; have := List.eq_of_mem_replicate h; omega

theorem Ed.prefix_noLF : ∀ (l : Str), 10 ∉ l → ∀ {t v : Str}, Ed (l ++ t) v → ∃ v', v = l ++ v' ∧ Ed t v'
  | [], _, t, v, h => ⟨v, rfl, h⟩
  | c :: r, hl, t, v, h => by
    have hc : c ≠ 10 := by intro e; subst e; simp at hl
    have hr : 10 ∉ r := fun e => hl (List.mem_cons_of_mem _ e)
    cases h with
    | keep _ _ v1 _ h1 =>
      obtain ⟨v', rfl, h2⟩ := Ed.prefix_noLF r hr h1
      exact ⟨v', rfl, h2⟩
    | nl k _ v1 h1 => exact absurd rfl hc
    | drop k _ v1 h1 => exact absurd rfl hc

/-- `indent_regexp` (an edit of white space at line boundaries) keeps the text made of tokens -/
theorem PyEmit.edit {a b : Str} (h : PyEmit a b) : ∀ {v : Str}, Ed a v → PyTok v := by
  induction h with
  | nil => intro v hv; cases hv; exact PyTok.nil
  | plain d hd _ ih =>
    intro v hv
    cases hv with
    | keep _ _ v1 _ h1 => exact PyTok.append (PyTok.one d hd.1 hd.2) (ih h1)
    | nl k _ v1 h1 =>
      have := PyTok.append (PyTok.append (PyTok.one 10 (by decide) (by decide)) (PyTok.blanks k)) (ih h1)
      simpa [List.append_assoc] using this
    | drop k _ v1 h1 => exact PyTok.append (PyTok.blanks k) (ih h1)
  | esc y hy _ ih =>
    intro v hv
    cases hv with
    | keep _ _ v1 _ h1 =>
      cases h1 with
      | keep _ _ v2 _ h2 =>
        have := PyTok.append (PyTok.pair y hy.1 hy.2.1 hy.2.2) (ih h2)
        simpa using this
      | nl k _ v2 h2 => exact absurd rfl hy.2.1
      | drop k _ v2 h2 => exact absurd rfl hy.2.1
  | uni w hw _ ih =>
    rename_i a' b' hab
    intro v hv
    have e1 : ([92, 117, 123] ++ toHex w ++ 125 :: a' : Str) = ([92, 117, 123] ++ toHex w ++ [125]) ++ a' := by simp
    rw [e1] at hv
    have hno : 10 ∉ ([92, 117, 123] ++ toHex w ++ [125] : Str) := by
      intro hm
      rcases List.mem_append.mp hm with hm | hm
      · have := (hexTok_chars w 10 hm).1; omega
      · simp only [List.mem_singleton] at hm; omega
    obtain ⟨v', rfl, h2⟩ := Ed.prefix_noLF _ hno hv
    exact PyTok.append (PyTok.hex w hw) (ih h2)

/-- the text between the flag and the end anchor, before the replacements applied to the whole text -/
def r0Text (cfg : Config) (e : Expr) : Str :=
  (if cfg.ci && cfg.verb then Comp.flagIX cfg.color else if cfg.ci then Comp.flagI cfg.color
      else if cfg.verb then Comp.flagX cfg.color else []) ++
    (if cfg.noStart then [] else Comp.caret cfg.color cfg.verb) ++ bodyText cfg e ++
    (if cfg.noEnd then [] else Comp.dollar cfg.color cfg.verb)

theorem fmtRegExp_r0 (cfg : Config) (e : Expr) :
    fmtRegExp cfg e =
      if cfg.verb then
        indentRegexp cfg (replaceChar 32 [92, 32]
          ((replaceChar 35 [92, 35] (replaceChar 12 [92, 102] (replaceChar 11 [92, 118] (r0Text cfg e)))).flatMap
            fun c => if Gen.verboseSpaces.contains c then [92, 117, 123] ++ toHex c ++ [125] else [c]))
      else replaceChar 12 [92, 102] (replaceChar 11 [92, 118] (r0Text cfg e)) := rfl

/-- **the text `Display for RegExp` writes is made of tokens** — every setting without colours, verbose mode included -/
theorem pyTok_fmtRegExp (cfg : Config) (hcol : cfg.color = false) (e : Expr) (h : e.AtOK) : PyTok (fmtRegExp cfg e) := by
  have hbody : PyTok (bodyText cfg e) := by
    cases e with
    | alt os => simp only [bodyText]; rw [hcol]; exact paren_pyTok cfg.cap cfg.verb false _ (pyTok_fmtExpr cfg hcol _ h)
    | lit c => simp only [bodyText]; exact pyTok_fmtExpr cfg hcol _ h
    | cls cs => simp only [bodyText]; exact pyTok_fmtExpr cfg hcol _ h
    | cat a b => simp only [bodyText]; exact pyTok_fmtExpr cfg hcol _ h
    | rep e q => simp only [bodyText]; exact pyTok_fmtExpr cfg hcol _ h
  have hflag : PyTok (if (cfg.ci && cfg.verb) = true then Comp.flagIX cfg.color else if cfg.ci = true then Comp.flagI cfg.color
      else if cfg.verb = true then Comp.flagX cfg.color else []) := by
    rw [hcol]
    cases cfg.ci <;> cases cfg.verb <;> exact plainB_sound _ (by decide)
  have hcaret : PyTok (if cfg.noStart = true then [] else Comp.caret cfg.color cfg.verb) := by
    rw [hcol]
    cases cfg.noStart <;> cases cfg.verb <;> exact plainB_sound _ (by decide)
  have hdollar : PyTok (if cfg.noEnd = true then [] else Comp.dollar cfg.color cfg.verb) := by
    rw [hcol]
    cases cfg.noEnd <;> cases cfg.verb <;> exact plainB_sound _ (by decide)
  have h0 : PyTok (r0Text cfg e) := PyTok.append (PyTok.append (PyTok.append hflag hcaret) hbody) hdollar
  rw [fmtRegExp_r0]
  generalize r0Text cfg e = t0 at h0 ⊢
  obtain ⟨p0, hp0⟩ := h0
  obtain ⟨p1, hp1⟩ := hp0.replace 11 118 (by decide) (by decide)
  obtain ⟨p2, hp2⟩ := hp1.replace 12 102 (by decide) (by decide)
  split
  · obtain ⟨p3, hp3⟩ := hp2.replace 35 35 (by decide) (by decide)
    obtain ⟨p4, hp4⟩ := hp3.vsp
    obtain ⟨p5, hp5⟩ := hp4.replace 32 32 (by decide) (by decide)
    obtain ⟨k0, V0, hind, hed⟩ := indent_edit cfg _ hp5.nocr
    rw [hind]
    exact PyTok.append (PyTok.blanks k0) (hp5.edit hed)
  · exact ⟨p2, hp2⟩

end Grexv
