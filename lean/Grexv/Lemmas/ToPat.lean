import Grexv.Lemmas.SpecSem
import Grexv.Lemmas.ExprLang
import Grexv.Model.Format

/-
The pattern an expression is printed as (with default presentation settings), as an abstract
`Spec.Pat`, and the proof that this pattern denotes exactly the string-level language of the expression:
the symbol-level words of `Expr.lang` with their graphemes written out.
-/
set_option linter.unusedSimpArgs false
set_option linter.unusedVariables false
namespace Grexv
open Spec

/-- a word written out as a string -/
def flat (w : Word) : Str := w.flatMap Grapheme.value

theorem flat_append (a b : Word) : flat (a ++ b) = flat a ++ flat b := by simp [flat]
theorem flat_nil : flat [] = [] := rfl

/-! ### classes -/

/-- the members `format_character_class` writes for one maximal run -/
def runItems (r : List Nat) : List ClassItem :=
  if r.length ≤ 2 then r.map fun c => ClassItem.range c c else [ClassItem.range (r.headD 0) (r.getLastD 0)]

def classItems (cs : List Nat) : List ClassItem := (runs cs).flatMap runItems

def Scalar (c : Nat) : Prop := c < 0xD800 ∨ (0xE000 ≤ c ∧ c < 0x110000)

theorem scalar_iff (c : Nat) : isScalar c = true ↔ Scalar c := by
  simp [isScalar, Scalar]

theorem pos_lt (a b : Nat) (ha : Scalar a) (hb : Scalar b) : a < b ↔ codepointPosition a < codepointPosition b := by
  unfold codepointPosition Scalar at *
  split <;> split <;> omega

/-- consecutive in `CharRange::all()` -/
def Consec : List Nat → Prop
  | [] => True
  | [_] => True
  | c :: d :: rest => codepointPosition d = codepointPosition c + 1 ∧ Consec (d :: rest)

theorem consec_range (r : List Nat) (hr : r ≠ []) (hc : Consec r) (hs : ∀ c ∈ r, Scalar c) (x : Nat) (hx : Scalar x) :
    (r.headD 0 ≤ x ∧ x ≤ r.getLastD 0) ↔ x ∈ r := by
  induction r generalizing x with
  | nil => exact absurd rfl hr
  | cons c rest ih =>
    cases rest with
    | nil =>
      simp only [List.headD_cons, List.getLastD_cons, List.getLastD_nil, List.mem_singleton]
      omega
    | cons d rest =>
      obtain ⟨h1, h2⟩ := hc
      have ihd := fun y hy => ih (by simp) h2 (fun z hz => hs z (List.mem_cons_of_mem _ hz)) y hy
      simp only [List.headD_cons, List.getLastD_cons] at ihd ⊢
      have hcS := hs c List.mem_cons_self
      have hdS := hs d (List.mem_cons_of_mem _ List.mem_cons_self)
      have hcd : c < d := (pos_lt c d hcS hdS).mpr (by omega)
      constructor
      · rintro ⟨hl, hu⟩
        by_cases hxc : x = c
        · subst hxc; exact List.mem_cons_self
        · have : c < x := by omega
          have := (pos_lt c x hcS hx).mp this
          have hdx : d ≤ x := by
            apply Classical.byContradiction
            intro hn
            have := (pos_lt x d hx hdS).mp (by omega)
            omega
          exact List.mem_cons_of_mem _ ((ihd x hx).mp ⟨hdx, hu⟩)
      · intro hm
        simp only [List.mem_cons] at hm
        rcases hm with rfl | hm
        · refine ⟨Nat.le_refl _, ?_⟩
          have := ((ihd d hdS).mpr (List.mem_cons_self)).2
          omega
        · have := (ihd x hx).mpr (by simpa using hm)
          omega

theorem runs_spec (cs : List Nat) :
    (runs cs).flatten = cs ∧ (∀ r ∈ runs cs, Consec r) ∧ (cs ≠ [] → ∀ r ∈ runs cs, r ≠ []) ∧
      (∀ c rest, cs = c :: rest → ∃ r rs, runs cs = (c :: r) :: rs) := by
  induction cs with
  | nil => simp [runs, Consec]
  | cons c rest ih =>
    cases rest with
    | nil => simp [runs, Consec]
    | cons d rest =>
      obtain ⟨i1, i2, i3, i4⟩ := ih
      obtain ⟨r, rs, hr⟩ := i4 d rest rfl
      simp only [runs, hr]
      have hflat : ((d :: r) :: rs).flatten = d :: rest := by rw [← hr]; exact i1
      split
      · rename_i hc
        refine ⟨?_, ?_, ?_, ?_⟩
        · simp only [List.flatten_cons, List.cons_append] at hflat ⊢
          rw [hflat]
        · intro x hx
          simp only [List.mem_cons] at hx
          rcases hx with rfl | hx
          · exact ⟨hc, i2 (d :: r) (by rw [hr]; exact List.mem_cons_self)⟩
          · exact i2 x (by rw [hr]; exact List.mem_cons_of_mem _ hx)
        · intro _ x hx
          simp only [List.mem_cons] at hx
          rcases hx with rfl | hx
          · simp
          · exact i3 (by simp) x (by rw [hr]; exact List.mem_cons_of_mem _ hx)
        · intro c' rest' h
          simp only [List.cons.injEq] at h
          obtain ⟨rfl, _⟩ := h
          exact ⟨d :: r, rs, rfl⟩
      · refine ⟨?_, ?_, ?_, ?_⟩
        · simp only [List.flatten_cons, List.cons_append, List.nil_append] at hflat ⊢
          rw [hflat]
        · intro x hx
          simp only [List.mem_cons] at hx
          rcases hx with rfl | rfl | hx
          · trivial
          · exact i2 (d :: r) (by rw [hr]; exact List.mem_cons_self)
          · exact i2 x (by rw [hr]; exact List.mem_cons_of_mem _ hx)
        · intro _ x hx
          simp only [List.mem_cons] at hx
          rcases hx with rfl | rfl | hx
          · simp
          · simp
          · exact i3 (by simp) x (by rw [hr]; exact List.mem_cons_of_mem _ hx)
        · intro c' rest' h
          simp only [List.cons.injEq] at h
          obtain ⟨rfl, _⟩ := h
          exact ⟨[], (d :: r) :: rs, rfl⟩

theorem runItems_match (r : List Nat) (hr : r ≠ []) (hc : Consec r) (hs : ∀ c ∈ r, Scalar c) (x : Nat) (hx : Scalar x) :
    (runItems r).any (fun it => itemMatches1 it x) = true ↔ x ∈ r := by
  unfold runItems
  split
  · simp only [List.any_map, List.any_eq_true, Function.comp, itemMatches1, Bool.and_eq_true, decide_eq_true_eq]
    constructor
    · rintro ⟨c, hc, h1, h2⟩
      have : x = c := by omega
      subst this; exact hc
    · intro h; exact ⟨x, h, Nat.le_refl _, Nat.le_refl _⟩
  · simp only [List.any_cons, List.any_nil, Bool.or_false, itemMatches1, Bool.and_eq_true, decide_eq_true_eq]
    exact consec_range r hr hc hs x hx

theorem classItems_any (cs : List Nat) (hne : cs ≠ []) (hs : ∀ c ∈ cs, Scalar c) (x : Nat) (hx : Scalar x) :
    (classItems cs).any (fun it => itemMatches1 it x) = true ↔ x ∈ cs := by
  obtain ⟨h1, h2, h3, _⟩ := runs_spec cs
  have hmem : ∀ r ∈ runs cs, ∀ c ∈ r, c ∈ cs := by
    intro r hr c hc
    rw [← h1]; exact List.mem_flatten.mpr ⟨r, hr, hc⟩
  simp only [classItems, List.any_flatMap, List.any_eq_true]
  constructor
  · rintro ⟨r, hr, h⟩
    have := (runItems_match r (h3 hne r hr) (h2 r hr) (fun c hc => hs c (hmem r hr c hc)) x hx).mp
      (by simpa [List.any_eq_true] using h)
    exact hmem r hr x this
  · intro hxm
    rw [← h1] at hxm
    obtain ⟨r, hr, hxr⟩ := List.mem_flatten.mp hxm
    refine ⟨r, hr, ?_⟩
    have := (runItems_match r (h3 hne r hr) (h2 r hr) (fun c hc => hs c (hmem r hr c hc)) x hx).mpr hxr
    simpa [List.any_eq_true] using this

theorem classItems_range (cs : List Nat) : ∀ it ∈ classItems cs, ∃ lo hi, it = ClassItem.range lo hi := by
  intro it hit
  simp only [classItems, List.mem_flatMap] at hit
  obtain ⟨r, _, hr⟩ := hit
  unfold runItems at hr
  split at hr
  · obtain ⟨c, _, rfl⟩ := List.mem_map.mp hr; exact ⟨c, c, rfl⟩
  · simp only [List.mem_singleton] at hr; exact ⟨_, _, hr⟩

/-- every member of a simple-case-folding orbit in the generated table is a scalar value -/
theorem fold_table_scalar : Gen.rxFold.all (fun r => r.2.all isScalar) = true := by decide +kernel

theorem foldOthers_scalar (x y : Nat) (h : y ∈ foldOthers x) : Scalar y := by
  unfold foldOthers at h
  split at h
  · rename_i r hr
    have hm := List.mem_of_find?_eq_some hr
    have := List.all_eq_true.mp fold_table_scalar r hm
    exact (scalar_iff y).mp (List.all_eq_true.mp this y h)
  · simp at h

theorem chrMatches_iff (i : Bool) (c x : Nat) : chrMatches i c x = true ↔ (x = c ∨ (i = true ∧ c ∈ foldOthers x)) := by
  simp [chrMatches]

/-- **a printed class matches exactly its members** (on scalar values), under `(?i)` up to simple case folding -/
theorem classItems_match (i : Bool) (cs : List Nat) (hne : cs ≠ []) (hs : ∀ c ∈ cs, Scalar c) (x : Nat) (hx : Scalar x) :
    setMatches i (classItems cs) false x = true ↔ ∃ c ∈ cs, chrMatches i c x = true := by
  simp only [setMatches, bne_iff_ne, ne_eq, Bool.not_eq_false, List.any_eq_true, chrMatches_iff]
  constructor
  · rintro ⟨it, hit, h⟩
    obtain ⟨lo, hi, rfl⟩ := classItems_range cs it hit
    simp only [itemMatches, Bool.or_eq_true, Bool.and_eq_true, List.any_eq_true] at h
    rcases h with h | ⟨hi', y, hy, h⟩
    · exact ⟨x, (classItems_any cs hne hs x hx).mp (List.any_eq_true.mpr ⟨_, hit, h⟩), Or.inl rfl⟩
    · exact ⟨y, (classItems_any cs hne hs y (foldOthers_scalar x y hy)).mp (List.any_eq_true.mpr ⟨_, hit, h⟩),
        Or.inr ⟨hi', hy⟩⟩
  · rintro ⟨c, hc, rfl | ⟨hi', hy⟩⟩
    · obtain ⟨it, hit, h⟩ := List.any_eq_true.mp ((classItems_any cs hne hs x hx).mpr hc)
      exact ⟨it, hit, by simp [itemMatches, h]⟩
    · obtain ⟨it, hit, h⟩ := List.any_eq_true.mp ((classItems_any cs hne hs c (hs c hc)).mpr hc)
      obtain ⟨lo, hi, rfl⟩ := classItems_range cs it hit
      refine ⟨_, hit, ?_⟩
      simp only [itemMatches, Bool.or_eq_true, Bool.and_eq_true, List.any_eq_true]
      exact Or.inr ⟨hi', c, hy, h⟩

theorem value_ofStr (s : Str) : (Grapheme.ofStr s).value = s := by
  show [s].flatten = s
  simp

/-! ### atoms: what one position of a grapheme's text stands for -/

/-- a code point, or a shorthand class written by `convert_to_char_classes` -/
inductive Atom where
  | chr (c : Nat)
  | cls (k : ClassKind) (neg : Bool)
deriving DecidableEq, Repr

def classLetter (L : Nat) : Option (ClassKind × Bool) :=
  if L = 100 then some (.digit, false) else if L = 68 then some (.digit, true)
  else if L = 115 then some (.space, false) else if L = 83 then some (.space, true)
  else if L = 119 then some (.word, false) else if L = 87 then some (.word, true) else none

def letterOf : ClassKind → Bool → Nat
  | .digit, false => 100 | .digit, true => 68
  | .space, false => 115 | .space, true => 83
  | .word, false => 119 | .word, true => 87

theorem classLetter_letterOf (k : ClassKind) (n : Bool) : classLetter (letterOf k n) = some (k, n) := by
  cases k <;> cases n <;> rfl

/-- reading a grapheme's text: a backslash followed by a class letter is a class, everything else a code point
(`pending`: the previous character was a backslash that has not been emitted yet) -/
def tokensAux : Bool → Str → List Atom
  | false, [] => []
  | true, [] => [Atom.chr 92]
  | false, c :: r => if c = 92 then tokensAux true r else Atom.chr c :: tokensAux false r
  | true, c :: r =>
    match classLetter c with
    | some (k, n) => Atom.cls k n :: tokensAux false r
    | none => Atom.chr 92 :: (if c = 92 then tokensAux true r else Atom.chr c :: tokensAux false r)

def tokens (s : Str) : List Atom := tokensAux false s

def untok : List Atom → Str
  | [] => []
  | .chr c :: r => c :: untok r
  | .cls k n :: r => 92 :: letterOf k n :: untok r

def AtomOK : Atom → Prop
  | .chr c => c ≠ 92 ∧ Scalar c
  | .cls _ _ => True

/-- the atoms of one grapheme: a lone backslash, or code points other than the backslash and classes -/
def AtomsOK (as : List Atom) : Prop := as = [Atom.chr 92] ∨ ∀ a ∈ as, AtomOK a

theorem tokensAux_untok_ok : ∀ (as : List Atom), (∀ a ∈ as, AtomOK a) → tokensAux false (untok as) = as
  | [], _ => rfl
  | .chr c :: r, h => by
    have hc : c ≠ 92 := (h _ List.mem_cons_self).1
    simp only [untok, tokensAux, hc, ite_false]
    rw [tokensAux_untok_ok r (fun a ha => h a (List.mem_cons_of_mem _ ha))]
  | .cls k n :: r, h => by
    simp only [untok, tokensAux, ite_true, classLetter_letterOf]
    rw [tokensAux_untok_ok r (fun a ha => h a (List.mem_cons_of_mem _ ha))]

theorem tokens_untok (as : List Atom) (h : AtomsOK as) : tokens (untok as) = as := by
  rcases h with rfl | h
  · simp [tokens, untok, tokensAux]
  · exact tokensAux_untok_ok as h

theorem tokens_single (c : Nat) : tokens [c] = [Atom.chr c] := by
  by_cases h : c = 92
  · subst h; simp [tokens, tokensAux]
  · simp [tokens, tokensAux, h]

theorem untok_ne_nil (as : List Atom) (h : as ≠ []) : untok as ≠ [] := by
  cases as with
  | nil => exact absurd rfl h
  | cons a r => cases a <;> simp [untok]

def atomPat : Atom → Pat
  | .chr c => Pat.chr c
  | .cls k n => Pat.perl k n

def atomDen (i : Bool) : Atom → Nat → Prop
  | .chr c, x => chrMatches i c x = true
  | .cls k n, x => (perlMember k x != n) = true

/-- a string matches a sequence of atoms position by position -/
def atomsDen (i : Bool) : List Atom → Str → Prop
  | [], s => s = []
  | a :: as, s => ∃ x r, s = x :: r ∧ atomDen i a x ∧ atomsDen i as r

theorem atomsDen_append (i : Bool) (a b : List Atom) (s : Str) :
    atomsDen i (a ++ b) s ↔ ∃ u v, s = u ++ v ∧ atomsDen i a u ∧ atomsDen i b v := by
  induction a generalizing s with
  | nil =>
    simp only [List.nil_append, atomsDen]
    constructor
    · intro h; exact ⟨[], s, rfl, rfl, h⟩
    · rintro ⟨u, v, rfl, rfl, h⟩; simpa using h
  | cons x xs ih =>
    simp only [List.cons_append, atomsDen]
    constructor
    · rintro ⟨c, r, rfl, hc, hr⟩
      obtain ⟨u, v, rfl, hu, hv⟩ := (ih r).mp hr
      exact ⟨c :: u, v, rfl, ⟨c, u, rfl, hc, hu⟩, hv⟩
    · rintro ⟨u, v, rfl, ⟨c, r, rfl, hc, hr⟩, hv⟩
      exact ⟨c, r ++ v, rfl, hc, (ih _).mpr ⟨r, v, rfl, hr, hv⟩⟩

/-- the atoms of a word -/
def atomsOf (w : Word) : List Atom := w.flatMap fun g => tokens g.value

theorem atomsOf_append (a b : Word) : atomsOf (a ++ b) = atomsOf a ++ atomsOf b := by simp [atomsOf]
theorem atomsOf_nil : atomsOf [] = [] := rfl

/-- the string-level language of an expression: the symbol-level words with every grapheme read atom by atom -/
def Expr.strLang (i : Bool) (e : Expr) (s : Str) : Prop := ∃ w, e.lang w ∧ atomsDen i (atomsOf w) s


/-! ### the printed pattern of an expression -/

/-- the settings under which the printed text is the plain regex: no colours, not verbose, no surrogate pairs (with or without `\u{..}` escapes) -/
def cfgPlain (cap esc : Bool) : Config := { cap := cap, esc := esc }

/-- a sub-expression in a context of precedence `outer`: grouped when weaker (mirrors `fmtSub`) -/
def subOf (cap esc : Bool) (outer : Nat) (e : Expr) (its : List Pat) (bd : Pat) : List Pat :=
  if e.precedence < outer && !e.isSingleCodepoint (cfgPlain cap esc) then [Pat.grp cap bd] else its

def optOf : List Pat → List Pat
  | [p] => [Pat.rep p 0 (some 1) true]
  | l => l

mutual
/-- (the items the text of `e` contributes to the enclosing concatenation, the body of a group around `e`) -/
def Expr.both (cap esc : Bool) : Expr → List Pat × Pat
  | .lit c => let its := (atomsOf c).map atomPat; (its, catList its)
  | .cls cs => let its := [Pat.set (classItems cs) false]; (its, catList its)
  | .cat a b =>
    let ra := Expr.both cap esc a
    let rb := Expr.both cap esc b
    let its := subOf cap esc 2 a ra.1 ra.2 ++ subOf cap esc 2 b rb.1 rb.2
    (its, catList its)
  | .rep e _ =>
    let r := Expr.both cap esc e
    let its := optOf (subOf cap esc 3 e r.1 r.2)
    (its, catList its)
  | .alt os => ([], altList (Expr.bothL cap esc os))
def Expr.bothL (cap esc : Bool) : List Expr → List Pat
  | [] => []
  | o :: os => catList (Expr.both cap esc o).1 :: Expr.bothL cap esc os
end

def Expr.isAlt : Expr → Bool
  | .alt _ => true
  | _ => false

def Expr.isRep : Expr → Bool
  | .rep _ _ => true
  | _ => false

/-- every grapheme of the cluster is `Grapheme::from(s)` where `s` spells a non-empty sequence of atoms: scalar values
(a backslash only as a grapheme of its own — what `GraphemeCluster::from` guarantees) and shorthand-class tokens -/
def PlainBs (c : Cluster) : Prop := ∀ g ∈ c, ∃ as, as ≠ [] ∧ AtomsOK as ∧ g = Grapheme.ofStr (untok as)

mutual
/-- shapes the elimination produces: non-empty flat alternations, non-empty ascending scalar classes, plain
literals, only `?`, never directly on a `?` -/
def Expr.WF : Expr → Prop
  | .alt os => os ≠ [] ∧ Expr.WFL os
  | .cls cs => cs ≠ [] ∧ (∀ c ∈ cs, Scalar c) ∧ cs.Pairwise (· < ·)
  | .cat a b => Expr.WF a ∧ Expr.WF b
  | .lit c => PlainBs c
  | .rep e q => q = .question ∧ e.isRep = false ∧ Expr.WF e
def Expr.WFL : List Expr → Prop
  | [] => True
  | o :: os => o.isAlt = false ∧ Expr.WF o ∧ Expr.WFL os
end

/-! ### denotation of item lists -/

def denL (i : Bool) : List Pat → Str → Prop
  | [], s => s = []
  | p :: ps, s => ∃ u v, s = u ++ v ∧ p.den i u ∧ denL i ps v

theorem den_catList (i : Bool) (ps : List Pat) (s : Str) : (catList ps).den i s ↔ denL i ps s := by
  induction ps generalizing s with
  | nil => simp [catList, Pat.den, denL]
  | cons p ps ih =>
    cases ps with
    | nil =>
      simp only [catList, denL]
      constructor
      · intro h; exact ⟨s, [], by simp, h, rfl⟩
      · rintro ⟨u, v, rfl, h, rfl⟩; simpa using h
    | cons q qs =>
      simp only [catList, Pat.den]
      constructor
      · rintro ⟨u, v, rfl, h1, h2⟩; exact ⟨u, v, rfl, h1, (ih v).mp h2⟩
      · rintro ⟨u, v, rfl, h1, h2⟩; exact ⟨u, v, rfl, h1, (ih v).mpr h2⟩

theorem denL_append (i : Bool) (a b : List Pat) (s : Str) : denL i (a ++ b) s ↔ ∃ u v, s = u ++ v ∧ denL i a u ∧ denL i b v := by
  induction a generalizing s with
  | nil =>
    simp only [List.nil_append, denL]
    constructor
    · intro h; exact ⟨[], s, rfl, rfl, h⟩
    · rintro ⟨u, v, rfl, rfl, h⟩; simpa using h
  | cons p ps ih =>
    simp only [List.cons_append, denL]
    constructor
    · rintro ⟨u, v, rfl, h1, h2⟩
      obtain ⟨u2, v2, rfl, h3, h4⟩ := (ih v).mp h2
      exact ⟨u ++ u2, v2, by simp, ⟨u, u2, rfl, h1, h3⟩, h4⟩
    · rintro ⟨u, v, rfl, ⟨u1, u2, rfl, h1, h2⟩, h3⟩
      exact ⟨u1, u2 ++ v, by simp, h1, (ih _).mpr ⟨u2, v, rfl, h2, h3⟩⟩

theorem den_altList (i : Bool) (ps : List Pat) (hne : ps ≠ []) (s : Str) : (altList ps).den i s ↔ ∃ p ∈ ps, p.den i s := by
  induction ps with
  | nil => exact absurd rfl hne
  | cons p ps ih =>
    cases ps with
    | nil => simp [altList]
    | cons q qs =>
      simp only [altList, Pat.den]
      rw [ih (by simp)]
      simp

theorem chrMatches_false (c x : Nat) : chrMatches false c x = true ↔ x = c := by simp [chrMatches]

theorem den_atomPat (i : Bool) (a : Atom) (u : Str) : (atomPat a).den i u ↔ ∃ x, u = [x] ∧ atomDen i a x := by
  cases a with
  | chr c => simp [atomPat, Pat.den, atomDen, chrMatches_false]
  | cls k n => simp [atomPat, Pat.den, atomDen]

theorem denL_atoms (i : Bool) (as : List Atom) (s : Str) : denL i (as.map atomPat) s ↔ atomsDen i as s := by
  induction as generalizing s with
  | nil => simp [denL, atomsDen]
  | cons a as ih =>
    simp only [List.map_cons, denL, atomsDen, den_atomPat]
    constructor
    · rintro ⟨u, v, rfl, ⟨x, rfl, hx⟩, h⟩
      exact ⟨x, v, rfl, hx, (ih v).mp h⟩
    · rintro ⟨x, r, rfl, hx, h⟩
      exact ⟨[x], r, rfl, ⟨x, rfl, hx⟩, (ih r).mpr h⟩

/-! ### string language, constructor by constructor -/

namespace Expr

theorem strLang_lit (i : Bool) (c : Cluster) (s : Str) : (Expr.lit c).strLang i s ↔ atomsDen i (atomsOf c) s := by
  simp only [strLang, lang]
  constructor
  · rintro ⟨w, rfl, h⟩; exact h
  · intro h; exact ⟨c, rfl, h⟩

theorem atomsDen_single (i : Bool) (c : Nat) (s : Str) : atomsDen i [Atom.chr c] s ↔ ∃ x, s = [x] ∧ chrMatches i c x = true := by
  simp only [atomsDen, atomDen]
  constructor
  · rintro ⟨x, r, rfl, h, rfl⟩; exact ⟨x, rfl, h⟩
  · rintro ⟨x, rfl, h⟩; exact ⟨x, [], rfl, h, rfl⟩

theorem strLang_cls (i : Bool) (cs : List Nat) (s : Str) : (Expr.cls cs).strLang i s ↔ ∃ c ∈ cs, ∃ x, s = [x] ∧ chrMatches i c x = true := by
  simp only [strLang, lang]
  constructor
  · rintro ⟨w, ⟨c, hc, rfl⟩, h⟩
    refine ⟨c, hc, ?_⟩
    simpa [atomsOf, value_ofStr, tokens_single, atomsDen_single] using h
  · rintro ⟨c, hc, h⟩
    exact ⟨_, ⟨c, hc, rfl⟩, by simpa [atomsOf, value_ofStr, tokens_single, atomsDen_single] using h⟩

theorem strLang_cat (i : Bool) (a b : Expr) (s : Str) : (Expr.cat a b).strLang i s ↔ ∃ u v, s = u ++ v ∧ a.strLang i u ∧ b.strLang i v := by
  simp only [strLang, lang]
  constructor
  · rintro ⟨w, ⟨u, v, rfl, h1, h2⟩, h⟩
    rw [atomsOf_append, atomsDen_append] at h
    obtain ⟨s1, s2, rfl, d1, d2⟩ := h
    exact ⟨s1, s2, rfl, ⟨u, h1, d1⟩, ⟨v, h2, d2⟩⟩
  · rintro ⟨s1, s2, rfl, ⟨u, h1, d1⟩, ⟨v, h2, d2⟩⟩
    exact ⟨u ++ v, ⟨u, v, rfl, h1, h2⟩, by rw [atomsOf_append, atomsDen_append]; exact ⟨s1, s2, rfl, d1, d2⟩⟩

theorem strLang_opt (i : Bool) (e : Expr) (s : Str) : (Expr.rep e .question).strLang i s ↔ s = [] ∨ e.strLang i s := by
  simp only [strLang, lang]
  constructor
  · rintro ⟨w, rfl | h, d⟩
    · left; simpa [atomsOf, atomsDen] using d
    · exact Or.inr ⟨w, h, d⟩
  · rintro (rfl | ⟨w, h, d⟩)
    · exact ⟨[], Or.inl rfl, by simp [atomsOf, atomsDen]⟩
    · exact ⟨w, Or.inr h, d⟩

theorem strLang_alt (i : Bool) (os : List Expr) (s : Str) : (Expr.alt os).strLang i s ↔ ∃ o ∈ os, o.strLang i s := by
  simp only [strLang, lang, langAny_iff]
  constructor
  · rintro ⟨w, ⟨o, ho, h⟩, d⟩; exact ⟨o, ho, w, h, d⟩
  · rintro ⟨o, ho, w, h, d⟩; exact ⟨w, ⟨o, ho, h⟩, d⟩

theorem charCount_flat (c : Cluster) : clusterCharCount c false = (flat c).length := by
  have hg : ∀ g : Grapheme, graphemeCharCount g false = g.value.length := by
    intro g
    simp only [graphemeCharCount, Bool.false_eq_true, ite_false, Grapheme.value, List.length_flatten]
  simp only [clusterCharCount, flat, List.length_flatMap]
  congr 1
  exact List.map_congr_left (fun g _ => hg g)

end Expr

theorem untok_length_pos (as : List Atom) (h : as ≠ []) : 1 ≤ (untok as).length := by
  cases as with
  | nil => exact absurd rfl h
  | cons a r => cases a <;> simp [untok]

/-- a literal that counts as a single code point is one grapheme of one code point -/
theorem single_literal (c : Cluster) (h : PlainBs c) (hlen : (flat c).length = 1) :
    ∃ x, c = [Grapheme.ofStr [x]] ∧ atomsOf c = [Atom.chr x] ∧ Scalar x := by
  cases c with
  | nil => simp [flat] at hlen
  | cons g gs =>
    obtain ⟨as, hne, hok, rfl⟩ := h _ List.mem_cons_self
    have h1 := untok_length_pos as hne
    simp only [flat, List.flatMap_cons, value_ofStr, List.length_append] at hlen
    cases gs with
    | cons g2 gs2 =>
      obtain ⟨as2, hne2, _, rfl⟩ := h _ (List.mem_cons_of_mem _ List.mem_cons_self)
      have := untok_length_pos as2 hne2
      simp only [List.flatMap_cons, value_ofStr, List.length_append] at hlen
      omega
    | nil =>
      simp only [List.flatMap_nil, List.length_nil, Nat.add_zero] at hlen
      match as, hne, hlen with
      | [Atom.chr x], _, _ =>
        refine ⟨x, rfl, by simp [atomsOf, value_ofStr, untok, tokens_single], ?_⟩
        rcases hok with h92 | hall
        · simp only [List.cons.injEq, Atom.chr.injEq, and_true] at h92
          subst h92; unfold Scalar; omega
        · exact (hall _ List.mem_cons_self).2
      | Atom.chr x :: a2 :: r, _, hl =>
        have := untok_length_pos (a2 :: r) (by simp)
        simp only [untok, List.length_cons] at hl this
        omega
      | Atom.cls k n :: r, _, hl => simp [untok] at hl

theorem escapeChar_len (x : Nat) : 1 ≤ (Expr.escapeChar x false).length := by
  unfold Expr.escapeChar
  split
  · simp
  · simp

theorem escaped_len_one : ∀ (s : Str), (s.flatMap fun c => Expr.escapeChar c false).length = 1 → s.length = 1
  | [], h => by simp at h
  | x :: r, h => by
    have h1 := escapeChar_len x
    simp only [List.flatMap_cons, List.length_append] at h
    have h0 : (r.flatMap fun c => Expr.escapeChar c false).length = 0 := by omega
    cases r with
    | nil => rfl
    | cons y t =>
      have := escapeChar_len y
      simp only [List.flatMap_cons, List.length_append] at h0
      omega

theorem charCount_esc (c : Cluster) (h : PlainBs c) :
    Expr.clusterCharCount c true = ((flat c).flatMap fun x => Expr.escapeChar x false).length := by
  induction c with
  | nil => rfl
  | cons g gs ih =>
    obtain ⟨as, _, _, rfl⟩ := h g List.mem_cons_self
    have := ih (fun x hx => h x (List.mem_cons_of_mem _ hx))
    simp only [Expr.clusterCharCount, List.map_cons, List.sum_cons, flat, List.flatMap_cons, List.flatMap_append,
      List.length_append, value_ofStr] at this ⊢
    rw [this]
    simp [Expr.graphemeCharCount, Grapheme.ofStr, Grapheme.chars]

/-- a literal that counts as a single code point under the settings `cfgPlain cap esc` -/
theorem single_literal_cfg (cap esc : Bool) (c : Cluster) (h : PlainBs c)
    (hsc : (Expr.lit c).isSingleCodepoint (cfgPlain cap esc) = true) :
    ∃ x, c = [Grapheme.ofStr [x]] ∧ atomsOf c = [Atom.chr x] ∧ Scalar x := by
  simp only [Expr.isSingleCodepoint, cfgPlain, Bool.and_eq_true, beq_iff_eq] at hsc
  apply single_literal c h
  cases esc with
  | false => rw [← Expr.charCount_flat]; exact hsc.1
  | true =>
    have := hsc.1
    rw [charCount_esc c h] at this
    exact escaped_len_one _ this

/-- a single-code-point expression contributes exactly one item, and grouping is transparent -/
theorem denL_subOf (i : Bool) (cap esc : Bool) (outer : Nat) (e : Expr) (its : List Pat) (bd : Pat) (s : Str)
    (h1 : e.isAlt = false → (denL i its s ↔ e.strLang i s)) (h2 : bd.den i s ↔ e.strLang i s)
    (halt : e.isAlt = true → outer ≥ 2) :
    denL i (subOf cap esc outer e its bd) s ↔ e.strLang i s := by
  unfold subOf
  split
  · simp only [denL, Pat.den]
    constructor
    · rintro ⟨u, v, rfl, h, rfl⟩; simpa using h2.mp (by simpa using h)
    · intro h; exact ⟨s, [], by simp, h2.mpr h, rfl⟩
  · rename_i hc
    apply h1
    cases e with
    | alt os =>
      have := halt rfl
      simp only [Expr.precedence, Expr.isSingleCodepoint, Bool.not_false, Bool.and_true, decide_eq_true_eq] at hc
      have : ¬ (1 < outer) := fun h' => hc (decide_eq_true h')
      omega
    | _ => rfl

mutual
/-- **the printed pattern denotes the string-level language** -/
theorem Expr.both_den (i : Bool) (cap esc : Bool) : ∀ (e : Expr), e.WF → ∀ s, (∀ c ∈ s, Scalar c) →
    (e.isAlt = false → (denL i (e.both cap esc).1 s ↔ e.strLang i s)) ∧ ((e.both cap esc).2.den i s ↔ e.strLang i s)
  | .lit c, _, s, _ => by
    simp [Expr.both, den_catList, denL_atoms, Expr.strLang_lit]
  | .cls cs, h, s, hs => by
    have key : denL i [Pat.set (classItems cs) false] s ↔ (Expr.cls cs).strLang i s := by
      rw [Expr.strLang_cls]
      simp only [denL, Pat.den]
      constructor
      · rintro ⟨u, v, rfl, ⟨x, rfl, hx⟩, rfl⟩
        have hxs : Scalar x := hs x (by simp)
        obtain ⟨c, hc, hm⟩ := (classItems_match i cs h.1 h.2.1 x hxs).mp hx
        exact ⟨c, hc, x, by simp, hm⟩
      · rintro ⟨c, hc, x, rfl, hm⟩
        exact ⟨[x], [], rfl, ⟨x, rfl, (classItems_match i cs h.1 h.2.1 x (hs x (by simp))).mpr ⟨c, hc, hm⟩⟩, rfl⟩
    simp only [Expr.both, den_catList]
    exact ⟨fun _ => key, key⟩
  | .cat a b, h, s, hs => by
    have key : denL i (subOf cap esc 2 a (a.both cap esc).1 (a.both cap esc).2 ++ subOf cap esc 2 b (b.both cap esc).1 (b.both cap esc).2) s ↔
        (Expr.cat a b).strLang i s := by
      rw [denL_append, Expr.strLang_cat]
      constructor
      · rintro ⟨u, v, rfl, h1, h2⟩
        have hu : ∀ c ∈ u, Scalar c := fun c hc => hs c (by simp [hc])
        have hv : ∀ c ∈ v, Scalar c := fun c hc => hs c (by simp [hc])
        have ia := Expr.both_den i cap esc a h.1 u hu
        have ib := Expr.both_den i cap esc b h.2 v hv
        exact ⟨u, v, rfl, (denL_subOf i cap esc 2 a _ _ u ia.1 ia.2 (fun _ => Nat.le_refl _)).mp h1,
          (denL_subOf i cap esc 2 b _ _ v ib.1 ib.2 (fun _ => Nat.le_refl _)).mp h2⟩
      · rintro ⟨u, v, rfl, h1, h2⟩
        have hu : ∀ c ∈ u, Scalar c := fun c hc => hs c (by simp [hc])
        have hv : ∀ c ∈ v, Scalar c := fun c hc => hs c (by simp [hc])
        have ia := Expr.both_den i cap esc a h.1 u hu
        have ib := Expr.both_den i cap esc b h.2 v hv
        exact ⟨u, v, rfl, (denL_subOf i cap esc 2 a _ _ u ia.1 ia.2 (fun _ => Nat.le_refl _)).mpr h1,
          (denL_subOf i cap esc 2 b _ _ v ib.1 ib.2 (fun _ => Nat.le_refl _)).mpr h2⟩
    simp only [Expr.both, den_catList]
    exact ⟨fun _ => key, key⟩
  | .rep e q, h, s, hs => by
    obtain ⟨rfl, hnr, hwf⟩ := h
    -- the operand contributes exactly one item
    have hsingle : ∃ p, subOf cap esc 3 e (e.both cap esc).1 (e.both cap esc).2 = [p] := by
      unfold subOf
      split
      · exact ⟨_, rfl⟩
      · rename_i hc
        cases e with
        | alt os => simp [Expr.precedence, Expr.isSingleCodepoint] at hc
        | cls cs => exact ⟨Pat.set (classItems cs) false, by simp [Expr.both]⟩
        | cat a b => simp [Expr.precedence, Expr.isSingleCodepoint] at hc
        | rep e q => simp [Expr.isRep] at hnr
        | lit c =>
          have hsc : (Expr.lit c).isSingleCodepoint (cfgPlain cap esc) = true := by
            cases hh : (Expr.lit c).isSingleCodepoint (cfgPlain cap esc) with
            | true => rfl
            | false => simp [Expr.precedence, hh] at hc
          obtain ⟨x, _, hat, _⟩ := single_literal_cfg cap esc c hwf hsc
          exact ⟨Pat.chr x, by simp [Expr.both, hat, atomPat]⟩
    obtain ⟨p, hp⟩ := hsingle
    have key : denL i (optOf (subOf cap esc 3 e (e.both cap esc).1 (e.both cap esc).2)) s ↔ (Expr.rep e .question).strLang i s := by
      rw [hp, Expr.strLang_opt]
      simp only [optOf, denL, Pat.den]
      have ie := Expr.both_den i cap esc e hwf s hs
      have hsub := denL_subOf i cap esc 3 e _ _ s ie.1 ie.2 (fun _ => by omega)
      rw [hp] at hsub
      simp only [denL] at hsub
      constructor
      · rintro ⟨u, v, rfl, h | h, rfl⟩
        · left; simp [h]
        · right; exact hsub.mp ⟨u, [], rfl, h, rfl⟩
      · rintro (rfl | h)
        · exact ⟨[], [], rfl, Or.inl rfl, rfl⟩
        · obtain ⟨u, v, hs', hu, rfl⟩ := hsub.mpr h
          exact ⟨u, [], hs', Or.inr hu, rfl⟩
    simp only [Expr.both, den_catList]
    exact ⟨fun _ => key, key⟩
  | .alt os, h, s, hs => by
    refine ⟨fun hc => by simp [Expr.isAlt] at hc, ?_⟩
    simp only [Expr.both]
    have hne : Expr.bothL cap esc os ≠ [] := by
      cases os with
      | nil => exact absurd rfl h.1
      | cons o os => simp [Expr.bothL]
    rw [den_altList i _ hne, Expr.strLang_alt]
    exact Expr.bothL_den i cap esc os h.2 s hs
theorem Expr.bothL_den (i : Bool) (cap esc : Bool) : ∀ (os : List Expr), Expr.WFL os → ∀ s, (∀ c ∈ s, Scalar c) →
    ((∃ p ∈ Expr.bothL cap esc os, p.den i s) ↔ ∃ o ∈ os, o.strLang i s)
  | [], _, s, _ => by simp [Expr.bothL]
  | o :: os, h, s, hs => by
    have io := Expr.both_den i cap esc o h.2.1 s hs
    have ios := Expr.bothL_den i cap esc os h.2.2 s hs
    simp only [Expr.bothL, List.mem_cons, exists_eq_or_imp, den_catList]
    rw [io.1 h.1, ios]
end

/-! ### the printed pattern lies in the fragment the matcher semantics covers -/

theorem frag_catList (ps : List Pat) (h : ∀ p ∈ ps, p.Frag) : (catList ps).Frag := by
  induction ps with
  | nil => trivial
  | cons p ps ih =>
    cases ps with
    | nil => exact h p List.mem_cons_self
    | cons q qs =>
      exact ⟨h p List.mem_cons_self, ih (fun x hx => h x (List.mem_cons_of_mem _ hx))⟩

theorem frag_altList (ps : List Pat) (h : ∀ p ∈ ps, p.Frag) : (altList ps).Frag := by
  induction ps with
  | nil => trivial
  | cons p ps ih =>
    cases ps with
    | nil => exact h p List.mem_cons_self
    | cons q qs =>
      exact ⟨h p List.mem_cons_self, ih (fun x hx => h x (List.mem_cons_of_mem _ hx))⟩

theorem frag_subOf (cap esc : Bool) (outer : Nat) (e : Expr) (its : List Pat) (bd : Pat)
    (h1 : ∀ p ∈ its, p.Frag) (h2 : bd.Frag) : ∀ p ∈ subOf cap esc outer e its bd, p.Frag := by
  unfold subOf
  split
  · intro p hp; simp only [List.mem_singleton] at hp; subst hp; exact h2
  · exact h1

theorem frag_optOf (l : List Pat) (h : ∀ p ∈ l, p.Frag) : ∀ p ∈ optOf l, p.Frag := by
  unfold optOf
  split
  · rename_i p
    intro q hq
    simp only [List.mem_singleton] at hq
    subst hq
    exact ⟨rfl, rfl, h p (by simp)⟩
  · exact h

mutual
theorem Expr.both_frag (cap esc : Bool) : ∀ (e : Expr), (∀ p ∈ (e.both cap esc).1, p.Frag) ∧ (e.both cap esc).2.Frag
  | .lit c => by
    have h : ∀ p ∈ (atomsOf c).map atomPat, p.Frag := by
      intro p hp; obtain ⟨x, _, rfl⟩ := List.mem_map.mp hp; cases x <;> trivial
    simp only [Expr.both]
    exact ⟨h, frag_catList _ h⟩
  | .cls cs => by
    have h : ∀ p ∈ [Pat.set (classItems cs) false], p.Frag := by
      intro p hp; simp only [List.mem_singleton] at hp; subst hp; trivial
    simp only [Expr.both]
    exact ⟨h, frag_catList _ h⟩
  | .cat a b => by
    have ia := Expr.both_frag cap esc a
    have ib := Expr.both_frag cap esc b
    have h : ∀ p ∈ subOf cap esc 2 a (a.both cap esc).1 (a.both cap esc).2 ++ subOf cap esc 2 b (b.both cap esc).1 (b.both cap esc).2, p.Frag := by
      intro p hp
      simp only [List.mem_append] at hp
      rcases hp with hp | hp
      · exact frag_subOf cap esc 2 a _ _ ia.1 ia.2 p hp
      · exact frag_subOf cap esc 2 b _ _ ib.1 ib.2 p hp
    simp only [Expr.both]
    exact ⟨h, frag_catList _ h⟩
  | .rep e q => by
    have ie := Expr.both_frag cap esc e
    have h := frag_optOf _ (frag_subOf cap esc 3 e _ _ ie.1 ie.2)
    simp only [Expr.both]
    exact ⟨h, frag_catList _ h⟩
  | .alt os => by
    simp only [Expr.both]
    exact ⟨by simp, frag_altList _ (Expr.bothL_frag cap esc os)⟩
theorem Expr.bothL_frag (cap esc : Bool) : ∀ (os : List Expr), ∀ p ∈ Expr.bothL cap esc os, p.Frag
  | [] => by simp [Expr.bothL]
  | o :: os => by
    intro p hp
    simp only [Expr.bothL, List.mem_cons] at hp
    rcases hp with rfl | hp
    · exact frag_catList _ (Expr.both_frag cap esc o).1
    · exact Expr.bothL_frag cap esc os p hp
end

/-- **string-level semantics of the printed pattern** `^ body $` accepts exactly the strings of the expression -/
theorem anchored_body_accepts (i : Bool) (cap esc : Bool) (e : Expr) (hwf : e.WF) (s : Str) (hs : ∀ c ∈ s, Scalar c) :
    fullMatch i (.cat .bol (.cat (e.both cap esc).2 .eol)) s = true ↔ e.strLang i s := by
  rw [anchored_fullMatch i _ (Expr.both_frag cap esc e).2 s]
  exact (Expr.both_den i cap esc e hwf s hs).2

end Grexv
