import Grexv.Lemmas.ColorStrip
import Grexv.Lemmas.Presentation

set_option linter.unusedSimpArgs false
set_option linter.unusedVariables false
namespace Grexv
open ColorBasic

attribute [local irreducible] core1 escapeSymbols Expr.escapeChar

theorem safe91_flatten (l : List Str) (h : ∀ s ∈ l, Safe91 s) : Safe91 l.flatten := by
  induction l with
  | nil => exact safe91_nil
  | cons a as ih =>
    simp only [List.flatten_cons]
    exact safe91_append (h a List.mem_cons_self) (ih (fun x hx => h x (List.mem_cons_of_mem _ hx)))

theorem core1_safe_ascii : (List.range 128).all (fun x => s91b 0 (core1 x)) = true := by decide +kernel

theorem core1_safe (x : Nat) : Safe91 (core1 x) := by
  by_cases h : x < 128
  · have h1 : s91b 0 (core1 x) = true := List.all_eq_true.mp core1_safe_ascii x (List.mem_range.mpr h)
    exact s91b_sound (core1 x) 0 h1
  · rw [core1_nonascii x (by omega)]
    exact ⟨fun hc => by omega, trivial⟩

theorem escapeSymbols_safe (s : Str) : Safe91 (escapeSymbols s) := by
  rw [escapeSymbols_eq]
  split
  · exact s91b_sound [92, 92] 0 (by decide)
  · exact safe91_flatMap _ _ (fun x _ => core1_safe x)

/-- a block without `[` -/
theorem S91_block (b : Str) (h91 : 91 ∉ b) : ∀ (p : Nat) (rest : Str), (∀ q, S91 q rest) → S91 p (b ++ rest) := by
  induction b with
  | nil => intro p rest h; exact h p
  | cons c r ih =>
    intro p rest h
    refine ⟨fun hc => absurd (by simp [hc]) h91, ih (fun hc => h91 (List.mem_cons_of_mem _ hc)) c rest h⟩

theorem toHexAux_no91 : ∀ (fuel n : Nat) (acc : Str), 91 ∉ acc → 91 ∉ toHexAux fuel n acc := by
  intro fuel
  induction fuel with
  | zero => intro n acc h; simpa [toHexAux] using h
  | succ f ih =>
    intro n acc h
    unfold toHexAux
    have hd : ∀ d, d < 16 → hexDigit d ≠ 91 := by
      intro d hd; unfold hexDigit; split <;> omega
    split
    · intro hc
      simp only [List.mem_cons] at hc
      rcases hc with hc | hc
      · exact hd n (by omega) hc.symm
      · exact h hc
    · apply ih
      intro hc
      simp only [List.mem_cons] at hc
      rcases hc with hc | hc
      · exact hd (n % 16) (Nat.mod_lt _ (by omega)) hc.symm
      · exact h hc

theorem toHex_no91 (n : Nat) : 91 ∉ toHex n := toHexAux_no91 _ _ _ (by simp)

theorem brace_no91 (n : Nat) : 91 ∉ ([92, 117, 123] ++ toHex n ++ [125] : Str) := by
  intro hc
  simp only [List.mem_append, List.mem_cons, List.mem_nil_iff, or_false] at hc
  rcases hc with (hc | hc) | hc
  · rcases hc with hc | hc | hc <;> omega
  · exact toHex_no91 _ hc
  · omega

theorem escapeChar_no91 (c : Nat) (sur : Bool) (h : 128 ≤ c) : 91 ∉ Expr.escapeChar c sur := by
  have hlt : ¬ c < 128 := by omega
  have hA : 91 ∉ ([92, 117, 123] : Str) := by decide
  have hB : 91 ∉ ([125] : Str) := by decide
  unfold Expr.escapeChar
  rw [if_neg hlt]
  split
  · intro hc
    simp only [List.mem_append] at hc
    rcases hc with ((((hc | hc) | hc) | hc) | hc) | hc
    · exact hA hc
    · exact toHex_no91 _ hc
    · exact hB hc
    · exact hA hc
    · exact toHex_no91 _ hc
    · exact hB hc
  · intro hc
    simp only [List.mem_append] at hc
    rcases hc with (hc | hc) | hc
    · exact hA hc
    · exact toHex_no91 _ hc
    · exact hB hc

/-- escaping the non-ASCII characters keeps every `[` escaped -/
theorem safe_escapeChars (sur : Bool) : ∀ (t : Str) (p p' : Nat), (p = 92 → p' = 92) → S91 p t →
    S91 p' (t.flatMap fun c => Expr.escapeChar c sur) := by
  intro t
  induction t with
  | nil => intro _ _ _ _; trivial
  | cons c r ih =>
    intro p p' hp h
    simp only [List.flatMap_cons]
    by_cases hc : c < 128
    · have : Expr.escapeChar c sur = [c] := by simp [Expr.escapeChar, hc]
      rw [this]
      exact ⟨fun h91 => hp (h.1 h91), ih c c (fun x => x) h.2⟩
    · apply S91_block _ (escapeChar_no91 c sur (by omega))
      intro q
      exact ih c q (fun h92 => by omega) h.2

theorem escaped_chars_safe (cfg : Config) (s : Str) :
    Safe91 (if cfg.esc then (escapeSymbols s).flatMap (fun c => Expr.escapeChar c cfg.sur) else escapeSymbols s) := by
  split
  · exact safe_escapeChars cfg.sur _ 0 0 (fun h => h) (escapeSymbols_safe s)
  · exact escapeSymbols_safe s

mutual
theorem escapeGrapheme_safe (cfg : Config) : ∀ (g : Grapheme), GSafe (escapeGrapheme cfg g)
  | .mk chars reps mn mx => by
    simp only [escapeGrapheme, GSafe]
    refine ⟨?_, escapeGraphemes_safe cfg reps⟩
    intro _ s hs
    by_cases he : cfg.esc = true
    · rw [if_pos he] at hs
      simp only [List.mem_map] at hs
      obtain ⟨s1, ⟨s0, _, rfl⟩, rfl⟩ := hs
      have := escaped_chars_safe cfg s0
      rw [if_pos he] at this
      exact this
    · rw [if_neg he] at hs
      simp only [List.mem_map] at hs
      obtain ⟨s0, _, rfl⟩ := hs
      exact escapeSymbols_safe s0
theorem escapeGraphemes_safe (cfg : Config) : ∀ (gs : List Grapheme), GSafeL (escapeGraphemes cfg gs)
  | [] => by simp [escapeGraphemes, GSafeL]
  | g :: gs => by
    simp only [escapeGraphemes, GSafeL]
    exact ⟨escapeGrapheme_safe cfg g, escapeGraphemes_safe cfg gs⟩
end

/-- one grapheme, given the relation for its nested repetitions -/
theorem cp_fmtGrapheme_step (cfg : Config) (chars : List Str) (reps : List Grapheme) (mn mx : Nat)
    (hc : reps = [] → ∀ s ∈ chars, Safe91 s)
    (hr : reps ≠ [] → CP (fmtGraphemes (withColor cfg true) reps) (fmtGraphemes (withColor cfg false) reps)) :
    CP (fmtGrapheme (withColor cfg true) (.mk chars reps mn mx)) (fmtGrapheme (withColor cfg false) (.mk chars reps mn mx)) := by
  rw [fmtGrapheme, fmtGrapheme]
  have hv0 : CP (if reps.isEmpty then chars.flatten else fmtGraphemes (withColor cfg true) reps)
      (if reps.isEmpty then chars.flatten else fmtGraphemes (withColor cfg false) reps) := by
    by_cases he : reps.isEmpty = true
    · simp only [he, ite_true]
      exact CP.of_safe (safe91_flatten _ (hc (List.isEmpty_iff.mp he)))
    · simp only [he, Bool.false_eq_true, ite_false]
      exact hr (fun h => he (by simp [h]))
  have hv := Comp.cp_charClass _ _ hv0
  simp only [withColor] at hv ⊢
  generalize (if reps.isEmpty = true then chars.flatten else fmtGraphemes { cfg with color := true } reps) = vT at hv ⊢
  generalize (if reps.isEmpty = true then chars.flatten else fmtGraphemes { cfg with color := false } reps) = vF at hv ⊢
  repeat' split
  all_goals first
    | exact CP.append hv (Comp.cp_repetition _ _)
    | exact CP.append (Comp.cp_paren _ _ _ _ _ hv) (Comp.cp_repetition _ _)
    | exact CP.append hv (Comp.cp_repetitionRange _ _ _)
    | exact CP.append (Comp.cp_paren _ _ _ _ _ hv) (Comp.cp_repetitionRange _ _ _)
    | exact hv

mutual
theorem cp_fmtGrapheme (cfg : Config) : ∀ (g : Grapheme), GSafe g →
    CP (fmtGrapheme (withColor cfg true) g) (fmtGrapheme (withColor cfg false) g)
  | .mk chars reps mn mx, h => by
    apply cp_fmtGrapheme_step cfg chars reps mn mx h.1
    intro _
    exact cp_fmtGraphemes cfg reps h.2
theorem cp_fmtGraphemes (cfg : Config) : ∀ (gs : List Grapheme), GSafeL gs →
    CP (fmtGraphemes (withColor cfg true) gs) (fmtGraphemes (withColor cfg false) gs)
  | [], _ => by simp only [fmtGraphemes]; exact CP.nil
  | g :: gs, h => by
    simp only [fmtGraphemes]
    exact CP.append (cp_fmtGrapheme cfg g h.1) (cp_fmtGraphemes cfg gs h.2)
end

theorem cp_fmtLiteral (cfg : Config) (c : Cluster) :
    CP (fmtLiteral (withColor cfg true) c) (fmtLiteral (withColor cfg false) c) := by
  unfold fmtLiteral
  apply CP.flatMap
  intro g _
  simp only [escapeGrapheme_color, escapeGraphemes_color]
  apply cp_fmtGrapheme
  split
  · rename_i hne
    have hne' : g.reps ≠ [] := by intro hc; rw [hc] at hne; simp at hne
    refine ⟨?_, escapeGraphemes_safe cfg g.reps⟩
    intro hc
    cases hg : g.reps with
    | nil => exact absurd hg hne'
    | cons a as => rw [hg] at hc; simp [escapeGraphemes] at hc
  · exact escapeGrapheme_safe cfg g

/-! ### classes and expressions -/

theorem escapeClassChar_safe (c : Nat) : Safe91 (escapeClassChar c) := by
  unfold escapeClassChar
  split
  · exact ⟨fun h => absurd h (by decide), fun _ => rfl, trivial⟩
  · rename_i hc
    have h91 : c ≠ 91 := by
      intro h; subst h; exact hc (by decide)
    repeat' split
    all_goals first
      | exact s91b_sound _ 0 (by decide)
      | exact ⟨fun h => absurd h h91, trivial⟩

theorem cp_fmtClass (cfg : Config) (cs : List Nat) : CP (fmtClass (withColor cfg true) cs) (fmtClass (withColor cfg false) cs) := by
  unfold fmtClass
  simp only [withColor]
  refine CP.append (CP.append (CP.painted _ _ Comp.mem_codes.2.2.1 (by decide)) ?_) (CP.painted _ _ Comp.mem_codes.2.2.1 (by decide))
  apply CP.flatMap
  intro r _
  split
  · exact CP.of_safe (safe91_flatMap _ _ (fun c _ => escapeClassChar_safe c))
  · exact CP.append (CP.append (CP.of_safe (escapeClassChar_safe _)) (CP.painted _ _ Comp.mem_codes.2.2.1 (by decide)))
      (CP.of_safe (escapeClassChar_safe _))

theorem isSingleCodepoint_color (cfg : Config) (b : Bool) (e : Expr) :
    e.isSingleCodepoint (withColor cfg b) = e.isSingleCodepoint cfg := by
  cases e <;> simp [Expr.isSingleCodepoint, withColor]

mutual
theorem cp_fmtExpr (cfg : Config) : ∀ (e : Expr), CP (fmtExpr (withColor cfg true) e) (fmtExpr (withColor cfg false) e)
  | .alt os => by simp only [fmtExpr]; exact cp_fmtAlt cfg os
  | .cls cs => by simp only [fmtExpr]; exact cp_fmtClass cfg cs
  | .cat a b => by
    simp only [fmtExpr]
    exact CP.append (cp_fmtSub cfg 2 true a) (cp_fmtSub cfg 2 true b)
  | .lit c => by simp only [fmtExpr]; exact cp_fmtLiteral cfg c
  | .rep e q => by
    simp only [fmtExpr]
    exact CP.append (cp_fmtSub cfg 3 false e) (Comp.cp_quantifier _ _)
theorem cp_fmtSub (cfg : Config) (outer : Nat) (fb : Bool) : ∀ (e : Expr),
    CP (fmtSub (withColor cfg true) outer fb e) (fmtSub (withColor cfg false) outer fb e)
  | e => by
    rw [fmtSub, fmtSub, isSingleCodepoint_color, isSingleCodepoint_color]
    split
    · exact Comp.cp_paren _ _ _ _ _ (cp_fmtExpr cfg e)
    · exact cp_fmtExpr cfg e
theorem cp_fmtAlt (cfg : Config) : ∀ (os : List Expr), CP (fmtAlt (withColor cfg true) os) (fmtAlt (withColor cfg false) os)
  | [] => by simp only [fmtAlt]; exact CP.nil
  | [o] => by simp only [fmtAlt]; exact cp_fmtSub cfg 1 true o
  | o :: o2 :: os => by
    simp only [fmtAlt]
    have hp : CP (Comp.pipe true) (Comp.pipe false) := CP.painted _ _ Comp.mem_codes.2.2.2.1 (by decide)
    have nl : CP [10] [10] := CP.plain [10] (by decide) (fun rest _ => by simp)
    refine CP.append (CP.append (cp_fmtSub cfg 1 true o) ?_) (cp_fmtAlt cfg (o2 :: os))
    have e1 : (withColor cfg true).verb = cfg.verb := rfl
    have e2 : (withColor cfg false).verb = cfg.verb := rfl
    have c1 : (withColor cfg true).color = true := rfl
    have c2 : (withColor cfg false).color = false := rfl
    rw [e1, e2, c1, c2]
    cases cfg.verb
    · simp only [Bool.false_eq_true, ite_false]; exact hp
    · simp only [ite_true]; exact CP.append (CP.append nl hp) nl
end

theorem cp_bodyText (cfg : Config) (e : Expr) : CP (bodyText (withColor cfg true) e) (bodyText (withColor cfg false) e) := by
  unfold bodyText
  split
  · exact Comp.cp_paren _ _ _ _ _ (cp_fmtExpr cfg _)
  · exact cp_fmtExpr cfg _

/-! ### the replacements of `Display for RegExp` -/

theorem code_chars (k : Str) (h : IsCode k) : ∀ x ∈ k, x = 27 ∨ x = 91 ∨ x = 59 ∨ x = 109 ∨ (48 ≤ x ∧ x ≤ 57) := by
  rcases h with rfl | ⟨c, hc, rfl⟩
  · decide
  · simp only [genCodes, List.mem_cons, List.mem_nil_iff, or_false] at hc
    rcases hc with rfl | rfl | rfl | rfl | rfl | rfl | rfl | rfl <;> decide

theorem flatMap_id_of (f : Nat → Str) : ∀ (l : Str), (∀ x ∈ l, f x = [x]) → l.flatMap f = l
  | [], _ => rfl
  | a :: as, h => by
    simp only [List.flatMap_cons, h a List.mem_cons_self]
    rw [flatMap_id_of f as (fun x hx => h x (List.mem_cons_of_mem _ hx))]
    rfl

/-- a character-wise rewriting (`replace`, the escaping of verbose mode's white space) that leaves the characters of SGR sequences
alone, never produces a line break or `ESC`, and never makes a `[` appear at the front of what it writes -/
structure Rewr (f : Nat → Str) : Prop where
  code : ∀ x, x = 27 ∨ x = 91 ∨ x = 59 ∨ x = 109 ∨ (48 ≤ x ∧ x ≤ 57) → f x = [x]
  ne : ∀ x, f x ≠ []
  clean : ∀ x, x ≠ 10 → x ≠ 13 → x ≠ 27 → ∀ y ∈ f x, y ≠ 10 ∧ y ≠ 13 ∧ y ≠ 27
  head : ∀ x, x ≠ 91 → (f x).head? ≠ some 91
  fix10 : f 10 = [10]
  fix13 : f 13 = [13]

theorem Col.rewr (f : Nat → Str) (hf : Rewr f) {C T : Str} (h : Col C T) : Col (C.flatMap f) (T.flatMap f) := by
  induction h with
  | nil => exact Col.nil
  | @chr x C T _ hx ih =>
    simp only [List.flatMap_cons]
    by_cases h27 : x = 27
    · subst h27
      rw [hf.code 27 (Or.inl rfl)]
      refine Col.chr 27 ih ?_
      intro _
      have := hx rfl
      cases C with
      | nil => simp
      | cons y ys =>
        have hy : y ≠ 91 := fun hc' => this (by simp [hc'])
        simp only [List.flatMap_cons]
        have h1 := hf.head y hy
        have h2 := hf.ne y
        cases hfy : f y with
        | nil => exact absurd hfy h2
        | cons a as => rw [hfy] at h1; simpa using h1
    · -- `f x` contains no `ESC`: prepend it
      have hno : 27 ∉ f x := by
        by_cases h10 : x = 10
        · subst h10; rw [hf.fix10]; decide
        · by_cases h13 : x = 13
          · subst h13; rw [hf.fix13]; decide
          · intro hm; exact (hf.clean x h10 h13 h27 27 hm).2.2 rfl
      exact Col.prepend_no27 (f x) hno ih
  | @paint code text C T hc hne htx _ ih =>
    simp only [List.flatMap_append]
    have hcodes : ∀ k, IsCode k → k.flatMap f = k := fun k hk => flatMap_id_of f k (fun x hx => hf.code x (code_chars k hk x hx))
    have e : (Grexv.paint true code text).flatMap f = Grexv.paint true code (text.flatMap f) := by
      rw [paint_eq, paint_eq, List.flatMap_append, List.flatMap_append (xs := text),
        hcodes _ (Or.inr ⟨code, hc, rfl⟩), hcodes [27, 91, 48, 109] (Or.inl rfl)]
    rw [e]
    refine Col.paint code (text.flatMap f) hc ?_ ?_ ih
    · cases text with
      | nil => exact absurd rfl hne
      | cons a as =>
        simp only [List.flatMap_cons]
        intro hnil
        have := hf.ne a
        cases hfa : f a with
        | nil => exact this hfa
        | cons b bs => rw [hfa] at hnil; simp at hnil
    · intro y hy
      obtain ⟨x, hx, hyx⟩ := List.mem_flatMap.mp hy
      exact hf.clean x (htx x hx).1 (htx x hx).2.1 (htx x hx).2.2 y hyx

theorem rewr_replace (c : Nat) (r : Str) (hc : c ≠ 10 ∧ c ≠ 13 ∧ c ≠ 27 ∧ c ≠ 91 ∧ c ≠ 59 ∧ c ≠ 109 ∧ ¬ (48 ≤ c ∧ c ≤ 57))
    (hr : okText r = true) (hr91 : r.head? ≠ some 91) : Rewr (fun x => if x = c then r else [x]) := by
  obtain ⟨hne, hcl⟩ := okText_sound r hr
  refine ⟨?_, ?_, ?_, ?_, ?_, ?_⟩
  · intro x hx
    have : x ≠ c := by rcases hx with h | h | h | h | h <;> omega
    simp [this]
  · intro x; split
    · exact hne
    · simp
  · intro x h10 h13 h27 y hy
    split at hy
    · exact hcl y hy
    · simp only [List.mem_singleton] at hy; subst hy
      exact ⟨h10, h13, h27⟩
  · intro x hx; split
    · exact hr91
    · simpa using hx
  · simp [hc.1.symm]
  · simp [hc.2.1.symm]

theorem Col.replace (c : Nat) (r : Str) (hc : c ≠ 10 ∧ c ≠ 13 ∧ c ≠ 27 ∧ c ≠ 91 ∧ c ≠ 59 ∧ c ≠ 109 ∧ ¬ (48 ≤ c ∧ c ≤ 57))
    (hr : okText r = true) (hr91 : r.head? ≠ some 91)
    {C T : Str} (h : Col C T) : Col (replaceChar c r C) (replaceChar c r T) := by
  unfold replaceChar
  exact Col.rewr _ (rewr_replace c r hc hr hr91) h

/-- **C15, whole pattern (not verbose)** for every expression and every combination of the other settings, removing
the SGR sequences from the highlighted text with the stripping regex of the code gives exactly the text without
highlighting -/
theorem strip_colored (cfg : Config) (hv : cfg.verb = false) (e : Expr) (fuel : Nat)
    (hf : (fmtRegExp (withColor cfg true) e).length ≤ fuel) :
    stripColor fuel (fmtRegExp (withColor cfg true) e) = fmtRegExp (withColor cfg false) e := by
  have hcol : Col (fmtRegExp (withColor cfg true) e) (fmtRegExp (withColor cfg false) e) := by
    have hflag : CP (if ((withColor cfg true).ci && (withColor cfg true).verb) = true then Comp.flagIX (withColor cfg true).color
        else if (withColor cfg true).ci = true then Comp.flagI (withColor cfg true).color
        else if (withColor cfg true).verb = true then Comp.flagX (withColor cfg true).color else [])
        (if ((withColor cfg false).ci && (withColor cfg false).verb) = true then Comp.flagIX (withColor cfg false).color
        else if (withColor cfg false).ci = true then Comp.flagI (withColor cfg false).color
        else if (withColor cfg false).verb = true then Comp.flagX (withColor cfg false).color else []) := by
      simp only [withColor, hv, Bool.and_false, Bool.false_eq_true, ite_false]
      split
      · exact CP.painted _ _ Comp.mem_codes.2.2.2.2.2.2.2 (by decide)
      · exact CP.nil
    have hcaret : CP (if (withColor cfg true).noStart = true then [] else Comp.caret (withColor cfg true).color (withColor cfg true).verb)
        (if (withColor cfg false).noStart = true then [] else Comp.caret (withColor cfg false).color (withColor cfg false).verb) := by
      simp only [withColor, hv]
      split
      · exact CP.nil
      · exact CP.append (CP.painted _ _ Comp.mem_codes.2.1 (by decide)) CP.nil
    have hdollar : CP (if (withColor cfg true).noEnd = true then [] else Comp.dollar (withColor cfg true).color (withColor cfg true).verb)
        (if (withColor cfg false).noEnd = true then [] else Comp.dollar (withColor cfg false).color (withColor cfg false).verb) := by
      simp only [withColor, hv]
      split
      · exact CP.nil
      · exact CP.append CP.nil (CP.painted _ _ Comp.mem_codes.2.1 (by decide))
    have hr0 := (CP.append (CP.append (CP.append hflag hcaret) (cp_bodyText cfg e)) hdollar).col
    have hr1 := Col.replace 12 Gen.strFormFeed (by decide) (by decide) (by decide)
      (Col.replace 11 Gen.strVerticalTab (by decide) (by decide) (by decide) hr0)
    have hvT : (withColor cfg true).verb = false := hv
    have hvF : (withColor cfg false).verb = false := hv
    unfold fmtRegExp
    simp only [hvT, hvF, Bool.false_eq_true, ite_false, Bool.and_false] at hr1 ⊢
    exact hr1
  exact hcol.strip fuel hf

end Grexv

namespace Grexv
open ColorBasic

/-- the self-check of `RegExp::from` sees the same text with and without highlighting: `convert_expr_to_regex`
strips the codes first -/
theorem regexText_color (cfg : Config) (b : Bool) (e : Expr) :
    regexText (withColor cfg true) b e = regexText (withColor cfg false) b e := by
  have hs : stripColor ((fmtExpr (withColor cfg true) e).length + 1) (fmtExpr (withColor cfg true) e) =
      fmtExpr (withColor cfg false) e := (cp_fmtExpr cfg e).col.strip _ (by omega)
  have c1 : (withColor cfg true).color = true := rfl
  have c2 : (withColor cfg false).color = false := rfl
  simp only [regexText, c1, c2, ite_true, Bool.false_eq_true, ite_false, hs]

/-- **highlighting does not change what `RegExp::from` computes** every stage and the expression kept are the same
with and without it, for every other setting (including verbose mode) and every input -/
theorem regExpFrom_color (cfg : Config) (env : Env) (ws : List Str) :
    regExpFrom (withColor cfg true) env ws = regExpFrom (withColor cfg false) env ws := by
  have h1 : ∀ b e, regexText (withColor cfg true) b e = regexText (withColor cfg false) b e := regexText_color cfg
  have h2 : ∀ d, Expr.ofDfa (withColor cfg true) d = Expr.ofDfa (withColor cfg false) d := fun d => ofDfa_congr (c1 := withColor cfg true) (c2 := withColor cfg false) rfl d
  have h3 : ∀ l, graphemeClusters (withColor cfg true) env l = graphemeClusters (withColor cfg false) env l :=
    fun l => graphemeClusters_congr (c1 := withColor cfg true) (c2 := withColor cfg false)
      ⟨rfl, rfl, rfl, rfl, rfl, rfl, rfl, rfl, rfl, rfl, rfl⟩ env l
  unfold regExpFrom regexOfExpr
  simp only [h1, h2, h3]
  rfl

end Grexv
