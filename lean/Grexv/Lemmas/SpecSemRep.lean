import Grexv.Lemmas.SpecSem

/-
The Spec matcher on counted repetition `p{m}` / `p{m,n}` (what grex emits with `-r`): for a body that never matches the empty
string, `matchP` enumerates exactly the prefixes that are `k` consecutive matches of the body, `m ≤ k ≤ n`.
-/
set_option linter.unusedSimpArgs false
set_option linter.unusedVariables false
namespace Grexv.Spec

/-- `k` consecutive members of `L` -/
def powL (L : List Nat → Prop) : Nat → List Nat → Prop
  | 0, s => s = []
  | k + 1, s => ∃ u v, s = u ++ v ∧ L u ∧ powL L k v

/-- between `m` and `m + e` consecutive members of `L` -/
def rangeL (L : List Nat → Prop) (m e : Nat) (s : List Nat) : Prop := ∃ k, m ≤ k ∧ k ≤ m + e ∧ powL L k s

/-- the strings a pattern denotes, counted repetition included -/
def Pat.denC (i : Bool) : Pat → List Nat → Prop
  | .eps, s => s = []
  | .chr c, s => ∃ x, s = [x] ∧ chrMatches i c x = true
  | .perl k neg, s => ∃ x, s = [x] ∧ (perlMember k x != neg) = true
  | .set items neg, s => ∃ x, s = [x] ∧ setMatches i items neg x = true
  | .bol, _ => False
  | .eol, _ => False
  | .cat a b, s => ∃ u v, s = u ++ v ∧ denC i a u ∧ denC i b v
  | .alt a b, s => denC i a s ∨ denC i b s
  | .rep p mn mx _, s => match mx with
    | some n => rangeL (denC i p) mn (n - mn) s
    | none => ∃ k, mn ≤ k ∧ powL (denC i p) k s
  | .grp _ p, s => denC i p s

/-- the fragment with counted repetition: as `Frag`, plus `p{m,n}` (`m ≤ n`) over a body that does not match the empty string -/
def Pat.FragC : Pat → Prop
  | .eps | .chr _ | .perl _ _ | .set _ _ => True
  | .bol | .eol => False
  | .cat a b | .alt a b => FragC a ∧ FragC b
  | .rep p mn mx _ => FragC p ∧ ((mn = 0 ∧ mx = some 1) ∨ (∃ n, mx = some n ∧ mn ≤ n ∧ ∀ i s, Pat.denC i p s → s ≠ []))
  | .grp _ p => FragC p

/-- on the old fragment the two denotations agree -/
theorem Pat.denC_eq_den (i : Bool) : ∀ (p : Pat), p.Frag → ∀ s, p.denC i s ↔ p.den i s
  | .eps, _, s => by simp [Pat.denC, Pat.den]
  | .chr _, _, s => by simp [Pat.denC, Pat.den]
  | .perl _ _, _, s => by simp [Pat.denC, Pat.den]
  | .set _ _, _, s => by simp [Pat.denC, Pat.den]
  | .bol, h, _ => by simp [Pat.Frag] at h
  | .eol, h, _ => by simp [Pat.Frag] at h
  | .cat a b, h, s => by
    simp only [Pat.denC, Pat.den]
    constructor
    · rintro ⟨u, v, rfl, hu, hv⟩; exact ⟨u, v, rfl, (denC_eq_den i a h.1 u).mp hu, (denC_eq_den i b h.2 v).mp hv⟩
    · rintro ⟨u, v, rfl, hu, hv⟩; exact ⟨u, v, rfl, (denC_eq_den i a h.1 u).mpr hu, (denC_eq_den i b h.2 v).mpr hv⟩
  | .alt a b, h, s => by
    simp only [Pat.denC, Pat.den, denC_eq_den i a h.1 s, denC_eq_den i b h.2 s]
  | .rep p mn mx g, h, s => by
    obtain ⟨rfl, rfl, hp⟩ := h
    simp only [Pat.denC, Pat.den, rangeL]
    constructor
    · rintro ⟨k, _, hk, hpow⟩
      have : k = 0 ∨ k = 1 := by omega
      rcases this with rfl | rfl
      · left; exact hpow
      · right
        obtain ⟨u, v, rfl, hu, hv⟩ := hpow
        simp only [powL] at hv
        subst hv
        simpa using (denC_eq_den i p hp u).mp hu
    · rintro (rfl | h)
      · exact ⟨0, by omega, by omega, rfl⟩
      · exact ⟨1, by omega, by omega, s, [], by simp, (denC_eq_den i p hp s).mpr h, rfl⟩
  | .grp _ p, h, s => by simp only [Pat.denC, Pat.den]; exact denC_eq_den i p h s

theorem Pat.Frag.toFragC : ∀ (p : Pat), p.Frag → p.FragC
  | .eps, _ | .chr _, _ | .perl _ _, _ | .set _ _, _ => trivial
  | .bol, h | .eol, h => by simp [Pat.Frag] at h
  | .cat a b, h | .alt a b, h => ⟨toFragC a h.1, toFragC b h.2⟩
  | .rep p mn mx _, h => ⟨toFragC p h.2.2, Or.inl ⟨h.1, h.2.1⟩⟩
  | .grp _ p, h => toFragC p h

/-- **`repMatch` over an exact, non-nullable body** -/
theorem repMatch_exact (f : Pos → List Pos) (L : List Nat → Prop) (hL : ∀ s, L s → s ≠ [])
    (hf : ∀ n s, Exact L n s (f (n, s))) (g : Bool) :
    ∀ (m e n : Nat) (s : List Nat), Exact (rangeL L m e) n s (repMatch f g m e (n, s)) := by
  intro m
  induction m with
  | zero =>
    intro e
    induction e with
    | zero =>
      intro n s st
      simp only [repMatch, List.mem_singleton, rangeL]
      constructor
      · rintro rfl; exact ⟨[], ⟨0, by omega, by omega, rfl⟩, rfl, rfl⟩
      · rintro ⟨u, ⟨k, _, hk, hp⟩, hs, hn⟩
        have : k = 0 := by omega
        subst this
        simp only [powL] at hp
        subst hp
        obtain ⟨a, b⟩ := st
        simp at hs hn; subst hs hn; rfl
    | succ e ih =>
      intro n s st
      have hmore : st ∈ ((f (n, s)).flatMap fun st' => if st'.1 = (n, s).1 then [] else repMatch f g 0 e st') ↔
          ∃ u, (∃ k, 1 ≤ k ∧ k ≤ e + 1 ∧ powL L k u) ∧ s = u ++ st.2 ∧ st.1 = n + u.length := by
        simp only [List.mem_flatMap]
        constructor
        · rintro ⟨st1, h1, h2⟩
          obtain ⟨u, hu, hs, hn⟩ := (hf n s st1).mp h1
          split at h2
          · simp at h2
          · obtain ⟨a1, b1⟩ := st1
            simp only at hs hn
            obtain ⟨v, ⟨k, _, hk, hp⟩, hs2, hn2⟩ := (ih a1 b1 st).mp h2
            refine ⟨u ++ v, ⟨k + 1, by omega, by omega, u, v, rfl, hu, hp⟩, ?_, ?_⟩
            · rw [hs, hs2]; simp
            · rw [hn2, hn]; simp; omega
        · rintro ⟨w, ⟨k, hk1, hk2, hp⟩, hs, hn⟩
          obtain ⟨k', rfl⟩ : ∃ k', k = k' + 1 := ⟨k - 1, by omega⟩
          obtain ⟨u, v, rfl, hu, hv⟩ := hp
          refine ⟨(n + u.length, v ++ st.2), (hf n s _).mpr ⟨u, hu, by rw [hs]; simp, rfl⟩, ?_⟩
          have hne : u ≠ [] := hL u hu
          have : ¬ (n + u.length = n) := by
            have : 0 < u.length := List.length_pos_iff.mpr hne
            omega
          simp only [this, ite_false]
          exact (ih _ _ st).mpr ⟨v, ⟨k', by omega, by omega, hv⟩, rfl, by rw [hn]; simp; omega⟩
      have hmem : st ∈ repMatch f g 0 (e + 1) (n, s) ↔
          (st = (n, s) ∨ st ∈ ((f (n, s)).flatMap fun st' => if st'.1 = (n, s).1 then [] else repMatch f g 0 e st')) := by
        simp only [repMatch]
        cases g
        · simp only [Bool.false_eq_true, ite_false, List.mem_cons]
        · simp only [ite_true, List.mem_append, List.mem_singleton]
          constructor
          · rintro (h | h); exact Or.inr h; exact Or.inl h
          · rintro (h | h); exact Or.inr h; exact Or.inl h
      rw [hmem, hmore]
      simp only [rangeL]
      constructor
      · rintro (rfl | ⟨u, ⟨k, hk1, hk2, hp⟩, hs, hn⟩)
        · exact ⟨[], ⟨0, by omega, by omega, rfl⟩, rfl, rfl⟩
        · exact ⟨u, ⟨k, by omega, by omega, hp⟩, hs, hn⟩
      · rintro ⟨u, ⟨k, _, hk, hp⟩, hs, hn⟩
        by_cases hk0 : k = 0
        · subst hk0
          simp only [powL] at hp
          subst hp
          left
          obtain ⟨a, b⟩ := st
          simp at hs hn; subst hs hn; rfl
        · exact Or.inr ⟨u, ⟨k, by omega, by omega, hp⟩, hs, hn⟩
  | succ m ih =>
    intro e n s st
    simp only [repMatch, List.mem_flatMap, rangeL]
    constructor
    · rintro ⟨st1, h1, h2⟩
      obtain ⟨u, hu, hs, hn⟩ := (hf n s st1).mp h1
      obtain ⟨a1, b1⟩ := st1
      simp only at hs hn
      obtain ⟨v, ⟨k, hk1, hk2, hp⟩, hs2, hn2⟩ := (ih e a1 b1 st).mp h2
      refine ⟨u ++ v, ⟨k + 1, by omega, by omega, u, v, rfl, hu, hp⟩, ?_, ?_⟩
      · rw [hs, hs2]; simp
      · rw [hn2, hn]; simp; omega
    · rintro ⟨w, ⟨k, hk1, hk2, hp⟩, hs, hn⟩
      obtain ⟨k', rfl⟩ : ∃ k', k = k' + 1 := ⟨k - 1, by omega⟩
      obtain ⟨u, v, rfl, hu, hv⟩ := hp
      refine ⟨(n + u.length, v ++ st.2), (hf n s _).mpr ⟨u, hu, by rw [hs]; simp, rfl⟩, ?_⟩
      exact (ih e _ _ st).mpr ⟨v, ⟨k', by omega, by omega, hv⟩, rfl, by rw [hn]; simp; omega⟩

/-- **the matcher enumerates exactly the denoted prefixes, counted repetition included** -/
theorem matchP_exactC (i : Bool) : ∀ (p : Pat), p.FragC → ∀ n s, Exact (p.denC i) n s (matchP i p (n, s))
  | .eps, _, n, s => by
    have := matchP_exact i .eps trivial n s
    intro st; rw [this st]; simp only [Pat.den, Pat.denC]
  | .chr c, _, n, s => by
    have := matchP_exact i (.chr c) trivial n s
    intro st; rw [this st]; simp only [Pat.den, Pat.denC]
  | .perl k neg, _, n, s => by
    have := matchP_exact i (.perl k neg) trivial n s
    intro st; rw [this st]; simp only [Pat.den, Pat.denC]
  | .set items neg, _, n, s => by
    have := matchP_exact i (.set items neg) trivial n s
    intro st; rw [this st]; simp only [Pat.den, Pat.denC]
  | .bol, h, _, _ => by exact absurd h (by simp [Pat.FragC])
  | .eol, h, _, _ => by exact absurd h (by simp [Pat.FragC])
  | .cat a b, h, n, s => by
    have ha := matchP_exactC i a h.1
    have hb := matchP_exactC i b h.2
    intro st
    simp only [matchP, List.mem_flatMap, Pat.denC]
    constructor
    · rintro ⟨st1, h1, h2⟩
      obtain ⟨u, hu, hs, hn⟩ := (ha n s st1).mp h1
      obtain ⟨a1, b1⟩ := st1
      simp only at hs hn
      obtain ⟨v, hv, hs2, hn2⟩ := (hb a1 b1 st).mp h2
      refine ⟨u ++ v, ⟨u, v, rfl, hu, hv⟩, ?_, ?_⟩
      · rw [hs, hs2]; simp
      · rw [hn2, hn]; simp; omega
    · rintro ⟨w, ⟨u, v, rfl, hu, hv⟩, hs, hn⟩
      refine ⟨(n + u.length, v ++ st.2), (ha n s _).mpr ⟨u, hu, by rw [hs]; simp, rfl⟩, ?_⟩
      exact (hb _ _ st).mpr ⟨v, hv, rfl, by rw [hn]; simp; omega⟩
  | .alt a b, h, n, s => by
    have ha := matchP_exactC i a h.1
    have hb := matchP_exactC i b h.2
    intro st
    simp only [matchP, List.mem_append, Pat.denC]
    rw [ha n s st, hb n s st]
    constructor
    · rintro (⟨u, hu, h1, h2⟩ | ⟨u, hu, h1, h2⟩)
      · exact ⟨u, Or.inl hu, h1, h2⟩
      · exact ⟨u, Or.inr hu, h1, h2⟩
    · rintro ⟨u, hu | hu, h1, h2⟩
      · exact Or.inl ⟨u, hu, h1, h2⟩
      · exact Or.inr ⟨u, hu, h1, h2⟩
  | .rep p mn mx g, h, n, s => by
    obtain ⟨hp, hcase⟩ := h
    have hpe := matchP_exactC i p hp
    rcases hcase with ⟨rfl, rfl⟩ | ⟨k, rfl, hle, hnn⟩
    · -- the optional quantifier: any body
      intro st
      have hmem : st ∈ matchP i (.rep p 0 (some 1) g) (n, s) ↔
          (st = (n, s) ∨ (st ∈ matchP i p (n, s) ∧ st.1 ≠ n)) := by
        simp only [matchP, Nat.sub_zero, repMatch]
        cases g
        · simp only [Bool.false_eq_true, ite_false, List.mem_cons, List.mem_flatMap]
          constructor
          · rintro (h | ⟨st', h1, h2⟩)
            · exact Or.inl h
            · split at h2
              · simp at h2
              · rename_i hne
                simp only [List.mem_singleton] at h2
                subst h2
                exact Or.inr ⟨h1, hne⟩
          · rintro (h | ⟨h1, h2⟩)
            · exact Or.inl h
            · exact Or.inr ⟨st, h1, by simp [h2]⟩
        · simp only [ite_true, List.mem_append, List.mem_flatMap, List.mem_singleton]
          constructor
          · rintro (⟨st', h1, h2⟩ | h)
            · split at h2
              · simp at h2
              · rename_i hne
                simp only [List.mem_singleton] at h2
                subst h2
                exact Or.inr ⟨h1, hne⟩
            · exact Or.inl h
          · rintro (h | ⟨h1, h2⟩)
            · exact Or.inr h
            · exact Or.inl ⟨st, h1, by simp [h2]⟩
      rw [hmem]
      simp only [Pat.denC, rangeL]
      constructor
      · rintro (rfl | ⟨h1, _⟩)
        · exact ⟨[], ⟨0, by omega, by omega, rfl⟩, rfl, rfl⟩
        · obtain ⟨u, hu, hs, hn⟩ := (hpe n s st).mp h1
          exact ⟨u, ⟨1, by omega, by omega, u, [], by simp, hu, rfl⟩, hs, hn⟩
      · rintro ⟨u, ⟨k, _, hk, hpow⟩, hs, hn⟩
        have : k = 0 ∨ k = 1 := by omega
        rcases this with rfl | rfl
        · simp only [powL] at hpow
          subst hpow
          left
          obtain ⟨a, b⟩ := st
          simp at hs hn; subst hs hn; rfl
        · obtain ⟨u1, v, rfl, hu1, hv⟩ := hpow
          simp only [powL] at hv
          subst hv
          simp only [List.append_nil] at hs hn
          by_cases hne : st.1 = n
          · left
            have : u1 = [] := by
              have : u1.length = 0 := by omega
              exact List.length_eq_zero_iff.mp this
            subst this
            obtain ⟨a, b⟩ := st
            simp at hs hne; subst hs hne; rfl
          · exact Or.inr ⟨(hpe n s st).mpr ⟨u1, hu1, hs, hn⟩, hne⟩
    · -- counted, non-nullable body
      simp only [matchP, Pat.denC]
      exact repMatch_exact (matchP i p) (p.denC i) (hnn i) (fun n s => hpe n s) g mn (k - mn) n s
  | .grp c p, h, n, s => by
    have := matchP_exactC i p h n s
    intro st
    simp only [matchP, Pat.denC]
    exact this st

/-- whole-string acceptance decides membership in the denotation -/
theorem fullMatch_iffC (i : Bool) (p : Pat) (hp : p.FragC) (s : List Nat) : fullMatch i p s = true ↔ p.denC i s := by
  simp only [fullMatch, List.any_eq_true, List.isEmpty_iff]
  constructor
  · rintro ⟨st, hst, he⟩
    obtain ⟨u, hu, hs, _⟩ := (matchP_exactC i p hp 0 s st).mp hst
    rw [he] at hs
    simp at hs; subst hs; exact hu
  · intro h
    exact ⟨(s.length, []), (matchP_exactC i p hp 0 s _).mpr ⟨s, h, by simp, by simp⟩, rfl⟩

end Grexv.Spec
