import Grexv.Lemmas.EndToEnd

/-
The search half of C08 where it is a theorem: with the end anchor in place and the start anchor disabled, `Regex::find`
(leftmost start, first alternative in priority order) on a string the pattern matches in full returns that whole string —
every match that starts at offset 0 has to end at the end of the string.  (With the end anchor disabled this is false:
known finding D8.)
-/
set_option linter.unusedSimpArgs false
set_option linter.unusedVariables false
namespace Grexv
open Spec

/-- `items $`: the search from offset 0 succeeds at once and spans the whole subject -/
theorem find_items_eol (i : Bool) (its : List Pat) (hf : ∀ p ∈ its, p.Frag) (s : Str) (h : denL i its s) :
    Spec.find i (catList (its ++ [Pat.eol])) s = some (0, s.length) := by
  have hall : ∀ st ∈ matchP i (catList (its ++ [Pat.eol])) (0, s), st.1 = s.length := by
    intro st hst
    obtain ⟨h1, h2⟩ := (matchP_catList_eol i its 0 s st).mp hst
    obtain ⟨u, _, hs, hn⟩ := (matchP_exact i _ (frag_catList its hf) 0 s st).mp h1
    rw [h2] at hs
    simp only [List.append_nil] at hs
    rw [hn, hs]; simp
  have hmem : ((s.length, []) : Pos) ∈ matchP i (catList (its ++ [Pat.eol])) (0, s) := by
    apply (matchP_catList_eol i its 0 s _).mpr
    exact ⟨(matchP_exact i _ (frag_catList its hf) 0 s _).mpr ⟨s, (den_catList i its s).mpr h, by simp, by simp⟩, rfl⟩
  cases hm : matchP i (catList (its ++ [Pat.eol])) (0, s) with
  | nil => rw [hm] at hmem; simp at hmem
  | cons st rest =>
    have hst := hall st (by rw [hm]; exact List.mem_cons_self)
    unfold Spec.find
    cases hl : s.length with
    | zero => simp only [findFrom, hm]; rw [hst, hl]
    | succ n => simp only [findFrom, hm]; rw [hst, hl]

/-- **the printed pattern, start anchor disabled** for every well-formed expression: `find` on a string of the expression's
language returns the whole string -/
theorem printed_find_eol (i cap esc : Bool) (e : Expr) (hwf : e.WF) (s : Str) (hs : ∀ c ∈ s, Scalar c) (h : e.strLang i s) :
    ∃ P, Spec.parse (ciPrefix i ++ fmtRegExp (cfgAnch cap esc true false) e) = some (⟨i, false⟩, P) ∧
      Spec.find i P s = some (0, s.length) := by
  obtain ⟨P, hparse, hmatch⟩ := printed_acceptsA i cap esc true false e hwf s hs
  have hP := parse_ci_prefixG _ _ (flags_printedA cap esc true false e hwf) (parse_printedA cap esc true false e hwf) i
  rw [hP] at hparse
  simp only [Option.some.injEq, Prod.mk.injEq, true_and] at hparse
  subst hparse
  refine ⟨_, hP, ?_⟩
  have hfr : ∀ p ∈ topItems cap esc e, p.Frag := by
    intro p hp
    have hb := Expr.both_frag cap esc e
    unfold topItems at hp
    split at hp
    · simp only [List.mem_singleton] at hp; subst hp; exact hb.2
    · exact hb.1 p hp
  have hden : denL i (topItems cap esc e) s :=
    (fullMatch_items_anch i true false (topItems cap esc e) hfr s).mp (hmatch.mpr h)
  have := find_items_eol i (topItems cap esc e) hfr s hden
  simpa [preA, postA] using this

end Grexv
