import Grexv.Lemmas.HopcroftFuel

/-
S6: for a tree-shaped automaton (what S5 builds) whose alphabet covers its labels, the partition that
`minimize` hands to `recreate_graph` meets `QuotientOk` with the smallest state as representative — no
executable contract needed.
-/
set_option linter.unusedSimpArgs false
set_option linter.unusedVariables false
namespace Grexv
namespace Dfa

/-- in a list of pairwise disjoint blocks the first block containing `s` is the only one -/
theorem classOf_eq (p : List Block) (hd : p.Pairwise Disj) :
    ∀ (k : Nat) (B : Block), p[k]? = some B → ∀ s, s ∈ B → classOf p s = k := by
  induction p with
  | nil => intro k B h; simp at h
  | cons y ys ih =>
    intro k B hk s hs
    rw [List.pairwise_cons] at hd
    cases k with
    | zero =>
      simp only [List.getElem?_cons_zero, Option.some.injEq] at hk
      subst hk
      simp [classOf, List.findIdx?_cons, List.contains_iff_mem, hs]
    | succ k =>
      simp only [List.getElem?_cons_succ] at hk
      have hBm : B ∈ ys := List.mem_of_getElem? hk
      have hny : s ∉ y := fun hc => hd.1 B hBm s hc hs
      have := ih hd.2 k B hk s hs
      simp only [classOf] at this ⊢
      simp only [List.findIdx?_cons, List.contains_iff_mem, hny, decide_false, Bool.false_eq_true, ite_false]
      cases hf : List.findIdx? (fun b => b.contains s) ys with
      | none =>
        exfalso
        rw [List.findIdx?_eq_none_iff] at hf
        have := hf B hBm
        simp [List.contains_iff_mem, hs] at this
      | some i =>
        simp only [hf, Option.getD_some] at this
        simp [this]

theorem foldl_min_mem (l : List Nat) (a : Nat) : l.foldl Nat.min a = a ∨ l.foldl Nat.min a ∈ l := by
  induction l generalizing a with
  | nil => left; rfl
  | cons x xs ih =>
    simp only [List.foldl_cons, List.mem_cons]
    rcases ih (Nat.min a x) with h | h
    · rw [h]
      rcases Nat.le_total a x with hle | hle
      · left; exact Nat.min_eq_left hle
      · right; left; exact Nat.min_eq_right hle
    · right; right; exact h

theorem pickMin_mem (b : Block) (h : b ≠ []) : pickMin b ∈ b := by
  cases b with
  | nil => exact absurd rfl h
  | cons x xs =>
    simp only [pickMin, List.headD_cons]
    rcases foldl_min_mem (x :: xs) x with h | h
    · rw [h]; exact List.mem_cons_self
    · exact h

structure Stable (d : Dfa) (p : List Block) : Prop where
  pinv : PInv d p
  nonempty : ∀ B ∈ p, B ≠ []
  stable : Inv d p []

/-- **stability gives the quotient conditions** -/
theorem quotientOk_of_stable {d : Dfa} (h : TreeInv d) {p : List Block} (hs : Stable d p) : QuotientOk d pickMin p := by
  have hclass : ∀ s, s < d.nodes → ∃ k B, p[k]? = some B ∧ s ∈ B ∧ classOf p s = k := by
    intro s hlt
    obtain ⟨B, hB, hsB⟩ := hs.pinv.cover s hlt
    obtain ⟨k, hk, hkB⟩ := List.getElem_of_mem hB
    have hk' : p[k]? = some B := by rw [List.getElem?_eq_getElem hk, hkB]
    exact ⟨k, B, hk', hsB, classOf_eq p hs.pinv.disj k B hk' s hsB⟩
  -- a state and its representative are in one block
  have hrep : ∀ s, s < d.nodes → SameBlock p s (repOf p pickMin s) := by
    intro s hlt
    obtain ⟨k, B, hk, hsB, hc⟩ := hclass s hlt
    have hBm : B ∈ p := List.mem_of_getElem? hk
    refine ⟨B, hBm, hsB, ?_⟩
    simp only [repOf, hc, List.getD, hk, Option.getD_some]
    exact pickMin_mem B (hs.nonempty B hBm)
  have hsameclass : ∀ t t', SameBlock p t t' → classOf p t = classOf p t' := by
    rintro t t' ⟨B, hB, h1, h2⟩
    obtain ⟨k, hk, hkB⟩ := List.getElem_of_mem hB
    have hk' : p[k]? = some B := by rw [List.getElem?_eq_getElem hk, hkB]
    rw [classOf_eq p hs.pinv.disj k B hk' t h1, classOf_eq p hs.pinv.disj k B hk' t' h2]
  have sim : ∀ q q', SameBlock p q q' → ∀ e ∈ d.outEdges q, ∃ e' ∈ d.outEdges q', e'.label = e.label ∧ classOf p e'.dst = classOf p e.dst := by
    intro q q' hsame e he
    obtain ⟨hee, hsrc⟩ := (mem_outEdges' d q e).mp he
    have hsq : succ d q e.label = some e.dst := (succ_eq_some h q e.label e.dst).mpr ⟨e, hee, hsrc, rfl, rfl⟩
    have hnd := stable_of_inv_nil hs.stable q q' e.label hsame
    rw [hsq] at hnd
    cases hs' : succ d q' e.label with
    | none => rw [hs'] at hnd; exact absurd trivial hnd
    | some t' =>
      rw [hs'] at hnd
      simp only [Disagree, Classical.not_not] at hnd
      obtain ⟨e', he', hsrc', hl', hdst'⟩ := (succ_eq_some h q' e.label t').mp hs'
      refine ⟨e', (mem_outEdges' d q' e').mpr ⟨he', hsrc'⟩, hl', ?_⟩
      rw [hdst']
      exact (hsameclass _ _ hnd).symm
  refine ⟨by rw [h.init0]; exact h.pos, ?_, ?_, ?_, ?_, ?_, ?_⟩
  · intro e he
    have := h.lt e he
    exact ⟨by omega, this.2⟩
  · intro s hlt
    obtain ⟨k, B, hk, hsB, hc⟩ := hclass s hlt
    simp [hc, List.getD, hk, hsB]
  · intro b k hbk
    have hk : p[k]? = some b := List.mem_zipIdx_iff_getElem?.mp hbk
    have hbm : b ∈ p := List.mem_of_getElem? hk
    have hm := pickMin_mem b (hs.nonempty b hbm)
    exact ⟨classOf_eq p hs.pinv.disj k b hk _ hm, hs.pinv.bounded b hbm _ hm⟩
  · intro s hlt e he
    exact sim s _ (hrep s hlt) e he
  · intro s hlt e' he'
    obtain ⟨B, hB, h1, h2⟩ := hrep s hlt
    exact sim _ s ⟨B, hB, h2, h1⟩ e' he'
  · intro s hlt
    obtain ⟨B, hB, h1, h2⟩ := hrep s hlt
    exact hs.pinv.homog B hB s h1 _ h2

/-- **the partition `minimize` computes is stable** -/
theorem minimizePartition_stable {d : Dfa} (h : TreeInv d) (hal : AlphabetCovers d) (hsimple : ∀ l ∈ d.alphabet, l.Simple) :
    ∃ p, minimizePartition d = some p ∧ Stable d p := by
  obtain ⟨p', hp'⟩ := refineLoop_some d (minFuel d) (initialPartition d) (initialPartition d) (slack_initial d)
  have hpinv := refineLoop_pinv d _ _ _ (initial_pinv d) p' hp'
  have hinv := refineLoop_inv h hal hsimple _ _ _ (inv_initial h _ (initial_pinv d)) p' hp'
  refine ⟨p'.filter fun b => !b.isEmpty, by simp [minimizePartition, hp'], pinv_filter hpinv, ?_, inv_filter hinv⟩
  intro B hB
  have := (List.mem_filter.mp hB).2
  intro hc; subst hc; simp at this

/-- **S6, unconditional for tree-shaped input** `minimize` returns an automaton, and it accepts a label
sequence iff the input does and the sequence is non-empty or the start class was recorded as final -/
theorem minimize_tree {d : Dfa} (h : TreeInv d) (hal : AlphabetCovers d) (hsimple : ∀ l ∈ d.alphabet, l.Simple) :
    ∃ m, minimize d pickMin = some m ∧
      ∀ w, m.Accepts w ↔ (d.Accepts w ∧ (w ≠ [] ∨ m.init ∈ m.finals)) := by
  obtain ⟨p, hp, hst⟩ := minimizePartition_stable h hal hsimple
  refine ⟨recreate d pickMin p, by simp [minimize, hp], ?_⟩
  intro w
  exact recreate_accepts (quotientOk_of_stable h hst) w

end Dfa
end Grexv
