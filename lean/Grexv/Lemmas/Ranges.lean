import Grexv.Model.Basic

/-
Range tables: a normaliser (merges touching/overlapping neighbours) that preserves membership
unconditionally, so that two tables can be compared by the kernel after normalisation and the
pointwise statement `∀ c` follows by a lemma, not by enumeration.
-/
namespace Grexv

def normAux (cur : Nat × Nat) : List (Nat × Nat) → List (Nat × Nat)
  | [] => [cur]
  | y :: rest =>
    if cur.1 ≤ y.1 ∧ y.1 ≤ cur.2 + 1 then normAux (cur.1, Nat.max cur.2 y.2) rest
    else cur :: normAux y rest

def normRanges : List (Nat × Nat) → List (Nat × Nat)
  | [] => []
  | x :: xs => normAux x xs

theorem inRanges_cons (r : Nat × Nat) (t : List (Nat × Nat)) (c : Nat) :
    inRanges (r :: t) c = ((decide (r.1 ≤ c) && decide (c ≤ r.2)) || inRanges t c) := by
  simp [inRanges, List.any_cons]

theorem inRanges_normAux (cur : Nat × Nat) (l : List (Nat × Nat)) (c : Nat) :
    inRanges (normAux cur l) c = inRanges (cur :: l) c := by
  induction l generalizing cur with
  | nil => simp [normAux]
  | cons y rest ih =>
    unfold normAux
    split
    · rename_i h
      rw [ih, inRanges_cons, inRanges_cons, inRanges_cons]
      simp only []
      by_cases h1 : cur.1 ≤ c <;> by_cases h2 : c ≤ cur.2 <;> by_cases h3 : y.1 ≤ c <;> by_cases h4 : c ≤ y.2 <;>
        simp [h1, h2, h3, h4, Nat.max_def] <;> (try split) <;> (try omega) <;> simp_all <;> omega
    · rw [inRanges_cons, ih, inRanges_cons, inRanges_cons, inRanges_cons]

theorem inRanges_norm (l : List (Nat × Nat)) (c : Nat) : inRanges (normRanges l) c = inRanges l c := by
  cases l with
  | nil => rfl
  | cons x xs => exact inRanges_normAux x xs c

theorem inRanges_eq_of_norm_eq {a b : List (Nat × Nat)} (h : normRanges a = normRanges b) (c : Nat) :
    inRanges a c = inRanges b c := by
  rw [← inRanges_norm a, ← inRanges_norm b, h]

end Grexv
