import Grexv.Model.Contracts
import Grexv.Lemmas.ElimInit

set_option linter.unusedSimpArgs false
namespace Grexv

theorem dfsOkB_sound (d : Dfa) (states : List Nat) (h : dfsOkB d states = true) : DfsOK d states := by
  simp only [dfsOkB, Bool.and_eq_true, beq_iff_eq, List.all_eq_true, Bool.or_eq_true, bne_iff_ne, ne_eq,
    List.contains_iff_mem, decide_eq_true_eq] at h
  obtain ⟨⟨h1, h2⟩, h3⟩ := h
  refine ⟨h1, ?_, h3⟩
  intro s hs e he hsrc
  rcases h2 s hs e he with hne | hm
  · exact absurd hsrc hne
  · exact hm

theorem noSelfB_sound (cfg : Config) (st : ElimState) (ns : List Nat) (h : noSelfB cfg st ns = true) : NoSelfAlong cfg st ns := by
  induction ns generalizing st with
  | nil => trivial
  | cons n ns ih =>
    simp only [noSelfB, Bool.and_eq_true, Option.isNone_iff_eq_none] at h
    exact ⟨h.1, ih _ h.2⟩

theorem plainLabelsB_sound (d : Dfa) (h : plainLabelsB d = true) : d.PlainLabels := by
  intro e he
  simp only [plainLabelsB, List.all_eq_true] at h
  have := h e he
  split at this
  · rename_i s heq
    rw [heq]
    apply Expr.plainish_ofStr
    intro hs; subst hs; simp at this
  · simp at this

/-- **S7, with the contracts as one executable check** -/
theorem elimination_lang_checked (cfg : Config) (d : Dfa) (h : elimContractsB cfg d = true) (w : Word) :
    olang (((List.range d.nodes).reverse.foldl (elimStep cfg) (elimInit cfg d d.dfs)).b.get 0) w ↔ d.LangFrom d.init w := by
  simp only [elimContractsB, Bool.and_eq_true, decide_eq_true_eq] at h
  obtain ⟨⟨⟨h1, h2⟩, h3⟩, h4⟩ := h
  exact elimination_lang cfg d (plainLabelsB_sound d h2) h1 (dfsOkB_sound d _ h3) (noSelfB_sound cfg _ _ h4) w

end Grexv
