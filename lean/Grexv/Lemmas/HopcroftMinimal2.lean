import Grexv.Lemmas.HopcroftMinimal

/-
S6, minimality continued: tries are co-accessible; the rebuilt automaton is deterministic; its states
have pairwise different right languages.
-/
set_option linter.unusedSimpArgs false
set_option linter.unusedVariables false
namespace Grexv
namespace Dfa

/-! ### every state of a trie reaches a final state -/

theorem step_cases (d : Dfa) (cur : Nat) (g : Grapheme) (hg : g.Simple) (hd : d.AllSimple) :
    (step d cur g).1 = d ∨ ((step d cur g).1.nodes = d.nodes + 1 ∧ (step d cur g).2 = d.nodes) := by
  have hout : ∀ e ∈ d.outEdges cur, e.label.Simple := by
    intro e he
    simp only [outEdges, List.mem_reverse, List.mem_filter] at he
    exact hd e he.1
  simp only [step]
  rcases findNext_simple g hg (d.outEdges cur) hout with ⟨h1, _⟩ | ⟨e, he, h1, h2⟩
  · rw [h1]; right; exact ⟨rfl, rfl⟩
  · rw [h2]; left; rfl

theorem foldl_reach (cl : Cluster) (hcl : ∀ g ∈ cl, g.Simple) :
    ∀ (d : Dfa) (cur : Nat), d.AllSimple →
      ∀ s, d.nodes ≤ s → s < (cl.foldl insertFold (d, cur)).1.nodes →
        ∃ w, Path (cl.foldl insertFold (d, cur)).1 s w (cl.foldl insertFold (d, cur)).2 := by
  induction cl with
  | nil => intro d cur _ s h1 h2; simp at h2; omega
  | cons g rest ih =>
    intro d cur hd s h1 h2
    have hg := hcl g (List.mem_cons_self)
    have hrest : ∀ g ∈ rest, g.Simple := fun x hx => hcl x (List.mem_cons_of_mem _ hx)
    let d0 : Dfa := { d with alphabet := alphaInsert g d.alphabet }
    have hd0 : d0.AllSimple := hd
    obtain ⟨_, _, hsimple, _⟩ := step_spec d0 cur g hg hd0
    have hfold : (g :: rest).foldl insertFold (d, cur) = rest.foldl insertFold (step d0 cur g) := rfl
    rw [hfold] at h2 ⊢
    rcases step_cases d0 cur g hg hd0 with hc | ⟨hc1, hc2⟩
    · exact ih hrest (step d0 cur g).1 (step d0 cur g).2 hsimple s (by rw [hc]; exact h1) h2
    · by_cases hs : s = d.nodes
      · obtain ⟨hp, _⟩ := foldl_spec rest hrest (step d0 cur g).1 (step d0 cur g).2 hsimple
        refine ⟨rest, ?_⟩
        have : (step d0 cur g).2 = s := by rw [hc2, hs]
        rw [← this]; exact hp
      · exact ih hrest (step d0 cur g).1 (step d0 cur g).2 hsimple s (by rw [hc1]; show d.nodes + 1 ≤ s; omega) h2

/-- co-accessibility except possibly for the root (the empty automaton has no final state) -/
def Coacc' (d : Dfa) : Prop := ∀ s, 0 < s → s < d.nodes → ∃ w, d.LangFrom s w

theorem insert_coacc (d : Dfa) (cl : Cluster) (hcl : ∀ g ∈ cl, g.Simple) (hd : TreeInv d) (hco : Coacc' d) :
    Coacc (insert d cl) := by
  obtain ⟨hp, hmono, hs, hinit', hfin'⟩ := foldl_spec cl hcl d d.init hd.simple
  have hreach := foldl_reach cl hcl d d.init hd.simple
  rw [insert_eq]
  let r := cl.foldl insertFold (d, d.init)
  have hlastfin : ({ r.1 with finals := if r.1.finals.contains r.2 then r.1.finals else r.1.finals ++ [r.2] } : Dfa).isFinal r.2 = true := by
    simp only [isFinal]
    split
    · assumption
    · simp
  have toLast : ∀ s w, Path r.1 s w r.2 →
      ({ r.1 with finals := if r.1.finals.contains r.2 then r.1.finals else r.1.finals ++ [r.2] } : Dfa).LangFrom s w := by
    intro s w pth
    refine ⟨r.2, ?_, hlastfin⟩
    exact Path.mono (d := r.1) (by intro e he; exact he) pth
  intro s hs'
  simp only [] at hs'
  by_cases h0 : s = d.init
  · subst h0
    exact ⟨cl, toLast d.init cl hp⟩
  · have h0' : s ≠ 0 := by rw [← hd.init0]; exact h0
    by_cases hold : s < d.nodes
    · obtain ⟨w, t, pth, hf⟩ := hco s (by omega) hold
      refine ⟨w, t, ?_, ?_⟩
      · exact Path.mono (d := d) (by intro e he; exact hmono e he) pth
      simp only [isFinal, List.contains_iff_mem] at hf ⊢
      have : t ∈ r.1.finals := by rw [hfin']; exact hf
      split
      · exact this
      · exact List.mem_append_left _ this
    · obtain ⟨w, pth⟩ := hreach s (by omega) hs'
      exact ⟨w, toLast s w pth⟩

theorem trie_coacc (cls : List Cluster) (hcls : ∀ cl ∈ cls, ∀ g ∈ cl, g.Simple) (hne : cls ≠ []) : Coacc (trie cls) := by
  suffices h : ∀ (d : Dfa), TreeInv d → (∀ f ∈ d.finals, f < d.nodes) → Coacc' d →
      (cls ≠ [] ∨ Coacc d) → Coacc (cls.foldl insert d) by
    exact h Dfa.empty empty_tree (by intro f hf; simp [Dfa.empty] at hf)
      (by intro s h1 h2; simp [Dfa.empty] at h2; omega) (Or.inl hne)
  clear hne
  induction cls with
  | nil =>
    intro d _ _ _ h
    rcases h with h | h
    · exact absurd rfl h
    · exact h
  | cons cl rest ih =>
    intro d hd hfin hco _
    have hcl := hcls cl List.mem_cons_self
    obtain ⟨ht, hf, _⟩ := insert_exact d cl hcl hd hfin
    have hc := insert_coacc d cl hcl hd hco
    exact ih (fun c hc => hcls c (List.mem_cons_of_mem _ hc)) _ ht hf (fun s _ hs => hc s hs) (Or.inr hc)

/-! ### the rebuilt automaton -/

section
variable {d : Dfa} {p : List Block}

theorem zipIdx_of_mem (b : Block) (hb : b ∈ p) : ∃ k, (b, k) ∈ p.zipIdx := by
  obtain ⟨k, hk, hbk⟩ := List.getElem_of_mem hb
  exact ⟨k, by rw [List.mem_zipIdx_iff_getElem?]; simp [List.getElem?_eq_getElem hk, hbk]⟩

/-- **determinism** -/
theorem recreate_det (h : TreeInv d) (hq : QuotientOk d pickMin p) :
    ∀ e1 ∈ (recreate d pickMin p).edges, ∀ e2 ∈ (recreate d pickMin p).edges,
      e1.src = e2.src → e1.label = e2.label → e1 = e2 := by
  intro e1 he1 e2 he2 hsrc hlab
  obtain ⟨b1, hb1, x1, hx1, rfl⟩ := (mem_recreate_edges d pickMin p e1).mp he1
  obtain ⟨b2, hb2, x2, hx2, rfl⟩ := (mem_recreate_edges d pickMin p e2).mp he2
  simp only at hsrc hlab
  obtain ⟨k1, hk1⟩ := zipIdx_of_mem b1 hb1
  obtain ⟨k2, hk2⟩ := zipIdx_of_mem b2 hb2
  have c1 := (hq.repClass b1 k1 hk1).1
  have c2 := (hq.repClass b2 k2 hk2).1
  have hk : k1 = k2 := by rw [← c1, ← c2, hsrc]
  subst hk
  have g1 := List.mem_zipIdx_iff_getElem?.mp hk1
  have g2 := List.mem_zipIdx_iff_getElem?.mp hk2
  simp only at g1 g2
  rw [g1] at g2
  simp only [Option.some.injEq] at g2
  subst g2
  obtain ⟨m1, s1⟩ := (mem_outEdges' d _ x1).mp hx1
  obtain ⟨m2, s2⟩ := (mem_outEdges' d _ x2).mp hx2
  have := h.det x1 m1 x2 m2 (by rw [s1, s2]) hlab
  subst this
  rfl

/-- right languages of the rebuilt automaton, state by state -/
theorem recreate_langFrom (hq : QuotientOk d pickMin p) (s : Nat) (hs : s < d.nodes) (w : List Grapheme) :
    (recreate d pickMin p).LangFrom (classOf p s) w ↔
      (d.LangFrom s w ∧ (w ≠ [] ∨ classOf p s ∈ (recreate d pickMin p).finals)) := by
  constructor
  · rintro ⟨c, pth, hfin⟩
    have hfin' : c ∈ (recreate d pickMin p).finals := by simpa [isFinal, List.contains_iff_mem] using hfin
    obtain ⟨t, pt, ht, hct⟩ := path_from_quotient hq pth s hs rfl
    obtain ⟨b, hb, e, he, hf, hce⟩ := (mem_recreate_finals d pickMin p c).mp hfin'
    have he2 := (mem_outEdges' d _ e).mp he
    have hdst := (hq.edgesLt e he2.1).2
    have hft : d.isFinal t = true := by
      have e1 := hq.fin t ht
      have e2 := hq.fin e.dst hdst
      have hsame : repOf p pickMin t = repOf p pickMin e.dst := by simp [repOf, hct, hce]
      rw [e1, hsame, ← e2]; exact hf
    refine ⟨⟨t, pt, hft⟩, ?_⟩
    by_cases hw : w = []
    · right
      subst hw
      cases pth
      exact hfin'
    · exact Or.inl hw
  · rintro ⟨⟨t, pt, htf⟩, hw⟩
    obtain ⟨pq, ht⟩ := path_to_quotient hq hs pt
    refine ⟨classOf p t, pq, ?_⟩
    simp only [isFinal, List.contains_iff_mem]
    by_cases hnil : w = []
    · subst hnil
      cases pt
      rcases hw with hw | hw
      · exact absurd rfl hw
      · exact hw
    · obtain ⟨u, e, he, hsrc, hdst, hu⟩ := last_edge hq pt hnil
      obtain ⟨e', he', hl, hc⟩ := hq.fwd u hu e ((mem_outEdges' d u e).mpr ⟨he, hsrc⟩)
      obtain ⟨r1, r2, r3⟩ := rep_class hq u hu
      have he2 := (mem_outEdges' d _ e').mp he'
      have hdst' := (hq.edgesLt e' he2.1).2
      have hfe' : d.isFinal e'.dst = true := by
        have e1 := hq.fin e'.dst hdst'
        have e2 := hq.fin t ht
        have hsame : repOf p pickMin e'.dst = repOf p pickMin t := by simp [repOf, hc, hdst]
        rw [e1, hsame, ← e2]
        exact htf
      exact (mem_recreate_finals d pickMin p _).mpr ⟨_, r3, e', he', hfe', by rw [hc, hdst]⟩

/-- a class other than the root's is recorded final exactly when its states are final -/
theorem recreate_final_nonroot (h : TreeInv d) (hpar : Parents d) (hst : Stable d p) (s : Nat) (hs : s < d.nodes) (h0 : 0 < s) :
    classOf p s ∈ (recreate d pickMin p).finals ↔ d.isFinal s = true := by
  have hq := quotientOk_of_stable h hst
  constructor
  · intro hc
    obtain ⟨b, hb, e, he, hf, hce⟩ := (mem_recreate_finals d pickMin p _).mp hc
    have he2 := (mem_outEdges' d _ e).mp he
    have hdst := (h.lt e he2.1).2
    obtain ⟨B, hB, h1, h2⟩ := sameBlock_of_classOf hst.pinv s e.dst hs hdst hce
    rw [hst.pinv.homog B hB s h1 e.dst h2]; exact hf
  · intro hf
    obtain ⟨e, he, hdst⟩ := hpar s h0 hs
    have hu : e.src < d.nodes := by have := h.lt e he; omega
    obtain ⟨e', he', hl, hc⟩ := hq.fwd e.src hu e ((mem_outEdges' d _ e).mpr ⟨he, rfl⟩)
    obtain ⟨r1, r2, r3⟩ := rep_class hq e.src hu
    have he2 := (mem_outEdges' d _ e').mp he'
    have hdst' := (h.lt e' he2.1).2
    rw [hdst] at hc
    obtain ⟨B, hB, h1, h2⟩ := sameBlock_of_classOf hst.pinv e'.dst s hdst' hs hc
    have hfe' : d.isFinal e'.dst = true := by rw [hst.pinv.homog B hB _ h1 s h2]; exact hf
    exact (mem_recreate_finals d pickMin p _).mpr ⟨_, r3, e', he', hfe', hc.symm⟩

theorem recreate_langFrom_nonroot (h : TreeInv d) (hpar : Parents d) (hst : Stable d p) (s : Nat) (hs : s < d.nodes) (h0 : 0 < s)
    (w : List Grapheme) : (recreate d pickMin p).LangFrom (classOf p s) w ↔ d.LangFrom s w := by
  rw [recreate_langFrom (quotientOk_of_stable h hst) s hs w, recreate_final_nonroot h hpar hst s hs h0]
  constructor
  · exact fun hh => hh.1
  · intro hl
    refine ⟨hl, ?_⟩
    by_cases hw : w = []
    · subst hw; exact Or.inr ((langFrom_nil d s).mp hl)
    · exact Or.inl hw

theorem recreate_langFrom_root (h : TreeInv d) (hpar : Parents d) (hst : Stable d p) (w : List Grapheme) :
    (recreate d pickMin p).LangFrom (classOf p 0) w ↔ (d.LangFrom 0 w ∧ w ≠ []) := by
  rw [recreate_langFrom (quotientOk_of_stable h hst) 0 h.pos w]
  have := init_never_final h hpar hst
  rw [h.init0] at this
  constructor
  · rintro ⟨h1, h2 | h2⟩
    · exact ⟨h1, h2⟩
    · exact absurd h2 this
  · rintro ⟨h1, h2⟩; exact ⟨h1, Or.inl h2⟩

end

theorem Path.len_le {d : Dfa} (hlt : ∀ e ∈ d.edges, e.src < e.dst) {s t : Nat} {w : List Grapheme} (p : Path d s w t) :
    s + w.length ≤ t := by
  induction p with
  | nil s => simp
  | cons e he hs _ ih => have := hlt e he; simp only [List.length_cons]; omega

theorem langFrom_len {d : Dfa} (h : TreeInv d) (s : Nat) (hs : s < d.nodes) (w : List Grapheme) (hl : d.LangFrom s w) :
    s + w.length < d.nodes := by
  obtain ⟨t, pth, _⟩ := hl
  have hlt : ∀ e ∈ d.edges, e.src < e.dst := fun e he => (h.lt e he).1
  have := Path.len_le hlt pth
  by_cases hw : w = []
  · subst hw; simpa using hs
  · have := path_end_lt h pth hw; omega

/-- the root is told apart from every other state even though its own acceptance of the empty word is lost -/
theorem root_distinguished {d : Dfa} (h : TreeInv d) (hpar : Parents d) (hco : Coacc d) (s : Nat) (hs : s < d.nodes) (h0 : 0 < s) :
    ∃ w, ¬ ((d.LangFrom 0 w ∧ w ≠ []) ↔ d.LangFrom s w) := by
  apply Classical.byContradiction
  intro hall
  have hall' : ∀ w, (d.LangFrom 0 w ∧ w ≠ []) ↔ d.LangFrom s w := by
    intro w
    apply Classical.byContradiction
    intro hc; exact hall ⟨w, hc⟩
  obtain ⟨u, pu⟩ := reach_from_root h hpar s s (Nat.le_refl _) hs
  have hu : u ≠ [] := by
    intro hc; subst hc; cases pu; omega
  have pump : ∀ n, ∃ x, d.LangFrom s x ∧ n ≤ x.length := by
    intro n
    induction n with
    | zero => obtain ⟨v, hv⟩ := hco s hs; exact ⟨v, hv, Nat.zero_le _⟩
    | succ n ih =>
      obtain ⟨x, ⟨t, px, hf⟩, hn⟩ := ih
      refine ⟨u ++ x, (hall' (u ++ x)).mp ⟨⟨t, Path.append pu px, hf⟩, by simp [hu]⟩, ?_⟩
      have : 1 ≤ u.length := by
        cases u with
        | nil => exact absurd rfl hu
        | cons a as => simp
      simp only [List.length_append]; omega
  obtain ⟨x, hx, hn⟩ := pump d.nodes
  have := langFrom_len h s hs x hx
  omega

/-- **S6, minimality** for a non-empty list of plain clusters: the automaton `minimize` returns for their trie is
deterministic and no two of its states have the same right language -/
theorem minimize_trie_minimal (cls : List Cluster) (hcls : ∀ cl ∈ cls, ∀ g ∈ cl, g.Simple) (hne : cls ≠ []) :
    ∃ m, minimize (trie cls) pickMin = some m ∧
      (∀ e1 ∈ m.edges, ∀ e2 ∈ m.edges, e1.src = e2.src → e1.label = e2.label → e1 = e2) ∧
      (∀ c c', c < m.nodes → c' < m.nodes → c ≠ c' → ∃ w, ¬ (m.LangFrom c w ↔ m.LangFrom c' w)) := by
  obtain ⟨ht, ha⟩ := trie_tree_alpha cls hcls
  have hpar := trie_parents cls hcls
  have hco := trie_coacc cls hcls hne
  obtain ⟨p, hp, hst, hcoarse⟩ := minimizePartition_coarsest ht ha.covers ha.simple hco
  have hq := quotientOk_of_stable ht hst
  refine ⟨recreate (trie cls) pickMin p, by simp [minimize, hp], recreate_det ht hq, ?_⟩
  intro c c' hc hc' hne'
  -- members of the two classes
  have member : ∀ k, k < p.length → ∃ s, s < (trie cls).nodes ∧ classOf p s = k := by
    intro k hk
    have hb : p[k] ∈ p := List.getElem_mem hk
    have hbne := hst.nonempty _ hb
    have hm := pickMin_mem _ hbne
    exact ⟨pickMin p[k], hst.pinv.bounded _ hb _ hm,
      classOf_eq p hst.pinv.disj k p[k] (List.getElem?_eq_getElem hk) _ hm⟩
  obtain ⟨s, hs, hcs⟩ := member c hc
  obtain ⟨s', hs', hcs'⟩ := member c' hc'
  have hns : ¬ SameBlock p s s' := by
    rintro ⟨B, hB, h1, h2⟩
    obtain ⟨k, hk, hkB⟩ := List.getElem_of_mem hB
    have hk' : p[k]? = some B := by rw [List.getElem?_eq_getElem hk, hkB]
    have e1 := classOf_eq p hst.pinv.disj k B hk' s h1
    have e2 := classOf_eq p hst.pinv.disj k B hk' s' h2
    exact hne' (by rw [← hcs, ← hcs', e1, e2])
  have hdist : ∃ w, ¬ ((trie cls).LangFrom s w ↔ (trie cls).LangFrom s' w) := by
    apply Classical.byContradiction
    intro hc
    apply hns
    apply (hcoarse s s' hs hs').mpr
    intro w
    apply Classical.byContradiction
    intro hw; exact hc ⟨w, hw⟩
  subst hcs hcs'
  by_cases h0 : s = 0
  · subst h0
    have h0' : 0 < s' := by
      cases s' with
      | zero => exact absurd rfl hne'
      | succ n => omega
    obtain ⟨w, hw⟩ := root_distinguished ht hpar hco s' hs' h0'
    refine ⟨w, ?_⟩
    rw [recreate_langFrom_root ht hpar hst, recreate_langFrom_nonroot ht hpar hst s' hs' h0']
    exact hw
  · by_cases h0' : s' = 0
    · subst h0'
      obtain ⟨w, hw⟩ := root_distinguished ht hpar hco s hs (by omega)
      refine ⟨w, ?_⟩
      rw [recreate_langFrom_root ht hpar hst, recreate_langFrom_nonroot ht hpar hst s hs (by omega)]
      exact fun hc => hw hc.symm
    · obtain ⟨w, hw⟩ := hdist
      refine ⟨w, ?_⟩
      rw [recreate_langFrom_nonroot ht hpar hst s hs (by omega), recreate_langFrom_nonroot ht hpar hst s' hs' (by omega)]
      exact hw

end Dfa
end Grexv
