import Grexv.Model.RegExp
import Grexv.Lemmas.Sort

/-
The threshold contract of `convert_repetitions` (S4) and the invariant that carries it through the recursion (moved here from
`Props/C13.lean` so that lemma files can use it; the namespace is kept).
-/
set_option linter.unusedSimpArgs false
set_option linter.unusedVariables false
namespace Grexv.Props.C13
open Grexv

mutual
/-- the threshold contract of one grapheme, including its nested repetitions -/
def ok (cfg : Config) : Grapheme → Bool
  | .mk chars reps mn mx =>
    ((mn == 1 && mx == 1) || (decide (mx > cfg.minRep) && decide (chars.length ≥ cfg.minLen) && mn == mx))
      && okL cfg reps
def okL (cfg : Config) : List Grapheme → Bool
  | [] => true
  | g :: gs => ok cfg g && okL cfg gs
end

theorem okL_iff (cfg : Config) (l : List Grapheme) : okL cfg l = true ↔ ∀ g ∈ l, ok cfg g = true := by
  induction l with
  | nil => simp [okL]
  | cons g gs ih => simp [okL, ih]

/-- every range produced by `create_ranges_of_repetitions` stands for more than `minRep` repetitions -/
theorem createRanges_count (cfg : Config) (m : SubMap) (r : RepRange) (h : r ∈ createRanges cfg m) :
    (r.1.2 - r.1.1) / r.2.length > cfg.minRep := by
  simp only [createRanges, List.mem_flatMap, List.mem_map, List.mem_filter, decide_eq_true_eq] at h
  obtain ⟨⟨p, is⟩, _, rr, ⟨_, hc⟩, rfl⟩ := h
  exact hc

theorem coalesceOverlapAux_subset (cur : RepRange) (l : List RepRange) :
    ∀ r ∈ coalesceOverlapAux cur l, r = cur ∨ r ∈ l := by
  induction l generalizing cur with
  | nil => simp [coalesceOverlapAux]
  | cons y rest ih =>
    intro r hr
    unfold coalesceOverlapAux at hr
    split at hr
    · rcases ih cur r hr with h | h
      · exact Or.inl h
      · exact Or.inr (List.mem_cons_of_mem _ h)
    · simp only [List.mem_cons] at hr
      rcases hr with h | h
      · exact Or.inl h
      · rcases ih y r h with h' | h'
        · exact Or.inr (by simp [h'])
        · exact Or.inr (List.mem_cons_of_mem _ h')

theorem coalesceOverlap_subset (l : List RepRange) : ∀ r ∈ coalesceOverlap l, r ∈ l := by
  cases l with
  | nil => simp [coalesceOverlap]
  | cons x xs =>
    intro r hr
    rcases coalesceOverlapAux_subset x xs r hr with h | h
    · simp [h]
    · exact List.mem_cons_of_mem _ h

theorem coalesceRepetitions_subset (l : List RepRange) : ∀ r ∈ coalesceRepetitions l, r ∈ l := by
  intro r hr
  have := coalesceOverlap_subset _ r hr
  exact (mem_sortBy _ _ _).mp this

/-- the splice loop only ever inserts graphemes that honour both thresholds -/
theorem spliceLoop_ok (cfg : Config) (rs : List RepRange) (acc : Cluster)
    (hr : ∀ r ∈ rs, (r.1.2 - r.1.1) / r.2.length > cfg.minRep)
    (hacc : ∀ g ∈ acc, ok cfg g = true) :
    ∀ g ∈ spliceLoop cfg rs acc, ok cfg g = true := by
  induction rs generalizing acc with
  | nil => simpa [spliceLoop] using hacc
  | cons r rest ih =>
    obtain ⟨rng, substr⟩ := r
    have hrest : ∀ r ∈ rest, (r.1.2 - r.1.1) / r.2.length > cfg.minRep := fun x hx => hr x (List.mem_cons_of_mem _ hx)
    unfold spliceLoop
    split
    · exact hacc
    · split
      · exact ih acc hrest hacc
      · rename_i hlen
        apply ih _ hrest
        intro g hg
        simp only [splice, List.mem_append, List.mem_cons, List.mem_nil_iff, or_false] at hg
        rcases hg with (hg | hg) | hg
        · exact hacc g (List.mem_of_mem_take hg)
        · subst hg
          have hc := hr (rng, substr) (List.mem_cons_self)
          simp only [] at hc
          have : substr.length ≥ cfg.minLen := by omega
          simp [ok, okL, hc, this]
        · exact hacc g (List.mem_of_mem_drop hg)

/-- plain graphemes (what `GraphemeCluster::from` and `Grapheme::from` produce) meet the contract -/
theorem ok_ofStr (cfg : Config) (s : Str) : ok cfg (Grapheme.ofStr s) = true := by simp [Grapheme.ofStr, ok, okL]

/-- `convert_repetitions` at any recursion depth -/
theorem convertRepsAux_ok (cfg : Config) (fuel : Nat) :
    ∀ (gs : Cluster), (∀ g ∈ gs, ok cfg g = true) → (∀ g ∈ gs, g.reps = []) →
      ∀ out, convertRepsAux cfg fuel gs = some out → ∀ g ∈ out, ok cfg g = true := by
  induction fuel with
  | zero => intro gs _ _ out h; simp [convertRepsAux] at h
  | succ f ih =>
    intro gs hgs hreps out h
    simp only [convertRepsAux] at h
    split at h
    · simp at h
    · simp only [Option.some.injEq] at h
      subst h
      intro g hg
      simp only [nestWith, List.mem_map] at hg
      obtain ⟨g0, hg0, rfl⟩ := hg
      have hr : ∀ r ∈ coalesceRepetitions (createRanges cfg (collectRepeated (gs.map Grapheme.value))),
          (r.1.2 - r.1.1) / r.2.length > cfg.minRep :=
        fun r hr => createRanges_count cfg _ r (coalesceRepetitions_subset _ r hr)
      have hok0 := spliceLoop_ok cfg _ gs hr hgs g0 hg0
      -- the grapheme keeps its (chars, min, max); its nested repetitions come from the recursive call
      cases g0 with
      | mk chars reps mn mx =>
        simp only [ok, Bool.and_eq_true] at hok0 ⊢
        refine ⟨hok0.1, ?_⟩
        simp only [Grapheme.chars, Grapheme.reps, Grapheme.min, Grapheme.max]
        cases hrec : convertRepsAux cfg f (chars.map Grapheme.ofStr) with
        | none => simpa [Option.getD] using hok0.2
        | some out =>
          simp only [Option.getD]
          rw [okL_iff]
          apply ih (chars.map Grapheme.ofStr) _ _ out hrec
          · intro g hg; simp at hg; obtain ⟨s, _, rfl⟩ := hg; exact ok_ofStr cfg s
          · intro g hg; simp at hg; obtain ⟨s, _, rfl⟩ := hg; rfl


theorem convertRepetitions_ok' (cfg : Config) (cl : Cluster)
    (hplain : ∀ g ∈ cl, ∃ s, g = Grapheme.mk s [] 1 1) :
    ∀ g ∈ convertRepetitions cfg cl, ok cfg g = true := by
  have h1 : ∀ g ∈ cl, ok cfg g = true := by
    intro g hg; obtain ⟨s, rfl⟩ := hplain g hg; simp [ok, okL]
  have h2 : ∀ g ∈ cl, g.reps = [] := by
    intro g hg; obtain ⟨s, rfl⟩ := hplain g hg; rfl
  unfold convertRepetitions
  cases h : convertRepsAux cfg (cl.length + 1) cl with
  | none => simpa [Option.getD] using h1
  | some out => simpa [Option.getD] using convertRepsAux_ok cfg _ cl h1 h2 out h

end Grexv.Props.C13
