import Grexv.Model.Api
import Grexv.Lemmas.PrintHex

/-
The Python rewrite (`replace_unicode_escape_sequences`, python.rs) on text made of pattern tokens: `PyEmit s p` says that `s` is a
sequence of tokens — a character other than the backslash, a backslash with the character it escapes, or `\u{h…}` — and that `p` is
the same sequence with every `\u{h…}` token written in Python's form.  The rewrite computes `p` (`pyRewrite_emit`).
-/
set_option linter.unusedSimpArgs false
set_option linter.unusedVariables false
namespace Grexv

/-- Python's form of the escape of `v`: `\uXXXX` up to U+FFFF, `\UXXXXXXXX` above -/
def pyEscape (v : Nat) : Str := if v ≤ 0xFFFF then [92, 117] ++ padHex 4 v else [92, 85] ++ padHex 8 v

inductive PyEmit : Str → Str → Prop where
  | nil : PyEmit [] []
  | plain (c : Nat) (h : c ≠ 92 ∧ c ≠ 13) {a b : Str} : PyEmit a b → PyEmit (c :: a) (c :: b)
  | esc (x : Nat) (h : x ≠ 117 ∧ x ≠ 10 ∧ x ≠ 13) {a b : Str} : PyEmit a b → PyEmit (92 :: x :: a) (92 :: x :: b)
  | uni (v : Nat) (h : v ≤ 0x10FFFF) {a b : Str} : PyEmit a b → PyEmit ([92, 117, 123] ++ toHex v ++ 125 :: a) (pyEscape v ++ b)

theorem PyEmit.append {a b : Str} (h1 : PyEmit a b) {c d : Str} (h2 : PyEmit c d) : PyEmit (a ++ c) (b ++ d) := by
  induction h1 with
  | nil => simpa using h2
  | plain x hx _ ih => exact PyEmit.plain x hx ih
  | esc x hx _ ih => exact PyEmit.esc x hx ih
  | uni v hv _ ih =>
    have := PyEmit.uni v hv ih
    simpa [List.append_assoc] using this

/-- the pattern text has no carriage return (it is written `\r`) -/
theorem PyEmit.nocr {s p : Str} (h : PyEmit s p) : 13 ∉ s := by
  induction h with
  | nil => simp
  | plain c hc _ ih => simp only [List.mem_cons, not_or]; exact ⟨fun e => hc.2 e.symm, ih⟩
  | esc x hx _ ih => simp only [List.mem_cons, not_or]; exact ⟨by decide, fun e => hx.2.2 e.symm, ih⟩
  | uni v _ _ ih =>
    intro hm
    simp only [List.cons_append, List.nil_append, List.mem_cons, List.mem_append] at hm
    rcases hm with hm | hm | hm | hm | hm | hm
    · omega
    · omega
    · omega
    · rw [toHex_eq] at hm
      obtain ⟨d, hd, hd13⟩ := List.mem_map.mp hm
      have : ∀ d, d < 16 → hexDigit d ≠ 13 := by decide
      exact this d (hexDigs_lt 64 v d hd) hd13
    · omega
    · exact ih hm

/-- the token reading is unique: the Python text is a function of the pattern text -/
theorem PyEmit.unique {s p : Str} (h1 : PyEmit s p) : ∀ {q : Str}, PyEmit s q → p = q := by
  induction h1 with
  | nil => intro q h2; cases h2; rfl
  | plain c hc _ ih =>
    intro q h2
    cases h2 with
    | plain _ _ h' => rw [ih h']
    | esc _ _ _ => exact absurd rfl hc.1
    | uni v _ _ => exact absurd rfl hc.1
  | esc x hx _ ih =>
    intro q h2
    generalize hs : (92 :: x :: _ : Str) = s at h2
    cases h2 with
    | nil => cases hs
    | plain c hc _ => simp only [List.cons.injEq] at hs; exact absurd hs.1.symm hc.1
    | esc y _ h' =>
      simp only [List.cons.injEq] at hs
      obtain ⟨_, rfl, rfl⟩ := hs
      rw [ih h']
    | uni v _ _ =>
      simp only [List.cons_append, List.nil_append, List.cons.injEq] at hs
      exact absurd hs.2.1 hx.1
  | uni v hv hab ih =>
    rename_i a b
    intro q h2
    generalize hs : ([92, 117, 123] ++ toHex v ++ 125 :: a : Str) = s at h2
    cases h2 with
    | nil => simp at hs
    | plain c hc _ => simp only [List.cons_append, List.nil_append, List.cons.injEq] at hs; exact absurd hs.1.symm hc.1
    | esc y hy _ => simp only [List.cons_append, List.nil_append, List.cons.injEq] at hs; exact absurd hs.2.1.symm hy.1
    | uni w hw h' =>
      rename_i a' b'
      simp only [List.cons_append, List.nil_append, List.cons.injEq, true_and] at hs
      -- the digits are read up to the first `}`: both splits of the same text agree
      have hsplit : ∀ (x y : Str) (r1 r2 : Str), (∀ c ∈ x, c ≠ 125) → (∀ c ∈ y, c ≠ 125) → x ++ 125 :: r1 = y ++ 125 :: r2 → x = y ∧ r1 = r2 := by
        intro x
        induction x with
        | nil =>
          intro y r1 r2 _ hy e
          cases y with
          | nil => simpa using e
          | cons d y' => simp only [List.nil_append, List.cons_append, List.cons.injEq] at e; exact absurd e.1.symm (hy d List.mem_cons_self)
        | cons c x' ihx =>
          intro y r1 r2 hx hy e
          cases y with
          | nil => simp only [List.nil_append, List.cons_append, List.cons.injEq] at e; exact absurd e.1 (hx c List.mem_cons_self)
          | cons d y' =>
            simp only [List.cons_append, List.cons.injEq] at e
            obtain ⟨rfl, e'⟩ := e
            obtain ⟨rfl, rfl⟩ := ihx y' r1 r2 (fun c hc => hx c (List.mem_cons_of_mem _ hc)) (fun c hc => hy c (List.mem_cons_of_mem _ hc)) e'
            exact ⟨rfl, rfl⟩
      have hno : ∀ n : Nat, ∀ c ∈ toHex n, c ≠ 125 := by
        intro n c hc
        rw [toHex_eq] at hc
        obtain ⟨d, hd, rfl⟩ := List.mem_map.mp hc
        exact hexDigit_ne_125 d (hexDigs_lt 64 n d hd)
      obtain ⟨hhex, hrest⟩ := hsplit _ _ _ _ (hno v) (hno w) hs
      subst hrest
      have hvw : v = w := by
        have h16 : ∀ n : Nat, n ≤ 0x10FFFF → n < 16 ^ 64 := by
          intro n hn
          have h2 : (0x110000 : Nat) ≤ 16 ^ 64 := by decide
          omega
        have e1 := hexDigs_value 64 v (h16 v hv)
        have e2 := hexDigs_value 64 w (h16 w hw)
        rw [toHex_eq, toHex_eq] at hhex
        have hinj : ∀ (x y : List Nat), (∀ d ∈ x, d < 16) → (∀ d ∈ y, d < 16) → x.map hexDigit = y.map hexDigit → x = y := by
          intro x
          induction x with
          | nil => intro y _ _ e; cases y with
            | nil => rfl
            | cons _ _ => simp at e
          | cons c x' ihx =>
            intro y hx hy e
            cases y with
            | nil => simp at e
            | cons d y' =>
              simp only [List.map_cons, List.cons.injEq] at e
              have hc := hx c List.mem_cons_self
              have hd := hy d List.mem_cons_self
              have : c = d := by
                have k1 := hexVal_hexDigit c hc
                have k2 := hexVal_hexDigit d hd
                rw [e.1] at k1
                rw [k1] at k2
                exact Option.some.inj k2
              subst this
              rw [ihx y' (fun d hd => hx d (List.mem_cons_of_mem _ hd)) (fun d hd => hy d (List.mem_cons_of_mem _ hd)) e.2]
        have := hinj _ _ (hexDigs_lt 64 v) (hexDigs_lt 64 w) hhex
        rw [this] at e1
        omega
      subst hvw
      rw [ih h']

/-! ### what the rewrite needs to know about the hexadecimal text -/

theorem isLowerHex_hexDigit : ∀ d, d < 16 → isLowerHex (hexDigit d) = true := by decide

theorem hexDigit_value : ∀ d, d < 16 → (if hexDigit d ≤ 57 then hexDigit d - 48 else hexDigit d - 87) = d := by decide

theorem hexValue_map (ds : List Nat) (hd : ∀ d ∈ ds, d < 16) : hexValue (ds.map hexDigit) = hexFold 0 ds := by
  unfold hexValue hexFold
  generalize (0 : Nat) = acc
  induction ds generalizing acc with
  | nil => rfl
  | cons d r ih =>
    simp only [List.map_cons, List.foldl_cons]
    rw [hexDigit_value d (hd d List.mem_cons_self)]
    exact ih (fun x hx => hd x (List.mem_cons_of_mem _ hx)) _

theorem hexDigs_length : ∀ (k f n : Nat), n < 16 ^ k → 1 ≤ k → k ≤ f → (hexDigs f n).length ≤ k
  | 0, f, n, _, hk, _ => by omega
  | k + 1, 0, n, _, _, hf => by omega
  | k + 1, f + 1, n, hn, _, hf => by
    unfold hexDigs
    split
    · simp
    · rename_i h16
      cases k with
      | zero => simp at hn; omega
      | succ k =>
        have : n / 16 < 16 ^ (k + 1) := by
          rw [Nat.div_lt_iff_lt_mul (by decide)]
          rw [Nat.pow_succ] at hn; exact hn
        have := hexDigs_length (k + 1) f (n / 16) this (by omega) (by omega)
        simp; omega

theorem toHex_facts (v : Nat) (h : v ≤ 0x10FFFF) :
    (∀ d ∈ toHex v, isLowerHex d = true) ∧ 1 ≤ (toHex v).length ∧ (toHex v).length ≤ 6 ∧ hexValue (toHex v) = v := by
  have hlt : v < 16 ^ 64 := by
    have h2 : (0x110000 : Nat) ≤ 16 ^ 64 := by decide
    omega
  rw [toHex_eq]
  refine ⟨?_, ?_, ?_, ?_⟩
  · intro d hd
    obtain ⟨x, hx, rfl⟩ := List.mem_map.mp hd
    exact isLowerHex_hexDigit x (hexDigs_lt 64 v x hx)
  · have : 0 < (hexDigs 64 v).length := List.length_pos_iff.mpr (hexDigs_ne_nil 63 v)
    simp only [List.length_map]; exact this
  · have h6 : v < 16 ^ 6 := by
      have : (0x110000 : Nat) ≤ 16 ^ 6 := by decide
      omega
    have := hexDigs_length 6 64 v h6 (by omega) (by omega)
    simpa using this
  · rw [hexValue_map _ (hexDigs_lt 64 v), hexDigs_value 64 v hlt]

/-! ### the rewrite computes the token-wise image -/

theorem pyRewrite_plain (fuel c : Nat) (rest : Str) (h : c ≠ 92) :
    pyRewrite (fuel + 1) (c :: rest) = c :: pyRewrite fuel rest := by
  rw [pyRewrite]
  · intro r hc _; exact absurd hc h
  · intro r hc _; exact absurd hc h

theorem pyRewrite_bs2 (fuel : Nat) (rest : Str) :
    pyRewrite (fuel + 1) (92 :: 92 :: rest) = 92 :: 92 :: pyRewrite fuel rest := by
  rw [pyRewrite]

theorem pyRewrite_bs (fuel x : Nat) (rest : Str) (h : x ≠ 117) (hx : x ≠ 92) :
    pyRewrite (fuel + 2) (92 :: x :: rest) = 92 :: x :: pyRewrite fuel rest := by
  have h1 : pyRewrite (fuel + 2) (92 :: x :: rest) = 92 :: pyRewrite (fuel + 1) (x :: rest) := by
    rw [pyRewrite]
    all_goals (intros; simp_all)
  rw [h1, pyRewrite_plain _ _ _ hx]

theorem pyRewrite_uni (fuel v : Nat) (hv : v ≤ 0x10FFFF) (rest : Str) :
    pyRewrite (fuel + 1) ([92, 117, 123] ++ toHex v ++ 125 :: rest) = pyEscape v ++ pyRewrite fuel rest := by
  obtain ⟨hd, h1, h6, hval⟩ := toHex_facts v hv
  have hnot : isLowerHex 125 = false := by decide
  have htw : List.takeWhile isLowerHex (toHex v ++ 125 :: rest) = toHex v := by
    rw [List.takeWhile_append_of_pos hd]; simp [List.takeWhile, hnot]
  have hdw : List.dropWhile isLowerHex (toHex v ++ 125 :: rest) = 125 :: rest := by
    rw [List.dropWhile_append_of_pos hd]; simp [List.dropWhile, hnot]
  simp only [List.cons_append, List.nil_append, pyRewrite, htw, hdw]
  simp [h1, h6, hval, pyEscape]

/-- the result does not depend on the fuel once it covers the text -/
theorem pyRewrite_emit {s p : Str} (h : PyEmit s p) : ∀ fuel, s.length ≤ fuel → pyRewrite fuel s = p := by
  induction h with
  | nil => intro fuel _; cases fuel <;> rfl
  | plain c hc _ ih =>
    intro fuel hf
    cases fuel with
    | zero => simp at hf
    | succ f => rw [pyRewrite_plain _ _ _ hc.1, ih f (by simp at hf; omega)]
  | esc x hx _ ih =>
    intro fuel hf
    simp only [List.length_cons] at hf
    by_cases h92 : x = 92
    · subst h92
      cases fuel with
      | zero => omega
      | succ f => rw [pyRewrite_bs2, ih f (by omega)]
    · cases fuel with
      | zero => omega
      | succ f =>
        cases f with
        | zero => omega
        | succ f => rw [pyRewrite_bs _ _ _ hx.1 h92, ih f (by omega)]
  | uni v hv _ ih =>
    intro fuel hf
    cases fuel with
    | zero => simp at hf
    | succ f =>
      rw [pyRewrite_uni f v hv, ih f (by simp at hf; omega)]

end Grexv
