import Grexv.Spec.Pat

/-
Simple case folding preserves membership in `\d`, `\s`, `\w` (tables of the pinned regex-syntax, generated): for every
orbit of the fold table and each of the three classes, all members of the orbit are in the class or none is.  The check is
evaluated by the kernel; to keep it linear, memberships are computed by one merge pass of a sorted list of code points over the
sorted range table (`memBits`, proved equal to `map inRanges`), once in key order and once after sorting by the folded code point.
-/
set_option linter.unusedSimpArgs false
set_option linter.unusedVariables false
namespace Grexv
namespace FoldClass

/-- ranges ascending and disjoint -/
def rangesSorted : List (Nat × Nat) → Bool
  | [] => true
  | [r] => decide (r.1 ≤ r.2)
  | r :: r' :: t => decide (r.1 ≤ r.2) && decide (r.2 < r'.1) && rangesSorted (r' :: t)

def ascending : List Nat → Bool
  | [] => true
  | [_] => true
  | a :: b :: t => decide (a ≤ b) && ascending (b :: t)

/-- membership of an ascending list of code points in a sorted range table, in one pass -/
def memBits : Nat → List (Nat × Nat) → List Nat → List Bool
  | 0, _, xs => xs.map fun _ => false
  | _ + 1, [], xs => xs.map fun _ => false
  | _ + 1, _ :: _, [] => []
  | fuel + 1, r :: t, x :: xs =>
    if x < r.1 then false :: memBits fuel (r :: t) xs
    else if x ≤ r.2 then true :: memBits fuel (r :: t) xs
    else memBits fuel t (x :: xs)

theorem ascending_tail (a : Nat) (t : List Nat) (h : ascending (a :: t) = true) : ascending t = true := by
  cases t with
  | nil => rfl
  | cons b t => simp only [ascending, Bool.and_eq_true] at h; exact h.2

theorem ascending_head_le (a : Nat) (t : List Nat) (h : ascending (a :: t) = true) : ∀ y ∈ t, a ≤ y := by
  induction t generalizing a with
  | nil => intro y hy; simp at hy
  | cons b t ih =>
    intro y hy
    simp only [ascending, Bool.and_eq_true, decide_eq_true_eq] at h
    simp only [List.mem_cons] at hy
    rcases hy with rfl | hy
    · exact h.1
    · exact Nat.le_trans h.1 (ih b h.2 y hy)

theorem rangesSorted_tail (r : Nat × Nat) (t : List (Nat × Nat)) (h : rangesSorted (r :: t) = true) : rangesSorted t = true := by
  cases t with
  | nil => rfl
  | cons r' t => simp only [rangesSorted, Bool.and_eq_true] at h; exact h.2

/-- every later range starts above the end of the first -/
theorem rangesSorted_above (r : Nat × Nat) (t : List (Nat × Nat)) (h : rangesSorted (r :: t) = true) :
    r.1 ≤ r.2 ∧ ∀ q ∈ t, r.2 < q.1 := by
  induction t generalizing r with
  | nil => simp only [rangesSorted, decide_eq_true_eq] at h; exact ⟨h, by intro q hq; simp at hq⟩
  | cons r' t ih =>
    simp only [rangesSorted, Bool.and_eq_true, decide_eq_true_eq] at h
    obtain ⟨⟨h1, h2⟩, h3⟩ := h
    refine ⟨h1, ?_⟩
    intro q hq
    simp only [List.mem_cons] at hq
    rcases hq with rfl | hq
    · exact h2
    · have := (ih r' h3).2 q hq
      have := (ih r' h3).1
      omega

theorem inRanges_cons (r : Nat × Nat) (t : List (Nat × Nat)) (c : Nat) :
    inRanges (r :: t) c = ((decide (r.1 ≤ c) && decide (c ≤ r.2)) || inRanges t c) := by
  simp [inRanges]

theorem inRanges_below (t : List (Nat × Nat)) (c : Nat) (h : ∀ q ∈ t, c < q.1) : inRanges t c = false := by
  induction t with
  | nil => rfl
  | cons r t ih =>
    rw [inRanges_cons, ih (fun q hq => h q (List.mem_cons_of_mem _ hq))]
    have := h r List.mem_cons_self
    simp; omega

/-- **the merge pass computes `inRanges`** -/
theorem memBits_eq : ∀ (fuel : Nat) (t : List (Nat × Nat)) (xs : List Nat), t.length + xs.length < fuel →
    rangesSorted t = true → ascending xs = true → memBits fuel t xs = xs.map (inRanges t) := by
  intro fuel
  induction fuel with
  | zero => intro t xs h; omega
  | succ f ih =>
    intro t xs hf ht hx
    cases t with
    | nil =>
      cases xs <;> simp [memBits, inRanges]
    | cons r t =>
      cases xs with
      | nil => simp [memBits]
      | cons x xs =>
        obtain ⟨hr, habove⟩ := rangesSorted_above r t ht
        simp only [memBits, List.map_cons]
        simp only [List.length_cons] at hf
        by_cases h1 : x < r.1
        · simp only [h1, ite_true]
          rw [ih (r :: t) xs (by simp only [List.length_cons]; omega) ht (ascending_tail x xs hx)]
          congr 1
          apply Eq.symm
          apply inRanges_below
          intro q hq
          simp only [List.mem_cons] at hq
          rcases hq with rfl | hq
          · exact h1
          · have := habove q hq; omega
        · simp only [h1, ite_false]
          by_cases h2 : x ≤ r.2
          · simp only [h2, ite_true]
            rw [ih (r :: t) xs (by simp only [List.length_cons]; omega) ht (ascending_tail x xs hx)]
            congr 1
            rw [inRanges_cons]
            simp; left; omega
          · simp only [h2, ite_false]
            rw [ih t (x :: xs) (by simp only [List.length_cons]; omega) (rangesSorted_tail r t ht) hx]
            simp only [List.map_cons]
            have hall : ∀ y ∈ x :: xs, inRanges (r :: t) y = inRanges t y := by
              intro y hy
              have hxy : x ≤ y := by
                simp only [List.mem_cons] at hy
                rcases hy with rfl | hy
                · exact Nat.le_refl _
                · exact ascending_head_le x xs hx y hy
              rw [inRanges_cons]
              have : ¬ y ≤ r.2 := by omega
              simp [this]
            rw [hall x List.mem_cons_self]
            congr 1
            apply List.map_congr_left
            intro y hy
            exact (hall y (List.mem_cons_of_mem _ hy)).symm

/-! ### sorting by the folded code point (bottom-up merge sort; only membership is needed) -/

abbrev Trip := (Nat × Nat) × Bool

def mergeT : Nat → List Trip → List Trip → List Trip
  | 0, a, b => a ++ b
  | _ + 1, [], b => b
  | _ + 1, a, [] => a
  | fuel + 1, x :: a, y :: b =>
    if x.1.2 ≤ y.1.2 then x :: mergeT fuel a (y :: b) else y :: mergeT fuel (x :: a) b

theorem mem_mergeT (fuel : Nat) (a b : List Trip) (z : Trip) : z ∈ mergeT fuel a b ↔ z ∈ a ∨ z ∈ b := by
  induction fuel generalizing a b with
  | zero => simp [mergeT]
  | succ f ih =>
    cases a with
    | nil => simp [mergeT]
    | cons x a =>
      cases b with
      | nil => simp [mergeT]
      | cons y b =>
        simp only [mergeT]
        split
        · simp only [List.mem_cons, ih]
          constructor
          · rintro (h | h | h | h) <;> simp [h]
          · rintro ((h | h) | h | h) <;> simp [h]
        · simp only [List.mem_cons, ih]
          constructor
          · rintro (h | (h | h) | h) <;> simp [h]
          · rintro ((h | h) | h | h) <;> simp [h]

def mergePairs : List (List Trip) → List (List Trip)
  | a :: b :: rest => mergeT (a.length + b.length) a b :: mergePairs rest
  | l => l

theorem mem_mergePairs (ls : List (List Trip)) (z : Trip) : (∃ l ∈ mergePairs ls, z ∈ l) ↔ ∃ l ∈ ls, z ∈ l := by
  induction ls using mergePairs.induct with
  | case1 a b rest ih =>
    simp only [mergePairs, List.mem_cons]
    constructor
    · rintro ⟨l, hl | hl, hz⟩
      · subst hl
        rcases (mem_mergeT _ a b z).mp hz with h | h
        · exact ⟨a, Or.inl rfl, h⟩
        · exact ⟨b, Or.inr (Or.inl rfl), h⟩
      · obtain ⟨l', hl', hz'⟩ := ih.mp ⟨l, hl, hz⟩
        exact ⟨l', Or.inr (Or.inr hl'), hz'⟩
    · rintro ⟨l, hl | hl | hl, hz⟩
      · subst hl; exact ⟨_, Or.inl rfl, (mem_mergeT _ l b z).mpr (Or.inl hz)⟩
      · subst hl; exact ⟨_, Or.inl rfl, (mem_mergeT _ a l z).mpr (Or.inr hz)⟩
      · obtain ⟨l', hl', hz'⟩ := ih.mpr ⟨l, hl, hz⟩
        exact ⟨l', Or.inr hl', hz'⟩
  | case2 l _ => simp [mergePairs]

def mergeAll : Nat → List (List Trip) → List Trip
  | 0, ls => ls.flatten
  | fuel + 1, ls => match ls with
    | [] => []
    | [l] => l
    | _ => mergeAll fuel (mergePairs ls)

theorem mem_mergeAll (fuel : Nat) (ls : List (List Trip)) (z : Trip) : z ∈ mergeAll fuel ls ↔ ∃ l ∈ ls, z ∈ l := by
  induction fuel generalizing ls with
  | zero => simp [mergeAll, List.mem_flatten]
  | succ f ih =>
    match ls with
    | [] => simp [mergeAll]
    | [l] => simp [mergeAll]
    | a :: b :: rest =>
      simp only [mergeAll]
      rw [ih, mem_mergePairs]

def sortT (l : List Trip) : List Trip := mergeAll 32 (l.map fun x => [x])

theorem mem_sortT (l : List Trip) (z : Trip) : z ∈ sortT l ↔ z ∈ l := by
  simp only [sortT, mem_mergeAll, List.mem_map]
  constructor
  · rintro ⟨_, ⟨x, hx, rfl⟩, hz⟩; simp at hz; subst hz; exact hx
  · intro h; exact ⟨[z], ⟨z, h, rfl⟩, by simp⟩

/-! ### the check -/

def pairsOf (tbl : List (Nat × List Nat)) : List (Nat × Nat) := tbl.flatMap fun r => r.2.map fun o => (r.1, o)

/-- the kernel-evaluated check: all members of every orbit agree on membership in the range table `t` -/
def checkK (t : List (Nat × Nat)) (tbl : List (Nat × List Nat)) : Bool :=
  let ps := pairsOf tbl
  let t1 : List Trip := List.zip ps (memBits (t.length + ps.length + 1) t (ps.map (·.1)))
  let t2 := sortT t1
  rangesSorted t && ascending (ps.map (·.1)) && ascending (t2.map (·.1.2)) &&
    (List.zip t2 (memBits (t.length + t2.length + 1) t (t2.map (·.1.2)))).all fun xb => xb.1.2 == xb.2

theorem mem_zip_map {α β : Type} (f : α → β) (l : List α) (x : α) (h : x ∈ l) : (x, f x) ∈ List.zip l (l.map f) := by
  induction l with
  | nil => simp at h
  | cons a l ih =>
    simp only [List.map_cons, List.zip_cons_cons, List.mem_cons] at h ⊢
    rcases h with rfl | h
    · exact Or.inl rfl
    · exact Or.inr (ih h)

theorem checkK_sound (t : List (Nat × Nat)) (tbl : List (Nat × List Nat)) (h : checkK t tbl = true) :
    ∀ r ∈ tbl, ∀ o ∈ r.2, inRanges t r.1 = inRanges t o := by
  simp only [checkK, Bool.and_eq_true, List.all_eq_true, beq_iff_eq] at h
  obtain ⟨⟨⟨h1, h2⟩, h3⟩, h4⟩ := h
  intro r hr o ho
  have hp : (r.1, o) ∈ pairsOf tbl := by
    simp only [pairsOf, List.mem_flatMap, List.mem_map]
    exact ⟨r, hr, o, ho, rfl⟩
  have e1 := memBits_eq (t.length + (pairsOf tbl).length + 1) t ((pairsOf tbl).map (·.1)) (by simp) h1 h2
  rw [e1, List.map_map] at h3 h4
  have hm1 : (((r.1, o), inRanges t r.1) : Trip) ∈
      List.zip (pairsOf tbl) ((pairsOf tbl).map (inRanges t ∘ fun x => x.1)) :=
    mem_zip_map (inRanges t ∘ fun x => x.1) (pairsOf tbl) (r.1, o) hp
  have hm2 := (mem_sortT _ _).mpr hm1
  have e2 := memBits_eq (t.length + (sortT (List.zip (pairsOf tbl) ((pairsOf tbl).map (inRanges t ∘ fun x => x.1)))).length + 1) t
    ((sortT (List.zip (pairsOf tbl) ((pairsOf tbl).map (inRanges t ∘ fun x => x.1)))).map (·.1.2)) (by simp) h1 h3
  rw [e2, List.map_map] at h4
  have hm3 := mem_zip_map (inRanges t ∘ fun x : Trip => x.1.2) _ _ hm2
  have := h4 _ hm3
  simpa using this

end FoldClass

open FoldClass in
/-- **simple case folding preserves `\d`, `\s`, `\w`** (regex crate's tables): a code point and the other members of its fold orbit
are all in the class or all outside it -/
theorem perlMember_fold (k : Spec.ClassKind) (x c : Nat) (h : c ∈ Spec.foldOthers x) : Spec.perlMember k c = Spec.perlMember k x := by
  have hd : checkK Gen.rxDigit Gen.rxFold = true := by decide +kernel
  have hs : checkK Gen.rxSpace Gen.rxFold = true := by decide +kernel
  have hw : checkK Gen.rxWord Gen.rxFold = true := by decide +kernel
  unfold Spec.foldOthers at h
  cases hf : Gen.rxFold.find? (fun r => r.1 = x) with
  | none => rw [hf] at h; simp at h
  | some r =>
    rw [hf] at h
    simp only at h
    have hr := List.mem_of_find?_eq_some hf
    have hx : r.1 = x := by simpa using List.find?_some hf
    cases k with
    | digit => simp only [Spec.perlMember]; rw [← hx]; exact (checkK_sound _ _ hd r hr c h).symm
    | space => simp only [Spec.perlMember]; rw [← hx]; exact (checkK_sound _ _ hs r hr c h).symm
    | word => simp only [Spec.perlMember]; rw [← hx]; exact (checkK_sound _ _ hw r hr c h).symm

end Grexv
