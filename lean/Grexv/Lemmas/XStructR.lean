import Grexv.Lemmas.SafeRV
import Grexv.Lemmas.XTop

/-
Verbose mode with repetition conversion: the verbose text of an expression whose literals carry counted graphemes is, lexeme by lexeme,
the text printed without verbose mode plus line feeds between lexemes — a counted group is written `LF (?: LF unit LF ){n} LF`, a
counted single atom `x{n}` stays on its line.
-/
set_option linter.unusedSimpArgs false
set_option linter.unusedVariables false
namespace Grexv
open Spec

/-- the text of a grapheme inside a unit, verbose layout -/
def nTextV (cap esc : Bool) (g : Grapheme) : Str := fmtGrapheme (cfgV cap esc) (escapeGrapheme (cfgV cap esc) g)

theorem fmtGraphemes_escapeV (cap esc : Bool) : ∀ (gs : List Grapheme),
    fmtGraphemes (cfgV cap esc) (escapeGraphemes (cfgV cap esc) gs) = gs.flatMap (nTextV cap esc)
  | [] => by simp [escapeGraphemes, fmtGraphemes]
  | g :: gs => by
    simp only [escapeGraphemes, fmtGraphemes, List.flatMap_cons, nTextV]
    rw [fmtGraphemes_escapeV cap esc gs]

theorem escapeGrapheme_gOfV (cap esc : Bool) (ass : List (List Atom)) (mn mx : Nat) :
    escapeGrapheme (cfgV cap esc) (gOf ass mn mx) = Grapheme.mk (ass.map (strText esc)) [] mn mx := by
  cases esc <;> simp [gOf, escapeGrapheme, escapeGraphemes, cfgV, strText, E, Function.comp_def]

/-- a counted group in verbose layout -/
def grpV (cap : Bool) (body : Str) (mn mx : Nat) : Str := [10] ++ lp cap ++ [10] ++ body ++ [10] ++ [41] ++ quantText mn mx ++ [10]

/-- **the verbose text of a counted grapheme** -/
theorem fmt_countedV (cap esc : Bool) (ass : List (List Atom)) (hok : AssOK ass) (mn mx : Nat) (hc : Counted mn mx) :
    nTextV cap esc (gOf ass mn mx) =
      (if (Expr.graphemeCharCount (Grapheme.mk (ass.map (strText esc)) [] mn mx) false == 1 ||
          ((ass.map (strText esc)).length == 1 && isSingleEscape ((ass.map (strText esc)).headD []))) = true
       then unitText esc ass ++ quantText mn mx else grpV cap (unitText esc ass) mn mx) := by
  unfold nTextV
  rw [escapeGrapheme_gOfV]
  simp only [fmtGrapheme, List.isEmpty_nil, ite_true, flatten_map_strText, Comp.charClass, cfgV, Bool.false_and, paint,
    Bool.false_eq_true, ite_false]
  unfold quantText grpV quantText
  rcases hc with hlt | ⟨rfl, h1⟩
  · have hnr : ¬ (mn = 0 ∧ mx = 0) := by omega
    simp only [hlt, decide_true, Bool.not_true, Bool.false_and, Bool.false_eq_true, ite_false, Bool.true_and, ite_true]
    split
    · simp [Comp.repetitionRange, paint, hnr]
    · rename_i hns
      simp only [Bool.not_eq_true] at hns
      simp only [hns]
      simp [Comp.repetitionRange, Comp.paren, Comp.leftParen, Comp.rightParen, paint, hnr, lp, Gen.strCapturedLeftParen,
        Gen.strUncapturedLeftParen, Gen.strRightParen]
  · have hnl : ¬ mn < mn := Nat.lt_irrefl _
    have hn0 : mn ≠ 0 := by omega
    simp only [hnl, decide_false, Bool.not_false, Bool.true_and, h1, decide_true, ite_false, Bool.false_and, Bool.false_eq_true]
    split
    · simp [Comp.repetition, paint, hn0]
    · rename_i hns
      simp only [Bool.not_eq_true] at hns
      simp only [hns]
      simp [Comp.repetition, Comp.paren, Comp.leftParen, Comp.rightParen, paint, hn0, lp, Gen.strCapturedLeftParen,
        Gen.strUncapturedLeftParen, Gen.strRightParen]

/-- the verbose text of a counted grapheme with nested repetitions: a group around the verbose texts of the nested graphemes -/
theorem nText_nestedV (cap esc : Bool) (ass : List (List Atom)) (hok : AssOK ass) (h2 : 2 ≤ ass.length) (reps : List Grapheme)
    (hr : reps ≠ []) (mn mx : Nat) (hc : Counted mn mx) :
    nTextV cap esc (Grapheme.mk (ass.map untok) reps mn mx) = grpV cap (reps.flatMap (nTextV cap esc)) mn mx := by
  have hns : ¬ SingleUnit ass := by
    rintro ⟨a, ha, _⟩; rw [ha] at h2; simp at h2
  have hsingle : (Expr.graphemeCharCount (Grapheme.mk (ass.map (strText esc)) (escapeGraphemes (cfgV cap esc) reps) mn mx) false == 1 ||
      ((ass.map (strText esc)).length == 1 && isSingleEscape ((ass.map (strText esc)).headD []))) = false := by
    rw [graphemeCharCount_reps]
    have := isSingleChar_iff esc ass hok mn mx
    cases hb : (Expr.graphemeCharCount (Grapheme.mk (ass.map (strText esc)) [] mn mx) false == 1 ||
      ((ass.map (strText esc)).length == 1 && isSingleEscape ((ass.map (strText esc)).headD []))) with
    | false => rfl
    | true => exact absurd (this.mp hb) hns
  have hesc : escapeGrapheme (cfgV cap esc) (Grapheme.mk (ass.map untok) reps mn mx) =
      Grapheme.mk (ass.map (strText esc)) (escapeGraphemes (cfgV cap esc) reps) mn mx := by
    cases esc <;> simp [escapeGrapheme, cfgV, strText, E, Function.comp_def]
  have hre : (escapeGraphemes (cfgV cap esc) reps).isEmpty = false := by
    rw [escapeGraphemes_isEmpty]; cases reps with
    | nil => exact absurd rfl hr
    | cons _ _ => rfl
  have hne' : escapeGraphemes (cfgV cap esc) reps ≠ [] := by
    intro hc; rw [hc] at hre; simp at hre
  have hfe := fmtGraphemes_escapeV cap esc reps
  unfold nTextV at hfe ⊢
  rw [hesc]
  simp only [cfgV] at hne' hfe
  simp only [fmtGrapheme, hre, Bool.false_eq_true, ite_false, fmtGraphemes_escapeV, Comp.charClass, cfgV, Bool.false_and, paint]
  unfold grpV quantText
  rcases hc with hlt | ⟨rfl, h1⟩
  · have hnr : ¬ (mn = 0 ∧ mx = 0) := by omega
    simp only [hlt, decide_true, Bool.not_true, Bool.false_and, Bool.false_eq_true, ite_false, Bool.true_and, ite_true]
    simp only [cfgV] at hsingle
    simp only [hsingle]
    simp [Comp.repetitionRange, Comp.paren, Comp.leftParen, Comp.rightParen, paint, hnr, lp, Gen.strCapturedLeftParen,
      Gen.strUncapturedLeftParen, Gen.strRightParen, hne', hfe]
  · have hnl : ¬ mn < mn := Nat.lt_irrefl _
    have hn0 : mn ≠ 0 := by omega
    simp only [hnl, decide_false, Bool.not_false, Bool.true_and, h1, decide_true, ite_false, Bool.false_and, Bool.false_eq_true]
    simp only [cfgV] at hsingle
    simp only [hsingle]
    simp [Comp.repetition, Comp.paren, Comp.leftParen, Comp.rightParen, paint, hn0, lp, Gen.strCapturedLeftParen,
      Gen.strUncapturedLeftParen, Gen.strRightParen, hne', hfe]

theorem fmtLiteral_flatV (cap esc : Bool) (g : Grapheme) (h : g.reps = []) : fmtLiteral (cfgV cap esc) [g] = nTextV cap esc g := by
  simp [fmtLiteral, h, nTextV]

/-- a literal grapheme with nested repetitions is displayed as it is inside a unit -/
theorem fmtLiteral_nestedV (cap esc : Bool) (ass : List (List Atom)) (hok : AssOK ass) (h2 : 2 ≤ ass.length) (reps : List Grapheme)
    (hr : reps ≠ []) (mn mx : Nat) (hc : Counted mn mx) :
    fmtLiteral (cfgV cap esc) [Grapheme.mk (ass.map untok) reps mn mx] = nTextV cap esc (Grapheme.mk (ass.map untok) reps mn mx) := by
  rw [nText_nestedV cap esc ass hok h2 reps hr mn mx hc]
  have hre0 : reps.isEmpty = false := by
    cases reps with
    | nil => exact absurd rfl hr
    | cons _ _ => rfl
  have hre : (escapeGraphemes (cfgV cap esc) reps).isEmpty = false := by rw [escapeGraphemes_isEmpty]; exact hre0
  have hne' : escapeGraphemes (cfgV cap esc) reps ≠ [] := by
    intro hc'; rw [hc'] at hre; simp at hre
  have hfe := fmtGraphemes_escapeV cap esc reps
  have hsingle : (Expr.graphemeCharCount (Grapheme.mk (ass.map untok) (escapeGraphemes (cfgV cap esc) reps) mn mx) false == 1 ||
      ((ass.map untok).length == 1 && isSingleEscape ((ass.map untok).headD []))) = false := by
    have hsum : 2 ≤ ((ass.map untok).map List.length).sum := by
      apply sum_ge_two
      · intro x hx
        obtain ⟨s, hs, rfl⟩ := List.mem_map.mp hx
        obtain ⟨as, has, rfl⟩ := List.mem_map.mp hs
        exact untok_length_pos as (hok.2 as has).1
      · simpa using h2
    have hcnt : Expr.graphemeCharCount (Grapheme.mk (ass.map untok) (escapeGraphemes (cfgV cap esc) reps) mn mx) false =
        ((ass.map untok).map List.length).sum := by simp [Expr.graphemeCharCount, Grapheme.chars]
    rw [hcnt]
    have hl : (ass.map untok).length ≠ 1 := by simp; omega
    simp only [Bool.or_eq_false_iff, beq_eq_false_iff_ne, ne_eq, Bool.and_eq_false_iff]
    exact ⟨by omega, Or.inl hl⟩
  unfold nTextV at hfe
  simp only [fmtLiteral, List.flatMap_cons, List.flatMap_nil, List.append_nil, Grapheme.reps, hre0, Bool.not_false, ite_true,
    Grapheme.chars, Grapheme.min, Grapheme.max]
  simp only [cfgV] at hne' hfe hsingle hre
  simp only [fmtGrapheme, hre, Bool.false_eq_true, ite_false, Comp.charClass, cfgV, Bool.false_and, paint]
  unfold grpV quantText
  rcases hc with hlt | ⟨rfl, h1⟩
  · have hnr : ¬ (mn = 0 ∧ mx = 0) := by omega
    simp only [hlt, decide_true, Bool.not_true, Bool.false_and, Bool.false_eq_true, ite_false, Bool.true_and, ite_true]
    simp only [hsingle]
    simp [Comp.repetitionRange, Comp.paren, Comp.leftParen, Comp.rightParen, paint, hnr, lp, Gen.strCapturedLeftParen,
      Gen.strUncapturedLeftParen, Gen.strRightParen, hne', hfe]
    try rfl
  · have hnl : ¬ mn < mn := Nat.lt_irrefl _
    have hn0 : mn ≠ 0 := by omega
    simp only [hnl, decide_false, Bool.not_false, Bool.true_and, h1, decide_true, ite_false, Bool.false_and, Bool.false_eq_true]
    simp only [hsingle]
    simp [Comp.repetition, Comp.paren, Comp.leftParen, Comp.rightParen, paint, hn0, lp, Gen.strCapturedLeftParen,
      Gen.strUncapturedLeftParen, Gen.strRightParen, hne', hfe]
    try rfl

theorem fmtLiteral_oneV (cap esc : Bool) (g : Grapheme) (h : GOK g) : fmtLiteral (cfgV cap esc) [g] = nTextV cap esc g := by
  obtain ⟨chars, reps, mn, mx⟩ := g
  rcases GOK_cases chars reps mn mx h with ⟨as, hne, hok, rfl, rfl, rfl, rfl⟩ | ⟨ass, hok, rfl, rfl, hc, hb⟩ |
    ⟨ass, hok, rfl, h2, hr, hl, hc, hb⟩
  · exact fmtLiteral_flatV cap esc _ rfl
  · exact fmtLiteral_flatV cap esc _ rfl
  · exact fmtLiteral_nestedV cap esc ass hok h2 reps hr mn mx hc

theorem fmtLiteral_textV (cap esc : Bool) : ∀ (c : Cluster), GOKL c → fmtLiteral (cfgV cap esc) c = c.flatMap (nTextV cap esc)
  | [], _ => by simp [fmtLiteral]
  | g :: gs, h => by
    simp only [GOKL] at h
    have h1 := fmtLiteral_oneV cap esc g h.1
    have h2 := fmtLiteral_textV cap esc gs h.2
    simp only [fmtLiteral, List.flatMap_cons, List.flatMap_nil, List.append_nil] at h1 h2 ⊢
    rw [h1, h2]

theorem nTextV_plain (cap esc : Bool) (as : List Atom) :
    nTextV cap esc (Grapheme.mk [untok as] [] 1 1) = E esc (escapeSymbols (untok as)) :=
  fmtGrapheme_verb cap esc (untok as)

/-! ### the relation, grapheme by grapheme -/

theorem quantText_cnt (mn mx : Nat) (hc : Counted mn mx) (hb : mx ≤ 1000) : ∃ q, quantText mn mx = 123 :: q ∧ CntBody q := by
  unfold quantText
  rcases hc with hlt | ⟨rfl, _⟩
  · refine ⟨toDec mn ++ 44 :: (toDec mx ++ [125]), by simp [hlt], Or.inr ⟨mn, mx, Nat.le_of_lt hlt, ?_, rfl⟩⟩
    have : (1000 : Nat) < 10 ^ 64 := by decide
    omega
  · exact ⟨toDec mn ++ [125], by simp, Or.inl ⟨mn, hb, rfl⟩⟩

theorem quantText_nocr (mn mx : Nat) : 13 ∉ quantText mn mx := by
  intro hc
  unfold quantText at hc
  split at hc
  · simp only [List.append_assoc, List.cons_append, List.nil_append, List.mem_cons, List.mem_append, List.mem_nil_iff, or_false] at hc
    rcases hc with h | h | h | h | h
    · omega
    · have := toDec_digits mn 13 h; omega
    · omega
    · have := toDec_digits mx 13 h; omega
    · omega
  · simp only [List.append_assoc, List.cons_append, List.nil_append, List.mem_cons, List.mem_append, List.mem_nil_iff, or_false] at hc
    rcases hc with h | h | h
    · omega
    · have := toDec_digits mn 13 h; omega
    · omega

theorem Rel.quant (mn mx : Nat) (hc : Counted mn mx) (hb : mx ≤ 1000) : Rel (quantText mn mx) (quantText mn mx) := by
  obtain ⟨q, hq, hcb⟩ := quantText_cnt mn mx hc hb
  refine ⟨quantText_nocr mn mx, ?_⟩
  intro t u hx
  rw [hq]
  exact XL.cnt q t u hcb hx

theorem Rel.unit (esc : Bool) (ass : List (List Atom)) (hok : AssOK ass) :
    Rel (RV true (unitText esc ass)) (RV true (unitText esc ass)) := by
  unfold unitText
  rw [RV_flatMap]
  apply Rel.of_solid
  · apply Solid.flatMap
    intro as has
    exact solid_grapheme esc as (hok.2 as has).2
  · intro h
    obtain ⟨as, has, hm⟩ := List.mem_flatMap.mp h
    exact nocr_grapheme esc as (hok.2 as has).2 hm

/-- a counted group: `LF ( LF unit LF ){n} LF` against `(unit){n}` -/
theorem Rel.grp (cap : Bool) (xv xp : Str) (h : Rel xv xp) (hh : ∃ c r, xp ++ [41] = c :: r ∧ c ≠ 63)
    (mn mx : Nat) (hc : Counted mn mx) (hb : mx ≤ 1000) :
    Rel ([10] ++ lp cap ++ [10] ++ xv ++ [10] ++ [41] ++ quantText mn mx ++ [10]) (lp cap ++ xp ++ [41] ++ quantText mn mx) := by
  have h1 := paren_rel cap false xv xp h hh
  have h2 := Rel.append (Rel.append h1 (Rel.quant mn mx hc hb)) Rel.lf
  simpa [List.append_assoc] using h2

theorem RV_grpV (cap : Bool) (body : Str) (mn mx : Nat) :
    RV true (grpV cap body mn mx) = [10] ++ lp cap ++ [10] ++ RV true body ++ [10] ++ [41] ++ quantText mn mx ++ [10] := by
  unfold grpV
  simp only [RV_append, RV_lp, RV_lf, RV_quantText, show RV true [41] = [41] from by decide]

mutual
/-- **one grapheme**: its verbose text is its plain text with line feeds between lexemes -/
theorem relG (cap esc : Bool) : (g : Grapheme) → GOK g → Rel (RV true (nTextV cap esc g)) (RV true (nText cap esc g))
  | .mk chars reps mn mx, hok => by
    rcases GOK_cases chars reps mn mx hok with ⟨as, hne, hasok, rfl, rfl, rfl, rfl⟩ | ⟨ass, hass, rfl, rfl, hc, hb⟩ |
      ⟨ass, hass, rfl, h2, hr, hl, hc, hb⟩
    · rw [nTextV_plain, nText_plain]
      exact Rel.of_solid (solid_grapheme esc as hasok) (nocr_grapheme esc as hasok)
    · have e1 : nTextV cap esc (Grapheme.mk (ass.map untok) [] mn mx) = nTextV cap esc (gOf ass mn mx) := rfl
      rw [e1, fmt_countedV cap esc ass hass mn mx hc, nText_flat, fmt_counted cap esc ass hass mn mx hc]
      by_cases hs : (Expr.graphemeCharCount (Grapheme.mk (ass.map (strText esc)) [] mn mx) false == 1 ||
          ((ass.map (strText esc)).length == 1 && isSingleEscape ((ass.map (strText esc)).headD []))) = true
      · rw [if_pos hs, if_pos hs]
        simp only [RV_append, RV_quantText]
        exact Rel.append (Rel.unit esc ass hass) (Rel.quant mn mx hc hb)
      · rw [if_neg hs, if_neg hs, RV_grpV]
        simp only [RV_append, RV_quantText, RV_lp, show RV true [41] = [41] from by decide]
        apply Rel.grp cap _ _ (Rel.unit esc ass hass) _ mn mx hc hb
        have hh := unitText_headV true esc ass hass [41]
        cases hx : RV true (unitText esc ass) ++ [41] with
        | nil => simp at hx
        | cons c r =>
          rw [hx] at hh
          exact ⟨c, r, rfl, by simpa using hh⟩
    · rw [nText_nestedV cap esc ass hass h2 reps hr mn mx hc, nText_nested cap esc ass hass h2 reps hr mn mx hc, RV_grpV]
      simp only [RV_append, RV_quantText, RV_lp, show RV true [41] = [41] from by decide]
      apply Rel.grp cap _ _ (relGL cap esc reps hl) _ mn mx hc hb
      have hh := flatMap_headV true cap esc reps hl [41] (by simp)
      cases hx : RV true (reps.flatMap (nText cap esc)) ++ [41] with
      | nil => simp at hx
      | cons c r =>
        rw [hx] at hh
        exact ⟨c, r, rfl, by simpa using hh⟩
theorem relGL (cap esc : Bool) : (gs : List Grapheme) → GOKL gs →
    Rel (RV true (gs.flatMap (nTextV cap esc))) (RV true (gs.flatMap (nText cap esc)))
  | [], _ => by simp only [List.flatMap_nil, RV_nil]; exact Rel.nil
  | g :: gs, hok => by
    simp only [GOKL] at hok
    simp only [List.flatMap_cons, RV_append]
    exact Rel.append (relG cap esc g hok.1) (relGL cap esc gs hok.2)
end

/-- **a literal with counted graphemes** -/
theorem literal_relR (cap esc : Bool) (c : Cluster) (h : GOKL c) :
    Rel (RV true (fmtLiteral (cfgV cap esc) c)) (RV true (fmtLiteral (cfgPlain cap esc) c)) := by
  rw [fmtLiteral_textV cap esc c h, fmtLiteral_text cap esc c h]
  exact relGL cap esc c h

/-! ### expressions -/

mutual
theorem vx_exprR (cap esc : Bool) : ∀ (e : Expr), e.WFR →
    Rel (RV true (fmtExpr (cfgV cap esc) e)) (RV true (fmtExpr (cfgPlain cap esc) e))
  | .lit c, h => by
    rw [fmtExpr_verb_lit]
    simp only [fmtExpr]
    exact literal_relR cap esc c h
  | .cls cs, h => by
    rw [fmtExpr_verb_cls, fmtClass_verb]
    simp only [fmtExpr]
    exact Rel.of_solid (solid_class cap esc cs h.1) (nocr_class cap esc cs)
  | .cat a b, h => by
    simp only [fmtExpr, RV_append]
    exact Rel.append (vx_subR cap esc 2 true a h.1) (vx_subR cap esc 2 true b h.2)
  | .rep e q, h => by
    obtain ⟨rfl, hnr, hwf⟩ := h
    have hq1 : RV true (Comp.quantifier false true .question) = [63, 10] := by decide
    have hq2 : RV true (Comp.quantifier false false .question) = [63] := by decide
    simp only [fmtExpr, RV_append, cfgV, cfgPlain, hq1, hq2]
    refine Rel.append (vx_subR cap esc 3 false e hwf) ?_
    exact @Rel.append [63] [63] [10] [] (Rel.raw 63 (by decide)) Rel.lf
  | .alt os, h => by
    simp only [fmtExpr]
    exact vx_altR cap esc os h.2
theorem vx_subR (cap esc : Bool) (outer : Nat) (fb : Bool) : ∀ (e : Expr), e.WFR →
    Rel (RV true (fmtSub (cfgV cap esc) outer fb e)) (RV true (fmtSub (cfgPlain cap esc) outer fb e))
  | e, h => by
    rw [fmtSub_verb_eq, fmtSub_eq]
    by_cases hp : parenQ cap esc outer e = true
    · simp only [hp, ite_true, RV_append, RV_lp, RV_lf, RV_tail, show RV true [41] = [41] from by decide]
      apply paren_rel cap fb _ _ (vx_exprR cap esc e h)
      have hh := (Expr.ppRV true cap esc e h).head [41] (by simp)
      cases hx : RV true (fmtExpr (cfgPlain cap esc) e) ++ [41] with
      | nil => simp at hx
      | cons c r =>
        rw [hx] at hh
        exact ⟨c, r, rfl, by simpa using hh⟩
    · have hp' : parenQ cap esc outer e = false := by simpa using hp
      simp only [hp', Bool.false_eq_true, ite_false]
      exact vx_exprR cap esc e h
theorem vx_altR (cap esc : Bool) : ∀ (os : List Expr), Expr.WFLR os →
    Rel (RV true (fmtAlt (cfgV cap esc) os)) (RV true (fmtAlt (cfgPlain cap esc) os))
  | [], _ => by simp only [fmtAlt, RV_nil]; exact Rel.nil
  | [o], h => by
    simp only [fmtAlt]
    exact vx_subR cap esc 1 true o h.2.1
  | o :: o2 :: os, h => by
    have hp1 : RV true ([10] ++ Comp.pipe false ++ [10]) = [10, 124, 10] := by decide
    have hp2 : RV true (Comp.pipe false) = [124] := by decide
    simp only [fmtAlt, cfgV, cfgPlain, ite_true, Bool.false_eq_true, ite_false, RV_append, hp1, hp2]
    refine Rel.append (Rel.append (vx_subR cap esc 1 true o h.2.1) ?_) (vx_altR cap esc (o2 :: os) h.2.2)
    exact @Rel.append [10] [] [124, 10] [124] Rel.lf (@Rel.append [124] [124] [10] [] (Rel.raw 124 (by decide)) Rel.lf)
end

/-- the body in verbose layout is the plain body with line feeds between lexemes -/
theorem body_relR (cap esc : Bool) (e : Expr) (hwf : e.WFR) :
    Rel (RV true (bodyText (cfgV cap esc) e)) (RV true (bodyText (cfgPlain cap esc) e)) := by
  rw [bodyText_verb_eq, bodyText_eq]
  cases ha : e.isAlt with
  | false =>
    simp only [Bool.false_eq_true, ite_false]
    exact vx_exprR cap esc e hwf
  | true =>
    simp only [ite_true, RV_append, RV_lp, RV_lf, RV_tail, show RV true [41] = [41] from by decide]
    apply paren_rel cap false _ _ (vx_exprR cap esc e hwf)
    have hh := (Expr.ppRV true cap esc e hwf).head [41] (by simp)
    cases hx : RV true (fmtExpr (cfgPlain cap esc) e) ++ [41] with
    | nil => simp at hx
    | cons c r =>
      rw [hx] at hh
      exact ⟨c, r, rfl, by simpa using hh⟩

theorem text_relR (cap esc ns ne : Bool) (e : Expr) (hwf : e.WFR) :
    Rel (RV true (caretV ns ++ (bodyText (cfgV cap esc) e ++ dollarV ne)))
      (preT ns ++ (RV true (bodyText (cfgPlain cap esc) e) ++ postT ne)) := by
  have hc : Rel (RV true (caretV ns)) (preT ns) := by
    cases ns
    · exact @Rel.append [94] [94] [10] [] (Rel.raw 94 (by decide)) Rel.lf
    · exact Rel.nil
  have hd : Rel (RV true (dollarV ne)) (postT ne) := by
    cases ne
    · exact @Rel.append [10] [] [36] [36] Rel.lf (Rel.raw 36 (by decide))
    · exact Rel.nil
  rw [RV_append, RV_append]
  exact Rel.append hc (Rel.append (body_relR cap esc e hwf) hd)

/-- **the verbose text with counted repetitions is parsed, under its own `(?x)` flag, to the pattern of the non-verbose text** -/
theorem parse_verboseR (cap esc i ns ne : Bool) (e : Expr) (hwf : e.WFR) :
    Spec.parse (fmtRegExp (cfgVerb cap esc i ns ne) e) =
      some (⟨i, true⟩, catList (preA ns ++ (topItemsR cap esc e ++ postA ne))) := by
  rw [fmtRegExp_verb]
  have hrel := text_relR cap esc ns ne e hwf
  generalize hT : RV true (caretV ns ++ (bodyText (cfgV cap esc) e ++ dollarV ne)) = T at hrel
  have hl10 : 10 ∉ flagLine i := by cases i <;> decide
  have hlne : flagLine i ≠ [] := by cases i <;> decide
  have hcr : 13 ∉ flagLine i ++ 10 :: T := by
    have h1 : 13 ∉ flagLine i := by cases i <;> decide
    simp only [List.mem_append, List.mem_cons, not_or]
    exact ⟨h1, by decide, hrel.nocr⟩
  obtain ⟨W, hW, hed⟩ := indent_first (cfgVerb cap esc i ns ne) (flagLine i) T hl10 hlne hcr
  rw [hW]
  have hxl : XL W (preT ns ++ (RV true (bodyText (cfgPlain cap esc) e) ++ postT ne)) :=
    (XL.ws 10 _ _ (by decide) hrel.toXL).edit hed
  have hflags : parseFlags (flagLine i ++ W) = (⟨i, true⟩, W) := by
    cases i <;> simp [flagLine, parseFlags]
  simp only [Spec.parse, hflags]
  rw [parseLoop_x _ _ _ hxl]
  have hlen := hxl.length_le
  rw [loop_printedARV true cap esc ns ne e hwf (2 * W.length + 4) (by
    simp only [List.length_append] at hlen
    omega)]
  rfl

/-- **print → parse → match in verbose mode with counted repetitions**: the verbose text is accepted with the flags `x` (and `i`) set and
the compiled pattern matches a string in full iff a label sequence of the expression's language spells it — the same pattern as without
verbose mode -/
theorem printed_exact_verboseR (i cap esc ns ne : Bool) (e : Expr) (hwf : e.WFS) (s : Str) (hs : ∀ c ∈ s, Scalar c) :
    ∃ P, Spec.parse (fmtRegExp (cfgVerb cap esc i ns ne) e) = some (⟨i, true⟩, P) ∧
      (fullMatch i P s = true ↔ e.strLangR i s) := by
  have hwr := Expr.WFS.toWFR e hwf
  refine ⟨_, parse_verboseR cap esc i ns ne e hwr, ?_⟩
  obtain ⟨P, hP, hm⟩ := printed_exactAR i cap esc ns ne e hwf s hs
  have hPA := parse_ci_prefixG _ _ (flags_printedAR cap esc ns ne e hwr) (parse_printedAR cap esc ns ne e hwr) i
  rw [hPA] at hP
  simp only [Option.some.injEq, Prod.mk.injEq, true_and] at hP
  rw [hP]
  exact hm

end Grexv
