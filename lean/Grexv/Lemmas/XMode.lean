import Grexv.Lemmas.PrintCount
import Grexv.Lemmas.PrintLex
import Grexv.Lemmas.PrintHex

/-
Verbose mode of the regex syntax (`(?x)`): outside escapes and with no `#` comments, the parser ignores white space
exactly at lexeme boundaries.  `XL t u` relates a text `t` to the text `u` obtained by deleting that white space;
`parseLoop_x` shows that parsing `t` under `(?x)` is parsing `u` without it.
-/
set_option linter.unusedSimpArgs false
set_option linter.unusedVariables false
namespace Grexv
open Spec

def wsOrHash (c : Nat) : Bool := isWs c || c == 35

/-- the head of the text is neither white space nor `#` -/
def CleanHead (s : Str) : Prop := ∀ c, s.head? = some c → wsOrHash c = false

theorem skipSpace_clean (n : Nat) (s : Str) (h : CleanHead s) : skipSpace true n s = s := by
  cases n with
  | zero => rfl
  | succ n =>
    cases s with
    | nil => simp [skipSpace]
    | cons c r =>
      have := h c rfl
      simp only [wsOrHash, Bool.or_eq_false_iff, beq_eq_false_iff_ne, ne_eq] at this
      simp [skipSpace, this.1, this.2]

theorem skipSpace_ws (n : Nat) (c : Nat) (s : Str) (h : isWs c = true) :
    skipSpace true (n + 1) (c :: s) = skipSpace true n s := by
  simp [skipSpace, h]

/-- with enough fuel all leading white space is skipped -/
theorem skipSpace_dropWhile : ∀ (s : Str) (n : Nat), s.length < n → CleanHead (s.dropWhile isWs) →
    skipSpace true n s = s.dropWhile isWs
  | [], n, _, _ => by cases n <;> simp [skipSpace]
  | c :: r, n, hn, hc => by
    cases n with
    | zero => simp at hn
    | succ n =>
      by_cases hw : isWs c = true
      · rw [skipSpace_ws n c r hw]
        have : (c :: r).dropWhile isWs = r.dropWhile isWs := by simp [List.dropWhile, hw]
        rw [this] at hc ⊢
        exact skipSpace_dropWhile r n (by simp at hn; omega) hc
      · have hd : (c :: r).dropWhile isWs = c :: r := by simp [List.dropWhile, hw]
        rw [hd] at hc ⊢
        exact skipSpace_clean _ _ hc

/-! ### escapes: what follows the backslash -/

/-- the body of an escape the printer can write: one character other than `x u U`, or `u{hex…}` -/
inductive EscBody : Str → Prop where
  | one (d : Nat) (h : d ≠ 120 ∧ d ≠ 117 ∧ d ≠ 85) (h10 : d ≠ 10) : EscBody [d]
  | hex (ds : List Nat) (hd : ∀ d ∈ ds, d < 16) : EscBody (117 :: 123 :: (ds.map hexDigit ++ [125]))

theorem hexDigit_clean : ∀ d, d < 16 → wsOrHash (hexDigit d) = false := by decide

theorem skipSpace_any_clean (x : Bool) (n : Nat) (s : Str) (h : CleanHead s) : skipSpace x n s = s := by
  cases x
  · simp
  · exact skipSpace_clean n s h

theorem parseBraceHex_digits_x (x : Bool) (ds : List Nat) (hd : ∀ d ∈ ds, d < 16) :
    ∀ (F acc nd : Nat) (rest : List Nat), acc ≤ 0xFFFFFFFF →
      parseBraceHex x (F + ds.length + 1) (ds.map hexDigit ++ 125 :: rest) acc nd =
        if hexFold acc ds ≤ 0xFFFFFFFF then parseBraceHex x (F + 1) (125 :: rest) (hexFold acc ds) (nd + ds.length)
        else none := by
  induction ds with
  | nil => intro F acc nd rest ha; simp [hexFold, ha]
  | cons d r ih =>
    intro F acc nd rest ha
    have hd16 : d < 16 := hd d List.mem_cons_self
    have hr : ∀ y ∈ r, y < 16 := fun y hy => hd y (List.mem_cons_of_mem _ hy)
    have hlen : F + (d :: r).length + 1 = (F + r.length + 1) + 1 := by simp; omega
    rw [hlen]
    simp only [List.map_cons, List.cons_append]
    rw [parseBraceHex]
    have hclean : CleanHead (hexDigit d :: (List.map hexDigit r ++ 125 :: rest)) := by
      intro c hc
      simp only [List.head?_cons, Option.some.injEq] at hc
      subst hc
      exact hexDigit_clean d hd16
    rw [skipSpace_any_clean x _ _ hclean]
    simp only [hexDigit_ne_125 d hd16, ite_false, hexVal_hexDigit d hd16]
    by_cases hg : acc * 16 + d > 0xFFFFFFFF
    · have : ¬ hexFold acc (d :: r) ≤ 0xFFFFFFFF := by
        have := hexValue_ge (acc * 16 + d) r
        simp only [hexFold, List.foldl_cons] at this ⊢
        omega
      simp [hg, this]
    · simp only [hg, ite_false]
      rw [ih hr F (acc * 16 + d) (nd + 1) rest (by omega)]
      have e1 : hexFold acc (d :: r) = hexFold (acc * 16 + d) r := by simp [hexFold]
      have e2 : nd + (d :: r).length = nd + 1 + r.length := by simp; omega
      rw [e1, e2]

/-- what a one-character escape stands for -/
def escVal (c : Nat) : Option Prim :=
  if c = 100 then some (.perl .digit false)
  else if c = 68 then some (.perl .digit true)
  else if c = 115 then some (.perl .space false)
  else if c = 83 then some (.perl .space true)
  else if c = 119 then some (.perl .word false)
  else if c = 87 then some (.perl .word true)
  else if isEscapeable c then some (.lit c)
  else if c = 97 then some (.lit 7)
  else if c = 102 then some (.lit 12)
  else if c = 116 then some (.lit 9)
  else if c = 110 then some (.lit 10)
  else if c = 114 then some (.lit 13)
  else if c = 118 then some (.lit 11)
  else none

theorem parseEscape_one (x : Bool) (d : Nat) (h : d ≠ 120 ∧ d ≠ 117 ∧ d ≠ 85) (rest : Str) :
    parseEscape x (d :: rest) = (escVal d).map (fun v => (v, rest)) := by
  obtain ⟨h1, h2, h3⟩ := h
  have hcond : (decide (d = 120) || decide (d = 117) || decide (d = 85)) = false := by simp [h1, h2, h3]
  simp only [parseEscape, escVal, hcond, Bool.false_eq_true, ite_false,
    apply_ite (Option.map (fun v => (v, rest))), Option.map_some, Option.map_none]

/-- an escape body is read the same way with and without `(?x)`, whatever follows it -/
theorem parseEscape_body (pre : Str) (h : EscBody pre) :
    ∃ o : Option Prim, ∀ (x : Bool) (rest : Str), parseEscape x (pre ++ rest) = o.map (fun v => (v, rest)) := by
  cases h with
  | one d hd _ =>
    exact ⟨escVal d, fun x rest => parseEscape_one x d hd rest⟩
  | hex ds hd =>
    have key : ∀ (x : Bool) (rest : Str), parseEscape x (117 :: 123 :: (ds.map hexDigit ++ [125]) ++ rest) =
        if hexFold 0 ds ≤ 0xFFFFFFFF then
          (if ds.length = 0 then none else if isScalar (hexFold 0 ds) then some (Prim.lit (hexFold 0 ds), rest) else none)
        else none := by
      intro x rest
      have hc123 : CleanHead (123 :: (List.map hexDigit ds ++ [125] ++ rest)) := by
        intro c hc; simp only [List.head?_cons, Option.some.injEq] at hc; subst hc; decide
      have hskip := skipSpace_any_clean x ((123 :: (List.map hexDigit ds ++ [125] ++ rest)).length + 1) _ hc123
      show parseEscape x (117 :: (123 :: (List.map hexDigit ds ++ [125] ++ rest))) = _
      simp only [parseEscape]
      rw [if_pos (show (decide ((117 : Nat) = 120) || decide True || decide ((117 : Nat) = 85)) = true from by decide)]
      simp only [hskip]
      have e1 : List.map hexDigit ds ++ [125] ++ rest = List.map hexDigit ds ++ 125 :: rest := by simp
      rw [e1]
      have hfuel : (List.map hexDigit ds ++ 125 :: rest).length + 2 = (rest.length + 2) + ds.length + 1 := by
        simp only [List.length_append, List.length_map, List.length_cons]; omega
      rw [hfuel, parseBraceHex_digits_x x ds hd (rest.length + 2) 0 0 rest (by decide)]
      by_cases hb : hexFold 0 ds ≤ 0xFFFFFFFF
      · rw [if_pos hb, if_pos hb]
        rw [parseBraceHex]
        have hc125 : CleanHead (125 :: rest) := by
          intro c hc; simp only [List.head?_cons, Option.some.injEq] at hc; subst hc; decide
        rw [skipSpace_any_clean x _ _ hc125]
        simp only [ite_true, Nat.zero_add]
        by_cases h0 : ds.length = 0
        · rw [if_pos h0, if_pos h0]; rfl
        · rw [if_neg h0, if_neg h0]
          by_cases hsc : isScalar (hexFold 0 ds) = true
          · rw [if_pos hsc, if_pos hsc]; rfl
          · rw [if_neg hsc, if_neg hsc]; rfl
      · rw [if_neg hb, if_neg hb]; rfl
    by_cases hb : hexFold 0 ds ≤ 0xFFFFFFFF
    · by_cases h0 : ds.length = 0
      · exact ⟨none, fun x rest => by rw [key x rest]; simp [hb, h0]⟩
      · by_cases hsc : isScalar (hexFold 0 ds) = true
        · exact ⟨some (Prim.lit (hexFold 0 ds)), fun x rest => by rw [key x rest]; simp [hb, h0, hsc]⟩
        · exact ⟨none, fun x rest => by rw [key x rest]; simp [hb, h0, hsc]⟩
    · exact ⟨none, fun x rest => by rw [key x rest]; simp [hb]⟩

/-! ### bracketed classes -/

/-- the text of a bracketed class after `[` / `[^`, up to and including the closing bracket, without raw white space
or `#` -/
inductive ClsBody : Str → Prop where
  | close : ClsBody [93]
  | raw (c : Nat) (b : Str) (hc : wsOrHash c = false) (h93 : c ≠ 93) (h92 : c ≠ 92) : ClsBody b → ClsBody (c :: b)
  | esc (pre b : Str) : EscBody pre → ClsBody b → ClsBody (92 :: (pre ++ b))

theorem ClsBody.ne_nil {b : Str} (h : ClsBody b) : b ≠ [] := by cases h <;> simp

theorem ClsBody.cleanHead {b : Str} (h : ClsBody b) (rest : Str) : CleanHead (b ++ rest) := by
  intro c hc
  cases h with
  | close => simp at hc; subst hc; decide
  | raw d b' hd _ _ _ => simp at hc; subst hc; exact hd
  | esc pre b' _ _ => simp at hc; subst hc; decide

theorem ClsBody.head_append {b : Str} (h : ClsBody b) (rest : Str) : (b ++ rest).head? = b.head? := by
  cases b with
  | nil => exact absurd rfl h.ne_nil
  | cons c r => rfl

/-- the result of reading a class body does not depend on `(?x)`, on the fuel or on what follows the class -/
def ClsUniform (b : Str) (first : Bool) (acc : List ClassItem) : Prop :=
  ∃ res : Option (List ClassItem), ∀ (x : Bool) (F : Nat) (rest : Str), b.length < F →
    parseClassItems x F (b ++ rest) first acc = res.map (fun it => (it, rest))

/-- the part of `parseClassItems` after a literal atom `lo` has been read -/
theorem cls_after_lit (n : Nat) (ih : ∀ b : Str, b.length < n → ClsBody b → ∀ acc, ClsUniform b false acc)
    (lo : Nat) (b : Str) (hb : ClsBody b) (hn : b.length < n) (acc : List ClassItem) :
    ∃ res : Option (List ClassItem), ∀ (x : Bool) (F : Nat) (rest : Str), b.length < F →
      (let r1 := b ++ rest
       let r1s := skipSpace x (r1.length + 1) r1
       match r1s with
       | 45 :: r2 =>
         let r2s := skipSpace x (r2.length + 1) r2
         match r2s with
         | 93 :: _ => parseClassItems x F r1s false (.range lo lo :: acc)
         | 45 :: _ => none
         | _ =>
           match parseClassAtom x r2s with
           | some (.lit hi, r3) => if hi < lo then none else parseClassItems x F r3 false (.range lo hi :: acc)
           | _ => none
       | _ => parseClassItems x F r1 false (.range lo lo :: acc)) = res.map (fun it => (it, rest)) := by
  have hskip1 : ∀ x rest, skipSpace x ((b ++ rest).length + 1) (b ++ rest) = b ++ rest :=
    fun x rest => skipSpace_any_clean x _ _ (hb.cleanHead rest)
  obtain ⟨resB, hresB⟩ := ih b hn hb (.range lo lo :: acc)
  -- unless the body continues with `-`, the atom stands alone
  have alone : ∀ (c : Nat) (b' : Str), b = c :: b' → c ≠ 45 →
      ∃ res : Option (List ClassItem), ∀ (x : Bool) (F : Nat) (rest : Str), b.length < F →
      (let r1 := b ++ rest
       let r1s := skipSpace x (r1.length + 1) r1
       match r1s with
       | 45 :: r2 =>
         let r2s := skipSpace x (r2.length + 1) r2
         match r2s with
         | 93 :: _ => parseClassItems x F r1s false (.range lo lo :: acc)
         | 45 :: _ => none
         | _ =>
           match parseClassAtom x r2s with
           | some (.lit hi, r3) => if hi < lo then none else parseClassItems x F r3 false (.range lo hi :: acc)
           | _ => none
       | _ => parseClassItems x F r1 false (.range lo lo :: acc)) = res.map (fun it => (it, rest)) := by
    intro c b' hbe hc45
    refine ⟨resB, ?_⟩
    intro x F rest hF
    simp only [hskip1]
    subst hbe
    simp only [List.cons_append]
    split
    · rename_i heq; simp at heq; exact absurd heq.1 hc45
    · exact hresB x F rest hF
  cases hb with
  | close => exact alone 93 [] rfl (by decide)
  | esc pre b' hpre hb' => exact alone 92 _ rfl (by decide)
  | raw c b' hc h93 h92 hb' =>
    by_cases h45 : c ≠ 45
    · exact alone c b' rfl h45
    have h45' : c = 45 := Classical.not_not.mp h45
    subst h45'
    have hskip2 : ∀ x rest, skipSpace x ((b' ++ rest).length + 1) (b' ++ rest) = b' ++ rest :=
      fun x rest => skipSpace_any_clean x _ _ (hb'.cleanHead rest)
    -- the common reduction: after `lo-`
    have red : ∀ (x : Bool) (F : Nat) (rest : Str),
        (let r1 := (45 :: b') ++ rest
         let r1s := skipSpace x (r1.length + 1) r1
         match r1s with
         | 45 :: r2 =>
           let r2s := skipSpace x (r2.length + 1) r2
           match r2s with
           | 93 :: _ => parseClassItems x F r1s false (.range lo lo :: acc)
           | 45 :: _ => none
           | _ =>
             match parseClassAtom x r2s with
             | some (.lit hi, r3) => if hi < lo then none else parseClassItems x F r3 false (.range lo hi :: acc)
             | _ => none
         | _ => parseClassItems x F r1 false (.range lo lo :: acc)) =
        (match b' ++ rest with
         | 93 :: _ => parseClassItems x F ((45 :: b') ++ rest) false (.range lo lo :: acc)
         | 45 :: _ => none
         | _ =>
           match parseClassAtom x (b' ++ rest) with
           | some (.lit hi, r3) => if hi < lo then none else parseClassItems x F r3 false (.range lo hi :: acc)
           | _ => none) := by
      intro x F rest
      simp only [hskip1]
      simp only [List.cons_append, hskip2]
      rfl
    cases hb' with
    | close =>
      refine ⟨resB, ?_⟩
      intro x F rest hF
      rw [red]
      simp only [List.cons_append, List.nil_append]
      exact hresB x F rest hF
    | raw d b'' hd hd93 hd92 hb'' =>
      have hatom : ∀ x rest, parseClassAtom x (d :: (b'' ++ rest)) = some (.lit d, b'' ++ rest) := by
        intro x rest; simp [parseClassAtom, hd92]
      by_cases hd45 : d = 45
      · subst hd45
        exact ⟨none, fun x F rest hF => by rw [red]; rfl⟩
      · by_cases hlt : d < lo
        · refine ⟨none, ?_⟩
          intro x F rest hF
          rw [red]
          simp only [List.cons_append]
          split
          · rename_i heq; simp at heq; exact absurd heq.1 hd93
          · rename_i heq; simp at heq; exact absurd heq.1 hd45
          · rw [hatom]; simp [hlt]
        · obtain ⟨res3, hres3⟩ := ih b'' (by simp at hn ⊢; omega) hb'' (.range lo d :: acc)
          refine ⟨res3, ?_⟩
          intro x F rest hF
          rw [red]
          simp only [List.cons_append]
          split
          · rename_i heq; simp at heq; exact absurd heq.1 hd93
          · rename_i heq; simp at heq; exact absurd heq.1 hd45
          · rw [hatom]; simp only [hlt, ite_false]
            exact hres3 x F rest (by simp at hF ⊢; omega)
    | esc pre b'' hpre hb'' =>
      obtain ⟨o, ho⟩ := parseEscape_body pre hpre
      have hatom : ∀ x rest, parseClassAtom x (92 :: (pre ++ b'' ++ rest)) = o.map (fun v => (v, b'' ++ rest)) := by
        intro x rest
        have := ho x (b'' ++ rest)
        simp only [List.append_assoc, parseClassAtom]
        exact this
      have red2 : ∀ (x : Bool) (F : Nat) (rest : Str),
          (match (92 :: (pre ++ b'')) ++ rest with
           | 93 :: _ => parseClassItems x F ((45 :: 92 :: (pre ++ b'')) ++ rest) false (.range lo lo :: acc)
           | 45 :: _ => none
           | _ =>
             match parseClassAtom x ((92 :: (pre ++ b'')) ++ rest) with
             | some (.lit hi, r3) => if hi < lo then none else parseClassItems x F r3 false (.range lo hi :: acc)
             | _ => none) =
          (match o.map (fun v => (v, b'' ++ rest)) with
             | some (.lit hi, r3) => if hi < lo then none else parseClassItems x F r3 false (.range lo hi :: acc)
             | _ => none) := by
        intro x F rest
        simp only [List.cons_append]
        rw [hatom]
        try rfl
      cases o with
      | none => exact ⟨none, fun x F rest hF => by rw [(red x F rest).trans (red2 x F rest)]; rfl⟩
      | some v =>
        cases v with
        | perl k neg => exact ⟨none, fun x F rest hF => by rw [(red x F rest).trans (red2 x F rest)]; rfl⟩
        | lit hi =>
          by_cases hlt : hi < lo
          · exact ⟨none, fun x F rest hF => by rw [(red x F rest).trans (red2 x F rest)]; simp [hlt]⟩
          · obtain ⟨res3, hres3⟩ := ih b'' (by simp at hn ⊢; omega) hb'' (.range lo hi :: acc)
            refine ⟨res3, ?_⟩
            intro x F rest hF
            rw [(red x F rest).trans (red2 x F rest)]
            simp only [Option.map_some, hlt, ite_false]
            exact hres3 x F rest (by simp at hF ⊢; omega)

/-- **a class body is read the same way with and without `(?x)`**, whatever the fuel and whatever follows -/
theorem cls_uniform : ∀ (n : Nat) (b : Str), b.length < n → ClsBody b → ∀ (first : Bool),
    (first = false ∨ b.head? ≠ some 93) → ∀ acc, ClsUniform b first acc := by
  intro n
  induction n with
  | zero => intro b h; simp at h
  | succ n ihn =>
    intro b hlen hb first hfirst acc
    have ih : ∀ b' : Str, b'.length < n → ClsBody b' → ∀ acc, ClsUniform b' false acc :=
      fun b' h' hb' acc' => ihn b' h' hb' false (Or.inl rfl) acc'
    have hskip : ∀ x rest, skipSpace x ((b ++ rest).length + 1) (b ++ rest) = b ++ rest :=
      fun x rest => skipSpace_any_clean x _ _ (hb.cleanHead rest)
    -- one round of `parseClassItems` on `b ++ rest`
    have unfold1 : ∀ (x : Bool) (F : Nat) (rest : Str),
        parseClassItems x (F + 1) (b ++ rest) first acc =
          (match b ++ rest with
           | [] => none
           | c :: r =>
             if c = 93 && !first then some (acc.reverse, r)
             else if c = 91 then none
             else if (c = 38 && r.head? = some 38) || (c = 45 && r.head? = some 45) || (c = 126 && r.head? = some 126) then none
             else
               match parseClassAtom x (b ++ rest) with
               | none => none
               | some (.perl k neg, r1) => parseClassItems x F r1 false (.perl k neg :: acc)
               | some (.lit lo, r1) =>
                 let r1s := skipSpace x (r1.length + 1) r1
                 match r1s with
                 | 45 :: r2 =>
                   let r2s := skipSpace x (r2.length + 1) r2
                   match r2s with
                   | 93 :: _ => parseClassItems x F r1s false (.range lo lo :: acc)
                   | 45 :: _ => none
                   | _ =>
                     match parseClassAtom x r2s with
                     | some (.lit hi, r3) => if hi < lo then none else parseClassItems x F r3 false (.range lo hi :: acc)
                     | _ => none
                 | _ => parseClassItems x F r1 false (.range lo lo :: acc)) := by
      intro x F rest
      rw [parseClassItems]
      simp only [hskip]
      rfl
    cases hb with
    | close =>
      rcases hfirst with hf | hf
      · subst hf
        refine ⟨some acc.reverse, ?_⟩
        intro x F rest hF
        cases F with
        | zero => simp at hF
        | succ F => rw [unfold1]; simp
      · simp at hf
    | raw c b' hc h93 h92 hb' =>
      have hlen' : b'.length < n := by simp at hlen; omega
      have hhead : ∀ rest, (b' ++ rest).head? = b'.head? := fun rest => hb'.head_append rest
      by_cases h91 : c = 91
      · refine ⟨none, ?_⟩
        intro x F rest hF
        cases F with
        | zero => simp at hF
        | succ F => rw [unfold1]; simp [h93, h91]
      · by_cases hop : ((c = 38 && b'.head? = some 38) || (c = 45 && b'.head? = some 45) || (c = 126 && b'.head? = some 126)) = true
        · refine ⟨none, ?_⟩
          intro x F rest hF
          cases F with
          | zero => simp at hF
          | succ F =>
            rw [unfold1]
            simp only [List.cons_append, h93, decide_false, Bool.false_and, Bool.false_eq_true, ite_false, h91, hhead, hop, ite_true]
            rfl
        · obtain ⟨res, hres⟩ := cls_after_lit n ih c b' hb' hlen' acc
          refine ⟨res, ?_⟩
          intro x F rest hF
          cases F with
          | zero => simp at hF
          | succ F =>
            rw [unfold1]
            have hatom : parseClassAtom x (c :: (b' ++ rest)) = some (.lit c, b' ++ rest) := by
              simp [parseClassAtom, h92]
            simp only [List.cons_append, h93, decide_false, Bool.false_and, Bool.false_eq_true, ite_false, h91, hhead, hop, hatom]
            exact hres x F rest (by simp at hF; omega)
    | esc pre b' hpre hb' =>
      have hlen' : b'.length < n := by simp at hlen; omega
      obtain ⟨o, ho⟩ := parseEscape_body pre hpre
      have hatom : ∀ x rest, parseClassAtom x (92 :: (pre ++ b') ++ rest) = o.map (fun v => (v, b' ++ rest)) := by
        intro x rest
        have := ho x (b' ++ rest)
        simp only [List.cons_append, List.append_assoc, parseClassAtom]
        exact this
      have hpre0 : ∀ (x : Bool) (F : Nat) (rest : Str),
          parseClassItems x (F + 1) ((92 :: (pre ++ b')) ++ rest) first acc =
            (match o.map (fun v => (v, b' ++ rest)) with
               | none => none
               | some (.perl k neg, r1) => parseClassItems x F r1 false (.perl k neg :: acc)
               | some (.lit lo, r1) =>
                 let r1s := skipSpace x (r1.length + 1) r1
                 match r1s with
                 | 45 :: r2 =>
                   let r2s := skipSpace x (r2.length + 1) r2
                   match r2s with
                   | 93 :: _ => parseClassItems x F r1s false (.range lo lo :: acc)
                   | 45 :: _ => none
                   | _ =>
                     match parseClassAtom x r2s with
                     | some (.lit hi, r3) => if hi < lo then none else parseClassItems x F r3 false (.range lo hi :: acc)
                     | _ => none
                 | _ => parseClassItems x F r1 false (.range lo lo :: acc)) := by
        intro x F rest
        rw [unfold1, ← hatom x rest]
        simp only [List.cons_append]
        simp
        rfl
      cases o with
      | none =>
        refine ⟨none, ?_⟩
        intro x F rest hF
        cases F with
        | zero => simp at hF
        | succ F => rw [hpre0]; rfl
      | some v =>
        cases v with
        | perl k neg =>
          obtain ⟨res, hres⟩ := ih b' hlen' hb' (.perl k neg :: acc)
          refine ⟨res, ?_⟩
          intro x F rest hF
          cases F with
          | zero => simp at hF
          | succ F =>
            rw [hpre0]
            exact hres x F rest (by simp at hF; omega)
        | lit lo =>
          obtain ⟨res, hres⟩ := cls_after_lit n ih lo b' hb' hlen' acc
          refine ⟨res, ?_⟩
          intro x F rest hF
          cases F with
          | zero => simp at hF
          | succ F =>
            rw [hpre0]
            exact hres x F rest (by simp at hF; omega)

/-! ### counted repetition under the `x` flag -/

theorem digit_clean : ∀ d, d < 10 → wsOrHash (48 + d) = false := by decide

theorem toDec_head (n : Nat) (rest : Str) : ∃ d tl, toDec n ++ rest = (48 + d) :: tl ∧ d < 10 := by
  have hne := decDigs_ne_nil 63 n
  rw [toDec_eq]
  cases hc : decDigs 64 n with
  | nil => exact absurd hc hne
  | cons d tl =>
    exact ⟨d, tl.map (48 + ·) ++ rest, by simp, decDigs_lt 64 n d (by rw [hc]; exact List.mem_cons_self)⟩

theorem toDec_cleanHead (n : Nat) (rest : Str) : CleanHead (toDec n ++ rest) := by
  obtain ⟨d, tl, e, hd⟩ := toDec_head n rest
  rw [e]
  intro c hc
  simp only [List.head?_cons, Option.some.injEq] at hc
  subst hc
  exact digit_clean d hd

theorem cleanHead_cons (c : Nat) (r : Str) (h : wsOrHash c = false) : CleanHead (c :: r) := by
  intro d hd; simp only [List.head?_cons, Option.some.injEq] at hd; subst hd; exact h

/-- **`{n}` is read back as the count `n`, with or without the `x` flag** -/
theorem parseCounted_exact_x (x : Bool) (n : Nat) (hn : n ≤ 1000) (rest : List Nat) :
    parseCounted x (toDec n ++ 125 :: rest) = some ((n, some n), rest) := by
  have hlt : n < 10 ^ 64 := by
    have : (1000 : Nat) < 10 ^ 64 := by decide
    omega
  unfold parseCounted
  simp only []
  rw [skipSpace_any_clean x _ _ (toDec_cleanHead n _)]
  rw [parseDecimal_toDec n hlt 125 (by omega) rest _ (by simp)]
  simp only []
  rw [skipSpace_any_clean x _ _ (cleanHead_cons 125 rest (by decide))]
  have : ¬ n > 1000 := by omega
  simp [this]

/-- **`{m,n}` is read back as the range `m..n`, with or without the `x` flag** -/
theorem parseCounted_range_x (x : Bool) (m n : Nat) (hmn : m ≤ n) (hn : n < 10 ^ 64) (rest : List Nat) :
    parseCounted x (toDec m ++ 44 :: (toDec n ++ 125 :: rest)) = some ((m, some n), rest) := by
  have hm : m < 10 ^ 64 := by omega
  have e1 := parseDecimal_toDec m hm 44 (by omega) (toDec n ++ 125 :: rest)
    ((toDec m ++ 44 :: (toDec n ++ 125 :: rest)).length + 1) (by simp)
  have e2 := parseDecimal_toDec n hn 125 (by omega) rest ((toDec n ++ 125 :: rest).length + 1) (by simp)
  obtain ⟨d, tl, htl, hd⟩ := toDec_head n (125 :: rest)
  unfold parseCounted
  simp only []
  rw [skipSpace_any_clean x _ _ (toDec_cleanHead m _), e1]
  simp only []
  rw [skipSpace_any_clean x _ _ (cleanHead_cons 44 _ (by decide))]
  simp only []
  rw [skipSpace_any_clean x _ _ (toDec_cleanHead n _)]
  split
  · rename_i r3 heq
    rw [htl] at heq
    simp only [List.cons.injEq] at heq
    omega
  · simp only [e2]
    rw [skipSpace_any_clean x _ _ (cleanHead_cons 125 rest (by decide))]
    have : ¬ n < m := by omega
    simp [this]


/-- what follows the opening brace of a counted repetition the printer writes -/
def CntBody (q : Str) : Prop :=
  (∃ n, n ≤ 1000 ∧ q = toDec n ++ [125]) ∨ (∃ m n, m ≤ n ∧ n < 10 ^ 64 ∧ q = toDec m ++ 44 :: (toDec n ++ [125]))

theorem parseCounted_body (x : Bool) (q : Str) (h : CntBody q) (rest : Str) :
    ∃ mn mx, parseCounted x (q ++ rest) = some ((mn, some mx), rest) ∧ parseCounted false (q ++ rest) = some ((mn, some mx), rest) := by
  rcases h with ⟨n, hn, rfl⟩ | ⟨m, n, hmn, hn, rfl⟩
  · refine ⟨n, n, ?_, ?_⟩
    · simpa using parseCounted_exact_x x n hn rest
    · simpa using parseCounted_exact_x false n hn rest
  · refine ⟨m, n, ?_, ?_⟩
    · simpa using parseCounted_range_x x m n hmn hn rest
    · simpa using parseCounted_range_x false m n hmn hn rest

/-! ### whole patterns -/

/-- `t` is `u` with white space inserted between lexemes (no comments, no negated class) -/
inductive XL : Str → Str → Prop where
  | nil : XL [] []
  | ws (c : Nat) (t u : Str) : isWs c = true → XL t u → XL (c :: t) u
  | raw (c : Nat) (t u : Str) : wsOrHash c = false → c ≠ 92 → c ≠ 91 → c ≠ 40 → c ≠ 123 → XL t u → XL (c :: t) (c :: u)
  | esc (pre t u : Str) : EscBody pre → XL t u → XL (92 :: (pre ++ t)) (92 :: (pre ++ u))
  | cls (b t u : Str) : ClsBody b → b.head? ≠ some 93 → b.head? ≠ some 94 → XL t u → XL (91 :: (b ++ t)) (91 :: (b ++ u))
  | lpn (t u : Str) : XL t u → XL (40 :: 63 :: 58 :: t) (40 :: 63 :: 58 :: u)
  | lpc (t u : Str) : XL t u → (∃ h r, u = h :: r ∧ h ≠ 63) → XL (40 :: t) (40 :: u)
  | cnt (q t u : Str) : CntBody q → XL t u → XL (123 :: (q ++ t)) (123 :: (q ++ u))

theorem XL.strip {t u : Str} (h : XL t u) : XL (t.dropWhile isWs) u ∧ CleanHead (t.dropWhile isWs) := by
  induction h with
  | nil => exact ⟨XL.nil, by intro c hc; simp at hc⟩
  | ws c t u hc _ ih => simpa [List.dropWhile, hc] using ih
  | raw c t u hc h92 h91 h40 h123 ht _ =>
    have hw : isWs c = false := by
      simp only [wsOrHash, Bool.or_eq_false_iff] at hc; exact hc.1
    simp only [List.dropWhile, hw]
    exact ⟨XL.raw c t u hc h92 h91 h40 h123 ht, by intro d hd; simp at hd; subst hd; exact hc⟩
  | esc pre t u hp ht _ =>
    have hw : isWs 92 = false := by decide
    simp only [List.dropWhile, hw]
    exact ⟨XL.esc pre t u hp ht, by intro d hd; simp at hd; subst hd; decide⟩
  | cls b t u hb h1 h2 ht _ =>
    have hw : isWs 91 = false := by decide
    simp only [List.dropWhile, hw]
    exact ⟨XL.cls b t u hb h1 h2 ht, by intro d hd; simp at hd; subst hd; decide⟩
  | lpn t u ht _ =>
    have hw : isWs 40 = false := by decide
    simp only [List.dropWhile, hw]
    exact ⟨XL.lpn t u ht, by intro d hd; simp at hd; subst hd; decide⟩
  | lpc t u ht h1 _ =>
    have hw : isWs 40 = false := by decide
    simp only [List.dropWhile, hw]
    exact ⟨XL.lpc t u ht h1, by intro d hd; simp at hd; subst hd; decide⟩
  | cnt q t u hq ht _ =>
    have hw : isWs 123 = false := by decide
    simp only [List.dropWhile, hw]
    exact ⟨XL.cnt q t u hq ht, by intro d hd; simp at hd; subst hd; decide⟩

theorem XL.skip {t u : Str} (h : XL t u) :
    XL (skipSpace true (t.length + 1) t) u ∧ CleanHead (skipSpace true (t.length + 1) t) := by
  have := h.strip
  rw [skipSpace_dropWhile t (t.length + 1) (by omega) this.2]
  exact this

/-- the first character after the white space is the first character of the stripped text -/
theorem XL.head_clean {t u : Str} (h : XL t u) (hc : CleanHead t) : t.head? = u.head? := by
  cases h with
  | nil => rfl
  | ws c t u hw _ =>
    have := hc c rfl
    simp [wsOrHash, hw] at this
  | raw => rfl
  | esc => rfl
  | cls => rfl
  | lpn => rfl
  | lpc => rfl
  | cnt => rfl

theorem neg_match_x (c : Nat) (t : Str) (h94 : c ≠ 94) :
    parseLoop.match_20 (fun _ => Bool × List Nat) (c :: t) (fun r => (true, r)) (fun r => (false, r)) = (false, c :: t) := by
  split
  · rename_i h2; simp at h2; exact absurd h2.1 h94
  · rfl

/-- one round of the loop on a bracketed class that is not negated -/
theorem step_cls (x : Bool) (f : Nat) (c : Nat) (b0 r : Str) (h94 : c ≠ 94) (st : List Frame) (al co : List Pat) :
    parseLoop x (f + 1) (91 :: c :: (b0 ++ r)) st al co =
      match parseClassItems x ((c :: (b0 ++ r)).length + 2) (c :: (b0 ++ r)) true [] with
      | some (items, r2) => parseLoop x f r2 st al (.set items false :: co)
      | none => none := by
  rw [parseLoop]
  have hcl : CleanHead (91 :: c :: (b0 ++ r)) := by
    intro d hd; simp at hd; subst hd; decide
  rw [skipSpace_any_clean x _ _ hcl]
  simp only [show ((91 : Nat) = 124) = False from by decide, show ((91 : Nat) = 40) = False from by decide,
    show ((91 : Nat) = 41) = False from by decide, show ((91 : Nat) = 123) = False from by decide,
    show ((91 : Nat) = 63 || (91 : Nat) = 42 || (91 : Nat) = 43) = false from by decide,
    ite_false, ite_true, Bool.false_eq_true, neg_match_x c (b0 ++ r) h94]
  rfl

theorem XL.head_ne {v u : Str} (h : XL v u) (c : Nat) (hc : isWs c = false) (hu : u.head? ≠ some c) : v.head? ≠ some c := by
  cases h with
  | nil => simp
  | ws d t u hw _ => simp; intro e; subst e; simp [hw] at hc
  | raw => simpa using hu
  | esc => simpa using hu
  | cls => simpa using hu
  | lpn => simpa using hu
  | lpc => simpa using hu
  | cnt => simpa using hu

/-- after a quantifier: the laziness mark is looked for behind the white space -/
theorem quant_tail (f : Nat) (ih : ∀ (t u : Str), XL t u → ∀ st al co, parseLoop true f t st al co = parseLoop false f u st al co)
    (t u : Str) (h : XL t u) (st : List Frame) (al : List Pat) (p : Pat) (mn : Nat) (mx : Option Nat) (ps : List Pat) :
    (match skipSpace true (t.length + 1) t with
     | 63 :: r2 => parseLoop true f r2 st al (.rep p mn mx false :: ps)
     | _ => parseLoop true f t st al (.rep p mn mx true :: ps)) =
    (match skipSpace false (u.length + 1) u with
     | 63 :: r2 => parseLoop false f r2 st al (.rep p mn mx false :: ps)
     | _ => parseLoop false f u st al (.rep p mn mx true :: ps)) := by
  obtain ⟨h2, hc⟩ := h.skip
  generalize skipSpace true (t.length + 1) t = t2 at h2 hc
  simp only [skipSpace_false]
  cases h2 with
  | nil => exact ih t [] h st al _
  | ws c t' u' hw _ =>
    have := hc c rfl
    simp [wsOrHash, hw] at this
  | raw c t' u' hcc h92 h91 h40 h123 ht' =>
    by_cases h63 : c = 63
    · subst h63; exact ih t' u' ht' st al _
    · have e1 : (match c :: t' with
          | 63 :: r2 => parseLoop true f r2 st al (.rep p mn mx false :: ps)
          | _ => parseLoop true f t st al (.rep p mn mx true :: ps)) = parseLoop true f t st al (.rep p mn mx true :: ps) := by
        split
        · rename_i heq; simp at heq; exact absurd heq.1 h63
        · rfl
      have e2 : (match c :: u' with
          | 63 :: r2 => parseLoop false f r2 st al (.rep p mn mx false :: ps)
          | _ => parseLoop false f (c :: u') st al (.rep p mn mx true :: ps)) = parseLoop false f (c :: u') st al (.rep p mn mx true :: ps) := by
        split
        · rename_i heq; simp at heq; exact absurd heq.1 h63
        · rfl
      rw [e1, e2]
      exact ih t (c :: u') h st al _
  | esc pre t' u' hp ht' => exact ih t _ h st al _
  | cls b t' u' hb h1 h2' ht' => exact ih t _ h st al _
  | lpn t' u' ht' => exact ih t _ h st al _
  | lpc t' u' ht' h1 => exact ih t _ h st al _
  | cnt q t' u' hq ht' => exact ih t _ h st al _

/-- the loop starts by skipping white space -/
theorem parseLoop_skip (f : Nat) (t : Str) (hc : CleanHead (skipSpace true (t.length + 1) t)) (st : List Frame) (al co : List Pat) :
    parseLoop true (f + 1) t st al co = parseLoop true (f + 1) (skipSpace true (t.length + 1) t) st al co := by
  rw [parseLoop, parseLoop]
  rw [skipSpace_clean _ (skipSpace true (t.length + 1) t) hc]

/-- **parsing under `(?x)` is parsing the text without its inter-lexeme white space** -/
theorem parseLoop_x : ∀ (f : Nat) (t u : Str), XL t u → ∀ (st : List Frame) (al co : List Pat),
    parseLoop true f t st al co = parseLoop false f u st al co := by
  intro f
  induction f with
  | zero => intro t u _ st al co; rfl
  | succ f ih =>
    intro t u h st al co
    obtain ⟨h1, hc⟩ := h.skip
    rw [parseLoop_skip f t hc]
    generalize skipSpace true (t.length + 1) t = t1 at h1 hc
    cases h1 with
    | nil => rw [parseLoop, parseLoop]; rfl
    | ws c t' u' hw _ =>
      have := hc c rfl
      simp [wsOrHash, hw] at this
    | raw c t' u' hcc h92 h91 h40 h123 ht' =>
      have hq := quant_tail f ih t' u' ht' st al
      rw [parseLoop, parseLoop, skipSpace_clean _ _ hc]
      simp only [skipSpace_false, h40, h123, h91, h92, ite_false]
      by_cases h124 : c = 124
      · simp only [h124, ite_true]; exact ih t' u' ht' st _ _
      · simp only [h124, ite_false]
        by_cases h41 : c = 41
        · simp only [h41, ite_true]
          cases st with
          | nil => rfl
          | cons fr st' => exact ih t' u' ht' st' _ _
        · simp only [h41, ite_false]
          by_cases hqm : (c = 63 || c = 42 || c = 43) = true
          · simp only [hqm, ite_true]
            cases co with
            | nil => rfl
            | cons p ps =>
              cases p <;> first | rfl | exact hq _ _ _ _
          · simp only [hqm, Bool.false_eq_true, ite_false]
            by_cases h94 : c = 94
            · simp only [h94, ite_true]; exact ih t' u' ht' st al _
            · simp only [h94, ite_false]
              by_cases h36 : c = 36
              · simp only [h36, ite_true]; exact ih t' u' ht' st al _
              · simp only [h36, ite_false]
                by_cases h46 : c = 46
                · simp only [h46, ite_true]
                · simp only [h46, ite_false]; exact ih t' u' ht' st al _
    | esc pre t' u' hp ht' =>
      obtain ⟨o, ho⟩ := parseEscape_body pre hp
      rw [parseLoop, parseLoop, skipSpace_clean _ _ hc]
      simp only [skipSpace_false, show ((92 : Nat) = 124) = False from by decide, show ((92 : Nat) = 40) = False from by decide,
        show ((92 : Nat) = 41) = False from by decide, show ((92 : Nat) = 123) = False from by decide,
        show ((92 : Nat) = 91) = False from by decide, show ((92 : Nat) = 63 || (92 : Nat) = 42 || (92 : Nat) = 43) = false from by decide,
        ite_false, ite_true, Bool.false_eq_true, ho]
      cases o with
      | none => rfl
      | some v =>
        cases v with
        | lit c => exact ih t' u' ht' st al _
        | perl k neg => exact ih t' u' ht' st al _
    | cls b t' u' hb hb93 hb94 ht' =>
      obtain ⟨res, hres⟩ := cls_uniform (b.length + 1) b (by omega) hb true (Or.inr hb93) []
      cases hbe : b with
      | nil => exact absurd hbe hb.ne_nil
      | cons c b0 =>
        have h94 : c ≠ 94 := by
          intro hcc; apply hb94; rw [hbe, hcc]; rfl
        rw [hbe] at hres
        simp only [List.cons_append]
        rw [step_cls true f c b0 t' h94, step_cls false f c b0 u' h94]
        have r1 := hres true ((c :: (b0 ++ t')).length + 2) t' (by simp; omega)
        have r2 := hres false ((c :: (b0 ++ u')).length + 2) u' (by simp; omega)
        simp only [List.cons_append] at r1 r2
        rw [r1, r2]
        cases res with
        | none => rfl
        | some items => exact ih t' u' ht' st al _
    | lpn t' u' ht' =>
      rw [parseLoop, parseLoop, skipSpace_clean _ _ hc]
      simp only [skipSpace_false, show ((40 : Nat) = 124) = False from by decide, ite_false, ite_true]
      exact ih t' u' ht' _ _ _
    | lpc t' u' ht' hu =>
      obtain ⟨hh, hr, rfl, hne⟩ := hu
      have hu63 : (hh :: hr).head? ≠ some 63 := by simpa using hne
      have ht63 : t'.head? ≠ some 63 := ht'.head_ne 63 (by decide) hu63
      rw [parseLoop, parseLoop, skipSpace_clean _ _ hc]
      simp only [skipSpace_false, show ((40 : Nat) = 124) = False from by decide, ite_false, ite_true]
      have e1 : ∀ (x : Bool) (r : Str), r.head? ≠ some 63 →
          (match r with
           | 63 :: 58 :: r2 => parseLoop x f r2 (⟨false, al, co⟩ :: st) [] []
           | 63 :: _ => none
           | _ => parseLoop x f r (⟨true, al, co⟩ :: st) [] []) = parseLoop x f r (⟨true, al, co⟩ :: st) [] [] := by
        intro x r hr
        split
        · simp at hr
        · simp at hr
        · rfl
      exact ((e1 true t' ht63).trans (ih t' _ ht' _ _ _)).trans (e1 false _ hu63).symm
    | cnt q t' u' hq ht' =>
      obtain ⟨mn, mx, e1, _⟩ := parseCounted_body true q hq t'
      obtain ⟨mn', mx', _, e2⟩ := parseCounted_body false q hq u'
      have hsame : mn' = mn ∧ mx' = mx := by
        rcases hq with ⟨n, hn, rfl⟩ | ⟨m, n, hmn, hn, rfl⟩
        · have a1 := parseCounted_exact_x true n hn t'
          have a2 := parseCounted_exact_x false n hn u'
          simp only [List.append_assoc, List.singleton_append] at e1 e2
          rw [a1] at e1; rw [a2] at e2
          simp only [Option.some.injEq, Prod.mk.injEq] at e1 e2
          exact ⟨by omega, by omega⟩
        · have a1 := parseCounted_range_x true m n hmn hn t'
          have a2 := parseCounted_range_x false m n hmn hn u'
          simp only [List.append_assoc, List.cons_append, List.singleton_append, List.nil_append] at e1 e2
          rw [a1] at e1; rw [a2] at e2
          simp only [Option.some.injEq, Prod.mk.injEq] at e1 e2
          exact ⟨by omega, by omega⟩
      obtain ⟨rfl, rfl⟩ := hsame
      have hq' := quant_tail f ih t' u' ht' st al
      rw [parseLoop, parseLoop, skipSpace_clean _ _ hc]
      simp only [skipSpace_false, show ((123 : Nat) = 124) = False from by decide, show ((123 : Nat) = 40) = False from by decide,
        show ((123 : Nat) = 41) = False from by decide,
        show ((123 : Nat) = 63 || (123 : Nat) = 42 || (123 : Nat) = 43) = false from by decide,
        ite_false, ite_true, Bool.false_eq_true]
      cases co with
      | nil => rfl
      | cons p ps =>
        cases p <;> first | rfl | (simp only [e1, e2]; exact hq' _ _ _ _)

/-! ### no lexeme contains a line feed -/

theorem hexDigit_ne_10 : ∀ d, d < 16 → hexDigit d ≠ 10 := by decide

theorem EscBody.noLF {pre : Str} (h : EscBody pre) : 10 ∉ pre := by
  cases h with
  | one d _ h10 => simp; exact fun e => h10 e.symm
  | hex ds hd =>
    simp only [List.mem_cons, List.mem_append, List.mem_map, List.mem_singleton, not_or]
    refine ⟨by decide, by decide, ?_, by decide⟩
    rintro ⟨d, hdm, hd10⟩
    exact hexDigit_ne_10 d (hd d hdm) hd10

theorem wsOrHash_ne_10 {c : Nat} (h : wsOrHash c = false) : c ≠ 10 := by
  intro e; subst e; revert h; decide

theorem ClsBody.noLF {b : Str} (h : ClsBody b) : 10 ∉ b := by
  induction h with
  | close => decide
  | raw c b hc _ _ _ ih =>
    simp only [List.mem_cons, not_or]
    exact ⟨fun e => wsOrHash_ne_10 hc e.symm, ih⟩
  | esc pre b hp _ ih =>
    simp only [List.mem_cons, List.mem_append, not_or]
    exact ⟨by decide, hp.noLF, ih⟩


end Grexv
