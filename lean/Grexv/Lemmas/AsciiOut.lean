import Grexv.Model.Format

/-
C11, whole pattern: with `-e` every character `Display for RegExp` writes is ASCII, for every other setting
(colours, verbose mode, capturing groups, anchors, counted repetitions), provided the members of the
character classes are ASCII — which `union` guarantees under `-e` (see AsciiPipeline.lean).
-/
set_option linter.unusedSimpArgs false
set_option linter.unusedVariables false
namespace Grexv

def Ascii (s : Str) : Prop := ∀ x ∈ s, x < 128

theorem ascii_nil : Ascii [] := fun x hx => by simp at hx

theorem ascii_append {a b : Str} (ha : Ascii a) (hb : Ascii b) : Ascii (a ++ b) := by
  intro x hx
  simp only [List.mem_append] at hx
  rcases hx with h | h
  · exact ha x h
  · exact hb x h

theorem ascii_cons {c : Nat} {s : Str} (hc : c < 128) (hs : Ascii s) : Ascii (c :: s) := by
  intro x hx
  simp only [List.mem_cons] at hx
  rcases hx with rfl | h
  · exact hc
  · exact hs x h

theorem ascii_flatMap {α : Type} (l : List α) (f : α → Str) (h : ∀ a ∈ l, Ascii (f a)) : Ascii (l.flatMap f) := by
  intro x hx
  obtain ⟨a, ha, hxa⟩ := List.mem_flatMap.mp hx
  exact h a ha x hxa

theorem ascii_flatten (l : List Str) (h : ∀ s ∈ l, Ascii s) : Ascii l.flatten := by
  intro x hx
  obtain ⟨s, hs, hxs⟩ := List.mem_flatten.mp hx
  exact h s hs x hxs

theorem ascii_replaceChar (c : Nat) (r s : Str) (hr : Ascii r) (hs : Ascii s) : Ascii (replaceChar c r s) := by
  apply ascii_flatMap
  intro x hx
  split
  · exact hr
  · exact ascii_cons (hs x hx) ascii_nil

theorem ascii_of_dec (l : Str) (h : l.all (fun x => decide (x < 128)) = true) : Ascii l := by
  intro x hx
  have := List.all_eq_true.mp h x hx
  simpa using this

/-! ### numbers -/

theorem hexDigit_ascii (d : Nat) (h : d < 16) : hexDigit d < 128 := by
  unfold hexDigit; split <;> omega

theorem toHexAux_ascii (fuel n : Nat) (acc : Str) (hacc : Ascii acc) : Ascii (toHexAux fuel n acc) := by
  induction fuel generalizing n acc with
  | zero => simpa [toHexAux] using hacc
  | succ f ih =>
    unfold toHexAux
    split
    · exact ascii_cons (hexDigit_ascii _ (by omega)) hacc
    · exact ih _ _ (ascii_cons (hexDigit_ascii _ (Nat.mod_lt _ (by omega))) hacc)

theorem toHex_ascii (n : Nat) : Ascii (toHex n) := toHexAux_ascii _ _ _ ascii_nil

theorem decDigits_ascii (fuel n : Nat) (acc : Str) (hacc : Ascii acc) : Ascii (decDigits fuel n acc) := by
  induction fuel generalizing n acc with
  | zero => simpa [decDigits] using hacc
  | succ f ih =>
    unfold decDigits
    split
    · exact ascii_cons (by omega) hacc
    · exact ih _ _ (ascii_cons (by have := Nat.mod_lt n (show 0 < 10 by omega); omega) hacc)

theorem toDec_ascii (n : Nat) : Ascii (toDec n) := decDigits_ascii _ _ _ ascii_nil

/-- whatever the code point and whatever the surrogate option, the escaped form is ASCII -/
theorem escapeChar_ascii (c : Nat) (sur : Bool) : Ascii (Expr.escapeChar c sur) := by
  unfold Expr.escapeChar
  split
  · intro x hx; simp at hx; omega
  · split
    · intro x hx
      simp only [List.mem_append, List.mem_cons, List.mem_nil_iff, or_false] at hx
      rcases hx with ((((hx | hx) | hx) | hx) | hx) | hx
      · rcases hx with rfl | rfl | rfl <;> omega
      · exact toHex_ascii _ x hx
      · omega
      · rcases hx with rfl | rfl | rfl <;> omega
      · exact toHex_ascii _ x hx
      · omega
    · intro x hx
      simp only [List.mem_append, List.mem_cons, List.mem_nil_iff, or_false] at hx
      rcases hx with (hx | hx) | hx
      · rcases hx with rfl | rfl | rfl <;> omega
      · exact toHex_ascii _ x hx
      · omega

/-! ### components -/

theorem ascii_paint (color : Bool) (code text : Str) (hc : Ascii code) (ht : Ascii text) : Ascii (paint color code text) := by
  unfold paint colorCode
  split
  · exact ascii_append (ascii_append (ascii_append (ascii_append (ascii_of_dec _ (by decide)) hc) (ascii_of_dec _ (by decide))) ht)
      (ascii_of_dec _ (by decide))
  · exact ht

theorem ascii_ite_nl (b : Bool) : Ascii (if b then [10] else []) := by
  split
  · exact ascii_of_dec _ (by decide)
  · exact ascii_nil

open Gen in
theorem gen_strings_ascii :
    Ascii colGreenBold ∧ Ascii colYellowBold ∧ Ascii colCyanBold ∧ Ascii colRedBold ∧ Ascii colPurpleBold ∧
    Ascii colWhiteOnBrightBlue ∧ Ascii colBlackOnBrightYellow ∧ Ascii colBrightYellowOnBlack ∧
    Ascii strCapturedLeftParen ∧ Ascii strUncapturedLeftParen ∧ Ascii strRightParen ∧ Ascii strCaret ∧ Ascii strDollar ∧
    Ascii strHyphen ∧ Ascii strLeftBracket ∧ Ascii strRightBracket ∧ Ascii strPipe ∧ Ascii strStar ∧ Ascii strQuestion ∧
    Ascii strRepZero ∧ Ascii strRepRangeZero ∧ Ascii strFlagI ∧ Ascii strFlagIX ∧ Ascii strFlagX ∧
    Ascii strVerticalTab ∧ Ascii strFormFeed ∧ Ascii strHash ∧ Ascii strBlank := by
  refine ⟨?_, ?_, ?_, ?_, ?_, ?_, ?_, ?_, ?_, ?_, ?_, ?_, ?_, ?_, ?_, ?_, ?_, ?_, ?_, ?_, ?_, ?_, ?_, ?_, ?_, ?_, ?_, ?_⟩ <;>
    exact ascii_of_dec _ (by decide)

namespace Comp
open Gen

theorem paren_ascii (cap color verb fb : Bool) (expr : Str) (h : Ascii expr) : Ascii (paren cap color verb fb expr) := by
  obtain ⟨g1, g2, g3, g4, g5, g6, g7, g8, s1, s2, s3, _⟩ := gen_strings_ascii
  have hl : Ascii (leftParen cap color) := by
    unfold leftParen; split
    · exact ascii_paint _ _ _ g1 s1
    · exact ascii_paint _ _ _ g1 s2
  have hr : Ascii (rightParen color) := ascii_paint _ _ _ g1 s3
  unfold paren
  split
  · exact ascii_append (ascii_append (ascii_append (ascii_append (ascii_append (ascii_append (ascii_of_dec _ (by decide)) hl)
      (ascii_of_dec _ (by decide))) h) (ascii_of_dec _ (by decide))) hr) (ascii_ite_nl fb)
  · exact ascii_append (ascii_append hl h) hr

theorem quantifier_ascii (color verb : Bool) (q : Quant) : Ascii (quantifier color verb q) := by
  obtain ⟨g1, g2, g3, g4, g5, g6, g7, g8, s1, s2, s3, s4, s5, s6, s7, s8, s9, s10, s11, _⟩ := gen_strings_ascii
  unfold quantifier
  apply ascii_append _ (ascii_ite_nl verb)
  apply ascii_paint _ _ _ g5
  cases q
  · exact s10
  · exact s11

theorem repetition_ascii (color verb : Bool) (n : Nat) : Ascii (repetition color verb n) := by
  obtain ⟨g1, g2, g3, g4, g5, g6, g7, g8, s1, s2, s3, s4, s5, s6, s7, s8, s9, s10, s11, s12, s13, _⟩ := gen_strings_ascii
  unfold repetition
  apply ascii_append _ (ascii_ite_nl verb)
  apply ascii_paint _ _ _ g6
  split
  · exact s12
  · exact ascii_append (ascii_append (ascii_of_dec _ (by decide)) (toDec_ascii n)) (ascii_of_dec _ (by decide))

theorem repetitionRange_ascii (color verb : Bool) (m n : Nat) : Ascii (repetitionRange color verb m n) := by
  obtain ⟨g1, g2, g3, g4, g5, g6, g7, g8, s1, s2, s3, s4, s5, s6, s7, s8, s9, s10, s11, s12, s13, _⟩ := gen_strings_ascii
  unfold repetitionRange
  apply ascii_append _ (ascii_ite_nl verb)
  apply ascii_paint _ _ _ g6
  split
  · exact s13
  · exact ascii_append (ascii_append (ascii_append (ascii_append (ascii_of_dec _ (by decide)) (toDec_ascii m)) (ascii_of_dec _ (by decide)))
      (toDec_ascii n)) (ascii_of_dec _ (by decide))

theorem charClass_ascii (color : Bool) (v : Str) (h : Ascii v) : Ascii (charClass color v) :=
  ascii_paint _ _ _ gen_strings_ascii.2.2.2.2.2.2.1 h

end Comp

/-! ### graphemes and literals -/

/-- printing one grapheme whose own text and whose nested repetitions print as ASCII -/
theorem fmtGrapheme_ascii (cfg : Config) (chars : List Str) (reps : List Grapheme) (mn mx : Nat)
    (hc : reps = [] → ∀ s ∈ chars, Ascii s) (hr : reps ≠ [] → Ascii (fmtGraphemes cfg reps)) :
    Ascii (fmtGrapheme cfg (.mk chars reps mn mx)) := by
  rw [fmtGrapheme]
  have hv0 : Ascii (if reps.isEmpty then chars.flatten else fmtGraphemes cfg reps) := by
    split
    · rename_i he
      exact ascii_flatten _ (hc (List.isEmpty_iff.mp he))
    · rename_i he
      exact hr (fun h => he (by simp [h]))
  have hv := Comp.charClass_ascii (cfg.color && Gen.charClasses.contains (if reps.isEmpty then chars.flatten else fmtGraphemes cfg reps)) _ hv0
  generalize (if reps.isEmpty = true then chars.flatten else fmtGraphemes cfg reps) = v0 at hv0 hv ⊢
  repeat' split
  all_goals first
    | exact ascii_append hv (Comp.repetition_ascii _ _ _)
    | exact ascii_append (Comp.paren_ascii _ _ _ _ _ hv) (Comp.repetition_ascii _ _ _)
    | exact ascii_append hv (Comp.repetitionRange_ascii _ _ _ _)
    | exact ascii_append (Comp.paren_ascii _ _ _ _ _ hv) (Comp.repetitionRange_ascii _ _ _ _)
    | exact hv

theorem escapeSymbols_then_escape_ascii (cfg : Config) (s : Str) :
    Ascii ((escapeSymbols s).flatMap fun c => Expr.escapeChar c cfg.sur) :=
  ascii_flatMap _ _ (fun c _ => escapeChar_ascii c cfg.sur)

mutual
/-- with `-e`, an escaped grapheme prints as ASCII, at every nesting depth -/
theorem fmt_escaped_ascii (cfg : Config) (hesc : cfg.esc = true) : ∀ (g : Grapheme), Ascii (fmtGrapheme cfg (escapeGrapheme cfg g))
  | .mk chars reps mn mx => by
    simp only [escapeGrapheme, hesc, ite_true]
    apply fmtGrapheme_ascii
    · intro _ s hs
      simp only [List.mem_map] at hs
      obtain ⟨s1, ⟨s0, _, rfl⟩, rfl⟩ := hs
      exact escapeSymbols_then_escape_ascii cfg s0
    · intro _
      exact fmts_escaped_ascii cfg hesc reps
theorem fmts_escaped_ascii (cfg : Config) (hesc : cfg.esc = true) : ∀ (gs : List Grapheme), Ascii (fmtGraphemes cfg (escapeGraphemes cfg gs))
  | [] => by simp [escapeGraphemes, fmtGraphemes, ascii_nil]
  | g :: gs => by
    simp only [escapeGraphemes, fmtGraphemes]
    exact ascii_append (fmt_escaped_ascii cfg hesc g) (fmts_escaped_ascii cfg hesc gs)
end

theorem escapeGraphemes_ne (cfg : Config) (gs : List Grapheme) (h : gs ≠ []) : escapeGraphemes cfg gs ≠ [] := by
  cases gs with
  | nil => exact absurd rfl h
  | cons g gs => simp [escapeGraphemes]

theorem fmtLiteral_ascii (cfg : Config) (hesc : cfg.esc = true) (c : Cluster) : Ascii (fmtLiteral cfg c) := by
  unfold fmtLiteral
  apply ascii_flatMap
  intro g _
  simp only []
  split
  · rename_i hne
    have hne' : g.reps ≠ [] := by
      intro hc; rw [hc] at hne; simp at hne
    apply fmtGrapheme_ascii
    · intro hc; exact absurd hc (escapeGraphemes_ne cfg _ hne')
    · intro _; exact fmts_escaped_ascii cfg hesc g.reps
  · exact fmt_escaped_ascii cfg hesc g

/-! ### classes and expressions -/

theorem escapeClassChar_ascii (c : Nat) (h : c < 128) : Ascii (escapeClassChar c) := by
  unfold escapeClassChar
  repeat' split
  all_goals first
    | exact ascii_cons (by omega) (ascii_cons h ascii_nil)
    | exact ascii_of_dec _ (by decide)
    | exact ascii_cons h ascii_nil

theorem runs_mem (cs : List Nat) : ∀ r ∈ runs cs, ∀ c ∈ r, c ∈ cs := by
  induction cs with
  | nil => intro r hr c hc; simp [runs] at hr; subst hr; simp at hc
  | cons a rest ih =>
    cases rest with
    | nil => intro r hr c hc; simp [runs] at hr; subst hr; exact hc
    | cons d rest =>
      intro r hr c hc
      simp only [runs] at hr
      split at hr
      · simp only [List.mem_singleton] at hr; subst hr
        simp only [List.mem_singleton] at hc; subst hc; simp
      · rename_i r0 rs hrr
        split at hr
        · simp only [List.mem_cons] at hr
          rcases hr with rfl | hr
          · simp only [List.mem_cons] at hc
            rcases hc with rfl | hc
            · simp
            · exact List.mem_cons_of_mem _ (ih r0 (by rw [hrr]; exact List.mem_cons_self) c hc)
          · exact List.mem_cons_of_mem _ (ih r (by rw [hrr]; exact List.mem_cons_of_mem _ hr) c hc)
        · simp only [List.mem_cons] at hr
          rcases hr with rfl | rfl | hr
          · simp only [List.mem_singleton] at hc; subst hc; simp
          · exact List.mem_cons_of_mem _ (ih r (by rw [hrr]; exact List.mem_cons_self) c hc)
          · exact List.mem_cons_of_mem _ (ih r (by rw [hrr]; exact List.mem_cons_of_mem _ hr) c hc)

theorem fmtClass_ascii (cfg : Config) (cs : List Nat) (h : ∀ c ∈ cs, c < 128) : Ascii (fmtClass cfg cs) := by
  obtain ⟨g1, g2, g3, g4, g5, g6, g7, g8, s1, s2, s3, s4, s5, s6, s7, s8, _⟩ := gen_strings_ascii
  unfold fmtClass
  apply ascii_append (ascii_append (ascii_paint _ _ _ g3 s7) _) (ascii_paint _ _ _ g3 s8)
  apply ascii_flatMap
  intro r hr
  have hmem := runs_mem cs r hr
  split
  · exact ascii_flatMap _ _ (fun c hc => escapeClassChar_ascii c (h c (hmem c hc)))
  · rename_i hlen
    have hne : r ≠ [] := by intro hc; subst hc; simp at hlen
    have h1 : r.headD 0 ∈ r := by cases r with
      | nil => exact absurd rfl hne
      | cons a as => simp
    have h2 : r.getLastD 0 ∈ r := by
      cases r with
      | nil => exact absurd rfl hne
      | cons a as => simp [List.getLastD]
    exact ascii_append (ascii_append (escapeClassChar_ascii _ (h _ (hmem _ h1))) (ascii_paint _ _ _ g3 s6))
      (escapeClassChar_ascii _ (h _ (hmem _ h2)))

mutual
/-- all members of all character classes are ASCII -/
def Expr.ClsAscii : Expr → Prop
  | .alt os => Expr.ClsAsciiL os
  | .cls cs => ∀ c ∈ cs, c < 128
  | .cat a b => Expr.ClsAscii a ∧ Expr.ClsAscii b
  | .lit _ => True
  | .rep e _ => Expr.ClsAscii e
def Expr.ClsAsciiL : List Expr → Prop
  | [] => True
  | o :: os => Expr.ClsAscii o ∧ Expr.ClsAsciiL os
end

mutual
theorem fmtExpr_ascii (cfg : Config) (hesc : cfg.esc = true) : ∀ (e : Expr), e.ClsAscii → Ascii (fmtExpr cfg e)
  | .alt os, h => by simp only [fmtExpr]; exact fmtAlt_ascii cfg hesc os h
  | .cls cs, h => by simp only [fmtExpr]; exact fmtClass_ascii cfg cs h
  | .cat a b, h => by
    simp only [fmtExpr]
    exact ascii_append (fmtSub_ascii cfg hesc 2 true a h.1) (fmtSub_ascii cfg hesc 2 true b h.2)
  | .lit c, _ => by simp only [fmtExpr]; exact fmtLiteral_ascii cfg hesc c
  | .rep e q, h => by
    simp only [fmtExpr]
    exact ascii_append (fmtSub_ascii cfg hesc 3 false e h) (Comp.quantifier_ascii _ _ _)
theorem fmtSub_ascii (cfg : Config) (hesc : cfg.esc = true) (outer : Nat) (fb : Bool) : ∀ (e : Expr), e.ClsAscii → Ascii (fmtSub cfg outer fb e)
  | e, h => by
    rw [fmtSub]
    split
    · exact Comp.paren_ascii _ _ _ _ _ (fmtExpr_ascii cfg hesc e h)
    · exact fmtExpr_ascii cfg hesc e h
theorem fmtAlt_ascii (cfg : Config) (hesc : cfg.esc = true) : ∀ (os : List Expr), Expr.ClsAsciiL os → Ascii (fmtAlt cfg os)
  | [], _ => by simp [fmtAlt, ascii_nil]
  | [o], h => by simp only [fmtAlt]; exact fmtSub_ascii cfg hesc 1 true o h.1
  | o :: o2 :: os, h => by
    simp only [fmtAlt]
    have hp : Ascii (Comp.pipe cfg.color) := ascii_paint _ _ _ gen_strings_ascii.2.2.2.1 gen_strings_ascii.2.2.2.2.2.2.2.2.2.2.2.2.2.2.2.2.1
    refine ascii_append (ascii_append (fmtSub_ascii cfg hesc 1 true o h.1) ?_) (fmtAlt_ascii cfg hesc (o2 :: os) h.2)
    split
    · exact ascii_append (ascii_append (ascii_of_dec _ (by decide)) hp) (ascii_of_dec _ (by decide))
    · exact hp
end

/-! ### the whole pattern -/

theorem bodyText_ascii (cfg : Config) (hesc : cfg.esc = true) (e : Expr) (h : e.ClsAscii) : Ascii (bodyText cfg e) := by
  unfold bodyText
  split
  · exact Comp.paren_ascii _ _ _ _ _ (fmtExpr_ascii cfg hesc _ h)
  · exact fmtExpr_ascii cfg hesc _ h

theorem mem_of_mem_dropLast' {α : Type} : ∀ (l : List α) (x : α), x ∈ l.dropLast → x ∈ l
  | [], x, h => by simp at h
  | [a], x, h => by simp at h
  | a :: b :: rest, x, h => by
    rw [List.dropLast_cons_cons] at h
    simp only [List.mem_cons] at h
    rcases h with rfl | h
    · exact List.mem_cons_self
    · exact List.mem_cons_of_mem _ (mem_of_mem_dropLast' (b :: rest) x h)

theorem splitLines_go_mem : ∀ (rest cur : Str), ∀ line ∈ splitLines.go rest cur, ∀ x ∈ line, x ∈ rest ∨ x ∈ cur := by
  intro rest
  induction rest with
  | nil =>
    intro cur line hl x hx
    simp only [splitLines.go] at hl
    split at hl
    · simp at hl
    · simp only [List.mem_singleton] at hl; subst hl
      exact Or.inr (List.mem_reverse.mp hx)
  | cons c rest ih =>
    intro cur line hl x hx
    simp only [splitLines.go] at hl
    split at hl
    · simp only [List.mem_cons] at hl
      rcases hl with rfl | hl
      · right
        split at hx
        · exact List.mem_reverse.mp (mem_of_mem_dropLast' _ _ hx)
        · exact List.mem_reverse.mp hx
      · rcases ih [] line hl x hx with h | h
        · exact Or.inl (List.mem_cons_of_mem _ h)
        · simp at h
    · rcases ih (c :: cur) line hl x hx with h | h
      · exact Or.inl (List.mem_cons_of_mem _ h)
      · simp only [List.mem_cons] at h
        rcases h with rfl | h
        · exact Or.inl List.mem_cons_self
        · exact Or.inr h

theorem splitLines_ascii (s : Str) (h : Ascii s) : ∀ line ∈ splitLines s, Ascii line := by
  intro line hl x hx
  rcases splitLines_go_mem s [] line hl x hx with h' | h'
  · exact h x h'
  · simp at h'

theorem indentLines_ascii (cfg : Config) : ∀ (lines : List Str) (i lvl : Nat), (∀ l ∈ lines, Ascii l) →
    ∀ out ∈ indentLines cfg lines i lvl, Ascii out := by
  intro lines
  induction lines with
  | nil => intro i lvl _ out ho; simp [indentLines] at ho
  | cons line rest ih =>
    intro i lvl h out ho
    simp only [indentLines] at ho
    have hrest : ∀ l ∈ rest, Ascii l := fun l hl => h l (List.mem_cons_of_mem _ hl)
    split at ho
    · exact ih _ _ hrest out ho
    · simp only [List.mem_cons] at ho
      rcases ho with rfl | ho
      · apply ascii_append _ (h line List.mem_cons_self)
        intro x hx
        have := List.eq_of_mem_replicate hx
        omega
      · exact ih _ _ hrest out ho

theorem joinWith_ascii (sep : Str) (hs : Ascii sep) : ∀ (l : List Str), (∀ x ∈ l, Ascii x) → Ascii (joinWith sep l)
  | [], _ => by simp [joinWith, ascii_nil]
  | [x], h => by simp only [joinWith]; exact h x List.mem_cons_self
  | x :: y :: rest, h => by
    simp only [joinWith]
    exact ascii_append (ascii_append (h x List.mem_cons_self) hs)
      (joinWith_ascii sep hs (y :: rest) (fun z hz => h z (List.mem_cons_of_mem _ hz)))

/-- **C11, whole pattern** with `-e`, whatever the other settings, every character of the returned text is
ASCII, provided every character-class member of the expression is -/
theorem fmtRegExp_ascii (cfg : Config) (hesc : cfg.esc = true) (e : Expr) (h : e.ClsAscii) : Ascii (fmtRegExp cfg e) := by
  obtain ⟨g1, g2, g3, g4, g5, g6, g7, g8, s1, s2, s3, s4, s5, s6, s7, s8, s9, s10, s11, s12, s13, s14, s15, s16, s17, s18,
    s19, s20⟩ := gen_strings_ascii
  have hflag : Ascii (if (cfg.ci && cfg.verb) = true then Comp.flagIX cfg.color else if cfg.ci = true then Comp.flagI cfg.color
      else if cfg.verb = true then Comp.flagX cfg.color else []) := by
    repeat' split
    · exact ascii_append (ascii_paint _ _ _ g8 s15) (ascii_of_dec _ (by decide))
    · exact ascii_paint _ _ _ g8 s14
    · exact ascii_append (ascii_paint _ _ _ g8 s16) (ascii_of_dec _ (by decide))
    · exact ascii_nil
  have hcaret : Ascii (if cfg.noStart = true then [] else Comp.caret cfg.color cfg.verb) := by
    split
    · exact ascii_nil
    · exact ascii_append (ascii_paint _ _ _ g2 s4) (ascii_ite_nl _)
  have hdollar : Ascii (if cfg.noEnd = true then [] else Comp.dollar cfg.color cfg.verb) := by
    split
    · exact ascii_nil
    · exact ascii_append (ascii_ite_nl _) (ascii_paint _ _ _ g2 s5)
  have hr0 := ascii_append (ascii_append (ascii_append hflag hcaret) (bodyText_ascii cfg hesc e h)) hdollar
  unfold fmtRegExp
  simp only []
  revert hr0
  generalize ((if (cfg.ci && cfg.verb) = true then Comp.flagIX cfg.color else if cfg.ci = true then Comp.flagI cfg.color
      else if cfg.verb = true then Comp.flagX cfg.color else []) ++
      (if cfg.noStart = true then [] else Comp.caret cfg.color cfg.verb) ++ bodyText cfg e ++
      (if cfg.noEnd = true then [] else Comp.dollar cfg.color cfg.verb)) = r0
  intro hr0
  have hr1 := ascii_replaceChar 12 Gen.strFormFeed _ s18 (ascii_replaceChar 11 Gen.strVerticalTab _ s17 hr0)
  split
  · have hr2 := ascii_replaceChar 35 Gen.strHash _ s19 hr1
    have hr3 : Ascii ((replaceChar 35 Gen.strHash (replaceChar 12 Gen.strFormFeed (replaceChar 11 Gen.strVerticalTab r0))).flatMap
        fun c => if Gen.verboseSpaces.contains c then [92, 117, 123] ++ toHex c ++ [125] else [c]) := by
      apply ascii_flatMap
      intro c hc
      split
      · exact ascii_append (ascii_append (ascii_of_dec _ (by decide)) (toHex_ascii c)) (ascii_of_dec _ (by decide))
      · exact ascii_cons (hr2 c hc) ascii_nil
    have hr4 := ascii_replaceChar 32 Gen.strBlank _ s20 hr3
    unfold indentRegexp
    apply joinWith_ascii _ (ascii_of_dec _ (by decide))
    apply indentLines_ascii
    exact splitLines_ascii _ hr4
  · exact hr1

end Grexv
