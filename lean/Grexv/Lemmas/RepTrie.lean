import Grexv.Lemmas.HopcroftRel
import Grexv.Lemmas.TrieAlphabet

/-
S5 with repetition conversion.  Every inserted cluster is *carried* by an accepting path of the trie: edge by edge the
label has the characters of the grapheme and a range of counts that contains the grapheme's count — whatever later
insertions do to the labels (the widening merge of `find_next_state` only widens).  The trie stays a tree.
-/
set_option linter.unusedSimpArgs false
set_option linter.unusedVariables false
namespace Grexv
namespace Dfa

/-- a path from `s` to `t` whose labels carry, one by one, the graphemes of `cl` -/
inductive CPath (d : Dfa) : Nat → Cluster → Nat → Prop
  | nil (s : Nat) : CPath d s [] s
  | cons {s t : Nat} {g : Grapheme} {cl : Cluster} (e : Edge) (he : e ∈ d.edges) (hs : e.src = s)
      (hc : Carries e.label g) (rest : CPath d e.dst cl t) : CPath d s (g :: cl) t

/-- the automaton stands for the cluster `cl` -/
def CAccepts (d : Dfa) (cl : Cluster) : Prop := ∃ t, CPath d d.init cl t ∧ t ∈ d.finals

/-- every edge of `d` is in `d'`, possibly with a wider range of counts -/
def Wid (d d' : Dfa) : Prop :=
  ∀ e ∈ d.edges, ∃ e' ∈ d'.edges, e'.src = e.src ∧ e'.dst = e.dst ∧ e'.label.chars = e.label.chars ∧
    e'.label.min ≤ e.label.min ∧ e.label.max ≤ e'.label.max

theorem Wid.refl (d : Dfa) : Wid d d := fun e he => ⟨e, he, rfl, rfl, rfl, Nat.le_refl _, Nat.le_refl _⟩

theorem Wid.trans {a b c : Dfa} (h1 : Wid a b) (h2 : Wid b c) : Wid a c := by
  intro e he
  obtain ⟨e1, he1, s1, d1, c1, m1, x1⟩ := h1 e he
  obtain ⟨e2, he2, s2, d2, c2, m2, x2⟩ := h2 e1 he1
  exact ⟨e2, he2, s2.trans s1, d2.trans d1, c2.trans c1, Nat.le_trans m2 m1, Nat.le_trans x1 x2⟩

theorem CPath.wid {d d' : Dfa} (h : Wid d d') {s t : Nat} {cl : Cluster} (p : CPath d s cl t) : CPath d' s cl t := by
  induction p with
  | nil s => exact CPath.nil s
  | cons e he hs hc _ ih =>
    obtain ⟨e', he', s1, d1, c1, m1, x1⟩ := h e he
    refine CPath.cons e' he' (s1.trans hs) ⟨c1.trans hc.1, Nat.le_trans m1 hc.2.1, Nat.le_trans hc.2.2 x1⟩ ?_
    rw [d1]; exact ih

theorem CPath.of_edges {d d' : Dfa} {s t : Nat} {cl : Cluster} (p : CPath d s cl t) (h : d'.edges = d.edges) : CPath d' s cl t :=
  CPath.wid (fun e he => ⟨e, by rw [h]; exact he, rfl, rfl, rfl, Nat.le_refl _, Nat.le_refl _⟩) p

theorem CPath.lt {d : Dfa} (h : TreeR d) {s t : Nat} {cl : Cluster} (p : CPath d s cl t) (hs : s < d.nodes) : t < d.nodes := by
  induction p with
  | nil s => exact hs
  | cons e he _ _ _ ih => exact ih (h.lt e he).2

theorem CPath.snoc {d : Dfa} {s t : Nat} {cl : Cluster} (p : CPath d s cl t) (e : Edge) (he : e ∈ d.edges) (hs : e.src = t)
    (g : Grapheme) (hc : Carries e.label g) : CPath d s (cl ++ [g]) e.dst := by
  induction p with
  | nil s => exact CPath.cons e he hs hc (CPath.nil _)
  | cons e0 he0 hs0 hc0 _ ih => exact CPath.cons e0 he0 hs0 hc0 (ih hs)

/-- a carried path over `cl ++ [g]` ends with an edge that carries `g` -/
theorem CPath.snoc_inv {d : Dfa} {s t : Nat} {cl : Cluster} {g : Grapheme} (p : CPath d s (cl ++ [g]) t) :
    ∃ e ∈ d.edges, CPath d s cl e.src ∧ e.dst = t ∧ Carries e.label g := by
  induction cl generalizing s with
  | nil =>
    cases p with
    | cons e he hs hc rest =>
      cases rest with
      | nil => exact ⟨e, he, by rw [hs]; exact CPath.nil s, rfl, hc⟩
  | cons g0 rest ih =>
    cases p with
    | cons e he hs hc tail =>
      obtain ⟨e', he', hp, hd, hc'⟩ := ih tail
      exact ⟨e', he', CPath.cons e he hs hc hp, hd, hc'⟩

/-- all labels have a non-empty range of counts -/
def RangeOK (d : Dfa) : Prop := ∀ e ∈ d.edges, e.label.min ≤ e.label.max

theorem findNext_some (g : Grapheme) (es : List Edge) (nxt : Nat) (o : Option Grapheme) (h : findNext g es = some (nxt, o)) :
    ∃ e ∈ es, e.dst = nxt ∧ e.label.chars = g.chars ∧
      ((o = none ∧ e.label.max = g.max) ∨
       (o = some (Grapheme.mk g.chars [] (Nat.min e.label.min g.min) (Nat.max e.label.max g.max)) ∧ e.label.max = g.max - 1)) := by
  induction es with
  | nil => simp [findNext] at h
  | cons e rest ih =>
    simp only [findNext] at h
    split at h
    · obtain ⟨e', he', r⟩ := ih h
      exact ⟨e', List.mem_cons_of_mem _ he', r⟩
    · rename_i hch
      have hch' : e.label.chars = g.chars := by simpa using hch
      split at h
      · rename_i hwid
        simp only [Option.some.injEq, Prod.mk.injEq] at h
        exact ⟨e, List.mem_cons_self, h.1, hch', Or.inr ⟨h.2.symm, hwid⟩⟩
      · split at h
        · rename_i hmax
          simp only [Option.some.injEq, Prod.mk.injEq] at h
          exact ⟨e, List.mem_cons_self, h.1, hch', Or.inl ⟨h.2.symm, hmax⟩⟩
        · obtain ⟨e', he', r⟩ := ih h
          exact ⟨e', List.mem_cons_of_mem _ he', r⟩

theorem mem_updateEdge (es : List Edge) (src dst : Nat) (g : Grapheme) (x : Edge) :
    x ∈ updateEdge es src dst g ↔ ∃ e ∈ es, x = (if e.src = src ∧ e.dst = dst then { e with label := g } else e) := by
  simp only [updateEdge, List.mem_map]
  constructor
  · rintro ⟨e, he, rfl⟩; exact ⟨e, he, rfl⟩
  · rintro ⟨e, he, rfl⟩; exact ⟨e, he, rfl⟩

/-- same characters, same counts -/
def SameKey (l g : Grapheme) : Prop := l.chars = g.chars ∧ l.min = g.min ∧ l.max = g.max

/-- every count in the range of an edge label has its symbol in the alphabet -/
def RangeAlpha (d : Dfa) : Prop :=
  ∀ e ∈ d.edges, ∀ k, e.label.min ≤ k → k ≤ e.label.max → ∃ l ∈ d.alphabet, l.chars = e.label.chars ∧ l.min = k ∧ l.max = k

/-- **`return_next_state`, every case** the automaton stays a tree with non-empty ranges, old edges survive (possibly widened),
and there is an edge from `cur` to the returned state that carries `g` -/
theorem step_r (d : Dfa) (cur : Nat) (g : Grapheme) (hg : g.min = g.max) (ht : TreeR d) (hr : RangeOK d) (hcur : cur < d.nodes)
    (hra : RangeAlpha d) (hkey : ∃ l ∈ d.alphabet, SameKey l g) :
    TreeR (step d cur g).1 ∧ RangeOK (step d cur g).1 ∧ Wid d (step d cur g).1 ∧ (step d cur g).2 < (step d cur g).1.nodes ∧
      (step d cur g).1.init = d.init ∧ (step d cur g).1.finals = d.finals ∧ (step d cur g).1.alphabet = d.alphabet ∧
      d.nodes ≤ (step d cur g).1.nodes ∧ RangeAlpha (step d cur g).1 ∧
      ∃ e ∈ (step d cur g).1.edges, e.src = cur ∧ e.dst = (step d cur g).2 ∧ Carries e.label g := by
  obtain ⟨lk, hlk, hk1, hk2, hk3⟩ := hkey
  unfold step
  cases hf : findNext g (d.outEdges cur) with
  | none =>
    simp only
    refine ⟨⟨ht.init0, Nat.succ_pos _, ?_, ?_⟩, ?_, ?_, Nat.lt_succ_self _, (by first | rfl | trivial), (by first | rfl | trivial), (by first | rfl | trivial), Nat.le_succ _, ?_, ?_⟩
    · intro e he
      simp only [List.mem_append, List.mem_cons, List.mem_nil_iff, or_false] at he
      rcases he with he | rfl
      · have := ht.lt e he; exact ⟨this.1, Nat.lt_succ_of_lt this.2⟩
      · exact ⟨hcur, Nat.lt_succ_self _⟩
    · intro e1 he1 e2 he2 hd
      simp only [List.mem_append, List.mem_cons, List.mem_nil_iff, or_false] at he1 he2
      rcases he1 with he1 | rfl
      · rcases he2 with he2 | rfl
        · exact ht.inj e1 he1 e2 he2 hd
        · have := (ht.lt e1 he1).2; simp only at hd; omega
      · rcases he2 with he2 | rfl
        · have := (ht.lt e2 he2).2; simp only at hd; omega
        · rfl
    · intro e he
      simp only [List.mem_append, List.mem_cons, List.mem_nil_iff, or_false] at he
      rcases he with he | rfl
      · exact hr e he
      · exact Nat.le_of_eq hg
    · intro e he
      exact ⟨e, List.mem_append_left _ he, rfl, rfl, rfl, Nat.le_refl _, Nat.le_refl _⟩
    · intro e he k hk1' hk2'
      simp only [List.mem_append, List.mem_cons, List.mem_nil_iff, or_false] at he
      rcases he with he | rfl
      · exact hra e he k hk1' hk2'
      · simp only at hk1' hk2'
        exact ⟨lk, hlk, hk1, by omega, by omega⟩
    · exact ⟨⟨cur, d.nodes, g⟩, by simp, rfl, rfl, rfl, Nat.le_refl _, Nat.le_refl _⟩
  | some r =>
    obtain ⟨nxt, o⟩ := r
    obtain ⟨e, he, hdst, hch, hcase⟩ := findNext_some g _ nxt o hf
    obtain ⟨hee, hsrc⟩ := (mem_outEdges' d cur e).mp he
    rcases hcase with ⟨rfl, hmax⟩ | ⟨rfl, hwid⟩
    · simp only
      refine ⟨ht, hr, Wid.refl d, by rw [← hdst]; exact (ht.lt e hee).2, (by first | rfl | trivial), (by first | rfl | trivial), (by first | rfl | trivial), Nat.le_refl _, hra, e, hee, hsrc, hdst, hch, ?_, ?_⟩
      · have := hr e hee; omega
      · omega
    · simp only
      -- the edges that are relabelled are the edge `e`
      have hrel : ∀ x ∈ d.edges, x.src = cur ∧ x.dst = nxt → x = e := by
        intro x hx hxc
        exact ht.inj x hx e hee (by rw [hxc.2, hdst])
      refine ⟨⟨ht.init0, ht.pos, ?_, ?_⟩, ?_, ?_, by rw [← hdst]; exact (ht.lt e hee).2, (by first | rfl | trivial), (by first | rfl | trivial), (by first | rfl | trivial), Nat.le_refl _, ?_, ?_⟩
      · intro x hx
        obtain ⟨x0, hx0, rfl⟩ := (mem_updateEdge _ _ _ _ _).mp hx
        have := ht.lt x0 hx0
        split <;> exact this
      · intro x hx y hy hd
        obtain ⟨x0, hx0, rfl⟩ := (mem_updateEdge _ _ _ _ _).mp hx
        obtain ⟨y0, hy0, rfl⟩ := (mem_updateEdge _ _ _ _ _).mp hy
        have hdd : x0.dst = y0.dst := by
          have e1 : (if x0.src = cur ∧ x0.dst = nxt then { x0 with label := Grapheme.mk g.chars [] (Nat.min e.label.min g.min) (Nat.max e.label.max g.max) } else x0).dst = x0.dst := by
            split <;> rfl
          have e2 : (if y0.src = cur ∧ y0.dst = nxt then { y0 with label := Grapheme.mk g.chars [] (Nat.min e.label.min g.min) (Nat.max e.label.max g.max) } else y0).dst = y0.dst := by
            split <;> rfl
          rw [e1, e2] at hd; exact hd
        have := ht.inj x0 hx0 y0 hy0 hdd
        subst this; rfl
      · intro x hx
        obtain ⟨x0, hx0, rfl⟩ := (mem_updateEdge _ _ _ _ _).mp hx
        split
        · show Nat.min e.label.min g.min ≤ Nat.max e.label.max g.max
          have := hr e hee
          exact Nat.le_trans (Nat.min_le_left _ _) (Nat.le_trans this (Nat.le_max_left _ _))
        · exact hr x0 hx0
      · intro x hx
        by_cases hc : x.src = cur ∧ x.dst = nxt
        · have hxe := hrel x hx hc
          refine ⟨{ x with label := Grapheme.mk g.chars [] (Nat.min e.label.min g.min) (Nat.max e.label.max g.max) },
            (mem_updateEdge _ _ _ _ _).mpr ⟨x, hx, by simp [hc]⟩, rfl, rfl, ?_, ?_, ?_⟩
          · show g.chars = x.label.chars
            rw [hxe, hch]
          · show Nat.min e.label.min g.min ≤ x.label.min
            rw [hxe]; exact Nat.min_le_left _ _
          · show x.label.max ≤ Nat.max e.label.max g.max
            rw [hxe]; exact Nat.le_max_left _ _
        · exact ⟨x, (mem_updateEdge _ _ _ _ _).mpr ⟨x, hx, by simp [hc]⟩, rfl, rfl, rfl, Nat.le_refl _, Nat.le_refl _⟩
      · intro x hx k hk1' hk2'
        obtain ⟨x0, hx0, rfl⟩ := (mem_updateEdge _ _ _ _ _).mp hx
        by_cases hc : x0.src = cur ∧ x0.dst = nxt
        · have hxe := hrel x0 hx0 hc
          subst hxe
          simp only [hc, and_self, ite_true] at hk1' hk2' ⊢
          have hk1'' : Nat.min x0.label.min g.min ≤ k := hk1'
          have hk2'' : k ≤ Nat.max x0.label.max g.max := hk2'
          have hro := hr x0 hx0
          simp only [Nat.min_def, Nat.max_def] at hk1'' hk2''
          by_cases hin : x0.label.min ≤ k ∧ k ≤ x0.label.max
          · obtain ⟨l, hl, q1, q2, q3⟩ := hra x0 hx0 k hin.1 hin.2
            exact ⟨l, hl, by show l.chars = g.chars; rw [q1, hch], q2, q3⟩
          · refine ⟨lk, hlk, hk1, ?_, ?_⟩
            · split at hk1'' <;> split at hk2'' <;> omega
            · split at hk1'' <;> split at hk2'' <;> omega
        · simp only [hc, ite_false] at hk1' hk2' ⊢
          exact hra x0 hx0 k hk1' hk2'
      · refine ⟨{ e with label := Grapheme.mk g.chars [] (Nat.min e.label.min g.min) (Nat.max e.label.max g.max) },
          (mem_updateEdge _ _ _ _ _).mpr ⟨e, hee, by simp [hsrc, hdst]⟩, hsrc, hdst, rfl, ?_, ?_⟩
        · exact Nat.min_le_right _ _
        · exact Nat.le_max_right _ _

/-! ### the alphabet -/

theorem cmp_eq_sameKey (g h : Grapheme) (hc : Grapheme.cmp g h = .eq) : SameKey h g := by
  cases g with
  | mk c1 r1 a1 b1 =>
    cases h with
    | mk c2 r2 a2 b2 =>
      simp only [Grapheme.cmp, Ordering.then_eq_eq] at hc
      have h1 := cmpStrList_eq _ _ hc.1
      have h2 : a1 = a2 := Nat.compare_eq_eq.mp hc.2.2.1
      have h3 : b1 = b2 := Nat.compare_eq_eq.mp hc.2.2.2
      exact ⟨h1.symm, h2.symm, h3.symm⟩

theorem alphaInsert_keeps (g : Grapheme) (al : List Grapheme) : ∀ x ∈ al, x ∈ alphaInsert g al := by
  induction al with
  | nil => intro x hx; simp at hx
  | cons h t ih =>
    intro x hx
    unfold alphaInsert
    cases hc : Grapheme.cmp g h with
    | lt => exact List.mem_cons_of_mem _ hx
    | eq => exact hx
    | gt =>
      simp only [List.mem_cons] at hx ⊢
      rcases hx with rfl | hx
      · exact Or.inl rfl
      · exact Or.inr (ih x hx)

theorem alphaInsert_has (g : Grapheme) (al : List Grapheme) : ∃ l ∈ alphaInsert g al, SameKey l g := by
  induction al with
  | nil => exact ⟨g, by simp [alphaInsert], rfl, rfl, rfl⟩
  | cons h t ih =>
    unfold alphaInsert
    cases hc : Grapheme.cmp g h with
    | lt => exact ⟨g, List.mem_cons_self, rfl, rfl, rfl⟩
    | eq => exact ⟨h, List.mem_cons_self, cmp_eq_sameKey g h hc⟩
    | gt =>
      obtain ⟨l, hl, hk⟩ := ih
      exact ⟨l, List.mem_cons_of_mem _ hl, hk⟩

/-! ### the fold of `insert`, `insert`, `from` -/

structure GoodR (d : Dfa) : Prop where
  tree : TreeR d
  range : RangeOK d
  ralpha : RangeAlpha d

theorem foldl_r (cl : Cluster) (hcl : ∀ g ∈ cl, g.min = g.max) :
    ∀ (d : Dfa) (cur : Nat), GoodR d → cur < d.nodes →
      let r := cl.foldl insertFold (d, cur)
      GoodR r.1 ∧ Wid d r.1 ∧ r.2 < r.1.nodes ∧ CPath r.1 cur cl r.2 ∧ r.1.init = d.init ∧ r.1.finals = d.finals ∧
        (∀ l ∈ d.alphabet, l ∈ r.1.alphabet) ∧ (∀ g ∈ cl, ∃ l ∈ r.1.alphabet, SameKey l g) := by
  induction cl with
  | nil =>
    intro d cur hd hcur
    exact ⟨hd, Wid.refl d, hcur, CPath.nil cur, rfl, rfl, fun _ h => h, fun g hg => by simp at hg⟩
  | cons g rest ih =>
    intro d cur hd hcur
    have hg := hcl g (List.mem_cons_self)
    have hrest : ∀ g ∈ rest, g.min = g.max := fun x hx => hcl x (List.mem_cons_of_mem _ hx)
    let d0 : Dfa := { d with alphabet := alphaInsert g d.alphabet }
    have hd0t : TreeR d0 := ⟨hd.tree.init0, hd.tree.pos, hd.tree.lt, hd.tree.inj⟩
    have hd0r : RangeOK d0 := hd.range
    have hd0a : RangeAlpha d0 := by
      intro e he k h1 h2
      obtain ⟨l, hl, q⟩ := hd.ralpha e he k h1 h2
      exact ⟨l, alphaInsert_keeps g d.alphabet l hl, q⟩
    obtain ⟨s1, s2, s3, s4, s5, s6, s7, s8, s9, e, he, hsrc, hdst, hcar⟩ :=
      step_r d0 cur g hg hd0t hd0r hcur hd0a (alphaInsert_has g d.alphabet)
    obtain ⟨i1, i2, i3, i4, i5, i6, i7, i8⟩ := ih hrest (step d0 cur g).1 (step d0 cur g).2 ⟨s1, s2, s9⟩ s4
    have hfold : (g :: rest).foldl insertFold (d, cur) = rest.foldl insertFold (step d0 cur g) := rfl
    simp only [hfold]
    have hw0 : Wid d d0 := fun x hx => ⟨x, hx, rfl, rfl, rfl, Nat.le_refl _, Nat.le_refl _⟩
    refine ⟨i1, Wid.trans hw0 (Wid.trans s3 i2), i3, ?_, by rw [i5, s5], by rw [i6, s6], ?_, ?_⟩
    · obtain ⟨e', he', q1, q2, q3, q4, q5⟩ := i2 e he
      refine CPath.cons e' he' (q1.trans hsrc) ⟨q3.trans hcar.1, Nat.le_trans q4 hcar.2.1, Nat.le_trans hcar.2.2 q5⟩ ?_
      rw [q2, hdst]; exact i4
    · intro l hl
      apply i7
      rw [s7]
      exact alphaInsert_keeps g d.alphabet l hl
    · intro x hx
      simp only [List.mem_cons] at hx
      rcases hx with rfl | hx
      · obtain ⟨l, hl, hk⟩ := alphaInsert_has x d.alphabet
        exact ⟨l, i7 l (by rw [s7]; exact hl), hk⟩
      · exact i8 x hx

/-- what `insert` keeps and adds -/
theorem insert_r (d : Dfa) (cl : Cluster) (hcl : ∀ g ∈ cl, g.min = g.max) (hd : GoodR d) :
    GoodR (insert d cl) ∧ (insert d cl).CAccepts cl ∧ (∀ c, d.CAccepts c → (insert d cl).CAccepts c) ∧
      (∀ l ∈ d.alphabet, l ∈ (insert d cl).alphabet) ∧ (∀ g ∈ cl, ∃ l ∈ (insert d cl).alphabet, SameKey l g) := by
  rw [insert_eq]
  have hinit : d.init < d.nodes := by rw [hd.tree.init0]; exact hd.tree.pos
  obtain ⟨i1, i2, i3, i4, i5, i6, i7, i8⟩ := foldl_r cl hcl d d.init hd hinit
  simp only
  refine ⟨⟨⟨i1.tree.init0, i1.tree.pos, i1.tree.lt, i1.tree.inj⟩, i1.range, i1.ralpha⟩, ?_, ?_, i7, i8⟩
  · refine ⟨(cl.foldl insertFold (d, d.init)).2, ?_, ?_⟩
    · show CPath _ (cl.foldl insertFold (d, d.init)).1.init cl _
      rw [i5]
      exact CPath.of_edges i4 rfl
    · show _ ∈ (if _ then _ else _)
      split
      · rename_i hc; simpa [List.contains_iff_mem] using hc
      · simp
  · rintro c ⟨t, hp, hf⟩
    refine ⟨t, ?_, ?_⟩
    · show CPath _ (cl.foldl insertFold (d, d.init)).1.init c t
      rw [i5]
      exact CPath.of_edges (CPath.wid i2 hp) rfl
    · show t ∈ (if _ then _ else _)
      rw [i6]
      split
      · exact hf
      · exact List.mem_append_left _ hf

theorem empty_goodR : GoodR Dfa.empty :=
  ⟨⟨rfl, by simp [Dfa.empty], by intro e he; simp [Dfa.empty] at he, by intro e he; simp [Dfa.empty] at he⟩,
   by intro e he; simp [Dfa.empty] at he, by intro e he; simp [Dfa.empty] at he⟩

theorem trie_foldl_r (cls : List Cluster) (hcls : ∀ cl ∈ cls, ∀ g ∈ cl, g.min = g.max) :
    ∀ (d : Dfa), GoodR d →
      GoodR (cls.foldl insert d) ∧ (∀ c, d.CAccepts c → (cls.foldl insert d).CAccepts c) ∧
      (∀ cl ∈ cls, (cls.foldl insert d).CAccepts cl) ∧ (∀ l ∈ d.alphabet, l ∈ (cls.foldl insert d).alphabet) ∧
      (∀ cl ∈ cls, ∀ g ∈ cl, ∃ l ∈ (cls.foldl insert d).alphabet, SameKey l g) := by
  induction cls with
  | nil => intro d hd; exact ⟨hd, fun _ h => h, fun _ h => by simp at h, fun _ h => h, fun _ h => by simp at h⟩
  | cons cl rest ih =>
    intro d hd
    obtain ⟨j1, j2, j3, j4, j5⟩ := insert_r d cl (hcls cl List.mem_cons_self) hd
    obtain ⟨k1, k2, k3, k4, k5⟩ := ih (fun c hc => hcls c (List.mem_cons_of_mem _ hc)) (insert d cl) j1
    simp only [List.foldl_cons]
    refine ⟨k1, fun c hc => k2 c (j3 c hc), ?_, fun l hl => k4 l (j4 l hl), ?_⟩
    · intro c hc
      simp only [List.mem_cons] at hc
      rcases hc with rfl | hc
      · exact k2 c j2
      · exact k3 c hc
    · intro c hc g hg
      simp only [List.mem_cons] at hc
      rcases hc with rfl | hc
      · obtain ⟨l, hl, hk⟩ := j5 g hg
        exact ⟨l, k4 l hl, hk⟩
      · exact k5 c hc g hg

/-- **S5 with `-r`, all inputs** the trie of any clusters whose graphemes carry one count each (what S4 produces) is a tree,
stands for every one of the clusters, and its alphabet has a symbol with the characters and the count of every grapheme -/
theorem trie_r (cls : List Cluster) (hcls : ∀ cl ∈ cls, ∀ g ∈ cl, g.min = g.max) :
    TreeR (trie cls) ∧ (∀ cl ∈ cls, (trie cls).CAccepts cl) ∧
      (∀ cl ∈ cls, ∀ g ∈ cl, ∃ l ∈ (trie cls).alphabet, SameKey l g) ∧ RangeAlpha (trie cls) := by
  obtain ⟨h1, _, h3, _, h5⟩ := trie_foldl_r cls hcls Dfa.empty empty_goodR
  exact ⟨h1.tree, h3, h5, h1.ralpha⟩

theorem trie_rangeOK (cls : List Cluster) (hcls : ∀ cl ∈ cls, ∀ g ∈ cl, g.min = g.max) : RangeOK (trie cls) :=
  (trie_foldl_r cls hcls Dfa.empty empty_goodR).1.range

/-! ### a property of all labels -/

/-- a property of the inserted grapheme and of every widened label is a property of every label afterwards -/
theorem step_labels_r (P : Grapheme → Prop) (d : Dfa) (cur : Nat) (g : Grapheme) (hg : P g) (hd : ∀ e ∈ d.edges, P e.label)
    (hw : ∀ e ∈ d.edges, e.label.chars = g.chars → e.label.max = g.max - 1 →
      P (Grapheme.mk g.chars [] (Nat.min e.label.min g.min) (Nat.max e.label.max g.max))) :
    ∀ e ∈ (step d cur g).1.edges, P e.label := by
  unfold step
  cases hf : findNext g (d.outEdges cur) with
  | none =>
    intro e he
    simp only [List.mem_append, List.mem_cons, List.mem_nil_iff, or_false] at he
    rcases he with he | rfl
    · exact hd e he
    · exact hg
  | some r =>
    obtain ⟨nxt, o⟩ := r
    obtain ⟨e0, he0, _, hch, hcase⟩ := findNext_some g _ nxt o hf
    obtain ⟨hee0, _⟩ := (mem_outEdges' d cur e0).mp he0
    rcases hcase with ⟨rfl, _⟩ | ⟨rfl, hwid⟩
    · exact hd
    · intro x hx
      obtain ⟨x0, hx0, rfl⟩ := (mem_updateEdge _ _ _ _ _).mp hx
      split
      · exact hw e0 hee0 hch hwid
      · exact hd x0 hx0

theorem trie_labels_r (P : Grapheme → Prop)
    (hw : ∀ a g : Grapheme, P a → P g → a.chars = g.chars → a.max = g.max - 1 →
      P (Grapheme.mk g.chars [] (Nat.min a.min g.min) (Nat.max a.max g.max)))
    (cls : List Cluster) (hcls : ∀ cl ∈ cls, ∀ g ∈ cl, P g) : ∀ e ∈ (trie cls).edges, P e.label := by
  have hfold : ∀ (cl : Cluster), (∀ g ∈ cl, P g) → ∀ (acc : Dfa × Nat), (∀ e ∈ acc.1.edges, P e.label) →
      ∀ e ∈ (cl.foldl insertFold acc).1.edges, P e.label := by
    intro cl
    induction cl with
    | nil => intro _ acc h; exact h
    | cons g rest ih =>
      intro hcl acc h
      simp only [List.foldl_cons]
      apply ih (fun x hx => hcl x (List.mem_cons_of_mem _ hx))
      have hg := hcl g List.mem_cons_self
      exact step_labels_r P { acc.1 with alphabet := alphaInsert g acc.1.alphabet } acc.2 g hg h
        (fun e he hc hm => hw e.label g (h e he) hg hc hm)
  have hins : ∀ (d : Dfa) (cl : Cluster), (∀ g ∈ cl, P g) → (∀ e ∈ d.edges, P e.label) → ∀ e ∈ (insert d cl).edges, P e.label := by
    intro d cl hcl hd
    rw [insert_eq]
    exact hfold cl hcl (d, d.init) hd
  have hall : ∀ (cls : List Cluster), (∀ cl ∈ cls, ∀ g ∈ cl, P g) → ∀ (d : Dfa), (∀ e ∈ d.edges, P e.label) →
      ∀ e ∈ (cls.foldl insert d).edges, P e.label := by
    intro cls
    induction cls with
    | nil => intro _ d h; exact h
    | cons cl rest ih =>
      intro hc d h
      simp only [List.foldl_cons]
      exact ih (fun c hcc => hc c (List.mem_cons_of_mem _ hcc)) _ (hins d cl (hc cl List.mem_cons_self) h)
  exact hall cls hcls Dfa.empty (by intro e he; simp [Dfa.empty] at he)

end Dfa
end Grexv
