import Grexv.Lemmas.WFElim
import Grexv.Lemmas.Pipeline

/-
S2/S3 made precise enough for the print → parse theorem, for every combination of the six shorthand-class
options: every grapheme handed to the trie is `Grapheme::from(s)` where `s` spells a non-empty sequence of atoms
(code points, a backslash only as a grapheme of its own, and class tokens), and the atoms of the cluster of a test
case are the atoms of its code points, in order.
-/
set_option linter.unusedSimpArgs false
set_option linter.unusedVariables false
namespace Grexv
open Dfa Expr Spec

/-- the contract of the external segmentation (`unicode-segmentation`) for one string: non-empty pieces of
scalar values whose concatenation is the string -/
def SegOK (env : Env) (w : Str) : Prop :=
  (∀ p ∈ env.segOf w, p ≠ [] ∧ ∀ x ∈ p, Scalar x) ∧ (env.segOf w).flatten = w

/-! ### what `convert_to_char_classes` writes for one code point -/

theorem classLetter_some (L : Nat) (k : ClassKind) (n : Bool) (h : classLetter L = some (k, n)) : L = letterOf k n := by
  unfold classLetter at h
  repeat' split at h
  all_goals first
    | (simp only [Option.some.injEq, Prod.mk.injEq] at h; obtain ⟨rfl, rfl⟩ := h; assumption)
    | cases h

theorem convRules_tokens_shape : Gen.convRules.all (fun r => match r.token with
    | [92, L] => (classLetter L).isSome
    | _ => false) = true := by decide

theorem convChar_shape (cfg : Config) (c : Nat) :
    convChar cfg c = [c] ∨ ∃ k n, convChar cfg c = [92, letterOf k n] := by
  unfold convChar
  have hall := List.all_eq_true.mp convRules_tokens_shape
  generalize Gen.convRules = rs at hall
  induction rs with
  | nil => left; rfl
  | cons r rs ih =>
    simp only [convCharRules]
    split
    · right
      have := hall r List.mem_cons_self
      match hr : r.token, this with
      | [92, L], hL =>
        cases hcl : classLetter L with
        | none => simp [hcl] at hL
        | some kn =>
          obtain ⟨k, n⟩ := kn
          exact ⟨k, n, by rw [classLetter_some L k n hcl]⟩
    · exact ih (fun x hx => hall x (List.mem_cons_of_mem _ hx))

/-- the atom a code point is converted to -/
def convAtom (cfg : Config) (c : Nat) : Atom :=
  match convChar cfg c with
  | _ :: L :: _ =>
    match classLetter L with
    | some (k, n) => Atom.cls k n
    | none => Atom.chr c
  | _ => Atom.chr c

theorem convAtom_of_id (cfg : Config) (c : Nat) (h : convChar cfg c = [c]) : convAtom cfg c = Atom.chr c := by
  unfold convAtom; rw [h]

theorem convAtom_of_token (cfg : Config) (c : Nat) (k : ClassKind) (n : Bool) (h : convChar cfg c = [92, letterOf k n]) :
    convAtom cfg c = Atom.cls k n := by
  unfold convAtom; rw [h]; simp [classLetter_letterOf]

theorem convChar_untok (cfg : Config) (c : Nat) (hc : convChar cfg c = [c] → True) :
    convChar cfg c = untok [convAtom cfg c] ∧ (convAtom cfg c = Atom.chr c ∨ ∃ k n, convAtom cfg c = Atom.cls k n) := by
  rcases convChar_shape cfg c with h | ⟨k, n, h⟩
  · have : convAtom cfg c = Atom.chr c := by
      unfold convAtom
      rw [h]
    exact ⟨by rw [this, h]; rfl, Or.inl this⟩
  · have : convAtom cfg c = Atom.cls k n := by
      unfold convAtom
      rw [h]
      simp [classLetter_letterOf]
    exact ⟨by rw [this, h]; rfl, Or.inr ⟨k, n, this⟩⟩

theorem flatten_map_singleton (l : Str) : (l.map (fun c => [c])).flatten = l := by
  induction l with
  | nil => rfl
  | cons a as ih => simp [ih]

theorem untok_append (a b : List Atom) : untok (a ++ b) = untok a ++ untok b := by
  induction a with
  | nil => rfl
  | cons x xs ih => cases x <;> simp [untok, ih]

theorem flatMap_convChar (cfg : Config) (p : Str) : p.flatMap (convChar cfg) = untok (p.map (convAtom cfg)) := by
  induction p with
  | nil => rfl
  | cons c r ih =>
    simp only [List.flatMap_cons, List.map_cons]
    rw [ih, (convChar_untok cfg c (fun _ => trivial)).1]
    exact (untok_append [convAtom cfg c] (r.map (convAtom cfg))).symm

/-- a piece as `GraphemeCluster::from` leaves it: non-empty, scalar values, a backslash only alone -/
def PieceOK (p : Str) : Prop := p ≠ [] ∧ (p = [92] ∨ 92 ∉ p) ∧ ∀ x ∈ p, Scalar x

theorem piece_atomsOK (cfg : Config) (p : Str) (h : PieceOK p) : p.map (convAtom cfg) ≠ [] ∧ AtomsOK (p.map (convAtom cfg)) := by
  obtain ⟨hne, hbs, hsc⟩ := h
  refine ⟨by simpa using hne, ?_⟩
  rcases hbs with rfl | hno
  · rcases (convChar_untok cfg 92 (fun _ => trivial)).2 with h1 | ⟨k, n, h1⟩
    · left; simp [h1]
    · right
      intro a ha
      simp only [List.map_cons, List.map_nil, List.mem_singleton] at ha
      subst ha; rw [h1]; trivial
  · right
    intro a ha
    obtain ⟨c, hc, rfl⟩ := List.mem_map.mp ha
    rcases (convChar_untok cfg c (fun _ => trivial)).2 with h1 | ⟨k, n, h1⟩
    · rw [h1]; exact ⟨fun h92 => hno (by rw [← h92]; exact hc), hsc c hc⟩
    · rw [h1]; trivial

/-! ### clusters -/

/-- the sub-pieces `GraphemeCluster::from` makes graphemes of -/
def subPieces (pieces : List Str) : List Str :=
  pieces.flatMap fun it =>
    if (decide (it.length ≥ 2) && it.contains 92) || it.any isMarkOrOther then it.map fun c => [c] else [it]

theorem clusterOfPieces_eq (pieces : List Str) : clusterOfPieces pieces = (subPieces pieces).map Grapheme.ofStr := by
  simp only [clusterOfPieces, subPieces, List.map_flatMap]
  congr 1
  funext it
  split <;> simp [Function.comp]

theorem subPieces_ok (pieces : List Str) (h : ∀ p ∈ pieces, p ≠ [] ∧ ∀ x ∈ p, Scalar x) :
    (∀ p ∈ subPieces pieces, PieceOK p) ∧ (subPieces pieces).flatten = pieces.flatten := by
  induction pieces with
  | nil => exact ⟨by simp [subPieces], rfl⟩
  | cons it rest ih =>
    obtain ⟨i1, i2⟩ := ih (fun p hp => h p (List.mem_cons_of_mem _ hp))
    obtain ⟨hne, hsc⟩ := h it List.mem_cons_self
    have hstep : subPieces (it :: rest) =
        (if (decide (it.length ≥ 2) && it.contains 92) || it.any isMarkOrOther then it.map fun c => [c] else [it]) ++ subPieces rest := by
      simp [subPieces]
    rw [hstep]
    split
    · constructor
      · intro p hp
        simp only [List.mem_append, List.mem_map] at hp
        rcases hp with ⟨c, hc, rfl⟩ | hp
        · refine ⟨by simp, ?_, by intro x hx; simp only [List.mem_singleton] at hx; subst hx; exact hsc _ hc⟩
          by_cases h92 : c = 92
          · exact Or.inl (by rw [h92])
          · exact Or.inr (by simp; exact fun hc' => h92 hc'.symm)
        · exact i1 p hp
      · simp only [List.flatten_append, List.flatten_cons, i2, flatten_map_singleton]
    · rename_i hc
      constructor
      · intro p hp
        simp only [List.mem_append, List.mem_singleton] at hp
        rcases hp with rfl | hp
        · refine ⟨hne, ?_, hsc⟩
          simp only [Bool.or_eq_true, Bool.and_eq_true, decide_eq_true_eq, not_or, not_and, Bool.not_eq_true] at hc
          by_cases hlen : p.length ≥ 2
          · right
            have := hc.1 hlen
            simpa [List.contains_iff_mem] using this
          · match p, hne, hlen with
            | [x], _, _ =>
              by_cases h92 : x = 92
              · exact Or.inl (by rw [h92])
              · exact Or.inr (by simp; exact fun hc' => h92 hc'.symm)
            | _ :: _ :: _, _, hl => simp at hl
        · exact i1 p hp
      · simp [i2]

theorem convertClasses_map (cfg : Config) (ps : List Str) :
    convertClasses cfg (ps.map Grapheme.ofStr) = ps.map (fun p => Grapheme.ofStr (p.flatMap (convChar cfg))) := by
  simp [convertClasses, Grapheme.ofStr, Grapheme.chars, Grapheme.reps, Grapheme.min, Grapheme.max, Function.comp]

theorem convChar_noflags (cfg : Config) (h : cfg.digit = false ∧ cfg.nonDigit = false ∧ cfg.space = false ∧ cfg.nonSpace = false ∧
    cfg.word = false ∧ cfg.nonWord = false) (c : Nat) : convChar cfg c = [c] := by
  obtain ⟨h1, h2, h3, h4, h5, h6⟩ := h
  have hf : ∀ f, flagOf cfg f = false := by intro f; cases f <;> simp [flagOf, *]
  unfold convChar
  generalize Gen.convRules = rs
  induction rs with
  | nil => rfl
  | cons r rs ih => simp [convCharRules, hf, ih]

theorem flatMap_convChar_noflags (cfg : Config) (h : ∀ c, convChar cfg c = [c]) (p : Str) : p.flatMap (convChar cfg) = p := by
  induction p with
  | nil => rfl
  | cons a as ih => simp [List.flatMap_cons, h, ih]

/-- the clusters of S2/S3 without `-r`, for every combination of the class options -/
theorem clusters_atoms (cfg : Config) (hrep : cfg.rep = false) (env : Env) (ws : List Str) (hseg : ∀ w ∈ ws, SegOK env w) :
    ∃ f : Str → Cluster, graphemeClusters cfg env ws = ws.map f ∧
      ∀ w ∈ ws, PlainBs (f w) ∧ atomsOf (f w) = w.map (convAtom cfg) := by
  refine ⟨fun w => (subPieces (env.segOf w)).map (fun p => Grapheme.ofStr (p.flatMap (convChar cfg))), ?_, ?_⟩
  · by_cases hf : cfg.charClassFeature = true
    · simp only [graphemeClusters, hrep, Bool.false_eq_true, ite_false, List.map_map, hf, ite_true]
      apply List.map_congr_left
      intro w _
      simp only [Function.comp, clusterOfPieces_eq, convertClasses_map]
    · have hf' : cfg.charClassFeature = false := by simpa using hf
      simp only [graphemeClusters, hrep, Bool.false_eq_true, ite_false, hf']
      apply List.map_congr_left
      intro w _
      simp only [clusterOfPieces_eq]
      have hflags : cfg.digit = false ∧ cfg.nonDigit = false ∧ cfg.space = false ∧ cfg.nonSpace = false ∧
          cfg.word = false ∧ cfg.nonWord = false := by
        simp only [Config.charClassFeature, Bool.or_eq_false_iff] at hf'
        obtain ⟨⟨⟨⟨⟨⟨⟨a, b⟩, c⟩, d⟩, e⟩, f⟩, _⟩, _⟩ := hf'
        exact ⟨a, b, c, d, e, f⟩
      apply List.map_congr_left
      intro p _
      rw [flatMap_convChar_noflags cfg (convChar_noflags cfg hflags) p]
  · intro w hw
    obtain ⟨h1, h2⟩ := subPieces_ok (env.segOf w) (hseg w hw).1
    constructor
    · intro g hg
      obtain ⟨p, hp, rfl⟩ := List.mem_map.mp hg
      obtain ⟨a1, a2⟩ := piece_atomsOK cfg p (h1 p hp)
      exact ⟨p.map (convAtom cfg), a1, a2, by rw [flatMap_convChar]⟩
    · have hw' : w = (subPieces (env.segOf w)).flatten := by rw [h2, (hseg w hw).2]
      have key : ∀ (ps : List Str), (∀ p ∈ ps, PieceOK p) →
          atomsOf (ps.map (fun p => Grapheme.ofStr (p.flatMap (convChar cfg)))) = ps.flatten.map (convAtom cfg) := by
        intro ps
        induction ps with
        | nil => intro _; rfl
        | cons p rest ih =>
          intro hps
          obtain ⟨_, a2⟩ := piece_atomsOK cfg p (hps p List.mem_cons_self)
          simp only [List.map_cons, List.flatten_cons, List.map_append]
          rw [flatMap_convChar, atomsOf_cons _ a2, ih (fun x hx => hps x (List.mem_cons_of_mem _ hx))]
      rw [key _ h1, ← hw']

end Grexv
