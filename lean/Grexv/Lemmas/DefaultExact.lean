import Grexv.Lemmas.WFElim
import Grexv.Lemmas.Pipeline

/-
S2 with plain settings, made precise enough for the print → parse theorem: every grapheme handed to the trie
is `Grapheme::from(s)` for a non-empty string of scalar values in which a backslash only occurs alone, and
writing out the graphemes of a test case gives the test case back.
-/
set_option linter.unusedSimpArgs false
set_option linter.unusedVariables false
namespace Grexv
open Dfa Expr

/-- the contract of the external segmentation (`unicode-segmentation`) for one string: non-empty pieces of
scalar values whose concatenation is the string -/
def SegOK (env : Env) (w : Str) : Prop :=
  (∀ p ∈ env.segOf w, p ≠ [] ∧ ∀ x ∈ p, Scalar x) ∧ (env.segOf w).flatten = w

theorem flagOf_plain (cap : Bool) (f : Gen.ClassFlag) : flagOf (cfgPlain cap) f = false := by cases f <;> rfl

theorem convChar_plain (cap : Bool) (c : Nat) : convChar (cfgPlain cap) c = [c] := by
  unfold convChar
  generalize Gen.convRules = rs
  induction rs with
  | nil => rfl
  | cons r rs ih => simp [convCharRules, flagOf_plain, ih]

theorem convertClasses_ofStr (cap : Bool) (s : Str) :
    (Grapheme.mk ((Grapheme.ofStr s).chars.map fun it => it.flatMap (convChar (cfgPlain cap))) (Grapheme.ofStr s).reps
      (Grapheme.ofStr s).min (Grapheme.ofStr s).max) = Grapheme.ofStr s := by
  have : s.flatMap (convChar (cfgPlain cap)) = s := by
    induction s with
    | nil => rfl
    | cons a as ih => simp [List.flatMap_cons, convChar_plain, ih]
  simp [Grapheme.ofStr, Grapheme.chars, Grapheme.reps, Grapheme.min, Grapheme.max, this]

theorem pieces_cluster (pieces : List Str) (h : ∀ p ∈ pieces, p ≠ [] ∧ ∀ x ∈ p, Scalar x) :
    PlainBs (clusterOfPieces pieces) ∧ flat (clusterOfPieces pieces) = pieces.flatten := by
  induction pieces with
  | nil => exact ⟨plainBs_nil, rfl⟩
  | cons it rest ih =>
    obtain ⟨i1, i2⟩ := ih (fun p hp => h p (List.mem_cons_of_mem _ hp))
    obtain ⟨hne, hsc⟩ := h it List.mem_cons_self
    have hstep : clusterOfPieces (it :: rest) =
        (if (decide (it.length ≥ 2) && it.contains 92) || it.any isMarkOrOther then it.map fun c => Grapheme.ofStr [c]
          else [Grapheme.ofStr it]) ++ clusterOfPieces rest := by
      simp [clusterOfPieces]
    rw [hstep]
    split
    · constructor
      · apply plainBs_append _ i1
        intro g hg
        obtain ⟨c, hc, rfl⟩ := List.mem_map.mp hg
        refine ⟨[c], by simp, ?_, by intro x hx; simp only [List.mem_singleton] at hx; subst hx; exact hsc _ hc, rfl⟩
        by_cases h92 : c = 92
        · exact Or.inl (by rw [h92])
        · exact Or.inr (by simp; exact fun hc => h92 hc.symm)
      · rw [flat_append, i2]
        simp only [List.flatten_cons]
        congr 1
        simp only [flat, List.flatMap_map, value_ofStr]
        induction it with
        | nil => rfl
        | cons a as ih2 => simp
    · rename_i hc
      constructor
      · apply plainBs_append _ i1
        intro g hg
        simp only [List.mem_singleton] at hg
        subst hg
        refine ⟨it, hne, ?_, hsc, rfl⟩
        simp only [Bool.or_eq_true, Bool.and_eq_true, decide_eq_true_eq, not_or, not_and, Bool.not_eq_true] at hc
        by_cases hlen : it.length ≥ 2
        · right
          have := hc.1 hlen
          simpa [List.contains_iff_mem] using this
        · match it, hne, hlen with
          | [x], _, _ =>
            by_cases h92 : x = 92
            · exact Or.inl (by rw [h92])
            · exact Or.inr (by simp; exact fun hc => h92 hc.symm)
          | _ :: _ :: _, _, hl => simp at hl
      · rw [flat_append, i2]
        simp [flat, value_ofStr]

/-- the clusters of S2/S3 under plain settings -/
theorem clusters_plainBs (cap : Bool) (env : Env) (ws : List Str) (hseg : ∀ w ∈ ws, SegOK env w) :
    graphemeClusters (cfgPlain cap) env ws = ws.map (fun w => clusterOfPieces (env.segOf w)) ∧
      ∀ w ∈ ws, PlainBs (clusterOfPieces (env.segOf w)) ∧ flat (clusterOfPieces (env.segOf w)) = w := by
  have hcl : ∀ w ∈ ws, PlainBs (clusterOfPieces (env.segOf w)) ∧ flat (clusterOfPieces (env.segOf w)) = w := by
    intro w hw
    obtain ⟨h1, h2⟩ := pieces_cluster (env.segOf w) (hseg w hw).1
    exact ⟨h1, by rw [h2, (hseg w hw).2]⟩
  refine ⟨?_, hcl⟩
  simp only [graphemeClusters, cfgPlain, Bool.false_eq_true, ite_false]
  cases cap with
  | false => simp [Config.charClassFeature]
  | true =>
    simp only [Config.charClassFeature, Bool.false_or, Bool.or_true, ite_true, List.map_map]
    apply List.map_congr_left
    intro w hw
    simp only [Function.comp, convertClasses]
    have hp := (hcl w hw).1
    generalize clusterOfPieces (env.segOf w) = cl at hp
    induction cl with
    | nil => rfl
    | cons g gs ih =>
      obtain ⟨s, _, _, _, rfl⟩ := hp _ List.mem_cons_self
      simp only [List.map_cons]
      rw [ih (fun x hx => hp x (List.mem_cons_of_mem _ hx))]
      congr 1
      exact convertClasses_ofStr true s

end Grexv
