import Grexv.Lemmas.SafeR
import Grexv.Lemmas.XStruct
import Grexv.Lemmas.LitRV

/-
Generated from `PrintParseR.lean` by `tools/vify.py`: the theorems of the `-r` print → parse chain that mention the character rewriting
`R` of `Display for RegExp`, once more for `RV v` — with `v = true` the rewritings of verbose mode (`\\#`, `\\ `, `\\u{…}` of the other
white space).  The statements and proofs are those of the original file with `R` replaced; definitions are shared.
-/
set_option linter.unusedSimpArgs false
set_option linter.unusedVariables false
namespace Grexv
open Spec

structure PPRV (v : Bool) (cap esc : Bool) (e : Expr) : Prop where
  items : e.isAlt = false → ∀ (f : Nat) (rest : List Nat) (st : List Frame) (al co : List Pat),
    (e.endsQR cap esc = true → rest.head? ≠ some 63) →
    parseLoop false (f + (e.toksR cap esc).1) (RV v (fmtExpr (cfgPlain cap esc) e) ++ rest) st al co =
      parseLoop false f rest st al ((e.bothR cap esc).1.reverse ++ co)
  body : ∀ (f : Nat) (rest : List Nat) (fr : Frame) (st : List Frame),
    parseLoop false (f + ((e.toksR cap esc).2 + 1)) (RV v (fmtExpr (cfgPlain cap esc) e) ++ 41 :: rest) (fr :: st) [] [] =
      parseLoop false f rest st fr.alts (Pat.grp fr.capturing (e.bothR cap esc).2 :: fr.concat)
  head : HeadOK (RV v (fmtExpr (cfgPlain cap esc) e))
  len1 : e.isAlt = false → (e.toksR cap esc).1 ≤ (RV v (fmtExpr (cfgPlain cap esc) e)).length
  len2 : (e.toksR cap esc).2 ≤ (RV v (fmtExpr (cfgPlain cap esc) e)).length


/-- for an expression that is not an alternation the group body follows from the items -/
theorem body_of_itemsRV (v : Bool) (cap esc : Bool) (e : Expr) (hna : e.isAlt = false)
    (hb : (e.bothR cap esc).2 = catList (e.bothR cap esc).1) (ht : (e.toksR cap esc).2 = (e.toksR cap esc).1)
    (hi : ∀ (f : Nat) (rest : List Nat) (st : List Frame) (al co : List Pat),
      (e.endsQR cap esc = true → rest.head? ≠ some 63) →
      parseLoop false (f + (e.toksR cap esc).1) (RV v (fmtExpr (cfgPlain cap esc) e) ++ rest) st al co =
        parseLoop false f rest st al ((e.bothR cap esc).1.reverse ++ co))
    (f : Nat) (rest : List Nat) (fr : Frame) (st : List Frame) :
    parseLoop false (f + ((e.toksR cap esc).2 + 1)) (RV v (fmtExpr (cfgPlain cap esc) e) ++ 41 :: rest) (fr :: st) [] [] =
      parseLoop false f rest st fr.alts (Pat.grp fr.capturing (e.bothR cap esc).2 :: fr.concat) := by
  have : f + ((e.toksR cap esc).2 + 1) = (f + 1) + (e.toksR cap esc).1 := by rw [ht]; omega
  rw [this, hi (f + 1) (41 :: rest) (fr :: st) [] [] (by intro _; simp), step_rparen, List.append_nil, closeFrame_nil, hb]


theorem sub_parseRV (v : Bool) (cap esc : Bool) (outer : Nat) (fb : Bool) (e : Expr) (hP : PPRV v cap esc e)
    (halt : e.isAlt = true → parenQ cap esc outer e = true)
    (f : Nat) (rest : List Nat) (st : List Frame) (al co : List Pat)
    (hq : (!(parenQ cap esc outer e) && e.endsQR cap esc) = true → rest.head? ≠ some 63) :
    parseLoop false (f + subTok cap esc outer e (e.toksR cap esc).1 (e.toksR cap esc).2) (RV v (fmtSub (cfgPlain cap esc) outer fb e) ++ rest) st al co =
      parseLoop false f rest st al ((subOf cap esc outer e (e.bothR cap esc).1 (e.bothR cap esc).2).reverse ++ co) := by
  rw [fmtSub_eq, subOf_eq, subTok]
  by_cases hp : parenQ cap esc outer e = true
  · simp only [hp, ite_true, RV_append v, RV_lp v, List.append_assoc]
    have hR41 : RV v [41] = [41] := by cases v <;> decide
    rw [hR41]
    have hfuel : f + ((e.toksR cap esc).2 + 2) = (f + ((e.toksR cap esc).2 + 1)) + 1 := by omega
    rw [hfuel]
    cases cap with
    | true =>
      simp only [lp, ite_true, List.singleton_append, List.cons_append, List.nil_append]
      rw [step_lparen_cap _ _ (hP.head _ (by simp)), hP.body]
      simp
    | false =>
      simp only [lp, Bool.false_eq_true, ite_false, List.cons_append, List.nil_append, List.singleton_append]
      rw [step_lparen_noncap, hP.body]
      simp
  · have hp' : parenQ cap esc outer e = false := by simpa using hp
    simp only [hp', Bool.false_eq_true, ite_false]
    have hna : e.isAlt = false := by
      cases h : e.isAlt with
      | false => rfl
      | true => rw [halt h] at hp'; cases hp'
    exact hP.items hna f rest st al co (fun h => hq (by simp [hp', h]))


theorem sub_headRV (v : Bool) (cap esc : Bool) (outer : Nat) (fb : Bool) (e : Expr) (hP : PPRV v cap esc e) : HeadOK (RV v (fmtSub (cfgPlain cap esc) outer fb e)) := by
  rw [fmtSub_eq]
  split
  · apply HeadOK'.ok
    rw [RV_append v, RV_lp v]
    cases cap
    · exact ⟨40, [63, 58] ++ RV v (fmtExpr (cfgPlain false esc) e ++ [41]), rfl, by decide⟩
    · exact ⟨40, [] ++ RV v (fmtExpr (cfgPlain true esc) e ++ [41]), rfl, by decide⟩
  · exact hP.head


theorem sub_lenRV (v : Bool) (cap esc : Bool) (outer : Nat) (fb : Bool) (e : Expr) (hP : PPRV v cap esc e) (halt : e.isAlt = true → parenQ cap esc outer e = true) :
    subTok cap esc outer e (e.toksR cap esc).1 (e.toksR cap esc).2 ≤ (RV v (fmtSub (cfgPlain cap esc) outer fb e)).length := by
  rw [fmtSub_eq, subTok]
  by_cases hp : parenQ cap esc outer e = true
  · simp only [hp, ite_true, RV_append v, RV_lp v, List.length_append]
    have := hP.len2
    have h41 : (RV v [41]).length = 1 := by cases v <;> decide
    have hlp : 1 ≤ (lp cap).length := by cases cap <;> simp [lp]
    omega
  · have hp' : parenQ cap esc outer e = false := by simpa using hp
    simp only [hp', Bool.false_eq_true, ite_false]
    have hna : e.isAlt = false := by
      cases h : e.isAlt with
      | false => rfl
      | true => rw [halt h] at hp'; cases hp'
    exact hP.len1 hna



theorem sub3_headRV (v : Bool) (cap esc : Bool) (fb : Bool) (e : Expr) (hwf : e.WFR) (hnr : e.isRep = false) :
    HeadOK' (RV v (fmtSub (cfgPlain cap esc) 3 fb e)) := by
  rw [fmtSub_eq]
  by_cases hp : parenQ cap esc 3 e = true
  · simp only [hp, ite_true]
    rw [RV_append v, RV_lp v]
    cases cap
    · exact ⟨40, [63, 58] ++ RV v (fmtExpr (cfgPlain false esc) e ++ [41]), rfl, by decide⟩
    · exact ⟨40, [] ++ RV v (fmtExpr (cfgPlain true esc) e ++ [41]), rfl, by decide⟩
  · have hp' : parenQ cap esc 3 e = false := by simpa using hp
    simp only [hp', Bool.false_eq_true, ite_false]
    cases e with
    | alt os => simp [parenQ, Expr.precedence, Expr.isSingleCodepoint] at hp'
    | cat a b => simp [parenQ, Expr.precedence, Expr.isSingleCodepoint] at hp'
    | rep e q => simp [Expr.isRep] at hnr
    | cls cs =>
      simp only [fmtExpr]
      rw [fmtClass_text]
      exact ⟨91, _, rfl, by decide⟩
    | lit c =>
      have hsc : (Expr.lit c).isSingleCodepoint (cfgPlain cap esc) = true := by
        cases hh : (Expr.lit c).isSingleCodepoint (cfgPlain cap esc) with
        | true => rfl
        | false => simp [parenQ, Expr.precedence, hh] at hp'
      obtain ⟨x, rfl, _, _, hok⟩ := single_literalR cap esc c hwf hsc
      simp only [fmtExpr]
      have ht : fmtLiteral (cfgPlain cap esc) [Grapheme.ofStr [x]] = E esc (escapeSymbols (untok [Atom.chr x])) := by
        have := fmtLiteral_flat cap esc (Grapheme.ofStr [x]) rfl
        rw [this]
        exact nText_plain cap esc [Atom.chr x]
      rw [ht]
      have := R_escape_head v esc [Atom.chr x] (by simp) hok
      exact this


mutual
/-- **print → parse, expression by expression** -/
theorem Expr.ppRV (v : Bool) (cap esc : Bool) : ∀ (e : Expr), e.WFR → PPRV v cap esc e
  | .lit c, h => by
    have hi : ∀ (f : Nat) (rest : List Nat) (st : List Frame) (al co : List Pat),
        ((Expr.lit c).endsQR cap esc = true → rest.head? ≠ some 63) →
        parseLoop false (f + ((Expr.lit c).toksR cap esc).1) (RV v (fmtExpr (cfgPlain cap esc) (.lit c)) ++ rest) st al co =
          parseLoop false f rest st al (((Expr.lit c).bothR cap esc).1.reverse ++ co) := by
      intro f rest st al co hq
      simp only [fmtExpr, Expr.toksR, Expr.bothR]
      exact lex_literalRV v cap esc c h f rest st al co (fun hc => hq (by simpa [Expr.endsQR] using hc))
    refine ⟨fun _ => hi, body_of_itemsRV v cap esc _ rfl (both_snd_nonaltR cap esc _ rfl) (toks_snd_nonaltR cap esc _ rfl) hi, ?_, ?_, ?_⟩
    · simp only [fmtExpr]; exact literal_headRV v cap esc c h
    · intro _; simp only [fmtExpr, Expr.toksR]; exact literal_lenRV v cap esc c h
    · simp only [fmtExpr, Expr.toksR]; exact literal_lenRV v cap esc c h
  | .cls cs, h => by
    have hi : ∀ (f : Nat) (rest : List Nat) (st : List Frame) (al co : List Pat),
        ((Expr.cls cs).endsQR cap esc = true → rest.head? ≠ some 63) →
        parseLoop false (f + ((Expr.cls cs).toksR cap esc).1) (RV v (fmtExpr (cfgPlain cap esc) (.cls cs)) ++ rest) st al co =
          parseLoop false f rest st al (((Expr.cls cs).bothR cap esc).1.reverse ++ co) := by
      intro f rest st al co _
      simp only [fmtExpr, Expr.toksR, Expr.bothR]
      exact lex_class v cap esc cs h.1 h.2.2 f rest st al co
    have hlen : 1 ≤ (RV v (fmtExpr (cfgPlain cap esc) (.cls cs))).length := by
      simp only [fmtExpr]; rw [fmtClass_text]; simp
    refine ⟨fun _ => hi, body_of_itemsRV v cap esc _ rfl (both_snd_nonaltR cap esc _ rfl) (toks_snd_nonaltR cap esc _ rfl) hi, ?_, ?_, ?_⟩
    · simp only [fmtExpr]; rw [fmtClass_text]; exact (show HeadOK' _ from ⟨91, _, rfl, by decide⟩).ok
    · intro _; simpa [Expr.toksR] using hlen
    · simpa [Expr.toksR] using hlen
  | .cat a b, h => by
    have pa := Expr.ppRV v cap esc a h.1
    have pb := Expr.ppRV v cap esc b h.2
    have ha2 := parenQ_of_alt cap esc 2 (Nat.le_refl _) a
    have hb2 := parenQ_of_alt cap esc 2 (Nat.le_refl _) b
    have htext : RV v (fmtExpr (cfgPlain cap esc) (.cat a b)) = RV v (fmtSub (cfgPlain cap esc) 2 true a) ++ RV v (fmtSub (cfgPlain cap esc) 2 true b) := by
      simp only [fmtExpr, RV_append v]
    have hi : ∀ (f : Nat) (rest : List Nat) (st : List Frame) (al co : List Pat),
        ((Expr.cat a b).endsQR cap esc = true → rest.head? ≠ some 63) →
        parseLoop false (f + ((Expr.cat a b).toksR cap esc).1) (RV v (fmtExpr (cfgPlain cap esc) (.cat a b)) ++ rest) st al co =
          parseLoop false f rest st al (((Expr.cat a b).bothR cap esc).1.reverse ++ co) := by
      intro f rest st al co hq
      rw [htext]
      simp only [Expr.toksR, Expr.bothR, List.append_assoc, List.reverse_append]
      have hfuel : f + (subTok cap esc 2 a (a.toksR cap esc).1 (a.toksR cap esc).2 + subTok cap esc 2 b (b.toksR cap esc).1 (b.toksR cap esc).2) =
          (f + subTok cap esc 2 b (b.toksR cap esc).1 (b.toksR cap esc).2) + subTok cap esc 2 a (a.toksR cap esc).1 (a.toksR cap esc).2 := by omega
      rw [hfuel, sub_parseRV v cap esc 2 true a pa ha2, sub_parseRV v cap esc 2 true b pb hb2]
      · intro hqb
        apply hq
        simp only [Expr.endsQR, Bool.or_eq_true]
        exact Or.inr hqb
      · intro hqa
        apply sub_headRV v cap esc 2 true b pb
        apply hq
        simp only [Expr.endsQR, Bool.or_eq_true]
        exact Or.inl hqa
    refine ⟨fun _ => hi, body_of_itemsRV v cap esc _ rfl (both_snd_nonaltR cap esc _ rfl) (toks_snd_nonaltR cap esc _ rfl) hi, ?_, ?_, ?_⟩
    · rw [htext]; exact headOK_append (sub_headRV v cap esc 2 true a pa) (sub_headRV v cap esc 2 true b pb)
    · intro _
      rw [htext]
      have := sub_lenRV v cap esc 2 true a pa ha2
      have := sub_lenRV v cap esc 2 true b pb hb2
      simp only [Expr.toksR, List.length_append]; omega
    · rw [htext]
      have := sub_lenRV v cap esc 2 true a pa ha2
      have := sub_lenRV v cap esc 2 true b pb hb2
      simp only [Expr.toksR, List.length_append]; omega
  | .rep e q, h => by
    obtain ⟨rfl, hnr, hwf⟩ := h
    have pe := Expr.ppRV v cap esc e hwf
    have he3 := parenQ_of_alt cap esc 3 (by omega) e
    have htext : RV v (fmtExpr (cfgPlain cap esc) (.rep e .question)) = RV v (fmtSub (cfgPlain cap esc) 3 false e) ++ [63] := by
      simp only [fmtExpr, RV_append v, Comp.quantifier, cfgPlain, paint, Gen.strQuestion, Bool.false_eq_true, ite_false,
        List.append_nil]
      have h63 : RV v [63] = [63] := by cases v <;> decide
      rw [h63]
    obtain ⟨p, hp, hpq⟩ := subOf3_singleR cap esc e hwf hnr
    have hi : ∀ (f : Nat) (rest : List Nat) (st : List Frame) (al co : List Pat),
        ((Expr.rep e .question).endsQR cap esc = true → rest.head? ≠ some 63) →
        parseLoop false (f + ((Expr.rep e .question).toksR cap esc).1) (RV v (fmtExpr (cfgPlain cap esc) (.rep e .question)) ++ rest) st al co =
          parseLoop false f rest st al (((Expr.rep e .question).bothR cap esc).1.reverse ++ co) := by
      intro f rest st al co hq
      rw [htext]
      simp only [Expr.toksR, Expr.bothR, List.append_assoc, List.singleton_append]
      have hfuel : f + (subTok cap esc 3 e (e.toksR cap esc).1 (e.toksR cap esc).2 + 1) =
          (f + 1) + subTok cap esc 3 e (e.toksR cap esc).1 (e.toksR cap esc).2 := by omega
      rw [hfuel, sub_parseRV v cap esc 3 false e pe he3 (f + 1) (63 :: rest) st al co
        (by rw [endsQS3_falseR cap esc e hwf hnr]; intro hc; cases hc)]
      rw [hp]
      simp only [List.reverse_cons, List.reverse_nil, List.nil_append, List.singleton_append, optOf]
      exact step_opt f rest (hq rfl) p hpq co st al
    have hsublen := sub_lenRV v cap esc 3 false e pe he3
    refine ⟨fun _ => hi, body_of_itemsRV v cap esc _ rfl (both_snd_nonaltR cap esc _ rfl) (toks_snd_nonaltR cap esc _ rfl) hi, ?_, ?_, ?_⟩
    · rw [htext]; exact (headOK'_append_left _ (sub3_headRV v cap esc false e hwf hnr)).ok
    · intro _; rw [htext]; simp only [Expr.toksR, List.length_append, List.length_singleton]; omega
    · rw [htext]; simp only [Expr.toksR, List.length_append, List.length_singleton]; omega
  | .alt os, h => by
    obtain ⟨hne, hwfl⟩ := h
    obtain ⟨hL, hH, hLen⟩ := Expr.ppLRV v cap esc os hwfl hne
    refine ⟨fun hc => by simp [Expr.isAlt] at hc, ?_, ?_, fun hc => by simp [Expr.isAlt] at hc, ?_⟩
    · intro f rest fr st
      simp only [fmtExpr, Expr.toksR, Expr.bothR]
      obtain ⟨al', co', hrun, hclose⟩ := hL (f + 1) (41 :: rest) (fr :: st) [] (by simp)
      have hfuel : f + (Expr.toksLR cap esc os + 1) = (f + 1) + Expr.toksLR cap esc os := by omega
      rw [hfuel, hrun, step_rparen]
      simp only [closeFrame, hclose, List.reverse_nil, List.nil_append]
    · simp only [fmtExpr]; exact hH
    · simp only [fmtExpr, Expr.toksR]; exact hLen
theorem Expr.ppLRV (v : Bool) (cap esc : Bool) : ∀ (os : List Expr), Expr.WFLR os → os ≠ [] →
    (∀ (f : Nat) (rest : List Nat) (st : List Frame) (al : List Pat), rest.head? ≠ some 63 →
      ∃ al' co', parseLoop false (f + Expr.toksLR cap esc os) (RV v (fmtAlt (cfgPlain cap esc) os) ++ rest) st al [] =
          parseLoop false f rest st al' co' ∧
        (catList co'.reverse :: al').reverse = al.reverse ++ Expr.bothLR cap esc os) ∧
    HeadOK (RV v (fmtAlt (cfgPlain cap esc) os)) ∧ Expr.toksLR cap esc os ≤ (RV v (fmtAlt (cfgPlain cap esc) os)).length
  | [], _, hne => absurd rfl hne
  | [o], h, _ => by
    have po := Expr.ppRV v cap esc o h.2.1
    have htext : fmtAlt (cfgPlain cap esc) [o] = fmtExpr (cfgPlain cap esc) o := by
      simp only [fmtAlt]; rw [fmtSub_eq, parenQ1_false]; simp
    refine ⟨?_, ?_, ?_⟩
    · intro f rest st al hr
      refine ⟨al, (o.bothR cap esc).1.reverse, ?_, by simp [Expr.bothLR]⟩
      rw [htext]
      have := po.items h.1 f rest st al [] (fun _ => hr)
      simpa [Expr.toksLR] using this
    · rw [htext]; exact po.head
    · rw [htext]; simpa [Expr.toksLR] using po.len1 h.1
  | o :: o2 :: os, h, _ => by
    have po := Expr.ppRV v cap esc o h.2.1
    obtain ⟨hL, hH, hLen⟩ := Expr.ppLRV v cap esc (o2 :: os) h.2.2 (by simp)
    have htext : RV v (fmtAlt (cfgPlain cap esc) (o :: o2 :: os)) =
        RV v (fmtExpr (cfgPlain cap esc) o) ++ ([124] ++ RV v (fmtAlt (cfgPlain cap esc) (o2 :: os))) := by
      simp only [fmtAlt]
      rw [fmtSub_eq, parenQ1_false]
      simp only [Bool.false_eq_true, ite_false, cfgPlain, Comp.pipe, paint, Gen.strPipe, RV_append v]
      simp [show RV v [124] = [124] from by cases v <;> decide]
    refine ⟨?_, ?_, ?_⟩
    · intro f rest st al hr
      obtain ⟨al', co', hrun, hclose⟩ := hL f rest st (catList (o.bothR cap esc).1 :: al) hr
      refine ⟨al', co', ?_, ?_⟩
      · rw [htext]
        have hfuel : f + Expr.toksLR cap esc (o :: o2 :: os) = ((f + Expr.toksLR cap esc (o2 :: os)) + 1) + (o.toksR cap esc).1 := by
          simp only [Expr.toksLR, List.isEmpty_cons, Bool.false_eq_true, ite_false]; omega
        rw [hfuel, List.append_assoc, po.items h.1 _ _ st al [] (by intro _; simp)]
        simp only [List.append_nil, List.singleton_append, List.cons_append, List.nil_append]
        rw [step_pipe, List.reverse_reverse]
        exact hrun
      · rw [hclose]
        simp [Expr.bothLR]
    · rw [htext]
      exact headOK_append po.head (show HeadOK' _ from ⟨124, _, rfl, by decide⟩).ok
    · rw [htext]
      have := po.len1 h.1
      have e : Expr.toksLR cap esc (o :: o2 :: os) = (o.toksR cap esc).1 + 1 + Expr.toksLR cap esc (o2 :: os) := by
        rw [Expr.toksLR]; simp
      rw [e]
      simp only [List.length_append, List.length_singleton]
      omega
end

end Grexv
