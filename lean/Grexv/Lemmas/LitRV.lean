import Grexv.Lemmas.SafeR
import Grexv.Lemmas.XStruct
import Grexv.Lemmas.PrintCountGV

/-
Generated from `LitR.lean` by `tools/vify.py`: the theorems of the `-r` print → parse chain that mention the character rewriting
`R` of `Display for RegExp`, once more for `RV v` — with `v = true` the rewritings of verbose mode (`\\#`, `\\ `, `\\u{…}` of the other
white space).  The statements and proofs are those of the original file with `R` replaced; definitions are shared.
-/
set_option linter.unusedSimpArgs false
set_option linter.unusedVariables false
namespace Grexv
open Spec

/-- the text of a well-formed grapheme never starts with a question mark -/
theorem nText_headV (v : Bool) (cap esc : Bool) (g : Grapheme) (h : GOK g) (rest : List Nat) : (RV v (nText cap esc g) ++ rest).head? ≠ some 63 := by
  obtain ⟨chars, reps, mn, mx⟩ := g
  rcases GOK_cases chars reps mn mx h with ⟨as, hne, hok, rfl, rfl, rfl, rfl⟩ | ⟨ass, hok, rfl, rfl, hc, hb⟩ |
    ⟨ass, hok, rfl, h2, hr, hl, hc, hb⟩
  · rw [nText_plain]
    obtain ⟨hd, tl, htl, hne63⟩ := R_escape_head v esc as hne hok
    rw [htl]; simp; exact fun hc => hne63 hc
  · rw [nText_flat, fmt_counted cap esc ass hok mn mx hc]
    split
    · rw [RV_append v, List.append_assoc]; exact unitText_headV v esc ass hok _
    · simp only [RV_append v, RV_lp v, List.append_assoc]; exact lp_head cap _
  · rw [nText_nested cap esc ass hok h2 reps hr mn mx hc]
    simp only [RV_append v, RV_lp v, List.append_assoc]; exact lp_head cap _


theorem flatMap_headV (v : Bool) (cap esc : Bool) (gs : List Grapheme) (h : GOKL gs) (rest : List Nat) (hrest : rest.head? ≠ some 63) :
    (RV v (gs.flatMap (nText cap esc)) ++ rest).head? ≠ some 63 := by
  cases gs with
  | nil => simpa [RV_nil v] using hrest
  | cons g r =>
    simp only [GOKL] at h
    simp only [List.flatMap_cons, RV_append v, List.append_assoc]
    exact nText_headV v cap esc g h.1 _


mutual
/-- **one grapheme, any shape** the parser reads the items `gItems` from the text of a well-formed grapheme -/
theorem lexNV (v : Bool) (cap esc : Bool) : (g : Grapheme) → GOK g → ∀ (f : Nat) (rest : List Nat) (st : List Frame) (al co : List Pat),
    (gCounted g = true → rest.head? ≠ some 63) →
    parseLoop false (f + gToks g) (RV v (nText cap esc g) ++ rest) st al co =
      parseLoop false f rest st al ((gItems cap g).reverse ++ co)
  | .mk chars reps mn mx, h, f, rest, st, al, co, hrest0 => by
    have hrest : ¬ (mn = 1 ∧ mx = 1) → rest.head? ≠ some 63 := by
      intro hne
      apply hrest0
      simp only [gCounted, Grapheme.min, Grapheme.max, Bool.not_eq_true', Bool.and_eq_false_iff, beq_eq_false_iff_ne, ne_eq]
      by_cases h1 : mn = 1
      · right; intro h2; exact hne ⟨h1, h2⟩
      · left; exact h1
    rcases GOK_cases chars reps mn mx h with ⟨as, hne, hok, rfl, rfl, rfl, rfl⟩ | ⟨ass, hok, rfl, rfl, hc, hb⟩ |
      ⟨ass, hok, rfl, h2, hr, hl, hc, hb⟩
    · -- plain
      rw [nText_plain]
      have hi : gItems cap (Grapheme.mk [untok as] [] 1 1) = as.map atomPat := by
        simp [gItems, tokens_untok as hok]
      have ht : gToks (Grapheme.mk [untok as] [] 1 1) = as.length := by
        simp [gToks, tokens_untok as hok]
      rw [hi, ht]
      have := lex_grapheme v esc as hok f rest st al co
      exact this
    · -- counted, flat
      have hcne : ¬ (mn = 1 ∧ mx = 1) := by
        rcases hc with h | ⟨h, h'⟩ <;> omega
      rw [nText_flat]
      by_cases hs : SingleUnit ass
      · obtain ⟨a, rfl, hne92⟩ := hs
        have ha : AtomOK a := by
          rcases (hok.2 [a] List.mem_cons_self).2 with h | h
          · simp only [List.cons.injEq, and_true] at h; exact absurd h hne92
          · exact h a List.mem_cons_self
        have hsb : singleB ([[a]].map untok) = true := (singleB_iff [[a]] hok).mpr ⟨a, rfl, hne92⟩
        have hta : tokens (untok [a]) = [a] := tokens_untok [a] (hok.2 [a] List.mem_cons_self).2
        have hi : gItems cap (Grapheme.mk ([[a]].map untok) [] mn mx) = [Pat.rep (atomPat a) mn (some mx) true] := by
          simp only [gItems, hcne, ite_false, List.isEmpty_nil, ite_true, hsb]
          simp [hta]
        have ht : gToks (Grapheme.mk ([[a]].map untok) [] mn mx) = 2 := by
          simp only [gToks, hcne, ite_false, List.isEmpty_nil, ite_true, hsb]
          simp [hta]
        rw [hi, ht]
        exact lex_counted_singleV v cap esc a ha mn mx hc hb f rest (hrest hcne) st al co
      · have hsb : singleB (ass.map untok) = false := by
          cases hb' : singleB (ass.map untok) with
          | false => rfl
          | true => exact absurd ((singleB_iff ass hok).mp hb') hs
        have hi : gItems cap (Grapheme.mk (ass.map untok) [] mn mx) =
            [Pat.rep (Pat.grp cap (catList (unitItems ass))) mn (some mx) true] := by
          simp only [gItems, hcne, ite_false, List.isEmpty_nil, ite_true, hsb, Bool.false_eq_true, tokens_flat ass hok.2, unitItems_eq]
        have ht : gToks (Grapheme.mk (ass.map untok) [] mn mx) = unitLen ass + 3 := by
          simp only [gToks, hcne, ite_false, List.isEmpty_nil, ite_true, hsb, Bool.false_eq_true, tokens_len ass hok.2]
        rw [hi, ht, ← Nat.add_assoc]
        exact lex_counted_groupV v cap esc ass hok hs mn mx hc hb f rest (hrest hcne) st al co
    · -- counted, nested
      have hcne : ¬ (mn = 1 ∧ mx = 1) := by
        rcases hc with h | ⟨h, h'⟩ <;> omega
      have hre : reps.isEmpty = false := by
        cases reps with
        | nil => exact absurd rfl hr
        | cons _ _ => rfl
      have hi : gItems cap (Grapheme.mk (ass.map untok) reps mn mx) =
          [Pat.rep (Pat.grp cap (catList (gItemsL cap reps))) mn (some mx) true] := by
        simp only [gItems, hcne, ite_false, hre, Bool.false_eq_true]
      have ht : gToks (Grapheme.mk (ass.map untok) reps mn mx) = gToksL reps + 3 := by
        simp only [gToks, hcne, ite_false, hre, Bool.false_eq_true]
      rw [hi, ht, nText_nested cap esc ass hok h2 reps hr mn mx hc]
      simp only [RV_append v, RV_quantText v, RV_lp v, List.append_assoc]
      have h41 : RV v [41] = [41] := by cases v <;> decide
      rw [h41]
      have hstep1 : parseLoop false (f + (gToksL reps + 3)) (lp cap ++ (RV v (reps.flatMap (nText cap esc)) ++ ([41] ++ (quantText mn mx ++ rest)))) st al co =
          parseLoop false (f + 2 + gToksL reps) (RV v (reps.flatMap (nText cap esc)) ++ ([41] ++ (quantText mn mx ++ rest))) (⟨cap, al, co⟩ :: st) [] [] := by
        have e : f + (gToksL reps + 3) = (f + 2 + gToksL reps) + 1 := by omega
        rw [e]
        cases cap with
        | false => exact step_lparen_noncap _ _ st al co
        | true => exact step_lparen_cap _ _ (flatMap_headV v true esc reps hl _ (by simp)) st al co
      rw [hstep1, lexNLV v cap esc reps hl (f + 2) _ (⟨cap, al, co⟩ :: st) [] [] (by intro _; simp)]
      simp only [List.append_nil, List.singleton_append]
      rw [show f + 2 = (f + 1) + 1 by omega, step_rparen, closeFrame_nil]
      exact step_quant mn mx hc hb f rest (hrest hcne) _ (by simp [Quantifiable]) co st al
theorem lexNLV (v : Bool) (cap esc : Bool) : (gs : List Grapheme) → GOKL gs → ∀ (f : Nat) (rest : List Nat) (st : List Frame) (al co : List Pat),
    (anyCounted gs = true → rest.head? ≠ some 63) →
    parseLoop false (f + gToksL gs) (RV v (gs.flatMap (nText cap esc)) ++ rest) st al co =
      parseLoop false f rest st al ((gItemsL cap gs).reverse ++ co)
  | [], _, f, rest, st, al, co, _ => by simp [gToksL, gItemsL, RV_nil v]
  | g :: gs, h, f, rest, st, al, co, hrest => by
    simp only [GOKL] at h
    have hlen : f + gToksL (g :: gs) = (f + gToksL gs) + gToks g := by simp only [gToksL]; omega
    rw [hlen]
    simp only [List.flatMap_cons, RV_append v, List.append_assoc]
    have hg : gCounted g = true → (RV v (gs.flatMap (nText cap esc)) ++ rest).head? ≠ some 63 := by
      intro hcg
      cases gs with
      | nil => simp only [List.flatMap_nil, RV_nil v, List.nil_append]; exact hrest (by simp [anyCounted, hcg])
      | cons g2 r2 =>
        simp only [GOKL] at h
        simp only [List.flatMap_cons, RV_append v, List.append_assoc]
        exact nText_headV v cap esc g2 h.2.1 _
    rw [lexNV v cap esc g h.1 (f + gToksL gs) _ st al co hg,
      lexNLV v cap esc gs h.2 f rest st al _ (fun hc => hrest (by simp only [anyCounted, List.any_cons, Bool.or_eq_true] at hc ⊢; exact Or.inr hc))]
    simp [gItemsL]
end

/-- **one literal with counted graphemes** -/
theorem lex_literalRV (v : Bool) (cap esc : Bool) (c : Cluster) (h : GOKL c) (f : Nat) (rest : List Nat) (st : List Frame) (al co : List Pat)
    (hrest : anyCounted c = true → rest.head? ≠ some 63) :
    parseLoop false (f + gToksL c) (RV v (fmtLiteral (cfgPlain cap esc) c) ++ rest) st al co =
      parseLoop false f rest st al ((gItemsL cap c).reverse ++ co) := by
  rw [fmtLiteral_text cap esc c h]
  exact lexNLV v cap esc c h f rest st al co hrest


theorem literal_headRV (v : Bool) (cap esc : Bool) (c : Cluster) (h : GOKL c) : HeadOK (RV v (fmtLiteral (cfgPlain cap esc) c)) := by
  intro rest hrest
  rw [fmtLiteral_text cap esc c h]
  exact flatMap_headV v cap esc c h rest hrest


mutual
theorem gToks_leV (v : Bool) (cap esc : Bool) : (g : Grapheme) → GOK g → gToks g ≤ (RV v (nText cap esc g)).length
  | .mk chars reps mn mx, h => by
    rcases GOK_cases chars reps mn mx h with ⟨as, hne, hok, rfl, rfl, rfl, rfl⟩ | ⟨ass, hok, rfl, rfl, hc, hb⟩ |
      ⟨ass, hok, rfl, h2, hr, hl, hc, hb⟩
    · rw [nText_plain]
      have ht : gToks (Grapheme.mk [untok as] [] 1 1) = as.length := by simp [gToks, tokens_untok as hok]
      rw [ht]
      have := R_escape_len v esc as hok
      exact this
    · have hcne : ¬ (mn = 1 ∧ mx = 1) := by rcases hc with h | ⟨h, h'⟩ <;> omega
      have hq := quantText_len mn mx
      have hu := unitLen_leV v esc ass hok.2
      rw [nText_flat, fmt_counted cap esc ass hok mn mx hc]
      by_cases hs : SingleUnit ass
      · have hsb : singleB (ass.map untok) = true := (singleB_iff ass hok).mpr hs
        rw [if_pos ((isSingleChar_iff esc ass hok mn mx).mpr hs)]
        have ht : gToks (Grapheme.mk (ass.map untok) [] mn mx) = unitLen ass + 1 := by
          simp only [gToks, hcne, ite_false, List.isEmpty_nil, ite_true, hsb, tokens_len ass hok.2]
        rw [ht, RV_append v, RV_quantText v, List.length_append]; omega
      · have hsb : singleB (ass.map untok) = false := by
          cases hb' : singleB (ass.map untok) with
          | false => rfl
          | true => exact absurd ((singleB_iff ass hok).mp hb') hs
        rw [if_neg (fun h => hs ((isSingleChar_iff esc ass hok mn mx).mp h))]
        have ht : gToks (Grapheme.mk (ass.map untok) [] mn mx) = unitLen ass + 3 := by
          simp only [gToks, hcne, ite_false, List.isEmpty_nil, ite_true, hsb, Bool.false_eq_true, tokens_len ass hok.2]
        rw [ht]
        simp only [RV_append v, RV_quantText v, RV_lp v, List.length_append]
        have h3 : 1 ≤ (lp cap).length := by cases cap <;> simp [lp]
        omega
    · have hcne : ¬ (mn = 1 ∧ mx = 1) := by rcases hc with h | ⟨h, h'⟩ <;> omega
      have hre : reps.isEmpty = false := by
        cases reps with
        | nil => exact absurd rfl hr
        | cons _ _ => rfl
      have ht : gToks (Grapheme.mk (ass.map untok) reps mn mx) = gToksL reps + 3 := by
        simp only [gToks, hcne, ite_false, hre, Bool.false_eq_true]
      rw [ht, nText_nested cap esc ass hok h2 reps hr mn mx hc]
      simp only [RV_append v, RV_quantText v, RV_lp v, List.length_append]
      have hq := quantText_len mn mx
      have h3 : 1 ≤ (lp cap).length := by cases cap <;> simp [lp]
      have := gToksL_leV v cap esc reps hl
      omega
theorem gToksL_leV (v : Bool) (cap esc : Bool) : (gs : List Grapheme) → GOKL gs → gToksL gs ≤ (RV v (gs.flatMap (nText cap esc))).length
  | [], _ => by simp [gToksL]
  | g :: gs, h => by
    simp only [GOKL] at h
    have h1 := gToks_leV v cap esc g h.1
    have h2 := gToksL_leV v cap esc gs h.2
    simp only [gToksL, List.flatMap_cons, RV_append v, List.length_append]
    omega
end

theorem literal_lenRV (v : Bool) (cap esc : Bool) (c : Cluster) (h : GOKL c) : gToksL c ≤ (RV v (fmtLiteral (cfgPlain cap esc) c)).length := by
  rw [fmtLiteral_text cap esc c h]
  exact gToksL_leV v cap esc c h


end Grexv
