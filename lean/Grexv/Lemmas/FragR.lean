import Grexv.Lemmas.SoundR

/-
The patterns read from printed `-r` text lie in the fragment on which the matcher is proved exact (`FragC`), hence `^ items $`
accepts a string in full iff the items denote it.
-/
set_option linter.unusedSimpArgs false
set_option linter.unusedVariables false
namespace Grexv
open Spec

theorem fragC_catList (ps : List Pat) (h : ∀ p ∈ ps, p.FragC) : (catList ps).FragC := by
  induction ps with
  | nil => trivial
  | cons p ps ih =>
    cases ps with
    | nil => exact h p List.mem_cons_self
    | cons q qs => exact ⟨h p List.mem_cons_self, ih (fun x hx => h x (List.mem_cons_of_mem _ hx))⟩

theorem fragC_altList (ps : List Pat) (h : ∀ p ∈ ps, p.FragC) : (altList ps).FragC := by
  induction ps with
  | nil => trivial
  | cons p ps ih =>
    cases ps with
    | nil => exact h p List.mem_cons_self
    | cons q qs => exact ⟨h p List.mem_cons_self, ih (fun x hx => h x (List.mem_cons_of_mem _ hx))⟩

theorem fragC_subOf (cap esc : Bool) (outer : Nat) (e : Expr) (its : List Pat) (bd : Pat)
    (h1 : ∀ p ∈ its, p.FragC) (h2 : bd.FragC) : ∀ p ∈ subOf cap esc outer e its bd, p.FragC := by
  unfold subOf
  split
  · intro p hp; simp only [List.mem_singleton] at hp; subst hp; exact h2
  · exact h1

theorem fragC_optOf (l : List Pat) (h : ∀ p ∈ l, p.FragC) : ∀ p ∈ optOf l, p.FragC := by
  unfold optOf
  split
  · rename_i p
    intro q hq
    simp only [List.mem_singleton] at hq
    subst hq
    exact ⟨h p (by simp), Or.inl ⟨rfl, rfl⟩⟩
  · exact h

theorem denLC_nonnull (i : Bool) : ∀ (ps : List Pat), ps ≠ [] → (∀ p ∈ ps, ∀ s, p.denC i s → s ≠ []) → ∀ s, denLC i ps s → s ≠ []
  | [], h, _, _, _ => absurd rfl h
  | p :: ps, _, hp, s, hd => by
    obtain ⟨u, v, rfl, hu, _⟩ := hd
    have := hp p List.mem_cons_self u hu
    intro hc
    exact this (List.append_eq_nil_iff.mp hc).1

theorem powL_nonnull (L : Str → Prop) (hL : ∀ s, L s → s ≠ []) : ∀ k, 1 ≤ k → ∀ s, powL L k s → s ≠ []
  | 0, h, _, _ => by omega
  | k + 1, _, s, hp => by
    obtain ⟨u, v, rfl, hu, _⟩ := hp
    intro hc
    exact hL u hu (List.append_eq_nil_iff.mp hc).1

theorem atomPat_nonnull (i : Bool) (a : Atom) (s : Str) (h : (atomPat a).denC i s) : s ≠ [] := by
  rw [Pat.denC_eq_den i _ (frag_atomPat a), den_atomPat] at h
  obtain ⟨x, rfl, _⟩ := h; simp

mutual
/-- the items of a well-formed grapheme: in the fragment, non-empty, and never matching the empty string -/
theorem gItems_fragC (cap : Bool) : (g : Grapheme) → GOK g →
    gItems cap g ≠ [] ∧ ∀ p ∈ gItems cap g, p.FragC ∧ ∀ i s, p.denC i s → s ≠ []
  | .mk chars reps mn mx, hok => by
    have hmin := GOK_min _ hok
    simp only [Grapheme.min] at hmin
    rcases GOK_cases chars reps mn mx hok with ⟨as, hne, hasok, rfl, rfl, rfl, rfl⟩ | ⟨ass, hass, rfl, rfl, hc, hb⟩ |
      ⟨ass, hass, rfl, h2, hr, hl, hc, hb⟩
    · have hi : gItems cap (Grapheme.mk [untok as] [] 1 1) = as.map atomPat := by simp [gItems, tokens_untok as hasok]
      rw [hi]
      refine ⟨by simpa using hne, ?_⟩
      intro p hp
      obtain ⟨a, _, rfl⟩ := List.mem_map.mp hp
      exact ⟨(frag_atomPat a).toFragC, fun i s h => atomPat_nonnull i a s h⟩
    · -- flat
      have hmnmx : mn ≤ mx := by rcases hc with h | ⟨h, _⟩ <;> omega
      have hflatne : ass.flatten ≠ [] := by
        obtain ⟨hne, hall⟩ := hass
        cases ass with
        | nil => exact absurd rfl hne
        | cons as r =>
          simp only [List.flatten_cons]
          intro hcc
          exact (hall as List.mem_cons_self).1 (List.append_eq_nil_iff.mp hcc).1
      have hcne : ¬ (mn = 1 ∧ mx = 1) := by rcases hc with h | ⟨h, h'⟩ <;> omega
      have key : ∃ body : Pat, gItems cap (Grapheme.mk (ass.map untok) [] mn mx) = [Pat.rep body mn (some mx) true] ∧
          body.Frag ∧ ∀ i s, body.denC i s → s ≠ [] := by
        by_cases hs : SingleUnit ass
        · obtain ⟨a, rfl, hne92⟩ := hs
          have hsb : singleB ([[a]].map untok) = true := (singleB_iff [[a]] hass).mpr ⟨a, rfl, hne92⟩
          have hta : tokens (untok [a]) = [a] := tokens_untok [a] (hass.2 [a] List.mem_cons_self).2
          refine ⟨atomPat a, ?_, frag_atomPat a, fun i s h => atomPat_nonnull i a s h⟩
          simp only [gItems, hcne, ite_false, List.isEmpty_nil, ite_true, hsb]
          simp [hta]
        · have hsb : singleB (ass.map untok) = false := by
            cases hb' : singleB (ass.map untok) with
            | false => rfl
            | true => exact absurd ((singleB_iff ass hass).mp hb') hs
          refine ⟨Pat.grp cap (catList (unitItems ass)), ?_, frag_catList _ (unitItems_frag ass), ?_⟩
          · simp only [gItems, hcne, ite_false, List.isEmpty_nil, ite_true, hsb, Bool.false_eq_true, tokens_flat ass hass.2, unitItems_eq]
          · intro i s h
            exact atomsDen_ne_nil i _ hflatne s ((unit_den cap ass i s).mp h)
      obtain ⟨body, hi, hfr, hnn⟩ := key
      rw [hi]
      refine ⟨by simp, ?_⟩
      intro p hp
      simp only [List.mem_singleton] at hp
      subst hp
      refine ⟨⟨hfr.toFragC, Or.inr ⟨mx, rfl, hmnmx, hnn⟩⟩, ?_⟩
      intro i s hd
      simp only [Pat.denC, rangeL] at hd
      obtain ⟨k, hk1, _, hp⟩ := hd
      exact powL_nonnull _ (hnn i) k (by omega) s hp
    · -- nested
      have hmnmx : mn ≤ mx := by rcases hc with h | ⟨h, _⟩ <;> omega
      have hcne : ¬ (mn = 1 ∧ mx = 1) := by rcases hc with h | ⟨h, h'⟩ <;> omega
      have hre : reps.isEmpty = false := by
        cases reps with
        | nil => exact absurd rfl hr
        | cons _ _ => rfl
      have hi : gItems cap (Grapheme.mk (ass.map untok) reps mn mx) =
          [Pat.rep (Pat.grp cap (catList (gItemsL cap reps))) mn (some mx) true] := by
        simp only [gItems, hcne, ite_false, hre, Bool.false_eq_true]
      obtain ⟨hlne, hlall⟩ := gItemsL_fragC cap reps hl hr
      have hbodyF : (Pat.grp cap (catList (gItemsL cap reps))).FragC := fragC_catList _ (fun p hp => (hlall p hp).1)
      have hbodyN : ∀ i s, (Pat.grp cap (catList (gItemsL cap reps))).denC i s → s ≠ [] := by
        intro i s h
        simp only [Pat.denC] at h
        rw [denC_catList] at h
        exact denLC_nonnull i _ hlne (fun p hp s hs => (hlall p hp).2 i s hs) s h
      rw [hi]
      refine ⟨by simp, ?_⟩
      intro p hp
      simp only [List.mem_singleton] at hp
      subst hp
      refine ⟨⟨hbodyF, Or.inr ⟨mx, rfl, hmnmx, hbodyN⟩⟩, ?_⟩
      intro i s hd
      simp only [Pat.denC, rangeL] at hd
      obtain ⟨k, hk1, _, hp⟩ := hd
      exact powL_nonnull _ (hbodyN i) k (by omega) s hp
theorem gItemsL_fragC (cap : Bool) : (gs : List Grapheme) → GOKL gs → gs ≠ [] →
    gItemsL cap gs ≠ [] ∧ ∀ p ∈ gItemsL cap gs, p.FragC ∧ ∀ i s, p.denC i s → s ≠ []
  | [], _, h => absurd rfl h
  | g :: gs, hok, _ => by
    simp only [GOKL] at hok
    obtain ⟨h1, h2⟩ := gItems_fragC cap g hok.1
    simp only [gItemsL]
    refine ⟨by intro hc; exact h1 (List.append_eq_nil_iff.mp hc).1, ?_⟩
    intro p hp
    simp only [List.mem_append] at hp
    rcases hp with hp | hp
    · exact h2 p hp
    · cases gs with
      | nil => simp [gItemsL] at hp
      | cons g2 r => exact (gItemsL_fragC cap (g2 :: r) hok.2 (by simp)).2 p hp
end

theorem litItems_fragC (cap : Bool) (c : Cluster) (h : GOKL c) : ∀ p ∈ gItemsL cap c, p.FragC := by
  cases c with
  | nil => intro p hp; simp [gItemsL] at hp
  | cons g r => exact fun p hp => ((gItemsL_fragC cap (g :: r) h (by simp)).2 p hp).1

mutual
theorem Expr.bothR_fragC (cap esc : Bool) : ∀ (e : Expr), e.WFR → (∀ p ∈ (e.bothR cap esc).1, p.FragC) ∧ (e.bothR cap esc).2.FragC
  | .lit c, hw => by
    have h := litItems_fragC cap c hw
    simp only [Expr.bothR]
    exact ⟨h, fragC_catList _ h⟩
  | .cls cs, _ => by
    have h : ∀ p ∈ [Pat.set (classItems cs) false], p.FragC := by
      intro p hp; simp only [List.mem_singleton] at hp; subst hp; trivial
    simp only [Expr.bothR]
    exact ⟨h, fragC_catList _ h⟩
  | .cat a b, hw => by
    have ia := Expr.bothR_fragC cap esc a hw.1
    have ib := Expr.bothR_fragC cap esc b hw.2
    have h : ∀ p ∈ subOf cap esc 2 a (a.bothR cap esc).1 (a.bothR cap esc).2 ++ subOf cap esc 2 b (b.bothR cap esc).1 (b.bothR cap esc).2, p.FragC := by
      intro p hp
      simp only [List.mem_append] at hp
      rcases hp with hp | hp
      · exact fragC_subOf cap esc 2 a _ _ ia.1 ia.2 p hp
      · exact fragC_subOf cap esc 2 b _ _ ib.1 ib.2 p hp
    simp only [Expr.bothR]
    exact ⟨h, fragC_catList _ h⟩
  | .rep e q, hw => by
    have ie := Expr.bothR_fragC cap esc e hw.2.2
    have h := fragC_optOf _ (fragC_subOf cap esc 3 e _ _ ie.1 ie.2)
    simp only [Expr.bothR]
    exact ⟨h, fragC_catList _ h⟩
  | .alt os, hw => by
    simp only [Expr.bothR]
    exact ⟨by simp, fragC_altList _ (Expr.bothLR_fragC cap esc os hw.2)⟩
theorem Expr.bothLR_fragC (cap esc : Bool) : ∀ (os : List Expr), Expr.WFLR os → ∀ p ∈ Expr.bothLR cap esc os, p.FragC
  | [], _ => by simp [Expr.bothLR]
  | o :: os, hw => by
    intro p hp
    simp only [Expr.bothLR, List.mem_cons] at hp
    rcases hp with rfl | hp
    · exact fragC_catList _ (Expr.bothR_fragC cap esc o hw.2.1).1
    · exact Expr.bothLR_fragC cap esc os hw.2.2 p hp
end

/-- `^ items $` on the extended fragment -/
theorem fullMatch_anchored_itemsC (i : Bool) (its : List Pat) (hf : ∀ p ∈ its, p.FragC) (s : List Nat) :
    fullMatch i (catList (Pat.bol :: (its ++ [Pat.eol]))) s = true ↔ denLC i its s := by
  have hne : its ++ [Pat.eol] ≠ [] := by simp
  have hL : catList (Pat.bol :: (its ++ [Pat.eol])) = Pat.cat Pat.bol (catList (its ++ [Pat.eol])) := by
    cases h : its ++ [Pat.eol] with
    | nil => exact absurd h hne
    | cons a as => rfl
  simp only [fullMatch, hL, matchP, ite_true, List.flatMap_cons, List.flatMap_nil, List.append_nil, List.any_eq_true,
    List.isEmpty_iff]
  rw [← denC_catList i]
  constructor
  · rintro ⟨st, hst, he⟩
    obtain ⟨h1, _⟩ := (matchP_catList_eol i its 0 s st).mp hst
    obtain ⟨u, hu, hs, _⟩ := (matchP_exactC i _ (fragC_catList its hf) 0 s st).mp h1
    rw [he] at hs
    simp at hs; subst hs; exact hu
  · intro h
    refine ⟨(s.length, []), ?_, rfl⟩
    apply (matchP_catList_eol i its 0 s _).mpr
    exact ⟨(matchP_exactC i _ (fragC_catList its hf) 0 s _).mpr ⟨s, h, by simp, by simp⟩, rfl⟩

end Grexv
