import Grexv.Lemmas.Trie

/-
S5 exactness: the trie accepts *only* the inserted clusters (plain graphemes).
Invariant: the graph is a tree rooted at state 0 whose edges go from smaller to larger state numbers,
with at most one incoming edge per state and at most one out-edge per (state, label).
-/
set_option linter.unusedSimpArgs false
set_option linter.unusedVariables false
namespace Grexv
namespace Dfa

structure TreeInv (d : Dfa) : Prop where
  simple : d.AllSimple
  init0 : d.init = 0
  pos : 0 < d.nodes
  lt : ∀ e ∈ d.edges, e.src < e.dst ∧ e.dst < d.nodes
  inj : ∀ e1 ∈ d.edges, ∀ e2 ∈ d.edges, e1.dst = e2.dst → e1 = e2
  det : ∀ e1 ∈ d.edges, ∀ e2 ∈ d.edges, e1.src = e2.src → e1.label = e2.label → e1 = e2

theorem Path.le {d : Dfa} (hlt : ∀ e ∈ d.edges, e.src < e.dst) {s t : Nat} {w : List Grapheme} (p : Path d s w t) : s ≤ t := by
  induction p with
  | nil s => exact Nat.le_refl s
  | cons e he hs _ ih => have := hlt e he; omega

theorem Path.lt_of_ne_nil {d : Dfa} (hlt : ∀ e ∈ d.edges, e.src < e.dst) {s t : Nat} {w : List Grapheme}
    (p : Path d s w t) (hw : w ≠ []) : s < t := by
  cases p with
  | nil s => exact absurd rfl hw
  | cons e he hs rest => have := hlt e he; have := Path.le hlt rest; omega

theorem Path.snoc_inv {d : Dfa} {s t : Nat} {w : List Grapheme} (p : Path d s w t) (hw : w ≠ []) :
    ∃ w' e, w = w' ++ [e.label] ∧ Path d s w' e.src ∧ e ∈ d.edges ∧ e.dst = t := by
  induction p with
  | nil s => exact absurd rfl hw
  | @cons s t w0 e he hs rest ih =>
    by_cases hw0 : w0 = []
    · subst hw0
      cases rest
      exact ⟨[], e, rfl, by rw [hs]; exact Path.nil s, he, rfl⟩
    · obtain ⟨w', e', hw', hp', he', hd'⟩ := ih hw0
      exact ⟨e.label :: w', e', by rw [hw']; rfl, Path.cons e he hs hp', he', hd'⟩

/-- every state has exactly one access word -/
theorem unique_access {d : Dfa} (h : TreeInv d) :
    ∀ (n : Nat) (w1 w2 : List Grapheme) (t : Nat), w1.length = n → Path d 0 w1 t → Path d 0 w2 t → w1 = w2 := by
  have hlt : ∀ e ∈ d.edges, e.src < e.dst := fun e he => (h.lt e he).1
  intro n
  induction n with
  | zero =>
    intro w1 w2 t hn p1 p2
    have : w1 = [] := List.length_eq_zero_iff.mp hn
    subst this
    cases p1
    by_cases hw2 : w2 = []
    · exact hw2.symm
    · have := Path.lt_of_ne_nil hlt p2 hw2; omega
  | succ n ih =>
    intro w1 w2 t hn p1 p2
    have hw1 : w1 ≠ [] := by intro e; subst e; simp at hn
    obtain ⟨w1', e1, rfl, q1, he1, hd1⟩ := Path.snoc_inv p1 hw1
    have ht : 0 < t := by have := hlt e1 he1; omega
    have hw2 : w2 ≠ [] := by
      intro e; subst e; cases p2; omega
    obtain ⟨w2', e2, rfl, q2, he2, hd2⟩ := Path.snoc_inv p2 hw2
    have hee : e1 = e2 := h.inj e1 he1 e2 he2 (by rw [hd1, hd2])
    subst hee
    have : w1' = w2' := ih w1' w2' e1.src (by simp at hn; omega) q1 q2
    rw [this]

/-- `d'` extends `d` by edges into fresh states only -/
structure Ext (d d' : Dfa) : Prop where
  keep : ∀ e ∈ d.edges, e ∈ d'.edges
  fresh : ∀ e ∈ d'.edges, e ∈ d.edges ∨ d.nodes ≤ e.dst
  nodes : d.nodes ≤ d'.nodes

theorem Ext.refl (d : Dfa) : Ext d d := ⟨fun _ h => h, fun _ h => Or.inl h, Nat.le_refl _⟩

theorem Ext.trans {a b c : Dfa} (h1 : Ext a b) (h2 : Ext b c) : Ext a c := by
  refine ⟨fun e he => h2.keep e (h1.keep e he), ?_, Nat.le_trans h1.nodes h2.nodes⟩
  intro e he
  rcases h2.fresh e he with h | h
  · exact h1.fresh e h
  · exact Or.inr (Nat.le_trans h1.nodes h)

/-- a path of the extension that ends in an old state runs entirely in the old graph -/
theorem Path.restrict {d d' : Dfa} (hext : Ext d d') (hlt : ∀ e ∈ d'.edges, e.src < e.dst)
    {s t : Nat} {w : List Grapheme} (p : Path d' s w t) (ht : t < d.nodes) : Path d s w t := by
  induction p with
  | nil s => exact Path.nil s
  | cons e he hs rest ih =>
    have hle := Path.le hlt rest
    rcases hext.fresh e he with hold | hnew
    · exact Path.cons e hold hs (ih ht)
    · omega

/-- one step of `insert` keeps the tree invariant, extends the graph, and ends in a valid state -/
theorem step_tree (d : Dfa) (cur : Nat) (g : Grapheme) (hg : g.Simple) (hd : TreeInv d) (hcur : cur < d.nodes) :
    TreeInv (step d cur g).1 ∧ Ext d (step d cur g).1 ∧ (step d cur g).2 < (step d cur g).1.nodes := by
  have hout : ∀ e ∈ d.outEdges cur, e.label.Simple := by
    intro e he
    simp only [outEdges, List.mem_reverse, List.mem_filter] at he
    exact hd.simple e he.1
  simp only [step]
  rcases findNext_simple g hg (d.outEdges cur) hout with ⟨h1, hne⟩ | ⟨e, he, h1, h2⟩
  · rw [h1]
    simp only []
    refine ⟨⟨?_, hd.init0, Nat.succ_pos _, ?_, ?_, ?_⟩, ⟨fun e he => by simp [he], ?_, by simp⟩, by simp⟩
    · intro e he
      simp only [List.mem_append, List.mem_cons, List.mem_nil_iff, or_false] at he
      rcases he with he | rfl
      · exact hd.simple e he
      · exact hg
    · intro e he
      simp only [List.mem_append, List.mem_cons, List.mem_nil_iff, or_false] at he
      rcases he with he | rfl
      · have := hd.lt e he; exact ⟨this.1, Nat.lt_succ_of_lt this.2⟩
      · exact ⟨hcur, Nat.lt_succ_self _⟩
    · intro e1 he1 e2 he2 hdst
      simp only [List.mem_append, List.mem_cons, List.mem_nil_iff, or_false] at he1 he2
      rcases he1 with he1 | rfl <;> rcases he2 with he2 | rfl
      · exact hd.inj e1 he1 e2 he2 hdst
      · have := (hd.lt e1 he1).2; simp at hdst; omega
      · have := (hd.lt e2 he2).2; simp at hdst; omega
      · rfl
    · intro e1 he1 e2 he2 hsrc hlab
      simp only [List.mem_append, List.mem_cons, List.mem_nil_iff, or_false] at he1 he2
      rcases he1 with he1 | rfl <;> rcases he2 with he2 | rfl
      · exact hd.det e1 he1 e2 he2 hsrc hlab
      · exfalso
        simp only at hsrc hlab
        exact hne e1 (by simp [outEdges, he1, hsrc]) hlab
      · exfalso
        simp only at hsrc hlab
        exact hne e2 (by simp [outEdges, he2, hsrc.symm]) hlab.symm
      · rfl
    · intro e he
      simp only [List.mem_append, List.mem_cons, List.mem_nil_iff, or_false] at he
      rcases he with he | rfl
      · exact Or.inl he
      · exact Or.inr (Nat.le_refl _)
  · rw [h2]
    simp only [outEdges, List.mem_reverse, List.mem_filter, decide_eq_true_eq] at he
    exact ⟨hd, Ext.refl d, by have := (hd.lt e he.1).2; simpa using this⟩

theorem treeInv_alphabet (d : Dfa) (al : List Grapheme) (h : TreeInv d) : TreeInv { d with alphabet := al } :=
  ⟨h.simple, h.init0, h.pos, h.lt, h.inj, h.det⟩

theorem foldl_tree (cl : Cluster) (hcl : ∀ g ∈ cl, g.Simple) :
    ∀ (d : Dfa) (cur : Nat), TreeInv d → cur < d.nodes →
      TreeInv (cl.foldl insertFold (d, cur)).1 ∧ Ext d (cl.foldl insertFold (d, cur)).1 ∧
        (cl.foldl insertFold (d, cur)).2 < (cl.foldl insertFold (d, cur)).1.nodes := by
  induction cl with
  | nil => intro d cur hd hcur; exact ⟨hd, Ext.refl d, hcur⟩
  | cons g rest ih =>
    intro d cur hd hcur
    have hg := hcl g (List.mem_cons_self)
    have hrest : ∀ g ∈ rest, g.Simple := fun x hx => hcl x (List.mem_cons_of_mem _ hx)
    let d0 : Dfa := { d with alphabet := alphaInsert g d.alphabet }
    obtain ⟨t1, e1, c1⟩ := step_tree d0 cur g hg (treeInv_alphabet d _ hd) hcur
    have hfold : (g :: rest).foldl insertFold (d, cur) = rest.foldl insertFold (step d0 cur g) := rfl
    rw [hfold]
    obtain ⟨t2, e2, c2⟩ := ih hrest (step d0 cur g).1 (step d0 cur g).2 t1 c1
    have e0 : Ext d d0 := ⟨fun _ h => h, fun _ h => Or.inl h, Nat.le_refl _⟩
    exact ⟨t2, (e0.trans e1).trans e2, c2⟩

/-- **S5 exactness, one insertion** -/
theorem insert_exact (d : Dfa) (cl : Cluster) (hcl : ∀ g ∈ cl, g.Simple) (hd : TreeInv d)
    (hfin : ∀ f ∈ d.finals, f < d.nodes) :
    TreeInv (insert d cl) ∧ (∀ f ∈ (insert d cl).finals, f < (insert d cl).nodes) ∧
      ∀ w, (insert d cl).Accepts w ↔ (d.Accepts w ∨ w = cl) := by
  have hinit : d.init < d.nodes := by rw [hd.init0]; exact hd.pos
  obtain ⟨ht, hext, hlast⟩ := foldl_tree cl hcl d d.init hd hinit
  obtain ⟨hp, hmono, hs, hinit', hfin'⟩ := foldl_spec cl hcl d d.init hd.simple
  have hspec := insert_spec d cl hcl hd.simple
  rw [insert_eq] at hspec ⊢
  let r := cl.foldl insertFold (d, d.init)
  have htree : TreeInv { r.1 with finals := if r.1.finals.contains r.2 then r.1.finals else r.1.finals ++ [r.2] } :=
    ⟨ht.simple, ht.init0, ht.pos, ht.lt, ht.inj, ht.det⟩
  refine ⟨htree, ?_, ?_⟩
  · intro f hf
    simp only [] at hf
    have hold : ∀ f ∈ r.1.finals, f < r.1.nodes := by
      intro f hf; rw [hfin'] at hf; exact Nat.lt_of_lt_of_le (hfin f hf) hext.nodes
    split at hf
    · exact hold f hf
    · simp only [List.mem_append, List.mem_cons, List.mem_nil_iff, or_false] at hf
      rcases hf with hf | rfl
      · exact hold f hf
      · exact hlast
  · intro w
    constructor
    · rintro ⟨t, hpath, htfin⟩
      simp only [] at hpath htfin
      have hpath' : Path r.1 0 w t := by
        rw [← ht.init0]
        refine Path.mono (d := { r.1 with finals := _ }) ?_ hpath
        intro e he; exact he
      have hpcl : Path r.1 0 cl r.2 := by rw [← hd.init0]; exact hp
      have hold_or : t ∈ d.finals ∨ t = r.2 := by
        split at htfin
        · left; rw [← hfin']; exact htfin
        · simp only [List.mem_append, List.mem_cons, List.mem_nil_iff, or_false] at htfin
          rcases htfin with h | h
          · left; rw [← hfin']; exact h
          · right; exact h
      rcases hold_or with hold | rfl
      · left
        have hlt' : ∀ e ∈ r.1.edges, e.src < e.dst := fun e he => (ht.lt e he).1
        have := Path.restrict hext hlt' hpath' (hfin t hold)
        exact ⟨t, by rw [hd.init0]; exact this, hold⟩
      · right
        exact unique_access ht w.length w cl _ rfl hpath' hpcl
    · rintro (h | rfl)
      · exact hspec.2.1 w h
      · exact hspec.1

theorem empty_tree : TreeInv Dfa.empty :=
  ⟨empty_allSimple, rfl, by simp [Dfa.empty], by intro e he; simp [Dfa.empty] at he,
   by intro e he; simp [Dfa.empty] at he, by intro e he; simp [Dfa.empty] at he⟩

/-- **S5 exactness** the trie accepts exactly the inserted clusters -/
theorem trie_exact (cls : List Cluster) (hcls : ∀ cl ∈ cls, ∀ g ∈ cl, g.Simple) (w : List Grapheme) :
    (trie cls).Accepts w ↔ w ∈ cls := by
  suffices h : ∀ (d : Dfa), TreeInv d → (∀ f ∈ d.finals, f < d.nodes) →
      ((cls.foldl insert d).Accepts w ↔ (d.Accepts w ∨ w ∈ cls)) by
    have := h Dfa.empty empty_tree (by intro f hf; simp [Dfa.empty] at hf)
    rw [trie, this]
    constructor
    · rintro (⟨t, _, ht⟩ | h)
      · simp [Dfa.empty] at ht
      · exact h
    · intro h; exact Or.inr h
  induction cls with
  | nil => intro d _ _; simp
  | cons c rest ih =>
    intro d hd hfin
    obtain ⟨h1, h2, h3⟩ := insert_exact d c (hcls c (List.mem_cons_self)) hd hfin
    simp only [List.foldl_cons]
    rw [ih (fun cl hcl => hcls cl (List.mem_cons_of_mem _ hcl)) (insert d c) h1 h2, h3 w]
    simp only [List.mem_cons]
    constructor
    · rintro ((h | h) | h)
      · exact Or.inl h
      · exact Or.inr (Or.inl h)
      · exact Or.inr (Or.inr h)
    · rintro (h | h | h)
      · exact Or.inl (Or.inl h)
      · exact Or.inl (Or.inr h)
      · exact Or.inr h

end Dfa
end Grexv
