import Grexv.Lemmas.EndToEndRV

/-
The pattern the regex crate builds from the text a *run* returns: `^` iff requested, the items of the expression that was kept, `$` iff
requested — for the four printing modes (plain / verbose, without / with repetition conversion).  The pattern-level statements about
expressions (no counted quantifier, all-or-none groups, anchors only where requested, thresholds) apply to runs through these.
-/
set_option linter.unusedSimpArgs false
set_option linter.unusedVariables false
namespace Grexv
open Spec

theorem run_shape_plain (cfg : Config) (hp : PlainPrintNA cfg) (env : Env) (ws : List Str) (st : Stages)
    (h : regExpFrom cfg env ws = .ok st) (hseg : ∀ w ∈ storedCases cfg env ws, SegOK env w) (hws : ws ≠ []) :
    st.finalAst.WF ∧
    Spec.parse (fmtRegExp cfg st.finalAst) =
      some (⟨cfg.ci, false⟩, catList (preA cfg.noStart ++ (topItems cfg.cap cfg.esc st.finalAst ++ postA cfg.noEnd))) := by
  have hwf := final_expr_wf cfg hp.rep env ws st h hseg hws
  refine ⟨hwf, ?_⟩
  rw [fmtRegExp_plainNA_eq cfg hp]
  exact parse_ci_prefixG _ _ (flags_printedA cfg.cap cfg.esc cfg.noStart cfg.noEnd _ hwf)
    (parse_printedA cfg.cap cfg.esc cfg.noStart cfg.noEnd _ hwf) cfg.ci

theorem run_shape_verbose (cfg : Config) (hp : VerbosePrintNA cfg) (env : Env) (ws : List Str) (st : Stages)
    (h : regExpFrom cfg env ws = .ok st) (hseg : ∀ w ∈ storedCases cfg env ws, SegOK env w) (hws : ws ≠ []) :
    st.finalAst.WF ∧
    Spec.parse (fmtRegExp cfg st.finalAst) =
      some (⟨cfg.ci, true⟩, catList (preA cfg.noStart ++ (topItems cfg.cap cfg.esc st.finalAst ++ postA cfg.noEnd))) := by
  have hwf := final_expr_wf cfg hp.rep env ws st h hseg hws
  refine ⟨hwf, ?_⟩
  rw [fmtRegExp_verboseNA_eq cfg hp]
  exact parse_verbose cfg.cap cfg.esc cfg.ci cfg.noStart cfg.noEnd _ hwf

theorem run_shape_rep (cfg : Config) (hp : RepPrintNA cfg) (env : Env) (ws : List Str) (st : Stages)
    (h : regExpFrom cfg env ws = .ok st) (hseg : ∀ w ∈ storedCases cfg env ws, SegOK env w)
    (hlen : ∀ w ∈ storedCases cfg env ws, (subPieces (env.segOf w)).length ≤ 1000) (hws : ws ≠ []) :
    st.finalAst.WFS ∧
    Spec.parse (fmtRegExp cfg st.finalAst) =
      some (⟨cfg.ci, false⟩, catList (preA cfg.noStart ++ (topItemsR cfg.cap cfg.esc st.finalAst ++ postA cfg.noEnd))) := by
  have hwfs := rep_final_wfs_na cfg hp.rep hp.minRep env ws st h hseg hlen hws
  have hwr := Expr.WFS.toWFR _ hwfs
  refine ⟨hwfs, ?_⟩
  rw [fmtRegExp_repPrint cfg hp]
  exact parse_ci_prefixG _ _ (flags_printedAR cfg.cap cfg.esc cfg.noStart cfg.noEnd _ hwr)
    (parse_printedAR cfg.cap cfg.esc cfg.noStart cfg.noEnd _ hwr) cfg.ci

theorem run_shape_rep_verbose (cfg : Config) (hp : RepVerbose cfg) (env : Env) (ws : List Str) (st : Stages)
    (h : regExpFrom cfg env ws = .ok st) (hseg : ∀ w ∈ storedCases cfg env ws, SegOK env w)
    (hlen : ∀ w ∈ storedCases cfg env ws, (subPieces (env.segOf w)).length ≤ 1000) (hws : ws ≠ []) :
    st.finalAst.WFS ∧
    Spec.parse (fmtRegExp cfg st.finalAst) =
      some (⟨cfg.ci, true⟩, catList (preA cfg.noStart ++ (topItemsR cfg.cap cfg.esc st.finalAst ++ postA cfg.noEnd))) := by
  have hwfs := rep_final_wfs_na cfg hp.rep hp.minRep env ws st h hseg hlen hws
  have hwr := Expr.WFS.toWFR _ hwfs
  refine ⟨hwfs, ?_⟩
  rw [fmtRegExp_repVerbose cfg hp]
  exact parse_verboseR cfg.cap cfg.esc cfg.ci cfg.noStart cfg.noEnd _ hwr

end Grexv
