import Grexv.Lemmas.QuotientRel
import Grexv.Lemmas.RepExpand
import Grexv.Lemmas.Stages
import Grexv.Lemmas.Pipeline

/-
S1–S6 with repetition conversion, composed: every stored test case has a converted cluster that expands back to the
test case's graphemes (S4, `RepExpand`), the trie stands for it (S5, `RepTrie`) and so does the minimised automaton
(S6, `HopcroftRel` + `QuotientRel`).
-/
set_option linter.unusedSimpArgs false
set_option linter.unusedVariables false
namespace Grexv

/-- the clusters before repetition conversion (S2, S3) -/
def preClusters (cfg : Config) (env : Env) (ws : List Str) : List Cluster :=
  let cs := ws.map fun w => clusterOfPieces (env.segOf w)
  if cfg.charClassFeature then cs.map (convertClasses cfg) else cs

theorem graphemeClusters_rep (cfg : Config) (env : Env) (ws : List Str) (hrep : cfg.rep = true) :
    graphemeClusters cfg env ws = (preClusters cfg env ws).map (convertRepetitions cfg) := by
  simp [graphemeClusters, preClusters, hrep]

theorem preClusters_plain (cfg : Config) (env : Env) (ws : List Str) (hseg : ∀ w ∈ ws, ∀ p ∈ env.segOf w, p ≠ []) :
    ∀ cl ∈ preClusters cfg env ws, ∀ g ∈ cl, ∃ s, s ≠ [] ∧ g = Grapheme.ofStr s := by
  intro cl hcl g hg
  simp only [preClusters] at hcl
  have plain : ∀ w ∈ ws, ∀ g ∈ clusterOfPieces (env.segOf w), ∃ s, s ≠ [] ∧ g = Grapheme.ofStr s := by
    intro w hw g hg
    simp only [clusterOfPieces, List.mem_flatMap] at hg
    obtain ⟨it, hit, hg⟩ := hg
    split at hg
    · simp at hg; obtain ⟨c, _, rfl⟩ := hg; exact ⟨[c], by simp, rfl⟩
    · simp at hg; subst hg; exact ⟨it, hseg w hw it hit, rfl⟩
  by_cases hf : cfg.charClassFeature = true
  · simp only [hf, ite_true, List.map_map] at hcl
    obtain ⟨w, hw, rfl⟩ := List.mem_map.mp hcl
    simp only [Function.comp, convertClasses, List.mem_map] at hg
    obtain ⟨g0, hg0, rfl⟩ := hg
    obtain ⟨s, hs, rfl⟩ := plain w hw g0 hg0
    exact ⟨s.flatMap (convChar cfg), flatMap_ne _ s hs (convChar_ne cfg), rfl⟩
  · simp only [hf] at hcl
    obtain ⟨w, hw, rfl⟩ := List.mem_map.mp hcl
    exact plain w hw g hg

theorem plain_eq_map (cl : Cluster) (h : ∀ g ∈ cl, ∃ s, s ≠ [] ∧ g = Grapheme.ofStr s) :
    cl = (cl.map Grapheme.value).map Grapheme.ofStr := by
  induction cl with
  | nil => rfl
  | cons g rest ih =>
    obtain ⟨s, _, rfl⟩ := h g List.mem_cons_self
    have hv : (Grapheme.ofStr s).value = s := by show [s].flatten = s; simp
    simp only [List.map_cons, hv]
    congr 1
    exact ih (fun x hx => h x (List.mem_cons_of_mem _ hx))

theorem spliceLoop_counts (cfg : Config) : ∀ (rs : List RepRange) (acc : Cluster), (∀ g ∈ acc, g.min = g.max) →
    ∀ g ∈ spliceLoop cfg rs acc, g.min = g.max := by
  intro rs
  induction rs with
  | nil => intro acc h; simpa [spliceLoop] using h
  | cons rp rest ih =>
    intro acc h
    obtain ⟨r, substr⟩ := rp
    simp only [spliceLoop]
    split
    · exact h
    · split
      · exact ih acc h
      · apply ih
        intro g hg
        simp only [splice, List.mem_append, List.mem_cons, List.mem_nil_iff, or_false] at hg
        rcases hg with (hg | hg) | hg
        · exact h g (List.mem_of_mem_take hg)
        · subst hg; rfl
        · exact h g (List.mem_of_mem_drop hg)

/-- every grapheme S4 produces carries one count -/
theorem convertRepetitions_counts (cfg : Config) (cl : Cluster) (h : ∀ g ∈ cl, g.min = g.max) :
    ∀ g ∈ convertRepetitions cfg cl, g.min = g.max := by
  unfold convertRepetitions
  cases hc : convertRepsAux cfg (cl.length + 1) cl with
  | none => simpa using h
  | some res =>
    simp only [Option.getD_some]
    simp only [convertRepsAux] at hc
    split at hc
    · simp at hc
    · simp only [Option.some.injEq] at hc
      subst hc
      intro g hg
      simp only [nestWith, List.mem_map] at hg
      obtain ⟨g0, hg0, rfl⟩ := hg
      exact spliceLoop_counts cfg _ _ h g0 hg0

open Dfa in
/-- **S1–S6 with `-r`, all inputs** for every configuration with repetition conversion (any class options, any thresholds),
every list of test cases and every segmentation into non-empty pieces: for each stored test case, the cluster S4 makes of it
(i) is one of the clusters handed to the trie, (ii) expands — every grapheme repeated by its count — to exactly the graphemes of the
test case before conversion, with consistent nested repetitions, and (iii) unless it is empty, is *carried* by an accepting path
of the minimised automaton: edge by edge the label has the grapheme's characters and a range of counts that contains the
grapheme's count -/
theorem rep_pipeline_sound (cfg : Config) (env : Env) (ws : List Str) (st : Stages) (h : regExpFrom cfg env ws = .ok st)
    (hrep : cfg.rep = true) (hseg : ∀ w ∈ st.sorted, ∀ p ∈ env.segOf w, p ≠ []) :
    ∀ pc ∈ preClusters cfg env st.sorted,
      convertRepetitions cfg pc ∈ st.clusters ∧
      expandAll (convertRepetitions cfg pc) = pc.map Grapheme.value ∧ ConsistentL (convertRepetitions cfg pc) ∧
      (convertRepetitions cfg pc ≠ [] → st.minimized.CAccepts (convertRepetitions cfg pc)) := by
  obtain ⟨_, hcl, htrie, hmin, _⟩ := from_stages_shape cfg env ws st h
  rw [graphemeClusters_rep cfg env _ hrep] at hcl
  intro pc hpc
  have hplain := preClusters_plain cfg env st.sorted hseg pc hpc
  have hmem : convertRepetitions cfg pc ∈ st.clusters := by rw [hcl]; exact List.mem_map_of_mem hpc
  have hexact := convertRepetitions_exact cfg (pc.map Grapheme.value)
  rw [← plain_eq_map pc hplain] at hexact
  refine ⟨hmem, hexact.1, hexact.2, ?_⟩
  intro hne
  have hcounts : ∀ cl ∈ st.clusters, ∀ g ∈ cl, g.min = g.max := by
    intro cl hc
    rw [hcl] at hc
    obtain ⟨pc', hpc', rfl⟩ := List.mem_map.mp hc
    apply convertRepetitions_counts
    intro g hg
    obtain ⟨s, _, rfl⟩ := preClusters_plain cfg env st.sorted hseg pc' hpc' g hg
    rfl
  obtain ⟨m, hm, hacc⟩ := minimize_trie_r st.clusters hcounts
  rw [← htrie, hmin] at hm
  cases hm
  exact hacc _ hmem hne

end Grexv
