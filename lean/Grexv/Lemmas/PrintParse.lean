import Grexv.Lemmas.PrintClass

/-
Structural level of print → parse: for a well-formed expression the text `Display for Expression` writes
(plain settings) is read back by the Spec parser as the abstract pattern `Expr.both` of ToPat.lean.
-/
set_option linter.unusedSimpArgs false
set_option linter.unusedVariables false
namespace Grexv
open Spec

/-! ### single rounds of the parser loop on structural characters -/

theorem step_lparen_cap (f : Nat) (rest : List Nat) (h : rest.head? ≠ some 63) (st : List Frame) (al co : List Pat) :
    parseLoop false (f + 1) (40 :: rest) st al co = parseLoop false f rest (⟨true, al, co⟩ :: st) [] [] := by
  rw [parseLoop]
  simp only [skipSpace_false, show (40 : Nat) ≠ 124 by decide, ite_false, ite_true]
  split
  · simp at h
  · simp at h
  · rfl

theorem step_lparen_noncap (f : Nat) (rest : List Nat) (st : List Frame) (al co : List Pat) :
    parseLoop false (f + 1) (40 :: 63 :: 58 :: rest) st al co = parseLoop false f rest (⟨false, al, co⟩ :: st) [] [] := by
  rw [parseLoop]
  simp

theorem step_rparen (f : Nat) (rest : List Nat) (fr : Frame) (st : List Frame) (al co : List Pat) :
    parseLoop false (f + 1) (41 :: rest) (fr :: st) al co =
      parseLoop false f rest st fr.alts (Pat.grp fr.capturing (closeFrame al co) :: fr.concat) := by
  rw [parseLoop]
  simp

theorem step_pipe (f : Nat) (rest : List Nat) (st : List Frame) (al co : List Pat) :
    parseLoop false (f + 1) (124 :: rest) st al co = parseLoop false f rest st (catList co.reverse :: al) [] := by
  rw [parseLoop]
  simp

def Quantifiable (p : Pat) : Prop := p ≠ .bol ∧ p ≠ .eol

theorem step_opt (f : Nat) (rest : List Nat) (h : rest.head? ≠ some 63) (p : Pat) (hp : Quantifiable p) (ps : List Pat)
    (st : List Frame) (al : List Pat) :
    parseLoop false (f + 1) (63 :: rest) st al (p :: ps) = parseLoop false f rest st al (Pat.rep p 0 (some 1) true :: ps) := by
  cases p with
  | bol => exact absurd rfl hp.1
  | eol => exact absurd rfl hp.2
  | _ =>
    rw [parseLoop]
    simp
    split
    · simp at h
    · rfl

theorem step_caret (f : Nat) (rest : List Nat) (st : List Frame) (al co : List Pat) :
    parseLoop false (f + 1) (94 :: rest) st al co = parseLoop false f rest st al (Pat.bol :: co) := by
  rw [parseLoop]
  simp

theorem step_dollar (f : Nat) (rest : List Nat) (st : List Frame) (al co : List Pat) :
    parseLoop false (f + 1) (36 :: rest) st al co = parseLoop false f rest st al (Pat.eol :: co) := by
  rw [parseLoop]
  simp

theorem step_end (f : Nat) (al co : List Pat) : parseLoop false (f + 1) [] [] al co = some (closeFrame al co) := by
  rw [parseLoop]
  simp

end Grexv

namespace Grexv
open Spec

/-! ### the printed text under plain settings -/

def lp (cap : Bool) : Str := if cap then [40] else [40, 63, 58]

/-- is the sub-expression put in a group? (the test of `fmtSub`) -/
def parenQ (cap esc : Bool) (outer : Nat) (e : Expr) : Bool :=
  decide (e.precedence < outer) && !e.isSingleCodepoint (cfgPlain cap esc)

theorem fmtSub_eq (cap esc : Bool) (outer : Nat) (fb : Bool) (e : Expr) :
    fmtSub (cfgPlain cap esc) outer fb e =
      if parenQ cap esc outer e then lp cap ++ (fmtExpr (cfgPlain cap esc) e ++ [41]) else fmtExpr (cfgPlain cap esc) e := by
  rw [fmtSub]
  by_cases hc : parenQ cap esc outer e = true
  · have hc' : (decide (e.precedence < outer) && !e.isSingleCodepoint (cfgPlain cap esc)) = true := hc
    rw [if_pos hc, if_pos hc']
    cases cap <;> simp [Comp.paren, Comp.leftParen, Comp.rightParen, cfgPlain, paint, lp, Gen.strCapturedLeftParen,
      Gen.strUncapturedLeftParen, Gen.strRightParen]
  · have hc' : ¬ (decide (e.precedence < outer) && !e.isSingleCodepoint (cfgPlain cap esc)) = true := hc
    rw [if_neg hc, if_neg hc']

theorem subOf_eq (cap esc : Bool) (outer : Nat) (e : Expr) (its : List Pat) (bd : Pat) :
    subOf cap esc outer e its bd = if parenQ cap esc outer e then [Pat.grp cap bd] else its := rfl

theorem R_lp (cap : Bool) : R (lp cap) = lp cap := by cases cap <;> decide
theorem RV_lp (v cap : Bool) : RV v (lp cap) = lp cap := by cases v <;> cases cap <;> decide

/-- the text never starts with a raw `?` when what follows does not -/
def HeadOK (t : Str) : Prop := ∀ rest : List Nat, rest.head? ≠ some 63 → (t ++ rest).head? ≠ some 63

/-- the text is non-empty and does not start with a raw `?` -/
def HeadOK' (t : Str) : Prop := ∃ h tl, t = h :: tl ∧ h ≠ 63

theorem HeadOK'.ok {t : Str} (h : HeadOK' t) : HeadOK t := by
  obtain ⟨a, tl, rfl, ha⟩ := h
  intro rest _
  simp [ha]

theorem headOK_nil : HeadOK [] := fun rest h => by simpa using h

theorem headOK_append {a b : Str} (ha : HeadOK a) (hb : HeadOK b) : HeadOK (a ++ b) := by
  intro rest hr
  rw [List.append_assoc]
  exact ha _ (hb rest hr)

theorem headOK'_append_left {a : Str} (b : Str) (ha : HeadOK' a) : HeadOK' (a ++ b) := by
  obtain ⟨h, tl, rfl, hh⟩ := ha
  exact ⟨h, tl ++ b, rfl, hh⟩

/-! ### token counts -/

def subTok (cap esc : Bool) (outer : Nat) (e : Expr) (ti tb : Nat) : Nat := if parenQ cap esc outer e then tb + 2 else ti

mutual
/-- rounds of the parser loop spent on the text of `e` (as items, as the body of a group) -/
def Expr.toks (cap esc : Bool) : Expr → Nat × Nat
  | .lit c => ((atomsOf c).length, (atomsOf c).length)
  | .cls _ => (1, 1)
  | .cat a b =>
    let ra := Expr.toks cap esc a
    let rb := Expr.toks cap esc b
    let n := subTok cap esc 2 a ra.1 ra.2 + subTok cap esc 2 b rb.1 rb.2
    (n, n)
  | .rep e _ =>
    let r := Expr.toks cap esc e
    let n := subTok cap esc 3 e r.1 r.2 + 1
    (n, n)
  | .alt os => (0, Expr.toksL cap esc os)
def Expr.toksL (cap esc : Bool) : List Expr → Nat
  | [] => 0
  | o :: os => (Expr.toks cap esc o).1 + (if os.isEmpty then 0 else 1) + Expr.toksL cap esc os
end

/-- does the text of `e` end with a quantifier (after which the parser looks ahead for a lazy marker)? -/
def Expr.endsQ (cap esc : Bool) : Expr → Bool
  | .rep _ _ => true
  | .cat a b => (!(parenQ cap esc 2 a) && Expr.endsQ cap esc a) || (!(parenQ cap esc 2 b) && Expr.endsQ cap esc b)
  | _ => false

/-! ### what the induction carries for one expression -/

structure PP (v cap esc : Bool) (e : Expr) : Prop where
  items : e.isAlt = false → ∀ (f : Nat) (rest : List Nat) (st : List Frame) (al co : List Pat),
    (e.endsQ cap esc = true → rest.head? ≠ some 63) →
    parseLoop false (f + (e.toks cap esc).1) (RV v (fmtExpr (cfgPlain cap esc) e) ++ rest) st al co =
      parseLoop false f rest st al ((e.both cap esc).1.reverse ++ co)
  body : ∀ (f : Nat) (rest : List Nat) (fr : Frame) (st : List Frame),
    parseLoop false (f + ((e.toks cap esc).2 + 1)) (RV v (fmtExpr (cfgPlain cap esc) e) ++ 41 :: rest) (fr :: st) [] [] =
      parseLoop false f rest st fr.alts (Pat.grp fr.capturing (e.both cap esc).2 :: fr.concat)
  head : HeadOK (RV v (fmtExpr (cfgPlain cap esc) e))
  len1 : e.isAlt = false → (e.toks cap esc).1 ≤ (RV v (fmtExpr (cfgPlain cap esc) e)).length
  len2 : (e.toks cap esc).2 ≤ (RV v (fmtExpr (cfgPlain cap esc) e)).length

theorem closeFrame_nil (its : List Pat) : closeFrame [] its.reverse = catList its := by
  simp [closeFrame, altList]

/-- for an expression that is not an alternation the group body follows from the items -/
theorem body_of_items (v cap esc : Bool) (e : Expr) (hna : e.isAlt = false)
    (hb : (e.both cap esc).2 = catList (e.both cap esc).1) (ht : (e.toks cap esc).2 = (e.toks cap esc).1)
    (hi : ∀ (f : Nat) (rest : List Nat) (st : List Frame) (al co : List Pat),
      (e.endsQ cap esc = true → rest.head? ≠ some 63) →
      parseLoop false (f + (e.toks cap esc).1) (RV v (fmtExpr (cfgPlain cap esc) e) ++ rest) st al co =
        parseLoop false f rest st al ((e.both cap esc).1.reverse ++ co))
    (f : Nat) (rest : List Nat) (fr : Frame) (st : List Frame) :
    parseLoop false (f + ((e.toks cap esc).2 + 1)) (RV v (fmtExpr (cfgPlain cap esc) e) ++ 41 :: rest) (fr :: st) [] [] =
      parseLoop false f rest st fr.alts (Pat.grp fr.capturing (e.both cap esc).2 :: fr.concat) := by
  have : f + ((e.toks cap esc).2 + 1) = (f + 1) + (e.toks cap esc).1 := by rw [ht]; omega
  rw [this, hi (f + 1) (41 :: rest) (fr :: st) [] [] (by intro _; simp), step_rparen, List.append_nil, closeFrame_nil, hb]

/-! ### sub-expressions -/

theorem sub_parse (v cap esc : Bool) (outer : Nat) (fb : Bool) (e : Expr) (hP : PP v cap esc e)
    (halt : e.isAlt = true → parenQ cap esc outer e = true)
    (f : Nat) (rest : List Nat) (st : List Frame) (al co : List Pat)
    (hq : (!(parenQ cap esc outer e) && e.endsQ cap esc) = true → rest.head? ≠ some 63) :
    parseLoop false (f + subTok cap esc outer e (e.toks cap esc).1 (e.toks cap esc).2) (RV v (fmtSub (cfgPlain cap esc) outer fb e) ++ rest) st al co =
      parseLoop false f rest st al ((subOf cap esc outer e (e.both cap esc).1 (e.both cap esc).2).reverse ++ co) := by
  rw [fmtSub_eq, subOf_eq, subTok]
  by_cases hp : parenQ cap esc outer e = true
  · simp only [hp, ite_true, RV_append, RV_lp, List.append_assoc]
    have hR41 : RV v [41] = [41] := by cases v <;> decide
    rw [hR41]
    have hfuel : f + ((e.toks cap esc).2 + 2) = (f + ((e.toks cap esc).2 + 1)) + 1 := by omega
    rw [hfuel]
    cases cap with
    | true =>
      simp only [lp, ite_true, List.singleton_append, List.cons_append, List.nil_append]
      rw [step_lparen_cap _ _ (hP.head _ (by simp)), hP.body]
      simp
    | false =>
      simp only [lp, Bool.false_eq_true, ite_false, List.cons_append, List.nil_append, List.singleton_append]
      rw [step_lparen_noncap, hP.body]
      simp
  · have hp' : parenQ cap esc outer e = false := by simpa using hp
    simp only [hp', Bool.false_eq_true, ite_false]
    have hna : e.isAlt = false := by
      cases h : e.isAlt with
      | false => rfl
      | true => rw [halt h] at hp'; cases hp'
    exact hP.items hna f rest st al co (fun h => hq (by simp [hp', h]))

theorem sub_head (v cap esc : Bool) (outer : Nat) (fb : Bool) (e : Expr) (hP : PP v cap esc e) : HeadOK (RV v (fmtSub (cfgPlain cap esc) outer fb e)) := by
  rw [fmtSub_eq]
  split
  · apply HeadOK'.ok
    rw [RV_append, RV_lp]
    cases cap
    · exact ⟨40, [63, 58] ++ RV v (fmtExpr (cfgPlain false esc) e ++ [41]), rfl, by decide⟩
    · exact ⟨40, [] ++ RV v (fmtExpr (cfgPlain true esc) e ++ [41]), rfl, by decide⟩
  · exact hP.head

theorem sub_len (v cap esc : Bool) (outer : Nat) (fb : Bool) (e : Expr) (hP : PP v cap esc e) (halt : e.isAlt = true → parenQ cap esc outer e = true) :
    subTok cap esc outer e (e.toks cap esc).1 (e.toks cap esc).2 ≤ (RV v (fmtSub (cfgPlain cap esc) outer fb e)).length := by
  rw [fmtSub_eq, subTok]
  by_cases hp : parenQ cap esc outer e = true
  · simp only [hp, ite_true, RV_append, RV_lp, List.length_append]
    have := hP.len2
    have h41 : (RV v [41]).length = 1 := by cases v <;> decide
    have hlp : 1 ≤ (lp cap).length := by cases cap <;> simp [lp]
    omega
  · have hp' : parenQ cap esc outer e = false := by simpa using hp
    simp only [hp', Bool.false_eq_true, ite_false]
    have hna : e.isAlt = false := by
      cases h : e.isAlt with
      | false => rfl
      | true => rw [halt h] at hp'; cases hp'
    exact hP.len1 hna

end Grexv

namespace Grexv
open Spec

/-! ### heads and lengths of literal text -/

theorem pc_head_ascii : (List.range 128).all (fun x => x == 92 || (match pc x with | h :: _ => h != 63 | [] => false)) = true := by
  decide +kernel

theorem pc_head (x : Nat) (hx : x ≠ 92) : HeadOK' (pc x) := by
  by_cases h : x < 128
  · have := List.all_eq_true.mp pc_head_ascii x (List.mem_range.mpr h)
    simp only [Bool.or_eq_true, beq_iff_eq] at this
    rcases this with h' | h'
    · exact absurd h' hx
    · cases hp : pc x with
      | nil => rw [hp] at h'; cases h'
      | cons a t => rw [hp] at h'; exact ⟨a, t, rfl, by simpa using h'⟩
  · have hs : x ∉ specials := by
      simp only [specials, Gen.charsToEscape, List.mem_append, List.mem_cons, List.mem_nil_iff, or_false]
      omega
    rw [pc_raw x hs]
    exact ⟨x, [], rfl, by omega⟩

theorem pcE_head (esc : Bool) (x : Nat) (hx : x ≠ 92) : HeadOK' (pcE esc x) := by
  by_cases h : x < 128
  · rw [pcE_ascii esc x h]; exact pc_head x hx
  · cases esc with
    | false => rw [pcE_false]; exact pc_head x hx
    | true => rw [pcE_nonascii x (by omega)]; exact ⟨92, _, rfl, by decide⟩

theorem pcV_head (v esc : Bool) (x : Nat) (hx : x ≠ 92) : HeadOK' (pcV v esc x) := by
  cases v with
  | false => exact pcE_head esc x hx
  | true =>
    by_cases h : x < 128
    · rw [pcV_ascii esc x h]
      by_cases h35 : x = 35
      · simp only [h35, ite_true]; exact ⟨92, _, rfl, by decide⟩
      · by_cases h32 : x = 32
        · simp only [h32]; exact ⟨92, _, rfl, by decide⟩
        · simp only [h35, h32, ite_false]; exact pc_head x hx
    · cases esc with
      | true => rw [pcV_nonascii_esc x (by omega)]; exact ⟨92, _, rfl, by decide⟩
      | false =>
        rw [pcV_nonascii_raw x (by omega)]
        split
        · exact ⟨92, _, rfl, by decide⟩
        · exact ⟨x, [], rfl, by omega⟩

theorem R_escape_head (v esc : Bool) (as : List Atom) (hne : as ≠ []) (hb : AtomsOK as) : HeadOK' (RV v (E esc (escapeSymbols (untok as)))) := by
  rw [R_escapeSymbols v esc as hb]
  split
  · exact ⟨92, [92], rfl, by decide⟩
  · rename_i hs
    rcases hb with hb | hb
    · exact absurd hb hs
    · cases as with
      | nil => exact absurd rfl hne
      | cons a r =>
        cases a with
        | chr x =>
          have hx : x ≠ 92 := (hb _ List.mem_cons_self).1
          simp only [untok, List.flatMap_cons]
          exact headOK'_append_left _ (pcV_head v esc x hx)
        | cls k n =>
          simp only [untok, List.flatMap_cons, pcV_92]
          exact ⟨92, _, rfl, by decide⟩

theorem flatMap_pc_len (v esc : Bool) (as : List Atom) (hb : ∀ a ∈ as, AtomOK a) : as.length ≤ ((untok as).flatMap (pcV v esc)).length := by
  induction as with
  | nil => simp [untok]
  | cons a r ih =>
    have := ih (fun x hx => hb x (List.mem_cons_of_mem _ hx))
    cases a with
    | chr x =>
      have hx : x ≠ 92 := (hb _ List.mem_cons_self).1
      obtain ⟨c, t, hp, _⟩ := pcV_head v esc x hx
      simp only [untok, List.flatMap_cons, List.length_append, List.length_cons, hp]
      omega
    | cls k n =>
      simp only [untok, List.flatMap_cons, List.length_append, List.length_cons, pcV_92, pcV_letter, List.length_nil]
      omega

theorem R_escape_len (v esc : Bool) (as : List Atom) (hb : AtomsOK as) : as.length ≤ (RV v (E esc (escapeSymbols (untok as)))).length := by
  rw [R_escapeSymbols v esc as hb]
  split
  · rename_i hs; subst hs; decide
  · rename_i hs
    rcases hb with hb | hb
    · exact absurd hb hs
    · exact flatMap_pc_len v esc as hb

theorem R_fmtLiteral (v cap esc : Bool) (c : Cluster) (h : PlainBs c) :
    RV v (fmtLiteral (cfgPlain cap esc) c) = c.flatMap (fun g => RV v (E esc (escapeSymbols g.value))) := by
  rw [fmtLiteral_plain cap esc c h, RV_flatMap]

theorem literal_head (v cap esc : Bool) (c : Cluster) (h : PlainBs c) : HeadOK (RV v (fmtLiteral (cfgPlain cap esc) c)) := by
  rw [R_fmtLiteral v cap esc c h]
  cases c with
  | nil => exact headOK_nil
  | cons g gs =>
    obtain ⟨as, hne, hb, rfl⟩ := h _ List.mem_cons_self
    simp only [List.flatMap_cons, value_ofStr]
    exact (headOK'_append_left _ (R_escape_head v esc as hne hb)).ok

theorem literal_len (v cap esc : Bool) (c : Cluster) (h : PlainBs c) : (atomsOf c).length ≤ (RV v (fmtLiteral (cfgPlain cap esc) c)).length := by
  rw [R_fmtLiteral v cap esc c h]
  induction c with
  | nil => simp [atomsOf]
  | cons g gs ih =>
    obtain ⟨as, hne, hb, rfl⟩ := h _ List.mem_cons_self
    have := ih (fun x hx => h x (List.mem_cons_of_mem _ hx))
    have := R_escape_len v esc as hb
    rw [atomsOf_cons as hb gs]
    simp only [List.flatMap_cons, List.length_append, value_ofStr] at *
    omega

/-- the operand of `?` contributes exactly one quantifiable item -/
theorem subOf3_single (cap esc : Bool) (e : Expr) (hwf : e.WF) (hnr : e.isRep = false) :
    ∃ p, subOf cap esc 3 e (e.both cap esc).1 (e.both cap esc).2 = [p] ∧ Quantifiable p := by
  rw [subOf_eq]
  by_cases hp : parenQ cap esc 3 e = true
  · exact ⟨Pat.grp cap (e.both cap esc).2, by simp [hp], by simp [Quantifiable]⟩
  · have hp' : parenQ cap esc 3 e = false := by simpa using hp
    simp only [hp', Bool.false_eq_true, ite_false]
    cases e with
    | alt os => simp [parenQ, Expr.precedence, Expr.isSingleCodepoint] at hp'
    | cls cs => exact ⟨Pat.set (classItems cs) false, by simp [Expr.both], by simp [Quantifiable]⟩
    | cat a b => simp [parenQ, Expr.precedence, Expr.isSingleCodepoint] at hp'
    | rep e q => simp [Expr.isRep] at hnr
    | lit c =>
      have hsc : (Expr.lit c).isSingleCodepoint (cfgPlain cap esc) = true := by
        cases hh : (Expr.lit c).isSingleCodepoint (cfgPlain cap esc) with
        | true => rfl
        | false => simp [parenQ, Expr.precedence, hh] at hp'
      obtain ⟨x, _, hat, _⟩ := single_literal_cfg cap esc c hwf hsc
      exact ⟨Pat.chr x, by simp [Expr.both, hat, atomPat], by simp [Quantifiable]⟩

theorem endsQS3_false (cap esc : Bool) (e : Expr) (hnr : e.isRep = false) : (!(parenQ cap esc 3 e) && e.endsQ cap esc) = false := by
  cases e with
  | rep e q => simp [Expr.isRep] at hnr
  | cat a b => simp [parenQ, Expr.precedence, Expr.isSingleCodepoint]
  | alt os => simp [Expr.endsQ]
  | cls cs => simp [Expr.endsQ]
  | lit c => simp [Expr.endsQ]

end Grexv

namespace Grexv
open Spec

theorem sub3_head' (v cap esc : Bool) (fb : Bool) (e : Expr) (hwf : e.WF) (hnr : e.isRep = false) :
    HeadOK' (RV v (fmtSub (cfgPlain cap esc) 3 fb e)) := by
  rw [fmtSub_eq]
  by_cases hp : parenQ cap esc 3 e = true
  · simp only [hp, ite_true]
    rw [RV_append, RV_lp]
    cases cap
    · exact ⟨40, [63, 58] ++ RV v (fmtExpr (cfgPlain false esc) e ++ [41]), rfl, by decide⟩
    · exact ⟨40, [] ++ RV v (fmtExpr (cfgPlain true esc) e ++ [41]), rfl, by decide⟩
  · have hp' : parenQ cap esc 3 e = false := by simpa using hp
    simp only [hp', Bool.false_eq_true, ite_false]
    cases e with
    | alt os => simp [parenQ, Expr.precedence, Expr.isSingleCodepoint] at hp'
    | cat a b => simp [parenQ, Expr.precedence, Expr.isSingleCodepoint] at hp'
    | rep e q => simp [Expr.isRep] at hnr
    | cls cs =>
      simp only [fmtExpr]
      rw [fmtClass_text]
      exact ⟨91, _, rfl, by decide⟩
    | lit c =>
      have hsc : (Expr.lit c).isSingleCodepoint (cfgPlain cap esc) = true := by
        cases hh : (Expr.lit c).isSingleCodepoint (cfgPlain cap esc) with
        | true => rfl
        | false => simp [parenQ, Expr.precedence, hh] at hp'
      obtain ⟨x, rfl, _, _⟩ := single_literal_cfg cap esc c hwf hsc
      obtain ⟨as, hne, hb, hs⟩ := hwf _ List.mem_cons_self
      simp only [fmtExpr]
      rw [R_fmtLiteral v cap esc _ hwf]
      simp only [List.flatMap_cons, List.flatMap_nil, List.append_nil]
      rw [hs, value_ofStr]
      exact R_escape_head v esc as hne hb

theorem both_snd_nonalt (cap esc : Bool) (e : Expr) (h : e.isAlt = false) : (e.both cap esc).2 = catList (e.both cap esc).1 := by
  cases e with
  | alt os => simp [Expr.isAlt] at h
  | _ => simp [Expr.both]

theorem toks_snd_nonalt (cap esc : Bool) (e : Expr) (h : e.isAlt = false) : (e.toks cap esc).2 = (e.toks cap esc).1 := by
  cases e with
  | alt os => simp [Expr.isAlt] at h
  | _ => simp [Expr.toks]

theorem parenQ_of_alt (cap esc : Bool) (outer : Nat) (ho : 2 ≤ outer) (e : Expr) (h : e.isAlt = true) : parenQ cap esc outer e = true := by
  cases e with
  | alt os =>
    have : decide ((Expr.alt os).precedence < outer) = true := decide_eq_true (by simp only [Expr.precedence]; omega)
    simp only [parenQ, this, Expr.isSingleCodepoint, Bool.not_false, Bool.and_true]
  | _ => simp [Expr.isAlt] at h

theorem parenQ1_false (cap esc : Bool) (e : Expr) : parenQ cap esc 1 e = false := by
  cases e <;> simp [parenQ, Expr.precedence]

mutual
/-- **print → parse, expression by expression** -/
theorem Expr.pp (v cap esc : Bool) : ∀ (e : Expr), e.WF → PP v cap esc e
  | .lit c, h => by
    have hi : ∀ (f : Nat) (rest : List Nat) (st : List Frame) (al co : List Pat),
        ((Expr.lit c).endsQ cap esc = true → rest.head? ≠ some 63) →
        parseLoop false (f + ((Expr.lit c).toks cap esc).1) (RV v (fmtExpr (cfgPlain cap esc) (.lit c)) ++ rest) st al co =
          parseLoop false f rest st al (((Expr.lit c).both cap esc).1.reverse ++ co) := by
      intro f rest st al co _
      simp only [fmtExpr, Expr.toks, Expr.both]
      exact lex_literal v cap esc c h f rest st al co
    refine ⟨fun _ => hi, body_of_items v cap esc _ rfl (both_snd_nonalt cap esc _ rfl) (toks_snd_nonalt cap esc _ rfl) hi, ?_, ?_, ?_⟩
    · simp only [fmtExpr]; exact literal_head v cap esc c h
    · intro _; simp only [fmtExpr, Expr.toks]; exact literal_len v cap esc c h
    · simp only [fmtExpr, Expr.toks]; exact literal_len v cap esc c h
  | .cls cs, h => by
    have hi : ∀ (f : Nat) (rest : List Nat) (st : List Frame) (al co : List Pat),
        ((Expr.cls cs).endsQ cap esc = true → rest.head? ≠ some 63) →
        parseLoop false (f + ((Expr.cls cs).toks cap esc).1) (RV v (fmtExpr (cfgPlain cap esc) (.cls cs)) ++ rest) st al co =
          parseLoop false f rest st al (((Expr.cls cs).both cap esc).1.reverse ++ co) := by
      intro f rest st al co _
      simp only [fmtExpr, Expr.toks, Expr.both]
      exact lex_class v cap esc cs h.1 h.2.2 f rest st al co
    have hlen : 1 ≤ (RV v (fmtExpr (cfgPlain cap esc) (.cls cs))).length := by
      simp only [fmtExpr]; rw [fmtClass_text]; simp
    refine ⟨fun _ => hi, body_of_items v cap esc _ rfl (both_snd_nonalt cap esc _ rfl) (toks_snd_nonalt cap esc _ rfl) hi, ?_, ?_, ?_⟩
    · simp only [fmtExpr]; rw [fmtClass_text]; exact (show HeadOK' _ from ⟨91, _, rfl, by decide⟩).ok
    · intro _; simpa [Expr.toks] using hlen
    · simpa [Expr.toks] using hlen
  | .cat a b, h => by
    have pa := Expr.pp v cap esc a h.1
    have pb := Expr.pp v cap esc b h.2
    have ha2 := parenQ_of_alt cap esc 2 (Nat.le_refl _) a
    have hb2 := parenQ_of_alt cap esc 2 (Nat.le_refl _) b
    have htext : RV v (fmtExpr (cfgPlain cap esc) (.cat a b)) = RV v (fmtSub (cfgPlain cap esc) 2 true a) ++ RV v (fmtSub (cfgPlain cap esc) 2 true b) := by
      simp only [fmtExpr, RV_append]
    have hi : ∀ (f : Nat) (rest : List Nat) (st : List Frame) (al co : List Pat),
        ((Expr.cat a b).endsQ cap esc = true → rest.head? ≠ some 63) →
        parseLoop false (f + ((Expr.cat a b).toks cap esc).1) (RV v (fmtExpr (cfgPlain cap esc) (.cat a b)) ++ rest) st al co =
          parseLoop false f rest st al (((Expr.cat a b).both cap esc).1.reverse ++ co) := by
      intro f rest st al co hq
      rw [htext]
      simp only [Expr.toks, Expr.both, List.append_assoc, List.reverse_append]
      have hfuel : f + (subTok cap esc 2 a (a.toks cap esc).1 (a.toks cap esc).2 + subTok cap esc 2 b (b.toks cap esc).1 (b.toks cap esc).2) =
          (f + subTok cap esc 2 b (b.toks cap esc).1 (b.toks cap esc).2) + subTok cap esc 2 a (a.toks cap esc).1 (a.toks cap esc).2 := by omega
      rw [hfuel, sub_parse v cap esc 2 true a pa ha2, sub_parse v cap esc 2 true b pb hb2]
      · intro hqb
        apply hq
        simp only [Expr.endsQ, Bool.or_eq_true]
        exact Or.inr hqb
      · intro hqa
        apply sub_head v cap esc 2 true b pb
        apply hq
        simp only [Expr.endsQ, Bool.or_eq_true]
        exact Or.inl hqa
    refine ⟨fun _ => hi, body_of_items v cap esc _ rfl (both_snd_nonalt cap esc _ rfl) (toks_snd_nonalt cap esc _ rfl) hi, ?_, ?_, ?_⟩
    · rw [htext]; exact headOK_append (sub_head v cap esc 2 true a pa) (sub_head v cap esc 2 true b pb)
    · intro _
      rw [htext]
      have := sub_len v cap esc 2 true a pa ha2
      have := sub_len v cap esc 2 true b pb hb2
      simp only [Expr.toks, List.length_append]; omega
    · rw [htext]
      have := sub_len v cap esc 2 true a pa ha2
      have := sub_len v cap esc 2 true b pb hb2
      simp only [Expr.toks, List.length_append]; omega
  | .rep e q, h => by
    obtain ⟨rfl, hnr, hwf⟩ := h
    have pe := Expr.pp v cap esc e hwf
    have he3 := parenQ_of_alt cap esc 3 (by omega) e
    have htext : RV v (fmtExpr (cfgPlain cap esc) (.rep e .question)) = RV v (fmtSub (cfgPlain cap esc) 3 false e) ++ [63] := by
      simp only [fmtExpr, RV_append, Comp.quantifier, cfgPlain, paint, Gen.strQuestion, Bool.false_eq_true, ite_false,
        List.append_nil]
      have h63 : RV v [63] = [63] := by cases v <;> decide
      rw [h63]
    obtain ⟨p, hp, hpq⟩ := subOf3_single cap esc e hwf hnr
    have hi : ∀ (f : Nat) (rest : List Nat) (st : List Frame) (al co : List Pat),
        ((Expr.rep e .question).endsQ cap esc = true → rest.head? ≠ some 63) →
        parseLoop false (f + ((Expr.rep e .question).toks cap esc).1) (RV v (fmtExpr (cfgPlain cap esc) (.rep e .question)) ++ rest) st al co =
          parseLoop false f rest st al (((Expr.rep e .question).both cap esc).1.reverse ++ co) := by
      intro f rest st al co hq
      rw [htext]
      simp only [Expr.toks, Expr.both, List.append_assoc, List.singleton_append]
      have hfuel : f + (subTok cap esc 3 e (e.toks cap esc).1 (e.toks cap esc).2 + 1) =
          (f + 1) + subTok cap esc 3 e (e.toks cap esc).1 (e.toks cap esc).2 := by omega
      rw [hfuel, sub_parse v cap esc 3 false e pe he3 (f + 1) (63 :: rest) st al co
        (by rw [endsQS3_false cap esc e hnr]; intro hc; cases hc)]
      rw [hp]
      simp only [List.reverse_cons, List.reverse_nil, List.nil_append, List.singleton_append, optOf]
      exact step_opt f rest (hq rfl) p hpq co st al
    have hsublen := sub_len v cap esc 3 false e pe he3
    refine ⟨fun _ => hi, body_of_items v cap esc _ rfl (both_snd_nonalt cap esc _ rfl) (toks_snd_nonalt cap esc _ rfl) hi, ?_, ?_, ?_⟩
    · rw [htext]; exact (headOK'_append_left _ (sub3_head' v cap esc false e hwf hnr)).ok
    · intro _; rw [htext]; simp only [Expr.toks, List.length_append, List.length_singleton]; omega
    · rw [htext]; simp only [Expr.toks, List.length_append, List.length_singleton]; omega
  | .alt os, h => by
    obtain ⟨hne, hwfl⟩ := h
    obtain ⟨hL, hH, hLen⟩ := Expr.ppL v cap esc os hwfl hne
    refine ⟨fun hc => by simp [Expr.isAlt] at hc, ?_, ?_, fun hc => by simp [Expr.isAlt] at hc, ?_⟩
    · intro f rest fr st
      simp only [fmtExpr, Expr.toks, Expr.both]
      obtain ⟨al', co', hrun, hclose⟩ := hL (f + 1) (41 :: rest) (fr :: st) [] (by simp)
      have hfuel : f + (Expr.toksL cap esc os + 1) = (f + 1) + Expr.toksL cap esc os := by omega
      rw [hfuel, hrun, step_rparen]
      simp only [closeFrame, hclose, List.reverse_nil, List.nil_append]
    · simp only [fmtExpr]; exact hH
    · simp only [fmtExpr, Expr.toks]; exact hLen
theorem Expr.ppL (v cap esc : Bool) : ∀ (os : List Expr), Expr.WFL os → os ≠ [] →
    (∀ (f : Nat) (rest : List Nat) (st : List Frame) (al : List Pat), rest.head? ≠ some 63 →
      ∃ al' co', parseLoop false (f + Expr.toksL cap esc os) (RV v (fmtAlt (cfgPlain cap esc) os) ++ rest) st al [] =
          parseLoop false f rest st al' co' ∧
        (catList co'.reverse :: al').reverse = al.reverse ++ Expr.bothL cap esc os) ∧
    HeadOK (RV v (fmtAlt (cfgPlain cap esc) os)) ∧ Expr.toksL cap esc os ≤ (RV v (fmtAlt (cfgPlain cap esc) os)).length
  | [], _, hne => absurd rfl hne
  | [o], h, _ => by
    have po := Expr.pp v cap esc o h.2.1
    have htext : fmtAlt (cfgPlain cap esc) [o] = fmtExpr (cfgPlain cap esc) o := by
      simp only [fmtAlt]; rw [fmtSub_eq, parenQ1_false]; simp
    refine ⟨?_, ?_, ?_⟩
    · intro f rest st al hr
      refine ⟨al, (o.both cap esc).1.reverse, ?_, by simp [Expr.bothL]⟩
      rw [htext]
      have := po.items h.1 f rest st al [] (fun _ => hr)
      simpa [Expr.toksL] using this
    · rw [htext]; exact po.head
    · rw [htext]; simpa [Expr.toksL] using po.len1 h.1
  | o :: o2 :: os, h, _ => by
    have po := Expr.pp v cap esc o h.2.1
    obtain ⟨hL, hH, hLen⟩ := Expr.ppL v cap esc (o2 :: os) h.2.2 (by simp)
    have htext : RV v (fmtAlt (cfgPlain cap esc) (o :: o2 :: os)) =
        RV v (fmtExpr (cfgPlain cap esc) o) ++ ([124] ++ RV v (fmtAlt (cfgPlain cap esc) (o2 :: os))) := by
      simp only [fmtAlt]
      rw [fmtSub_eq, parenQ1_false]
      simp only [Bool.false_eq_true, ite_false, cfgPlain, Comp.pipe, paint, Gen.strPipe, RV_append]
      simp [show RV v [124] = [124] from by cases v <;> decide]
    refine ⟨?_, ?_, ?_⟩
    · intro f rest st al hr
      obtain ⟨al', co', hrun, hclose⟩ := hL f rest st (catList (o.both cap esc).1 :: al) hr
      refine ⟨al', co', ?_, ?_⟩
      · rw [htext]
        have hfuel : f + Expr.toksL cap esc (o :: o2 :: os) = ((f + Expr.toksL cap esc (o2 :: os)) + 1) + (o.toks cap esc).1 := by
          simp only [Expr.toksL, List.isEmpty_cons, Bool.false_eq_true, ite_false]; omega
        rw [hfuel, List.append_assoc, po.items h.1 _ _ st al [] (by intro _; simp)]
        simp only [List.append_nil, List.singleton_append, List.cons_append, List.nil_append]
        rw [step_pipe, List.reverse_reverse]
        exact hrun
      · rw [hclose]
        simp [Expr.bothL]
    · rw [htext]
      exact headOK_append po.head (show HeadOK' _ from ⟨124, _, rfl, by decide⟩).ok
    · rw [htext]
      have := po.len1 h.1
      have e : Expr.toksL cap esc (o :: o2 :: os) = (o.toks cap esc).1 + 1 + Expr.toksL cap esc (o2 :: os) := by
        rw [Expr.toksL]; simp
      rw [e]
      simp only [List.length_append, List.length_singleton]
      omega
end

end Grexv
