import Grexv.Lemmas.SafeR
import Grexv.Lemmas.XStruct
import Grexv.Lemmas.PrintParseTopRV

/-
Generated from `SafeR.lean` by `tools/vify.py`: the theorems of the `-r` print → parse chain that mention the character rewriting
`R` of `Display for RegExp`, once more for `RV v` — with `v = true` the rewritings of verbose mode (`\\#`, `\\ `, `\\u{…}` of the other
white space).  The statements and proofs are those of the original file with `R` replaced; definitions are shared.
-/
set_option linter.unusedSimpArgs false
set_option linter.unusedVariables false
namespace Grexv
open Spec

theorem unitText_head40V (v : Bool) (esc : Bool) (ass : List (List Atom)) (hok : AssOK ass) :
    ∃ h tl, RV v (unitText esc ass) = h :: tl ∧ h ≠ 40 := by
  obtain ⟨hne, hall⟩ := hok
  cases ass with
  | nil => exact absurd rfl hne
  | cons as r =>
    obtain ⟨h1, h2⟩ := hall as List.mem_cons_self
    obtain ⟨hd, tl, htl, hne40⟩ := R_escape_head40 v esc as h1 h2
    simp only [unitText, List.flatMap_cons, RV_append v, strText, htl, List.cons_append]
    exact ⟨hd, _, rfl, hne40⟩


theorem nText_safeV (v : Bool) (cap esc : Bool) (g : Grapheme) (h : GOK g) : Safe (RV v (nText cap esc g)) := by
  obtain ⟨chars, reps, mn, mx⟩ := g
  rcases GOK_cases chars reps mn mx h with ⟨as, hne, hok, rfl, rfl, rfl, rfl⟩ | ⟨ass, hok, rfl, rfl, hc, hb⟩ |
    ⟨ass, hok, rfl, h2, hr, hl, hc, hb⟩
  · rw [nText_plain]
    obtain ⟨x, tl, hp, hx⟩ := R_escape_head40 v esc as hne hok
    exact safe_of_head x tl hp hx
  · rw [nText_flat, fmt_counted cap esc ass hok mn mx hc]
    split
    · obtain ⟨x, tl, hp, hx⟩ := unitText_head40V v esc ass hok
      rw [RV_append v, hp]
      exact safe_of_head x _ rfl hx
    · simp only [RV_append v, RV_lp v, List.append_assoc]
      apply lp_safe
      · exact unitText_headV v esc ass hok _
      · obtain ⟨x, tl, hp, _⟩ := unitText_head40V v esc ass hok
        rw [hp]; simp
  · rw [nText_nested cap esc ass hok h2 reps hr mn mx hc]
    simp only [RV_append v, RV_lp v, List.append_assoc]
    have h41 : RV v [41] = [41] := by cases v <;> decide
    rw [h41]
    apply lp_safe
    · exact flatMap_headV v cap esc reps hl _ (by simp)
    · simp


theorem literal_safeRV (v : Bool) (cap esc : Bool) : ∀ (c : Cluster), GOKL c → Safe (RV v (fmtLiteral (cfgPlain cap esc) c))
  | [], _ => Or.inl (by simp [fmtLiteral, RV_nil v])
  | g :: gs, h => by
    have h' := h
    simp only [GOKL] at h'
    rw [fmtLiteral_text cap esc (g :: gs) h]
    simp only [List.flatMap_cons, RV_append v]
    have := literal_safeRV v cap esc gs h'.2
    rw [fmtLiteral_text cap esc gs h'.2] at this
    exact safe_append (nText_safeV v cap esc g h'.1) this


theorem sub_safeRV (v : Bool) (cap esc : Bool) (outer : Nat) (fb : Bool) (e : Expr) (hP : PPRV v cap esc e)
    (hs : Safe (RV v (fmtExpr (cfgPlain cap esc) e))) : Safe (RV v (fmtSub (cfgPlain cap esc) outer fb e)) := by
  rw [fmtSub_eq]
  split
  · rw [RV_append v, RV_lp v]
    cases cap with
    | false => exact Or.inr ⟨40, _, rfl, Or.inr ⟨63, _, rfl, Or.inr rfl⟩⟩
    | true =>
      have hh := hP.head [41] (by simp)
      rw [RV_append v]
      have h41 : RV v [41] = [41] := by cases v <;> decide
      rw [h41]
      cases ht : RV v (fmtExpr (cfgPlain true esc) e) ++ [41] with
      | nil => simp at ht
      | cons a r =>
        rw [ht] at hh
        simp only [List.head?_cons, ne_eq, Option.some.injEq] at hh
        exact Or.inr ⟨40, _, rfl, Or.inr ⟨a, r, rfl, Or.inl hh⟩⟩
  · exact hs


mutual
theorem Expr.safeRV (v : Bool) (cap esc : Bool) : ∀ (e : Expr), e.WFR → Safe (RV v (fmtExpr (cfgPlain cap esc) e))
  | .lit c, h => by simp only [fmtExpr]; exact literal_safeRV v cap esc c h
  | .cls cs, h => by
    simp only [fmtExpr]; rw [fmtClass_text v]; exact safe_of_head 91 _ rfl (by decide)
  | .cat a b, h => by
    have htext : RV v (fmtExpr (cfgPlain cap esc) (.cat a b)) = RV v (fmtSub (cfgPlain cap esc) 2 true a) ++ RV v (fmtSub (cfgPlain cap esc) 2 true b) := by
      simp only [fmtExpr, RV_append v]
    rw [htext]
    exact safe_append (sub_safeRV v cap esc 2 true a (Expr.ppRV v cap esc a h.1) (Expr.safeRV v cap esc a h.1))
      (sub_safeRV v cap esc 2 true b (Expr.ppRV v cap esc b h.2) (Expr.safeRV v cap esc b h.2))
  | .rep e q, h => by
    obtain ⟨rfl, hnr, hwf⟩ := h
    have htext : RV v (fmtExpr (cfgPlain cap esc) (.rep e .question)) = RV v (fmtSub (cfgPlain cap esc) 3 false e) ++ [63] := by
      simp only [fmtExpr, RV_append v, Comp.quantifier, cfgPlain, paint, Gen.strQuestion, Bool.false_eq_true, ite_false,
        List.append_nil]
      have h63 : RV v [63] = [63] := by cases v <;> decide
      rw [h63]
    rw [htext]
    exact safe_append (sub_safeRV v cap esc 3 false e (Expr.ppRV v cap esc e hwf) (Expr.safeRV v cap esc e hwf))
      (safe_of_head 63 [] rfl (by decide))
  | .alt os, h => by
    simp only [fmtExpr]
    exact Expr.safeLRV v cap esc os h.2
theorem Expr.safeLRV (v : Bool) (cap esc : Bool) : ∀ (os : List Expr), Expr.WFLR os → Safe (RV v (fmtAlt (cfgPlain cap esc) os))
  | [], _ => Or.inl (by simp [fmtAlt, RV_nil v])
  | [o], h => by
    have htext : fmtAlt (cfgPlain cap esc) [o] = fmtExpr (cfgPlain cap esc) o := by
      simp only [fmtAlt]; rw [fmtSub_eq, parenQ1_false]; simp
    rw [htext]
    exact Expr.safeRV v cap esc o h.2.1
  | o :: o2 :: os, h => by
    have htext : RV v (fmtAlt (cfgPlain cap esc) (o :: o2 :: os)) =
        RV v (fmtExpr (cfgPlain cap esc) o) ++ ([124] ++ RV v (fmtAlt (cfgPlain cap esc) (o2 :: os))) := by
      simp only [fmtAlt]
      rw [fmtSub_eq, parenQ1_false]
      simp only [Bool.false_eq_true, ite_false, cfgPlain, Comp.pipe, paint, Gen.strPipe, RV_append v]
      simp [show RV v [124] = [124] from by cases v <;> decide]
    rw [htext]
    exact safe_append (Expr.safeRV v cap esc o h.2.1) (safe_of_head 124 _ rfl (by decide))
end

theorem body_safeRV (v : Bool) (cap esc : Bool) (e : Expr) (hwf : e.WFR) : Safe (RV v (bodyText (cfgPlain cap esc) e)) := by
  rw [bodyText_eq]
  cases ha : e.isAlt with
  | false => simp only [Bool.false_eq_true, ite_false]; exact Expr.safeRV v cap esc e hwf
  | true =>
    simp only [ite_true]
    rw [RV_append v, RV_lp v]
    cases cap with
    | false => exact Or.inr ⟨40, _, rfl, Or.inr ⟨63, _, rfl, Or.inr rfl⟩⟩
    | true =>
      have hh := (Expr.ppRV v true esc e hwf).head [41] (by simp)
      rw [RV_append v]
      have h41 : RV v [41] = [41] := by cases v <;> decide
      rw [h41]
      cases ht : RV v (fmtExpr (cfgPlain true esc) e) ++ [41] with
      | nil => simp at ht
      | cons a r =>
        rw [ht] at hh
        simp only [List.head?_cons, ne_eq, Option.some.injEq] at hh
        exact Or.inr ⟨40, _, rfl, Or.inr ⟨a, r, rfl, Or.inl hh⟩⟩


theorem loop_printedARV (v : Bool) (cap esc ns ne : Bool) (e : Expr) (hwf : e.WFR) (F : Nat)
    (hF : (RV v (bodyText (cfgPlain cap esc) e)).length + 3 ≤ F) :
    parseLoop false F (preT ns ++ (RV v (bodyText (cfgPlain cap esc) e) ++ postT ne)) [] [] [] =
      some (catList (preA ns ++ (topItemsR cap esc e ++ postA ne))) := by
  have hlen := top_lenRV v cap esc e hwf
  have hbody := fun f rest co h => top_parseRV v cap esc e hwf f rest co h
  generalize topToksR cap esc e = T at hlen hbody
  generalize RV v (bodyText (cfgPlain cap esc) e) = B at hlen hbody hF
  cases ns <;> cases ne
  · -- ^ body $
    have hfuel : F = ((((F - T - 3)) + 1 + 1) + T) + 1 := by omega
    rw [hfuel]
    simp only [preT, postT, Bool.false_eq_true, ite_false, List.singleton_append]
    rw [step_caret, hbody _ _ _ (by simp), step_dollar, step_end]
    simp [closeFrame, altList, preA, postA]
  · -- ^ body
    have hfuel : F = (((F - T - 2) + 1) + T) + 1 := by omega
    rw [hfuel]
    simp only [preT, postT, Bool.false_eq_true, ite_false, ite_true, List.singleton_append, List.append_nil]
    have := hbody ((F - T - 2) + 1) [] [Pat.bol] (by simp)
    rw [List.append_nil] at this
    rw [step_caret, this, step_end]
    simp [closeFrame, altList, preA, postA]
  · -- body $
    have hfuel : F = (((F - T - 2) + 1) + 1) + T := by omega
    rw [hfuel]
    simp only [preT, postT, Bool.false_eq_true, ite_false, ite_true, List.nil_append]
    rw [hbody _ _ _ (by simp), step_dollar, step_end]
    simp [closeFrame, altList, preA, postA]
  · -- body
    have hfuel : F = ((F - T - 1) + 1) + T := by omega
    rw [hfuel]
    simp only [preT, postT, ite_true, List.nil_append, List.append_nil]
    have := hbody ((F - T - 1) + 1) [] [] (by simp)
    rw [List.append_nil] at this
    rw [this, step_end]
    simp [closeFrame, altList, preA, postA]


end Grexv
