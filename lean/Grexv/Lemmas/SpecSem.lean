import Grexv.Spec.Pat

/-
Denotational reading of the Spec matcher on the fragment grex emits without `-r`: single characters,
classes, concatenation, alternation, groups and the optional quantifier.  `matchP` enumerates exactly
the prefixes in the denotation (soundness and completeness of the backtracking matcher on that fragment),
so `fullMatch` decides membership in the denoted language.
-/
set_option linter.unusedSimpArgs false
set_option linter.unusedVariables false
namespace Grexv.Spec

/-- anchor-free patterns whose only quantifier is `?` (greedy or lazy) -/
def Pat.Frag : Pat → Prop
  | .eps | .chr _ | .perl _ _ | .set _ _ => True
  | .bol | .eol => False
  | .cat a b | .alt a b => Frag a ∧ Frag b
  | .rep p mn mx _ => mn = 0 ∧ mx = some 1 ∧ Frag p
  | .grp _ p => Frag p

/-- the strings a fragment pattern denotes -/
def Pat.den (i : Bool) : Pat → List Nat → Prop
  | .eps, s => s = []
  | .chr c, s => ∃ x, s = [x] ∧ chrMatches i c x = true
  | .perl k neg, s => ∃ x, s = [x] ∧ (perlMember k x != neg) = true
  | .set items neg, s => ∃ x, s = [x] ∧ setMatches i items neg x = true
  | .bol, _ => False
  | .eol, _ => False
  | .cat a b, s => ∃ u v, s = u ++ v ∧ den i a u ∧ den i b v
  | .alt a b, s => den i a s ∨ den i b s
  | .rep p _ _ _, s => s = [] ∨ den i p s
  | .grp _ p, s => den i p s

/-- what it means for a list of positions to be exactly the matches of a language from `(n, s)` -/
def Exact (L : List Nat → Prop) (n : Nat) (s : List Nat) (out : List Pos) : Prop :=
  ∀ st, st ∈ out ↔ ∃ u, L u ∧ s = u ++ st.2 ∧ st.1 = n + u.length

theorem exact_single (P : Nat → Bool) (n : Nat) (s : List Nat) :
    Exact (fun u => ∃ x, u = [x] ∧ P x = true) n s
      (match s with | x :: rest => if P x then [(n + 1, rest)] else [] | [] => []) := by
  intro st
  cases s with
  | nil =>
    simp only [List.not_mem_nil, false_iff]
    rintro ⟨u, ⟨x, rfl, _⟩, h, _⟩
    simp at h
  | cons x rest =>
    constructor
    · intro h
      change st ∈ (if P x = true then [(n + 1, rest)] else []) at h
      split at h
      · rename_i hp
        simp only [List.mem_singleton] at h
        subst h
        exact ⟨[x], ⟨x, rfl, hp⟩, rfl, rfl⟩
      · simp at h
    · rintro ⟨u, ⟨y, rfl, hy⟩, h, hl⟩
      simp only [List.singleton_append, List.cons.injEq] at h
      obtain ⟨rfl, h2⟩ := h
      simp only [hy, ite_true, List.mem_singleton]
      obtain ⟨a, b⟩ := st
      simp only at h2 hl
      subst h2
      simp [hl]

/-- **the matcher enumerates exactly the denoted prefixes** -/
theorem matchP_exact (i : Bool) : ∀ (p : Pat), p.Frag → ∀ n s, Exact (p.den i) n s (matchP i p (n, s))
  | .eps, _, n, s => by
    intro st
    simp only [matchP, List.mem_singleton, Pat.den]
    constructor
    · rintro rfl; exact ⟨[], rfl, rfl, rfl⟩
    · rintro ⟨u, rfl, h1, h2⟩
      obtain ⟨a, b⟩ := st
      simp at h1 h2; subst h1 h2; rfl
  | .chr c, _, n, s => by
    simp only [matchP, Pat.den]; exact exact_single (chrMatches i c) n s
  | .perl k neg, _, n, s => by
    simp only [matchP, Pat.den]; exact exact_single (fun x => perlMember k x != neg) n s
  | .set items neg, _, n, s => by
    simp only [matchP, Pat.den]; exact exact_single (setMatches i items neg) n s
  | .bol, h, _, _ => by exact absurd h (by simp [Pat.Frag])
  | .eol, h, _, _ => by exact absurd h (by simp [Pat.Frag])
  | .cat a b, h, n, s => by
    have ha := matchP_exact i a h.1
    have hb := matchP_exact i b h.2
    intro st
    simp only [matchP, List.mem_flatMap, Pat.den]
    constructor
    · rintro ⟨st1, h1, h2⟩
      obtain ⟨u, hu, hs, hn⟩ := (ha n s st1).mp h1
      obtain ⟨a1, b1⟩ := st1
      simp only at hs hn
      obtain ⟨v, hv, hs2, hn2⟩ := (hb a1 b1 st).mp h2
      refine ⟨u ++ v, ⟨u, v, rfl, hu, hv⟩, ?_, ?_⟩
      · rw [hs, hs2]; simp
      · rw [hn2, hn]; simp; omega
    · rintro ⟨w, ⟨u, v, rfl, hu, hv⟩, hs, hn⟩
      refine ⟨(n + u.length, v ++ st.2), (ha n s _).mpr ⟨u, hu, by rw [hs]; simp, rfl⟩, ?_⟩
      exact (hb _ _ st).mpr ⟨v, hv, rfl, by rw [hn]; simp; omega⟩
  | .alt a b, h, n, s => by
    have ha := matchP_exact i a h.1
    have hb := matchP_exact i b h.2
    intro st
    simp only [matchP, List.mem_append, Pat.den]
    rw [ha n s st, hb n s st]
    constructor
    · rintro (⟨u, hu, h1, h2⟩ | ⟨u, hu, h1, h2⟩)
      · exact ⟨u, Or.inl hu, h1, h2⟩
      · exact ⟨u, Or.inr hu, h1, h2⟩
    · rintro ⟨u, hu | hu, h1, h2⟩
      · exact Or.inl ⟨u, hu, h1, h2⟩
      · exact Or.inr ⟨u, hu, h1, h2⟩
  | .rep p mn mx g, h, n, s => by
    obtain ⟨rfl, rfl, hp⟩ := h
    have hpe := matchP_exact i p hp
    intro st
    have hmem : st ∈ matchP i (.rep p 0 (some 1) g) (n, s) ↔
        (st = (n, s) ∨ (st ∈ matchP i p (n, s) ∧ st.1 ≠ n)) := by
      simp only [matchP, Nat.sub_zero, repMatch]
      cases g
      · simp only [Bool.false_eq_true, ite_false, List.mem_cons, List.mem_flatMap]
        constructor
        · rintro (h | ⟨st', h1, h2⟩)
          · exact Or.inl h
          · split at h2
            · simp at h2
            · rename_i hne
              simp only [List.mem_singleton] at h2
              subst h2
              exact Or.inr ⟨h1, hne⟩
        · rintro (h | ⟨h1, h2⟩)
          · exact Or.inl h
          · exact Or.inr ⟨st, h1, by simp [h2]⟩
      · simp only [ite_true, List.mem_append, List.mem_flatMap, List.mem_singleton]
        constructor
        · rintro (⟨st', h1, h2⟩ | h)
          · split at h2
            · simp at h2
            · rename_i hne
              simp only [List.mem_singleton] at h2
              subst h2
              exact Or.inr ⟨h1, hne⟩
          · exact Or.inl h
        · rintro (h | ⟨h1, h2⟩)
          · exact Or.inr h
          · exact Or.inl ⟨st, h1, by simp [h2]⟩
    rw [hmem]
    simp only [Pat.den]
    constructor
    · rintro (rfl | ⟨h1, _⟩)
      · exact ⟨[], Or.inl rfl, rfl, rfl⟩
      · obtain ⟨u, hu, hs, hn⟩ := (hpe n s st).mp h1
        exact ⟨u, Or.inr hu, hs, hn⟩
    · rintro ⟨u, hu | hu, hs, hn⟩
      · subst hu
        left
        obtain ⟨a, b⟩ := st
        simp at hs hn; subst hs hn; rfl
      · by_cases hne : st.1 = n
        · left
          have : u = [] := by
            have : u.length = 0 := by omega
            exact List.length_eq_zero_iff.mp this
          subst this
          obtain ⟨a, b⟩ := st
          simp at hs hne; subst hs hne; rfl
        · exact Or.inr ⟨(hpe n s st).mpr ⟨u, hu, hs, hn⟩, hne⟩
  | .grp c p, h, n, s => by
    have := matchP_exact i p h n s
    intro st
    simp only [matchP, Pat.den]
    exact this st

/-- whole-string acceptance decides membership in the denotation -/
theorem fullMatch_iff (i : Bool) (p : Pat) (hp : p.Frag) (s : List Nat) : fullMatch i p s = true ↔ p.den i s := by
  simp only [fullMatch, List.any_eq_true, List.isEmpty_iff]
  constructor
  · rintro ⟨st, hst, he⟩
    obtain ⟨u, hu, hs, _⟩ := (matchP_exact i p hp 0 s st).mp hst
    rw [he] at hs
    simp at hs; subst hs; exact hu
  · intro h
    exact ⟨(s.length, []), (matchP_exact i p hp 0 s _).mpr ⟨s, h, by simp, by simp⟩, rfl⟩

/-- anchored on both sides: `^ p $` accepts exactly the denotation of `p` -/
theorem anchored_fullMatch (i : Bool) (p : Pat) (hp : p.Frag) (s : List Nat) :
    fullMatch i (.cat .bol (.cat p .eol)) s = true ↔ p.den i s := by
  simp only [fullMatch, matchP, List.any_eq_true, List.isEmpty_iff, ite_true, List.flatMap_cons, List.flatMap_nil,
    List.append_nil, List.mem_flatMap]
  constructor
  · rintro ⟨st, ⟨st1, h1, h2⟩, he⟩
    obtain ⟨a, b⟩ := st1
    simp only [matchP] at h2
    split at h2
    · rename_i hb
      simp only [List.mem_singleton] at h2
      subst h2
      obtain ⟨u, hu, hs, _⟩ := (matchP_exact i p hp 0 s _).mp h1
      simp only at he hs
      rw [he] at hs
      simp at hs; subst hs; exact hu
    · simp at h2
  · intro h
    refine ⟨(s.length, []), ⟨(s.length, []), (matchP_exact i p hp 0 s _).mpr ⟨s, h, by simp, by simp⟩, ?_⟩, rfl⟩
    simp [matchP]

end Grexv.Spec
