import Grexv.Lemmas.FragR

/-
Exactness of the printed `-r` pattern at the level of denotations: the items the parser reads from the printed text denote a string
**iff** some label sequence of the expression's symbol-level language spells it — every label `{m,n}` contributing `k` consecutive
matches of its atoms (code points, up to simple case folding under `(?i)`, and shorthand-class tokens), `m ≤ k ≤ n`.
-/
set_option linter.unusedSimpArgs false
set_option linter.unusedVariables false
namespace Grexv
open Spec

/-- the atoms of a label -/
def gAtoms (g : Grapheme) : List Atom := g.chars.flatMap fun s => tokens s

/-- the strings a sequence of counted labels stands for, atom by atom -/
def SpellsA (i : Bool) : Word → Str → Prop
  | [], s => s = []
  | l :: ls, s => ∃ k u v, l.min ≤ k ∧ k ≤ l.max ∧ s = u ++ v ∧ powL (atomsDen i (gAtoms l)) k u ∧ SpellsA i ls v

theorem powL_congr (L1 L2 : Str → Prop) (h : ∀ s, L1 s ↔ L2 s) : ∀ k s, powL L1 k s ↔ powL L2 k s
  | 0, s => Iff.rfl
  | k + 1, s => by
    simp only [powL]
    constructor
    · rintro ⟨u, v, rfl, hu, hv⟩; exact ⟨u, v, rfl, (h u).mp hu, (powL_congr L1 L2 h k v).mp hv⟩
    · rintro ⟨u, v, rfl, hu, hv⟩; exact ⟨u, v, rfl, (h u).mpr hu, (powL_congr L1 L2 h k v).mpr hv⟩

theorem powL_one (L : Str → Prop) (s : Str) : powL L 1 s ↔ L s := by
  simp only [powL]
  constructor
  · rintro ⟨u, v, rfl, hu, rfl⟩; simpa using hu
  · intro h; exact ⟨s, [], by simp, h, rfl⟩

/-- `k` consecutive matches of a sequence of atoms = one match of the sequence repeated `k` times -/
theorem powL_atoms (i : Bool) (as : List Atom) : ∀ k s, powL (atomsDen i as) k s ↔ atomsDen i (List.replicate k as).flatten s
  | 0, s => by simp [powL, atomsDen]
  | k + 1, s => by
    simp only [powL, List.replicate_succ, List.flatten_cons]
    rw [atomsDen_append]
    constructor
    · rintro ⟨u, v, rfl, hu, hv⟩; exact ⟨u, v, rfl, hu, (powL_atoms i as k v).mp hv⟩
    · rintro ⟨u, v, rfl, hu, hv⟩; exact ⟨u, v, rfl, hu, (powL_atoms i as k v).mpr hv⟩

theorem expand_tokens (g : Grapheme) : g.expand.flatMap (fun s => tokens s) = (List.replicate g.min (gAtoms g)).flatten := by
  simp only [Grapheme.expand, gAtoms]
  induction g.min with
  | zero => simp
  | succ n ih => simp only [List.replicate_succ, List.flatten_cons, List.flatMap_append, ih]

/-- counts fixed: the cluster spells exactly the strings that match the atoms of its expansion -/
theorem spellsA_fixed (i : Bool) : ∀ (gs : List Grapheme), (∀ r ∈ gs, r.min = r.max) → ∀ s,
    SpellsA i gs s ↔ atomsDen i ((expandAll gs).flatMap fun s => tokens s) s
  | [], _, s => by simp [SpellsA, expandAll, atomsDen]
  | g :: gs, h, s => by
    have hg := h g List.mem_cons_self
    have ih := spellsA_fixed i gs (fun r hr => h r (List.mem_cons_of_mem _ hr))
    simp only [SpellsA, expandAll, List.flatMap_cons, List.flatMap_append]
    rw [atomsDen_append, expand_tokens]
    constructor
    · rintro ⟨k, u, v, hk1, hk2, rfl, hu, hv⟩
      have : k = g.min := by omega
      subst this
      exact ⟨u, v, rfl, (powL_atoms i _ _ u).mp hu, (ih v).mp hv⟩
    · rintro ⟨u, v, rfl, hu, hv⟩
      exact ⟨g.min, u, v, Nat.le_refl _, by omega, rfl, (powL_atoms i _ _ u).mpr hu, (ih v).mpr hv⟩

/-- the unit pattern of a counted grapheme without nested repetitions -/
theorem gItems_flat_iff (cap : Bool) (ass : List (List Atom)) (hok : AssOK ass) (mn mx : Nat) (hc : Counted mn mx) :
    ∃ body, gItems cap (Grapheme.mk (ass.map untok) [] mn mx) = [Pat.rep body mn (some mx) true] ∧
      ∀ i s, body.denC i s ↔ atomsDen i ass.flatten s := by
  have hcne : ¬ (mn = 1 ∧ mx = 1) := by rcases hc with h | ⟨h, h'⟩ <;> omega
  by_cases hs : SingleUnit ass
  · obtain ⟨a, rfl, hne92⟩ := hs
    have hsb : singleB ([[a]].map untok) = true := (singleB_iff [[a]] hok).mpr ⟨a, rfl, hne92⟩
    have hta : tokens (untok [a]) = [a] := tokens_untok [a] (hok.2 [a] List.mem_cons_self).2
    refine ⟨atomPat a, ?_, ?_⟩
    · simp only [gItems, hcne, ite_false, List.isEmpty_nil, ite_true, hsb]
      simp [hta]
    · intro i s
      rw [Pat.denC_eq_den i _ (frag_atomPat a), den_atomPat]
      simp only [List.flatten_cons, List.flatten_nil, List.append_nil, atomsDen]
      constructor
      · rintro ⟨x, rfl, hx⟩; exact ⟨x, [], rfl, hx, rfl⟩
      · rintro ⟨x, r, rfl, hx, rfl⟩; exact ⟨x, rfl, hx⟩
  · have hsb : singleB (ass.map untok) = false := by
      cases hb' : singleB (ass.map untok) with
      | false => rfl
      | true => exact absurd ((singleB_iff ass hok).mp hb') hs
    refine ⟨Pat.grp cap (catList (unitItems ass)), ?_, fun i s => unit_den cap ass i s⟩
    simp only [gItems, hcne, ite_false, List.isEmpty_nil, ite_true, hsb, Bool.false_eq_true, tokens_flat ass hok.2, unitItems_eq]

mutual
/-- **one grapheme, exactly** its items denote `k` consecutive matches of its atoms for the admissible `k`, and nothing else -/
theorem gExact (i cap : Bool) : (g : Grapheme) → GOK g → GSem g → ∀ s,
    denLC i (gItems cap g) s ↔ ∃ k, g.min ≤ k ∧ k ≤ g.max ∧ powL (atomsDen i (gAtoms g)) k s
  | .mk chars reps mn mx, hok, hsem, s => by
    simp only [Grapheme.min, Grapheme.max]
    simp only [GSem] at hsem
    obtain ⟨hle, hnest⟩ := hsem
    rcases GOK_cases chars reps mn mx hok with ⟨as, hne, hasok, rfl, rfl, rfl, rfl⟩ | ⟨ass, hass, rfl, rfl, hc, hb⟩ |
      ⟨ass, hass, rfl, h2, hr, hl, hc, hb⟩
    · -- plain
      have hi : gItems cap (Grapheme.mk [untok as] [] 1 1) = as.map atomPat := by simp [gItems, tokens_untok as hasok]
      have ha : gAtoms (Grapheme.mk [untok as] [] 1 1) = as := by simp [gAtoms, Grapheme.chars, tokens_untok as hasok]
      rw [hi, ha, denLC_eq_denL i _ (by intro p hp; obtain ⟨a, _, rfl⟩ := List.mem_map.mp hp; exact frag_atomPat a), denL_atoms]
      constructor
      · intro h; exact ⟨1, Nat.le_refl _, Nat.le_refl _, (powL_one _ s).mpr h⟩
      · rintro ⟨k, h1, h2, hp⟩
        have : k = 1 := by omega
        subst this; exact (powL_one _ s).mp hp
    · -- counted, flat
      obtain ⟨body, hi, hbody⟩ := gItems_flat_iff cap ass hass mn mx hc
      have ha : gAtoms (Grapheme.mk (ass.map untok) [] mn mx) = ass.flatten := by
        simp only [gAtoms, Grapheme.chars]; exact tokens_flat ass hass.2
      rw [hi, ha, denLC_single]
      simp only [Pat.denC, rangeL]
      constructor
      · rintro ⟨k, h1, h2, hp⟩
        exact ⟨k, h1, by omega, (powL_congr _ _ (hbody i) k s).mp hp⟩
      · rintro ⟨k, h1, h2, hp⟩
        exact ⟨k, h1, by omega, (powL_congr _ _ (hbody i) k s).mpr hp⟩
    · -- counted, nested
      have hcne : ¬ (mn = 1 ∧ mx = 1) := by rcases hc with h | ⟨h, h'⟩ <;> omega
      have hre : reps.isEmpty = false := by
        cases reps with
        | nil => exact absurd rfl hr
        | cons _ _ => rfl
      have hi : gItems cap (Grapheme.mk (ass.map untok) reps mn mx) =
          [Pat.rep (Pat.grp cap (catList (gItemsL cap reps))) mn (some mx) true] := by
        simp only [gItems, hcne, ite_false, hre, Bool.false_eq_true]
      rcases hnest with h0 | ⟨hexp, hsl, hfix⟩
      · exact absurd h0 hr
      · have hL : ∀ u, (Pat.grp cap (catList (gItemsL cap reps))).denC i u ↔
            atomsDen i (gAtoms (Grapheme.mk (ass.map untok) reps mn mx)) u := by
          intro u
          simp only [Pat.denC, gAtoms, Grapheme.chars]
          rw [denC_catList, gExactL i cap reps hl hsl u, spellsA_fixed i reps hfix u, hexp]
        rw [hi, denLC_single]
        simp only [Pat.denC, rangeL]
        constructor
        · rintro ⟨k, h1, h2, hp⟩
          exact ⟨k, h1, by omega, (powL_congr _ _ hL k s).mp hp⟩
        · rintro ⟨k, h1, h2, hp⟩
          exact ⟨k, h1, by omega, (powL_congr _ _ hL k s).mpr hp⟩
/-- **one literal, exactly** its items denote the strings the cluster spells -/
theorem gExactL (i cap : Bool) : (gs : List Grapheme) → GOKL gs → GSemL gs → ∀ s, denLC i (gItemsL cap gs) s ↔ SpellsA i gs s
  | [], _, _, s => by simp [gItemsL, denLC, SpellsA]
  | g :: gs, hok, hsem, s => by
    simp only [GOKL, GSemL] at hok hsem
    simp only [gItemsL, SpellsA]
    rw [denLC_append]
    constructor
    · rintro ⟨u, v, rfl, hu, hv⟩
      obtain ⟨k, h1, h2, hp⟩ := (gExact i cap g hok.1 hsem.1 u).mp hu
      exact ⟨k, u, v, h1, h2, rfl, hp, (gExactL i cap gs hok.2 hsem.2 v).mp hv⟩
    · rintro ⟨k, u, v, h1, h2, rfl, hp, hv⟩
      exact ⟨u, v, rfl, (gExact i cap g hok.1 hsem.1 u).mpr ⟨k, h1, h2, hp⟩, (gExactL i cap gs hok.2 hsem.2 v).mpr hv⟩
end

/-! ### expressions -/

/-- the strings spelled by the label sequences of the expression -/
def Expr.strLangR (i : Bool) (e : Expr) (s : Str) : Prop := ∃ ls, e.lang ls ∧ SpellsA i ls s

theorem spellsA_append (i : Bool) : ∀ (u v : Word) (s : Str),
    SpellsA i (u ++ v) s ↔ ∃ s1 s2, s = s1 ++ s2 ∧ SpellsA i u s1 ∧ SpellsA i v s2
  | [], v, s => by
    simp only [List.nil_append, SpellsA]
    constructor
    · intro h; exact ⟨[], s, rfl, rfl, h⟩
    · rintro ⟨s1, s2, rfl, rfl, h⟩; simpa using h
  | l :: u, v, s => by
    simp only [List.cons_append, SpellsA]
    constructor
    · rintro ⟨k, a, w, hk1, hk2, rfl, ha, hw⟩
      obtain ⟨s1, s2, rfl, h1, h2⟩ := (spellsA_append i u v w).mp hw
      exact ⟨a ++ s1, s2, by simp, ⟨k, a, s1, hk1, hk2, rfl, ha, h1⟩, h2⟩
    · rintro ⟨s1, s2, rfl, ⟨k, a, w, hk1, hk2, rfl, ha, hw⟩, h2⟩
      exact ⟨k, a, w ++ s2, hk1, hk2, by simp, ha, (spellsA_append i u v _).mpr ⟨w, s2, rfl, hw, h2⟩⟩

theorem strLangR_cat (i : Bool) (a b : Expr) (s : Str) :
    (Expr.cat a b).strLangR i s ↔ ∃ u v, s = u ++ v ∧ a.strLangR i u ∧ b.strLangR i v := by
  simp only [Expr.strLangR, Expr.lang]
  constructor
  · rintro ⟨ls, ⟨u, v, rfl, hu, hv⟩, hs⟩
    obtain ⟨s1, s2, rfl, h1, h2⟩ := (spellsA_append i u v s).mp hs
    exact ⟨s1, s2, rfl, ⟨u, hu, h1⟩, ⟨v, hv, h2⟩⟩
  · rintro ⟨s1, s2, rfl, ⟨u, hu, h1⟩, ⟨v, hv, h2⟩⟩
    exact ⟨u ++ v, ⟨u, v, rfl, hu, hv⟩, (spellsA_append i u v _).mpr ⟨s1, s2, rfl, h1, h2⟩⟩

theorem strLangR_opt (i : Bool) (e : Expr) (s : Str) : (Expr.rep e .question).strLangR i s ↔ s = [] ∨ e.strLangR i s := by
  simp only [Expr.strLangR, Expr.lang]
  constructor
  · rintro ⟨ls, rfl | hl, hs⟩
    · left; simpa [SpellsA] using hs
    · right; exact ⟨ls, hl, hs⟩
  · rintro (rfl | ⟨ls, hl, hs⟩)
    · exact ⟨[], Or.inl rfl, rfl⟩
    · exact ⟨ls, Or.inr hl, hs⟩

theorem strLangR_alt (i : Bool) (os : List Expr) (s : Str) : (Expr.alt os).strLangR i s ↔ ∃ o ∈ os, o.strLangR i s := by
  simp only [Expr.strLangR, Expr.lang, Expr.langAny_iff]
  constructor
  · rintro ⟨ls, ⟨o, ho, hl⟩, hs⟩; exact ⟨o, ho, ls, hl, hs⟩
  · rintro ⟨o, ho, ls, hl, hs⟩; exact ⟨ls, ⟨o, ho, hl⟩, hs⟩

theorem strLangR_cls (i : Bool) (cs : List Nat) (s : Str) :
    (Expr.cls cs).strLangR i s ↔ ∃ c ∈ cs, ∃ x, s = [x] ∧ chrMatches i c x = true := by
  simp only [Expr.strLangR, Expr.lang]
  have hat : ∀ c, gAtoms (Grapheme.ofStr [c]) = [Atom.chr c] := by
    intro c; simp [gAtoms, Grapheme.ofStr, Grapheme.chars, tokens_single]
  constructor
  · rintro ⟨ls, ⟨c, hc, rfl⟩, hs⟩
    obtain ⟨k, u, v, hk1, hk2, rfl, hu, hv⟩ := hs
    simp only [SpellsA] at hv
    subst hv
    have hk : k = 1 := by simp [Grapheme.ofStr, Grapheme.min, Grapheme.max] at hk1 hk2; omega
    subst hk
    rw [powL_one, hat, Expr.atomsDen_single] at hu
    obtain ⟨x, rfl, hx⟩ := hu
    exact ⟨c, hc, x, by simp, hx⟩
  · rintro ⟨c, hc, x, rfl, hx⟩
    refine ⟨[Grapheme.ofStr [c]], ⟨c, hc, rfl⟩, 1, [x], [], by simp [Grapheme.ofStr, Grapheme.min],
      by simp [Grapheme.ofStr, Grapheme.max], by simp, ?_, rfl⟩
    rw [powL_one, hat, Expr.atomsDen_single]
    exact ⟨x, rfl, hx⟩

theorem denLC_subOfR_iff (i cap esc : Bool) (outer : Nat) (e : Expr) (s : Str)
    (h1 : e.isAlt = false → (denLC i (e.bothR cap esc).1 s ↔ e.strLangR i s)) (h2 : (e.bothR cap esc).2.denC i s ↔ e.strLangR i s)
    (halt : e.isAlt = true → outer ≥ 2) :
    denLC i (subOf cap esc outer e (e.bothR cap esc).1 (e.bothR cap esc).2) s ↔ e.strLangR i s := by
  unfold subOf
  split
  · rw [denLC_single]; simpa [Pat.denC] using h2
  · rename_i hc
    apply h1
    cases e with
    | alt os =>
      have := halt rfl
      simp only [Expr.precedence, Expr.isSingleCodepoint, Bool.not_false, Bool.and_true, decide_eq_true_eq] at hc
      have : ¬ (1 < outer) := fun h' => hc (decide_eq_true h')
      omega
    | _ => rfl

mutual
/-- **the printed `-r` pattern denotes exactly the strings the expression's label sequences spell** -/
theorem Expr.bothR_den (i cap esc : Bool) : ∀ (e : Expr), e.WFS → ∀ s, (∀ c ∈ s, Scalar c) →
    (e.isAlt = false → (denLC i (e.bothR cap esc).1 s ↔ e.strLangR i s)) ∧ ((e.bothR cap esc).2.denC i s ↔ e.strLangR i s)
  | .lit c, h, s, _ => by
    obtain ⟨h1, h2⟩ := litS_gokl c h
    have key : denLC i (gItemsL cap c) s ↔ (Expr.lit c).strLangR i s := by
      rw [gExactL i cap c h1 h2 s]
      simp only [Expr.strLangR, Expr.lang]
      constructor
      · intro hs; exact ⟨c, rfl, hs⟩
      · rintro ⟨ls, rfl, hs⟩; exact hs
    simp only [Expr.bothR, denC_catList]
    exact ⟨fun _ => key, key⟩
  | .cls cs, h, s, hs => by
    have key : denLC i [Pat.set (classItems cs) false] s ↔ (Expr.cls cs).strLangR i s := by
      rw [strLangR_cls, denLC_single]
      simp only [Pat.denC]
      constructor
      · rintro ⟨x, rfl, hx⟩
        obtain ⟨c, hc, hm⟩ := (classItems_match i cs h.1 h.2.1 x (hs x (by simp))).mp hx
        exact ⟨c, hc, x, rfl, hm⟩
      · rintro ⟨c, hc, x, rfl, hm⟩
        exact ⟨x, rfl, (classItems_match i cs h.1 h.2.1 x (hs x (by simp))).mpr ⟨c, hc, hm⟩⟩
    simp only [Expr.bothR, denC_catList]
    exact ⟨fun _ => key, key⟩
  | .cat a b, h, s, hs => by
    have key : denLC i (subOf cap esc 2 a (a.bothR cap esc).1 (a.bothR cap esc).2 ++
        subOf cap esc 2 b (b.bothR cap esc).1 (b.bothR cap esc).2) s ↔ (Expr.cat a b).strLangR i s := by
      rw [denLC_append, strLangR_cat]
      constructor
      · rintro ⟨u, v, rfl, h1, h2⟩
        have hu : ∀ c ∈ u, Scalar c := fun c hc => hs c (by simp [hc])
        have hv : ∀ c ∈ v, Scalar c := fun c hc => hs c (by simp [hc])
        have ia := Expr.bothR_den i cap esc a h.1 u hu
        have ib := Expr.bothR_den i cap esc b h.2 v hv
        exact ⟨u, v, rfl, (denLC_subOfR_iff i cap esc 2 a u ia.1 ia.2 (fun _ => Nat.le_refl _)).mp h1,
          (denLC_subOfR_iff i cap esc 2 b v ib.1 ib.2 (fun _ => Nat.le_refl _)).mp h2⟩
      · rintro ⟨u, v, rfl, h1, h2⟩
        have hu : ∀ c ∈ u, Scalar c := fun c hc => hs c (by simp [hc])
        have hv : ∀ c ∈ v, Scalar c := fun c hc => hs c (by simp [hc])
        have ia := Expr.bothR_den i cap esc a h.1 u hu
        have ib := Expr.bothR_den i cap esc b h.2 v hv
        exact ⟨u, v, rfl, (denLC_subOfR_iff i cap esc 2 a u ia.1 ia.2 (fun _ => Nat.le_refl _)).mpr h1,
          (denLC_subOfR_iff i cap esc 2 b v ib.1 ib.2 (fun _ => Nat.le_refl _)).mpr h2⟩
    simp only [Expr.bothR, denC_catList]
    exact ⟨fun _ => key, key⟩
  | .rep e q, h, s, hs => by
    obtain ⟨rfl, hnr, hwf⟩ := h
    obtain ⟨p, hp, _⟩ := subOf3_singleR cap esc e (Expr.WFS.toWFR e hwf) hnr
    have key : denLC i (optOf (subOf cap esc 3 e (e.bothR cap esc).1 (e.bothR cap esc).2)) s ↔ (Expr.rep e .question).strLangR i s := by
      rw [hp, strLangR_opt]
      simp only [optOf, denLC_single, Pat.denC, rangeL]
      have ie := Expr.bothR_den i cap esc e hwf s hs
      have hsub := denLC_subOfR_iff i cap esc 3 e s ie.1 ie.2 (fun _ => by omega)
      rw [hp, denLC_single] at hsub
      constructor
      · rintro ⟨k, _, hk, hpow⟩
        have : k = 0 ∨ k = 1 := by omega
        rcases this with rfl | rfl
        · left; exact hpow
        · right
          obtain ⟨u, v, rfl, hu, hv⟩ := hpow
          simp only [powL] at hv
          subst hv
          simp only [List.append_nil] at hsub ⊢
          exact hsub.mp hu
      · rintro (rfl | h)
        · exact ⟨0, by omega, by omega, rfl⟩
        · exact ⟨1, by omega, by omega, s, [], by simp, hsub.mpr h, rfl⟩
    simp only [Expr.bothR, denC_catList]
    exact ⟨fun _ => key, key⟩
  | .alt os, h, s, hs => by
    refine ⟨fun hc => by simp [Expr.isAlt] at hc, ?_⟩
    simp only [Expr.bothR]
    have hne : Expr.bothLR cap esc os ≠ [] := by
      cases os with
      | nil => exact absurd rfl h.1
      | cons o os => simp [Expr.bothLR]
    rw [denC_altList i _ hne, strLangR_alt]
    exact Expr.bothLR_den i cap esc os h.2 s hs
theorem Expr.bothLR_den (i cap esc : Bool) : ∀ (os : List Expr), Expr.WFLS os → ∀ s, (∀ c ∈ s, Scalar c) →
    ((∃ p ∈ Expr.bothLR cap esc os, p.denC i s) ↔ ∃ o ∈ os, o.strLangR i s)
  | [], _, s, _ => by simp [Expr.bothLR]
  | o :: os, h, s, hs => by
    have io := Expr.bothR_den i cap esc o h.2.1 s hs
    have ios := Expr.bothLR_den i cap esc os h.2.2 s hs
    simp only [Expr.bothLR, List.mem_cons, exists_eq_or_imp, denC_catList]
    rw [io.1 h.1, ios]
end

end Grexv
