import Grexv.Lemmas.FragR

/-
Exactness of the printed `-r` pattern at the level of denotations: the items the parser reads from the printed text denote a string
**iff** some label sequence of the expression's symbol-level language spells it.
-/
set_option linter.unusedSimpArgs false
set_option linter.unusedVariables false
namespace Grexv
open Spec

theorem atoms_exact (as : List Atom) (h : ∀ a ∈ as, ∃ c, a = Atom.chr c) (s : Str) : atomsDen false as s ↔ s = untok as := by
  induction as generalizing s with
  | nil => simp [atomsDen, untok]
  | cons a r ih =>
    obtain ⟨c, rfl⟩ := h _ List.mem_cons_self
    have ihr := ih (fun x hx => h x (List.mem_cons_of_mem _ hx))
    simp only [atomsDen, untok, atomDen, chrMatches_false]
    constructor
    · rintro ⟨x, r', rfl, rfl, hr⟩; rw [(ihr r').mp hr]
    · rintro rfl; exact ⟨c, untok r, rfl, rfl, (ihr _).mpr rfl⟩

theorem powL_exact (L : Str → Prop) (u : Str) (hL : ∀ s, L s ↔ s = u) : ∀ k s, powL L k s ↔ s = (List.replicate k u).flatten
  | 0, s => by simp [powL]
  | k + 1, s => by
    simp only [powL, List.replicate_succ, List.flatten_cons]
    constructor
    · rintro ⟨a, b, rfl, ha, hb⟩
      rw [(hL a).mp ha, (powL_exact L u hL k b).mp hb]
    · rintro rfl
      exact ⟨u, _, rfl, (hL u).mpr rfl, (powL_exact L u hL k _).mpr rfl⟩

/-- counts fixed: the cluster spells exactly its expansion -/
theorem spells_fixed : ∀ (gs : List Grapheme), (∀ r ∈ gs, r.min = r.max) → ∀ s, Dfa.Spells gs s ↔ s = (expandAll gs).flatten
  | [], _, s => by simp [Dfa.Spells, expandAll]
  | g :: gs, h, s => by
    have hg := h g List.mem_cons_self
    have ih := spells_fixed gs (fun r hr => h r (List.mem_cons_of_mem _ hr))
    rw [expandAll_flatten_cons]
    simp only [Dfa.Spells]
    constructor
    · rintro ⟨k, v, hk1, hk2, rfl, hv⟩
      have : k = g.min := by omega
      subst this
      rw [(ih v).mp hv]
    · rintro rfl
      exact ⟨g.min, _, Nat.le_refl _, by omega, rfl, (ih _).mpr rfl⟩

/-- the unit pattern of a counted grapheme without nested repetitions, both directions -/
theorem gItems_flat_iff (cap : Bool) (ass : List (List Atom)) (hok : AssOK ass) (mn mx : Nat) (hc : Counted mn mx) :
    ∃ body, gItems cap (Grapheme.mk (ass.map untok) [] mn mx) = [Pat.rep body mn (some mx) true] ∧
      ∀ s, body.denC false s ↔ atomsDen false ass.flatten s := by
  have hcne : ¬ (mn = 1 ∧ mx = 1) := by rcases hc with h | ⟨h, h'⟩ <;> omega
  by_cases hs : SingleUnit ass
  · obtain ⟨a, rfl, hne92⟩ := hs
    have hsb : singleB ([[a]].map untok) = true := (singleB_iff [[a]] hok).mpr ⟨a, rfl, hne92⟩
    have hta : tokens (untok [a]) = [a] := tokens_untok [a] (hok.2 [a] List.mem_cons_self).2
    refine ⟨atomPat a, ?_, ?_⟩
    · simp only [gItems, hcne, ite_false, List.isEmpty_nil, ite_true, hsb]
      simp [hta]
    · intro s
      rw [Pat.denC_eq_den false _ (frag_atomPat a), den_atomPat]
      simp only [List.flatten_cons, List.flatten_nil, List.append_nil, atomsDen]
      constructor
      · rintro ⟨x, rfl, hx⟩; exact ⟨x, [], rfl, hx, rfl⟩
      · rintro ⟨x, r, rfl, hx, rfl⟩; exact ⟨x, rfl, hx⟩
  · have hsb : singleB (ass.map untok) = false := by
      cases hb' : singleB (ass.map untok) with
      | false => rfl
      | true => exact absurd ((singleB_iff ass hok).mp hb') hs
    refine ⟨Pat.grp cap (catList (unitItems ass)), ?_, fun s => unit_den cap ass false s⟩
    simp only [gItems, hcne, ite_false, List.isEmpty_nil, ite_true, hsb, Bool.false_eq_true, tokens_flat ass hok.2, unitItems_eq]

mutual
/-- **one grapheme, exactly** its items denote its characters repeated `k` times for the admissible `k`, and nothing else -/
theorem gExact (cap : Bool) : (g : Grapheme) → GOK g → GSem g → ∀ s,
    denLC false (gItems cap g) s ↔ ∃ k, g.min ≤ k ∧ k ≤ g.max ∧ s = (List.replicate k g.chars.flatten).flatten
  | .mk chars reps mn mx, hok, hsem, s => by
    simp only [Grapheme.min, Grapheme.max, Grapheme.chars]
    simp only [GSem] at hsem
    obtain ⟨hchr, hle, hnest⟩ := hsem
    rcases GOK_cases chars reps mn mx hok with ⟨as, hne, hasok, rfl, rfl, rfl, rfl⟩ | ⟨ass, hass, rfl, rfl, hc, hb⟩ |
      ⟨ass, hass, rfl, h2, hr, hl, hc, hb⟩
    · -- plain
      have hi : gItems cap (Grapheme.mk [untok as] [] 1 1) = as.map atomPat := by simp [gItems, tokens_untok as hasok]
      have hch : ∀ a ∈ as, ∃ c, a = Atom.chr c := fun a ha =>
        hchr (untok as) (by simp) a (by rw [tokens_untok as hasok]; exact ha)
      rw [hi, denLC_eq_denL false _ (by intro p hp; obtain ⟨a, _, rfl⟩ := List.mem_map.mp hp; exact frag_atomPat a),
        denL_atoms, atoms_exact as hch]
      constructor
      · rintro rfl; exact ⟨1, Nat.le_refl _, Nat.le_refl _, by simp⟩
      · rintro ⟨k, h1, h2, rfl⟩
        have : k = 1 := by omega
        subst this; simp
    · -- counted, flat
      obtain ⟨body, hi, hbody⟩ := gItems_flat_iff cap ass hass mn mx hc
      have hchall : ∀ a ∈ ass.flatten, ∃ c, a = Atom.chr c := by
        intro a ha
        obtain ⟨as, has, haas⟩ := List.mem_flatten.mp ha
        exact hchr (untok as) (List.mem_map_of_mem has) a (by rw [tokens_untok as (hass.2 as has).2]; exact haas)
      have hL : ∀ u, body.denC false u ↔ u = (ass.map untok).flatten := by
        intro u
        rw [hbody u, atoms_exact _ hchall, untok_flatten]
      rw [hi, denLC_single]
      simp only [Pat.denC, rangeL]
      constructor
      · rintro ⟨k, h1, h2, hp⟩
        exact ⟨k, h1, by omega, (powL_exact _ _ hL k s).mp hp⟩
      · rintro ⟨k, h1, h2, rfl⟩
        exact ⟨k, h1, by omega, (powL_exact _ _ hL k _).mpr rfl⟩
    · -- counted, nested
      have hcne : ¬ (mn = 1 ∧ mx = 1) := by rcases hc with h | ⟨h, h'⟩ <;> omega
      have hre : reps.isEmpty = false := by
        cases reps with
        | nil => exact absurd rfl hr
        | cons _ _ => rfl
      have hi : gItems cap (Grapheme.mk (ass.map untok) reps mn mx) =
          [Pat.rep (Pat.grp cap (catList (gItemsL cap reps))) mn (some mx) true] := by
        simp only [gItems, hcne, ite_false, hre, Bool.false_eq_true]
      rcases hnest with h0 | ⟨hexp, hsl, hfix⟩
      · exact absurd h0 hr
      · have hL : ∀ u, (Pat.grp cap (catList (gItemsL cap reps))).denC false u ↔ u = (ass.map untok).flatten := by
          intro u
          simp only [Pat.denC]
          rw [denC_catList, gExactL cap reps hl hsl u, spells_fixed reps hfix u, hexp]
        rw [hi, denLC_single]
        simp only [Pat.denC, rangeL]
        constructor
        · rintro ⟨k, h1, h2, hp⟩
          exact ⟨k, h1, by omega, (powL_exact _ _ hL k s).mp hp⟩
        · rintro ⟨k, h1, h2, rfl⟩
          exact ⟨k, h1, by omega, (powL_exact _ _ hL k _).mpr rfl⟩
/-- **one literal, exactly** its items denote the strings the cluster spells -/
theorem gExactL (cap : Bool) : (gs : List Grapheme) → GOKL gs → GSemL gs → ∀ s, denLC false (gItemsL cap gs) s ↔ Dfa.Spells gs s
  | [], _, _, s => by simp [gItemsL, denLC, Dfa.Spells]
  | g :: gs, hok, hsem, s => by
    simp only [GOKL, GSemL] at hok hsem
    simp only [gItemsL, Dfa.Spells]
    rw [denLC_append]
    constructor
    · rintro ⟨u, v, rfl, hu, hv⟩
      obtain ⟨k, h1, h2, rfl⟩ := (gExact cap g hok.1 hsem.1 u).mp hu
      exact ⟨k, v, h1, h2, rfl, (gExactL cap gs hok.2 hsem.2 v).mp hv⟩
    · rintro ⟨k, v, h1, h2, rfl, hv⟩
      exact ⟨_, v, rfl, (gExact cap g hok.1 hsem.1 _).mpr ⟨k, h1, h2, rfl⟩, (gExactL cap gs hok.2 hsem.2 v).mpr hv⟩
end

/-! ### expressions -/

/-- the strings spelled by the label sequences of the expression -/
def Expr.strLangR (e : Expr) (s : Str) : Prop := ∃ ls, e.lang ls ∧ Dfa.Spells ls s

theorem spells_append_iff (u v : Word) (s : Str) :
    Dfa.Spells (u ++ v) s ↔ ∃ s1 s2, s = s1 ++ s2 ∧ Dfa.Spells u s1 ∧ Dfa.Spells v s2 := by
  constructor
  · exact spells_append u v s
  · rintro ⟨s1, s2, rfl, h1, h2⟩
    induction u generalizing s1 with
    | nil => simp only [Dfa.Spells] at h1; subst h1; simpa using h2
    | cons l u ih =>
      obtain ⟨k, w, hk1, hk2, rfl, hw⟩ := h1
      exact ⟨k, w ++ s2, hk1, hk2, by simp, ih w hw⟩

theorem strLangR_cat (a b : Expr) (s : Str) :
    (Expr.cat a b).strLangR s ↔ ∃ u v, s = u ++ v ∧ a.strLangR u ∧ b.strLangR v := by
  simp only [Expr.strLangR, Expr.lang]
  constructor
  · rintro ⟨ls, ⟨u, v, rfl, hu, hv⟩, hs⟩
    obtain ⟨s1, s2, rfl, h1, h2⟩ := (spells_append_iff u v s).mp hs
    exact ⟨s1, s2, rfl, ⟨u, hu, h1⟩, ⟨v, hv, h2⟩⟩
  · rintro ⟨s1, s2, rfl, ⟨u, hu, h1⟩, ⟨v, hv, h2⟩⟩
    exact ⟨u ++ v, ⟨u, v, rfl, hu, hv⟩, (spells_append_iff u v _).mpr ⟨s1, s2, rfl, h1, h2⟩⟩

theorem strLangR_opt (e : Expr) (s : Str) : (Expr.rep e .question).strLangR s ↔ s = [] ∨ e.strLangR s := by
  simp only [Expr.strLangR, Expr.lang]
  constructor
  · rintro ⟨ls, rfl | hl, hs⟩
    · left; simpa [Dfa.Spells] using hs
    · right; exact ⟨ls, hl, hs⟩
  · rintro (rfl | ⟨ls, hl, hs⟩)
    · exact ⟨[], Or.inl rfl, rfl⟩
    · exact ⟨ls, Or.inr hl, hs⟩

theorem strLangR_alt (os : List Expr) (s : Str) : (Expr.alt os).strLangR s ↔ ∃ o ∈ os, o.strLangR s := by
  simp only [Expr.strLangR, Expr.lang, Expr.langAny_iff]
  constructor
  · rintro ⟨ls, ⟨o, ho, hl⟩, hs⟩; exact ⟨o, ho, ls, hl, hs⟩
  · rintro ⟨o, ho, ls, hl, hs⟩; exact ⟨ls, ⟨o, ho, hl⟩, hs⟩

theorem strLangR_cls (cs : List Nat) (s : Str) : (Expr.cls cs).strLangR s ↔ ∃ c ∈ cs, s = [c] := by
  simp only [Expr.strLangR, Expr.lang]
  constructor
  · rintro ⟨ls, ⟨c, hc, rfl⟩, hs⟩
    obtain ⟨k, v, hk1, hk2, rfl, hv⟩ := hs
    simp only [Dfa.Spells] at hv
    subst hv
    have hk : k = 1 := by simp [Grapheme.ofStr, Grapheme.min, Grapheme.max] at hk1 hk2; omega
    subst hk
    exact ⟨c, hc, by simp [Grapheme.ofStr, Grapheme.chars]⟩
  · rintro ⟨c, hc, rfl⟩
    exact ⟨[Grapheme.ofStr [c]], ⟨c, hc, rfl⟩, 1, [], by simp [Grapheme.ofStr, Grapheme.min],
      by simp [Grapheme.ofStr, Grapheme.max], by simp [Grapheme.ofStr, Grapheme.chars], rfl⟩

theorem denLC_subOfR_iff (cap esc : Bool) (outer : Nat) (e : Expr) (s : Str)
    (h1 : e.isAlt = false → (denLC false (e.bothR cap esc).1 s ↔ e.strLangR s)) (h2 : (e.bothR cap esc).2.denC false s ↔ e.strLangR s)
    (halt : e.isAlt = true → outer ≥ 2) :
    denLC false (subOf cap esc outer e (e.bothR cap esc).1 (e.bothR cap esc).2) s ↔ e.strLangR s := by
  unfold subOf
  split
  · rw [denLC_single]; simpa [Pat.denC] using h2
  · rename_i hc
    apply h1
    cases e with
    | alt os =>
      have := halt rfl
      simp only [Expr.precedence, Expr.isSingleCodepoint, Bool.not_false, Bool.and_true, decide_eq_true_eq] at hc
      have : ¬ (1 < outer) := fun h' => hc (decide_eq_true h')
      omega
    | _ => rfl

mutual
/-- **the printed `-r` pattern denotes exactly the strings the expression's label sequences spell** -/
theorem Expr.bothR_den (cap esc : Bool) : ∀ (e : Expr), e.WFS → ∀ s, (∀ c ∈ s, Scalar c) →
    (e.isAlt = false → (denLC false (e.bothR cap esc).1 s ↔ e.strLangR s)) ∧ ((e.bothR cap esc).2.denC false s ↔ e.strLangR s)
  | .lit c, h, s, _ => by
    obtain ⟨h1, h2⟩ := litS_gokl c h
    have key : denLC false (gItemsL cap c) s ↔ (Expr.lit c).strLangR s := by
      rw [gExactL cap c h1 h2 s]
      simp only [Expr.strLangR, Expr.lang]
      constructor
      · intro hs; exact ⟨c, rfl, hs⟩
      · rintro ⟨ls, rfl, hs⟩; exact hs
    simp only [Expr.bothR, denC_catList]
    exact ⟨fun _ => key, key⟩
  | .cls cs, h, s, hs => by
    have key : denLC false [Pat.set (classItems cs) false] s ↔ (Expr.cls cs).strLangR s := by
      rw [strLangR_cls, denLC_single]
      simp only [Pat.denC]
      constructor
      · rintro ⟨x, rfl, hx⟩
        obtain ⟨c, hc, hm⟩ := (classItems_match false cs h.1 h.2.1 x (hs x (by simp))).mp hx
        rw [chrMatches_false] at hm
        subst hm
        exact ⟨x, hc, rfl⟩
      · rintro ⟨c, hc, rfl⟩
        exact ⟨c, rfl, (classItems_match false cs h.1 h.2.1 c (h.2.1 c hc)).mpr ⟨c, hc, by simp [chrMatches]⟩⟩
    simp only [Expr.bothR, denC_catList]
    exact ⟨fun _ => key, key⟩
  | .cat a b, h, s, hs => by
    have key : denLC false (subOf cap esc 2 a (a.bothR cap esc).1 (a.bothR cap esc).2 ++
        subOf cap esc 2 b (b.bothR cap esc).1 (b.bothR cap esc).2) s ↔ (Expr.cat a b).strLangR s := by
      rw [denLC_append, strLangR_cat]
      constructor
      · rintro ⟨u, v, rfl, h1, h2⟩
        have hu : ∀ c ∈ u, Scalar c := fun c hc => hs c (by simp [hc])
        have hv : ∀ c ∈ v, Scalar c := fun c hc => hs c (by simp [hc])
        have ia := Expr.bothR_den cap esc a h.1 u hu
        have ib := Expr.bothR_den cap esc b h.2 v hv
        exact ⟨u, v, rfl, (denLC_subOfR_iff cap esc 2 a u ia.1 ia.2 (fun _ => Nat.le_refl _)).mp h1,
          (denLC_subOfR_iff cap esc 2 b v ib.1 ib.2 (fun _ => Nat.le_refl _)).mp h2⟩
      · rintro ⟨u, v, rfl, h1, h2⟩
        have hu : ∀ c ∈ u, Scalar c := fun c hc => hs c (by simp [hc])
        have hv : ∀ c ∈ v, Scalar c := fun c hc => hs c (by simp [hc])
        have ia := Expr.bothR_den cap esc a h.1 u hu
        have ib := Expr.bothR_den cap esc b h.2 v hv
        exact ⟨u, v, rfl, (denLC_subOfR_iff cap esc 2 a u ia.1 ia.2 (fun _ => Nat.le_refl _)).mpr h1,
          (denLC_subOfR_iff cap esc 2 b v ib.1 ib.2 (fun _ => Nat.le_refl _)).mpr h2⟩
    simp only [Expr.bothR, denC_catList]
    exact ⟨fun _ => key, key⟩
  | .rep e q, h, s, hs => by
    obtain ⟨rfl, hnr, hwf⟩ := h
    obtain ⟨p, hp, _⟩ := subOf3_singleR cap esc e (Expr.WFS.toWFR e hwf) hnr
    have key : denLC false (optOf (subOf cap esc 3 e (e.bothR cap esc).1 (e.bothR cap esc).2)) s ↔ (Expr.rep e .question).strLangR s := by
      rw [hp, strLangR_opt]
      simp only [optOf, denLC_single, Pat.denC, rangeL]
      have ie := Expr.bothR_den cap esc e hwf s hs
      have hsub := denLC_subOfR_iff cap esc 3 e s ie.1 ie.2 (fun _ => by omega)
      rw [hp, denLC_single] at hsub
      constructor
      · rintro ⟨k, _, hk, hpow⟩
        have : k = 0 ∨ k = 1 := by omega
        rcases this with rfl | rfl
        · left; exact hpow
        · right
          obtain ⟨u, v, rfl, hu, hv⟩ := hpow
          simp only [powL] at hv
          subst hv
          simp only [List.append_nil] at hsub ⊢
          exact hsub.mp hu
      · rintro (rfl | h)
        · exact ⟨0, by omega, by omega, rfl⟩
        · exact ⟨1, by omega, by omega, s, [], by simp, hsub.mpr h, rfl⟩
    simp only [Expr.bothR, denC_catList]
    exact ⟨fun _ => key, key⟩
  | .alt os, h, s, hs => by
    refine ⟨fun hc => by simp [Expr.isAlt] at hc, ?_⟩
    simp only [Expr.bothR]
    have hne : Expr.bothLR cap esc os ≠ [] := by
      cases os with
      | nil => exact absurd rfl h.1
      | cons o os => simp [Expr.bothLR]
    rw [denC_altList false _ hne, strLangR_alt]
    exact Expr.bothLR_den cap esc os h.2 s hs
theorem Expr.bothLR_den (cap esc : Bool) : ∀ (os : List Expr), Expr.WFLS os → ∀ s, (∀ c ∈ s, Scalar c) →
    ((∃ p ∈ Expr.bothLR cap esc os, p.denC false s) ↔ ∃ o ∈ os, o.strLangR s)
  | [], _, s, _ => by simp [Expr.bothLR]
  | o :: os, h, s, hs => by
    have io := Expr.bothR_den cap esc o h.2.1 s hs
    have ios := Expr.bothLR_den cap esc os h.2.2 s hs
    simp only [Expr.bothLR, List.mem_cons, exists_eq_or_imp, denC_catList]
    rw [io.1 h.1, ios]
end

/-- **the printed `-r` pattern, exactly** (plain printing, both anchors): the compiled pattern matches a string of scalar values in full
iff a label sequence of the expression's symbol-level language spells it -/
theorem printed_exactR (cap esc : Bool) (e : Expr) (hwf : e.WFS) (s : Str) (hs : ∀ c ∈ s, Scalar c) :
    ∃ P, Spec.parse (fmtRegExp (cfgPlain cap esc) e) = some (⟨false, false⟩, P) ∧
      (Spec.fullMatch false P s = true ↔ e.strLangR s) := by
  have hwr := Expr.WFS.toWFR e hwf
  refine ⟨_, parse_printedR cap esc e hwr, ?_⟩
  have hfr := Expr.bothR_fragC cap esc e hwr
  have hd := Expr.bothR_den cap esc e hwf s hs
  have hitems : ∀ p ∈ topItemsR cap esc e, p.FragC := by
    unfold topItemsR
    split
    · intro p hp; simp only [List.mem_singleton] at hp; subst hp; exact hfr.2
    · exact hfr.1
  rw [fullMatch_anchored_itemsC false _ hitems]
  unfold topItemsR
  cases ha : e.isAlt with
  | true => simp only [ite_true, denLC_single, Pat.denC]; exact hd.2
  | false => simp only [Bool.false_eq_true, ite_false]; exact hd.1 ha

end Grexv
