import Grexv.Lemmas.ColorStrip2
import Grexv.Lemmas.Lines

/-
C15 in verbose mode: the highlighted verbose text, with its SGR sequences removed, is the verbose text without highlighting.
Beyond `Col` for the text before `indent_regexp` this needs the line structure: `indent_regexp` indents each line by a level it
computes from the line *with the codes removed*, and skips empty lines — so a line consisting of codes only would be treated
differently from the empty line it stands for.  `Col` only allows painted stretches that are non-empty and free of line breaks, so
the lines of the highlighted text are the lines of the plain text, painted, and one is empty iff the other is.
-/
set_option linter.unusedSimpArgs false
set_option linter.unusedVariables false
namespace Grexv
open ColorBasic

theorem paint_no10 (code text : Str) (hc : code ∈ genCodes) (htx : ∀ x ∈ text, x ≠ 10 ∧ x ≠ 13 ∧ x ≠ 27) :
    10 ∉ Grexv.paint true code text := by
  rw [paint_eq]
  intro h
  simp only [List.mem_append, List.mem_cons, List.mem_nil_iff, or_false] at h
  have hcode := code_chars _ (Or.inr ⟨code, hc, rfl⟩) 10
  rcases h with h | h
  · have := hcode (by simp only [List.mem_append, List.mem_cons, List.mem_nil_iff, or_false]; exact h)
    omega
  · rcases h with h | h
    · exact (htx 10 h).1 rfl
    · omega

theorem Col.nil_iff {C T : Str} (h : Col C T) : C = [] ↔ T = [] := by
  cases h with
  | nil => simp
  | chr c _ _ => simp
  | paint code text hc hne _ _ =>
    constructor
    · intro e; simp [Grexv.paint, colorCode] at e
    · intro e; simp at e; exact absurd e.1 hne

/-- cut at the first line feed -/
theorem Col.split10 {C T : Str} (h : Col C T) :
    (10 ∉ C ∧ 10 ∉ T) ∨ ∃ c1 c2 t1 t2, C = c1 ++ 10 :: c2 ∧ T = t1 ++ 10 :: t2 ∧ 10 ∉ c1 ∧ 10 ∉ t1 ∧ Col c1 t1 ∧ Col c2 t2 := by
  induction h with
  | nil => left; simp
  | @chr c C T hCT hc ih =>
    by_cases h10 : c = 10
    · subst h10
      right
      exact ⟨[], C, [], T, rfl, rfl, by simp, by simp, Col.nil, hCT⟩
    · rcases ih with ⟨h1, h2⟩ | ⟨c1, c2, t1, t2, rfl, rfl, h1, h2, h3, h4⟩
      · left
        exact ⟨by simp [h1, Ne.symm h10], by simp [h2, Ne.symm h10]⟩
      · right
        refine ⟨c :: c1, c2, c :: t1, t2, rfl, rfl, by simp [h1, Ne.symm h10], by simp [h2, Ne.symm h10], ?_, h4⟩
        refine Col.chr c h3 ?_
        intro h27
        have := hc h27
        cases c1 with
        | nil => simp
        | cons y ys => simpa using this
  | @paint code text C T hc hne htx hCT ih =>
    have hp := paint_no10 code text hc htx
    have ht : 10 ∉ text := fun h => (htx 10 h).1 rfl
    rcases ih with ⟨h1, h2⟩ | ⟨c1, c2, t1, t2, rfl, rfl, h1, h2, h3, h4⟩
    · left
      exact ⟨by simp [hp, h1], by simp [ht, h2]⟩
    · right
      refine ⟨Grexv.paint true code text ++ c1, c2, text ++ t1, t2, by simp, by simp, by simp [hp, h1], by simp [ht, h2], ?_, h4⟩
      exact Col.paint code text hc hne htx h3

theorem getLast?_cons_ne_cv {α} (c : α) (l : List α) (h : l ≠ []) : (c :: l).getLast? = l.getLast? := by
  cases l with
  | nil => exact absurd rfl h
  | cons a as => simp [List.getLast?_cons_cons]

theorem getLast?_append_ne_cv {α} (a l : List α) (h : l ≠ []) : (a ++ l).getLast? = l.getLast? := by
  induction a with
  | nil => rfl
  | cons x xs ih =>
    rw [List.cons_append, getLast?_cons_ne_cv x (xs ++ l) (by simp [h]), ih]

theorem dropLast_append_ne_cv {α} (a l : List α) (h : l ≠ []) : (a ++ l).dropLast = a ++ l.dropLast := by
  induction a with
  | nil => rfl
  | cons x xs ih =>
    cases hl : xs ++ l with
    | nil => simp at hl; exact absurd hl.2 h
    | cons y ys => rw [List.cons_append, hl, List.dropLast_cons_cons, ← hl, ih]; rfl

/-- the carriage return `str::lines` drops at the end of a line -/
theorem Col.last13 {C T : Str} (h : Col C T) :
    (C.getLast? = some 13 ↔ T.getLast? = some 13) ∧ (C.getLast? = some 13 → Col C.dropLast T.dropLast) := by
  induction h with
  | nil => simp
  | @chr c C T hCT hc ih =>
    have hiff := hCT.nil_iff
    by_cases hC : C = []
    · have hT := hiff.mp hC
      subst hC; subst hT
      exact ⟨Iff.rfl, fun _ => by simpa using Col.nil⟩
    · have hT : T ≠ [] := fun e => hC (hiff.mpr e)
      rw [getLast?_cons_ne_cv c C hC, getLast?_cons_ne_cv c T hT]
      refine ⟨ih.1, fun h13 => ?_⟩
      have e1 : (c :: C).dropLast = c :: C.dropLast := by
        cases C with
        | nil => exact absurd rfl hC
        | cons y ys => rfl
      have e2 : (c :: T).dropLast = c :: T.dropLast := by
        cases T with
        | nil => exact absurd rfl hT
        | cons y ys => rfl
      rw [e1, e2]
      refine Col.chr c (ih.2 h13) ?_
      intro h27
      have := hc h27
      cases C with
      | nil => exact absurd rfl hC
      | cons y ys =>
        cases ys with
        | nil => simp
        | cons z zs => simpa using this
  | @paint code text C T hc hne htx hCT ih =>
    have hiff := hCT.nil_iff
    by_cases hC : C = []
    · have hT := hiff.mp hC
      subst hC; subst hT
      have h1 : (Grexv.paint true code text ++ []).getLast? = some 109 := by
        rw [List.append_nil, paint_eq, ← List.append_assoc]
        exact getLast?_append_ne_cv _ [27, 91, 48, 109] (by simp)
      have h2 : (text ++ ([] : Str)).getLast? ≠ some 13 := by
        rw [List.append_nil]
        intro e
        have hm := List.mem_of_getLast? e
        exact (htx 13 hm).2.1 rfl
      rw [h1]
      exact ⟨⟨fun e => by simp at e, fun e => absurd e h2⟩, fun e => by simp at e⟩
    · have hT : T ≠ [] := fun e => hC (hiff.mpr e)
      rw [getLast?_append_ne_cv _ C hC, getLast?_append_ne_cv _ T hT, dropLast_append_ne_cv _ C hC, dropLast_append_ne_cv _ T hT]
      exact ⟨ih.1, fun h13 => Col.paint code text hc hne htx (ih.2 h13)⟩

/-- one line as `str::lines` returns it -/
def finLine (line : Str) : Str := if line.getLast? = some 13 then line.dropLast else line

theorem Col.finLine {C T : Str} (h : Col C T) : Col (finLine C) (finLine T) := by
  unfold Grexv.finLine
  obtain ⟨h1, h2⟩ := h.last13
  by_cases hc : C.getLast? = some 13
  · rw [if_pos hc, if_pos (h1.mp hc)]; exact h2 hc
  · rw [if_neg hc, if_neg (fun e => hc (h1.mpr e))]; exact h

theorem splitLines_line (l rest : Str) (h : 10 ∉ l) : splitLines (l ++ 10 :: rest) = finLine l :: splitLines rest :=
  splitLines_go_line [] l rest h

theorem splitLines_noLF (l : Str) (h : 10 ∉ l) : splitLines l = if l.isEmpty then [] else [l] :=
  splitLines_go_noLF [] l h

/-- line by line: related, and empty together -/
inductive LinesRel : List Str → List Str → Prop
  | nil : LinesRel [] []
  | cons {a b : Str} {as bs : List Str} : Col a b → LinesRel as bs → LinesRel (a :: as) (b :: bs)

theorem Col.lines : ∀ (n : Nat) {C T : Str}, C.length ≤ n → Col C T → LinesRel (splitLines C) (splitLines T) := by
  intro n
  induction n with
  | zero =>
    intro C T hn h
    have hC : C = [] := List.eq_nil_of_length_eq_zero (by omega)
    have hT := h.nil_iff.mp hC
    subst hC; subst hT
    simp [splitLines, splitLines.go]
    exact LinesRel.nil
  | succ n ih =>
    intro C T hn h
    rcases h.split10 with ⟨h1, h2⟩ | ⟨c1, c2, t1, t2, rfl, rfl, h1, h2, h3, h4⟩
    · rw [splitLines_noLF C h1, splitLines_noLF T h2]
      by_cases hC : C = []
      · have hT := h.nil_iff.mp hC
        subst hC; subst hT
        exact LinesRel.nil
      · have hT : T ≠ [] := fun e => hC (h.nil_iff.mpr e)
        rw [if_neg (by simpa using hC), if_neg (by simpa using hT)]
        exact LinesRel.cons h LinesRel.nil
    · rw [splitLines_line c1 c2 h1, splitLines_line t1 t2 h2]
      exact LinesRel.cons h3.finLine
        (ih (C := c2) (T := t2) (by simp only [List.length_append, List.length_cons] at hn; omega) h4)

theorem mem_splitLines : ∀ (n : Nat) (s : Str), s.length ≤ n → ∀ l ∈ splitLines s, ∀ x ∈ l, x ∈ s := by
  intro n
  induction n with
  | zero =>
    intro s hn l hl
    have hs : s = [] := List.eq_nil_of_length_eq_zero (by omega)
    subst hs
    simp [splitLines, splitLines.go] at hl
  | succ n ih =>
    intro s hn l hl x hx
    by_cases h10 : 10 ∈ s
    · obtain ⟨a, b, rfl, ha⟩ : ∃ a b, s = a ++ 10 :: b ∧ 10 ∉ a := by
        have : ∀ (s : Str), 10 ∈ s → ∃ a b, s = a ++ 10 :: b ∧ 10 ∉ a := by
          intro s
          induction s with
          | nil => intro h; simp at h
          | cons c r ihr =>
            intro h
            by_cases hc : c = 10
            · exact ⟨[], r, by simp [hc], by simp⟩
            · have hr : 10 ∈ r := by simpa [Ne.symm hc] using h
              obtain ⟨a, b, e, ha⟩ := ihr hr
              exact ⟨c :: a, b, by simp [e], by simp [ha, Ne.symm hc]⟩
        exact this _ h10
      rw [splitLines_line a b ha] at hl
      simp only [List.mem_cons] at hl
      rcases hl with rfl | hl
      · have : x ∈ a := by
          unfold finLine at hx
          by_cases h13 : a.getLast? = some 13
          · rw [if_pos h13] at hx; exact List.dropLast_subset _ hx
          · rw [if_neg h13] at hx; exact hx
        simp [this]
      · have := ih b (by simp only [List.length_append, List.length_cons] at hn; omega) l hl x hx
        simp [this]
    · rw [splitLines_noLF s h10] at hl
      by_cases he : s.isEmpty = true
      · rw [if_pos he] at hl; simp at hl
      · rw [if_neg he] at hl; simp only [List.mem_singleton] at hl; subst hl; exact hx

/-! ### `indent_regexp` -/

theorem mem_join_head (sep x : Str) (xs : List Str) : ∀ c ∈ x, c ∈ joinWith sep (x :: xs) := by
  intro c hc
  cases xs with
  | nil => simpa [joinWith] using hc
  | cons y ys => simp [joinWith, hc]

theorem mem_join_tail (sep x : Str) (xs : List Str) : ∀ c ∈ joinWith sep xs, c ∈ joinWith sep (x :: xs) := by
  intro c hc
  cases xs with
  | nil => simp [joinWith] at hc
  | cons y ys => simp only [joinWith, List.mem_append]; exact Or.inr hc

theorem indentLines_cons (cfg : Config) (line : Str) (rest : List Str) (i level0 : Nat) :
    indentLines cfg (line :: rest) i level0 =
      (let level1 := if i == 1 && cfg.noStart then level0 + 1 else level0
       if line.isEmpty then indentLines cfg rest (i + 1) level1
       else
         let plain := stripColor (line.length + 1) line
         let level2 := if level1 > 0 && (plain = [36] || plain.head? = some 41) then level1 - 1 else level1
         let out := (List.replicate (2 * level2) 32) ++ line
         let level3 := if plain = [94] || (i > 0 && plain.head? = some 40) then level2 + 1 else level2
         out :: indentLines cfg rest (i + 1) level3) := by
  rw [indentLines]

/-- no `ESC` is directly followed by `[` -/
def NoEB : Str → Prop
  | [] => True
  | [_] => True
  | a :: b :: r => ¬ (a = 27 ∧ b = 91) ∧ NoEB (b :: r)

theorem NoEB.col : ∀ (t : Str), NoEB t → Col t t
  | [], _ => Col.nil
  | [c], _ => Col.chr c Col.nil (by simp)
  | a :: b :: r, h => by
    refine Col.chr a (NoEB.col (b :: r) h.2) ?_
    intro ha
    simp only [List.head?_cons, ne_eq, Option.some.injEq]
    intro hb
    exact h.1 ⟨ha, hb⟩

theorem NoEB.tail : ∀ (a : Str) {l : Str}, NoEB (a ++ l) → NoEB l
  | [], l, h => h
  | [c], l, h => by
    cases l with
    | nil => trivial
    | cons x xs => exact h.2
  | c :: d :: r, l, h => NoEB.tail (d :: r) (l := l) h.2

theorem NoEB.init : ∀ (l : Str) {b : Str}, NoEB (l ++ b) → NoEB l
  | [], _, _ => trivial
  | [c], _, _ => trivial
  | c :: d :: r, b, h => ⟨h.1, NoEB.init (d :: r) (b := b) h.2⟩

theorem NoEB.infix (a l b : Str) (h : NoEB (a ++ l ++ b)) : NoEB l := by
  rw [List.append_assoc] at h
  exact NoEB.init l (NoEB.tail a h)

theorem join_cons_infix (sep x : Str) (xs : List Str) : ∃ b, joinWith sep (x :: xs) = x ++ b := by
  cases xs with
  | nil => exact ⟨[], by simp [joinWith]⟩
  | cons y ys => exact ⟨sep ++ joinWith sep (y :: ys), by simp [joinWith]⟩

theorem join_tail_infix (sep x : Str) (xs : List Str) (hne : xs ≠ []) : ∃ a, joinWith sep (x :: xs) = a ++ joinWith sep xs := by
  cases xs with
  | nil => exact absurd rfl hne
  | cons y ys => exact ⟨x ++ sep, by simp [joinWith]⟩

theorem indentLines_step (cfg : Config) (line : Str) (rest : List Str) (i lvl : Nat) :
    (line = [] → ∃ lv, indentLines cfg (line :: rest) i lvl = indentLines cfg rest (i + 1) lv) ∧
    (line ≠ [] → ∃ k lv, indentLines cfg (line :: rest) i lvl = (List.replicate k 32 ++ line) :: indentLines cfg rest (i + 1) lv) := by
  rw [indentLines_cons]
  constructor
  · intro he
    subst he
    simp only [List.isEmpty_nil, if_true]
    exact ⟨_, rfl⟩
  · intro hne
    have he : line.isEmpty = false := by simpa using hne
    simp only [he, Bool.false_eq_true, if_false]
    exact ⟨_, _, rfl⟩

/-- every non-empty line is a contiguous part of the indented text -/
theorem infix_indent (cfg : Config) : ∀ (ls : List Str) (i lvl : Nat), ∀ l ∈ ls, l ≠ [] →
    ∃ a b, joinWith [10] (indentLines cfg ls i lvl) = a ++ l ++ b := by
  intro ls
  induction ls with
  | nil => intro i lvl l hl; simp at hl
  | cons line rest ih =>
    intro i lvl l hl hne
    obtain ⟨h1, h2⟩ := indentLines_step cfg line rest i lvl
    by_cases he : line = []
    · obtain ⟨lv, e⟩ := h1 he
      rw [e]
      simp only [List.mem_cons] at hl
      rcases hl with rfl | hl
      · exact absurd he hne
      · exact ih _ _ l hl hne
    · obtain ⟨k, lv, e⟩ := h2 he
      rw [e]
      simp only [List.mem_cons] at hl
      rcases hl with rfl | hl
      · obtain ⟨b, hb⟩ := join_cons_infix [10] (List.replicate k 32 ++ l) (indentLines cfg rest (i + 1) lv)
        exact ⟨List.replicate k 32, b, by rw [hb]⟩
      · obtain ⟨a, b, hab⟩ := ih (i + 1) lv l hl hne
        have hrest : indentLines cfg rest (i + 1) lv ≠ [] := by
          intro e'; rw [e'] at hab; simp [joinWith] at hab; exact hne hab.2.1
        obtain ⟨a', ha'⟩ := join_tail_infix [10] (List.replicate k 32 ++ line) _ hrest
        exact ⟨a' ++ a, b, by rw [ha', hab]; simp⟩

theorem indent_rel (c1 c2 : Config) (hns : c1.noStart = c2.noStart) {lsC lsT : List Str} (h : LinesRel lsC lsT)
    (hself : ∀ l ∈ lsT, l ≠ [] → Col l l) : ∀ (i lvl : Nat), LinesRel (indentLines c1 lsC i lvl) (indentLines c2 lsT i lvl) := by
  induction h with
  | nil => intro i lvl; simp only [indentLines]; exact LinesRel.nil
  | @cons a b as bs hab _ ih =>
    intro i lvl
    have ih := ih (fun l hl => hself l (List.mem_cons_of_mem _ hl))
    rw [indentLines_cons, indentLines_cons, hns]
    simp only []
    by_cases he : a = []
    · have hb := hab.nil_iff.mp he
      subst he; subst hb
      simp only [List.isEmpty_nil, if_true]
      exact ih _ _
    · have hb : b ≠ [] := fun e => he (hab.nil_iff.mpr e)
      have hea : a.isEmpty = false := by simpa using he
      have heb : b.isEmpty = false := by simpa using hb
      rw [hea, heb]
      simp only [Bool.false_eq_true, if_false]
      have hbb := hself b List.mem_cons_self hb
      have e1 : stripColor (a.length + 1) a = b := hab.strip _ (by omega)
      have e2 : stripColor (b.length + 1) b = b := hbb.strip _ (by omega)
      rw [e1, e2]
      refine LinesRel.cons ?_ (ih _ _)
      exact Col.prepend_no27 _ (by intro hm; have := List.eq_of_mem_replicate hm; omega) hab

theorem join_rel {l1 l2 : List Str} (h : LinesRel l1 l2) : Col (joinWith [10] l1) (joinWith [10] l2) := by
  induction h with
  | nil => exact Col.nil
  | @cons a b as bs hab hrest ih =>
    cases hrest with
    | nil => simpa [joinWith] using hab
    | @cons a2 b2 as2 bs2 h2 h3 =>
      simp only [joinWith, List.append_assoc]
      refine Col.append hab ?_ (by simp)
      exact Col.chr 10 ih (by omega)

/-! ### the whole verbose text -/

def verboseEsc (c : Nat) : Str := if Gen.verboseSpaces.contains c then [92, 117, 123] ++ toHex c ++ [125] else [c]

theorem verboseSpaces_ok : Gen.verboseSpaces.all (fun x =>
    okText ([92, 117, 123] ++ toHex x ++ [125]) && decide (x ≠ 10) && decide (x ≠ 13) && decide (128 ≤ x)) = true := by decide +kernel

theorem rewr_verboseEsc : Rewr verboseEsc := by
  have hall := verboseSpaces_ok
  simp only [List.all_eq_true, Bool.and_eq_true, decide_eq_true_eq] at hall
  have hnot : ∀ x, x < 128 → Gen.verboseSpaces.contains x = false := by
    intro x hx
    cases hcx : Gen.verboseSpaces.contains x with
    | false => rfl
    | true =>
      have := hall x (by simpa [List.contains_iff_mem] using hcx)
      omega
  refine ⟨?_, ?_, ?_, ?_, ?_, ?_⟩
  · intro x hx
    have : x < 128 := by rcases hx with h | h | h | h | h <;> omega
    simp only [verboseEsc, hnot x this, Bool.false_eq_true, if_false]
  · intro x
    unfold verboseEsc
    split <;> simp
  · intro x h10 h13 h27 y hy
    unfold verboseEsc at hy
    split at hy
    · rename_i hc
      have := hall x (by simpa [List.contains_iff_mem] using hc)
      exact (okText_sound _ this.1.1.1).2 y hy
    · simp only [List.mem_singleton] at hy; subst hy; exact ⟨h10, h13, h27⟩
  · intro x hx
    unfold verboseEsc
    split
    · simp
    · simpa using hx
  · simp only [verboseEsc, hnot 10 (by omega), Bool.false_eq_true, if_false]
  · simp only [verboseEsc, hnot 13 (by omega), Bool.false_eq_true, if_false]

/-- **C15 in verbose mode, whole pattern** for every expression and every combination of the other settings: if in the verbose text
without highlighting no `ESC` character is directly followed by `[` (U+001B is not escaped by the printer and `[` is raw only where it
opens a character class: a test case with an `ESC` right in front of what becomes a class is outside this theorem), removing the SGR sequences from the highlighted verbose text with the stripping regex of the code gives exactly the verbose
text without highlighting — line breaks, indentation and all -/
theorem strip_colored_verbose (cfg : Config) (hv : cfg.verb = true) (e : Expr)
    (h27 : NoEB (fmtRegExp (withColor cfg false) e)) (fuel : Nat)
    (hf : (fmtRegExp (withColor cfg true) e).length ≤ fuel) :
    stripColor fuel (fmtRegExp (withColor cfg true) e) = fmtRegExp (withColor cfg false) e := by
  have nl : CP [10] [10] := CP.plain [10] (by decide) (fun rest _ => by simp)
  have hflag : CP (if ((withColor cfg true).ci && (withColor cfg true).verb) = true then Comp.flagIX (withColor cfg true).color
      else if (withColor cfg true).ci = true then Comp.flagI (withColor cfg true).color
      else if (withColor cfg true).verb = true then Comp.flagX (withColor cfg true).color else [])
      (if ((withColor cfg false).ci && (withColor cfg false).verb) = true then Comp.flagIX (withColor cfg false).color
      else if (withColor cfg false).ci = true then Comp.flagI (withColor cfg false).color
      else if (withColor cfg false).verb = true then Comp.flagX (withColor cfg false).color else []) := by
    simp only [withColor, hv, Bool.and_true, ite_true]
    split
    · exact CP.append (CP.painted _ _ Comp.mem_codes.2.2.2.2.2.2.2 (by decide)) nl
    · exact CP.append (CP.painted _ _ Comp.mem_codes.2.2.2.2.2.2.2 (by decide)) nl
  have hcaret : CP (if (withColor cfg true).noStart = true then [] else Comp.caret (withColor cfg true).color (withColor cfg true).verb)
      (if (withColor cfg false).noStart = true then [] else Comp.caret (withColor cfg false).color (withColor cfg false).verb) := by
    simp only [withColor, hv]
    split
    · exact CP.nil
    · exact CP.append (CP.painted _ _ Comp.mem_codes.2.1 (by decide)) nl
  have hdollar : CP (if (withColor cfg true).noEnd = true then [] else Comp.dollar (withColor cfg true).color (withColor cfg true).verb)
      (if (withColor cfg false).noEnd = true then [] else Comp.dollar (withColor cfg false).color (withColor cfg false).verb) := by
    simp only [withColor, hv]
    split
    · exact CP.nil
    · exact CP.append nl (CP.painted _ _ Comp.mem_codes.2.1 (by decide))
  have hr0 := (CP.append (CP.append (CP.append hflag hcaret) (cp_bodyText cfg e)) hdollar).col
  have hr1 := Col.replace 12 Gen.strFormFeed (by decide) (by decide) (by decide)
    (Col.replace 11 Gen.strVerticalTab (by decide) (by decide) (by decide) hr0)
  have hr2 := Col.replace 35 Gen.strHash (by decide) (by decide) (by decide) hr1
  have hr3 := Col.rewr verboseEsc rewr_verboseEsc hr2
  have hr4 := Col.replace 32 Gen.strBlank (by decide) (by decide) (by decide) hr3
  have hvT : (withColor cfg true).verb = true := hv
  have hvF : (withColor cfg false).verb = true := hv
  unfold fmtRegExp at h27 hf ⊢
  simp only [hvT, hvF, ite_true] at hr4 h27 hf ⊢
  unfold indentRegexp at h27 hf ⊢
  unfold verboseEsc at hr4
  generalize hT : replaceChar 32 Gen.strBlank _ = r4T at hr4 hf ⊢
  generalize hF : replaceChar 32 Gen.strBlank _ = r4F at hr4 h27 ⊢
  have hlines := hr4.lines r4T.length (Nat.le_refl _)
  have hno : ∀ l ∈ splitLines r4F, l ≠ [] → Col l l := by
    intro l hl hne
    obtain ⟨a, b, hab⟩ := infix_indent (withColor cfg false) _ 0 0 l hl hne
    rw [hab] at h27
    exact NoEB.col l (NoEB.infix a l b h27)
  exact (join_rel (indent_rel (withColor cfg true) (withColor cfg false) rfl hlines hno 0 0)).strip fuel hf

end Grexv
