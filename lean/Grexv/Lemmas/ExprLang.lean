import Grexv.Model.Expr
import Grexv.Lemmas.Sort

/-
Symbol-level semantics of `Expression` (a word is a sequence of graphemes = edge labels) and the
proof that the algebraic simplifications of src/expression.rs — `new_alternation`, `concatenate`,
`union` with its prefix/suffix factoring, `?` cases and character-class merging — preserve it.
-/
set_option linter.unusedSimpArgs false
namespace Grexv

abbrev Word := List Grapheme

mutual
def Expr.lang : Expr → Word → Prop
  | .alt os, w => Expr.langAny os w
  | .cls cs, w => ∃ c, c ∈ cs ∧ w = [Grapheme.ofStr [c]]
  | .cat a b, w => ∃ u v, w = u ++ v ∧ Expr.lang a u ∧ Expr.lang b v
  | .lit c, w => w = c
  | .rep e .question, w => w = [] ∨ Expr.lang e w
  | .rep e .star, w => ∃ ws : List Word, w = ws.flatten ∧ ∀ x ∈ ws, Expr.lang e x
def Expr.langAny : List Expr → Word → Prop
  | [], _ => False
  | o :: os, w => Expr.lang o w ∨ Expr.langAny os w
end

/-- language of an optional expression: `None` denotes the empty language -/
def olang : Option Expr → Word → Prop
  | none, _ => False
  | some e, w => e.lang w

namespace Expr

theorem langAny_iff (os : List Expr) (w : Word) : langAny os w ↔ ∃ o ∈ os, lang o w := by
  induction os with
  | nil => simp [langAny]
  | cons o os ih => simp [langAny, ih]

theorem langAny_append (a b : List Expr) (w : Word) : langAny (a ++ b) w ↔ langAny a w ∨ langAny b w := by
  simp only [langAny_iff, List.mem_append]
  constructor
  · rintro ⟨o, ho | ho, h⟩
    · exact Or.inl ⟨o, ho, h⟩
    · exact Or.inr ⟨o, ho, h⟩
  · rintro (⟨o, ho, h⟩ | ⟨o, ho, h⟩)
    · exact ⟨o, Or.inl ho, h⟩
    · exact ⟨o, Or.inr ho, h⟩

theorem langAny_perm {a b : List Expr} (h : ∀ o, o ∈ a ↔ o ∈ b) (w : Word) : langAny a w ↔ langAny b w := by
  simp only [langAny_iff]
  constructor
  · rintro ⟨o, ho, hl⟩; exact ⟨o, (h o).mp ho, hl⟩
  · rintro ⟨o, ho, hl⟩; exact ⟨o, (h o).mpr ho, hl⟩

mutual
theorem flatten_lang : ∀ (e : Expr) (w : Word), langAny (flatten e) w ↔ lang e w
  | .alt os, w => by
    simp only [flatten, lang]
    exact flattenL_lang os w
  | .cls cs, w => by simp [flatten, langAny]
  | .cat a b, w => by simp [flatten, langAny]
  | .lit c, w => by simp [flatten, langAny]
  | .rep e q, w => by simp [flatten, langAny]
theorem flattenL_lang : ∀ (os : List Expr) (w : Word), langAny (flattenL os) w ↔ langAny os w
  | [], w => by simp [flattenL]
  | o :: os, w => by
    simp only [flattenL, langAny_append, langAny]
    rw [flatten_lang o w, flattenL_lang os w]
end

/-- `new_alternation` denotes the union of its arguments -/
theorem newAlternation_lang (es : List Expr) (w : Word) : lang (newAlternation es) w ↔ langAny es w := by
  simp only [newAlternation, lang]
  rw [langAny_perm (fun o => mem_sortBy _ o _) w]
  exact flattenL_lang es w

theorem isEmpty_lang (e : Expr) (h : e.isEmpty = true) (w : Word) : lang e w ↔ w = [] := by
  cases e with
  | lit c =>
    simp only [isEmpty, List.isEmpty_iff] at h
    subst h
    simp [lang]
  | _ => simp [isEmpty] at h

theorem concatCore_lang (e1 e2 : Expr) (w : Word) :
    lang (concatCore e1 e2) w ↔ ∃ u v, w = u ++ v ∧ lang e1 u ∧ lang e2 v := by
  unfold concatCore
  split
  · simp only [lang]
    constructor
    · intro h; exact ⟨_, _, h, rfl, rfl⟩
    · rintro ⟨u, v, rfl, rfl, rfl⟩; rfl
  · simp only [lang]
    constructor
    · rintro ⟨u, v, rfl, rfl, hv⟩
      exact ⟨_, _, by simp [List.append_assoc], rfl, ⟨_, v, rfl, rfl, hv⟩⟩
    · rintro ⟨u, v, rfl, rfl, ⟨x, y, rfl, rfl, hy⟩⟩
      exact ⟨_, y, by simp [List.append_assoc], rfl, hy⟩
  · simp only [lang]
    constructor
    · rintro ⟨u, v, rfl, hu, rfl⟩
      exact ⟨_, _, by simp [List.append_assoc], ⟨u, _, rfl, hu, rfl⟩, rfl⟩
    · rintro ⟨u, v, rfl, ⟨x, y, rfl, hx, rfl⟩, rfl⟩
      exact ⟨x, _, by simp [List.append_assoc], hx, rfl⟩
  · simp only [lang]

/-- `concatenate` denotes the concatenation (and the empty language if either side is `None`) -/
theorem concatenate_lang (a b : Option Expr) (w : Word) :
    olang (concatenate a b) w ↔ ∃ u v, w = u ++ v ∧ olang a u ∧ olang b v := by
  cases a with
  | none => simp [concatenate, olang]
  | some e1 =>
    cases b with
    | none => simp [concatenate, olang]
    | some e2 =>
      simp only [concatenate, olang]
      by_cases h1 : e1.isEmpty = true
      · simp only [h1, ite_true, olang]
        constructor
        · intro h; exact ⟨[], w, rfl, (isEmpty_lang e1 h1 []).mpr rfl, h⟩
        · rintro ⟨u, v, rfl, hu, hv⟩
          rw [(isEmpty_lang e1 h1 u).mp hu]; simpa using hv
      · simp only [h1, Bool.false_eq_true, ite_false]
        by_cases h2 : e2.isEmpty = true
        · simp only [h2, ite_true, olang]
          constructor
          · intro h; exact ⟨w, [], by simp, h, (isEmpty_lang e2 h2 []).mpr rfl⟩
          · rintro ⟨u, v, rfl, hu, hv⟩
            rw [(isEmpty_lang e2 h2 v).mp hv]; simpa using hu
        · simp only [h2, Bool.false_eq_true, ite_false, olang]
          exact concatCore_lang e1 e2 w

/-! ### prefix / suffix factoring -/

theorem commonPrefix_left (a b : Cluster) : ∃ r, a = commonPrefix a b ++ r := by
  induction a generalizing b with
  | nil => exact ⟨[], by simp [commonPrefix]⟩
  | cons x xs ih =>
    cases b with
    | nil => exact ⟨x :: xs, by simp [commonPrefix]⟩
    | cons y ys =>
      unfold commonPrefix
      split
      · obtain ⟨r, hr⟩ := ih ys
        exact ⟨r, by simp [← hr]⟩
      · exact ⟨x :: xs, by simp⟩

theorem commonPrefix_right (a b : Cluster) : ∃ r, b = commonPrefix a b ++ r := by
  induction a generalizing b with
  | nil => exact ⟨b, by simp [commonPrefix]⟩
  | cons x xs ih =>
    cases b with
    | nil => exact ⟨[], by simp [commonPrefix]⟩
    | cons y ys =>
      unfold commonPrefix
      split
      · rename_i h
        obtain ⟨r, hr⟩ := ih ys
        exact ⟨r, by rw [h]; simp [← hr]⟩
      · exact ⟨y :: ys, by simp⟩

/-- removing a prefix `p` of the literal head: the language is `p` followed by the remainder's -/
theorem removePrefix_lang (e : Expr) (c p r : Cluster) (hs : sideValue .pre e = some c) (hc : c = p ++ r) (w : Word) :
    lang e w ↔ ∃ w', w = p ++ w' ∧ lang (removeSubstring .pre p.length e) w' := by
  cases e with
  | lit c' =>
    simp only [sideValue, Option.some.injEq] at hs
    subst hs; subst hc
    simp only [lang, removeSubstring, dropSide, List.drop_left]
    constructor
    · intro h; exact ⟨r, h, rfl⟩
    · rintro ⟨w', rfl, rfl⟩; rfl
  | cat a b =>
    cases a with
    | lit c' =>
      simp only [sideValue, Option.some.injEq] at hs
      subst hs; subst hc
      simp only [lang, removeSubstring, dropSide, List.drop_left]
      constructor
      · rintro ⟨u, v, rfl, rfl, hv⟩
        exact ⟨r ++ v, by simp [List.append_assoc], r, v, rfl, rfl, hv⟩
      · rintro ⟨w', rfl, u, v, rfl, rfl, hv⟩
        exact ⟨p ++ u, v, by simp [List.append_assoc], rfl, hv⟩
    | alt _ => simp [sideValue] at hs
    | cls _ => simp [sideValue] at hs
    | cat _ _ => simp [sideValue] at hs
    | rep _ _ => simp [sideValue] at hs
  | alt _ => simp [sideValue] at hs
  | cls _ => simp [sideValue] at hs
  | rep _ _ => simp [sideValue] at hs

theorem removeSuffix_lang (e : Expr) (c r s : Cluster) (hs : sideValue .suf e = some c) (hc : c = r ++ s) (w : Word) :
    lang e w ↔ ∃ w', w = w' ++ s ∧ lang (removeSubstring .suf s.length e) w' := by
  have hdrop : (r ++ s).take ((r ++ s).length - s.length) = r := by simp
  cases e with
  | lit c' =>
    simp only [sideValue, Option.some.injEq] at hs
    subst hs; subst hc
    simp only [lang, removeSubstring, dropSide, hdrop]
    constructor
    · intro h; exact ⟨r, h, rfl⟩
    · rintro ⟨w', rfl, rfl⟩; rfl
  | cat a b =>
    cases b with
    | lit c' =>
      simp only [sideValue, Option.some.injEq] at hs
      subst hs; subst hc
      simp only [lang, removeSubstring, dropSide, hdrop]
      constructor
      · rintro ⟨u, v, rfl, hu, rfl⟩
        exact ⟨u ++ r, by simp [List.append_assoc], u, r, rfl, hu, rfl⟩
      · rintro ⟨w', rfl, u, v, rfl, hu, rfl⟩
        exact ⟨u, v ++ s, by simp [List.append_assoc], hu, rfl⟩
    | alt _ => simp [sideValue] at hs
    | cls _ => simp [sideValue] at hs
    | cat _ _ => simp [sideValue] at hs
    | rep _ _ => simp [sideValue] at hs
  | alt _ => simp [sideValue] at hs
  | cls _ => simp [sideValue] at hs
  | rep _ _ => simp [sideValue] at hs

/-- `remove_common_substring` for the prefix: both languages factor through the returned prefix -/
theorem removeCommon_pre (a b : Expr) (w : Word) :
    let r := removeCommon .pre a b
    (lang a w ↔ ∃ w', w = (r.2.2.getD []) ++ w' ∧ lang r.1 w') ∧
    (lang b w ↔ ∃ w', w = (r.2.2.getD []) ++ w' ∧ lang r.2.1 w') := by
  simp only [removeCommon]
  cases hf : findCommon .pre a b with
  | none => simp
  | some v =>
    simp only [Option.getD]
    unfold findCommon at hf
    simp only [] at hf
    split at hf
    · simp at hf
    · simp only [Option.some.injEq] at hf
      cases ha : sideValue .pre a with
      | none => simp [ha, commonPrefix] at hf; rename_i h; simp [ha, commonPrefix] at h
      | some ca =>
        cases hb : sideValue .pre b with
        | none =>
          rename_i h
          simp only [ha, hb, Option.getD] at h
          have : commonPrefix ca [] = [] := by cases ca <;> simp [commonPrefix]
          simp [this] at h
        | some cb =>
          simp only [ha, hb, Option.getD] at hf
          obtain ⟨ra, hra⟩ := commonPrefix_left ca cb
          obtain ⟨rb, hrb⟩ := commonPrefix_right ca cb
          rw [hf] at hra hrb
          exact ⟨removePrefix_lang a ca v ra ha hra w, removePrefix_lang b cb v rb hb hrb w⟩

theorem reverse_commonPrefix_suffix (a b : Cluster) :
    (∃ r, a = r ++ (commonPrefix a.reverse b.reverse).reverse) ∧ (∃ r, b = r ++ (commonPrefix a.reverse b.reverse).reverse) := by
  obtain ⟨ra, hra⟩ := commonPrefix_left a.reverse b.reverse
  obtain ⟨rb, hrb⟩ := commonPrefix_right a.reverse b.reverse
  refine ⟨⟨ra.reverse, ?_⟩, ⟨rb.reverse, ?_⟩⟩
  · have := congrArg List.reverse hra
    simpa using this
  · have := congrArg List.reverse hrb
    simpa using this

theorem removeCommon_suf (a b : Expr) (w : Word) :
    let r := removeCommon .suf a b
    (lang a w ↔ ∃ w', w = w' ++ (r.2.2.getD []) ∧ lang r.1 w') ∧
    (lang b w ↔ ∃ w', w = w' ++ (r.2.2.getD []) ∧ lang r.2.1 w') := by
  simp only [removeCommon]
  cases hf : findCommon .suf a b with
  | none => simp
  | some v =>
    simp only [Option.getD]
    unfold findCommon at hf
    simp only [] at hf
    split at hf
    · simp at hf
    · simp only [Option.some.injEq] at hf
      cases ha : sideValue .suf a with
      | none => rename_i h; simp [ha, commonPrefix] at h
      | some ca =>
        cases hb : sideValue .suf b with
        | none =>
          rename_i h
          simp only [ha, hb, Option.getD] at h
          have : commonPrefix ca.reverse ([] : Cluster) = [] := by
            cases hcr : ca.reverse <;> simp [commonPrefix]
          simp [this] at h
        | some cb =>
          simp only [ha, hb, Option.getD] at hf
          obtain ⟨⟨ra, hra⟩, ⟨rb, hrb⟩⟩ := reverse_commonPrefix_suffix ca cb
          rw [hf] at hra hrb
          exact ⟨removeSuffix_lang a ca ra v ha hra w, removeSuffix_lang b cb rb v hb hrb w⟩

/-! ### single code points and character classes -/

/-- a grapheme as S2–S4 produce them: non-empty characters, a positive count range, nested repetitions only in a unit of several
graphemes.  Without `-r` every grapheme is `Grapheme::from(s)` with `s ≠ ""` (`plainish_ofStr`) -/
def _root_.Grexv.Grapheme.Plainish (g : Grapheme) : Prop :=
  g.chars ≠ [] ∧ (∀ s ∈ g.chars, s ≠ []) ∧ 1 ≤ g.min ∧ g.min ≤ g.max ∧ (g.chars.length = 1 → g.reps = [])

theorem plainish_ofStr (s : Str) (hs : s ≠ []) : (Grapheme.ofStr s).Plainish := by
  refine ⟨by simp [Grapheme.ofStr, Grapheme.chars], ?_, Nat.le_refl _, Nat.le_refl _, fun _ => rfl⟩
  intro x hx
  simp only [Grapheme.ofStr, Grapheme.chars, List.mem_cons, List.mem_nil_iff, or_false] at hx
  subst hx; exact hs

/-- every grapheme of every literal is well-shaped -/
def PlainCluster (c : Cluster) : Prop := ∀ g ∈ c, g.Plainish

theorem escapeChar_ne_nil (c : Nat) (b : Bool) : escapeChar c b ≠ [] := by
  unfold escapeChar
  split
  · exact List.cons_ne_nil _ _
  · split
    · repeat (first | exact List.cons_ne_nil _ _ | apply List.append_ne_nil_of_left_ne_nil)
    · repeat (first | exact List.cons_ne_nil _ _ | apply List.append_ne_nil_of_left_ne_nil)

theorem escLen_ge (s : Str) : s.length ≤ (s.flatMap fun c => escapeChar c false).length := by
  induction s with
  | nil => simp
  | cons c cs ih =>
    simp only [List.flatMap_cons, List.length_append, List.length_cons]
    have : 0 < (escapeChar c false).length := List.length_pos_iff.mpr (escapeChar_ne_nil c false)
    omega

/-- the contribution of one string of a grapheme to `char_count` -/
def strCount (esc : Bool) (s : Str) : Nat := if esc then (s.flatMap fun c => escapeChar c false).length else s.length

theorem graphemeCharCount_eq (g : Grapheme) (esc : Bool) : graphemeCharCount g esc = (g.chars.map (strCount esc)).sum := by
  cases esc
  · simp only [graphemeCharCount, Bool.false_eq_true, ite_false]
    congr 1
  · simp only [graphemeCharCount, ite_true]
    congr 1

theorem strCount_pos (esc : Bool) (s : Str) (hs : s ≠ []) : 0 < strCount esc s := by
  have h1 : 0 < s.length := List.length_pos_iff.mpr hs
  cases esc
  · simpa [strCount] using h1
  · have := escLen_ge s
    simp only [strCount, ite_true]; omega

theorem strCount_one (esc : Bool) (s : Str) (h : strCount esc s = 1) (hs : s ≠ []) : ∃ ch, s = [ch] := by
  have hle : s.length ≤ 1 := by
    cases esc
    · simp [strCount] at h; omega
    · have := escLen_ge s
      simp only [strCount, ite_true] at h; omega
  cases s with
  | nil => exact absurd rfl hs
  | cons c cs =>
    cases cs with
    | nil => exact ⟨c, rfl⟩
    | cons d ds => simp at hle

theorem sum_pos_of_all_pos (l : List Nat) (h : ∀ x ∈ l, 0 < x) : l.length ≤ l.sum := by
  induction l with
  | nil => simp
  | cons a as ih =>
    have := h a List.mem_cons_self
    have := ih (fun x hx => h x (List.mem_cons_of_mem _ hx))
    simp only [List.length_cons, List.sum_cons]; omega

theorem graphemeCharCount_pos (g : Grapheme) (hg : g.Plainish) (esc : Bool) : 0 < graphemeCharCount g esc := by
  rw [graphemeCharCount_eq]
  have h1 := sum_pos_of_all_pos (g.chars.map (strCount esc)) (by
    intro x hx
    obtain ⟨s, hs, rfl⟩ := List.mem_map.mp hx
    exact strCount_pos esc s (hg.2.1 s hs))
  have h2 : 0 < g.chars.length := List.length_pos_iff.mpr hg.1
  simp only [List.length_map] at h1
  omega

theorem graphemeCharCount_one (g : Grapheme) (hg : g.Plainish) (esc : Bool) (h : graphemeCharCount g esc = 1) :
    ∃ ch, g.chars = [[ch]] := by
  rw [graphemeCharCount_eq] at h
  have hall : ∀ x ∈ g.chars.map (strCount esc), 0 < x := by
    intro x hx
    obtain ⟨s, hs, rfl⟩ := List.mem_map.mp hx
    exact strCount_pos esc s (hg.2.1 s hs)
  have h1 := sum_pos_of_all_pos _ hall
  simp only [List.length_map] at h1
  cases hc : g.chars with
  | nil => exact absurd hc hg.1
  | cons s rest =>
    cases rest with
    | nil =>
      rw [hc] at h
      simp only [List.map_cons, List.map_nil, List.sum_cons, List.sum_nil, Nat.add_zero] at h
      obtain ⟨ch, rfl⟩ := strCount_one esc s h (hg.2.1 s (by rw [hc]; exact List.mem_cons_self))
      exact ⟨ch, rfl⟩
    | cons s2 rest2 =>
      rw [hc] at h1 h
      simp only [List.length_cons] at h1
      omega

/-- a literal that `is_single_codepoint` accepts is one plain grapheme of one code point -/
theorem single_lit (cfg : Config) (c : Cluster) (hp : PlainCluster c) (h : isSingleCodepoint cfg (.lit c) = true) :
    ∃ ch, c = [Grapheme.ofStr [ch]] := by
  simp only [isSingleCodepoint, Bool.and_eq_true, beq_iff_eq] at h
  obtain ⟨hcount, hmax⟩ := h
  cases c with
  | nil => simp [clusterCharCount] at hcount
  | cons g gs =>
    have hpg := hp g (List.mem_cons_self)
    have hg := graphemeCharCount_pos g hpg cfg.esc
    cases gs with
    | nil =>
      simp only [clusterCharCount, List.map_cons, List.map_nil, List.sum_cons, List.sum_nil, Nat.add_zero] at hcount
      obtain ⟨ch, hch⟩ := graphemeCharCount_one g hpg cfg.esc hcount
      simp only [List.head?_cons, Option.map_some, Option.some.injEq] at hmax
      refine ⟨ch, ?_⟩
      cases g with
      | mk chars reps mn mx =>
        simp only [Grapheme.chars, Grapheme.max] at hch hmax
        obtain ⟨_, _, h3, h4, h5⟩ := hpg
        simp only [Grapheme.chars, Grapheme.min, Grapheme.max, Grapheme.reps] at h3 h4 h5
        have hr : reps = [] := h5 (by rw [hch]; rfl)
        have hmn : mn = 1 := by omega
        subst hch hmax hr hmn
        rfl
    | cons g2 gs2 =>
      exfalso
      have hg2 := graphemeCharCount_pos g2 (hp g2 (by simp)) cfg.esc
      simp only [clusterCharCount, List.map_cons, List.sum_cons] at hcount
      omega

theorem mem_insertChar (c x : Nat) (l : List Nat) : c ∈ insertChar x l ↔ c = x ∨ c ∈ l := by
  induction l with
  | nil => simp [insertChar]
  | cons y ys ih =>
    unfold insertChar
    split
    · simp
    · split
      · rename_i h; subst h; simp
      · simp [ih]; constructor
        · rintro (h | h | h) <;> simp [h]
        · rintro (h | h | h) <;> simp [h]

theorem mem_newCharacterClass (a b : List Nat) (c : Nat) :
    c ∈ (match newCharacterClass a b with | .cls cs => cs | _ => []) ↔ c ∈ a ∨ c ∈ b := by
  simp only [newCharacterClass]
  induction a generalizing b with
  | nil => simp
  | cons x xs ih =>
    simp only [List.foldl_cons]
    rw [ih (insertChar x b)]
    simp [mem_insertChar]
    constructor
    · rintro (h | h | h) <;> simp [h]
    · rintro ((h | h) | h) <;> simp [h]

/-- the language of a single-code-point expression is its character set -/
theorem single_lang (cfg : Config) (e : Expr) (hp : ∀ c, e = .lit c → PlainCluster c)
    (h : isSingleCodepoint cfg e = true) (w : Word) :
    lang e w ↔ ∃ c, c ∈ extractCharSet e ∧ w = [Grapheme.ofStr [c]] := by
  cases e with
  | cls cs => simp [lang, extractCharSet]
  | lit c =>
    obtain ⟨ch, rfl⟩ := single_lit cfg c (hp c rfl) h
    simp [lang, extractCharSet, Grapheme.ofStr, Grapheme.value, Grapheme.chars]
  | alt _ => simp [isSingleCodepoint] at h
  | cat _ _ => simp [isSingleCodepoint] at h
  | rep _ _ => simp [isSingleCodepoint] at h

/-! ### `union` -/

/-- literal operands are made of plain graphemes -/
def PlainTop (e : Expr) : Prop := ∀ c, e = .lit c → PlainCluster c

theorem question_lang (e : Expr) (w : Word) : lang (.rep e .question) w ↔ w = [] ∨ lang e w := by simp [lang]

theorem unionMid_lang (cfg : Config) (e1 e2 : Expr) (h1 : PlainTop e1) (h2 : PlainTop e2) (w : Word) :
    lang (unionMid cfg e1 e2) w ↔ lang e1 w ∨ lang e2 w := by
  unfold unionMid
  by_cases he1 : e1.isEmpty = true
  · simp only [he1, ite_true, question_lang, isEmpty_lang e1 he1]
  · simp only [he1, Bool.false_eq_true, ite_false]
    by_cases he2 : e2.isEmpty = true
    · simp only [he2, ite_true, question_lang, isEmpty_lang e2 he2]
      exact Or.comm
    · simp only [he2, Bool.false_eq_true, ite_false]
      split
      · -- e1 = rep e ?
        simp only [question_lang, newAlternation_lang, langAny]
        constructor
        · rintro (h | h | h | h)
          · exact Or.inl (Or.inl h)
          · exact Or.inl (Or.inr h)
          · exact Or.inr h
          · exact absurd h id
        · rintro ((h | h) | h)
          · exact Or.inl h
          · exact Or.inr (Or.inl h)
          · exact Or.inr (Or.inr (Or.inl h))
      · split
        · -- e2 = rep e ?
          simp only [question_lang, newAlternation_lang, langAny]
          constructor
          · rintro (h | h | h | h)
            · exact Or.inr (Or.inl h)
            · exact Or.inl h
            · exact Or.inr (Or.inr h)
            · exact absurd h id
          · rintro (h | h | h)
            · exact Or.inr (Or.inl h)
            · exact Or.inl h
            · exact Or.inr (Or.inr (Or.inl h))
        · by_cases hs : (e1.isSingleCodepoint cfg && e2.isSingleCodepoint cfg) = true
          · simp only [hs, ite_true]
            simp only [Bool.and_eq_true] at hs
            rw [single_lang cfg e1 h1 hs.1 w, single_lang cfg e2 h2 hs.2 w]
            have hm := mem_newCharacterClass (extractCharSet e1) (extractCharSet e2)
            cases hn : newCharacterClass (extractCharSet e1) (extractCharSet e2) with
            | cls cs =>
              simp only [hn] at hm
              simp only [lang]
              constructor
              · rintro ⟨c, hc, rfl⟩
                rcases (hm c).mp hc with h | h
                · exact Or.inl ⟨c, h, rfl⟩
                · exact Or.inr ⟨c, h, rfl⟩
              · rintro (⟨c, hc, rfl⟩ | ⟨c, hc, rfl⟩)
                · exact ⟨c, (hm c).mpr (Or.inl hc), rfl⟩
                · exact ⟨c, (hm c).mpr (Or.inr hc), rfl⟩
            | alt _ => simp [newCharacterClass] at hn
            | cat _ _ => simp [newCharacterClass] at hn
            | lit _ => simp [newCharacterClass] at hn
            | rep _ _ => simp [newCharacterClass] at hn
          · simp only [hs, Bool.false_eq_true, ite_false, newAlternation_lang, langAny, or_false]

theorem wrapPre_lang (pre : Option Cluster) (r : Expr) (w : Word) :
    lang (wrapPre pre r) w ↔ ∃ m, w = pre.getD [] ++ m ∧ lang r m := by
  cases pre with
  | none => simp [wrapPre]
  | some p =>
    simp only [wrapPre, lang, Option.getD]
    constructor
    · rintro ⟨u, v, rfl, rfl, hv⟩; exact ⟨v, rfl, hv⟩
    · rintro ⟨m, rfl, hm⟩; exact ⟨_, m, rfl, rfl, hm⟩

theorem wrapSuf_lang (suf : Option Cluster) (r : Expr) (w : Word) :
    lang (wrapSuf suf r) w ↔ ∃ m, w = m ++ suf.getD [] ∧ lang r m := by
  cases suf with
  | none => simp [wrapSuf]
  | some s =>
    simp only [wrapSuf, lang, Option.getD]
    constructor
    · rintro ⟨u, v, rfl, hu, rfl⟩; exact ⟨u, rfl, hu⟩
    · rintro ⟨m, rfl, hm⟩; exact ⟨m, _, rfl, hm, rfl⟩

theorem plainCluster_drop (c : Cluster) (h : PlainCluster c) (n : Nat) : PlainCluster (c.drop n) :=
  fun g hg => h g (List.mem_of_mem_drop hg)
theorem plainCluster_take (c : Cluster) (h : PlainCluster c) (n : Nat) : PlainCluster (c.take n) :=
  fun g hg => h g (List.mem_of_mem_take hg)

theorem plainTop_removeSubstring (s : Side) (n : Nat) (e : Expr) (h : PlainTop e) : PlainTop (removeSubstring s n e) := by
  intro c hc
  cases e with
  | lit c' =>
    simp only [removeSubstring, lit.injEq] at hc
    subst hc
    cases s
    · exact plainCluster_drop c' (h c' rfl) n
    · exact plainCluster_take c' (h c' rfl) _
  | cat a b =>
    cases s <;> simp only [removeSubstring] at hc <;> split at hc <;> simp at hc
  | alt _ => simp [removeSubstring] at hc
  | cls _ => simp [removeSubstring] at hc
  | rep _ _ => simp [removeSubstring] at hc

theorem plainTop_removeCommon (s : Side) (a b : Expr) (ha : PlainTop a) (hb : PlainTop b) :
    PlainTop (removeCommon s a b).1 ∧ PlainTop (removeCommon s a b).2.1 := by
  unfold removeCommon
  split
  · exact ⟨plainTop_removeSubstring _ _ _ ha, plainTop_removeSubstring _ _ _ hb⟩
  · exact ⟨ha, hb⟩

/-- **`union` of two different expressions denotes the union of their languages** -/
theorem unionCore_lang (cfg : Config) (a b : Expr) (ha : PlainTop a) (hb : PlainTop b) (w : Word) :
    lang (unionCore cfg a b) w ↔ lang a w ∨ lang b w := by
  unfold unionCore
  simp only []
  have hp1 := plainTop_removeCommon .pre a b ha hb
  have hp2 := plainTop_removeCommon .suf _ _ hp1.1 hp1.2
  rw [wrapSuf_lang]
  have pre := fun w => removeCommon_pre a b w
  have suf := fun w => removeCommon_suf (removeCommon .pre a b).1 (removeCommon .pre a b).2.1 w
  simp only [] at pre suf
  constructor
  · rintro ⟨m, rfl, hm⟩
    rw [wrapPre_lang] at hm
    obtain ⟨m2, rfl, hm2⟩ := hm
    rcases (unionMid_lang cfg _ _ hp2.1 hp2.2 m2).mp hm2 with h | h
    · left
      exact ((pre _).1).mpr ⟨m2 ++ _, by simp [List.append_assoc], ((suf _).1).mpr ⟨m2, rfl, h⟩⟩
    · right
      exact ((pre _).2).mpr ⟨m2 ++ _, by simp [List.append_assoc], ((suf _).2).mpr ⟨m2, rfl, h⟩⟩
  · rintro (h | h)
    · obtain ⟨w1, rfl, h1⟩ := ((pre w).1).mp h
      obtain ⟨w2, rfl, h2⟩ := ((suf w1).1).mp h1
      refine ⟨(removeCommon .pre a b).2.2.getD [] ++ w2, by simp [List.append_assoc], ?_⟩
      rw [wrapPre_lang]
      exact ⟨w2, rfl, (unionMid_lang cfg _ _ hp2.1 hp2.2 w2).mpr (Or.inl h2)⟩
    · obtain ⟨w1, rfl, h1⟩ := ((pre w).2).mp h
      obtain ⟨w2, rfl, h2⟩ := ((suf w1).2).mp h1
      refine ⟨(removeCommon .pre a b).2.2.getD [] ++ w2, by simp [List.append_assoc], ?_⟩
      rw [wrapPre_lang]
      exact ⟨w2, rfl, (unionMid_lang cfg _ _ hp2.1 hp2.2 w2).mpr (Or.inr h2)⟩

/-- **`union`** on optional expressions: `None` is the empty language -/
theorem union_lang (cfg : Config) (a b : Option Expr)
    (ha : ∀ e, a = some e → PlainTop e) (hb : ∀ e, b = some e → PlainTop e) (w : Word) :
    olang (union cfg a b) w ↔ olang a w ∨ olang b w := by
  cases a with
  | none => cases b <;> simp [union, olang]
  | some e1 =>
    cases b with
    | none => simp [union, olang]
    | some e2 =>
      simp only [union]
      by_cases h : e1 = e2
      · subst h; simp [olang]
      · simp only [h, ite_false, olang]
        exact unionCore_lang cfg e1 e2 (ha e1 rfl) (hb e2 rfl) w

end Expr
end Grexv
