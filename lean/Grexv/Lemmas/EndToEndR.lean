import Grexv.Lemmas.RepInv
import Grexv.Lemmas.ExactR
import Grexv.Lemmas.SafeR
import Grexv.Lemmas.EndToEnd

/-
End to end with repetition conversion (no class option, plain printing, both anchors): the text `Display for RegExp` writes is
accepted by the model of `Regex::new`, and the compiled pattern matches every non-empty test case in full.
-/
set_option linter.unusedSimpArgs false
set_option linter.unusedVariables false
namespace Grexv
open Spec Dfa

theorem lit_ofStr (as : List Atom) (hne : as ≠ []) (hok : AtomsOK as) (hchr : ∀ a ∈ as, ∃ c, a = Atom.chr c) :
    GOK (Grapheme.ofStr (untok as)) ∧ GSem (Grapheme.ofStr (untok as)) := by
  constructor
  · simp only [Grapheme.ofStr, GOK]
    refine ⟨⟨[as], ⟨by simp, ?_⟩, rfl⟩, Nat.le_refl _, Or.inl ⟨(by first | rfl | trivial), (by first | rfl | trivial), (by first | rfl | trivial), (by first | rfl | trivial)⟩⟩
    intro x hx; simp at hx; subst hx; exact ⟨hne, hok⟩
  · simp only [Grapheme.ofStr, GSem]
    refine ⟨?_, Nat.le_refl _, Or.inl (by first | rfl | trivial)⟩
    intro s hs a ha
    simp at hs; subst hs
    rw [tokens_untok as hok] at ha
    exact hchr a ha

/-- the widening merge keeps graphemes printable and consistent -/
theorem lit_widen (a g : Grapheme) (ha : GOK a ∧ GSem a) (hg : GOK g ∧ GSem g) (hc : a.chars = g.chars) (hm : a.max = g.max - 1) :
    GOK (Grapheme.mk g.chars [] (Nat.min a.min g.min) (Nat.max a.max g.max)) ∧
    GSem (Grapheme.mk g.chars [] (Nat.min a.min g.min) (Nat.max a.max g.max)) := by
  have hamin := GOK_min a ha.1
  have hgmin := GOK_min g hg.1
  obtain ⟨gc, gr, gmn, gmx⟩ := g
  obtain ⟨ac, ar, amn, amx⟩ := a
  simp only [Grapheme.chars, Grapheme.min, Grapheme.max] at hc hm hamin hgmin ⊢
  have hgsem := hg.2
  have hasem := ha.2
  simp only [GSem] at hgsem hasem
  have hgok := hg.1
  simp only [GOK] at hgok
  obtain ⟨⟨ass, hassok, hgc⟩, _, hgcase⟩ := hgok
  have hgb : gmx ≤ 1000 := by
    rcases hgcase with ⟨_, h, _, _⟩ | ⟨_, h, _⟩ <;> omega
  have hmn : Nat.min amn gmn ≤ amn := Nat.min_le_left _ _
  have hmx : Nat.max amx gmx = gmx := by
    apply Nat.max_eq_right; omega
  have h1 : 1 ≤ Nat.min amn gmn := Nat.le_min.mpr ⟨hamin, hgmin⟩
  have hlt : Nat.min amn gmn < Nat.max amx gmx := by
    rw [hmx]; have := hasem.2.1; have := hgsem.2.1; omega
  constructor
  · simp only [GOK]
    exact ⟨⟨ass, hassok, hgc⟩, h1, Or.inr ⟨Or.inl hlt, by rw [hmx]; exact hgb, Or.inl (by first | rfl | trivial)⟩⟩
  · simp only [GSem]
    exact ⟨hgsem.1, Nat.le_of_lt hlt, Or.inl (by first | rfl | trivial)⟩

theorem untok_chr (p : Str) : untok (p.map Atom.chr) = p := by
  induction p with
  | nil => rfl
  | cons c r ih => simp [untok, ih]

theorem piece_vals (p : Str) (h : PieceOK p) :
    ∃ as, as ≠ [] ∧ AtomsOK as ∧ (∀ a ∈ as, ∃ c, a = Atom.chr c) ∧ p = untok as := by
  obtain ⟨hne, hbs, hsc⟩ := h
  refine ⟨p.map Atom.chr, by simpa using hne, ?_, ?_, (untok_chr p).symm⟩
  · rcases hbs with rfl | hno
    · exact Or.inl rfl
    · right
      intro a ha
      obtain ⟨c, hc, rfl⟩ := List.mem_map.mp ha
      exact ⟨fun h92 => hno (h92 ▸ hc), hsc c hc⟩
  · intro a ha
    obtain ⟨c, _, rfl⟩ := List.mem_map.mp ha
    exact ⟨c, rfl⟩

/-- the cluster of a test case before repetition conversion (no class option): values spelled by plain code points -/
theorem cluster_vals (env : Env) (w : Str) (hseg : SegOK env w) :
    clusterOfPieces (env.segOf w) = (subPieces (env.segOf w)).map Grapheme.ofStr ∧ ValsOK (subPieces (env.segOf w)) := by
  refine ⟨clusterOfPieces_eq _, ?_⟩
  intro v hv
  exact piece_vals v ((subPieces_ok (env.segOf w) hseg.1).1 v hv)

/-- **S4, the whole cluster** every grapheme of a converted cluster is printable and consistent -/
theorem convertRepetitions_lit (cfg : Config) (hmr : 1 ≤ cfg.minRep) (ss : List Str) (hv : ValsOK ss) (hlen : ss.length ≤ 1000) :
    LitS (convertRepetitions cfg (ss.map Grapheme.ofStr)) := by
  unfold convertRepetitions
  cases hc : convertRepsAux cfg ((ss.map Grapheme.ofStr).length + 1) (ss.map Grapheme.ofStr) with
  | none =>
    simp only [Option.getD_none]
    intro g hg
    obtain ⟨s, hs, rfl⟩ := List.mem_map.mp hg
    obtain ⟨as, hne, hok, hchr, rfl⟩ := hv s hs
    exact lit_ofStr as hne hok hchr
  | some res =>
    simp only [Option.getD_some]
    exact fun g hg => ⟨(convertRepsAux_inv cfg hmr _ ss res hv hlen hc g hg).1, (convertRepsAux_inv cfg hmr _ ss res hv hlen hc g hg).2.1⟩

/-- the minimised automaton of `-r` with what the later stages need, for clusters of printable, consistent graphemes -/
theorem min_struct_lit (cfg : Config) (cls : List Cluster) (hcounts : ∀ cl ∈ cls, ∀ g ∈ cl, g.min = g.max)
    (hlit : ∀ cl ∈ cls, LitS cl) :
    ∃ m, minimize (trie cls) pickMin = some m ∧ (Expr.ofDfa cfg m).WFS := by
  obtain ⟨ht, _, _, hra⟩ := trie_r cls hcounts
  have hr := trie_rangeOK cls hcounts
  obtain ⟨p, hp, hst⟩ := minimizePartition_stableR ht
  let m := recreate (trie cls) pickMin p
  have hinit : m.init < m.nodes := by
    show classOf p (trie cls).init < p.length
    exact classOf_lt hst.pinv _ (by rw [ht.init0]; exact ht.pos)
  have hdst : ∀ e ∈ m.edges, e.dst < m.nodes := by
    intro q hqe
    obtain ⟨b, hb, e, he, rfl⟩ := (mem_recreate_edges _ pickMin p q).mp hqe
    have hee := ((mem_outEdges' _ _ e).mp he).1
    show classOf p e.dst < p.length
    exact classOf_lt hst.pinv _ (ht.lt e hee).2
  have hlabels : ∀ e ∈ (trie cls).edges, GOK e.label ∧ GSem e.label :=
    trie_labels_r (fun g => GOK g ∧ GSem g) lit_widen cls (fun cl hcl g hg => hlit cl hcl g hg)
  have hlab : LabelsS_S m := by
    intro q hqe g hg
    simp only [List.mem_singleton] at hg
    subst hg
    obtain ⟨b, hb, e, he, rfl⟩ := (mem_recreate_edges _ pickMin p q).mp hqe
    exact hlabels e ((mem_outEdges' _ _ e).mp he).1
  have hacyc : ∀ c w, Path m c w c → w = [] := fun c w pth => recreate_acyclic_r hst ht hr hra c w pth
  refine ⟨m, by show minimize (trie cls) pickMin = some m; simp only [minimize, hp, Option.map_some, m], ?_⟩
  have := ofDfa_wf_S cfg.cap cfg.esc m hlab (dfsOK_of_bounded m hinit hdst) hacyc
  rwa [ofDfa_congr (c1 := cfg) (c2 := cfgPlain cfg.cap cfg.esc) rfl m]

/-- the settings of the end-to-end theorem with repetition conversion: `-r` with positive thresholds, no class option, case-sensitive,
plain printing (no surrogate pairs, not verbose, no colours), at least one anchor in place; capturing groups and `-e` are free -/
structure RepPrint (cfg : Config) : Prop where
  rep : cfg.rep = true
  minRep : 1 ≤ cfg.minRep
  noClass : cfg.digit = false ∧ cfg.nonDigit = false ∧ cfg.space = false ∧ cfg.nonSpace = false ∧ cfg.word = false ∧ cfg.nonWord = false
  ci : cfg.ci = false
  sur : cfg.sur = false
  verb : cfg.verb = false
  color : cfg.color = false
  anch : (cfg.noStart && cfg.noEnd) = false

/-- without class options the class-conversion step (which also runs for capturing groups) leaves the clusters as they are -/
theorem preClusters_noflags (cfg : Config) (h : RepPrint cfg) (env : Env) (ws : List Str) :
    preClusters cfg env ws = ws.map fun w => clusterOfPieces (env.segOf w) := by
  simp only [preClusters]
  split
  · rw [List.map_map]
    apply List.map_congr_left
    intro w _
    simp only [Function.comp, clusterOfPieces_eq, convertClasses_map]
    apply List.map_congr_left
    intro p _
    rw [flatMap_convChar_noflags cfg (convChar_noflags cfg h.noClass) p]
  · rfl

theorem fmtRegExp_repPrint (cfg : Config) (h : RepPrint cfg) (e : Expr) :
    fmtRegExp cfg e = fmtRegExp (cfgAnch cfg.cap cfg.esc cfg.noStart cfg.noEnd) e := by
  have hb : bodyText cfg e = bodyText (cfgAnch cfg.cap cfg.esc cfg.noStart cfg.noEnd) e :=
    bodyText_congr (c1 := cfg) (c2 := cfgAnch cfg.cap cfg.esc cfg.noStart cfg.noEnd) ⟨rfl, rfl, h.sur, h.verb, h.color⟩ e
  simp only [fmtRegExp, h.ci, h.verb, h.color, hb, cfgAnch, Bool.false_and, Bool.false_eq_true, ite_false]
  cases cfg.noStart <;> cases cfg.noEnd <;> rfl

/-- **the expression `RegExp::from` keeps under `-r` is well-formed for printing** (both anchors in place) -/
theorem rep_final_wfs (cfg : Config) (hp : RepPrint cfg) (env : Env) (ws : List Str) (st : Stages)
    (h : regExpFrom cfg env ws = .ok st) (hseg : ∀ w ∈ ws, SegOK env w)
    (hlen : ∀ w ∈ ws, (clusterOfPieces (env.segOf w)).length ≤ 1000) : st.finalAst.WFS := by
  obtain ⟨hsorted, hcl, htrie, hmin, hfirst⟩ := from_stages_shape cfg env ws st h
  have hfinal := from_final_anchored cfg env ws st h hp.anch
  simp only [hp.ci, Bool.false_eq_true, ite_false] at hsorted
  rw [graphemeClusters_rep cfg env _ hp.rep] at hcl
  rw [preClusters_noflags cfg hp] at hcl
  have hmem : ∀ w ∈ st.sorted, w ∈ ws := fun w hw => by rw [hsorted] at hw; exact (sortCases_mem' ws w).mp hw
  have hall : ∀ cl ∈ st.clusters, LitS cl ∧ ∀ g ∈ cl, g.min = g.max := by
    intro cl hc
    rw [hcl] at hc
    simp only [List.map_map, List.mem_map, Function.comp] at hc
    obtain ⟨w, hw, rfl⟩ := hc
    have hww := hmem w hw
    obtain ⟨hceq, hvals⟩ := cluster_vals env w (hseg w hww)
    have hl := hlen w hww
    rw [hceq] at hl ⊢
    simp only [List.length_map] at hl
    refine ⟨convertRepetitions_lit cfg hp.minRep _ hvals hl, ?_⟩
    apply convertRepetitions_counts
    intro g hg
    obtain ⟨s, _, rfl⟩ := List.mem_map.mp hg
    rfl
  obtain ⟨m, hm, hwfs⟩ := min_struct_lit cfg st.clusters (fun cl hc => (hall cl hc).2) (fun cl hc => (hall cl hc).1)
  rw [← htrie, hmin] at hm
  cases hm
  rw [hfinal, hfirst]
  exact hwfs

theorem value_ofStr' (s : Str) : (Grapheme.ofStr s).value = s := by simp [Grapheme.ofStr, Grapheme.value, Grapheme.chars]

theorem subPieces_flatten_values (pieces : List Str) :
    (((subPieces pieces).map Grapheme.ofStr).map Grapheme.value).flatten = (subPieces pieces).flatten := by
  rw [List.map_map]
  congr 1
  have : (Grapheme.value ∘ Grapheme.ofStr) = id := by funext s; exact value_ofStr' s
  rw [this, List.map_id]

/-- **C01 with `-r`, end to end on the model, all inputs**: the returned text is accepted by the model of `Regex::new` and the compiled
pattern matches every non-empty test case in full -/
theorem rep_end_to_end (cfg : Config) (hp : RepPrint cfg) (env : Env) (ws : List Str) (st : Stages)
    (h : regExpFrom cfg env ws = .ok st) (hseg : ∀ w ∈ ws, SegOK env w)
    (hlen : ∀ w ∈ ws, (clusterOfPieces (env.segOf w)).length ≤ 1000)
    (t : Str) (ht : t ∈ ws) (hne : t ≠ []) :
    ∃ P, Spec.parse (fmtRegExp cfg st.finalAst) = some (⟨false, false⟩, P) ∧ Spec.fullMatch false P t = true := by
  have hwfs := rep_final_wfs cfg hp env ws st h hseg hlen
  obtain ⟨hsorted, _, _, _, hfirst⟩ := from_stages_shape cfg env ws st h
  have hfinal := from_final_anchored cfg env ws st h hp.anch
  simp only [hp.ci, Bool.false_eq_true, ite_false] at hsorted
  have hts : t ∈ st.sorted := by rw [hsorted]; exact (sortCases_mem' ws t).mpr ht
  have hmem : ∀ w ∈ st.sorted, w ∈ ws := fun w hw => by rw [hsorted] at hw; exact (sortCases_mem' ws w).mp hw
  have hsegp : ∀ w ∈ st.sorted, ∀ p ∈ env.segOf w, p ≠ [] := fun w hw p hpp => ((hseg w (hmem w hw)).1 p hpp).1
  -- the cluster of `t`
  have hpc : clusterOfPieces (env.segOf t) ∈ preClusters cfg env st.sorted := by
    rw [preClusters_noflags cfg hp]
    exact List.mem_map_of_mem hts
  obtain ⟨_, hexp, _, _⟩ := rep_pipeline_sound cfg env ws st h hp.rep hsegp _ hpc
  have hflat : (expandAll (convertRepetitions cfg (clusterOfPieces (env.segOf t)))).flatten = t := by
    rw [hexp, clusterOfPieces_eq, subPieces_flatten_values, (subPieces_ok (env.segOf t) (hseg t ht).1).2]
    exact (hseg t ht).2
  have hcne : convertRepetitions cfg (clusterOfPieces (env.segOf t)) ≠ [] := by
    intro hnil
    rw [hnil] at hflat
    exact hne (by simpa [expandAll] using hflat.symm)
  obtain ⟨ls, hls, hcar⟩ := rep_final_expr cfg env ws st h hp.rep hsegp _ hpc hcne
  have hcounts : ∀ g ∈ convertRepetitions cfg (clusterOfPieces (env.segOf t)), g.min = g.max := by
    apply convertRepetitions_counts
    intro g hg
    rw [clusterOfPieces_eq] at hg
    obtain ⟨s, _, rfl⟩ := List.mem_map.mp hg
    rfl
  have hsp := carriesL_spells hcar hcounts
  rw [hflat] at hsp
  have hsc : ∀ c ∈ t, Scalar c := by
    intro c hc
    rw [← (hseg t ht).2] at hc
    obtain ⟨p, hpp, hcp⟩ := List.mem_flatten.mp hc
    exact ((hseg t ht).1 p hpp).2 c hcp
  rw [fmtRegExp_repPrint cfg hp]
  obtain ⟨P, hP, hm⟩ := printed_exactAR cfg.cap cfg.esc cfg.noStart cfg.noEnd st.finalAst hwfs t hsc
  exact ⟨P, hP, hm.mpr ⟨ls, hls, hsp⟩⟩

/-- **the language of the `-r` pattern, exactly** (settings of `RepPrint`; at least one non-empty test case): the compiled pattern matches
a string of scalar values in full iff the minimised automaton has an accepting path whose labels spell it — every label `{m,n}` contributing
its characters `k` times, `m ≤ k ≤ n` -/
theorem rep_exact (cfg : Config) (hp : RepPrint cfg) (env : Env) (ws : List Str) (st : Stages)
    (h : regExpFrom cfg env ws = .ok st) (hseg : ∀ w ∈ ws, SegOK env w)
    (hlen : ∀ w ∈ ws, (clusterOfPieces (env.segOf w)).length ≤ 1000) (hne : ∃ t ∈ ws, t ≠ [])
    (s : Str) (hs : ∀ c ∈ s, Scalar c) :
    ∃ P, Spec.parse (fmtRegExp cfg st.finalAst) = some (⟨false, false⟩, P) ∧
      (Spec.fullMatch false P s = true ↔ ∃ ls, st.minimized.LangFrom st.minimized.init ls ∧ Dfa.Spells ls s) := by
  have hwfs := rep_final_wfs cfg hp env ws st h hseg hlen
  obtain ⟨hsorted, _, _, _, hfirst⟩ := from_stages_shape cfg env ws st h
  have hfinal := from_final_anchored cfg env ws st h hp.anch
  simp only [hp.ci, Bool.false_eq_true, ite_false] at hsorted
  have hmem : ∀ w ∈ st.sorted, w ∈ ws := fun w hw => by rw [hsorted] at hw; exact (sortCases_mem' ws w).mp hw
  have hsegp : ∀ w ∈ st.sorted, ∀ p ∈ env.segOf w, p ≠ [] := fun w hw p hpp => ((hseg w (hmem w hw)).1 p hpp).1
  obtain ⟨_, hlang, hcar⟩ := rep_first_candidate cfg env ws st h hp.rep hsegp
  -- `b[0]` is an expression: some non-empty test case is carried
  obtain ⟨t, ht, htne⟩ := hne
  have hts : t ∈ st.sorted := by rw [hsorted]; exact (sortCases_mem' ws t).mpr ht
  have hpc : clusterOfPieces (env.segOf t) ∈ preClusters cfg env st.sorted := by
    rw [preClusters_noflags cfg hp]
    exact List.mem_map_of_mem hts
  obtain ⟨_, hexp, _, _⟩ := rep_pipeline_sound cfg env ws st h hp.rep hsegp _ hpc
  have hflat : (expandAll (convertRepetitions cfg (clusterOfPieces (env.segOf t)))).flatten = t := by
    rw [hexp, clusterOfPieces_eq, subPieces_flatten_values, (subPieces_ok (env.segOf t) (hseg t ht).1).2]
    exact (hseg t ht).2
  have hcne : convertRepetitions cfg (clusterOfPieces (env.segOf t)) ≠ [] := by
    intro hnil
    rw [hnil] at hflat
    exact htne (by simpa [expandAll] using hflat.symm)
  obtain ⟨w0, hw0, _⟩ := hcar _ hpc hcne
  have hlangE : ∀ ls, st.finalAst.lang ls ↔ st.minimized.LangFrom st.minimized.init ls := by
    intro ls
    rw [hfinal, hfirst, ofDfa_eq, ← hlang ls]
    cases hb : ((List.range st.minimized.nodes).reverse.foldl (elimStep cfg) (elimInit cfg st.minimized st.minimized.dfs)).b.get 0 with
    | none => rw [hb] at hw0; exact absurd hw0 (by simp [olang])
    | some e => simp [olang]
  rw [fmtRegExp_repPrint cfg hp]
  obtain ⟨P, hP, hm⟩ := printed_exactAR cfg.cap cfg.esc cfg.noStart cfg.noEnd st.finalAst hwfs s hs
  refine ⟨P, hP, ?_⟩
  rw [hm]
  simp only [Expr.strLangR]
  constructor
  · rintro ⟨ls, h1, h2⟩; exact ⟨ls, (hlangE ls).mp h1, h2⟩
  · rintro ⟨ls, h1, h2⟩; exact ⟨ls, (hlangE ls).mpr h1, h2⟩

/-- `items $` on the fragment with counted repetition: the search from offset 0 succeeds at once and spans the whole subject -/
theorem find_items_eolC (i : Bool) (its : List Pat) (hf : ∀ p ∈ its, p.FragC) (s : Str) (h : denLC i its s) :
    Spec.find i (catList (its ++ [Pat.eol])) s = some (0, s.length) := by
  have hall : ∀ st ∈ matchP i (catList (its ++ [Pat.eol])) (0, s), st.1 = s.length := by
    intro st hst
    obtain ⟨h1, h2⟩ := (matchP_catList_eol i its 0 s st).mp hst
    obtain ⟨u, _, hs, hn⟩ := (matchP_exactC i _ (fragC_catList its hf) 0 s st).mp h1
    rw [h2] at hs
    simp only [List.append_nil] at hs
    rw [hn, hs]; simp
  have hmem : ((s.length, []) : Pos) ∈ matchP i (catList (its ++ [Pat.eol])) (0, s) := by
    apply (matchP_catList_eol i its 0 s _).mpr
    exact ⟨(matchP_exactC i _ (fragC_catList its hf) 0 s _).mpr ⟨s, (denC_catList i its s).mpr h, by simp, by simp⟩, rfl⟩
  cases hm : matchP i (catList (its ++ [Pat.eol])) (0, s) with
  | nil => rw [hm] at hmem; simp at hmem
  | cons st rest =>
    have hst := hall st (by rw [hm]; exact List.mem_cons_self)
    unfold Spec.find
    cases hl : s.length with
    | zero => simp only [findFrom, hm]; rw [hst, hl]
    | succ n => simp only [findFrom, hm]; rw [hst, hl]

/-- **C08, the search half, with `-r`** (start anchor disabled, end anchor in place): `Regex::find` on every non-empty test case returns the
whole test case -/
theorem rep_find_eol (cfg : Config) (hp : RepPrint cfg) (hns : cfg.noStart = true) (hne' : cfg.noEnd = false)
    (env : Env) (ws : List Str) (st : Stages)
    (h : regExpFrom cfg env ws = .ok st) (hseg : ∀ w ∈ ws, SegOK env w)
    (hlen : ∀ w ∈ ws, (clusterOfPieces (env.segOf w)).length ≤ 1000)
    (t : Str) (ht : t ∈ ws) (hne : t ≠ []) :
    ∃ P, Spec.parse (fmtRegExp cfg st.finalAst) = some (⟨false, false⟩, P) ∧ Spec.find false P t = some (0, t.length) := by
  have hwfs := rep_final_wfs cfg hp env ws st h hseg hlen
  have hwr := Expr.WFS.toWFR _ hwfs
  obtain ⟨P, hP, hm⟩ := rep_end_to_end cfg hp env ws st h hseg hlen t ht hne
  have hP2 := parse_printedAR cfg.cap cfg.esc true false st.finalAst hwr
  rw [fmtRegExp_repPrint cfg hp, hns, hne'] at hP
  rw [hP2] at hP
  simp only [Option.some.injEq, Prod.mk.injEq, true_and] at hP
  subst hP
  rw [fmtRegExp_repPrint cfg hp, hns, hne']
  refine ⟨_, hP2, ?_⟩
  have hfr := Expr.bothR_fragC cfg.cap cfg.esc st.finalAst hwr
  have hitems : ∀ p ∈ topItemsR cfg.cap cfg.esc st.finalAst, p.FragC := by
    unfold topItemsR
    split
    · intro p hp; simp only [List.mem_singleton] at hp; subst hp; exact hfr.2
    · exact hfr.1
  have hden : denLC false (topItemsR cfg.cap cfg.esc st.finalAst) t :=
    (fullMatch_items_anchC false true false _ hitems t).mp hm
  have := find_items_eolC false _ hitems t hden
  simpa [preA, postA] using this

end Grexv
